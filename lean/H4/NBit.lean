import H4.Gen.Cnbit
import H4.BitIO
/-! Model of `hdf/src/cnbit.c` (C05): the n-bit coder.  A value of `nt_size` bytes is seen by the coder in FILE byte order
    (big-endian for the standard number types: byte 0 holds bits `8·nt_size-1 .. 8·nt_size-8`); the bit field
    `start_bit, start_bit-1, …, start_bit-bit_len+1` (`mask_off`/`mask_len`) is kept, all other bits are dropped by the
    encoder and re-created by the decoder from `fill_one`/`sign_ext`.
    The configuration is assumed valid (`1 ≤ mask_len ≤ mask_off+1 ≤ 8·nt_size`, `nt_size ≤ NBIT_MASK_SIZE`): the C `int`
    arithmetic is done on `Nat`.  Tables and sizes come from the generated `H4.Gen.Cnbit` (Tie A).  No Mathlib. -/
namespace H4.NBit
open H4.Gen.Cnbit

structure Cfg where
  ntSize : Nat
  signExt : Bool
  fillOne : Bool
  maskOff : Nat     -- `start_bit`
  maskLen : Nat     -- `bit_len`
deriving Repr, DecidableEq

/-- `nbit_mask_info_t` -/
structure MaskInfo where
  offset : Nat := 0
  length : Nat := 0
  mask : Nat := 0
deriving Repr, DecidableEq

def arr8 (k : Nat) : Nat := mask_arr8.getD k 0
def arr32 (k : Nat) : Nat := mask_arr32.getD k 0

/-- body of the `for (i = 0; i < nt_size; i++)` loop of `HCIcnbit_init` for one byte whose bits are `topBit..botBit`;
    the Boolean is the `break` -/
def maskStep (maskTop maskBot topBit botBit : Nat) : MaskInfo × Bool :=
  if maskTop ≥ topBit then
    if maskBot ≤ botBit then ({ offset := 7, length := 8, mask := arr8 8 }, false)
    else
      let l := topBit + 1 - maskBot     -- `(top_bit - mask_bot) + 1` (can be 0: the field ended with the previous byte)
      ({ offset := 7, length := l, mask := (arr8 l <<< (8 - l)) % 256 }, true)
  else if maskTop ≥ botBit then
    if maskBot < botBit then
      ({ offset := maskTop - botBit, length := (maskTop - botBit) + 1, mask := arr8 ((maskTop - botBit) + 1) }, false)
    else
      ({ offset := maskTop - botBit, length := (maskTop - maskBot) + 1,
         mask := (arr8 ((maskTop - maskBot) + 1) <<< (maskBot - botBit)) % 256 }, true)
  else ({}, false)

/-- the loop itself: `n` bytes left, `topBit`/`botBit` of the current byte; after a `break` the remaining entries keep the
    zeros of the `memset` -/
def maskLoop (maskTop maskBot : Nat) : Nat → Nat → Nat → Bool → List MaskInfo
  | 0, _, _, _ => []
  | n+1, topBit, botBit, done =>
    if done then {} :: maskLoop maskTop maskBot n (topBit - 8) (botBit - 8) true
    else
      let (mi, brk) := maskStep maskTop maskBot topBit botBit
      mi :: maskLoop maskTop maskBot n (topBit - 8) (botBit - 8) brk

/-- `mask_info[0 .. nt_size)` as set up by `HCIcnbit_init` -/
def maskInfos (c : Cfg) : List MaskInfo :=
  maskLoop c.maskOff (c.maskOff + 1 - c.maskLen) c.ntSize (c.ntSize * 8 - 1) (c.ntSize * 8 - 8) false

/-- `mask_buf[0 .. nt_size)`: `memset(fill_one ? 0xff : 0)` then `mask_buf[i] &= ~mask_info[i].mask` when filling with ones -/
def maskBuf (c : Cfg) : List Nat :=
  (maskInfos c).map fun mi => if c.fillOne then 255 &&& (255 ^^^ (mi.mask % 256)) else 0

/-- `(mask_info->offset - mask_info->length) + 1` -/
def MaskInfo.shift (mi : MaskInfo) : Nat := mi.offset + 1 - mi.length

/-- one iteration of the loop of `HCIcnbit_encode`: the `Hbitwrite(aid, length, output_bits)` call made for byte `x` -/
def encByte (mi : MaskInfo) (x : UInt8) : List (Nat × Nat) :=
  if mi.length > 0 then [(mi.length, (x.toNat &&& mi.mask) >>> mi.shift)] else []

/-- `HCIcnbit_encode(info, |data|, data)` starting at `nt_pos = pos`: the `Hbitwrite` calls and the final `nt_pos`
    (the encoder is a per-byte fold, so any partition of `data` into `Hwrite` calls gives the same calls) -/
def encode (c : Cfg) : Nat → List UInt8 → List (Nat × Nat) × Nat
  | pos, [] => ([], pos)
  | pos, x :: xs =>
    let f := encByte ((maskInfos c).getD pos {}) x
    let pos' := if pos + 1 ≥ c.ntSize then 0 else pos + 1
    let (fs, p) := encode c pos' xs
    (f ++ fs, p)

/-- widths of the `Hbitread` calls made for one item -/
def itemWidths (c : Cfg) : List Nat := (maskInfos c).filterMap fun mi => if mi.length > 0 then some mi.length else none

/-- `*rbuf |= (uint8)(mask & (uint8)(input_bits << shift))` on top of the mask-buffer byte `mb` -/
def decByte (mi : MaskInfo) (mb v : Nat) : Nat := (mb ||| (mi.mask &&& ((v <<< mi.shift) % 256))) % 256

/-- the inner `for (j = 0; j < nt_size; j++)` loop of `HCIcnbit_decode` for one item: bytes, and the `sign_bit` found in
    byte `signByte` (`sign_mask & input_bits`, `input_bits` already shifted); `vals` are the words returned by `Hbitread` -/
def decBytes (signByte signMask : Nat) : Nat → List MaskInfo → List Nat → List Nat → Option Bool → List Nat × Option Bool
  | _, [], _, _, sb => ([], sb)
  | _, _ :: _, [], _, sb => ([], sb)
  | j, mi :: mis, mb :: mbs, vals, sb =>
    if mi.length > 0 then
      match vals with
      | [] => ([], sb)
      | v :: vs =>
        let sb' := if j = signByte then some (signMask &&& ((v <<< mi.shift) % 2 ^ 32) != 0) else sb
        let (r, s) := decBytes signByte signMask (j + 1) mis mbs vs sb'
        (decByte mi mb v :: r, s)
    else
      let (r, s) := decBytes signByte signMask (j + 1) mis mbs vals sb
      (mb :: r, s)

/-- one item of the refill loop of `HCIcnbit_decode` (both branches: with and without sign extension);
    `prevSign` is the C variable `sign_bit` left by the previous item -/
def decItem (c : Cfg) (vals : List Nat) (prevSign : Bool := false) : List UInt8 × Bool :=
  let signExtMask := (255 ^^^ (arr32 (c.maskOff % 8) % 256))       -- (uint8)~mask_arr32[mask_off % 8]
  let signByte := c.ntSize - ((c.maskOff / 8) + 1)
  let signMask := arr32 ((c.maskOff % 8) + 1) ^^^ arr32 (c.maskOff % 8)
  let (bytes, sb) := decBytes signByte signMask 0 (maskInfos c) (maskBuf c) vals none
  let sign := sb.getD prevSign
  if c.signExt then
    if sign != c.fillOne then
      let out := bytes.mapIdx fun j b =>
        if j < signByte then (if sign then 255 else 0)
        else if j = signByte then (if sign then (b ||| signExtMask) % 256 else b &&& (255 ^^^ signExtMask))
        else b
      (out.map UInt8.ofNat, sign)
    else (bytes.map UInt8.ofNat, sign)
  else (bytes.map UInt8.ofNat, prevSign)

/-- the decoder side of an n-bit element: the bit id plus `buffer`, `buf_pos` of `comp_coder_nbit_info_t` -/
structure Dec where
  st : H4.BitIO.St
  buffer : List UInt8
  bufPos : Nat := NBIT_BUF_SIZE
  /-- `buf_len`: number of expanded bytes in the buffer (0 after `HCIcnbit_init`) -/
  bufLen : Nat := 0
  sign : Bool := false
  fail : Bool := false

/-- `buf_items` items decoded from the bit id (the `for (i = 0; i < buf_items; i++)` loop) -/
def refillItems (c : Cfg) : Nat → H4.BitIO.St → Bool → Option (List UInt8 × H4.BitIO.St × Bool)
  | 0, st, sg => some ([], st, sg)
  | k+1, st, sg =>
    match H4.BitIO.readFieldsS st (itemWidths c) with
    | none => none
    | some (vals, st') =>
      let (item, sg') := decItem c vals sg
      match refillItems c k st' sg' with
      | none => none
      | some (r, st'', sg'') => some (item ++ r, st'', sg'')

/-- the `while (length > 0)` loop of `HCIcnbit_decode`; fuel = length + 1.  When everything expanded so far has been
    delivered (`buf_pos >= buf_len`) the buffer is re-filled with what the rest of the request needs: at most a buffer full,
    at least one item -/
def decodeLoop (c : Cfg) : Nat → Dec → Nat → List UInt8 → Dec × List UInt8
  | 0, d, _, acc => (d, acc)
  | fuel+1, d, length, acc =>
    if length = 0 then (d, acc)
    else
      let d :=
        if d.bufPos ≥ d.bufLen then
          let bufItems := max (min NBIT_BUF_SIZE length / c.ntSize) 1
          match refillItems c bufItems d.st d.sign with
          | none => { d with fail := true, bufPos := 0, bufLen := bufItems * c.ntSize }
          | some (items, st, sg) =>
            { d with st := st, sign := sg, buffer := items ++ d.buffer.drop items.length, bufPos := 0, bufLen := bufItems * c.ntSize }
        else d
      let copy := if length > d.bufLen - d.bufPos then d.bufLen - d.bufPos else length
      decodeLoop c fuel { d with bufPos := d.bufPos + copy } (length - copy)
        (acc ++ (d.buffer.drop d.bufPos).take copy)

/-- `HCIcnbit_decode(info, length, buf)` (one `Hread` of `length` bytes) -/
def decode (c : Cfg) (d : Dec) (length : Nat) : Dec × List UInt8 :=
  decodeLoop c (length + 1) d length []

/-- `HCPcnbit_seek(access_rec, offset, origin)`: only to whole values -/
def seek (c : Cfg) (d : Dec) (offset : Nat) : Dec :=
  if offset % c.ntSize ≠ 0 then { d with fail := true }
  else
    let bitOffset := (offset / c.ntSize) * c.maskLen
    let (st, ok) := H4.BitIO.bitseek d.st (bitOffset / 8) (bitOffset % 8)
    if ok then { d with st := st, bufPos := NBIT_BUF_SIZE } else { d with st := st, fail := true }

/-- one step of a read script: `Hread` of `n` bytes or `Hseek` to an offset -/
inductive Op where
  | read (n : Nat)
  | seek (off : Nat)

/-- a sequence of `Hread`s / `Hseek`s -/
def runOps (c : Cfg) : Dec → List Op → List (List UInt8)
  | _, [] => []
  | d, .read n :: ns => let (d', o) := decode c d n; o :: runOps c d' ns
  | d, .seek off :: ns => runOps c (seek c d off) ns

/-- a sequence of `Hread`s -/
def decodeAll (c : Cfg) (d : Dec) (lens : List Nat) : List (List UInt8) := runOps c d (lens.map .read)

/-- raw bytes of an n-bit element written sequentially with `data` (`Hendbitaccess(aid, 0)` at the end) -/
def compress (c : Cfg) (data : List UInt8) : List UInt8 := H4.BitIO.pack (encode c 0 data).1 (some false)

/-- reads of the given lengths from the start of an element whose raw bytes are `raw`; `stale` = initial content of the
    expansion buffer (uninitialised memory in C) -/
def readBack (c : Cfg) (raw : List UInt8) (lens : List Nat) (stale : UInt8 := 0) : List (List UInt8) :=
  decodeAll c { st := H4.BitIO.startRead raw, buffer := List.replicate NBIT_BUF_SIZE stale } lens

/-- same with seeks -/
def readScript (c : Cfg) (raw : List UInt8) (ops : List Op) (stale : UInt8 := 0) : List (List UInt8) :=
  runOps c { st := H4.BitIO.startRead raw, buffer := List.replicate NBIT_BUF_SIZE stale } ops

/-! ### specification: the documented projection, on the bit list of a value (independent of the masks above) -/

/-- bits of one value, most significant first (`bits.length = 8·nt_size`): the `hi = 8·nt_size-1-start_bit` bits above the
    field become copies of the field's top bit when sign-extending, else the fill bit; the `bit_len` field bits are kept;
    the bits below become the fill bit -/
def projectBits (c : Cfg) (bits : List Bool) : List Bool :=
  let hi := bits.length - 1 - c.maskOff
  let field := (bits.drop hi).take c.maskLen
  let top := if c.signExt then field.headD false else c.fillOne
  List.replicate hi top ++ field ++ List.replicate (bits.length - hi - c.maskLen) c.fillOne

/-- bytes of a bit list whose length is a multiple of 8 -/
def bitsBytes : Nat → List Bool → List UInt8
  | 0, _ => []
  | n+1, l => UInt8.ofNat (H4.Bits.ofBits (l.take 8)) :: bitsBytes n (l.drop 8)

/-- the projection of one value given as its `nt_size` bytes in file order -/
def project (c : Cfg) (v : List UInt8) : List UInt8 := bitsBytes v.length (projectBits c (H4.Bits.bytesBits v))

/-- the projection of a sequence of whole values -/
def projectAll (c : Cfg) : Nat → List UInt8 → List UInt8
  | 0, _ => []
  | fuel+1, data =>
    if data.length < c.ntSize ∨ c.ntSize = 0 then []
    else project c (data.take c.ntSize) ++ projectAll c fuel (data.drop c.ntSize)

end H4.NBit
