import H4.Lemmas.C07Fn2
import H4.Lemmas.Format
/-! C07, function-level Tie A: `vpackvs` of `hdf/src/vio.c`, as translated statement by statement from the CURRENT C text
    (`H4.Gen.Fn.Vio`, written by gen/c2lean.py on every run), writes exactly the `DFTAG_VH` record of the hand-written model
    `H4.Format.vpackvs` (the record `H4.Props.C02.vunpackvs_vpackvs` is about: the Vdata header that carries the write list of
    C07 across `Hclose`/`Hopen`); it leaves the bytes of `buf` behind the record alone, sets `*size` to the record length (with
    the historical extra byte), never indexes outside a region (`ub = false`) and its six loops terminate (`oof = false`).
    A change of the C text changes the generated definition; these theorems are re-checked against it. -/
namespace H4.Props.C07Fn
open H4 H4.Format H4.Gen.Hdf H4.C2L H4.Lemmas.C07Fn
open H4.Lemmas.C08Fn (bytesI)

/-- what the translated C needs of its arguments when they describe the model header `v` (all decidable):
    `wlist.n` and `nattrs` (read only under `VS_ATTR_SET`) are non-negative `int`s, `flags` is a `uint32`, every name (fields,
    `vsname`, `vsclass`) is a C string (no NUL inside) shorter than 32768 bytes, so that `slen = (int16)strlen(…)` is the
    length and `bb += slen` moves forward.  The integer fields (`interlace`, `nvertices`, types, `version`, `more`, `findex`,
    `ivsize`, sizes, offsets, orders, tags, refs) need no bound: both sides keep the low 16 / 32 bits. -/
def Pre (v : VH) : Prop :=
  v.fields.length < 2147483648 ∧ (∀ f ∈ v.fields, NameOK f.name) ∧ NameOK v.name ∧ NameOK v.cls ∧ v.flags < 4294967296 ∧
  (v.flags % 2 = 1 → v.attrs.length < 2147483648)

instance (v : VH) : Decidable (Pre v) := by unfold Pre; infer_instance

/-- **`vpackvs` as translated from vio.c computes the model's record** — for EVERY header `v` that satisfies `Pre` (any
    number of fields and attributes, any names), every caller buffer and every content of the unused array tails.

    Arguments of the C function: `vs->wlist.n = |fields|`; `wlist.type[]`, `isize[]`, `off[]`, `order[]` hold the per-field
    values followed by arbitrary cells (`tpad` …); `wlist.name[]` holds one NUL-terminated row per field (each followed by
    `rowpad`) and arbitrary further rows; `vsname`/`vsclass` are NUL-terminated and followed by `npad`/`cpad` (the C arrays
    have `VSNAMELENMAX + 1` cells); `nattrs = |attrs|`, `alist[].findex/.atag/.aref` hold the attributes followed by arbitrary
    cells; `size` is any non-empty region.
    C-level preconditions: `buf` has at least `|vpackvs v|` cells — the record INCLUDING the historical extra byte, which also
    covers the NUL that every `strcpy` stores behind a name (it lands on the first byte of the following field) — and `fuel`
    bounds the loop counts.
    Result: no undefined behaviour, all loops terminate, `buf` = the model's record followed by the caller's bytes beyond it,
    `*size` = the record length, return value `SUCCEED`. -/
theorem vpackvs_refines (v : VH) (hp : Pre v) (fuel : Nat) (hf1 : v.fields.length ≤ fuel)
    (hf2 : v.flags % 2 = 1 → v.attrs.length ≤ fuel)
    (tpad ipad opad dpad rowpad : List Int) (rows : List (List Int)) (npad cpad fpad atpad arpad buf size : List Int)
    (hbuf : (Format.vpackvs v).length ≤ buf.length) (hsize : 0 < size.length) :
    let s := vpackvsC fuel v.interlace v.nvert (v.ivsize : Int) (v.fields.length : Int) (v.fields.map (·.type) ++ tpad)
      (ints (v.fields.map (·.isize)) ++ ipad) (ints (v.fields.map (·.off)) ++ opad) (ints (v.fields.map (·.order)) ++ dpad)
      (v.fields.map (fun f => bytesI f.name ++ 0 :: rowpad) ++ rows) (bytesI v.name ++ 0 :: npad) (bytesI v.cls ++ 0 :: cpad)
      (v.extag : Int) (v.exref : Int) v.version v.more (v.flags : Int) (v.attrs.length : Int) (v.attrs.map (·.findex) ++ fpad)
      (ints (v.attrs.map (·.atag)) ++ atpad) (ints (v.attrs.map (·.aref)) ++ arpad) buf size
    s.ub = false ∧ s.oof = false ∧
      s.buf = bytesI (Format.vpackvs v) ++ buf.drop (Format.vpackvs v).length ∧
      s.size = size.set 0 ((Format.vpackvs v).length : Int) ∧ s.ret = 0 := by
  obtain ⟨h1, h2, h3, h4, h5, h6⟩ := hp
  exact vpackvs_run v fuel tpad ipad opad dpad rowpad rows npad cpad fpad atpad arpad buf size h1 h2 h3 h4 h5 h6 hf1 hf2 hbuf hsize

/-- the hypotheses are satisfiable and the translated code runs (kernel evaluation of the generated definition): two fields,
    version 4 with the flags word and two attributes -/
example :
    let v : VH := ⟨0, 20, 12, [⟨24, 4, 0, 1, [0x61]⟩, ⟨5, 8, 4, 2, [0x62, 0x63]⟩], [0x74], [0x63], 0, 0, 4, 0, 1, [⟨-1, 1962, 9⟩, ⟨1, 1962, 10⟩]⟩
    Pre v ∧ (Format.vpackvs v).length = 76 ∧
    let s := vpackvsC 2 0 20 12 2 [24, 5] [4, 8, 77] [0, 4] [1, 2] [[0x61, 0], [0x62, 0x63, 0], [9]] [0x74, 0, 5] [0x63, 0] 0 0 4 0 1 2
      [-1, 1] [1962, 1962] [9, 10] (List.replicate 78 (-1)) [0]
    s.ub = false ∧ s.oof = false ∧ s.buf = bytesI (Format.vpackvs v) ++ [-1, -1] ∧ s.size = [76] := by
  decide +kernel

/-- a Vdata without fields (the loops are skipped), negative `interlace`/`version`: `INT16ENCODE` keeps the low 16 bits -/
example :
    let v : VH := ⟨-2, -1, 0, [], [], [0x41], 7, 65535, -3, 1, 0, []⟩
    Pre v ∧
    let s := vpackvsC 0 (-2) (-1) 0 0 [] [] [] [] [] [0] [0x41, 0] 7 65535 (-3) 1 0 0 [] [] [] (List.replicate 30 9) [0]
    s.ub = false ∧ s.oof = false ∧ s.buf.take (Format.vpackvs v).length = bytesI (Format.vpackvs v) ∧
      s.size = [((Format.vpackvs v).length : Int)] := by
  decide +kernel

/-- the same run as the first example through the theorem -/
example :
    let v : VH := ⟨0, 20, 12, [⟨24, 4, 0, 1, [0x61]⟩, ⟨5, 8, 4, 2, [0x62, 0x63]⟩], [0x74], [0x63], 0, 0, 4, 0, 1, [⟨-1, 1962, 9⟩, ⟨1, 1962, 10⟩]⟩
    let s := vpackvsC 2 0 20 12 2 [24, 5] [4, 8, 77] [0, 4] [1, 2] [[0x61, 0], [0x62, 0x63, 0], [9]] [0x74, 0, 5] [0x63, 0] 0 0 4 0 1 2
      [-1, 1] [1962, 1962] [9, 10] (List.replicate 78 (-1)) [0]
    s.ub = false ∧ s.buf = bytesI (Format.vpackvs v) ++ (List.replicate 78 (-1)).drop (Format.vpackvs v).length :=
  have h := vpackvs_refines ⟨0, 20, 12, [⟨24, 4, 0, 1, [0x61]⟩, ⟨5, 8, 4, 2, [0x62, 0x63]⟩], [0x74], [0x63], 0, 0, 4, 0, 1, [⟨-1, 1962, 9⟩, ⟨1, 1962, 10⟩]⟩
    (by decide) 2 (by decide) (by decide) [] [77] [] [] [] [[9]] [5] [] [] [] [] (List.replicate 78 (-1)) [0] (by decide) (by decide)
  ⟨h.1, h.2.2.1⟩

/-- **the C02 Vdata-header round trip holds for the bytes the C text writes**: for every header the format represents
    (`VH.WF`, the hypothesis of `H4.Props.C02.vunpackvs_vpackvs`) whose names are C strings (`Pre`), the first `*size` bytes of
    `buf` after the translated `vpackvs` are a record that the model's `vunpackvs` reads back as `v`. -/
theorem vpackvs_c_roundtrip (v : VH) (hw : v.WF) (hp : Pre v) (fuel : Nat) (hf1 : v.fields.length ≤ fuel)
    (hf2 : v.attrs.length ≤ fuel)
    (tpad ipad opad dpad rowpad : List Int) (rows : List (List Int)) (npad cpad fpad atpad arpad buf size : List Int)
    (hbuf : (Format.vpackvs v).length ≤ buf.length) (hsize : 0 < size.length) :
    let s := vpackvsC fuel v.interlace v.nvert (v.ivsize : Int) (v.fields.length : Int) (v.fields.map (·.type) ++ tpad)
      (ints (v.fields.map (·.isize)) ++ ipad) (ints (v.fields.map (·.off)) ++ opad) (ints (v.fields.map (·.order)) ++ dpad)
      (v.fields.map (fun f => bytesI f.name ++ 0 :: rowpad) ++ rows) (bytesI v.name ++ 0 :: npad) (bytesI v.cls ++ 0 :: cpad)
      (v.extag : Int) (v.exref : Int) v.version v.more (v.flags : Int) (v.attrs.length : Int) (v.attrs.map (·.findex) ++ fpad)
      (ints (v.attrs.map (·.atag)) ++ atpad) (ints (v.attrs.map (·.aref)) ++ arpad) buf size
    s.ub = false ∧ s.oof = false ∧
      ∃ rec : Bytes, s.buf.take (s.size.getD 0 0).toNat = bytesI rec ∧ vunpackvs rec = some v := by
  obtain ⟨r1, r2, r3, r4, _⟩ := vpackvs_refines v hp fuel hf1 (fun _ => hf2) tpad ipad opad dpad rowpad rows npad cpad fpad atpad arpad
    buf size hbuf hsize
  refine ⟨r1, r2, Format.vpackvs v, ?_, Format.vunpackvs_vpackvs v hw⟩
  rw [r3, r4]
  have : ((size.set 0 ((Format.vpackvs v).length : Int)).getD 0 0).toNat = (bytesI (Format.vpackvs v)).length := by
    cases size with
    | nil => exact absurd hsize (by decide)
    | cons a t => simp
  rw [this, List.take_left']
  rfl

end H4.Props.C07Fn
