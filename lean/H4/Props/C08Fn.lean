import H4.Lemmas.C08Fn
import H4.Lemmas.VGroupCodec
/-! C08, function-level Tie A: `vpackvg` of `hdf/src/vgp.c`, as translated statement by statement from the CURRENT C text
    (`H4.Gen.Fn.Vgp`, written by gen/c2lean.py on every run), writes exactly the `DFTAG_VG` record of the hand-written model
    `H4.VGroup.vpackvgF true` (= `H4.VGroup.vpackvg` on every Vgroup the format can represent, `fixed3_changes_nothing_wf`),
    which is the record the C08 codec theorems (`H4.Props.C08.vpackvg_roundtrip` …) are about; it stores nothing outside
    `buf[0 .. *size)`, leaves the rest of `buf` alone, sets `*size` to the record length (with the historical extra byte),
    applies the model's version rule to `vg->version`, never indexes outside a region (`ub = false`) and its loops terminate
    (`oof = false`).  A change of the C text changes the generated definition; these theorems are re-checked against it. -/
namespace H4.Props.C08Fn
open H4 H4.VGroup H4.Gen.Hdf H4.C2L H4.Lemmas.C08Fn

/-- a `char *` argument: `NULL` for `none` (the region is then never read: any `pad`), otherwise the bytes, the terminating
    NUL and whatever follows it in memory -/
def cstring (nm : Option Bytes) (pad : List Int) : List Int :=
  match nm with
  | none => pad
  | some b => bytesI b ++ 0 :: pad

theorem cstring_arg (nm : Option Bytes) (pad : List Int) : StrArg nm nm.isNone (cstring nm pad) := by
  cases nm with
  | none => rfl
  | some b => exact ⟨rfl, pad, rfl⟩

/-- what the translated C needs of its arguments when they describe the model Vgroup `g` (all decidable):
    * `nvelt` is a `uint16`; names are C strings shorter than 65536 bytes (so that `(uint16)strlen` loses nothing);
    * `flags` is a `uint32`, `version` a 16-bit pattern, `nattrs` (read only under `VG_ATTR_SET`) a non-negative `int32`;
    * `more` and the version WRITTEN (`packVersion g`: 4 if flags are set and the version is below 4) are non-negative as
      `int16`: their low byte is produced by `(i) & 0xff` on a signed operand, which the translator treats as undefined for
      negative values (see the report; the high byte goes through `(uintn)` and is fine).
    Tags, refs, `extag`, `exref` need no bound: both sides truncate to 16 bits alike. -/
def Pre (g : VG) : Prop :=
  g.members.length < 65536 ∧ NameMemOK g.name ∧ NameMemOK g.cls ∧ g.flags < 4294967296 ∧ g.version < 65536 ∧
  packVersion g < 32768 ∧ g.more < 32768 ∧ (g.flags &&& VG_ATTR_SET ≠ 0 → g.attrs.length < 2147483648)

instance (g : VG) : Decidable (Pre g) := by unfold Pre; infer_instance

/-- **`vpackvg` as translated from vgp.c computes the model's record** — for EVERY Vgroup `g` that satisfies `Pre`
    (any number of members and attributes, any names), every caller buffer and every content of the unused array tails.

    Arguments of the C function: `vg->nvelt = |members|`, `vg->tag[]`/`vg->ref[]` hold the members followed by arbitrary
    cells `tpad`/`rpad` (the arrays have `msize ≥ nvelt` cells), `vg->vgname`/`vg->vgclass` are `cstring`s,
    `vg->version` is the `int16` value of the model's 16-bit pattern, `vg->nattrs = |attrs|`, `vg->alist[].atag/.aref`
    hold the attributes followed by `atpad`/`arpad`, `size` is any non-empty region (`int32 *size`).
    C-level preconditions: `buf` has at least `|vpackvgF true g|` cells — that is the record INCLUDING the historical
    extra byte (`*bb = 0` after the `more` field) and it also covers the terminating NUL that `strcpy` stores behind each
    name (it lands on the first byte of the following field) — and `fuel` bounds the two loop counts.
    Result: no undefined behaviour, all loops terminate, `buf` = the model's record followed by the caller's bytes
    beyond it, `*size` = the record length, `vg->version` = the model's version rule, return value `SUCCEED`. -/
theorem vpackvg_refines (g : VG) (hp : Pre g) (fuel : Nat) (hf1 : g.members.length ≤ fuel)
    (hf2 : g.flags &&& VG_ATTR_SET ≠ 0 → g.attrs.length ≤ fuel)
    (tpad rpad npad cpad atpad arpad buf size : List Int)
    (hbuf : (vpackvgF true g).length ≤ buf.length) (hsize : 0 < size.length) :
    let s := vpackvgC fuel (g.members.length : Int) (ints (g.members.map (·.1)) ++ tpad) (ints (g.members.map (·.2)) ++ rpad)
      g.name.isNone (cstring g.name npad) g.cls.isNone (cstring g.cls cpad) (g.extag : Int) (g.exref : Int) (g.flags : Int)
      (toI16 g.version) (g.attrs.length : Int) (ints (g.attrs.map (·.1)) ++ atpad) (ints (g.attrs.map (·.2)) ++ arpad)
      (g.more : Int) buf size
    s.ub = false ∧ s.oof = false ∧
      s.buf = bytesI (vpackvgF true g) ++ buf.drop (vpackvgF true g).length ∧
      s.size = size.set 0 ((vpackvgF true g).length : Int) ∧
      s.vg_version = toI16 (packVersion g) ∧ s.ret = 0 := by
  obtain ⟨h1, h2, h3, h4, h5, h6, h7, h8⟩ := hp
  exact vpackvg_run g fuel tpad rpad atpad arpad _ _ _ _ buf size h1 h2 h3 (cstring_arg _ _) (cstring_arg _ _) h4 h5 h6 h7 h8
    hf1 hf2 hbuf hsize

/-- the hypotheses are satisfiable and the translated code runs (kernel evaluation of the generated definition):
    two members, a name, no class, version 3 -/
example :
    let g : VG := { members := [(1965, 2), (1962, 3)], name := some [65, 66], version := 3, more := 7 }
    Pre g ∧ (vpackvgF true g).length = 25 ∧
    let s := vpackvgC 2 2 [1965, 1962, 9] [2, 3] false [65, 66, 0, 99] true [] 0 0 0 3 0 [] [] 7 (List.replicate 27 (-1)) [0]
    s.ub = false ∧ s.oof = false ∧ s.buf = bytesI (vpackvgF true g) ++ [-1, -1] ∧ s.size = [25] ∧ s.vg_version = 3 := by
  decide +kernel

/-- flags and attributes: the version is bumped from 3 to 4, the flags word, `nattrs` and the attribute list are written -/
example :
    let g : VG := { members := [(720, 65535)], cls := some [67], version := 3, flags := 1, attrs := [(1962, 5), (1962, 6)] }
    Pre g ∧ packVersion g = 4 ∧
    let s := vpackvgC 2 1 [720] [65535] true [] false [67, 0] 0 0 1 3 2 [1962, 1962] [5, 6] 0 (List.replicate 40 0) [0]
    s.ub = false ∧ s.oof = false ∧ s.buf.take 36 = bytesI (vpackvgF true g) ∧ s.size = [36] ∧ s.vg_version = 4 := by
  decide +kernel

/-- the same run through the theorem -/
example :
    let g : VG := { members := [(720, 65535)], cls := some [67], version := 3, flags := 1, attrs := [(1962, 5), (1962, 6)] }
    let s := vpackvgC 2 1 [720] [65535] true [] false [67, 0] 0 0 1 3 2 [1962, 1962] [5, 6] 0 (List.replicate 40 0) [0]
    s.ub = false ∧ s.buf = bytesI (vpackvgF true g) ++ (List.replicate 40 0).drop (vpackvgF true g).length :=
  have h := vpackvg_refines { members := [(720, 65535)], cls := some [67], version := 3, flags := 1, attrs := [(1962, 5), (1962, 6)] }
    (by decide) 2 (by decide) (by decide) [] [] [] [] [] [] (List.replicate 40 0) [0] (by decide) (by decide)
  ⟨h.1, h.2.2.1⟩

/-- **on every Vgroup the format represents** (`VG.WFmem`, the hypothesis of the C08 record theorems) the translated C
    writes the record `H4.VGroup.vpackvg g` of the model and leaves `vg->version` as it is.  Beyond `WFmem` only the
    sign conditions of `Pre` remain (`more`, `version` non-negative as `int16`). -/
theorem vpackvg_refines_wf (g : VG) (hw : g.WFmem) (hv : g.version < 32768) (hm : g.more < 32768)
    (fuel : Nat) (hf1 : g.members.length ≤ fuel) (hf2 : g.attrs.length ≤ fuel)
    (tpad rpad npad cpad atpad arpad buf size : List Int)
    (hbuf : (VGroup.vpackvg g).length ≤ buf.length) (hsize : 0 < size.length) :
    let s := vpackvgC fuel (g.members.length : Int) (ints (g.members.map (·.1)) ++ tpad) (ints (g.members.map (·.2)) ++ rpad)
      g.name.isNone (cstring g.name npad) g.cls.isNone (cstring g.cls cpad) (g.extag : Int) (g.exref : Int) (g.flags : Int)
      (toI16 g.version) (g.attrs.length : Int) (ints (g.attrs.map (·.1)) ++ atpad) (ints (g.attrs.map (·.2)) ++ arpad)
      (g.more : Int) buf size
    s.ub = false ∧ s.oof = false ∧
      s.buf = bytesI (VGroup.vpackvg g) ++ buf.drop (VGroup.vpackvg g).length ∧
      s.size = size.set 0 ((VGroup.vpackvg g).length : Int) ∧
      s.vg_version = toI16 g.version ∧ s.ret = 0 := by
  have e := vpackvgF_eq_of_wfmem true g hw
  have hpv : packVersion g = g.version := by
    obtain ⟨_, _, _, _, _, _, _, _, _, hf, _⟩ := hw
    simp only [packVersion]
    split
    · rename_i h
      rw [hf h.1] at h
      exact absurd h.2 (by decide)
    · rfl
  have hp : Pre g := by
    obtain ⟨a1, _, a3, a4, _, _, _, a8, _, _, _, a12, a13, _⟩ := hw
    exact ⟨a1, a3, a4, a12, a8, by rw [hpv]; exact hv, hm, fun x => (a13 x).1⟩
  have h := vpackvg_refines g hp fuel hf1 (fun _ => hf2) tpad rpad npad cpad atpad arpad buf size (by rw [e]; exact hbuf) hsize
  rw [e, hpv] at h
  exact h

/-- **the C08 record round trip holds for the bytes the C text writes**: for every Vgroup the fixed format can represent
    (`VG.WFfix`: version 4 may come without flags) the first `*size` bytes of `buf` after the translated `vpackvg` are a
    record that the model's `vunpackvg` reads back as `g` (`H4.Props.C08.vpackvg_roundtrip_fixed3` transferred to the C text). -/
theorem vpackvg_c_roundtrip (g : VG) (hw : g.WFfix) (hv : g.version < 32768) (hm : g.more < 32768)
    (fuel : Nat) (hf1 : g.members.length ≤ fuel) (hf2 : g.attrs.length ≤ fuel)
    (tpad rpad npad cpad atpad arpad buf size : List Int)
    (hbuf : (vpackvgF true g).length ≤ buf.length) (hsize : 0 < size.length) :
    let s := vpackvgC fuel (g.members.length : Int) (ints (g.members.map (·.1)) ++ tpad) (ints (g.members.map (·.2)) ++ rpad)
      g.name.isNone (cstring g.name npad) g.cls.isNone (cstring g.cls cpad) (g.extag : Int) (g.exref : Int) (g.flags : Int)
      (toI16 g.version) (g.attrs.length : Int) (ints (g.attrs.map (·.1)) ++ atpad) (ints (g.attrs.map (·.2)) ++ arpad)
      (g.more : Int) buf size
    s.ub = false ∧ s.oof = false ∧
      ∃ rec : Bytes, s.buf.take (s.size.getD 0 0).toNat = bytesI rec ∧ vunpackvg rec = some g := by
  have hpv : packVersion g = g.version := by
    obtain ⟨⟨_, _, _, _, _, _, _, _, _, hf, _⟩, _⟩ := hw
    simp only [packVersion]
    split
    · rename_i h
      rw [hf h.1] at h
      exact absurd h.2 (by decide)
    · rfl
  have hp : Pre g := by
    obtain ⟨⟨a1, _, a3, a4, _, _, _, a8, _, _, a12, a13, _⟩, _⟩ := hw
    exact ⟨a1, a3, a4, a12, a8, by rw [hpv]; exact hv, hm, fun x => (a13 x).1⟩
  obtain ⟨r1, r2, r3, r4, _, _⟩ := vpackvg_refines g hp fuel hf1 (fun _ => hf2) tpad rpad npad cpad atpad arpad buf size hbuf hsize
  refine ⟨r1, r2, vpackvgF true g, ?_, ?_⟩
  · rw [r3, r4]
    have : ((size.set 0 ((vpackvgF true g).length : Int)).getD 0 0).toNat = (bytesI (vpackvgF true g)).length := by
      cases size with
      | nil => exact absurd hsize (by decide)
      | cons a t => simp
    rw [this, List.take_left']
    rfl
  · have := vunpackvg_vpackvgF true g hw.1 (fun e => by cases e)
    rw [this]
    obtain ⟨_, h1, h2⟩ := hw
    cases g; simp_all [VG.norm, normName_of_ne]

/-- the witness of finding 3 (version 4, no flags): the C text as it is now writes the flags word — its record is
    `vpackvgF true g`, not the old `vpackvgF false g`, and it reads back -/
example :
    let g : VG := { members := [(1000, 8)], name := some [112], version := 4, flags := 0, more := 1 }
    let s := vpackvgC 1 1 [1000] [8] false [112, 0] true [] 0 0 0 4 0 [] [] 1 (List.replicate 24 0) [0]
    g.WFfix ∧ s.ub = false ∧ s.buf.take 24 = bytesI (vpackvgF true g) ∧ s.buf.take 20 ≠ bytesI (vpackvgF false g) ∧
      vunpackvg (vpackvgF true g) = some g := by decide +kernel

end H4.Props.C08Fn
