import H4.Lemmas.Interlace
/-! # C09 — raster images: interlace conversion (`GRIil_convert`, `hdf/src/mfgr.c`) — property theorems

`GRwriteimage`/`GRreadimage`/`GRwritelut`/`GRreadlut` pass the caller's buffer through `GRIil_convert`
whenever the requested interlace differs from the stored one. These theorems say that, for every image
size, component count and element size, that routine is exactly the re-indexing between the three
textbook layouts, that it loses nothing, and that conversions compose. -/
namespace H4.Props.C09
open H4.Interlace

/-- Each of the three interlace address maps is a bijection from the in-range coordinates
    `{(x,y,c) | x < W, y < H, c < ncomp}` onto `[0, W·H·ncomp)`: it lands in the range, is injective,
    and `coordOf` is a two-sided inverse. -/
theorem il_addr_bij (il : Il) (W H ncomp : Nat) :
    (∀ p : Coord, p.InRange W H ncomp → ilAddr il W H ncomp p < W * H * ncomp) ∧
    (∀ p q : Coord, p.InRange W H ncomp → q.InRange W H ncomp →
        ilAddr il W H ncomp p = ilAddr il W H ncomp q → p = q) ∧
    (∀ a, a < W * H * ncomp → (coordOf il W H ncomp a).InRange W H ncomp ∧ ilAddr il W H ncomp (coordOf il W H ncomp a) = a) ∧
    (∀ p : Coord, p.InRange W H ncomp → coordOf il W H ncomp (ilAddr il W H ncomp p) = p) := by
  refine ⟨fun p hp => ilAddr_lt il hp, fun p q hp hq h => ilAddr_inj il hp hq h,
    fun a ha => ⟨coordOf_inRange il ha, ilAddr_coordOf il a⟩, fun p hp => ?_⟩
  exact ilAddr_inj il (coordOf_inRange il (ilAddr_lt il hp)) hp (ilAddr_coordOf il _)

example : ilAddr .line 4 3 2 ⟨3, 1, 1⟩ = 15 ∧ coordOf .line 4 3 2 15 = ⟨3, 1, 1⟩ ∧
    ilAddr .pixel 4 3 2 ⟨3, 1, 1⟩ = 15 ∧ ilAddr .component 4 3 2 ⟨3, 1, 1⟩ = 19 := by decide

/-- **Closed form of the pointer-increment loops.** For all dimensions (including degenerate ones), all
    component counts, all element sizes and all 9 `(inil, outil)` pairs — the 3 pairs `inil = outil` are a
    single `memcpy` in the C — the executable loop model of `GRIil_convert` leaves the output buffer's length
    unchanged and puts, for every in-range coordinate `p`, the `csz` bytes found at element `ilAddr a p` of
    the input at element `ilAddr b p` of the output. By `il_addr_bij` this determines every output byte. -/
theorem il_convert_closed (a b : Il) (W H ncomp csz : Nat) (inb outb : List Byte)
    (hi : inb.length = csz * (W * H * ncomp)) (ho : outb.length = csz * (W * H * ncomp)) :
    (convert a b W H ncomp csz inb outb).length = csz * (W * H * ncomp) ∧
    ∀ p : Coord, p.InRange W H ncomp →
      slice (convert a b W H ncomp csz inb outb) (csz * ilAddr b W H ncomp p) csz
        = slice inb (csz * ilAddr a W H ncomp p) csz :=
  ⟨by rw [length_convert, ho], fun _ hp => convert_slice a b hi ho hp⟩

example : convert .pixel .component 2 2 3 1 [0, 1, 2, 10, 11, 12, 20, 21, 22, 30, 31, 32] (List.replicate 12 0)
    = [0, 10, 20, 30, 1, 11, 21, 31, 2, 12, 22, 32] := by decide

/-- two conversions that agree element-wise through some interlace `c` are equal -/
theorem ext_via (c : Il) {W H ncomp csz : Nat} {r r' : List Byte}
    (hr : r.length = csz * (W * H * ncomp)) (hr' : r'.length = csz * (W * H * ncomp))
    (h : ∀ p : Coord, p.InRange W H ncomp →
      slice r (csz * ilAddr c W H ncomp p) csz = slice r' (csz * ilAddr c W H ncomp p) csz) : r = r' := by
  apply chunk_ext hr hr'
  intro q hq
  have := h _ (coordOf_inRange c hq)
  rwa [ilAddr_coordOf] at this

/-- **Composition**: converting `a → b` and then `b → c` is converting `a → c`, whatever the prior contents
    of the three output buffers. -/
theorem il_convert_compose (a b c : Il) (W H ncomp csz : Nat) (img o1 o2 o3 : List Byte)
    (hi : img.length = csz * (W * H * ncomp)) (h1 : o1.length = csz * (W * H * ncomp))
    (h2 : o2.length = csz * (W * H * ncomp)) (h3 : o3.length = csz * (W * H * ncomp)) :
    convert b c W H ncomp csz (convert a b W H ncomp csz img o1) o2 = convert a c W H ncomp csz img o3 := by
  have hm : (convert a b W H ncomp csz img o1).length = csz * (W * H * ncomp) := by rw [length_convert, h1]
  apply ext_via c (by rw [length_convert, h2]) (by rw [length_convert, h3])
  intro p hp
  rw [convert_slice b c hm h2 hp, convert_slice a b hi h1 hp, convert_slice a c hi h3 hp]

/-- **Round trip**: for every image byte list of the right length, `convert b a (convert a b img) = img`. -/
theorem il_convert_roundtrip (a b : Il) (W H ncomp csz : Nat) (img o1 o2 : List Byte)
    (hi : img.length = csz * (W * H * ncomp)) (h1 : o1.length = csz * (W * H * ncomp))
    (h2 : o2.length = csz * (W * H * ncomp)) :
    convert b a W H ncomp csz (convert a b W H ncomp csz img o1) o2 = img := by
  have hm : (convert a b W H ncomp csz img o1).length = csz * (W * H * ncomp) := by rw [length_convert, h1]
  apply ext_via a (by rw [length_convert, h2]) hi
  intro p hp
  rw [convert_slice b a hm h2 hp, convert_slice a b hi h1 hp]

/-- the result does not depend on what the output buffer held before the call -/
theorem il_convert_outbuf_irrelevant (a b : Il) (W H ncomp csz : Nat) (img o1 o2 : List Byte)
    (hi : img.length = csz * (W * H * ncomp)) (h1 : o1.length = csz * (W * H * ncomp))
    (h2 : o2.length = csz * (W * H * ncomp)) :
    convert a b W H ncomp csz img o1 = convert a b W H ncomp csz img o2 := by
  apply ext_via b (by rw [length_convert, h1]) (by rw [length_convert, h2])
  intro p hp
  rw [convert_slice a b hi h1 hp, convert_slice a b hi h2 hp]

/-- the same-interlace call is the identity (`memcpy`) -/
theorem il_convert_same (a : Il) (W H ncomp csz : Nat) (img o : List Byte)
    (hi : img.length = csz * (W * H * ncomp)) (ho : o.length = csz * (W * H * ncomp)) :
    convert a a W H ncomp csz img o = img := by
  apply ext_via a (by rw [length_convert, ho]) hi
  intro p hp
  rw [convert_slice a a hi ho hp]

/-- non-vacuity of the hypotheses: a 3×2 image, 2 components of 2 bytes, LINE → COMPONENT → LINE -/
example :
    let img : List Byte := (List.range 24).map UInt8.ofNat
    img.length = 2 * (3 * 2 * 2) ∧
    convert .component .line 3 2 2 2 (convert .line .component 3 2 2 2 img (List.replicate 24 0)) (List.replicate 24 7) = img ∧
    convert .line .component 3 2 2 2 img (List.replicate 24 0) ≠ img := by decide

end H4.Props.C09
