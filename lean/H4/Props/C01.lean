import H4.Lemmas.ElemSafeB
import H4.Lemmas.ElemTrace
/-! # C01 — every data element behaves as a growable byte array (property theorems)

Model: `H4/Elem.lean` (`hfile.c`, `hfiledd.c`, `hblocks.c`, branch by branch, including the POSIX file underneath).
Byte-array view and specification: `H4/ElemSpec.lean` (`abs`, `specStep`, `specWrite`, `specRead`, `readCount`).
The theorems below are unbounded: any block length, table size, number of elements, files and access ids, any history.

`StepOK w op` (Lemmas/ElemOps.lean) abbreviates the one-step simulation diagram

    WFW (step w op).1 ∧ ∃ v', specStep (abs w) op (step w op).2 = some v' ∧ v'.Eqv (abs (step w op).1)

i.e. the well-formedness invariant is kept, the result returned is one the byte-array specification allows in the
abstract view of the state before the call, and the abstract view afterwards is the one the specification prescribes
(`Eqv`: same files, same bytes of *every* user element — this is the frame property: only the element written
changes —, same element and position behind every access id).

Scope. Proved for histories of Hopen/Hclose/Hstartaccess/Hstartwrite/Hsetlength/HLcreate/HLconvert/HLsetblockinfo/
Happendable/Hseek/Htell/Hinquire/Hread/Hwrite/Htrunc/Hendaccess/Hdeldd with DD caching on (the default), under the side
conditions `Safe` (`H4/ElemSpec.lean`, `OpSafe`), each of which is either plain API discipline (fresh access id, user
tag, non-empty write, `Hclose` with no id open) or excludes one of the open findings F19, F20 (reproductions
under the worker directory `repro/`; witness examples in section 6 below; keys in known_findings.json).
F18 (Htrunc on a linked-block element cut its description record) and F23 (read beyond the end of an appendable element
failed) were repaired in /repo (1e2fd75: refused; 21b8ab5: 0 bytes) and need no side condition, nor does F24 (two ids on
an element without length: 7f7ac10, dc05857) any more; F20 was repaired for the in-place growth path only (998a325) and stays a condition of
`Hopen` for the remaining paths (space beyond the recomputed `f_end_off` handed out again by `HPgetdiskblock`).
A failing call is always admitted by `specStep`: no liveness is claimed except `hlpread_ok`; the reads that fail
although a byte array would deliver (`Htrunc` refused on linked-block elements) are engine findings; F26 (reads of reserved,
never written space failed with DD caching on) was repaired by af826f2: `File.hpRead` delivers zeros there. Tied to the C by the engine only (modelled and
driven, no theorem): `Hcache(FALSE)` write-through mode, `Hdupdd`, `Hlength/Hgetelement/Hputelement`. Not modelled:
int32 ranges (the model is unbounded), allocation failure, the bytes inside block-table elements (the tables live in
`File.links`; the file holds zeros there, which no call on a user element can observe — only an F19-dangling id can),
external/compressed/chunked elements, Hnextread/Hfind, the byte encoding of DD blocks (extents only: C02/C12). -/
namespace H4.Props.C01
open H4.Elem H4.Gen.Hdf H4.Gen.Elem

/-- the values of the generated constants the proofs rely on (Tie A pins them to /repo's current headers) -/
theorem consts : SPECIAL_TAG_BIT = 16384 ∧ EXTENDED_TAG_BIT = 32768 ∧ DFTAG_NULL = 1 ∧ DFTAG_LINKED = 20 ∧
    HDF_APPENDABLE_BLOCK_LEN = 4096 ∧ HDF_APPENDABLE_BLOCK_NUM = 16 ∧ MKSPECIAL_100 = mkSpecial 100 ∧
    BASETAG_MKSPECIAL_100 = baseTag (mkSpecial 100) ∧ isSpecial (mkSpecial 100) = true ∧ isSpecial 100 = false := by
  decide

/-! ## 1. the linked-block position arithmetic -/

/-- **linked_partition**: for every first-block length, block length ≥ 1, table size ≥ 1, position and length ≥ 1, the
    blocks visited by the `HLPread`/`HLPwrite` loop (start search, `relative_posn`, `++block_idx >= number_blocks`
    table hops) tile the byte range `[p, p+len)` exactly once and in order: each piece lies inside one block, inside
    its table, is non-empty, and begins at the element position where the previous piece ended. -/
theorem linked_partition (first blk nb p len : Nat) (hblk : 1 ≤ blk) (hnb : 1 ≤ nb) (hlen : 1 ≤ len) :
    Tiles first blk nb p (walk first blk nb p len) (p + len) :=
  walk_tiles first blk nb p len hblk hnb hlen

/-- one step of the walk, backwards: position `blockStart b + rel` is found in block `b` at offset `rel` -/
theorem linked_locate (first blk b rel : Nat) (hblk : 1 ≤ blk) (hrel : rel < blockLenOf first blk b) :
    startBlock first blk (blockStart first blk b + rel) = (b, rel, blockLenOf first blk b) :=
  startBlock_block first blk b rel hblk hrel

/-- non-vacuity: first block of 3 bytes, blocks of 4, tables of 2; 11 bytes from position 2 span four blocks, two tables -/
example : walk 3 4 2 2 11 =
    [{ tbl := 0, idx := 0, rel := 2, n := 1, cur := 3 }, { tbl := 0, idx := 1, rel := 0, n := 4, cur := 4 },
     { tbl := 1, idx := 0, rel := 0, n := 4, cur := 4 }, { tbl := 1, idx := 1, rel := 0, n := 2, cur := 4 }] := by decide
example : Tiles 3 4 2 2 (walk 3 4 2 2 11) 13 := linked_partition 3 4 2 2 11 (by decide) (by decide) (by decide)

/-! ## 2. linked-block read and write against the byte string of the element -/

/-- **hlpread_spec** (`HLPread` as repaired by 9115bb2/4e6d0b8; before, the count was too large at a hole — F1 — and a
    read at the end overran the buffer — F2): on a well-formed descriptor a read that does not fail returns exactly
    `readCount` bytes (length 0 = to the end, clamped at the end) and they are the element's bytes at that position,
    holes (blocks never written) reading as zeros. -/
theorem hlpread_spec (f : File) (li : LinkInfo) (hw : WFL f li) (posn : Nat) (length : Int) (hl : 0 ≤ length) :
    hlpRead f li posn length = .fail ∨
    hlpRead f li posn length =
      .data (readCount li.length posn length.toNat : Nat)
        ((List.range (readCount li.length posn length.toNat)).map (fun j => f.lbyte li (posn + j))) :=
  hlpRead_spec f li hw posn length hl

/-- progress for the same call: if every block of the element is completely in the file, `HLPread` does not fail -/
theorem hlpread_ok (f : File) (li : LinkInfo) (hw : WFL f li) (hm : Materialised f li) (posn : Nat) (length : Int)
    (hl : 0 ≤ length) : hlpRead f li posn length ≠ .fail :=
  hlpRead_ok f li hw hm posn length hl

/-- **hlpwrite_spec** (`HLPwrite` with `HLInewlink`/`HLIgetlink`/`HLPnewblock`... folded in): for every geometry,
    position (inside, at, beyond the end) and non-empty data the call succeeds with count `|bs|`; `Written` says that
    byte `i` of the element afterwards is `bs[i-posn]` inside the written range and what it was before elsewhere
    (zeros in a gap), the length is `max old (posn+|bs|)`, the descriptor stays well-formed, no DD of the file is
    touched, and below the old end of file only this element's own blocks change (frame). -/
theorem hlpwrite_spec (f : File) (li : LinkInfo) (hw : WFF f) (hl : WFL f li) (hs posn : Nat) (bs : Bytes) (hbs : bs ≠ [])
    (hlive : f.live hs) (htag : baseTag (f.dd hs).tag ≠ DFTAG_LINKED) (ho hlen : Nat) (hext : (f.dd hs).ext = some (ho, hlen))
    (h6 : 6 ≤ hlen) :
    ∃ f' li', hlpWrite f li hs posn bs = (f', li', some bs.length) ∧ Written f li hs posn bs f' li' :=
  hlpWrite_spec f li hw hl hs posn bs hbs hlive htag ho hlen hext h6

/-! ## 3. promotion and reopening keep the bytes -/

/-- **promote_preserves** (`HLconvert`, called by the application or silently by `Hwrite`/`Hseek` on an appendable
    element that is not last in the file): the element in slot `s` becomes a linked-block element with exactly the
    bytes it had (`Promoted.bytes`; an element without data becomes the empty string), under the same tag/ref, the
    file stays well-formed, every other element keeps DD and bytes (`Promoted.others`). -/
theorem promote_preserves (f : File) (hw : WFE f) (s blen nblk : Nat) (hs : f.live s)
    (hsp : isSpecial (f.dd s).tag = false) (hlt : (f.dd s).tag < SPECIAL_TAG_BIT)
    (hut : (f.dd s).tag ≠ DFTAG_LINKED) (hb : 1 ≤ blen) (hn : 1 ≤ nblk) :
    Promoted f s (f.convert s blen nblk).1 (f.convert s blen nblk).2 :=
  convert_spec f hw s blen nblk hs hsp hlt hut hb hn

/-- **reopen_preserves** (`Hclose` → `HTPsync`, then `Hopen` → `HTPstart`): every element of the reopened file is the
    same byte string, provided nothing but zeros lies beyond the end of file `HTPstart` recomputes from the DDs.
    Full statement (without `hz`) is FALSE for /repo: after `Htrunc` of the last element the bytes cut off are still in
    the file and become the "zeros" of a later gap (finding F20, key `elem-gap-nonzero`). -/
theorem reopen_preserves_partial (f : File) (hw : WFE f) (hc : Coh f) (wr : Bool)
    (hz : ∀ k, endOffOf f.ndds f.blkOff f.mem ≤ k → rd f.disk k = 0) :
    ∃ g, f.sync.reopen wr = some g ∧ WFE g ∧ Coh g ∧ (∀ t r, g.elem t r = f.elem t r) ∧ g.present = f.present ∧
      g.isOpen = true :=
  reopen_preserves f hw hc wr hz

/-! ## 4. the element-level calls, one by one (frame included, see the header) -/

/-- **hread_spec**: `Hread` on any well-formed world, any access id (valid or not), any length: either FAIL with nothing
    changed, or count `readCount` and bytes `specRead` of the element's byte string, position advanced by the count
    (0 bytes at or beyond the end, also on a contiguous appendable element positioned past its end: 21b8ab5).
    No side condition. -/
theorem hread_spec (w : World) (hw : WFW w) (h : Nat) (n : Int) : StepOK w (.read h n) := stepOK_read w hw h n

/-- **hwrite_spec**: `Hwrite` is `specWrite` (overwrite / extend / zero gap fill) on the element behind the id, however
    the C carries it out (in place; extended in place at the end of the file; first write of a new element; linked
    blocks; silent promotion of an appendable element followed by a linked-block write), position advanced by `|bs|`,
    every other element untouched.
    Side conditions (`OpSafe`): `bs ≠ []`; if the write promotes the element, no second id is open on it (F19). Without the
    latter the statement is false for /repo (section 6). Several ids on one element, also on one that has no length yet,
    are covered (F24 repaired by 7f7ac10 and dc05857). -/
theorem hwrite_spec_partial (w : World) (hw : WFW w) (h : Nat) (bs : Bytes) (hs : OpSafe w (.write h bs)) :
    StepOK w (.write h bs) := stepOK_write w hw h bs hs

/-- **hseek_spec**: `Hseek` (all three origins; beyond the end only for appendable/linked elements, promoting the
    former when they are not last in the file). Side condition: no second id on an element the seek promotes (F19). -/
theorem hseek_spec_partial (w : World) (hw : WFW w) (h : Nat) (off : Int) (origin : Nat) (hs : OpSafe w (.seek h off origin)) :
    StepOK w (.seek h off origin) := stepOK_seek w hw h off origin hs

/-- **htrunc_spec**: `Htrunc` on any access id: either FAIL with nothing changed, or the byte string is cut (`take n`)
    and the position clamped. No side condition (before 1e2fd75 the call cut the description record of a linked-block
    element, F18). -/
theorem htrunc_spec (w : World) (hw : WFW w) (h n : Nat) : StepOK w (.trunc h n) := stepOK_trunc w hw h n

/-- F18 as it stands: truncating a linked-block element (created as such or silently promoted) is *refused*, loudly
    and without any change of state — the operation is still missing for that storage form (known finding
    `elem-trunc-linked`) -/
theorem htrunc_linked_refused (w : World) (h n : Nat) (a : Acc) (ha : w.acc h = some a) (hsp : a.special = true) :
    htrunc w h n = (w, .fail) := H4.Elem.htrunc_linked_refused w h n a ha hsp

/-- the gap fill of 998a325 does not depend on what the file held: every byte between the old end `o+l` of a
    contiguous element and the write position `o+p` is zero after it (proved from the write itself, not from the
    invariant "nothing but zeros beyond `f_end_off`") -/
theorem hwrite_gap_zero_filled (f : File) (o l p x : Nat) (h1 : o + l ≤ x) (h2 : x < o + p) :
    rd (f.pwrite (o + l) (zeros (p - l))).disk x = 0 := growth_gap_zero f o l p x h1 h2

/-- **hsetlength_spec**: `Hsetlength` through any id, with any other ids open on the element: either FAIL with nothing
    changed or the element becomes `len` reserved zero bytes. No side condition (7f7ac10; before, a second id on an
    element without length allocated it again and the first id's data was lost: F24). -/
theorem hsetlength_spec (w : World) (hw : WFW w) (h len : Nat) : StepOK w (.setlength h len) := stepOK_setlength w hw h len

theorem hstartaccess_spec (w : World) (hw : WFW w) (h fi tag ref : Nat) (wr app : Bool)
    (hs : OpSafe w (.startaccess h fi tag ref wr app)) : StepOK w (.startaccess h fi tag ref wr app) :=
  stepOK_startaccess w hw h fi tag ref wr app hs

theorem hopen_spec (w : World) (hw : WFW w) (fi mode ndds : Nat) (hs : OpSafe w (.open fi mode ndds)) :
    StepOK w (.open fi mode ndds) := stepOK_open w hw fi mode ndds hs

theorem hclose_spec (w : World) (hw : WFW w) (fi : Nat) (hs : OpSafe w (.close fi)) : StepOK w (.close fi) :=
  stepOK_close w hw fi hs

theorem hstartwrite_spec (w : World) (hw : WFW w) (h fi tag ref len : Nat) (hs : OpSafe w (.startwrite h fi tag ref len)) :
    StepOK w (.startwrite h fi tag ref len) := stepOK_startwrite w hw h fi tag ref len hs

theorem hdeldd_spec (w : World) (hw : WFW w) (fi tag ref : Nat) (hs : OpSafe w (.deldd fi tag ref)) :
    StepOK w (.deldd fi tag ref) := stepOK_deldd w hw fi tag ref hs

/-! ## 5. histories -/

theorem hlcreate_spec (w : World) (hw : WFW w) (h fi tag ref blen nblk : Nat) (hs : OpSafe w (.hlcreate h fi tag ref blen nblk)) :
    StepOK w (.hlcreate h fi tag ref blen nblk) := stepOK_hlcreate w hw h fi tag ref blen nblk hs

/-- **elem_refines_bytes** — full statement wanted:

      ∀ w ops, WFW w → ∃ vf, specRun (abs w) ops (run w ops).2 = some vf ∧ vf.Eqv (abs (run w ops).1)

    i.e. for every history of `Hopen/Hclose/Hstartaccess/Hstartwrite/Hsetlength/HLcreate/HLconvert/HLsetblockinfo/
    Happendable/Hseek/Htell/Hinquire/Hread/Hwrite/Htrunc/Hendaccess/Hdeldd` calls, with any number of files and of
    interleaved access ids, on contiguous, silently promoted and linked-block elements, the list of results the
    implementation returns is a list of results of growable byte arrays (`specRun`: every count, every byte read,
    every length and position), and the final state is the byte arrays' final state.
    That is FALSE for /repo (findings F19, F20: concrete histories in section 6). Proved is
    the statement under `Safe`, whose conjuncts name exactly those two situations (plus: access ids are fresh when opened,
    tag/refs are user tags, writes are not empty, `Hclose` is not called with ids still open on the file).
    The theorem also re-establishes the invariant `WFW` and gives the call-by-call simulation `Refines`. -/
theorem elem_refines_bytes_partial (w : World) (ops : List Op) (hw : WFW w) (hs : Safe w ops) :
    (∃ vf, specRun (abs w) ops (run w ops).2 = some vf ∧ vf.Eqv (abs (run w ops).1)) ∧
    WFW (run w ops).1 ∧ Refines w ops :=
  ⟨trace_of_safe ops w hw hs, (refines_of_safe ops w hw hs).2, (refines_of_safe ops w hw hs).1⟩

/-- the same from nothing (no file yet), with the side conditions checked by evaluation (`safeB` is a Boolean,
    sufficient version of `Safe`) -/
theorem elem_refines_bytes_checked (ops : List Op) (hs : safeB {} ops = true) :
    (∃ vf, specRun (abs {}) ops (run {} ops).2 = some vf ∧ vf.Eqv (abs (run {} ops).1)) ∧
    WFW (run {} ops).1 ∧ Refines {} ops :=
  elem_refines_bytes_partial {} ops wfw_empty (safeB_sound ops {} hs)

/-- a concrete history: two elements, two access ids; 100/1 is appendable, stops being the last element of the file and
    is silently promoted by the third write; a write beyond the end leaves a gap; the file is closed and reopened; then
    101/7 (contiguous, with data) is re-registered as linked blocks by `HLcreate` and extended, and 100/1 is deleted -/
def demo : List Op :=
  [ .open 0 DFACC_CREATE 16,
    .startaccess 1 0 100 1 true true,
    .write 1 [1, 2, 3],
    .startaccess 2 0 101 7 true false,
    .write 2 [9, 9],
    .write 1 [4, 5],
    .seek 1 10 DF_START,
    .write 1 [6],
    .seek 1 0 DF_START,
    .read 1 0,
    .inquire 1,
    .endaccess 1, .endaccess 2, .close 0,
    .open 0 DFACC_READ 16,
    .startaccess 3 0 100 1 false false,
    .read 3 0,
    .endaccess 3, .close 0,
    .open 0 DFACC_RDWR 16,
    .hlcreate 4 0 101 7 4 2,
    .seek 4 0 DF_END,
    .write 4 [8, 8, 8, 8, 8, 8, 8],
    .endaccess 4,
    .deldd 0 100 1,
    .startaccess 5 0 101 7 false false,
    .read 5 0 ]

theorem demo_safe : safeB {} demo = true := by decide +kernel

/-- non-vacuity of `elem_refines_bytes_partial`: the hypotheses hold for `demo` … -/
example : (∃ vf, specRun (abs {}) demo (run {} demo).2 = some vf ∧ vf.Eqv (abs (run {} demo).1)) ∧
    WFW (run {} demo).1 ∧ Refines {} demo := elem_refines_bytes_checked demo demo_safe

/-- … which really is promoted (special code 1 in `Hinquire`), has its gap zero-filled, survives reopening, and whose
    second element grows across three linked blocks -/
example : (run {} demo).2 =
    [.ok, .ok, .num 3, .ok, .num 2, .num 2, .ok, .num 1, .ok, .data 11 [1, 2, 3, 4, 5, 0, 0, 0, 0, 0, 6], .info 11 0 11 1,
     .ok, .ok, .ok, .ok, .ok, .data 11 [1, 2, 3, 4, 5, 0, 0, 0, 0, 0, 6],
     .ok, .ok, .ok, .ok, .ok, .num 7, .ok, .ok, .ok, .data 9 [9, 9, 8, 8, 8, 8, 8, 8, 8]] := by decide +kernel

/-- non-vacuity of the linked-block theorems' hypotheses: the promoted element of `demo` (before the file is closed) has
    a well-formed descriptor of length 11 -/
example : ∃ s li, ((run {} (demo.take 11)).1.file 0).select 100 1 = some s ∧
    ((run {} (demo.take 11)).1.file 0).link (100, 1) = some li ∧ WFL ((run {} (demo.take 11)).1.file 0) li ∧ li.length = 11 := by
  have hs : safeB {} (demo.take 11) = true := by decide +kernel
  obtain ⟨_, hw, _⟩ := elem_refines_bytes_checked _ hs
  have hsel : ((run {} (demo.take 11)).1.file 0).select 100 1 = some 1 := by decide +kernel
  have hk := select_some _ _ _ _ hsel
  have hsp : isSpecial (((run {} (demo.take 11)).1.file 0).dd 1).tag = true := by decide +kernel
  obtain ⟨li, _, _, hl, hwl, _, _⟩ := (hw.files 0).linked_ok 1 hk.1 hsp
  have hkey : ((run {} (demo.take 11)).1.file 0).keyOf 1 = (100, 1) := by decide +kernel
  rw [hkey] at hl
  refine ⟨1, li, hsel, hl, hwl, ?_⟩
  have : (((run {} (demo.take 11)).1.file 0).link (100, 1)).map (·.length) = some 11 := by decide +kernel
  rw [hl] at this
  exact Option.some.inj this

/-! ## 6. what the side conditions exclude: the model follows the C as it is -/

/-- F18 (since 1e2fd75): `Htrunc` on a linked-block element fails; length, bytes and position stay -/
example : (run {} [.open 0 DFACC_CREATE 16, .hlcreate 1 0 100 1 4 2, .write 1 [1, 2, 3, 4, 5, 6, 7, 8, 9, 10], .trunc 1 3,
      .inquire 1, .seek 1 0 DF_START, .read 1 0]).2 =
    [.ok, .ok, .num 10, .fail, .info 10 0 10 1, .ok, .data 10 [1, 2, 3, 4, 5, 6, 7, 8, 9, 10]] := by decide +kernel

/-- F23 (since 21b8ab5): a read positioned beyond the end of an appendable element delivers 0 bytes -/
example : (run {} [.open 0 DFACC_CREATE 16, .startaccess 1 0 100 1 true true, .write 1 [1, 2, 3], .seek 1 5 DF_START,
      .read 1 1, .tell 1]).2 = [.ok, .ok, .num 3, .ok, .data 0 [], .num 5] := by decide +kernel

/-- F20, the path repaired by 998a325: 36 bytes `aa` cut off by `Htrunc` stay in the file beyond the `f_end_off`
    recomputed at `Hopen`; growing the element in place over them now leaves zeros in the gap … -/
example : (run {} [.open 0 DFACC_CREATE 16, .startaccess 1 0 100 1 true false, .write 1 (List.replicate 40 170), .trunc 1 4,
      .endaccess 1, .close 0, .open 0 DFACC_RDWR 16, .startaccess 2 0 100 1 true true, .seek 2 6 DF_START, .write 2 [1, 2],
      .seek 2 0 DF_START, .read 2 0]).2 =
    [.ok, .ok, .num 40, .num 4, .ok, .ok, .ok, .ok, .ok, .num 2, .ok, .data 8 [170, 170, 170, 170, 0, 0, 1, 2]] := by
  decide +kernel

/-- … F20, a remaining path (excluded by `Safe` at the `Hopen`): the same stale bytes are handed out by
    `HPgetdiskblock` for the first block of a new linked-block element and show up in its never-written head -/
example : (run {} [.open 0 DFACC_CREATE 16, .startaccess 1 0 100 1 true false, .write 1 (List.replicate 40 170), .trunc 1 4,
      .endaccess 1, .close 0, .open 0 DFACC_RDWR 16, .hlcreate 2 0 101 1 8 2, .seek 2 6 DF_START, .write 2 [1, 2],
      .seek 2 0 DF_START, .read 2 0]).2 =
    [.ok, .ok, .num 40, .num 4, .ok, .ok, .ok, .ok, .ok, .num 2, .ok, .data 8 [170, 170, 170, 170, 170, 170, 1, 2]] := by
  decide +kernel

/-- F19: a second id open on an element that gets promoted keeps pointing at the DD slot, which now holds the
    16-byte description record: it reads that record instead of the data -/
example : (run {} [.open 0 DFACC_CREATE 16, .startaccess 1 0 100 1 true true, .write 1 [1, 2, 3],
      .startaccess 2 0 100 1 true false, .startaccess 3 0 101 1 true false, .write 3 [9], .write 1 [4, 5],
      .seek 2 0 DF_START, .read 2 0]).2 =
    [.ok, .ok, .num 3, .ok, .ok, .num 1, .num 2, .ok, .data 16 [0, 1, 0, 0, 0, 5, 0, 0, 16, 0, 0, 0, 0, 16, 0, 2]] := by
  decide +kernel

/-- F24 (since 7f7ac10): two ids on an element without length; the second id finds the length the first one gave it
    (`HIrefresh_new`) and overwrites in place — byte-array semantics. The history satisfies `Safe`. -/
def twoIds : List Op :=
  [.open 0 DFACC_CREATE 16, .startaccess 1 0 100 1 true false, .startaccess 2 0 100 1 true false,
   .write 1 [1, 2, 3], .write 2 [4], .seek 1 0 DF_START, .read 1 0, .inquire 2]
example : (run {} twoIds).2 = [.ok, .ok, .ok, .num 3, .num 1, .ok, .data 3 [4, 2, 3], .info 3 294 1 0] := by decide +kernel
theorem twoIds_safe : safeB {} twoIds = true := by decide +kernel
example : (∃ vf, specRun (abs {}) twoIds (run {} twoIds).2 = some vf ∧ vf.Eqv (abs (run {} twoIds).1)) ∧
    WFW (run {} twoIds).1 ∧ Refines {} twoIds := elem_refines_bytes_checked twoIds twoIds_safe

/-- F24 residue (since dc05857): an id whose "new" flag went stale and that is then converted to linked blocks reads the
    element, and `Hsetlength` through it is refused -/
example : (run {} [.open 0 DFACC_CREATE 16, .startaccess 1 0 100 1 true false, .startaccess 2 0 100 1 true false,
      .write 1 [1, 2, 3, 4], .endaccess 1, .hlconvert 2 8 2, .read 2 0, .setlength 2 5]).2 =
    [.ok, .ok, .ok, .num 4, .ok, .ok, .data 4 [1, 2, 3, 4], .fail] := by decide +kernel

end H4.Props.C01
