import H4.Lemmas.FormatWF
import H4.Lemmas.FormatDesc
import H4.Lemmas.VGroupCodec
import H4.Props.C05
set_option linter.unusedSimpArgs false
/-! # C02 — every file the library closes is a well-formed, independently readable HDF4 file (property theorems)

Two families.

**Codec laws** for every record format for which the independent reader `H4.Format` defines an encoder next to its
decoder: the decoder inverts the encoder on every value the record can hold (all uint16 / uint32 / int16 / int32 field
values).  These are what make the reader a *reader of the documented layout*: a writer that follows the layout is read back
exactly.

**Structural theorems** about the reader as a decision procedure: whatever `decodeFile` accepts satisfies `WFFile` (the
clauses of the property: magic, acyclic in-bounds chain of descriptor blocks that is exactly what the bytes say, no tag 0,
no duplicate tag/ref, every extent inside the file, no overlap unless equal extents), and the chain walk needs no more fuel
than the file has bytes.  For the old-style descriptive records (`DFTAG_NT`, `DFTAG_SDD`, `DFTAG_ID` / `DFTAG_LD`) that the DFSD / DFR8 /
DF24 / DFGR interfaces define and the SD and GR interfaces keep up to date: whatever `decodeFile` accepts has, in every `DFTAG_NDG` /
`DFTAG_SDG` / `DFTAG_RIG` group, dimension records that decode, name well-formed number types and describe EXACTLY as many bytes as the
data element of the same group holds (`sdd_consistent`, `id_consistent`).

The per-file part of the property (V/SD/GR/AN writers emit consistent cross references; the library reads the same content;
the raw-location queries agree) is translation validation: engine `fmt` (harness/e_fmt.c) runs `h4model read` on every file. -/
namespace H4.Props.C02
open H4.Format H4.Gen.Hdf H4.Gen.Fmt

/-! ## big-endian integers -/

/-- 16-bit fields: decode ∘ encode = id for all 65536 values -/
theorem be16_roundtrip (n : Nat) (h : n < 65536) (r : Bytes) : get16 (enc16 n ++ r) = some (n, r) := get16_enc16 n h r
/-- 32-bit fields: decode ∘ encode = id for all 2^32 values -/
theorem be32_roundtrip (n : Nat) (h : n < 4294967296) (r : Bytes) : get32 (enc32 n ++ r) = some (n, r) := get32_enc32 n h r
/-- signed 32-bit fields (offset, length, …): all of int32 -/
theorem s32_roundtrip (i : Int) (h1 : -2147483648 ≤ i) (h2 : i < 2147483648) (r : Bytes) :
    getS32 (encS32 i ++ r) = some (i, r) := getS32_encS32 i ⟨h1, h2⟩ r
/-- signed 16-bit fields: all of int16 -/
theorem s16_roundtrip (i : Int) (h1 : -32768 ≤ i) (h2 : i < 32768) (r : Bytes) :
    getS16 (encS16 i ++ r) = some (i, r) := getS16_encS16 i ⟨h1, h2⟩ r

/-- the other direction: encode ∘ decode = id on every pair of bytes -/
theorem enc16_be16 (a b : UInt8) : enc16 (be16 a b) = [a, b] := by
  have ha := a.toNat_lt; have hb := b.toNat_lt
  simp only [enc16, be16]
  congr 1
  · apply UInt8.toNat_inj.mp; rw [UInt8.toNat_ofNat']; omega
  · congr 1; apply UInt8.toNat_inj.mp; rw [UInt8.toNat_ofNat']; omega

/-- encode ∘ decode = id on every four bytes -/
theorem enc32_be32 (a b c d : UInt8) : enc32 (be32 a b c d) = [a, b, c, d] := by
  have ha := a.toNat_lt; have hb := b.toNat_lt; have hc := c.toNat_lt; have hd := d.toNat_lt
  simp only [enc32, be32]
  congr 1
  · apply UInt8.toNat_inj.mp; rw [UInt8.toNat_ofNat']; omega
  · congr 1
    · apply UInt8.toNat_inj.mp; rw [UInt8.toNat_ofNat']; omega
    · congr 1
      · apply UInt8.toNat_inj.mp; rw [UInt8.toNat_ofNat']; omega
      · congr 1; apply UInt8.toNat_inj.mp; rw [UInt8.toNat_ofNat']; omega

example : get32 (enc32 0xfffffffe ++ [7]) = some (0xfffffffe, [7]) := by decide
example : getS32 (encS32 (-1)) = some (-1, []) := by decide

/-! ## record codecs -/

/-- data descriptor: every tag, ref (uint16) and offset, length (int32, including the -1 of an element that was
    created but never written) -/
theorem decodeDD_encodeDD (d : DD) (h : d.InRange) : decodeDD (encodeDD d) = some d := H4.Format.decodeDD_encodeDD d h
example : (⟨1963, 8, -1, -1⟩ : DD).InRange := by unfold DD.InRange; decide
example : decodeDD (encodeDD ⟨17386, 65535, 2147483647, -2147483648⟩) = some ⟨17386, 65535, 2147483647, -2147483648⟩ := by decide

/-- DD block header (number of descriptors, offset of the next block) -/
theorem decodeBlockHdr_encodeBlockHdr (h : BlockHdr) (w : h.InRange) : decodeBlockHdr (encodeBlockHdr h) = some h :=
  decodeBlockHdr_encode h w
example : (⟨16, 0⟩ : BlockHdr).InRange := by unfold BlockHdr.InRange; decide

/-- the descriptor array of a DD block of any size -/
theorem decodeDDs_encodeDDs (l : List DD) (h : ∀ d ∈ l, d.InRange) : decodeDDs l.length (encodeDDs l) = some l :=
  H4.Format.decodeDDs_encodeDDs l h
example : decodeDDs 2 (encodeDDs [⟨30, 1, 58, 92⟩, ⟨1, 0, -1, -1⟩]) = some [⟨30, 1, 58, 92⟩, ⟨1, 0, -1, -1⟩] := by decide

/-- linked-block description record -/
theorem decodeLBDR_encodeLBDR (h : LBDR) (w : h.InRange) : decodeLBDR (encodeLBDR h) = some h := decodeLBDR_encode h w
example : (⟨200, 64, 3, 1⟩ : LBDR).InRange := by unfold LBDR.InRange S32; decide

/-- linked-block table with any number of block references -/
theorem decodeLinkTable_encodeLinkTable (t : LinkTable) (w : t.InRange) :
    decodeLinkTable t.refs.length (encodeLinkTable t) = some t := decodeLinkTable_encode t w
example : decodeLinkTable 3 (encodeLinkTable ⟨5, [2, 0, 4]⟩) = some ⟨5, [2, 0, 4]⟩ := by decide

/-- external element description record (any file name) -/
theorem decodeExtHdr_encodeExtHdr (h : ExtHdr) (w : h.InRange) : decodeExtHdr (encodeExtHdr h) = some h := decodeExtHdr_encode h w
example : decodeExtHdr (encodeExtHdr ⟨300, 17, [0x61, 0x2e, 0x64]⟩) = some ⟨300, 17, [0x61, 0x2e, 0x64]⟩ := by decide

/-- model/coder part of a compression header, for EVERY coder (none, rle, nbit, skphuff, deflate, szip, parameterless others),
    followed by arbitrary bytes -/
theorem decodeCoderInfo_encodeCoderInfo (c : CoderInfo) (h : c.InRange) (r : Bytes) :
    decodeCoderInfo (encodeCoderInfo c ++ r) = some (c, r) := decodeCoderInfo_encode c h r

/-- compressed element description record, for every coder -/
theorem decodeCompHdr_encodeCompHdr (h : CompHdr) (w : h.InRange) : decodeCompHdr (encodeCompHdr h) = some h :=
  decodeCompHdr_encode h w
example : decodeCompHdr (encodeCompHdr ⟨0, 2000, 1, ⟨0, .rle⟩⟩) = some ⟨0, 2000, 1, ⟨0, .rle⟩⟩ := by decide
example : decodeCompHdr (encodeCompHdr ⟨0, 1500, 2, ⟨0, .deflate 6⟩⟩) = some ⟨0, 1500, 2, ⟨0, .deflate 6⟩⟩ := by decide
example : decodeCompHdr (encodeCompHdr ⟨0, 9, 3, ⟨0, .nbit 21 0 1 6 5⟩⟩) = some ⟨0, 9, 3, ⟨0, .nbit 21 0 1 6 5⟩⟩ := by decide
example : decodeCompHdr (encodeCompHdr ⟨0, 9, 3, ⟨0, .skphuff 4 4⟩⟩) = some ⟨0, 9, 3, ⟨0, .skphuff 4 4⟩⟩ := by decide
example : decodeCompHdr (encodeCompHdr ⟨0, 9, 3, ⟨0, .szip 16 8 137 8 4⟩⟩) = some ⟨0, 9, 3, ⟨0, .szip 16 8 137 8 4⟩⟩ := by decide

/-- chunked element description record: any rank, any fill value, with and without the compression header -/
theorem decodeChunkHdr_encodeChunkHdr (h : ChunkHdr) (w : h.InRange) : decodeChunkHdr (encodeChunkHdr h) = some h :=
  decodeChunkHdr_encode h w
example : decodeChunkHdr (encodeChunkHdr ⟨61, 0, 3, 90, 16, 4, 1962, 25, 1, 0, [⟨1, 10, 4⟩, ⟨1, 9, 4⟩], [0, 0, 0, 0], some ⟨0, .deflate 3⟩⟩) =
    some ⟨61, 0, 3, 90, 16, 4, 1962, 25, 1, 0, [⟨1, 10, 4⟩, ⟨1, 9, 4⟩], [0, 0, 0, 0], some ⟨0, .deflate 3⟩⟩ := by decide +kernel

/-- Vdata header: `vunpackvs (vpackvs v) = some v` for every header `vpackvs` can represent (any number of fields and
    attributes, version 3 without and version 4 with the flags word, the historical extra byte included) -/
theorem vunpackvs_vpackvs (v : VH) (h : v.WF) : vunpackvs (vpackvs v) = some v := H4.Format.vunpackvs_vpackvs v h
example : vunpackvs (vpackvs ⟨0, 20, 12, [⟨24, 4, 0, 1, [0x61]⟩, ⟨5, 8, 4, 2, [0x62]⟩], [0x74], [0x63], 0, 0, 4, 0, 1, [⟨-1, 1962, 9⟩, ⟨1, 1962, 10⟩]⟩) =
    some ⟨0, 20, 12, [⟨24, 4, 0, 1, [0x61]⟩, ⟨5, 8, 4, 2, [0x62]⟩], [0x74], [0x63], 0, 0, 4, 0, 1, [⟨-1, 1962, 9⟩, ⟨1, 1962, 10⟩]⟩ := by decide +kernel

/-- Vgroup record, for the independent reader's own `vunpackvg` against the layout `vpackvg` writes -/
theorem vunpackvg_vpackvg (g : VG) (h : g.WF) : H4.Format.vunpackvg (H4.Format.vpackvg g) = some g := H4.Format.vunpackvg_vpackvg g h
example : H4.Format.vunpackvg (H4.Format.vpackvg ⟨[(1962, 7), (1000, 1)], [0x67], [], 0, 0, 4, 0, 1, [(1962, 11)]⟩) =
    some ⟨[(1962, 7), (1000, 1)], [0x67], [], 0, 0, 4, 0, 1, [(1962, 11)]⟩ := by decide

/-- the Vgroup codec law of the WRITER's model (C08, `H4/VGroup.lean`), cited here: it is the same layout -/
theorem vgroup_writer_model_roundtrip (g : H4.VGroup.VG) (h : g.WFmem) :
    H4.VGroup.vunpackvg (H4.VGroup.vpackvg g) = some g.norm := H4.VGroup.vunpackvg_vpackvg g h

/-- version record -/
theorem decodeVersion_encodeVersion (v : Version) (h : v.WF) : decodeVersion (encodeVersion v) = some v := decodeVersion_encode v h

/-! ## old-style descriptive records (`DFTAG_NT`, `DFTAG_SDD`, `DFTAG_ID` / `DFTAG_LD` / `DFTAG_MD`, `DFTAG_SDL` / `DFTAG_SDU` / `DFTAG_SDF`) -/

/-- number type record: every version / type / width / class byte -/
theorem decodeNT_encodeNT (n : NT) (h : n.InRange) : decodeNT (encodeNT n) = some n := decodeNT_encode n h
/-- and the other direction: a 4-byte element is the record of exactly the number type it decodes to -/
theorem encodeNT_decodeNT (b : Bytes) (n : NT) (h : decodeNT b = some n) : encodeNT n = b := encodeNT_decode b n h
example : decodeNT (encodeNT ⟨1, 24, 32, 1⟩) = some ⟨1, 24, 32, 1⟩ := by decide +kernel
example : decodeNT [1, 24, 32] = none := by decide +kernel

/-- dimension record of a scientific data set: any rank (uint16), every int32 dimension size, every tag/ref of the rank + 1
    number types -/
theorem decodeSDD_encodeSDD (s : SDD) (h : s.InRange) : decodeSDD (encodeSDD s) = some s := decodeSDD_encode s h
/-- its length is the one `DFSDIputndg` / `hdf_write_var` compute -/
theorem encodeSDD_length (s : SDD) (h : s.scaleNTs.length = s.dims.length) :
    (encodeSDD s).length = 2 + 4 * s.dims.length + 4 * (s.dims.length + 1) := H4.Format.encodeSDD_length s h
example : (⟨[2147483647, 0, 7], (106, 5), [(106, 5), (106, 5), (106, 65535)]⟩ : SDD).InRange := by
  unfold SDD.InRange S32; decide
example : decodeSDD (encodeSDD ⟨[5, 4], (106, 3), [(106, 3), (106, 3)]⟩) = some ⟨[5, 4], (106, 3), [(106, 3), (106, 3)]⟩ := by decide +kernel
/-- a record that is cut short, or has bytes left over, is not a dimension record -/
example : decodeSDD ((encodeSDD ⟨[5, 4], (106, 3), [(106, 3), (106, 3)]⟩).dropLast) = none := by decide +kernel
example : decodeSDD (encodeSDD ⟨[5, 4], (106, 3), [(106, 3), (106, 3)]⟩ ++ [0]) = none := by decide +kernel

/-- image / palette / matte dimension record: every int32 size, int16 component count and interlace, uint16 tag/refs -/
theorem decodeImgDesc_encodeImgDesc (d : ImgDesc) (h : d.InRange) : decodeImgDesc (encodeImgDesc d) = some d :=
  decodeImgDesc_encode d h
example : (⟨256, 1, 0, 0, 3, 0, 0, 0⟩ : ImgDesc).InRange := by unfold ImgDesc.InRange S32 S16; decide
example : decodeImgDesc (encodeImgDesc ⟨12, 7, 106, 2, 3, 2, 11, 2⟩) = some ⟨12, 7, 106, 2, 3, 2, 11, 2⟩ := by decide +kernel

/-- label / unit / format records: any number of strings that do not contain the terminator -/
theorem decodeStrs_encodeStrs (l : List Bytes) (h : ∀ s ∈ l, (0 : UInt8) ∉ s) : decodeStrs (encodeStrs l) = some l :=
  decodeStrs_encode l h
example : decodeStrs (encodeStrs [[0x61, 0x62], [], [0x63]]) = some [[0x61, 0x62], [], [0x63]] := by decide +kernel
example : decodeStrs [0x61, 0, 0x62] = none := by decide +kernel

/-! ## compressed payloads -/

/-- the reader expands RLE payloads with `rleTake`, which stops after the uncompressed length (stale bytes may follow the
    packets of a rewritten element).  On every stream the decoder of C05 accepts — in particular on everything the
    encoder writes, by `H4.Props.C05.rle_roundtrip` — it returns exactly the first `n` bytes of that decoder's output. -/
theorem rleTake_eq_dec (s out : List UInt8) (n : Nat) (h : H4.Rle.dec s = some out) (hn : n ≤ out.length) :
    rleTake n s = some (out.take n) := H4.Format.rleTake_eq_dec s out n h hn

/-- hence: reading back what the library's encoder wrote for `bs` (followed by nothing) gives `bs` -/
theorem rleTake_compress (bs : List UInt8) : rleTake bs.length (H4.Rle.compress bs) = some bs := by
  have := H4.Format.rleTake_eq_dec _ _ bs.length (H4.Props.C05.rle_roundtrip bs) (Nat.le_refl _)
  simpa using this

/-- the case found by the engine: a run packet followed by the stale tail of an older, longer stream -/
example : rleTake 20 [0x91, 0x07, 0xec, 0xed, 0xee] = some (List.replicate 20 0x07) := by decide

/-! ## the reader accepts only well-formed files -/

/-- the clauses of the property that concern the file structure, stated on the bytes `b` and the content `c` the reader returned -/
structure WFFile (b : ByteArray) (c : FileContent) : Prop where
  /-- magic number `0e 03 13 01` -/
  magic : magicOK b = true
  size_eq : c.size = b.size
  /-- the chain starts right after the magic number … -/
  chain_head : c.blocks.head?.map (·.off) = some MAGICLEN
  /-- … every block names its successor, the last one has next = 0 … -/
  chain_linked : LinkedP c.blocks
  /-- … no block offset occurs twice (acyclic) … -/
  chain_acyclic : (c.blocks.map (·.off)).Nodup
  /-- … every block has at least one descriptor and lies inside the file … -/
  chain_inbounds : ∀ k ∈ c.blocks, 0 < k.ndds ∧ k.off + (NDDS_SZ + OFFSET_SZ) + DD_SZ * k.ndds ≤ b.size ∧ k.dds.length = k.ndds
  /-- … and is exactly what the bytes at its offset decode to -/
  chain_faithful : ∀ k ∈ c.blocks, readBlock b k.off = .ok k
  /-- the descriptors are the non-NULL descriptors of the chain, in file order -/
  dds_eq : c.dds = liveDDs c.blocks
  /-- tag 0 and ref 0 do not occur -/
  tags : ∀ d ∈ c.dds, d.tag ≠ 0 ∧ d.ref ≠ 0
  /-- no two descriptors name the same object (a tag and its special version are the same object) -/
  nodup : c.dds.Pairwise (fun x y => ¬ (baseTag x.tag = baseTag y.tag ∧ x.ref = y.ref))
  /-- every extent is the documented "not written yet" pair (-1, -1) or lies inside the file -/
  extents : ∀ d ∈ c.dds, (d.off = -1 ∧ d.len = -1) ∨ (0 ≤ d.off ∧ 0 ≤ d.len ∧ d.off + d.len ≤ (b.size : Int))
  /-- file header, DD blocks and non-empty elements do not overlap, except elements with EQUAL extents (`Hdupdd` aliases) -/
  nooverlap : (regions c.blocks c.dds).Pairwise (fun x y =>
    x.off + x.len ≤ y.off ∨ y.off + y.len ≤ x.off ∨ (x.elem = true ∧ y.elem = true ∧ x.off = y.off ∧ x.len = y.len))
  /-- every descriptor was read as an element (special headers, block tables, chunk tables, … all resolved) -/
  elems_dds : c.elems.map (·.dd) = c.dds
  /-- every member and every attribute of every Vgroup names an existing descriptor (or a declared virtual tag) -/
  vg_xref : ∀ p ∈ c.vgs, (∀ m ∈ p.2.members, m.1 ∈ virtualTags ∨ (findDD c.dds m.1 m.2).isSome = true) ∧
    (∀ m ∈ p.2.attrs, (findDD c.dds m.1 m.2).isSome = true)
  /-- every attribute of every Vdata names an existing descriptor -/
  vh_xref : ∀ p ∈ c.vhs, ∀ a ∈ p.2.attrs, (findDD c.dds a.atag a.aref).isSome = true
  /-- the old-style descriptive records raise no complaint: every number type, dimension record and image dimension record named by a
      `DFTAG_NDG` / `DFTAG_SDG` / `DFTAG_RIG` group or a `Var0.0` / `RI0.0` Vgroup decodes and agrees with the length of the data element
      of the same group (`sdd_consistent` below spells this out for data sets) -/
  desc : descComplaints c.elems c.vgs = []

/-- **soundness of the reader as a decision procedure**: every file `decodeFile` accepts is well formed -/
theorem decodeFile_wf (b : ByteArray) (c : FileContent) (h : decodeFile b = .ok c) : WFFile b c := by
  obtain ⟨raw, hr, e1, e2, e3, hfin⟩ := decodeFile_raw h
  simp only [finalOK, Bool.and_eq_true, beq_iff_eq, List.all_eq_true, Bool.or_eq_true, exists_, List.contains_iff_mem] at hfin
  obtain ⟨⟨f1, f2⟩, f3⟩ := hfin
  obtain ⟨blocks, hc, k1, k2, k3, k4, k5, rfl⟩ := readRaw_ok hr
  obtain ⟨hm, hw⟩ := readChain_ok hc
  simp only at e1 e2 e3
  have hinv := walk_inv b _ _ _ _ (walkInv_nil b) hw
  simp only [chainOK, Bool.and_eq_true] at k1
  obtain ⟨⟨⟨c1, c2⟩, c3⟩, c4⟩ := k1
  refine ⟨hm, e1, ?_, ?_, ?_, ?_, ?_, ?_, ?_, ?_, ?_, ?_, f1, ?_, f3, decodeFile_desc h⟩
  rotate_right
  · intro p hp; exact ⟨fun m hm => (f2 p hp).1 m hm, fun m hm => (f2 p hp).2 m hm⟩
  · rw [e2]; simpa using c1
  · rw [e2]; exact (linked_iff _).mp c2
  · rw [e2]; exact nodup_reverse_map _ _ hinv.2
  · rw [e2]
    intro k hk
    have := List.all_eq_true.mp c3 k hk
    simp only [blockInBounds, Bool.and_eq_true, decide_eq_true_eq, beq_iff_eq] at this
    exact ⟨this.1.1, this.1.2, this.2⟩
  · rw [e2]
    intro k hk
    exact hinv.1 k (List.mem_reverse.mpr hk)
  · rw [e2, e3]
  · rw [e3]
    intro d hd
    have := List.all_eq_true.mp k2 d hd
    simp only [Bool.and_eq_true, bne_iff_ne, ne_eq] at this
    exact this
  · rw [e3]
    have := (allPairs_iff _ _).mp k3
    refine this.imp ?_
    intro x y hxy
    simp only [sameKey, Bool.not_eq_true', Bool.and_eq_false_iff, beq_eq_false_iff_ne, ne_eq] at hxy
    intro ⟨h1, h2⟩
    rcases hxy with hxy | hxy
    · exact hxy h1
    · exact hxy h2
  · rw [e3]
    intro d hd
    have := List.all_eq_true.mp k4 d hd
    simp only [extentOK, isEmptyDD, INVALID_OFFSET, INVALID_LENGTH, Bool.or_eq_true, Bool.and_eq_true, beq_iff_eq,
      decide_eq_true_eq] at this
    rcases this with ⟨a, b'⟩ | ⟨⟨a, b'⟩, c'⟩
    · exact Or.inl ⟨a, b'⟩
    · exact Or.inr ⟨a, b', c'⟩
  · rw [e2, e3]
    have := (allPairs_iff _ _).mp k5
    refine this.imp ?_
    intro x y hxy
    simp only [disjointOrAlias, Bool.or_eq_true, Bool.and_eq_true, decide_eq_true_eq, beq_iff_eq] at hxy
    rcases hxy with (h1 | h1) | ⟨⟨⟨a1, a2⟩, a3⟩, a4⟩
    · exact Or.inl h1
    · exact Or.inr (Or.inl h1)
    · exact Or.inr (Or.inr ⟨a1, a2, a3, a4⟩)

/-- **an accepted file's dimension records are consistent with its data**: for every `DFTAG_NDG` / `DFTAG_SDG` group of a file the
    reader accepts and every `DFTAG_SDD` the group names that is in the file: the record decodes (rank, sizes, rank + 1 number types),
    no size is negative, the data's and every scale's number type is a well-formed 4-byte `DFTAG_NT` of a type `DFKNTsize` knows, and
    when the group names a data element `DFTAG_SD` that has been written then
    `product(sizes) · size(number type) = logical length of that element`.
    This is the clause a record variable's SDD that claims the file-wide record count violates. -/
theorem sdd_consistent (b : ByteArray) (c : FileContent) (h : decodeFile b = .ok c)
    (e : Elem) (he : e ∈ c.elems) (htag : e.dd.tag = H4.Gen.Hdf.DFTAG_NDG ∨ e.dd.tag = DFTAG_SDG)
    (ms : List (Nat × Nat)) (hms : (e.ldata.data.map (·.toList)).bind decodeGroup = some ms)
    (r : Nat) (hr : (DFTAG_SDD, r) ∈ ms) (se : Elem) (hse : elemOf c.elems DFTAG_SDD r = some se) :
    ∃ bs s sz, se.ldata.data.map (·.toList) = some bs ∧ decodeSDD bs = some s ∧ (∀ d ∈ s.dims, 0 ≤ d) ∧
      (∃ w, checkNT c.elems w s.dataNT.1 s.dataNT.2 = ([], some sz)) ∧
      (∀ p ∈ s.scaleNTs, ∃ w sz', checkNT c.elems w p.1 p.2 = ([], some sz')) ∧
      (∀ dt dr de, memberOf ms [DFTAG_SD] = some (dt, dr) → writtenElem c.elems DFTAG_SD dr = some de →
        de.ldata.len = prod (s.dims.map (·.toNat)) * sz) := by
  have h0 := elemComplaints_nil (decodeFile_desc h) he
  unfold elemComplaints at h0
  rw [if_pos htag, hms] at h0
  exact checkSDD_sound (checkSDD_nil h0 hr) hse

/-- **an accepted file's image dimension records are consistent with its pixels**: for every `DFTAG_RIG` group of a file the reader
    accepts and every `DFTAG_ID` the group names that is in the file: the record decodes (20 bytes), sizes ≥ 0, components ≥ 1,
    interlace 0..2, and for an image without one of the old raster compression schemes the image element of the group is either
    without pixels (length 0) or holds exactly xdim · ydim · components · size(number type) bytes -/
theorem id_consistent (b : ByteArray) (c : FileContent) (h : decodeFile b = .ok c)
    (e : Elem) (he : e ∈ c.elems) (htag : e.dd.tag = DFTAG_RIG)
    (ms : List (Nat × Nat)) (hms : (e.ldata.data.map (·.toList)).bind decodeGroup = some ms)
    (r : Nat) (hr : (DFTAG_ID, r) ∈ ms) (ie : Elem) (hie : elemOf c.elems DFTAG_ID r = some ie) :
    ∃ bs d, ie.ldata.data.map (·.toList) = some bs ∧ decodeImgDesc bs = some d ∧
      0 ≤ d.xdim ∧ 0 ≤ d.ydim ∧ 1 ≤ d.ncomps ∧ 0 ≤ d.interlace ∧ d.interlace ≤ 2 ∧
      ((d.compTag = 0 ∨ d.compTag = DFTAG_NULL) → ∃ w sz, imgNT c.elems w d = ([], some sz) ∧
        ∀ dt dr de, memberOf ms [DFTAG_RI, DFTAG_CI] = some (dt, dr) → writtenElem c.elems dt dr = some de →
          de.ldata.len = d.xdim.toNat * d.ydim.toNat * d.ncomps.toNat * sz ∨ de.ldata.len = 0) := by
  have h0 := elemComplaints_nil (decodeFile_desc h) he
  unfold elemComplaints at h0
  have hn : ¬ (e.dd.tag = H4.Gen.Hdf.DFTAG_NDG ∨ e.dd.tag = DFTAG_SDG) := by rw [htag]; decide
  rw [if_neg hn, if_pos htag, hms] at h0
  exact checkImgDesc_sound (checkImgDesc_nil h0 hr) hie

/-- an 8-bit image of 3 x 2 pixels with its RIG: accepted with 6 bytes of pixels and without pixels, rejected (clause `id`) with 5 -/
def rigElems (pixels : Bytes) : List Elem :=
  let plain (tag ref : Nat) (bs : Bytes) : Elem := ⟨⟨tag, ref, 100, bs.length⟩, .plain, ⟨bs.length, some ⟨bs.toArray⟩⟩, [], []⟩
  [plain 106 1 (encodeNT ⟨1, 21, 8, 0⟩),
   plain 300 1 (encodeImgDesc ⟨3, 2, 106, 1, 1, 0, 0, 0⟩),
   plain 302 1 pixels,
   plain 306 1 (enc16 300 ++ enc16 1 ++ enc16 302 ++ enc16 1)]
example : descComplaints (rigElems [1, 2, 3, 4, 5, 6]) [] = [] := by decide +kernel
example : descComplaints (rigElems []) [] = [] := by decide +kernel
example : (descComplaints (rigElems [1, 2, 3, 4, 5]) []).map (·.1) = ["id"] := by decide +kernel

/-- the hypotheses are satisfiable and the clause has teeth.  `recFile n` = the descriptive part of a file with one record variable:
    number type int16 (106/5), dimension record 701/5 claiming `n` records, data element 702/6 of 4 bytes (2 records), group 720/4 -/
def recElems (n : Int) : List Elem :=
  let plain (tag ref : Nat) (bs : Bytes) : Elem := ⟨⟨tag, ref, 100, bs.length⟩, .plain, ⟨bs.length, some ⟨bs.toArray⟩⟩, [], []⟩
  [plain 106 5 (encodeNT ⟨1, 22, 16, 1⟩),
   plain 701 5 (encodeSDD ⟨[n], (106, 5), [(106, 5)]⟩),
   plain 702 6 [0, 1, 0, 2],
   plain 720 4 (enc16 702 ++ enc16 6 ++ enc16 106 ++ enc16 5 ++ enc16 701 ++ enc16 5 ++ enc16 721 ++ enc16 5)]
/-- the variable's own record count: accepted -/
example : descComplaints (recElems 2) [] = [] := by decide +kernel
/-- the record count of a longer variable of the same file (the dimension record describes 10 bytes, the data element holds 4): rejected
    with clause `sdd` -/
example : (descComplaints (recElems 5) []).map (·.1) = ["sdd"] := by decide +kernel
/-- a number type whose width is not that of its type: clause `nt` -/
example : ((checkNT [⟨⟨106, 5, 100, 4⟩, .plain, ⟨4, some ⟨#[1, 22, 32, 1]⟩⟩, [], []⟩] "x" 106 5).1).map (·.1) = ["nt"] := by decide +kernel

/-- non-vacuity: a 30-byte file (magic, one block of two descriptors, one of them a 2-byte element) is accepted,
    hence well formed -/
def tinyFile : ByteArray :=
  ⟨#[0x0e, 0x03, 0x13, 0x01,  0x00, 0x02, 0, 0, 0, 0,
     0x0b, 0xb8, 0x00, 0x01, 0, 0, 0, 34, 0, 0, 0, 2,   0x00, 0x01, 0x00, 0x00, 0xff, 0xff, 0xff, 0xff, 0xff, 0xff, 0xff, 0xff,
     0xaa, 0xbb]⟩
example : (decodeFile tinyFile).toOption.map (fun c => (c.size, c.dds)) = some (36, [⟨3000, 1, 34, 2⟩]) := by decide +kernel

/-- **the chain walk never runs out of fuel**: with fuel = file length, `decodeFile` answers `ok` or a named format error,
    never `fuel` — on acyclic chains every block is visited, on cyclic ones the cycle is reported -/
theorem chain_terminates (b : ByteArray) : readChain b ≠ .error .fuel := by
  unfold readChain
  split
  · rename_i hm
    have := magicOK_size hm
    exact walk_ne_fuel b b.size MAGICLEN [] (walkInv_nil b) (by simp) (by simp only [MAGICLEN] at this; omega)
  · simp [bad]

/-- the structural part of the reader (magic, chain, descriptors, the structural clauses) never answers `fuel` -/
theorem readRaw_ne_fuel (b : ByteArray) : readRaw b ≠ .error .fuel := by
  unfold readRaw
  split
  · rename_i e he
    intro h
    injection h with h
    exact chain_terminates b (h ▸ he)
  · simp only
    repeat' split
    all_goals simp [bad]

/- Full statement (not proved): `decodeFile b ≠ .error .fuel`.  What is missing is the observation that `readElem` and
   `readRecords` only ever fail with `.bad …` (their own recursion is bounded by `maxNest` and by list lengths and
   reports exhaustion as `bad "special"` / `bad "linked"`); `.fuel` is constructed in `walk` only.  The proof is a case
   split over every branch of `readElem`; it was left out for time, not for difficulty. -/

/-- a cycle is detected, not followed: a block whose `next` points to itself is rejected with a chain error -/
def cyclicFile : ByteArray :=
  ⟨#[0x0e, 0x03, 0x13, 0x01,  0x00, 0x01, 0, 0, 0, 4,   0x00, 0x01, 0x00, 0x00, 0xff, 0xff, 0xff, 0xff, 0xff, 0xff, 0xff, 0xff]⟩
example : (match readChain cyclicFile with | .error (.bad c _) => c | _ => "") = "chain" := by decide +kernel

end H4.Props.C02
