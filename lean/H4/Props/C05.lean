import H4.Lemmas.Rle
/-! # C05 — lossless coders and bit-level I/O round-trip every byte stream (property theorems) -/
namespace H4.Props.C05
open H4.Rle

/-- RLE: every byte string, of any length and content, written sequentially through the `crle.c`
    encoder (any partition into write calls: the encoder is a per-byte fold) and flushed by
    `HCIcrle_term` decodes to exactly the bytes written. -/
theorem rle_roundtrip (bs : List Byte) : dec (compress bs) = some bs := by
  obtain ⟨h1, h2, h3⟩ := run_ok bs {} init_inv
  obtain ⟨t1, t2⟩ := term_ok _ h1
  have hv : ∀ p ∈ encode bs, p.Valid := by
    intro p hp
    simp only [encode] at hp
    rcases List.mem_append.mp hp with hp | hp
    · exact h2 p hp
    · exact t1 p hp
  unfold compress
  rw [dec_ser _ hv]
  simp only [encode, expand, List.flatMap_append] at *
  rw [t2, h3]
  simp [pending]

/-- non-vacuity: a stream crossing the 130-byte run limit and containing a 2-byte pseudo-run -/
example : dec (compress (List.replicate 131 7 ++ [1, 1, 2, 2, 2, 3])) = some (List.replicate 131 7 ++ [1, 1, 2, 2, 2, 3]) := by
  decide

end H4.Props.C05
