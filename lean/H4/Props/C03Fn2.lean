import H4.Lemmas.C03Fn2
/-! C03 (and the overflow side of C20), function-level Tie A, second part: the shape and index arithmetic of the SD/netCDF layer.
    `NC_var_shape` of `mfhdf/src/var.c`, `NCcoordck` and `NC_varoffset` of `mfhdf/src/putget.c`, as translated statement by statement from
    the CURRENT C text (`H4.Gen.Fn.Var`, `H4.Gen.Fn.Putget2`, written by gen/c2lean.py on every run), compute the hand-written model
    `H4.VarShape` (row-major strides × element size = `Slab.offset` in bytes, the record-dimension rules), with no undefined behaviour and
    terminating loops.  The C's `unsigned long` arithmetic is the model's modulo 2^64: `stored_exact_iff` says exactly when nothing wraps.
    A change of the C text changes the generated definitions; these theorems are re-checked against them.

    Parameters that stand for what the translator cannot express (listed in the generated doc comments):
    * `NC_var_shape`: `dims_values` = the array of `NC_dim *` (only its length matters), `dims_values_size` = the `size` members of the
      pointed-to dimensions; `shape_blk` / `dsizes_blk` are the blocks the function allocates, `var_shape_seat` / `var_dsizes_seat` say that
      `var->shape` / `var->dsizes` were re-seated to them; `malloc` never fails.
    * `NCcoordck`: the results of `nc_API`, `hdf_get_vp_aid`, `NC_findattr` (NULL or not), `Hseek`, `DFKconvert`, `Hwrite`, `hdf_xdr_setpos`,
      `NCfillrecord`, `xdr_numrecs` are entry parameters (the fill-on-extend I/O is ASSUMED to succeed: `IoOk`).
    * `NC_varoffset`: the `CDF_FILE` groups of its two switches are not translated (reaching them sets `ub`). -/
namespace H4.Props.C03Fn2
open H4 H4.Slab H4.VarShape H4.C2L H4.Gen.Fn.Putget2 H4.Gen.Fn.Var H4.Lemmas.C03Fn2

/-! ## `NC_var_shape` -/

/-- **`NC_var_shape_refines`.**  For every rank ≤ H4_MAX_VAR_DIMS, every list of dimension ids (any `int` values) and every table of
    dimension sizes (non-negative `int32`), element size `xszof = var->HDFsize` (non-negative `int32`), file kind and type, the translated
    `NC_var_shape` never indexes outside `assoc->values`, `dims->values` or the two blocks it allocates, its loops terminate within `rank`
    passes, and it leaves what the model `varShapeC` says: `-1` and an untouched variable when a dimension id is refused, else the rank,
    `shape[i] = size of dimension ids[i]`, `dsizes[i] = (xszof * shape[i+1] * … * shape[n-1]) mod 2^64` = the model's row-major strides × the
    element size, and `len = (xszof * Π shape) mod 2^64` (record dimension counting as 1), rounded up to a multiple of 4 for BYTE/CHAR/SHORT
    in a non-HDF file (that addition is modulo 2^64 too). -/
theorem NC_var_shape_refines (ids : List Int) (dimsizes : List Nat) (xszof ft ty : Nat) (len0 : Int) (dv : List Int) (sn : Bool) (fuel : Nat)
    (hI : Ids32 ids) (hD : Dims31 dimsizes) (hrank : ids.length ≤ H4.Gen.Ncvar.H4_MAX_VAR_DIMS) (hdl : dimsizes.length < 4294967296)
    (hdv : dv.length = dimsizes.length) (hx : xszof < 2147483648) (hf : ids.length ≤ fuel) :
    let s := NC_var_shape fuel xszof ids.length len0 ids sn ft ty false dimsizes.length dv (ints dimsizes)
    s.ub = false ∧ s.oof = false ∧
    match varShapeC dimsizes ids xszof ft ty with
    | none => s.ret = -1 ∧ s.var_shape_seat = false ∧ s.var_dsizes_seat = false ∧ s.var_len = len0
    | some c => s.ret = ids.length ∧ s.var_shape_seat = !ids.isEmpty ∧ s.var_dsizes_seat = !ids.isEmpty ∧
        s.shape_blk = ints c.shape ∧ s.dsizes_blk = ints c.dsizes ∧ s.var_len = (c.len : Int) := by
  intro s
  have hn : ids.length < 2147483648 := by simp only [H4.Gen.Ncvar.H4_MAX_VAR_DIMS] at hrank; omega
  unfold varShapeC
  cases hsh : shapeOf dimsizes true ids with
  | none =>
    obtain ⟨a, b, c, d, e, f⟩ := vs_entry_fail ids dimsizes xszof ft ty len0 dv fuel sn hI hD hn hdl hdv hx hf hsh
    exact ⟨a, b, c, d, e, f⟩
  | some S =>
    simp only [Option.map_some]
    by_cases he : ids = []
    · subst he
      have hS : S = [] := by simp [shapeOf] at hsh; exact hsh
      subst hS
      obtain ⟨a, b, c, d, e, f1, f2, f⟩ := vs_entry_scalar xszof ft ty len0 [] dv (ints dimsizes) dimsizes.length fuel sn false hx
      exact ⟨a, b, c, d, e, f1, f2, f⟩
    · have hpos : 0 < ids.length := List.length_pos_iff.mpr he
      obtain ⟨a, b, c, d, e, f, g, h⟩ := vs_entry_ok ids dimsizes S xszof ft ty len0 dv fuel sn hI hD hn hdl hdv hx hf hsh hpos
      have hie : ids.isEmpty = false := by cases ids <;> simp_all
      exact ⟨a, b, c, by rw [hie]; exact d, by rw [hie]; exact e, f, g, h⟩

/-- the hypotheses are satisfiable and the translated code runs: dimensions of sizes 0 (unlimited), 5, 6, 3; an `int16` record variable over
    dimensions (0, 1, 3) in a netCDF file: shape (0,5,3), dsizes (30,6,2), len 30 rounded up to 32; over (1, 0): refused -/
example : Ids32 [0, 1, 3] ∧ Dims31 [0, 5, 6, 3] ∧
    (let s := NC_var_shape 3 2 3 77 [0, 1, 3] true 0 3 false 4 [0, 0, 0, 0] (ints [0, 5, 6, 3])
     s.ub = false ∧ s.oof = false ∧ s.ret = 3 ∧ s.shape_blk = [0, 5, 3] ∧ s.dsizes_blk = [30, 6, 2] ∧ s.var_len = 32 ∧
     varShapeC [0, 5, 6, 3] [0, 1, 3] 2 0 3 = some ⟨[0, 5, 3], [30, 6, 2], 32⟩) ∧
    (let s := NC_var_shape 2 2 2 77 [1, 0] true 0 3 false 4 [0, 0, 0, 0] (ints [0, 5, 6, 3])
     s.ub = false ∧ s.oof = false ∧ s.ret = -1 ∧ s.var_len = 77 ∧ varShapeC [0, 5, 6, 3] [1, 0] 2 0 3 = none) := by decide

/-- **when the `unsigned long` arithmetic wraps.**  For a shape `NC_var_shape` accepts, the stored `dsizes` and `len` are the unbounded
    model's (`varShape`: strides × element size, product of the extents, rounded) exactly when the rounded length fits: `roundLen (xszof * Π shape) < 2^64`. -/
theorem stored_exact_iff (dimsizes : List Nat) (ids : List Int) (xszof ft ty : Nat) (S : List Nat) (hsh : shapeOf dimsizes true ids = some S) :
    varShapeC dimsizes ids xszof ft ty = varShape dimsizes ids xszof ft ty ↔ roundLen ft ty (varLen xszof S) < W := by
  have hp : ∀ k, 1 ≤ k → k < S.length → S.getD k 0 ≠ 0 := fun k h1 h2 => shapeOf_pos dimsizes ids true S hsh k h2 (Or.inr h1)
  have key := stored_eq_iff xszof ft ty S hp
  simp only [varShapeC, varShape, hsh, Option.map_some, Option.some.injEq, Compiled.mk.injEq, true_and]
  exact key

/-- **the C accepts shapes whose byte count wraps** (relevant to C20): four dimensions of 65536 elements of 4 bytes are 2^66 bytes;
    `NC_var_shape` returns the rank (success) with `len = 0` and `dsizes = (2^50, 2^34, 2^18, 4)`: nothing in it (nor in `ncvardef`) tests the
    products.  The model says so (`varShapeC ≠ varShape`), the translated C text does it. -/
example :
    (let s := NC_var_shape 4 4 4 0 [0, 1, 2, 3] true 1 4 false 4 [0, 0, 0, 0] (ints [65536, 65536, 65536, 65536])
     s.ub = false ∧ s.oof = false ∧ s.ret = 4 ∧ s.var_len = 0 ∧ s.dsizes_blk = [1125899906842624, 17179869184, 262144, 4]) ∧
    varLen 4 [65536, 65536, 65536, 65536] = 73786976294838206464 ∧
    varShapeC [65536, 65536, 65536, 65536] [0, 1, 2, 3] 4 1 4 ≠ varShape [65536, 65536, 65536, 65536] [0, 1, 2, 3] 4 1 4 := by decide

/-! ## `NC_varoffset` -/

/-- **`NC_varoffset_refines`.**  For every variable of rank ≥ 1 whose `dsizes` are what `NC_var_shape` stored for its shape (`dsC`: strides ×
    element size, modulo 2^64) and every coordinate vector of that rank (any non-negative values: also outside the extents), in an HDF or a
    netCDF file, the translated `NC_varoffset` returns the model's byte offset `varOffset` modulo 2^64 - for an HDF file
    `Slab.offset shape coords * xszof` - reads inside `dsizes` / `coords` only and its loop terminates. -/
theorem NC_varoffset_refines (shape coords : List Nat) (xszof ft begin recsize fuel : Nat) (hne : shape ≠ [])
    (hC : coords.length = shape.length) (hft : ft = H4.Gen.Ncvar.netCDF_FILE ∨ ft = H4.Gen.Ncvar.HDF_FILE) (hf : shape.length ≤ fuel) :
    let s := NC_varoffset fuel ft recsize shape.length begin false (ints shape) (ints (dsC xszof shape)) (ints coords)
    s.ub = false ∧ s.oof = false ∧ s.done = true ∧ s.ret = ((varOffset ft begin recsize xszof shape coords % W : Nat) : Int) := by
  intro s
  have hpos : 0 < shape.length := List.length_pos_iff.mpr hne
  obtain ⟨a, b, c, d⟩ := vo_entry shape (dsC xszof shape) coords ft begin recsize fuel hpos (dsC_length xszof shape) hC hf hft
  refine ⟨a, b, c, ?_⟩
  show (NC_varoffset fuel ft recsize shape.length begin false (ints shape) (ints (dsC xszof shape)) (ints coords)).ret = _
  rw [d, voRaw_model ft begin recsize xszof shape coords hpos hC hft]

/-- **in-range coordinates, nothing wrapped: the exact model offset.**  Fixed-size or record variable in an HDF file, coordinates inside the
    extents (`Slab.inB`: what `NCcoordck` lets through for a fixed-size variable), `xszof * Π shape < 2^64`: the translated `NC_varoffset` returns
    exactly `Slab.offset shape coords * xszof` - so `Slab.offset_inj` / `offset_lt` (C03: distinct cells never share storage, every cell
    lies inside the variable) hold for the offsets the C computes. -/
theorem NC_varoffset_inrange (shape coords : List Nat) (xszof fuel : Nat) (hne : shape ≠ []) (hin : inB shape coords)
    (hC : coords.length = shape.length) (hfit : prod shape * xszof < W) (hf : shape.length ≤ fuel) :
    let s := NC_varoffset fuel H4.Gen.Ncvar.HDF_FILE 0 shape.length 0 false (ints shape) (ints (dsC xszof shape)) (ints coords)
    s.ub = false ∧ s.oof = false ∧ s.ret = ((offset shape coords * xszof : Nat) : Int) ∧ offset shape coords * xszof < prod shape * xszof ∨ xszof = 0 := by
  intro s
  by_cases hx : xszof = 0
  · exact Or.inr hx
  · left
    obtain ⟨a, b, _, d⟩ := NC_varoffset_refines shape coords xszof H4.Gen.Ncvar.HDF_FILE 0 0 fuel hne hC (Or.inr rfl) hf
    have hlt := offset_lt shape coords hin
    have hm : offset shape coords * xszof < prod shape * xszof := Nat.mul_lt_mul_of_pos_right hlt (by omega)
    refine ⟨a, b, ?_, hm⟩
    have : varOffset H4.Gen.Ncvar.HDF_FILE 0 0 xszof shape coords = offset shape coords * xszof := by
      cases shape with
      | nil => exact absurd rfl hne
      | cons a t => simp [varOffset]
    rw [this, Nat.mod_eq_of_lt (by omega)] at d
    exact d

/-- the hypotheses are satisfiable and the translated code runs: 4x5x6 `int32`, coordinates (1,2,3): (1*30 + 2*6 + 3) * 4 = 180 bytes;
    the record variable (0,5,6) at record 7 in an HDF file: (7*30 + 2*6 + 3) * 4 = 900; in a netCDF file with `begin` 100, `recsize` 1000:
    100 + 7*1000 + (2*6+3)*4 = 7160 -/
example : dsC 4 [4, 5, 6] = [120, 24, 4] ∧ inB [4, 5, 6] [1, 2, 3] ∧
    (let s := NC_varoffset 3 1 0 3 0 false (ints [4, 5, 6]) (ints (dsC 4 [4, 5, 6])) (ints [1, 2, 3])
     s.ub = false ∧ s.oof = false ∧ s.ret = 180 ∧ varOffset 1 0 0 4 [4, 5, 6] [1, 2, 3] = 180 ∧ offset [4, 5, 6] [1, 2, 3] * 4 = 180) ∧
    (let s := NC_varoffset 3 1 0 3 0 false (ints [0, 5, 6]) (ints (dsC 4 [0, 5, 6])) (ints [7, 2, 3])
     s.ub = false ∧ s.oof = false ∧ s.ret = 900 ∧ varOffset 1 0 0 4 [0, 5, 6] [7, 2, 3] = 900) ∧
    (let s := NC_varoffset 3 0 1000 3 100 false (ints [0, 5, 6]) (ints (dsC 4 [0, 5, 6])) (ints [7, 2, 3])
     s.ub = false ∧ s.oof = false ∧ s.ret = 7160 ∧ varOffset 0 100 1000 4 [0, 5, 6] [7, 2, 3] = 7160) := by decide

/-! ## `NCcoordck` -/

/-- **`NCcoordck_refines`.**  For every variable of rank ≥ 1 and every coordinate vector of that rank (any `long` values: negative, beyond the
    extents), every file kind, direction (`x_op`), caller kind (`nc_API`), flags and record counts, with the fill-on-extend I/O assumed to
    succeed (`IoOk`) and `vp->HDFsize` a positive `int32` (the fill path divides by it): the translated `NCcoordck` answers TRUE exactly
    when the model `coordck` accepts - a fixed-size variable: every coordinate inside its extent; a record variable: `coords[0] ≥ 0` without
    upper bound when writing (the record dimension grows), the other coordinates inside their extents, reads refused beyond the record count -
    and leaves the model's `vp->numrecs`, `handle->numrecs`, `handle->flags`; it never reads outside `shape` / `coords` (`ub = false`) and its
    loops terminate (fuel: the rank, and the number of records to fill). -/
theorem NCcoordck_refines (shape : List Nat) (coords : List Int) (ft xop hnum flags : Nat)
    (vnum aid len hdfsize szof ncapi getaid seek conv wr setpos fillrec xdrn : Int) (fillattrNull : Bool) (fuel : Nat)
    (hne : shape ≠ []) (hC : coords.length = shape.length) (hh : hnum < 4294967296) (hF : flags < 4294967296) (hv : 0 ≤ vnum)
    (io : IoOk aid getaid seek conv wr setpos fillrec xdrn) (hsz : 0 < hdfsize) (hsz2 : hdfsize < 2147483648)
    (hf1 : shape.length ≤ fuel) (hf2 : (coords.getD 0 0 + 1).toNat ≤ fuel) :
    let s := NCcoordck fuel ft xop hnum flags false (ints shape) shape.length vnum aid len hdfsize szof coords ncapi getaid fillattrNull
      seek conv wr setpos fillrec xdrn
    let m := coordck ft (decide (xop = H4.Gen.Ncvar.XDR_ENCODE)) (decide (ncapi ≠ 0)) flags vnum hnum shape coords
    s.ub = false ∧ s.oof = false ∧ s.ret = (if m.ok then 1 else 0) ∧ s.vp_numrecs = m.vpNumrecs ∧
      s.handle_numrecs = (m.hNumrecs : Int) ∧ s.handle_flags = (m.flags : Int) := by
  intro s m
  have hpos : 0 < shape.length := List.length_pos_iff.mpr hne
  have key := ck_entry shape coords ft xop hnum flags vnum aid len hdfsize szof ncapi getaid seek conv wr setpos fillrec xdrn fillattrNull fuel
    hpos hC hh hF hv io hsz hsz2 hf1 hf2
  rw [ckSpec_eq ft _ _ flags vnum hnum shape coords hpos hC] at key
  exact key

/-- **fixed-size variable: `NCcoordck` accepts exactly the coordinates inside the shape** (`Slab.inB`, the hypothesis of `offset_inj`,
    `offset_lt` and of the slab theorems of C03), whatever the file kind, direction and flags are, and changes no record count. -/
theorem NCcoordck_fixed_iff (shape coords : List Nat) (ft xop hnum flags : Nat)
    (vnum aid len hdfsize szof ncapi getaid seek conv wr setpos fillrec xdrn : Int) (fillattrNull : Bool) (fuel : Nat)
    (hne : shape ≠ []) (h0 : shape.getD 0 0 ≠ 0) (hC : coords.length = shape.length) (hh : hnum < 4294967296) (hF : flags < 4294967296) (hv : 0 ≤ vnum)
    (io : IoOk aid getaid seek conv wr setpos fillrec xdrn) (hsz : 0 < hdfsize) (hsz2 : hdfsize < 2147483648)
    (hf1 : shape.length ≤ fuel) (hf2 : (((coords.map Int.ofNat).getD 0 0) + 1).toNat ≤ fuel) :
    let s := NCcoordck fuel ft xop hnum flags false (ints shape) shape.length vnum aid len hdfsize szof (coords.map Int.ofNat) ncapi getaid
      fillattrNull seek conv wr setpos fillrec xdrn
    s.ub = false ∧ s.oof = false ∧ (s.ret = 1 ↔ inB shape coords) ∧ (s.ret = 0 ∨ s.ret = 1) ∧
      s.vp_numrecs = vnum ∧ s.handle_numrecs = hnum ∧ s.handle_flags = flags := by
  intro s
  obtain ⟨a, b, c, d, e, f⟩ := NCcoordck_refines shape (coords.map Int.ofNat) ft xop hnum flags vnum aid len hdfsize szof ncapi getaid seek conv
    wr setpos fillrec xdrn fillattrNull fuel hne (by simpa using hC) hh hF hv io hsz hsz2 hf1 hf2
  have hd : shape.headD 1 = shape.getD 0 0 := by cases shape with
    | nil => exact absurd rfl hne
    | cons x t => rfl
  have hm : coordck ft (decide (xop = H4.Gen.Ncvar.XDR_ENCODE)) (decide (ncapi ≠ 0)) flags vnum hnum shape (coords.map Int.ofNat) =
      ⟨inExtents shape (coords.map Int.ofNat), vnum, hnum, flags⟩ := by
    simp only [coordck, hd, H4.Gen.Ncvar.NC_UNLIMITED, ne_eq, h0, not_false_eq_true, if_true]
    cases inExtents shape (coords.map Int.ofNat) <;> simp
  rw [hm] at c d e f
  have hiff := inExtents_iff_inB shape coords hC
  refine ⟨a, b, ?_, ?_, d, e, f⟩
  · show (NCcoordck fuel ft xop hnum flags false (ints shape) shape.length vnum aid len hdfsize szof (coords.map Int.ofNat) ncapi getaid
      fillattrNull seek conv wr setpos fillrec xdrn).ret = 1 ↔ _
    rw [c, ← hiff]
    cases inExtents shape (coords.map Int.ofNat) <;> simp
  · show (NCcoordck fuel ft xop hnum flags false (ints shape) shape.length vnum aid len hdfsize szof (coords.map Int.ofNat) ncapi getaid
      fillattrNull seek conv wr setpos fillrec xdrn).ret = 0 ∨ _
    rw [c]
    cases inExtents shape (coords.map Int.ofNat) <;> simp

/-- the hypotheses are satisfiable and the translated code runs.  Fixed 4x5x6: (3,4,5) accepted, (3,5,5) and (-1,0,0) refused.
    Record variable (0,5,6) in an HDF file with 2 records (file: 2), writing record 5 with fill: accepted, 6 records, NC_NDIRTY set, 4 fill
    records written; reading record 5 through the SD API: refused; a netCDF file, writing record 5 with NC_NSYNC: 6 records, flags clean. -/
example : IoOk 7 0 0 0 0 1 1 1 ∧
    (let s := NCcoordck 6 1 0 0 0 false (ints [4, 5, 6]) 3 0 7 480 4 4 [3, 4, 5] 0 0 true 0 0 0 1 1 1
     s.ub = false ∧ s.oof = false ∧ s.ret = 1 ∧ (coordck 1 true false 0 0 0 [4, 5, 6] [3, 4, 5]).ok = true) ∧
    (let s := NCcoordck 6 1 0 0 0 false (ints [4, 5, 6]) 3 0 7 480 4 4 [3, 5, 5] 0 0 true 0 0 0 1 1 1
     s.ub = false ∧ s.oof = false ∧ s.ret = 0 ∧ (coordck 1 true false 0 0 0 [4, 5, 6] [3, 5, 5]).ok = false) ∧
    (let s := NCcoordck 6 1 0 0 0 false (ints [4, 5, 6]) 3 0 7 480 4 4 [-1, 0, 0] 0 0 true 0 0 0 1 1 1
     s.ub = false ∧ s.oof = false ∧ s.ret = 0) ∧
    (let s := NCcoordck 6 1 0 2 0 false (ints [0, 5, 6]) 3 2 7 120 4 4 [5, 4, 5] 0 0 true 0 0 0 1 1 1
     s.ub = false ∧ s.oof = false ∧ s.ret = 1 ∧ s.vp_numrecs = 6 ∧ s.handle_numrecs = 6 ∧ s.handle_flags = 64 ∧
     coordck 1 true false 0 2 2 [0, 5, 6] [5, 4, 5] = ⟨true, 6, 6, 64⟩) ∧
    (let s := NCcoordck 6 1 1 2 0 false (ints [0, 5, 6]) 3 2 7 120 4 4 [5, 4, 5] 0 0 true 0 0 0 1 1 1
     s.ub = false ∧ s.oof = false ∧ s.ret = 0 ∧ s.vp_numrecs = 2 ∧ (coordck 1 false false 0 2 2 [0, 5, 6] [5, 4, 5]).ok = false) ∧
    (let s := NCcoordck 6 0 0 2 16 false (ints [0, 5, 6]) 3 0 7 120 4 4 [5, 4, 5] 0 0 true 0 0 0 1 1 1
     s.ub = false ∧ s.oof = false ∧ s.ret = 1 ∧ s.handle_numrecs = 6 ∧ s.handle_flags = 16 ∧
     coordck 0 true false 16 0 2 [0, 5, 6] [5, 4, 5] = ⟨true, 0, 6, 16⟩) := by decide

end H4.Props.C03Fn2
