import H4.Lemmas.VGroupRefine
import H4.Lemmas.VGraphProps
/-! # C08 — Vgroups: ordered member lists, names/classes, the per-file graph, lone sets, iteration, persistence

Implementation model: `H4.VGroup` (`vgp.c`, `vg.c`).  Reference model: `H4.VGroup.Graph`/`gstep` (`H4/VGraph.lean`). -/
namespace H4.Props.C08
open H4.VGroup H4.Gen.Hdf

/-- the generated constants the proofs rely on (Tie A) -/
theorem consts : MAXNVELT = 64 ∧ DFTAG_VG = 1965 ∧ DFTAG_VH = 1962 ∧ VSDESCTAG = 1962 ∧ DFTAG_NULL = 1 ∧
    VSET_VERSION = 3 ∧ VSET_NEW_VERSION = 4 ∧ VG_ATTR_SET = 1 ∧ MAX_REF = 65535 := H4.VGroup.consts

/-! ## 1. member arrays refine an ordered list -/

/-- the two operations that change the member arrays -/
inductive MemOp where
  | ins (t r : Nat)      -- `Vaddtagref` / `Vinsert` → `vinsertpair`
  | del (t r : Nat)      -- `Vdeletetagref`
deriving Repr, DecidableEq

/-- implementation: arrays with `msize` doubling and the uint16 counter; outputs = returned count (or -1 = FAIL for an
    insertion into a full Vgroup) / success flag of a deletion -/
def runMem (m : Mem) : List MemOp → Mem × List Int
  | [] => (m, [])
  | .ins t r :: ops =>
    match vinsertpair m t r with
    | some p => let q := runMem p.1 ops; (q.1, (p.2 : Int) :: q.2)
    | none => let q := runMem m ops; (q.1, -1 :: q.2)
  | .del t r :: ops =>
    match vdeletetagref m t r with
    | some m' => let q := runMem m' ops; (q.1, 1 :: q.2)
    | none => let q := runMem m ops; (q.1, 0 :: q.2)

/-- reference: a list of at most MAX_REF = 65535 members; insert = snoc (refused when full, list unchanged),
    delete = erase the first occurrence (the order of the others is kept) -/
def runList (l : List Pair) : List MemOp → List Pair × List Int
  | [] => (l, [])
  | .ins t r :: ops =>
    if l.length = MAX_REF then let q := runList l ops; (q.1, -1 :: q.2)
    else let q := runList (l ++ [(t, r)]) ops; (q.1, ((l.length + 1 : Nat) : Int) :: q.2)
  | .del t r :: ops =>
    if (t, r) ∈ l then let q := runList (l.erase (t, r)) ops; (q.1, 1 :: q.2)
    else let q := runList l ops; (q.1, 0 :: q.2)

theorem runMem_refines (ops : List MemOp) (m : Mem) (h : m.OK) :
    (runMem m ops).1.members = (runList m.members ops).1 ∧ (runMem m ops).2 = (runList m.members ops).2 ∧
    (runMem m ops).1.OK := by
  induction ops generalizing m with
  | nil => exact ⟨rfl, rfl, h⟩
  | cons op rest ih =>
    have c : MAX_REF = 65535 := by decide
    have hl0 := Mem.members_length h
    cases op with
    | ins t r =>
      by_cases hf : m.nvelt = 65535
      · have e := vinsertpair_full hf t r
        have hl : m.members.length = MAX_REF := by rw [hl0, c]; exact hf
        obtain ⟨i1, i2, i3⟩ := ih m h
        simp only [runMem, runList, e, hl, if_true]
        exact ⟨i1, by rw [i2], i3⟩
      · have hlt : m.nvelt < 65535 := by have := h.2.2.2; omega
        obtain ⟨p, e, a, b, c'⟩ := vinsertpair_snoc h hlt t r
        have hl : ¬ m.members.length = MAX_REF := by rw [hl0, c]; exact hf
        obtain ⟨i1, i2, i3⟩ := ih p.1 c'
        simp only [runMem, runList, e, hl, if_false]
        rw [← a]
        exact ⟨i1, by rw [b, i2], i3⟩
    | del t r =>
      have hd := vdeletetagref_erase h t r
      cases hv : vdeletetagref m t r with
      | none =>
        rw [hv] at hd
        obtain ⟨i1, i2, i3⟩ := ih m h
        simp only [runMem, runList, hv, hd, if_false]
        exact ⟨i1, by rw [i2], i3⟩
      | some m' =>
        rw [hv] at hd
        obtain ⟨d1, d2, d3⟩ := hd
        obtain ⟨i1, i2, i3⟩ := ih m' d3
        simp only [runMem, runList, hv, d1, if_true]
        rw [← d2]
        exact ⟨i1, by rw [i2], i3⟩

/-- **Members refine a list — full strength** (EVERY history of insertions and deletions on a new Vgroup, of any
    length, whatever growth steps 64 → 128 → … → 65536 it crosses): the arrays hold exactly the reference list —
    insertion appends, deletion removes the first occurrence and keeps the order of the rest, an insertion into a
    Vgroup that already has 65535 members fails and changes nothing — and every returned count/flag agrees.

    History: up to /repo dc883d2 `vinsertpair` incremented the uint16 `nvelt` unconditionally; the 65536th insertion
    wrapped it to 0 and the Vgroup silently lost all members (finding F12 / key `vg-nvelt-wrap`).  This file then
    carried `nvelt_wrap_loses_members`, `vg_members_refine_list_false` and the bounded `vg_members_refine_list_partial`
    (`ops.length ≤ 65535`); they are superseded by this theorem. -/
theorem vg_members_refine_list (ops : List MemOp) :
    (runMem Mem.fresh ops).1.members = (runList [] ops).1 ∧ (runMem Mem.fresh ops).2 = (runList [] ops).2 := by
  have := runMem_refines ops Mem.fresh Mem.fresh_ok
  rw [Mem.fresh_members] at this
  exact ⟨this.1, this.2.1⟩

example : (runMem Mem.fresh [.ins 1965 2, .ins 1962 3, .ins 1965 2, .del 1965 2, .del 7 7]).1.members = [(1962, 3), (1965, 2)] := by
  decide

/-- the readers agree with the list, for every well-formed array state -/
theorem vg_readers_agree (m : Mem) (h : m.OK) (t r n i : Nat) :
    (vinqtagref m t r = true ↔ (t, r) ∈ m.members) ∧ vntagrefs m = m.members.length ∧
    vgettagrefs m n = m.members.take n ∧ vgettagref m (i : Int) = m.members[i]? ∧
    vnrefs m t = (m.members.filter (fun p => p.1 == t)).length :=
  ⟨vinqtagref_mem m t r, vntagrefs_length h, vgettagrefs_take m n, vgettagref_get h i, rfl⟩

/-- growth steps never drop or reorder members -/
theorem vg_growth_keeps_members (m : Mem) (h : m.OK) : m.grow.members = m.members ∧ m.grow.OK :=
  ⟨Mem.grow_members h, (Mem.grow_ok h).1⟩

example : (Mem.grow ⟨64, 64, List.replicate 64 (5, 6)⟩).msize = 128 := by decide

/-- at the limit: ANY Vgroup with 65535 members refuses the next insertion and keeps every member -/
theorem vg_full_insert_fails (m : Mem) (h : m.OK) (hn : m.members.length = 65535) (t r : Nat) :
    vinsertpair m t r = none ∧ (runMem m [.ins t r]).1 = m ∧ (runMem m [.ins t r]).2 = [-1] := by
  rw [Mem.members_length h] at hn
  have e := vinsertpair_full hn t r
  simp [runMem, e]

/-! ## 2. the DFTAG_VG record -/

/-- **Record round trip**: for every well-formed Vgroup (any member count < 65536, any name/class byte strings of
    length 1..65535 without NUL or absent, any extag/exref/more, version 2/3 without flags or version 4 with flags
    and, if `VG_ATTR_SET`, any attribute list) `vunpackvg (vpackvg g) = some g`. -/
theorem vpackvg_roundtrip (g : VG) (h : g.WF) : vunpackvg (vpackvg g) = some g := by
  rw [vunpackvg_vpackvg g h.1, VG.norm_of_wf h]

/-- **Record round trip with the proposed fix of finding 3** (`vpackvg` writes the flags word whenever the version is
    VSET_NEW_VERSION): the clause "no flags ⇒ not version 4" of `VG.WF` is no longer needed — every Vgroup that
    `vunpackvg` can produce from a well-formed record packs back to a record that unpacks to itself. -/
theorem vpackvg_roundtrip_fixed3 (g : VG) (h : g.WFfix) : vunpackvg (vpackvgF true g) = some g := by
  have := vunpackvg_vpackvgF true g h.1 (fun e => by cases e)
  rw [this]
  obtain ⟨_, h1, h2⟩ := h
  cases g; simp_all [VG.norm, normName_of_ne]

/-- the witness that separates the two: version 4, flags 0 (legal on disk; `more` odd).  Packed by the current code the
    record has no flags word and `vunpackvg` runs off its end; packed by the fixed code it round-trips. -/
example : let g : VG := { members := [(1000, 8)], name := some [112], version := 4, flags := 0, more := 1 }
    g.WFfix ∧ ¬ g.WF ∧ vunpackvg (vpackvgF false g) = none ∧ vunpackvg (vpackvgF true g) = some g := by decide

/-- on every Vgroup the current code can represent, the fix changes no byte of the record -/
theorem fixed3_changes_nothing_wf (g : VG) (h : g.WFmem) : vpackvgF true g = vpackvg g := vpackvgF_eq_of_wfmem true g h

/-- the in-memory variant: an empty name/class (`Vsetname(h, "")`) comes back as "no name" and nothing else changes -/
theorem vpackvg_roundtrip_mem (g : VG) (h : g.WFmem) : vunpackvg (vpackvg g) = some g.norm :=
  vunpackvg_vpackvg g h

/-- non-vacuity: members with duplicates, a name, a class, version 4 with the attribute flag and two attributes -/
example : VG.WF { members := [(1965, 2), (1962, 3), (1965, 2), (720, 65535)], name := some [65, 66], cls := some [67],
                  extag := 1, exref := 2, version := 4, more := 0, flags := 1, attrs := [(1962, 9), (1962, 10)] } := by
  decide

example : vunpackvg (vpackvg { members := [(1965, 2), (1962, 3)], name := some [65], version := 3 }) =
    some { members := [(1965, 2), (1962, 3)], name := some [65], version := 3 } := by decide

/-- the exact bytes of a small record (version 3): nvelt, tags, refs, name, class, extag, exref, version, more, 0 -/
example : vpackvg { members := [(1965, 2)], name := some [65], version := 3 } =
    [0, 1, 7, 173, 0, 2, 0, 1, 65, 0, 0, 0, 0, 0, 0, 0, 3, 0, 0, 0] := by decide

/-! ## 3. the file is a graph -/

/-- **Refinement of the reference graph** — for every history of `Vattach(-1)`, `Vattach`, `Vdetach`, `Vsetname`,
    `Vsetclass`, `Vaddtagref`, `Vinsert`, `Vdeletetagref`, `Vsetattr`, `Vdelete`, `VSdelete`, Vdata creation,
    `Vend/Vstart`, and all queries, starting from an empty file and admissible at every step
    (`admissible`: names below 65536 bytes, `Vdelete` only of detached Vgroups, reopen only with all handles detached;
    member counts are NOT bounded: a full Vgroup refuses further members in both models):
    every answer of the implementation model equals the answer of the reference graph, and the abstraction of the
    final implementation state IS the final reference graph (ordered member lists, names, classes, attribute lists,
    sets of Vgroups and Vdatas, handles) — through open handles and across detach/reopen alike.

    The three remaining hypotheses exclude undefined behaviour of the C code (use of a freed VGROUP), the silent
    truncation of names ≥ 65536 bytes by the 16-bit length field, and changes lost by `Vend` with attached handles. -/
theorem vg_refines_graph_partial (ops : List Op) (h : admissibleHist {} ops = true) :
    (run {} ops).2 = (grun {} ops).2 ∧ (run {} ops).1.abs = (grun {} ops).1 := by
  have := sim_run ops {} inv_empty ginv_empty h
  exact ⟨this.2.1, this.1⟩

/-- a non-trivial admissible history: two Vgroups, a Vdata, members, a rename, detach, reopen, queries -/
example : admissibleHist {} [.new 0 2, .vsnew 3, .new 1 4, .setname 0 [65, 66], .insertvg 0 1, .insertvs 0 3,
    .addtagref 0 720 9, .addtagref 0 720 9, .deltagref 0 720 9, .detach 0, .detach 1, .reopen, .attach 0 2 false,
    .gettagrefs 0 10, .getname 0, .vlone, .vslone, .getid (-1), .getid 2, .find [65, 66]] = true := by decide

example : (run {} [.new 0 2, .vsnew 3, .new 1 4, .setname 0 [65, 66], .insertvg 0 1, .insertvs 0 3,
    .addtagref 0 720 9, .addtagref 0 720 9, .deltagref 0 720 9, .detach 0, .detach 1, .reopen, .attach 0 2 false,
    .gettagrefs 0 10, .getname 0, .vlone, .vslone, .getid (-1), .getid 2, .find [65, 66]]).2.drop 13 =
    [.pairs [(1965, 4), (1962, 3), (720, 9)], .bytes [65, 66], .nats [2], .nats [], .int 2, .int 4, .int 2] := by decide

/-- every state reached by an admissible history keeps the file invariant: the Vgroup table is in strictly ascending
    ref order, every unmarked Vgroup is on disk exactly as `vpackvg` renders it, nothing else is on disk -/
theorem vg_reachable_inv (ops : List Op) (h : admissibleHist {} ops = true) : Inv (run {} ops).1 :=
  (sim_run ops {} inv_empty ginv_empty h).2.2

/-- **`Vlone`** answers exactly the existing Vgroups that are a member (with tag DFTAG_VG) of no Vgroup,
    in ascending ref order, each once. -/
theorem vlone_exact (s : File) (hs : KSorted s.vgs) (l : List Nat) (h : (step s .vlone).2 = .nats l) :
    (∀ r, r ∈ l ↔ r ∈ akeys s.vgs ∧ ∀ e ∈ s.vgs, (DFTAG_VG, r) ∉ e.2.mem.members) ∧ l.Pairwise (· < ·) := by
  have e : (step s .vlone).2 = .nats (loneOf (·.mem.members) DFTAG_VG (akeys s.vgs) s.vgs) := rfl
  rw [e] at h
  injection h with h
  subst h
  exact ⟨fun r => loneOf_mem _ _ _ _ r, List.Pairwise.sublist (loneOf_sublist _ _ _ _) hs⟩

/-- **`VSlone`** answers exactly the existing Vdatas that are a member (with tag DFTAG_VH) of no Vgroup,
    in the order of the Vdata table. -/
theorem vslone_exact (s : File) (l : List Nat) (h : (step s .vslone).2 = .nats l) :
    (∀ r, r ∈ l ↔ r ∈ s.vds ∧ ∀ e ∈ s.vgs, (DFTAG_VH, r) ∉ e.2.mem.members) ∧ l.Sublist s.vds := by
  have e : (step s .vslone).2 = .nats (loneOf (·.mem.members) DFTAG_VH s.vds s.vgs) := rfl
  rw [e] at h
  injection h with h
  subst h
  exact ⟨fun r => loneOf_mem _ _ _ _ r, loneOf_sublist _ _ _ _⟩

/-- **`Vgetid` iteration**: in every reachable state, starting from -1 and feeding each answer back in visits
    exactly the refs of the existing Vgroups, each once, in ascending order, and then fails. -/
theorem vgetid_visits_all_ascending (ops : List Op) (h : admissibleHist {} ops = true) :
    let s := (run {} ops).1
    walk (akeys s.vgs) ((akeys s.vgs).length + 1) (-1) = akeys s.vgs ∧ (akeys s.vgs).Pairwise (· < ·) ∧
    ∀ id, (step s (.getid id)).2 = getidIn (akeys s.vgs) id := by
  have hs := (vg_reachable_inv ops h).2.1
  exact ⟨getid_walk _ hs, hs, fun _ => rfl⟩

example : walk [2, 4, 9] 4 (-1) = [2, 4, 9] := by decide

/-- **name set/get**: a successful `Vsetname` is what `Vgetname`/`Vgetnamelen` then report through the same handle
    (any length; only the bytes before the first NUL count, as for every C string) -/
theorem setname_getname (s : File) (slot : Nat) (n : Bytes) (h : (step s (.setname slot n)).2 = .ok) :
    (step (step s (.setname slot n)).1 (.getname slot)).2 = .bytes (cstr n) ∧
    (step (step s (.setname slot n)).1 (.getnamelen slot)).2 = .int (((cstr n).length % 65536 : Nat) : Int) := by
  obtain ⟨r, g, h1, h2, h3⟩ := setname_ok_inv h
  constructor
  · simp only [step]
    rw [withSlot_then h1 h2]; simp [h3, nameOut]
  · simp only [step]
    rw [withSlot_then h1 h2]; simp [h3, lenOut]

theorem setclass_getclass (s : File) (slot : Nat) (n : Bytes) (h : (step s (.setclass slot n)).2 = .ok) :
    (step (step s (.setclass slot n)).1 (.getclass slot)).2 = .bytes (cstr n) ∧
    (step (step s (.setclass slot n)).1 (.getclasslen slot)).2 = .int (((cstr n).length % 65536 : Nat) : Int) := by
  obtain ⟨r, g, h1, h2, h3⟩ := setclass_ok_inv h
  constructor
  · simp only [step]
    rw [withSlot_then h1 h2]; simp [h3, nameOut]
  · simp only [step]
    rw [withSlot_then h1 h2]; simp [h3, lenOut]

example : (step (step (step {} (.new 0 2)).1 (.setname 0 (List.replicate 70 65))).1 (.getnamelen 0)).2 = .int 70 := by
  decide

/-- **persistence**: after an admissible history that ends with every handle detached, `Vend`/`Vstart` (which reads
    every DFTAG_VG record back through `vunpackvg`) reproduces every Vgroup: same refs, same ordered member lists,
    same classes/names (an empty string reads back as "not set"), same attribute lists. -/
theorem vg_persist (ops : List Op) (h : admissibleHist {} (ops ++ [.reopen]) = true) :
    (run {} (ops ++ [.reopen])).1.abs.vgs = (grun {} ops).1.vgs.map (fun e => (e.1, e.2.reopened)) ∧
    (run {} (ops ++ [.reopen])).2.getLast? = some .ok := by
  have hr := vg_refines_graph_partial (ops ++ [.reopen]) h
  have grun_append : ∀ (g : Graph) (a b : List Op), (grun g (a ++ b)).1 = (grun (grun g a).1 b).1 ∧
      (grun g (a ++ b)).2 = (grun g a).2 ++ (grun (grun g a).1 b).2 := by
    intro g a b
    induction a generalizing g with
    | nil => exact ⟨rfl, rfl⟩
    | cons op rest ih =>
      obtain ⟨i1, i2⟩ := ih (gstep g op).1
      simp only [List.cons_append, grun, i1, i2]
      exact ⟨trivial, trivial⟩
  obtain ⟨g1, g2⟩ := grun_append {} ops [.reopen]
  rw [hr.2, hr.1, g1, g2]
  simp [grun, gstep]

end H4.Props.C08
