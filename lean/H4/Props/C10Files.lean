import H4.Props.C10
import H4.AttrSD
import H4.AttrGR
import H4.AttrVS
/-!
# C10 — part 2: predefined attributes, name/index/reference tables, the persistence codec, and how the SD / GR / VS
machines tied to the C by engine `attr` relate to the attribute-list machine `H4.Attr.put` of part 1.

Where the code as it is does NOT satisfy the property (known findings), the theorem carries the excluded situation as an
explicit hypothesis, is named `…_partial`, and a concrete witness of the failure is proved next to it.
-/
namespace H4.Props.C10
open H4.Attr H4.Gen.Attr

/-! ## persistence codec (the on-disk form of the MODEL; that `cdf.c` writes this form is Tie B only) -/

theorem tables : ntSize DFNT_CHAR = some 1 ∧ unmap DFNT_CHAR = some NC_CHAR := by decide

/-- **decodeAttrs ∘ encodeAttrs = id** on storable attributes (name ≤ VSNAMELENMAX, at least one value, value of
    `count * size` bytes) — for EVERY number type, including the character types other than DFNT_CHAR. -/
theorem decode_encode_attr (a : Attr) (h : Storable a = true) : decodeAttr (encodeAttr a) = a := by
  simp only [Storable, Bool.and_eq_true, decide_eq_true_eq] at h
  obtain ⟨⟨hname, hpos⟩, hval⟩ := h
  have htake : a.name.take VSNAMELENMAX = a.name := List.take_of_length_le hname
  cases hs : ntSize a.nt with
  | none => simp [hs] at hval
  | some sz =>
    simp only [hs, beq_iff_eq] at hval
    by_cases hc : a.nt = DFNT_CHAR
    · have hsz : sz = 1 := by rw [hc, tables.1] at hs; cases hs; rfl
      subst hsz
      have hcond : unmap DFNT_CHAR = some NC_CHAR ∧ (a.count > 1 ∨ 1 ≤ 1) := ⟨tables.2, Or.inr (Nat.le_refl 1)⟩
      simp only [encodeAttr, hc, if_true, decodeAttr, hcond, and_self, tables.1, Option.getD_some, Nat.mul_one, htake]
      have : a.val.take a.count = a.val := List.take_of_length_le (by omega)
      rw [this]
      cases a; simp_all
    · simp only [encodeAttr, hc, if_false, decodeAttr, hs, Option.getD_some, Nat.mul_one, htake]
      by_cases hcond : unmap a.nt = some NC_CHAR ∧ (1 > 1 ∨ a.count ≤ 1)
      · have hc1 : a.count = 1 := by
          rcases hcond.2 with h | h
          · omega
          · omega
        simp only [hcond, and_self, if_true]
        have : a.val.take (1 * sz) = a.val := List.take_of_length_le (by rw [hval, hc1]; exact Nat.le_refl _)
        rw [this]
        cases a; simp_all
      · simp only [hcond, if_false]
        have : a.val.take (a.count * sz) = a.val := List.take_of_length_le (by omega)
        rw [this]

theorem decode_encode_attrs (l : AList) (h : ∀ a ∈ l, Storable a = true) : decodeAttrs (encodeAttrs l) = l := by
  induction l with
  | nil => rfl
  | cons a t ih =>
    simp only [decodeAttrs, encodeAttrs, List.map_cons, List.map_map] at ih ⊢
    rw [decode_encode_attr a (h a (by simp))]
    congr 1
    exact ih (fun b hb => h b (by simp [hb]))

example : Storable ⟨[117, 110, 105, 116, 115], DFNT_CHAR, 3, [109, 47, 115]⟩ = true := by decide
example : Storable ⟨[120], 22, 2, [1, 2, 3, 4]⟩ = true := by decide

/-- the character types other than DFNT_CHAR keep their count (they lost it before the reader was repaired) -/
example : decodeAttrs (encodeAttrs [⟨[97], DFNT_UCHAR, 5, [1, 2, 3, 4, 5]⟩]) = [⟨[97], DFNT_UCHAR, 5, [1, 2, 3, 4, 5]⟩] := by decide
example : decodeAttrs (encodeAttrs [⟨[97], DFNT_CHAR + DFNT_LITEND, 3, [1, 2, 3]⟩]) = [⟨[97], DFNT_CHAR + DFNT_LITEND, 3, [1, 2, 3]⟩] := by decide
/-- a name that does not fit a Vdata name would still be cut by the disk form: `SDsetattr` refuses it (`sd_setattr_is_put`) -/
example : ((decodeAttrs (encodeAttrs [⟨List.replicate 65 120, 24, 1, [0, 0, 0, 1]⟩])).map (·.name.length)) = [64] := by decide

/-! ## name / index / reference tables -/

theorem findIdx?_some_iff {α : Type} (p : α → Bool) (l : List α) (i : Nat) :
    l.findIdx? p = some i ↔ (∃ a, l[i]? = some a ∧ p a = true) ∧ ∀ j, j < i → ∀ b, l[j]? = some b → p b = false := by
  induction l generalizing i with
  | nil => simp
  | cons x t ih =>
    rw [List.findIdx?_cons]
    by_cases hx : p x = true
    · simp only [hx, if_true, Option.some.injEq]
      constructor
      · intro h; subst h; exact ⟨⟨x, by simp, hx⟩, fun j hj => by omega⟩
      · intro ⟨_, h2⟩
        cases i with
        | zero => rfl
        | succ k => have := h2 0 (by omega) x (by simp); simp [hx] at this
    · have hx' : p x = false := by simpa using hx
      simp only [hx', Bool.false_eq_true, if_false, Option.map_eq_some_iff]
      constructor
      · intro ⟨k, hk, hki⟩
        subst hki
        obtain ⟨⟨a, ha, hpa⟩, hfirst⟩ := (ih k).mp hk
        refine ⟨⟨a, by simpa using ha, hpa⟩, ?_⟩
        intro j hj b hb
        cases j with
        | zero => simp at hb; subst hb; exact hx'
        | succ j' => simp at hb; exact hfirst j' (by omega) b hb
      · intro ⟨⟨a, ha, hpa⟩, hfirst⟩
        cases i with
        | zero => simp at ha; subst ha; simp [hx'] at hpa
        | succ k =>
          refine ⟨k, (ih k).mpr ⟨⟨a, by simpa using ha, hpa⟩, ?_⟩, rfl⟩
          intro j hj b hb
          exact hfirst (j + 1) (by omega) b (by simpa using hb)

/-- `SDnametoindex` returns the FIRST dataset with that name -/
theorem nametoindex_first (rows : List ObjRow) (n : Bytes) (i : Nat) :
    nameToIndex rows n = some i ↔
      (∃ r, rows[i]? = some r ∧ r.name = n) ∧ ∀ j, j < i → ∀ r, rows[j]? = some r → r.name ≠ n := by
  unfold nameToIndex
  rw [findIdx?_some_iff]
  simp

/-- `SDnametoindices` lists exactly the datasets with that name, in ascending index order, each once -/
theorem nametoindices_spec (rows : List ObjRow) (n : Bytes) :
    (∀ i, i ∈ nameToIndices rows n ↔ ∃ r, rows[i]? = some r ∧ r.name = n) ∧
    (nameToIndices rows n).Pairwise (· < ·) := by
  constructor
  · intro i
    simp only [nameToIndices, List.mem_filter, List.mem_range, beq_iff_eq]
    constructor
    · intro ⟨hi, hn⟩
      refine ⟨rows[i], by simp [hi], ?_⟩
      simpa [List.getD_eq_getElem?_getD, hi] using hn
    · intro ⟨r, hr, hn⟩
      have hi : i < rows.length := by
        rcases Nat.lt_or_ge i rows.length with h | h
        · exact h
        · simp [List.getElem?_eq_none h] at hr
      exact ⟨hi, by simp [List.getD_eq_getElem?_getD, hr, hn]⟩
  · unfold nameToIndices
    exact List.Pairwise.filter _ (List.pairwise_lt_range)

/-- **nametoindex_idtoref_reftoindex**: on the live dataset list with pairwise distinct reference numbers (what `Hnewref`
    guarantees; checked by the engine) index → ref → index and ref → index → ref are the identity, i.e. `SDidtoref` and
    `SDreftoindex` are mutually inverse bijections between `{0..n-1}` and the set of live refs; with distinct names the
    same holds for `SDnametoindex`. -/
theorem nametoindex_idtoref_reftoindex (rows : List ObjRow) (hnd : (rows.map (·.ref)).Nodup) :
    (∀ i, i < rows.length → (idToRef rows i).bind (refToIndex rows) = some i) ∧
    (∀ r i, refToIndex rows r = some i → idToRef rows i = some r ∧ i < rows.length) ∧
    ((rows.map (·.name)).Nodup → ∀ i r, rows[i]? = some r → nameToIndex rows r.name = some i) := by
  refine ⟨?_, ?_, ?_⟩
  · intro i hi
    simp only [idToRef, List.getElem?_eq_getElem hi, Option.map_some, Option.bind_some, refToIndex]
    rw [findIdx?_some_iff]
    refine ⟨⟨rows[i], by simp [hi], by simp⟩, ?_⟩
    intro j hj b hb
    have hjl : j < rows.length := by omega
    have hbj : rows[j] = b := by simpa [List.getElem?_eq_getElem hjl] using hb
    simp only [beq_eq_false_iff_ne, ne_eq]
    intro e
    have hj' : j < (rows.map (·.ref)).length := by simpa using hjl
    have hi' : i < (rows.map (·.ref)).length := by simpa using hi
    have := (List.getElem_inj (h₀ := hj') (h₁ := hi') hnd).mp (by simp [hbj, e])
    omega
  · intro r i h
    simp only [refToIndex] at h
    rw [findIdx?_some_iff] at h
    obtain ⟨⟨a, ha, hpa⟩, _⟩ := h
    have hi : i < rows.length := by
      rcases Nat.lt_or_ge i rows.length with h' | h'
      · exact h'
      · simp [List.getElem?_eq_none h'] at ha
    simp only [beq_iff_eq] at hpa
    exact ⟨by simp [idToRef, ha, hpa], hi⟩
  · intro hn i r hr
    rw [nametoindex_first]
    refine ⟨⟨r, hr, rfl⟩, ?_⟩
    intro j hj b hb e
    have hi : i < rows.length := by
      rcases Nat.lt_or_ge i rows.length with h' | h'
      · exact h'
      · simp [List.getElem?_eq_none h'] at hr
    have hjl : j < rows.length := by omega
    have hbj : rows[j] = b := by simpa [List.getElem?_eq_getElem hjl] using hb
    have hri : rows[i] = r := by simpa [List.getElem?_eq_getElem hi] using hr
    have hj' : j < (rows.map (·.name)).length := by simpa using hjl
    have hi' : i < (rows.map (·.name)).length := by simpa using hi
    have := (List.getElem_inj (h₀ := hj') (h₁ := hi') hn).mp (by simp [hbj, hri, e])
    omega

example : refToIndex [⟨[118], 2⟩, ⟨[120], 5⟩, ⟨[118], 7⟩] 7 = some 2 ∧ nameToIndex [⟨[118], 2⟩, ⟨[120], 5⟩, ⟨[118], 7⟩] [118] = some 0
    ∧ nameToIndices [⟨[118], 2⟩, ⟨[120], 5⟩, ⟨[118], 7⟩] [118] = [0, 2] := by decide

/-! ## predefined attributes are `put`s of fixed names -/

open H4.AttrSD in
/-- a run of `SDIputattr` calls with pairwise distinct, legal names on a list with enough room: all succeed, each name
    then holds exactly what was put, every other name is untouched -/
theorem sdiPutAll_spec (ps : List Attr) (l : AList)
    (hok : ∀ p ∈ ps, p.name.length ≤ H4_MAX_NC_NAME ∧ (unmap p.nt).isSome = true)
    (hd : (ps.map (·.name)).Nodup) (hroom : l.length + ps.length ≤ H4_MAX_NC_ATTRS) :
    (sdiPutAll l ps).2 = true ∧ (∀ p ∈ ps, getByName (sdiPutAll l ps).1 p.name = some p) ∧
    (∀ n, n ∉ ps.map (·.name) → getByName (sdiPutAll l ps).1 n = getByName l n) := by
  induction ps generalizing l with
  | nil => simp [sdiPutAll]
  | cons a t ih =>
    obtain ⟨hlen, hun⟩ := hok a (by simp)
    have hput : sdiPut l a = put .sd l a := by
      have h1 : ¬ a.name.length > H4_MAX_NC_NAME := by omega
      have h2 : (unmap a.nt).isNone = false := by
        cases h : unmap a.nt <;> simp_all
      simp [sdiPut, h1, h2]
    have hsome : ∃ l', put .sd l a = some l' := by
      cases hf : find a.name l with
      | some i => exact ⟨l.set i a, by rw [put_found hf]; simp [compatible]⟩
      | none =>
        refine ⟨l ++ [a], ?_⟩
        rw [put_new hf]
        have : l.length < H4_MAX_NC_ATTRS := by simp at hroom; omega
        simp [room, this]
    obtain ⟨l', hl'⟩ := hsome
    have hlen' : l'.length ≤ l.length + 1 := by
      cases hf : find a.name l with
      | some i => have := (aput_replace_keeps_index .sd l l' a i hf hl').2.1; omega
      | none => have := (aput_new_index .sd l l' a hf hl').2; omega
    simp only [List.map_cons, List.nodup_cons] at hd
    obtain ⟨hnotin, hdt⟩ := hd
    have ih' := ih l' (fun p hp => hok p (by simp [hp])) hdt (by simp at hroom ⊢; omega)
    have hrun : sdiPutAll l (a :: t) = sdiPutAll l' t := by simp [sdiPutAll, hput, hl']
    rw [hrun]
    obtain ⟨i1, i2, i3⟩ := ih'
    have hframe := aput_frame .sd l a
    have hps : putS .sd l a = l' := by simp [putS, hl']
    rw [hps] at hframe
    refine ⟨i1, ?_, ?_⟩
    · intro p hp
      rcases List.mem_cons.mp hp with h | h
      · subst h
        rw [i3 _ hnotin]
        obtain ⟨_, _, _, _, hg⟩ := aput_get .sd l l' p hl'
        exact hg
      · exact i2 p h
    · intro n hn
      simp only [List.map_cons, List.mem_cons, not_or] at hn
      rw [i3 n hn.2]
      exact (hframe.2 n hn.1).2

theorem predef_names_distinct :
    [nLongName, nUnits, nFormat, nCoordSys].Nodup ∧
    [nScaleFactor, nScaleFactorErr, nAddOffset, nAddOffsetErr, nCalibratedNt].Nodup := by decide

theorem strAttr_spec (nm : Bytes) (s : Option Bytes) :
    strAttr nm s = match s with
      | some (c :: t) => [⟨nm, DFNT_CHAR, (c :: t).length, c :: t⟩]
      | _ => [] := by
  unfold strAttr; rfl

theorem strAttr_names_sub (nm : Bytes) (s : Option Bytes) : ((strAttr nm s).map (·.name)).Sublist [nm] := by
  unfold strAttr
  split <;> simp

open H4.AttrSD in
/-- **predefined_roundtrip** (`SDsetdatastrs` → `SDgetdatastrs`, with the partial-NULL conventions): for any four optional
    strings (of at most H4_MAX_NC_NAME... bytes are not restricted by the setter, only the name is) on a dataset whose
    list has room, the call succeeds; afterwards each of "long_name", "units", "format", "coordsys" holds the string
    given if it was non-NULL and non-empty (type DFNT_CHAR, count = strlen), and is UNCHANGED if the argument was NULL
    or ""; no other attribute changes. -/
theorem predefined_roundtrip (al : AList) (l u f c : Option Bytes) (hroom : al.length + 4 ≤ H4_MAX_NC_ATTRS) :
    let r := sdiPutAll al (datastrsPuts l u f c)
    r.2 = true ∧
    (∀ p ∈ [(nLongName, l), (nUnits, u), (nFormat, f), (nCoordSys, c)],
      getByName r.1 p.1 = match p.2 with
        | some (ch :: t) => some ⟨p.1, DFNT_CHAR, (ch :: t).length, ch :: t⟩
        | _ => getByName al p.1) ∧
    (∀ n, n ∉ [nLongName, nUnits, nFormat, nCoordSys] → getByName r.1 n = getByName al n) := by
  intro r
  have hsub : ((datastrsPuts l u f c).map (·.name)).Sublist [nLongName, nUnits, nFormat, nCoordSys] := by
    simp only [datastrsPuts, List.map_append]
    have := ((strAttr_names_sub nLongName l).append (strAttr_names_sub nUnits u)).append
      ((strAttr_names_sub nFormat f).append (strAttr_names_sub nCoordSys c))
    simpa [List.append_assoc] using this
  have hnd : ((datastrsPuts l u f c).map (·.name)).Nodup := hsub.nodup predef_names_distinct.1
  have hlen4 : (datastrsPuts l u f c).length ≤ 4 := by
    have := hsub.length_le; simpa using this
  have hok : ∀ p ∈ datastrsPuts l u f c, p.name.length ≤ H4_MAX_NC_NAME ∧ (unmap p.nt).isSome = true := by
    intro p hp
    have hname : p.name ∈ [nLongName, nUnits, nFormat, nCoordSys] := hsub.subset (List.mem_map_of_mem hp)
    have hnt : p.nt = DFNT_CHAR := by
      simp only [datastrsPuts, List.mem_append] at hp
      rcases hp with ((h | h) | h) | h <;> (rw [strAttr_spec] at h; split at h <;> simp at h <;> simp [h])
    constructor
    · simp only [List.mem_cons, List.mem_nil_iff, or_false] at hname
      rcases hname with h | h | h | h <;> rw [h] <;> decide
    · rw [hnt]; decide
  obtain ⟨h1, h2, h3⟩ := sdiPutAll_spec (datastrsPuts l u f c) al hok hnd (by omega)
  refine ⟨h1, ?_, ?_⟩
  · intro p hp
    -- membership of the put list, per slot
    have key : ∀ (nm : Bytes) (s : Option Bytes), (nm, s) ∈ [(nLongName, l), (nUnits, u), (nFormat, f), (nCoordSys, c)] →
        (∀ q ∈ strAttr nm s, q ∈ datastrsPuts l u f c) ∧
        (strAttr nm s = [] → nm ∉ (datastrsPuts l u f c).map (·.name)) := by
      intro nm s hm
      simp only [List.mem_cons, Prod.mk.injEq, List.mem_nil_iff, or_false] at hm
      have hd := predef_names_distinct.1
      constructor
      · intro q hq
        simp only [datastrsPuts, List.mem_append]
        rcases hm with ⟨h1, h2⟩ | ⟨h1, h2⟩ | ⟨h1, h2⟩ | ⟨h1, h2⟩ <;> subst h1 <;> subst h2 <;> simp [hq]
      · intro hempty hin
        simp only [datastrsPuts, List.map_append, List.mem_append, List.mem_map] at hin
        have nameOf : ∀ (nm' : Bytes) (s' : Option Bytes) (q : Attr), q ∈ strAttr nm' s' → q.name = nm' := by
          intro nm' s' q hq
          rw [strAttr_spec] at hq; split at hq <;> simp at hq; simp [hq]
        have hne : ∀ (nm' : Bytes) (s' : Option Bytes), nm' ≠ nm → ¬ ∃ q, q ∈ strAttr nm' s' ∧ q.name = nm := by
          intro nm' s' hne ⟨q, hq, hqn⟩
          exact hne ((nameOf nm' s' q hq).symm.trans hqn)
        have hself : ¬ ∃ q, q ∈ strAttr nm s ∧ q.name = nm := by simp [hempty]
        have d12 : nLongName ≠ nUnits := by decide
        have d13 : nLongName ≠ nFormat := by decide
        have d14 : nLongName ≠ nCoordSys := by decide
        have d23 : nUnits ≠ nFormat := by decide
        have d24 : nUnits ≠ nCoordSys := by decide
        have d34 : nFormat ≠ nCoordSys := by decide
        rcases hm with ⟨h1, h2⟩ | ⟨h1, h2⟩ | ⟨h1, h2⟩ | ⟨h1, h2⟩ <;> subst h1 <;> subst h2
        · rcases hin with ((h | h) | h) | h
          · exact hself h
          · exact hne _ _ d12.symm h
          · exact hne _ _ d13.symm h
          · exact hne _ _ d14.symm h
        · rcases hin with ((h | h) | h) | h
          · exact hne _ _ d12 h
          · exact hself h
          · exact hne _ _ d23.symm h
          · exact hne _ _ d24.symm h
        · rcases hin with ((h | h) | h) | h
          · exact hne _ _ d13 h
          · exact hne _ _ d23 h
          · exact hself h
          · exact hne _ _ d34.symm h
        · rcases hin with ((h | h) | h) | h
          · exact hne _ _ d14 h
          · exact hne _ _ d24 h
          · exact hne _ _ d34 h
          · exact hself h
    obtain ⟨nm, s⟩ := p
    obtain ⟨k1, k2⟩ := key nm s hp
    cases s with
    | none => exact h3 nm (k2 (by simp [strAttr]))
    | some b =>
      cases b with
      | nil => exact h3 nm (k2 (by simp [strAttr]))
      | cons ch t =>
        have hq : (⟨nm, DFNT_CHAR, (ch :: t).length, ch :: t⟩ : Attr) ∈ strAttr nm (some (ch :: t)) := by simp [strAttr]
        exact h2 _ (k1 _ hq)
  · intro n hn
    exact h3 n (fun hin => hn (hsub.subset hin))

theorem takeWhile_nonzero (s : Bytes) (h : ∀ b ∈ s, b ≠ 0) : s.takeWhile (· != 0) = s := by
  induction s with
  | nil => rfl
  | cons x t ih =>
    have hx : (x != 0) = true := by simpa using h x (by simp)
    simp [List.takeWhile_cons, hx, ih (fun b hb => h b (by simp [hb]))]

theorem takeWhile_nonzero_append (s rest : Bytes) (h : ∀ b ∈ s, b ≠ 0) : (s ++ 0 :: rest).takeWhile (· != 0) = s := by
  induction s with
  | nil => simp
  | cons x t ih =>
    have hx : (x != 0) = true := by simpa using h x (by simp)
    simp [List.takeWhile_cons, hx, ih (fun b hb => h b (by simp [hb]))]

/-- the reading side: a stored string without NUL comes back as the C string when the buffer is longer than it;
    a missing attribute gives the empty string -/
theorem getstr_roundtrip (al : AList) (nm s old : Bytes) (len : Nat)
    (hget : getByName al nm = some ⟨nm, DFNT_CHAR, s.length, s⟩) (hnul : ∀ b ∈ s, b ≠ 0) (hlen : s.length < len) :
    cstr (getStrImg al nm len old) = s := by
  simp only [getStrImg, hget, hlen, if_true, strncpyImg, List.take_length, takeWhile_nonzero s hnul, Nat.sub_self,
    List.replicate_zero, List.append_nil, overlay, cstr, List.append_assoc]
  exact takeWhile_nonzero_append s _ hnul

theorem getstr_missing (al : AList) (nm old : Bytes) (len : Nat) (hget : getByName al nm = none) :
    cstr (getStrImg al nm len old) = [] := by
  simp [getStrImg, hget, overlay, cstr]

open H4.AttrSD in
/-- `SDsetcal` → `SDgetcal`, `SDsetrange` → `SDgetrange`, `SDsetfillvalue` → `SDgetfillvalue` as `put`s of fixed names -/
theorem predefined_roundtrip_cal (al : AList) (cal cale ioff ioffe nt : Bytes) (hroom : al.length + 5 ≤ H4_MAX_NC_ATTRS) :
    let r := sdiPutAll al (calPuts cal cale ioff ioffe nt)
    r.2 = true ∧
    getByName r.1 nScaleFactor = some ⟨nScaleFactor, DFNT_FLOAT64, 1, cal⟩ ∧
    getByName r.1 nScaleFactorErr = some ⟨nScaleFactorErr, DFNT_FLOAT64, 1, cale⟩ ∧
    getByName r.1 nAddOffset = some ⟨nAddOffset, DFNT_FLOAT64, 1, ioff⟩ ∧
    getByName r.1 nAddOffsetErr = some ⟨nAddOffsetErr, DFNT_FLOAT64, 1, ioffe⟩ ∧
    getByName r.1 nCalibratedNt = some ⟨nCalibratedNt, DFNT_INT32, 1, nt⟩ := by
  intro r
  have hnd : ((calPuts cal cale ioff ioffe nt).map (·.name)).Nodup := by
    simpa [calPuts] using predef_names_distinct.2
  have hok : ∀ p ∈ calPuts cal cale ioff ioffe nt, p.name.length ≤ H4_MAX_NC_NAME ∧ (unmap p.nt).isSome = true := by
    intro p hp
    simp only [calPuts, List.mem_cons, List.mem_nil_iff, or_false] at hp
    rcases hp with h | h | h | h | h <;> subst h <;> refine ⟨?_, ?_⟩ <;> dsimp only <;> decide
  obtain ⟨h1, h2, _⟩ := sdiPutAll_spec (calPuts cal cale ioff ioffe nt) al hok hnd (by simpa [calPuts] using hroom)
  exact ⟨h1, h2 ⟨nScaleFactor, DFNT_FLOAT64, 1, cal⟩ (by simp [calPuts]), h2 ⟨nScaleFactorErr, DFNT_FLOAT64, 1, cale⟩ (by simp [calPuts]),
    h2 ⟨nAddOffset, DFNT_FLOAT64, 1, ioff⟩ (by simp [calPuts]), h2 ⟨nAddOffsetErr, DFNT_FLOAT64, 1, ioffe⟩ (by simp [calPuts]),
    h2 ⟨nCalibratedNt, DFNT_INT32, 1, nt⟩ (by simp [calPuts])⟩

theorem predefined_roundtrip_range_fill (al : AList) (vnt : Nat) (pmax pmin fv : Bytes)
    (hroom : al.length < H4_MAX_NC_ATTRS) :
    (∃ l', put .sd al (rangePut vnt pmax pmin) = some l' ∧
        getByName l' nValidRange = some ⟨nValidRange, vnt, 2, pmin ++ pmax⟩) ∧
    (∃ l', put .sd al (fillPut vnt fv) = some l' ∧ getByName l' nFillValue = some ⟨nFillValue, vnt, 1, fv⟩) := by
  have gen : ∀ a : Attr, ∃ l', put .sd al a = some l' ∧ getByName l' a.name = some a := by
    intro a
    have hsome : ∃ l', put .sd al a = some l' := by
      cases hf : find a.name al with
      | some i => exact ⟨al.set i a, by rw [put_found hf]; simp [compatible]⟩
      | none => exact ⟨al ++ [a], by rw [put_new hf]; simp [room, hroom]⟩
    obtain ⟨l', hl'⟩ := hsome
    obtain ⟨_, _, _, _, hg⟩ := aput_get .sd al l' a hl'
    exact ⟨l', hl', hg⟩
  exact ⟨gen (rangePut vnt pmax pmin), gen (fillPut vnt fv)⟩

example : (AttrSD.sdiPutAll [] (datastrsPuts (some [84]) none (some []) (some [75]))).1
    = [⟨nLongName, DFNT_CHAR, 1, [84]⟩, ⟨nCoordSys, DFNT_CHAR, 1, [75]⟩] := by decide

/-! ## the interface machines are the attribute-list machine -/

open H4.AttrSD in
/-- `SDsetattr` on the file object: argument checks, then exactly `put .sd` on the global list (`NC_HDIRTY` on success) -/
theorem sd_setattr_is_put (f : File) (name : Bytes) (nt : Nat) (count : Int) (val : Bytes)
    (hopen : f.isOpen = true) (hrw : f.rdwr = true) (hnat : nt / DFNT_NATIVE % 2 = 0) (hargs : argsOk nt count = true)
    (hname : name.length ≤ VSNAMELENMAX) :
    sdSetAttr f .file name nt count val =
      match put .sd f.gattrs ⟨name, nt, count.toNat, val⟩ with
      | some l' => ({ f with gattrs := l', dirty := true }, .ok)
      | none => (f, .fail) := by
  have hun : (unmap nt).isNone = false := by
    -- a type with a size below 64 that `DFKNTsize` knows is one `hdf_unmap_type` knows (generated tables)
    simp only [argsOk] at hargs
    cases hs : ntSize nt with
    | none => simp [hs] at hargs
    | some sz =>
      have hlit : nt / DFNT_LITEND % 2 = 1 ∨ nt / DFNT_LITEND % 2 = 0 := by omega
      simp only [ntSize] at hs
      have h4096 : DFNT_NATIVE = 4096 := rfl
      have h16384 : DFNT_LITEND = 16384 := rfl
      rw [h4096] at hnat
      rw [h16384] at hs
      split at hs
      · -- little-endian flag set
        rename_i hl
        simp only [beq_iff_eq] at hl
        split at hs
        · rename_i hx
          have hmod : nt % 256 = nt - 16384 := by omega
          have hlt : nt - 16384 < 64 := hx
          simp only [unmap, hmod, hlt, if_true]
          generalize nt - 16384 = x at hlt hs
          have : ∀ x, x < 64 → (tab NT_SIZE x).isSome = true → (tab UNMAP x).isNone = false := by decide
          exact this x hlt (by simp [hs])
        · split at hs
          · rename_i hx hy; simp only [Bool.and_eq_true, decide_eq_true_eq] at hy; omega
          · cases hs
      · rename_i hl
        split at hs
        · rename_i hx
          have hmod : nt % 256 = nt := by omega
          simp only [unmap, hmod, hx, if_true]
          have : ∀ x, x < 64 → (tab NT_SIZE x).isSome = true → (tab UNMAP x).isNone = false := by decide
          exact this nt hx (by simp [hs])
        · split at hs
          · rename_i hx hy
            simp only [Bool.and_eq_true, decide_eq_true_eq] at hy
            simp only [beq_iff_eq] at hl
            omega
          · cases hs
  have hle : VSNAMELENMAX ≤ H4_MAX_NC_NAME := by decide
  have h1 : ¬ name.length > H4_MAX_NC_NAME := by omega
  have h2 : ¬ name.length > VSNAMELENMAX := by omega
  have h0 : (nt / DFNT_NATIVE % 2 == 1) = false := by simp [hnat]
  simp only [sdSetAttr, hopen, hrw, Bool.not_true, Bool.false_eq_true, if_false, h0, hargs, apFromId, attrsAt, sdiPut,
    h1, h2, hun, setAttrsAt]
  cases put .sd f.gattrs ⟨name, nt, count.toNat, val⟩ <;> rfl

open H4.AttrSD in
/-- what `SDsetattr` refuses outright, leaving the state as it was: a file opened read-only (SDend would drop the change
    silently) and a name that a Vdata name cannot hold (it would come back truncated) -/
theorem sd_setattr_refuses (f : File) (name : Bytes) (nt : Nat) (count : Int) (val : Bytes)
    (h : f.rdwr = false ∨ VSNAMELENMAX < name.length) :
    sdSetAttr f .file name nt count val = (f, .fail) := by
  simp only [sdSetAttr, apFromId]
  split
  · rfl
  · split
    · rfl
    · split
      · rfl
      · rcases h with h | h
        · by_cases hn : name.length > VSNAMELENMAX <;> simp [hn, h]
        · simp [h]

open H4.AttrGR in
theorem views_set (l : List GAttr) (i : Nat) (g : GAttr) : views (l.set i g) = (views l).set i g.view := by
  simp [views, List.map_set]

open H4.AttrGR in
/-- **GR is the list machine**: for legal arguments (known type, count within the Vdata limits, a name that fits a field
    name, value of `count * size` bytes) `GRsetattr` on a writable file succeeds exactly when `put .gr` does, and what the
    API then shows is the result of `put .gr` — whether the value is cached or written straight to its Vdata, and
    whether or not the attribute had been written before. -/
theorem gr_put_refines (l : List GAttr) (name : Bytes) (nt : Nat) (count : Int) (val : Bytes)
    (hargs : argsOk nt count = true) (hname : name.length ≤ FIELDNAMELENMAX)
    (hval : val.length = count.toNat * (ntSize nt).getD 0) :
    (grPut l name nt count val).map views = put .gr (views l) ⟨name, nt, count.toNat, val⟩ := by
  have hn : ¬ name.length > FIELDNAMELENMAX := by omega
  simp only [grPut, hargs, Bool.not_true, Bool.false_eq_true, if_false, hn]
  cases hf : find name (views l) with
  | some i =>
    simp only
    have hi := find_lt hf
    have hil : i < l.length := by simpa [views] using hi
    have hgd : (views l).getD i default = (l.getD i default).view := by
      simp [views, List.getD_eq_getElem?_getD, hil]
    obtain ⟨b, hb, hbn⟩ := find_name hf
    have hname' : (l.getD i default).name = name := by
      have : (views l)[i]? = some (l.getD i default).view := by
        simp [views, List.getD_eq_getElem?_getD, hil]
      rw [this] at hb; cases hb; simpa [GAttr.view] using hbn
    rw [put_found (by simpa using hf), hgd]
    generalize l.getD i default = g at hname' ⊢
    by_cases hnt : nt = g.nt
    · have h1 : (nt != g.nt) = false := by simp [hnt]
      have hc : compatible .gr g.view ⟨name, nt, count.toNat, val⟩ = true := by
        simp [compatible, GAttr.view, hnt]
      simp only [h1, Bool.false_eq_true, if_false, hc, if_true]
      split
      · simp only [Option.map_some, views_set, Option.some.injEq]
        congr 1
        simp only [GAttr.view, hname', ← hnt, Option.getD_some]
        congr 1
        have ht : List.take (count.toNat * (ntSize nt).getD 0) val = val := by rw [← hval]; simp
        cases g.disk with
        | none => simpa [overwrite] using ht
        | some d => simp [overwrite, ← hval]
      · simp only [Option.map_some, views_set, Option.some.injEq]
        congr 1
        simp [GAttr.view, hname', ← hnt]
    · have h1 : (nt != g.nt) = true := by simp [hnt]
      have hc : compatible .gr g.view ⟨name, nt, count.toNat, val⟩ = false := by
        simp only [compatible, GAttr.view, beq_eq_false_iff_ne, ne_eq]
        exact fun e => hnt e.symm
      simp [h1, hc]
  | none =>
    simp only
    rw [put_new (by simpa using hf)]
    simp only [room, if_true]
    split
    · simp [views, GAttr.view]
    · simp only [Option.map_some, views, List.map_append, List.map_cons, List.map_nil, GAttr.view, Option.getD_some,
        Option.some.injEq]
      congr 2
      simp only [Attr.mk.injEq, true_and]
      rw [← hval]; simp

open H4.AttrGR in
/-- an attribute set earlier in the session and only cached so far can now be re-set above the caching threshold
    (it FAILed before the repair) -/
example : (grPut [⟨[97], 20, 10, some (List.replicate 10 0), none, true, true⟩] [97] 20 3000 (List.replicate 3000 0)).isSome = true := by
  decide

open H4.AttrGR in
/-- `GRsetattr` refuses a file opened read-only and a name that a Vdata field name cannot hold -/
theorem gr_setattr_refuses (f : File) (o : Option Nat) (name : Bytes) (nt : Nat) (count : Int) (val : Bytes)
    (h : f.writable = false ∨ FIELDNAMELENMAX < name.length) :
    grSetAttr f o name nt count val = (f, .fail) := by
  simp only [grSetAttr]
  split
  · rfl
  · split
    · rfl
    · rcases h with h | h
      · simp [h]
      · have : grPut ‹_› name nt count val = none := by
          simp only [grPut]; split
          · rfl
          · simp [h]
        split
        · rfl
        · simp [this]

/-! ### Vdata / field attributes: one tagged list, independent per-field views -/

open H4.AttrVS in
theorem view_append (al : List (Int × Attr)) (fx g : Int) (a : Attr) :
    view (al ++ [(fx, a)]) g = if g = fx then view al g ++ [a] else view al g := by
  simp only [view, List.filter_append, List.map_append]
  by_cases h : g = fx
  · subst h; simp
  · have : ¬ fx = g := fun e => h e.symm
    simp [h, this]

open H4.AttrVS in
theorem posOf_go_spec (fx : Int) (l : List (Int × Attr)) (k pos : Nat) (p : Nat)
    (h : posOf.go fx l k pos = some p) :
    ∃ q, p = pos + q ∧ q < l.length ∧ (∃ e, l[q]? = some e ∧ e.1 = fx) ∧
      ∀ (x : Attr) (g : Int),
        view (l.set q (fx, x)) g = if g = fx then (view l g).set k x else view l g := by
  induction l generalizing k pos with
  | nil => simp [posOf.go] at h
  | cons e t ih =>
    simp only [posOf.go] at h
    by_cases he : (e.1 == fx) = true
    · simp only [he, if_true] at h
      have hefx : e.1 = fx := by simpa using he
      by_cases hk : (k == 0) = true
      · simp only [hk, if_true, Option.some.injEq] at h
        have hk0 : k = 0 := by simpa using hk
        subst hk0
        refine ⟨0, by omega, by simp, ⟨e, by simp, hefx⟩, ?_⟩
        intro x g
        simp only [List.set_cons_zero, view, List.filter_cons]
        by_cases hg : g = fx
        · subst hg; simp [hefx]
        · have h1 : ¬ fx = g := fun e' => hg e'.symm
          have h2 : ¬ e.1 = g := by rw [hefx]; exact h1
          simp [hg, h1, h2]
      · simp only [hk, Bool.false_eq_true, if_false] at h
        obtain ⟨q, hp, hq, hex, hv⟩ := ih (k - 1) (pos + 1) h
        refine ⟨q + 1, by omega, by simp; omega, by simpa using hex, ?_⟩
        intro x g
        have := hv x g
        simp only [List.set_cons_succ, view, List.filter_cons] at this ⊢
        have hkpos : k ≠ 0 := by simpa using hk
        by_cases hg : g = fx
        · subst hg
          simp only [hefx, beq_self_eq_true, if_true, List.map_cons] at this ⊢
          rw [this]
          cases k with
          | zero => exact absurd rfl hkpos
          | succ k' => simp
        · have h2 : ¬ e.1 = g := by rw [hefx]; exact fun e' => hg e'.symm
          simp only [hg, if_false] at this ⊢
          by_cases h3 : (e.1 == g) = true
          · exact absurd (by simpa using h3) h2
          · simp only [h3, Bool.false_eq_true, if_false]; exact this
    · simp only [he, Bool.false_eq_true, if_false] at h
      obtain ⟨q, hp, hq, hex, hv⟩ := ih k (pos + 1) h
      refine ⟨q + 1, by omega, by simp; omega, by simpa using hex, ?_⟩
      intro x g
      have := hv x g
      simp only [List.set_cons_succ, view, List.filter_cons] at this ⊢
      by_cases h3 : (e.1 == g) = true
      · have heg : e.1 = g := by simpa using h3
        have hgfx : ¬ g = fx := by
          intro e'; rw [← heg] at e'; exact he (by simpa using e')
        simp only [h3, if_true, List.map_cons, hgfx, if_false] at this ⊢
        rw [this]
      · simp only [h3, Bool.false_eq_true, if_false]; exact this

open H4.AttrVS in
/-- **VS refines the list machine, field by field** (no restriction on the name any more): a successful `VSsetattr` on
    field `fx` is `put .vs`, on the attributes of that field, of the attribute as it is stored (name cut to
    VSNAMELENMAX — lookups compare names the same way, so a long name is found again and never duplicated), and the
    attributes of every other field (and of the Vdata itself) are untouched: the per-field namespaces are independent
    although the C keeps one list. -/
theorem vs_put_refines (al al' : List (Int × Attr)) (fx : Int) (a : Attr) (count : Int)
    (h : vsPut al fx a count = some al') :
    put .vs (view al fx) (stored a) = some (view al' fx) ∧ ∀ g, g ≠ fx → view al' g = view al g := by
  unfold vsPut at h
  cases hf : find (stored a).name (view al fx) with
  | some k =>
    rw [hf] at h
    simp only at h
    obtain ⟨b, hb, hbn⟩ := find_name hf
    have hgd : (view al fx).getD k default = b := by simp [List.getD_eq_getElem?_getD, hb]
    rw [hgd] at h
    split at h
    · rename_i hc
      cases hp : posOf al fx k with
      | none => simp [hp] at h
      | some p =>
        simp only [hp, Option.map_some, Option.some.injEq] at h
        subst h
        obtain ⟨q, hpq, _, _, hv⟩ := posOf_go_spec fx al k 0 p hp
        have hpq' : p = q := by omega
        subst hpq'
        have hax : ({ a with name := b.name } : Attr) = stored a := by
          simp only [stored] at hbn ⊢
          rw [hbn]
        rw [hax]
        have hc' : compatible .vs b (stored a) = true := by simpa [compatible, stored] using hc
        constructor
        · rw [put_found hf, hgd, hc']
          simp only [if_true, Option.some.injEq]
          have := hv (stored a) fx
          simpa using this.symm
        · intro g hg
          have := hv (stored a) g
          simpa [hg] using this
    · cases h
  | none =>
    rw [hf] at h
    simp only at h
    split at h
    · cases h
      constructor
      · rw [put_new hf]; simp [room, view_append]
      · intro g hg; simp [view_append, hg]
    · cases h

open H4.AttrVS in
/-- a name of 65 characters is stored with 64, found again under the long name, and a second set REPLACES the value
    (before the repair it was never found again and every set added a duplicate) -/
example : (vgPut [] ⟨List.replicate 65 107, 20, 1, [1]⟩ 1).bind (fun l => (vgPut l ⟨List.replicate 65 107, 20, 1, [2]⟩ 1).map (·.map (fun x => (x.name.length, x.val))))
    = some [(64, [2])] := by decide

/-! ## what survives close and reopen -/

theorem mapM_option_spec {α β : Type} (f : α → Option β) (l : List α) (l' : List β) (h : l.mapM f = some l') :
    l'.length = l.length ∧ ∀ (i : Nat) (x : α), l[i]? = some x → ∃ y : β, l'[i]? = some y ∧ f x = some y := by
  induction l generalizing l' with
  | nil => simp at h; subst h; simp
  | cons a t ih =>
    simp only [List.mapM_cons, Option.bind_eq_bind, Option.pure_def] at h
    cases hfa : f a with
    | none => simp [hfa] at h
    | some y =>
      simp only [hfa, Option.bind_some] at h
      cases ht : t.mapM f with
      | none => simp [ht] at h
      | some t' =>
        simp only [ht, Option.bind_some, Option.some.injEq] at h
        subst h
        obtain ⟨h1, h2⟩ := ih t' ht
        refine ⟨by simp [h1], ?_⟩
        intro i x hx
        cases i with
        | zero => simp at hx; subst hx; exact ⟨y, by simp, hfa⟩
        | succ j => simp at hx; obtain ⟨y', hy', hfy⟩ := h2 j x hx; exact ⟨y', by simpa using hy', hfy⟩

open H4.AttrSD in
/-- **sd_attrs_survive_reopen**: whatever the history that led to the in-memory state `f`, if `SDend` can write it
    (`save f = some d`), then after `SDstart` the file has the same number of variables in the same order, each with the
    same number type, kind, reference number and scale data; every dataset keeps its name (a coordinate variable follows
    the name of its dimension); and every attribute list whose entries are `Storable` — name ≤ VSNAMELENMAX, value of
    `count * size` bytes, which is all `SDsetattr` and the predefined setters ever store — comes back exactly
    (names, types, counts, values, indices), for every number type; likewise the file attributes. -/
theorem sd_attrs_survive_reopen (f : File) (d : Disk) (h : save f = some d) :
    (openF { f with disk := d } true).vars.length = f.vars.length ∧
    (∀ (i : Nat) (v : Var), f.vars[i]? = some v → ∃ v' : Var, (openF { f with disk := d } true).vars[i]? = some v' ∧
        (v.vtype ≠ IS_CRDVAR → v'.name = v.name) ∧ v'.hdftype = v.hdftype ∧ v'.vtype = v.vtype ∧ v'.ref = v.ref ∧
        v'.hasData = v.hasData ∧ v'.scale = v.scale ∧ ((∀ a ∈ v.attrs, Storable a = true) → v'.attrs = v.attrs)) ∧
    ((∀ a ∈ f.gattrs, Storable a = true) → (openF { f with disk := d } true).gattrs = f.gattrs) := by
  simp only [save, Option.bind_eq_bind] at h
  obtain ⟨vs, hm, hd⟩ := Option.bind_eq_some_iff.mp h
  simp only [Option.some.injEq] at hd
  subst hd
  obtain ⟨hlen, hpt⟩ := mapM_option_spec _ _ _ hm
  refine ⟨by simp [openF, hlen, renameCoordVars], ?_, ?_⟩
  · intro i v hv
    -- the variable as `hdf_write_dim` may have renamed it
    obtain ⟨w, hw, hwv⟩ : ∃ w : Var, (renameCoordVars f.slots (f.slots.map fun o => f.objs.getD o default)
        (saveDims (f.slots.map fun o => f.objs.getD o default)).2 f.vars)[i]? = some w ∧
        (v.vtype ≠ IS_CRDVAR → w.name = v.name) ∧ w.hdftype = v.hdftype ∧ w.vtype = v.vtype ∧ w.ref = v.ref ∧
        w.hasData = v.hasData ∧ w.scale = v.scale ∧ w.attrs = v.attrs ∧ w.dims = v.dims := by
      simp only [renameCoordVars, List.getElem?_map, hv, Option.map_some]
      refine ⟨_, rfl, ?_⟩
      split
      · split
        · rename_i hc
          simp only [Bool.and_eq_true, beq_iff_eq] at hc
          refine ⟨fun hne => absurd hc.1.1.1 hne, rfl, rfl, rfl, rfl, rfl, rfl, rfl⟩
        · exact ⟨fun _ => rfl, rfl, rfl, rfl, rfl, rfl, rfl, rfl⟩
      · exact ⟨fun _ => rfl, rfl, rfl, rfl, rfl, rfl, rfl, rfl⟩
    obtain ⟨v', hv', hsv⟩ := hpt i w hw
    refine ⟨v', by simpa [openF] using hv', ?_⟩
    simp only [saveVar, Option.bind_eq_bind] at hsv
    obtain ⟨ds, _, hds⟩ := Option.bind_eq_some_iff.mp hsv
    simp only [Option.some.injEq] at hds
    subst hds
    obtain ⟨h1, h2, h3, h4, h5, h6, h7, _⟩ := hwv
    refine ⟨h1, h2, h3, h4, h5, h6, ?_⟩
    intro hst
    simp only [h7]
    exact decode_encode_attrs v.attrs hst
  · intro hst
    simp only [openF]
    exact decode_encode_attrs f.gattrs hst

def fdName (n : Nat) : Bytes := nFakeDim ++ AttrSD.dec n

/-- two rank-2 datasets whose first dimensions are shared under the name "x", and a coordinate variable with one
    attribute on the unnamed second dimension of the second dataset ("fakeDim3") -/
def orphanWitness : AttrSD.File :=
  { isOpen := true, rdwr := true, dirty := true, slots := [0, 1, 0, 3]
    objs := [⟨[120], 2⟩, ⟨fdName 1, 3⟩, ⟨fdName 2, 2⟩, ⟨fdName 3, 3⟩]
    vars := [⟨[118, 48], 20, [0, 1], [], IS_SDSVAR, 2, false, []⟩, ⟨[118, 49], 20, [2, 3], [], IS_SDSVAR, 3, false, []⟩,
             ⟨fdName 3, 5, [3], [⟨nLongName, DFNT_CHAR, 1, [108]⟩], IS_CRDVAR, 4, false, []⟩] }

/-- after save/load that dimension is called "fakeDim2" — and so is its coordinate variable, which keeps its attribute
    (before the repair the variable stayed "fakeDim3" and the dimension lost its metadata) -/
example : (AttrSD.save orphanWitness).map (fun d => (d.dims.map (·.name), d.vars.map (·.dims), d.vars.map (·.name), d.vars.map (·.attrs.length)))
    = some ([[120], fdName 1, fdName 2], [[0, 1], [0, 2], [2]], [[118, 48], [118, 49], fdName 2], [0, 0, 1]) := by
  decide

/-- a user's dimension name that merely starts with "fakeDim" is no longer renumbered -/
example : (AttrSD.saveDims [⟨nFakeDim ++ [101, 110], 2⟩, ⟨fdName 7, 3⟩]).1.map (·.name) = [nFakeDim ++ [101, 110], fdName 1] := by
  decide

open H4.AttrGR in
/-- **gr_attr_survives_reopen_partial**: an attribute as the API shows it before `GRend` is what `GRstart` shows after reopen,
    provided its name fits a field name (FIELDNAMELENMAX), its value has `len * size` bytes (size > 0), and its Vdata on
    disk is not LONGER than the new value, i.e. it was not re-set with fewer values after it had been written (known
    finding `gr-attr-shrink-not-persisted`).  The two states a GR attribute can be in during a session:
    cached and modified (`data = some`, written by GRend) or only on disk (`data = none`). -/
theorem gr_attr_survives_reopen_partial (g : GAttr) (sz : Nat)
    (hname : g.name.length ≤ FIELDNAMELENMAX) (hsz : ntSize g.nt = some sz) (hpos : 0 < sz)
    (hstate : (g.dataMod = true ∧ ∃ dat, g.data = some dat ∧ dat.length = g.len * sz ∧ ∀ d, g.disk = some d → d.length ≤ dat.length) ∨
              (g.dataMod = false ∧ g.data = none ∧ ∃ d, g.disk = some d ∧ d.length = g.len * sz)) :
    (loadAttr ((flush [g]).getD 0 default)).view = g.view := by
  simp only [flush, List.map_cons, List.map_nil, List.getD_cons_zero]
  have htake : g.name.take FIELDNAMELENMAX = g.name := List.take_of_length_le hname
  rcases hstate with ⟨hm, dat, hdat, hlen, hns⟩ | ⟨hm, hnone, d, hd, hlen⟩
  · have hov : overwrite dat g.disk = dat := by
      cases hd : g.disk with
      | none => rfl
      | some d => simp [overwrite, List.drop_eq_nil_of_le (hns d hd)]
    have hdiv : dat.length / sz = g.len := by rw [hlen]; exact Nat.mul_div_cancel _ hpos
    simp only [hm, if_true, hdat, Option.getD_some, hov, loadAttr, hsz, GAttr.view, htake, hdiv]
    congr 1
    rw [← hlen]; simp
  · have hdiv : d.length / sz = g.len := by rw [hlen]; exact Nat.mul_div_cancel _ hpos
    simp only [hm, Bool.false_eq_true, if_false, loadAttr, hd, Option.getD_some, hsz, GAttr.view, htake, hnone, hdiv]

open H4.AttrGR in
/-- witness of the excluded case: an int32 attribute of 4 values on disk, re-set to 2 values, comes back with 4 -/
example :
    let g : GAttr := ⟨[97], 24, 2, some [9, 0, 0, 0, 8, 0, 0, 0], some [1, 0, 0, 0, 2, 0, 0, 0, 3, 0, 0, 0, 4, 0, 0, 0], true, false⟩
    (loadAttr ((flush [g]).getD 0 default)).view = ⟨[97], 24, 4, [9, 0, 0, 0, 8, 0, 0, 0, 3, 0, 0, 0, 4, 0, 0, 0]⟩ := by
  decide

/-! ## every successful setter marks the header modified, and a modified header is what `SDend` writes -/
section dirty
open H4.AttrSD

/-- the calls of the SD interface that change attributes or descriptive metadata -/
inductive SdSetter
  | create (name : Bytes) (nt : Nat) (sizes : List Nat)
  | attr (o : Obj) (name : Bytes) (nt : Nat) (count : Int) (val : Bytes)
  | dataStrs (i : Nat) (l u fm c : Option Bytes)
  | cal (i : Nat) (cal cale ioff ioffe nt : Bytes)
  | range (i : Nat) (pmax pmin : Bytes)
  | fill (i : Nat) (val : Bytes)
  | dimName (slot : Nat) (name : Bytes)
  | dimStrs (slot : Nat) (l u fm : Option Bytes)
  | dimScale (slot count nt : Nat) (buf : Bytes)

def SdSetter.run (f : AttrSD.File) : SdSetter → AttrSD.File × AttrSD.Out
  | .create n nt sz => sdCreate f n nt sz
  | .attr o n nt c v => sdSetAttr f o n nt c v
  | .dataStrs i l u fm c => sdSetDataStrs f i l u fm c
  | .cal i a b c d e => sdSetCal f i a b c d e
  | .range i mx mn => sdSetRange f i mx mn
  | .fill i v => sdSetFill f i v
  | .dimName s n => sdSetDimName f s n
  | .dimStrs s l u fm => sdSetDimStrs f s l u fm
  | .dimScale s c nt b => sdSetDimScale f s c nt b

/-- `SDsetdatastrs(id, NULL, NULL, NULL, NULL)` asks for nothing -/
def SdSetter.asksNothing : SdSetter → Bool
  | .dataStrs _ none none none none => true
  | _ => false

@[simp] theorem updVar_flags (f : AttrSD.File) (i : Nat) (g : Var → Var) :
    (updVar f i g).dirty = f.dirty ∧ (updVar f i g).rdwr = f.rdwr ∧ (updVar f i g).isOpen = f.isOpen := by
  unfold updVar; split <;> simp

theorem getCoordVar_flags (f : AttrSD.File) (d : Dim) (slot nt : Nat) :
    (getCoordVar f d slot nt).1.dirty = f.dirty ∧ (getCoordVar f d slot nt).1.rdwr = f.rdwr ∧
    (getCoordVar f d slot nt).1.isOpen = f.isOpen := by
  unfold getCoordVar
  split
  · dsimp only
    split
    · split
      · split
        · split <;> simp [updVar_flags]
        · simp [updVar_flags]
      · simp
    · simp
  · dsimp only
    split <;> simp

theorem apFromId_flags (f : AttrSD.File) (o : Obj) :
    (apFromId f o).1.dirty = f.dirty ∧ (apFromId f o).1.rdwr = f.rdwr ∧ (apFromId f o).1.isOpen = f.isOpen := by
  cases o with
  | file => simp [apFromId]
  | var i => simp only [apFromId]; split <;> simp
  | dim s =>
    simp only [apFromId]
    split
    · simp
    · rename_i d _
      have h := getCoordVar_flags f d s 0
      split <;> simp_all


/-- what a session must be in for `SDend` to write it -/
def Written (f : AttrSD.File) : Prop := f.isOpen = true ∧ f.rdwr = true ∧ f.dirty = true

theorem withVar_ok (f : AttrSD.File) (i : Nat) (k : Var → AttrSD.File × AttrSD.Out) (h : (withVar f i k).2 ≠ .fail) :
    f.isOpen = true ∧ ∃ v, f.vars[i]? = some v ∧ withVar f i k = k v := by
  unfold withVar at h ⊢
  split at h
  · simp at h
  · rename_i ho
    split at h
    · simp at h
    · rename_i v hv
      simp only [Bool.not_eq_eq_eq_not, Bool.not_true] at ho
      simp [hv, ho]

theorem addFakeDims_flags (sz : List Nat) (f : AttrSD.File) :
    (addFakeDims f sz).1.dirty = f.dirty ∧ (addFakeDims f sz).1.rdwr = f.rdwr ∧ (addFakeDims f sz).1.isOpen = f.isOpen := by
  induction sz generalizing f with
  | nil => simp [addFakeDims]
  | cons a t ih =>
    simp only [addFakeDims]
    have := ih { f with slots := f.slots ++ [f.objs.length], objs := f.objs ++ [{ name := nFakeDim ++ dec f.slots.length, size := a }] }
    simpa using this

theorem create_marks (f : AttrSD.File) (n : Bytes) (nt : Nat) (sz : List Nat) (h : (sdCreate f n nt sz).2 ≠ .fail) :
    Written (sdCreate f n nt sz).1 := by
  generalize hr : sdCreate f n nt sz = r at h ⊢
  unfold sdCreate at hr
  have hfl := addFakeDims_flags sz f
  repeat' split at hr
  all_goals (subst hr; simp_all [Written])
  all_goals (split at h <;> rename_i hc)
  all_goals (first | (simp at h; done) | (simp only [if_neg hc]; simp_all))

theorem setAttrsAt_flags (f : AttrSD.File) (loc : Loc) (l : AList) :
    (setAttrsAt f loc l).dirty = f.dirty ∧ (setAttrsAt f loc l).rdwr = f.rdwr ∧ (setAttrsAt f loc l).isOpen = f.isOpen := by
  cases loc <;> simp [setAttrsAt, updVar_flags]

theorem setattr_marks (f : AttrSD.File) (o : Obj) (n : Bytes) (nt : Nat) (c : Int) (v : Bytes)
    (h : (sdSetAttr f o n nt c v).2 ≠ .fail) : Written (sdSetAttr f o n nt c v).1 := by
  generalize hr : sdSetAttr f o n nt c v = r at h ⊢
  unfold sdSetAttr at hr
  have hfl := apFromId_flags f o
  repeat' split at hr
  all_goals (subst hr; simp_all [Written, setAttrsAt_flags])

theorem datastrs_marks (f : AttrSD.File) (i : Nat) (l u fm c : Option Bytes)
    (hn : (l.isSome || u.isSome || fm.isSome || c.isSome) = true)
    (h : (sdSetDataStrs f i l u fm c).2 ≠ .fail) : Written (sdSetDataStrs f i l u fm c).1 := by
  unfold sdSetDataStrs at h ⊢
  obtain ⟨ho, v, _, hk⟩ := withVar_ok _ _ _ h
  rw [hk] at h ⊢
  generalize hr : (if !f.rdwr then (f, AttrSD.Out.fail) else _ : AttrSD.File × AttrSD.Out) = r at h ⊢
  repeat' split at hr
  all_goals (subst hr; simp_all [Written])

theorem cal_marks (f : AttrSD.File) (i : Nat) (a b c d e : Bytes)
    (h : (sdSetCal f i a b c d e).2 ≠ .fail) : Written (sdSetCal f i a b c d e).1 := by
  unfold sdSetCal at h ⊢
  obtain ⟨ho, v, _, hk⟩ := withVar_ok _ _ _ h
  rw [hk] at h ⊢
  generalize hr : (if !f.rdwr then (f, AttrSD.Out.fail) else _ : AttrSD.File × AttrSD.Out) = r at h ⊢
  repeat' split at hr
  all_goals (subst hr; simp_all [Written])

theorem range_marks (f : AttrSD.File) (i : Nat) (mx mn : Bytes)
    (h : (sdSetRange f i mx mn).2 ≠ .fail) : Written (sdSetRange f i mx mn).1 := by
  unfold sdSetRange at h ⊢
  obtain ⟨ho, v, _, hk⟩ := withVar_ok _ _ _ h
  rw [hk] at h ⊢
  generalize hr : (if !f.rdwr then (f, AttrSD.Out.fail) else _ : AttrSD.File × AttrSD.Out) = r at h ⊢
  repeat' split at hr
  all_goals (subst hr; simp_all [Written])

theorem fill_marks (f : AttrSD.File) (i : Nat) (fv : Bytes)
    (h : (sdSetFill f i fv).2 ≠ .fail) : Written (sdSetFill f i fv).1 := by
  unfold sdSetFill at h ⊢
  obtain ⟨ho, v, _, hk⟩ := withVar_ok _ _ _ h
  rw [hk] at h ⊢
  generalize hr : (if !f.rdwr then (f, AttrSD.Out.fail) else _ : AttrSD.File × AttrSD.Out) = r at h ⊢
  repeat' split at hr
  all_goals (subst hr; simp_all [Written])

theorem dimname_marks (f : AttrSD.File) (s : Nat) (n : Bytes)
    (h : (sdSetDimName f s n).2 ≠ .fail) : Written (sdSetDimName f s n).1 := by
  generalize hr : sdSetDimName f s n = r at h ⊢
  unfold sdSetDimName at hr
  repeat' split at hr
  all_goals (subst hr; simp_all [Written])
  all_goals (split at h <;> (try split at h) <;> simp_all)

theorem dimstrs_marks (f : AttrSD.File) (s : Nat) (l u fm : Option Bytes)
    (h : (sdSetDimStrs f s l u fm).2 ≠ .fail) : Written (sdSetDimStrs f s l u fm).1 := by
  generalize hr : sdSetDimStrs f s l u fm = r at h ⊢
  unfold sdSetDimStrs at hr
  split at hr
  · subst hr; simp at h
  split at hr
  · subst hr; simp at h
  rename_i d _
  have hfl := getCoordVar_flags f d s 0
  repeat' split at hr
  all_goals (subst hr; simp_all [Written])

theorem dimscale_marks (f : AttrSD.File) (s c nt : Nat) (b : Bytes)
    (h : (sdSetDimScale f s c nt b).2 ≠ .fail) : Written (sdSetDimScale f s c nt b).1 := by
  generalize hr : sdSetDimScale f s c nt b = r at h ⊢
  unfold sdSetDimScale at hr
  split at hr
  · subst hr; simp at h
  split at hr
  · subst hr; simp at h
  rename_i d _
  have hfl := getCoordVar_flags f d s nt
  repeat' split at hr
  all_goals (try dsimp only at hr)
  all_goals (repeat' split at hr)
  all_goals (subst hr; simp_all [Written, updVar_flags])

/-- **sd_setter_marks_header_modified**: every call of the SD interface that sets an attribute or a piece of descriptive
    metadata (`SDcreate`, `SDsetattr` on a file / dataset / dimension, `SDsetdatastrs`, `SDsetcal`, `SDsetrange`,
    `SDsetfillvalue`, `SDsetdimname`, `SDsetdimstrs`, `SDsetdimscale`), on ANY state and with ANY arguments, when it does not
    FAIL leaves the file open, writable and with NC_HDIRTY set - by itself, whatever else the session does or does not do.
    (`SDsetdatastrs` with four NULL pointers asks for nothing and is the one exception.) -/
theorem sd_setter_marks_header_modified (f : AttrSD.File) (s : SdSetter) (hn : s.asksNothing = false)
    (h : (s.run f).2 ≠ .fail) : Written (s.run f).1 := by
  cases s with
  | create n nt sz => exact create_marks f n nt sz h
  | attr o n nt c v => exact setattr_marks f o n nt c v h
  | dataStrs i l u fm c =>
    refine datastrs_marks f i l u fm c ?_ h
    cases l <;> cases u <;> cases fm <;> cases c <;> simp_all [SdSetter.asksNothing]
  | cal i a b c d e => exact cal_marks f i a b c d e h
  | range i mx mn => exact range_marks f i mx mn h
  | fill i v => exact fill_marks f i v h
  | dimName s n => exact dimname_marks f s n h
  | dimStrs s l u fm => exact dimstrs_marks f s l u fm h
  | dimScale s c nt b => exact dimscale_marks f s c nt b h

/-- `SDend` writes the state of a session that is open, writable and marked ... -/
theorem close_written (f : AttrSD.File) (d : Disk) (hw : Written f) (hs : save f = some d) :
    close f = ({ disk := d }, .ok) := by
  obtain ⟨ho, hr, hd⟩ := hw
  simp [close, ho, hr, hd, hs]

/-- ... and ONLY such a state: without the mark the file stays as it was, whatever the session holds in memory.
    This is why the previous theorem is needed for "everything survives close and reopen". -/
theorem close_unmarked (f : AttrSD.File) (ho : f.isOpen = true) (hd : f.dirty = false) :
    close f = ({ disk := f.disk }, .ok) := by
  simp [close, ho, hd]

/-- **sd_single_setter_survives_reopen**: a session may consist of ONE successful setter call and `SDend`; the next
    `SDstart` then shows the state the session had after that call, in the sense of `sd_attrs_survive_reopen`: same
    variables in the same order with their number types (for a coordinate variable: the type of the dimension scale),
    kinds, references, scale data, and every storable attribute list. -/
theorem sd_single_setter_survives_reopen (f : AttrSD.File) (s : SdSetter) (hn : s.asksNothing = false)
    (h : (s.run f).2 ≠ .fail) (d : Disk) (hs : save (s.run f).1 = some d) :
    (close (s.run f).1).2 = .ok ∧
    (openF (close (s.run f).1).1 true).vars.length = (s.run f).1.vars.length ∧
    (∀ (i : Nat) (v : Var), (s.run f).1.vars[i]? = some v → ∃ v' : Var, (openF (close (s.run f).1).1 true).vars[i]? = some v' ∧
        (v.vtype ≠ IS_CRDVAR → v'.name = v.name) ∧ v'.hdftype = v.hdftype ∧ v'.vtype = v.vtype ∧ v'.ref = v.ref ∧
        v'.hasData = v.hasData ∧ v'.scale = v.scale ∧ ((∀ a ∈ v.attrs, Storable a = true) → v'.attrs = v.attrs)) ∧
    ((∀ a ∈ (s.run f).1.gattrs, Storable a = true) → (openF (close (s.run f).1).1 true).gattrs = (s.run f).1.gattrs) := by
  have hc := close_written _ d (sd_setter_marks_header_modified f s hn h) hs
  have ho : openF (close (s.run f).1).1 true = openF { (s.run f).1 with disk := d } true := by
    rw [hc]; simp [openF]
  rw [ho, hc]
  exact ⟨rfl, sd_attrs_survive_reopen (s.run f).1 d hs⟩

/-- a file as a first session left it: dataset "v" (int16, 2 values) on dimension "x", whose scale is {1, 2} as int16 -/
def scaleWitness : AttrSD.File :=
  let d : Disk := { dims := [⟨[120], 2⟩]
                    vars := [⟨[118], 22, [0], [], IS_SDSVAR, 2, false, []⟩, ⟨[120], 22, [0], [], IS_CRDVAR, 3, true, [0, 1, 0, 2]⟩] }
  openF { disk := d } true

/-- the only call of the second session: the scale is re-set as uint16 {40000, 60000} (same element size) -/
def scaleRetype : SdSetter := .dimScale 0 2 23 [0x9c, 0x40, 0xea, 0x60]

example : scaleRetype.asksNothing = false ∧ (scaleRetype.run scaleWitness).2 ≠ .fail ∧
    (save (scaleRetype.run scaleWitness).1).isSome = true := by decide

/-- after `SDend` and `SDstart` the scale has the new type and the new values ... -/
example : ((openF (close (scaleRetype.run scaleWitness).1).1 false).vars.map fun v => (v.hdftype, v.scale))
    = [(22, []), (23, [0x9c, 0x40, 0xea, 0x60])] := by decide

/-- ... whereas the same session WITHOUT the mark on the header would leave the old type on disk (in the C the new bytes
    are in the data element already: 40000 would be read back as int16 -25536) -/
example : ((openF (close { (scaleRetype.run scaleWitness).1 with dirty := false }).1 false).vars.map (·.hdftype)) = [22, 22] := by
  decide

end dirty
end H4.Props.C10
