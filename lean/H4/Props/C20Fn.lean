import H4.Lemmas.C01FnW
import H4.Lemmas.Limits
/-! # C20, function level — the range test of `Hwrite` (`hdf/src/hfile.c`, commit c61e7e0) on the TRANSLATED C text

`H4.Gen.Fn.Hfile2.Hwrite` is regenerated from /repo's current `hfile.c` on every run (see `H4.Props.C01Fn` for the conventions: the access
record and the file record are objects, the layer below is a set of assumed calls with written contracts and a call log).

* `Hwrite_overflow_refused` — the clause "a write that would end beyond offset 2^31-2 of the file is refused and changes nothing", for every
  extent, position, flag and every answer of the layer below.
* `Hwrite_refines_limits` — on every element that has an extent the translated function computes the C20 allocation model `Limits.hwrite head`
  (result, new descriptor length, new end of file; `convert` = the promotion call is reached), so `H4.Props.C20.no_wrap` and its companions
  speak about the C text.  The `int32` sums of the model (`wrap32`) are in range under the stated hypotheses.

The other range tests of the layer (`HPgetdiskblock`, bffe1fd / ec9dd8a) are inside an assumed call here; `Hseek`'s refusal of a position that
does not fit an `int32` (7739a98) and `Htrunc`'s refusal of a negative length (20ed5b8) are part of `H4.Props.C01Fn.Hseek_refines` /
`Htrunc_refines`. -/
namespace H4.Props.C20Fn
open H4 H4.Elem H4.Gen.Fn.Hfile2 H4.Gen.Hdf H4.Lemmas.C01Fn
set_option linter.unusedSimpArgs false
set_option linter.unusedVariables false

local macro "wr" "[" ts:Lean.Parser.Tactic.simpLemma,* "]" : tactic =>
  `(tactic| simp [Hwrite, Hwrite.chk, Hwrite.St.join, Hsetlength, Hsetlength.chk, Hsetlength.St.join, HIrefresh_new, HIrefresh_new.chk,
      b2i, cINQ, -List.reduceReplicate, $ts,*])

/-- **C20, `Hwrite` (c61e7e0)**: a write that would end beyond offset 2^31-2 of the file is REFUSED, for every element that has an extent
    `(o, l)`, every position, every flag and every answer of the layer below: the result is FAIL, position, flags, descriptor and end of
    file are what they were, and nothing but the two `HTPinquire` calls happened (no `HPseek`, `HP_write`, `HTPupdate`, `HLconvert`). -/
theorem Hwrite_overflow_refused (n posn o l : Nat) (newE app : Bool) (aid ddid tag ref refc cur conv rew eoff blk upd seekr wrr bsz nb : Int)
    (acc fuel : Nat) (calls : List (List Int)) (hbit : ¬ (acc &&& 2 = 0)) (hopen : refc ≠ 0) (hn : 0 < n)
    (hbig : (n : Int) + o + posn > 2147483646) :
    let s := Hwrite fuel aid n false false acc 0 false refc (b2i newE) ddid 0 calls tag ref o l blk eoff upd (b2i app) posn conv bsz nb rew seekr cur wrr
    s.ub = false ∧ s.oof = false ∧ s.ret = -1 ∧ s.access_rec_posn = posn ∧ s.access_rec_appendable = b2i app ∧
    s.dd_off = o ∧ s.dd_len = l ∧ s.file_rec_f_end_off = eoff ∧
    s.calls = calls ++ (if newE = true then [[cINQ, ddid]] else []) ++ [[cINQ, ddid]] := by
  intro s
  have ho1 : ¬ ((o : Int) = -1) := by omega
  have hov : 2147483646 - (o : Int) - posn < n := by omega
  have hpos : ¬ (n = 0) := by omega
  cases newE <;> cases app <;> wr [s, hbit, hopen, ho1, hov, hpos, hn]


open H4.Limits in
theorem wrap_facts (k posn o l : Nat) (hext : (o : Int) + l ≤ 2147483647) (hs1 : (posn : Int) + o + k ≤ 2147483646) :
    wrap32 ((l : Int) + o) = (l : Int) + o ∧ wrap32 ((posn : Int) + k) = (posn : Int) + k ∧
    wrap32 ((posn : Int) + o) = (posn : Int) + o ∧ wrap32 ((posn : Int) + o + k) = (posn : Int) + o + k ∧
    wrap32 ((k : Int) + posn) = (k : Int) + posn :=
  ⟨wrap32_id (by omega) (by omega), wrap32_id (by omega) (by omega), wrap32_id (by omega) (by omega), wrap32_id (by omega) (by omega),
   wrap32_id (by omega) (by omega)⟩

open H4.Limits in
/-- `Limits.hwrite head` once the range test has passed and the length is positive: no `wrap32` is left -/
theorem limits_hwrite_pos (st : Limits.St) (d : Limits.DD) (app : Bool) (posn o l k : Nat) (hdo : d.off = o) (hdl : d.len = l)
    (hposn : (posn : Int) ≤ 2147483647) (hext : (o : Int) + l ≤ 2147483647) (hk : 0 < k) (hs1 : (posn : Int) + o + k ≤ 2147483646) :
    Limits.hwrite head st d app posn k =
      if app = false ∧ (k : Int) + posn > l then (st, .fail)
      else if app = true ∧ (k : Int) + posn > l ∧ (l : Int) + o ≠ st.endOff then (st, .convert)
      else
        let s1 := if app = true ∧ (k : Int) + posn > l then updateDD st d.tag d.ref o ((posn : Int) + k) else st
        ({ s1 with endOff := if (posn : Int) + o + k > s1.endOff then (posn : Int) + o + k else s1.endOff }, .wrote k) := by
  have w1 : wrap32 (wrap32 ((I32MAX - 1) - (o : Int)) - posn) = 2147483646 - o - posn := by
    rw [wrap32_id (x := (I32MAX - 1) - (o : Int)) (by simp [I32MAX, H4.Gen.Limits.INT32_MAX]; omega) (by simp [I32MAX, H4.Gen.Limits.INT32_MAX]; omega)]
    rw [wrap32_id (by simp [I32MAX, H4.Gen.Limits.INT32_MAX]; omega) (by simp [I32MAX, H4.Gen.Limits.INT32_MAX]; omega)]
    simp [I32MAX, H4.Gen.Limits.INT32_MAX]
  obtain ⟨w3, w4, w5, w6, w7⟩ := wrap_facts k posn o l hext hs1
  unfold Limits.hwrite
  simp only [head, hdo, hdl, w1, w7, w3, w4, w5, w6]
  clear w1 w3 w4 w5 w6 w7
  have h1 : ¬ ((k : Int) > 2147483646 - o - posn) := by omega
  have h2 : ¬ ((k : Int) ≤ 0) := by omega
  have h2' : ¬ (k = 0) := by omega
  have h3 : ¬ ((posn : Int) + o < 0) := by omega
  cases app <;> by_cases hb : (k : Int) + posn > l <;> simp [h1, h2, h2', h3, hb]
  all_goals (try (by_cases he : (l : Int) + o = st.endOff <;> simp [he]))

open H4.Limits in
/-- **`Hwrite` computes the C20 allocation model `Limits.hwrite`** (configuration `head`) on an element that has an extent, for every `int32`
    length: refused when the model refuses (including the range test c61e7e0), promotion exactly when the model says `convert`, else the
    count, the new length of the descriptor and the new end of file of the model.  All `int32` sums the model forms with `wrap32` are in
    range under these hypotheses, so its two's-complement arithmetic and the translator's exact arithmetic agree. -/
theorem Hwrite_refines_limits (st : Limits.St) (d : Limits.DD) (app : Bool) (posn o l : Nat) (n : Int)
    (aid ddid tag ref refc cur conv rew blk bsz nb : Int) (acc fuel : Nat) (calls : List (List Int))
    (hbit : ¬ (acc &&& 2 = 0)) (hopen : refc ≠ 0) (hdo : d.off = o) (hdl : d.len = l)
    (hn : -2147483648 ≤ n ∧ n ≤ 2147483647) (hposn : (posn : Int) ≤ 2147483647) (hend : 0 ≤ st.endOff ∧ st.endOff ≤ 2147483646)
    (hext : (o : Int) + l ≤ 2147483647) (hfuel : (posn + 511) / 512 ≤ fuel) (hrew : rew ≠ -1) (hconv : conv ≠ -1) :
    let s := Hwrite fuel aid n false false acc 0 false refc 0 ddid 0 calls tag ref o l blk st.endOff 0 (b2i app) posn conv bsz nb rew 0 cur 0
    let r := Limits.hwrite head st d app posn n
    s.ub = false ∧ s.oof = false ∧
    (match r.2 with
     | .fail => s.ret = -1 ∧ s.file_rec_f_end_off = st.endOff ∧ s.dd_len = l
     | .wrote k => s.ret = k ∧ s.file_rec_f_end_off = r.1.endOff ∧
                   s.dd_len = (if app = true ∧ n + posn > l then (posn : Int) + n else l) ∧ s.access_rec_posn = posn + n
     | .convert => ∃ c ∈ s.calls, c.head? = some cCONV) := by
  intro s r
  have ho1 : ¬ ((o : Int) = -1) := by omega
  have w1 : wrap32 (wrap32 ((I32MAX - 1) - (o : Int)) - posn) = 2147483646 - o - posn := by
    rw [wrap32_id (x := (I32MAX - 1) - (o : Int)) (by simp [I32MAX, H4.Gen.Limits.INT32_MAX]; omega) (by simp [I32MAX, H4.Gen.Limits.INT32_MAX]; omega)]
    rw [wrap32_id (by simp [I32MAX, H4.Gen.Limits.INT32_MAX]; omega) (by simp [I32MAX, H4.Gen.Limits.INT32_MAX]; omega)]
    simp [I32MAX, H4.Gen.Limits.INT32_MAX]
  by_cases hR1 : n > 0 ∧ n > 2147483646 - (o : Int) - posn
  · -- the range test
    have hov : 2147483646 - (o : Int) - posn < n := hR1.2
    have hn0 : 0 < n := hR1.1
    have hm : r = (st, WRes.fail) := by
      simp [r, Limits.hwrite, head, hdo, hdl, w1, hR1.1, hov]
    cases app <;> wr [s, hm, hbit, hopen, ho1, hov, hn0]
  · have hnr : ¬ (n > 0 ∧ n > 2147483646 - (o : Int) - posn) := hR1
    have w2 : wrap32 (n + posn) = n + posn := wrap32_id (by omega) (by omega)
    by_cases hn0 : n ≤ 0
    · have hm : r = (st, WRes.fail) := by
        simp [r, Limits.hwrite, head, hdo, hdl, w1, w2, hn0]
      have hov : ¬ (0 < n ∧ 2147483646 - (o : Int) - posn < n) := by omega
      have hov' : ¬ (0 < n) := by omega
      cases app <;> wr [s, hm, hbit, hopen, ho1, hov, hov', hn0]
    · have hnpos : 0 < n := by omega
      have hov : ¬ (2147483646 - (o : Int) - posn < n) := by omega
      obtain ⟨k, rfl⟩ := Int.eq_ofNat_of_zero_le (show 0 ≤ n by omega)
      have hk0 : ¬ (k = 0) := by omega
      have hk1 : 0 < k := by omega
      clear w1 w2
      have hs1 : (posn : Int) + o + k ≤ 2147483646 := by omega
      have hwe : wrap32 ((o : Int) + ((posn : Int) + k)) = (o : Int) + ((posn : Int) + k) := wrap32_id (by omega) (by omega)
      have hm := limits_hwrite_pos st d app posn o l k hdo hdl hposn hext hk1 hs1
      have hE3 : ¬ ((o : Int) + (posn + k) < posn + o + k) := by omega
      have hpl1 : ¬ ((posn : Int) + k = -1) := by omega
      have hpl2 : ¬ ((posn : Int) + k = -2) := by omega
      by_cases hgrow : (k : Int) + posn > l
      · have hgI : (l : Int) < (k : Int) + posn := by omega
        cases happ : app
        · -- beyond the end of an element that is not appendable
          have hr : r = (st, WRes.fail) := by simp [r, hm, happ, hgrow]
          wr [s, hr, hbit, hopen, ho1, hov, hk0, hk1, hgI, happ]
        · by_cases hend : (l : Int) + o = st.endOff
          · -- grows in place: the model's updateDD + end rule, the C's HTPupdate + end-of-file update
            have hendI : (l : Int) + o = st.endOff := hend
            have hEo : st.endOff < (o : Int) + ((posn : Int) + k) := by omega
            have hEo2 : st.endOff < (posn : Int) + o + k := by omega
            have hr2 : r.2 = WRes.wrote k := by simp [r, hm, happ, hgrow, hend]
            have hre : r.1.endOff = (posn : Int) + o + k := by
              simp [r, hm, happ, hgrow, hend, updateDD, endRule, hwe, INVALID_OFFSET, INVALID_LENGTH, ho1, hpl1, hEo]
              omega
            clear_value r
            clear hm hwe
            by_cases hgap : posn > l
            · have hgapI : (l : Int) < posn := by omega
              have hloop : ∀ s : Hwrite.St, s.gap = (posn : Int) - l → s.HP_write_ret = 0 → s.done = false → s.gto = false →
                  Hwrite.loop0 fuel s = { s with gap := 0, n := lastN (posn - l) s.n, calls := s.calls ++ zrows (posn - l),
                                                 file_rec_f_cur_off := s.file_rec_f_cur_off + ((posn - l : Nat) : Int) } :=
                fun s hg => loop0_at fuel (posn - l) (by omega) s (by rw [hg]; omega)
              wr [s, hr2, hre, hbit, hopen, ho1, hov, hk0, hk1, hgI, happ, hendI, hgapI, hloop, hE3, hpl1, hpl2, hEo, hEo2]
              all_goals (first | omega)
            · have hgapI : ¬ ((l : Int) < posn) := by omega
              wr [s, hr2, hre, hbit, hopen, ho1, hov, hk0, hk1, hgI, happ, hendI, hgapI, hE3, hpl1, hpl2, hEo, hEo2]
              all_goals (first | omega)
          · have hr : r = (st, WRes.convert) := by simp [r, hm, happ, hgrow, hend]
            wr [s, hr, hbit, hopen, ho1, hov, hk0, hk1, hgI, happ, hend, hconv, hrew]
            exact ⟨[6, aid, bsz, nb], by simp, by simp [cCONV]⟩
      · have hgI : ¬ ((l : Int) < (k : Int) + posn) := by omega
        have hr2 : r.2 = WRes.wrote k := by cases happ : app <;> simp [r, hm, happ, hgrow]
        have hre : r.1.endOff = if st.endOff < (posn : Int) + o + k then (posn : Int) + o + k else st.endOff := by
          cases happ : app <;> simp [r, hm, happ, hgrow]
        clear_value r
        clear hm hwe
        by_cases hE : st.endOff < (posn : Int) + o + k
        · rw [if_pos hE] at hre
          cases happ : app <;> wr [s, hr2, hre, hbit, hopen, ho1, hov, hk0, hk1, hgI, happ, hE]
          all_goals (first | omega)
        · rw [if_neg hE] at hre
          cases happ : app <;> wr [s, hr2, hre, hbit, hopen, ho1, hov, hk0, hk1, hgI, happ, hE]
          all_goals (first | omega)

-- an element at offset 2147483000: a 1000-byte write at position 0 would end beyond 2^31-2: refused, no call below but the inquiry
example : let s := Hwrite 1 7 1000 false false 3 0 false 1 0 5 0 [] 100 1 2147483000 8 0 2147483008 0 1 0 0 4096 16 0 0 0 0
    s.ub = false ∧ s.ret = -1 ∧ s.calls = [[1, 5]] ∧ s.file_rec_f_end_off = 2147483008 := by decide
end H4.Props.C20Fn
