import H4.Lemmas.C04Fn
/-! C04, function-level Tie A: the chunk address functions of `hdf/src/hchunks.c` as translated statement by statement from the CURRENT
    C text (`H4.Gen.Fn.Hchunks`, written by gen/c2lean.py on every run) compute exactly the hand-written model `H4.Chunk` that all C04
    theorems are about - for every rank and every argument - and, under the stated preconditions on the caller's arrays, they
    never index outside an array or divide by zero (`ub = false`) and their loops terminate (`oof = false` with fuel = rank).
    A change of the C text changes the generated definitions; these theorems are re-checked against them. -/
namespace H4.Props.C04Fn
open H4 H4.Chunk H4.Gen.Fn.Hchunks H4.C2L H4.Lemmas.C04Fn

/-- `calculate_chunk_num` as translated from hchunks.c computes the model's `calculateChunkNum`, touches no memory outside its arrays and terminates -/
theorem calculate_chunk_num_refines (dd : List DimRec) (sbi : List Nat) (hs : sbi.length = dd.length) (hne : dd ≠ []) (out : Int) :
    let s := calculate_chunk_num dd.length [out] dd.length (ints sbi) (ints (dd.map (·.numChunks)))
    s.ub = false ∧ s.oof = false ∧ s.chunk_num = [((calculateChunkNum dd sbi : Nat) : Int)] := by
  have hl : 0 < dd.length := List.length_pos_iff.mpr hne
  have hlin1 : ∀ (rs xs : List Nat) (n : Nat), rs.length = n + 1 → xs.length = n + 1 →
      (lin (rs.drop n) (xs.drop n)).2 = xs[n]?.getD 0 := by
    intro rs xs n hr hx
    rw [drop_cons_getD rs n (by omega), drop_cons_getD xs n (by omega)]
    have : rs.drop (n + 1) = [] := by simp; omega
    simp [lin, this]
  simp only [calculate_chunk_num, calculateChunkNum]
  by_cases h1 : (dd.length : Int) > 1
  · simp only [calculate_chunk_num.chk, h1, if_true]
    apply ccn_loop (dd.map (·.numChunks)) sbi (by simpa using hs) (dd.length - 1)
    all_goals (try simp)
    · omega
    · omega
    · have : List.drop (dd.length - 1 + 1) (List.map (fun x => x.numChunks) dd) = [] := by simp; omega
      simp [this]
    · have := hlin1 (dd.map (·.numChunks)) sbi (dd.length - 1) (by simp; omega) (by omega)
      rw [this]
    · omega
  · have h : dd.length = 1 := by omega
    have := hlin1 (dd.map (·.numChunks)) sbi 0 (by simp; omega) (by omega)
    simp at this
    simp [calculate_chunk_num.chk, h, this]
    omega

/-- the hypotheses are satisfiable and the translated code runs: 3-d geometry 5x7x4 in chunks 2x3x3 -/
example : (calculate_chunk_num 3 [0] 3 (ints [1, 2, 1]) (ints ((mkDims [5, 7, 4] [2, 3, 3]).map (·.numChunks)))).chunk_num
    = [((calculateChunkNum (mkDims [5, 7, 4] [2, 3, 3]) [1, 2, 1] : Nat) : Int)] := by decide

end H4.Props.C04Fn
