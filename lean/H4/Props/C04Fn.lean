import H4.Lemmas.C04Fn
/-! C04, function-level Tie A: the chunk address functions of `hdf/src/hchunks.c` as translated statement by statement from the CURRENT
    C text (`H4.Gen.Fn.Hchunks`, written by gen/c2lean.py on every run) compute exactly the hand-written model `H4.Chunk` that all C04
    theorems are about - for every rank and every argument - and, under the stated preconditions on the caller's arrays, they
    never index outside an array or divide by zero (`ub = false`) and their loops terminate (`oof = false` with fuel = rank).
    A change of the C text changes the generated definitions; these theorems are re-checked against them. -/
namespace H4.Props.C04Fn
open H4 H4.Chunk H4.Gen.Fn.Hchunks H4.C2L H4.Lemmas.C04Fn

/-- `calculate_chunk_num` as translated from hchunks.c computes the model's `calculateChunkNum`, touches no memory outside its arrays and terminates -/
theorem calculate_chunk_num_refines (dd : List DimRec) (sbi : List Nat) (hs : sbi.length = dd.length) (hne : dd ≠ []) (out : Int) :
    let s := calculate_chunk_num dd.length [out] dd.length (ints sbi) (ints (dd.map (·.numChunks)))
    s.ub = false ∧ s.oof = false ∧ s.chunk_num = [((calculateChunkNum dd sbi : Nat) : Int)] := by
  have hl : 0 < dd.length := List.length_pos_iff.mpr hne
  have hlin1 : ∀ (rs xs : List Nat) (n : Nat), rs.length = n + 1 → xs.length = n + 1 →
      (lin (rs.drop n) (xs.drop n)).2 = xs[n]?.getD 0 := by
    intro rs xs n hr hx
    rw [drop_cons_getD rs n (by omega), drop_cons_getD xs n (by omega)]
    have : rs.drop (n + 1) = [] := by simp; omega
    simp [lin, this]
  simp only [calculate_chunk_num, calculateChunkNum]
  by_cases h1 : (dd.length : Int) > 1
  · simp only [calculate_chunk_num.chk, h1, if_true]
    apply ccn_loop (dd.map (·.numChunks)) sbi (by simpa using hs) (dd.length - 1)
    all_goals (try simp)
    · omega
    · omega
    · have : List.drop (dd.length - 1 + 1) (List.map (fun x => x.numChunks) dd) = [] := by simp; omega
      simp [this]
    · have := hlin1 (dd.map (·.numChunks)) sbi (dd.length - 1) (by simp; omega) (by omega)
      rw [this]
    · omega
  · have h : dd.length = 1 := by omega
    have := hlin1 (dd.map (·.numChunks)) sbi 0 (by simp; omega) (by omega)
    simp at this
    simp [calculate_chunk_num.chk, h, this]
    omega

/-- the hypotheses are satisfiable and the translated code runs: 3-d geometry 5x7x4 in chunks 2x3x3 -/
example : (calculate_chunk_num 3 [0] 3 (ints [1, 2, 1]) (ints ((mkDims [5, 7, 4] [2, 3, 3]).map (·.numChunks)))).chunk_num
    = [((calculateChunkNum (mkDims [5, 7, 4] [2, 3, 3]) [1, 2, 1] : Nat) : Int)] := by decide

/-- `update_chunk_indices_seek` as translated from hchunks.c fills `sbi`, `spb` (whatever they held) with the model's
    `updateChunkIndicesSeek`; it needs `nt_size ≠ 0` and non-zero `dim_length`, `chunk_length` in every dimension (it divides by them) -/
theorem update_chunk_indices_seek_refines (dd : List DimRec) (ntSize sloc : Nat) (outSbi outSpb : List Int)
    (ho1 : outSbi.length = dd.length) (ho2 : outSpb.length = dd.length) (hnt : ntSize ≠ 0)
    (hd : AllPos (dimsOf dd)) (hc : AllPos (cdimsOf dd)) :
    let s := update_chunk_indices_seek dd.length sloc dd.length ntSize outSbi outSpb (ints (dimsOf dd)) (ints (cdimsOf dd))
    s.ub = false ∧ s.oof = false ∧ s.sbi = ints (updateChunkIndicesSeek dd ntSize sloc).1
      ∧ s.spb = ints (updateChunkIndicesSeek dd ntSize sloc).2 := by
  simp only [update_chunk_indices_seek, updateChunkIndicesSeek]
  apply ucis_loop dd (sloc / ntSize) hd hc dd.length
  · omega
  · omega
  · rfl
  · simp [update_chunk_indices_seek.chk, ucisLoop]
  · simpa [update_chunk_indices_seek.chk] using ho1
  · simpa [update_chunk_indices_seek.chk] using ho2
  · simp [update_chunk_indices_seek.chk, ucisLoop]; omega
  · simp [update_chunk_indices_seek.chk, ucisLoop]; omega
  · rfl
  · rfl
  · simpa [update_chunk_indices_seek.chk] using hnt
  · rfl

/-- the hypotheses are satisfiable and the translated code runs: byte 434 of a 5x7x4 array of 4-byte elements in chunks 2x3x3 -/
example : AllPos (dimsOf (mkDims [5, 7, 4] [2, 3, 3])) ∧ AllPos (cdimsOf (mkDims [5, 7, 4] [2, 3, 3])) ∧
    (let s := update_chunk_indices_seek 3 434 3 4 [-1, -1, -1] [-1, -1, -1] (ints (dimsOf (mkDims [5, 7, 4] [2, 3, 3])))
        (ints (cdimsOf (mkDims [5, 7, 4] [2, 3, 3])))
     s.ub = false ∧ s.oof = false ∧ s.sbi = ints (updateChunkIndicesSeek (mkDims [5, 7, 4] [2, 3, 3]) 4 434).1 ∧
       s.spb = ints (updateChunkIndicesSeek (mkDims [5, 7, 4] [2, 3, 3]) 4 434).2 ∧ s.sbi = [1, 2, 0] ∧ s.spb = [1, 0, 0]) := by decide

/-- `compute_chunk_to_array` as translated from hchunks.c fills `array_indices` with the model's `computeChunkToArray`
    (including the clamp to `last_chunk_length` in the last chunk of a dimension); no arithmetic precondition -/
theorem compute_chunk_to_array_refines (dd : List DimRec) (sbi spb : List Nat) (out : List Int)
    (hs : sbi.length = dd.length) (hp : spb.length = dd.length) (ho : out.length = dd.length) :
    let s := compute_chunk_to_array dd.length (ints sbi) (ints spb) out dd.length (ints (cdimsOf dd)) (ints (nchunksOf dd))
      (ints (dd.map (·.lastChunkLength)))
    s.ub = false ∧ s.oof = false ∧ s.array_indices = ints (computeChunkToArray dd sbi spb) := by
  simp only [compute_chunk_to_array]
  apply c2a_loop dd sbi spb hs hp dd.length
  · omega
  · omega
  · simp
  · rfl
  · exact ho
  · simp
  all_goals rfl

/-- the translated code runs through all three paths: dimension 0 is in its last chunk (5 = 2+2+1) without clamp, dimension 1 is in its
    last chunk (7 = 3+3+1) and position 2 is clamped to `last_chunk_length` = 1, dimension 2 is not in its last chunk -/
example :
    (let s := compute_chunk_to_array 3 (ints [2, 2, 0]) (ints [1, 2, 2]) [-1, -1, -1] 3 (ints (cdimsOf (mkDims [5, 7, 4] [2, 3, 3])))
        (ints (nchunksOf (mkDims [5, 7, 4] [2, 3, 3]))) (ints ((mkDims [5, 7, 4] [2, 3, 3]).map (·.lastChunkLength)))
     s.ub = false ∧ s.oof = false ∧ s.array_indices = ints (computeChunkToArray (mkDims [5, 7, 4] [2, 3, 3]) [2, 2, 0] [1, 2, 2]) ∧
       s.array_indices = [5, 7, 2]) := by decide

/-- `compute_array_to_seek` as translated from hchunks.c computes the model's `computeArrayToSeek`; it reads `array_indices[ndims-1]`,
    so the rank must be positive -/
theorem compute_array_to_seek_refines (dd : List DimRec) (ntSize : Nat) (arr : List Nat) (ha : arr.length = dd.length)
    (hne : dd ≠ []) (out : Int) :
    let s := compute_array_to_seek dd.length [out] (ints arr) ntSize dd.length (ints (dimsOf dd))
    s.ub = false ∧ s.oof = false ∧ s.user_seek = [((computeArrayToSeek dd ntSize arr : Nat) : Int)] := by
  have hl : 0 < dd.length := List.length_pos_iff.mpr hne
  simp only [compute_array_to_seek, computeArrayToSeek]
  by_cases h1 : (dd.length : Int) > 1
  · simp only [compute_array_to_seek.chk, h1, if_true]
    generalize hS : compute_array_to_seek.loop0 _ _ = t
    have H : t.ub = false ∧ t.oof = false ∧ t.user_seek = [(((lin (dimsOf dd) arr).2 : Nat) : Int)] ∧ t.nt_size = (ntSize : Int) := by
      rw [← hS]
      apply cats_loop (dimsOf dd) arr (by simpa using ha) (dd.length - 1)
      all_goals (try simp)
      · omega
      · omega
      · have : List.drop (dd.length - 1 + 1) (List.map (fun x => x.dimLength) dd) = [] := by simp; omega
        simp [this]
      · rw [lin_last (dimsOf dd) arr (dd.length - 1) (by simp; omega) (by omega)]
      · omega
    obtain ⟨hub, hoof, hus, hnt⟩ := H
    simp [hub, hoof, hus, hnt]
  · have h : dd.length = 1 := by omega
    have := lin_last (dimsOf dd) arr 0 (by simp; omega) (by omega)
    simp at this
    simp [compute_array_to_seek.chk, h, this]
    omega

/-- the translated code runs: element (3,6,2) of a 5x7x4 array of 4-byte elements is at byte ((3*7+6)*4+2)*4 = 440 -/
example :
    (let s := compute_array_to_seek 3 [-1] (ints [3, 6, 2]) 4 3 (ints (dimsOf (mkDims [5, 7, 4] [2, 3, 3])))
     s.ub = false ∧ s.oof = false ∧ s.user_seek = [((computeArrayToSeek (mkDims [5, 7, 4] [2, 3, 3]) 4 [3, 6, 2] : Nat) : Int)] ∧
       s.user_seek = [440]) := by decide

/-- `calculate_seek_in_chunk` as translated from hchunks.c computes the model's `calculateSeekInChunk` (rank positive: reads `spb[ndims-1]`) -/
theorem calculate_seek_in_chunk_refines (dd : List DimRec) (ntSize : Nat) (spb : List Nat) (ha : spb.length = dd.length)
    (hne : dd ≠ []) (out : Int) :
    let s := calculate_seek_in_chunk dd.length [out] dd.length ntSize (ints spb) (ints (cdimsOf dd))
    s.ub = false ∧ s.oof = false ∧ s.chunk_seek = [((calculateSeekInChunk dd ntSize spb : Nat) : Int)] := by
  have hl : 0 < dd.length := List.length_pos_iff.mpr hne
  simp only [calculate_seek_in_chunk, calculateSeekInChunk]
  by_cases h1 : (dd.length : Int) > 1
  · simp only [calculate_seek_in_chunk.chk, h1, if_true]
    generalize hS : calculate_seek_in_chunk.loop0 _ _ = t
    have H : t.ub = false ∧ t.oof = false ∧ t.chunk_seek = [(((lin (cdimsOf dd) spb).2 : Nat) : Int)] ∧ t.nt_size = (ntSize : Int) := by
      rw [← hS]
      apply csic_loop (cdimsOf dd) spb (by simpa using ha) (dd.length - 1)
      all_goals (try simp)
      · omega
      · omega
      · have : List.drop (dd.length - 1 + 1) (List.map (fun x => x.chunkLength) dd) = [] := by simp; omega
        simp [this]
      · rw [lin_last (cdimsOf dd) spb (dd.length - 1) (by simp; omega) (by omega)]
      · omega
    obtain ⟨hub, hoof, hus, hnt⟩ := H
    simp [hub, hoof, hus, hnt]
  · have h : dd.length = 1 := by omega
    have := lin_last (cdimsOf dd) spb 0 (by simp; omega) (by omega)
    simp at this
    simp [calculate_seek_in_chunk.chk, h, this]
    omega

/-- the translated code runs: position (1,2,1) in a 2x3x3 chunk of 4-byte elements is at byte ((1*3+2)*3+1)*4 = 64 -/
example :
    (let s := calculate_seek_in_chunk 3 [-1] 3 4 (ints [1, 2, 1]) (ints (cdimsOf (mkDims [5, 7, 4] [2, 3, 3])))
     s.ub = false ∧ s.oof = false ∧ s.chunk_seek = [((calculateSeekInChunk (mkDims [5, 7, 4] [2, 3, 3]) 4 [1, 2, 1] : Nat) : Int)] ∧
       s.chunk_seek = [64]) := by decide

/-- `update_seek_pos_chunk` as translated from hchunks.c fills `spb` with the model's `updateSeekPosChunk`; it needs `nt_size ≠ 0` and
    non-zero `chunk_length` in every dimension -/
theorem update_seek_pos_chunk_refines (dd : List DimRec) (ntSize chunkSeek : Nat) (out : List Int)
    (ho : out.length = dd.length) (hnt : ntSize ≠ 0) (hc : AllPos (cdimsOf dd)) :
    let s := update_seek_pos_chunk dd.length chunkSeek dd.length ntSize out (ints (cdimsOf dd))
    s.ub = false ∧ s.oof = false ∧ s.spb = ints (updateSeekPosChunk dd ntSize chunkSeek) := by
  simp only [update_seek_pos_chunk, updateSeekPosChunk]
  apply uspc_loop dd (chunkSeek / ntSize) hc dd.length
  · omega
  · omega
  · rfl
  · simp [update_seek_pos_chunk.chk, uspcLoop]
  · simpa [update_seek_pos_chunk.chk] using ho
  · simp [update_seek_pos_chunk.chk, uspcLoop]; omega
  · rfl
  · simpa [update_seek_pos_chunk.chk] using hnt
  · rfl

/-- the hypotheses are satisfiable and the translated code runs: byte 52 = element 13 of a 2x3x3 chunk is position (1,1,1) -/
example : AllPos (cdimsOf (mkDims [5, 7, 4] [2, 3, 3])) ∧
    (let s := update_seek_pos_chunk 3 52 3 4 [-1, -1, -1] (ints (cdimsOf (mkDims [5, 7, 4] [2, 3, 3])))
     s.ub = false ∧ s.oof = false ∧ s.spb = ints (updateSeekPosChunk (mkDims [5, 7, 4] [2, 3, 3]) 4 52) ∧ s.spb = [1, 1, 1]) := by decide

/-- `calculate_chunk_for_chunk` as translated from hchunks.c computes the model's (signed) `calculateChunkForChunk`; it reads index
    `ndims-1` of `sbi`, `spb`, `ddims`, so the rank must be positive -/
theorem calculate_chunk_for_chunk_refines (dd : List DimRec) (ntSize len done : Nat) (sbi spb : List Nat)
    (hs : sbi.length = dd.length) (hp : spb.length = dd.length) (hne : dd ≠ []) (out : Int) :
    let s := calculate_chunk_for_chunk dd.length [out] dd.length ntSize len done (ints sbi) (ints spb)
      (ints (nchunksOf dd)) (ints (dd.map (·.lastChunkLength))) (ints (cdimsOf dd))
    s.ub = false ∧ s.oof = false ∧ s.chunk_size = [calculateChunkForChunk dd ntSize len done sbi spb] := by
  have hl : 0 < dd.length := List.length_pos_iff.mpr hne
  have hm : dd.length - 1 < dd.length := by omega
  have e1 : ((dd.length : Int) - 1).toNat = dd.length - 1 := by omega
  have hb : 0 ≤ (dd.length : Int) - 1 ∧ (dd.length : Int) - 1 < (dd.length : Int) := by omega
  have g1 : dd.getLastD default = dd[dd.length - 1] := by
    rw [getLastD_eq_getD dd default hne]; simp [hm]
  have g2 : sbi.getLastD 0 = sbi[dd.length - 1]?.getD 0 := by
    rw [getLastD_eq_getD sbi 0 (by intro h; simp [h] at hs; omega), hs]
  have g3 : spb.getLastD 0 = spb[dd.length - 1]?.getD 0 := by
    rw [getLastD_eq_getD spb 0 (by intro h; simp [h] at hp; omega), hp]
  have hv1 := ints_map_getD (·.numChunks) dd _ hm
  have hv2 := ints_map_getD (·.lastChunkLength) dd _ hm
  have hv3 := ints_map_getD (·.chunkLength) dd _ hm
  have hv4 : (ints sbi).getD (dd.length - 1) 0 = ((sbi[dd.length - 1]?.getD 0 : Nat) : Int) := by simp
  have hv5 : (ints spb).getD (dd.length - 1) 0 = ((spb[dd.length - 1]?.getD 0 : Nat) : Int) := by simp
  simp only [calculate_chunk_for_chunk, calculateChunkForChunk, g1, g2, g3, calculate_chunk_for_chunk.chk, e1, hv1, hv2, hv3, hv4, hv5,
    ints_length, List.length_map, hs, hp, hb]
  by_cases hc : sbi[dd.length - 1]?.getD 0 + 1 = dd[dd.length - 1].numChunks
  · have hc' : ((sbi[dd.length - 1]?.getD 0 : Nat) : Int) = ((dd[dd.length - 1].numChunks : Nat) : Int) - 1 := by omega
    simp only [eq_true hc', if_true]
    split <;> simp_all
  · have hc' : ¬ ((sbi[dd.length - 1]?.getD 0 : Nat) : Int) = ((dd[dd.length - 1].numChunks : Nat) : Int) - 1 := by omega
    simp only [eq_false hc', if_false]
    split <;> simp_all

/-- the translated code runs: last chunk of the fastest dimension (4 = 3+1), the rest of the row is 1 element = 4 bytes of the 100 asked for -/
example :
    (let s := calculate_chunk_for_chunk 3 [-1] 3 4 100 0 (ints [1, 2, 1]) (ints [0, 0, 0]) (ints (nchunksOf (mkDims [5, 7, 4] [2, 3, 3])))
        (ints ((mkDims [5, 7, 4] [2, 3, 3]).map (·.lastChunkLength))) (ints (cdimsOf (mkDims [5, 7, 4] [2, 3, 3])))
     s.ub = false ∧ s.oof = false ∧ s.chunk_size = [calculateChunkForChunk (mkDims [5, 7, 4] [2, 3, 3]) 4 100 0 [1, 2, 1] [0, 0, 0]] ∧
       s.chunk_size = [4]) := by decide

end H4.Props.C04Fn
