import H4.Props.C17
import H4.DDOpen
import H4.Gen.Src
/-! # C17, the premise "default descriptor caching": the state of the file record at the start of the adding session

`H4.Props.C17.append_only_before_flush` holds from ANY state of an open file whose record has `cache = true`.
`append_only_after_open` discharges that hypothesis for a session that is the only user of the file (`hreopen`:
`Hclose` then `Hopen`, `cache = default_cache`).  Here it is discharged for a session whose `Hopen` finds the record of the
path ALREADY IN USE - a reader or a writer of the same process still has the file open (same entry of the file-id group,
`refcount > 1`), interfaces may be started on it, `Hcache` may have been called before:

* `hopenAgain_keeps`: the second-open branch of `Hopen` keeps the invariant, the directory, `f_end_off` and `cache`;
* `append_only_second_id`: from a record with `cache = true`, the adding calls of a session opened through a further id write
  only at or beyond `f_end_off` of the record at that moment;
* `append_only_reader_first`: a file opened (read-only) by one id and then for writing by a second id (the stream is
  reopened for update, nothing is pending): every write of the adding session lies beyond every stored descriptor block and
  element, and `Hopen` itself writes nothing;
* `cache_default_unless_switched_off` / `session_cache_on`: at the level of the flags (`OpenTab`), along EVERY sequence of
  `Hopen` (read or write) / `Hclose` / `Hcache(.., on)` calls from the start of the process the record of the path has
  `cache = true` whenever it exists: the hypothesis of the theorems above holds at the start of every session unless the
  program itself called `Hcache(.., FALSE)`.

Tie: `hopen_text` pins the Tie-A fact about the text of `Hopen`; engine `crash` prints the flags of the real `filerec_t`
after each of these calls and at the first write of every session, `h4model` recomputes them with `OpenTab.step`. -/
namespace H4.Props.C17
open H4.DD H4.Gen.Hdf

/-- Tie A: `Hopen` assigns `file_rec->cache` exactly once, unconditionally, from `default_cache` -/
theorem hopen_text : H4.Gen.Src.HOPEN_CACHE_IS_DEFAULT = true := by decide

/-- `static int default_cache = TRUE` -/
theorem default_cache_on : defaultCache = true := by decide

/-! ## the second-open branch of `Hopen` on the DD directory -/

theorem hiSync_cache (s : File) : (hiSync s).cache = s.cache := by
  unfold hiSync; split <;> rfl

theorem hiSync_fEnd (s : File) : (hiSync s).fEnd = s.fEnd := by
  unfold hiSync; split <;> rfl

/-- **hopenAgain_keeps**: `Hopen` of a path whose record is in use keeps the invariant, every descriptor, `f_end_off` and the
    caching mode of the record -/
theorem hopenAgain_keeps (cfg : Cfg) {s : File} (h : Inv cfg s) (u : Bool) :
    Inv cfg (hopenAgain s u) ∧ (hopenAgain s u).slots = s.slots ∧ (hopenAgain s u).fEnd = s.fEnd ∧
      (hopenAgain s u).cache = s.cache := by
  unfold hopenAgain
  cases u with
  | false => exact ⟨h, rfl, rfl, rfl⟩
  | true =>
    obtain ⟨hi, hsl⟩ := hiSync_inv cfg h
    exact ⟨hi, hsl, hiSync_fEnd s, hiSync_cache s⟩

/-- the projection to the flags commutes with the second open: `OpenTab.step (.open w)` on a record in use is what `hopenAgain`
    does to `cache` -/
theorem hopenAgain_flags (s : File) (wr : Bool) (rc : Nat) (w : Bool) (t : OpenTab) (ht : t.frec = some (flagsOf s wr rc)) :
    (t.step (.open w)).frec = some (flagsOf (hopenAgain s (w && !wr)) (wr || w) (rc + 1)) := by
  unfold OpenTab.step
  rw [ht]
  simp only [flagsOf]
  have : (hopenAgain s (w && !wr)).cache = s.cache := by
    unfold hopenAgain; split
    · exact hiSync_cache s
    · rfl
  rw [this]

/-- **append_only_second_id**: a record in use with `cache = true` (whoever opened it first, read-only or for writing, whatever
    is pending) is opened through one more id and the adding calls of a session run: every physical write they issue
    starts at or beyond `f_end_off` of the record; caching stays on. -/
theorem append_only_second_id (cfg : Cfg) {s : File} (h : Inv cfg s) (hc : s.cache = true) (u : Bool) (ops : List Op)
    (hg : guarded cfg (hopenAgain s u) ops = true) (ha : addingOnly cfg (hopenAgain s u) ops = true) :
    ∃ s', (run cfg (hopenAgain s u) ops).2 = some s' ∧ s'.cache = true ∧
      ∃ ws, s'.chronLog = (hopenAgain s u).chronLog ++ ws ∧ ∀ w ∈ ws, s.fEnd ≤ w.off := by
  obtain ⟨hi, _, hf, hca⟩ := hopenAgain_keeps cfg h u
  obtain ⟨s', hs', hc', ws, hl, hw⟩ := append_only_before_flush cfg hi (by rw [hca, hc]) ops hg ha
  exact ⟨s', hs', hc', ws, hl, fun w hw' => by rw [← hf]; exact hw w hw'⟩

theorem syncWrites_clean : ∀ (bs : List Block), (∀ b ∈ bs, b.dirty = false) → syncWrites bs = []
  | [], _ => rfl
  | b :: bs, h => by
    unfold syncWrites
    rw [h b (by simp), syncWrites_clean bs (fun b' hb' => h b' (by simp [hb']))]
    simp

/-- `Hopen` of a record in use on which nothing is pending writes nothing -/
theorem hopenAgain_log_clean {s : File} (hcl : ∀ b ∈ s.blocks, b.dirty = false) (u : Bool) :
    (hopenAgain s u).log = s.log := by
  unfold hopenAgain
  cases u with
  | false => rfl
  | true =>
    simp only [if_true]
    unfold hiSync
    split
    · show (htpSync s).log = s.log
      unfold htpSync
      simp [syncWrites_clean s.blocks hcl]
    · rfl

/-- **append_only_reader_first**: the file is opened by one id (`Hopen`: the directory is read, nothing pending, the log is
    empty) and then once more for the adding session (with or without the upgrade to write access).  `f_end_off` at the
    first open bounds every stored descriptor block and element extent, and EVERY physical write up to the end of the
    adding calls - the second `Hopen` included - starts at or beyond it. -/
theorem append_only_reader_first (cfg : Cfg) {s s0 : File} (h : Inv cfg s) (ho : hreopen cfg s = some s0) (u : Bool) (ops : List Op)
    (hg : guarded cfg (hopenAgain s0 u) ops = true) (ha : addingOnly cfg (hopenAgain s0 u) ops = true) :
    ExtOK s0 ∧ ∃ s', (run cfg (hopenAgain s0 u) ops).2 = some s' ∧ s'.cache = true ∧ ∀ w ∈ s'.chronLog, s0.fEnd ≤ w.off := by
  obtain ⟨hinv0, hext, hc0, hcl, hl0, _⟩ := open_end_bounds cfg h ho
  have hc : s0.cache = true := by rw [hc0]; decide
  obtain ⟨s', hs', hc', ws, hl, hw⟩ := append_only_second_id cfg hinv0 hc u ops hg ha
  refine ⟨hext, s', hs', hc', ?_⟩
  intro w hwm
  rw [hl] at hwm
  unfold File.chronLog at hwm
  rw [hopenAgain_log_clean hcl u, hl0] at hwm
  simp at hwm
  exact hw w hwm

/-! ## the flags: caching is on for every record unless the program switched it off -/

/-- the invariant: `default_cache` is on and the record, if there is one, has caching on -/
def CacheOn (t : OpenTab) : Prop := t.defCache = true ∧ ∀ r, t.frec = some r → r.cache = true

theorem step_cacheOn (t : OpenTab) (op : OOp) (hop : op.turnsOff = false) (h : CacheOn t) : CacheOn (t.step op) := by
  obtain ⟨hd, hr⟩ := h
  cases op with
  | «open» w =>
    cases hrec : t.frec with
    | none =>
      have e : t.step (.open w) = { t with frec := some { refcount := 1, write := w, cache := t.defCache } } := by
        simp [OpenTab.step, hrec]
      rw [e]
      exact ⟨hd, fun r hr' => by cases hr'; exact hd⟩
    | some r0 =>
      have e : t.step (.open w) = { t with frec := some { r0 with refcount := r0.refcount + 1, write := r0.write || w } } := by
        simp [OpenTab.step, hrec]
      rw [e]
      exact ⟨hd, fun r hr' => by cases hr'; exact hr r0 hrec⟩
  | close =>
    cases hrec : t.frec with
    | none =>
      have e : t.step .close = t := by simp [OpenTab.step, hrec]
      rw [e]; exact ⟨hd, hr⟩
    | some r0 =>
      by_cases hle : r0.refcount ≤ 1
      · have e : t.step .close = { t with frec := none } := by simp [OpenTab.step, hrec, hle]
        rw [e]; exact ⟨hd, fun r hr' => by cases hr'⟩
      · have e : t.step .close = { t with frec := some { r0 with refcount := r0.refcount - 1 } } := by
          simp [OpenTab.step, hrec, hle]
        rw [e]; exact ⟨hd, fun r hr' => by cases hr'; exact hr r0 hrec⟩
  | cache on =>
    cases on with
    | false => simp [OOp.turnsOff] at hop
    | true =>
      cases hrec : t.frec with
      | none =>
        have e : t.step (.cache true) = t := by simp [OpenTab.step, hrec]
        rw [e]; exact ⟨hd, hr⟩
      | some r0 =>
        have e : t.step (.cache true) = { t with frec := some { r0 with cache := true } } := by simp [OpenTab.step, hrec]
        rw [e]; exact ⟨hd, fun r hr' => by cases hr'; rfl⟩
  | cacheAll on =>
    cases on with
    | false => simp [OOp.turnsOff] at hop
    | true => exact ⟨rfl, hr⟩

/-- **cache_default_unless_switched_off**: from a table where caching is on, along every sequence of `Hopen` (read-only or for
    writing, record in use or not) / `Hclose` / `Hcache(id, TRUE)` / `Hcache(CACHE_ALL_FILES, TRUE)` calls caching is on for
    the record whenever it exists -/
theorem cache_default_unless_switched_off (ops : List OOp) : ∀ (t : OpenTab), CacheOn t → (∀ op ∈ ops, op.turnsOff = false) →
    CacheOn (t.run ops) := by
  induction ops with
  | nil => intro t h _; exact h
  | cons op rest ih =>
    intro t h hops
    unfold OpenTab.run
    simp only [List.foldl_cons]
    exact ih (t.step op) (step_cacheOn t op (hops op (by simp)) h) (fun o ho => hops o (by simp [ho]))

/-- **session_cache_on**: from the start of the process (`default_cache` as compiled, no record), after any such sequence of
    calls, the session's own `Hopen` for writing yields a record with `cache = true` - the hypothesis of
    `append_only_before_flush` / `append_only_second_id` - whether it finds the record in use (by a reader or a writer) or not -/
theorem session_cache_on (ops : List OOp) (hops : ∀ op ∈ ops, op.turnsOff = false) :
    ∃ r, (((({} : OpenTab).run ops).step (.open true)).frec = some r) ∧ r.cache = true ∧ r.write = true ∧ 0 < r.refcount := by
  have h0 : CacheOn ({} : OpenTab) := ⟨default_cache_on, fun r hr => by cases hr⟩
  have h1 := cache_default_unless_switched_off ops {} h0 hops
  have h2 := step_cacheOn _ (.open true) rfl h1
  generalize ({} : OpenTab).run ops = t at *
  cases hrec : t.frec with
  | none =>
    have e : t.step (.open true) = { t with frec := some { refcount := 1, write := true, cache := t.defCache } } := by
      simp [OpenTab.step, hrec]
    rw [e] at h2 ⊢
    exact ⟨_, rfl, h2.2 _ rfl, rfl, Nat.lt_succ_self 0⟩
  | some r0 =>
    have e : t.step (.open true) = { t with frec := some { r0 with refcount := r0.refcount + 1, write := r0.write || true } } := by
      simp [OpenTab.step, hrec]
    rw [e] at h2 ⊢
    exact ⟨_, rfl, h2.2 _ rfl, by simp, Nat.succ_pos _⟩

/-- a reader first, then the session's open for writing: same record, `refcount = 2`, write access, caching on -/
example : (((({} : OpenTab).run [.open false]).step (.open true)).frec) = some ⟨2, true, true⟩ := by decide
/-- … also through an earlier session that was closed again, an idle writer and an `Hcache` off/on cycle on a reader -/
example : (((({} : OpenTab).run [.open false, .close, .open true, .open false, .cache false, .cache true]).step (.open true)).frec)
    = some ⟨3, true, true⟩ := by decide
/-- the hypothesis is needed: after `Hcache(id, FALSE)` the session does run uncached (outside the property) -/
example : (((({} : OpenTab).run [.open false, .cache false]).step (.open true)).frec) = some ⟨2, true, false⟩ := by decide
/-- the hypotheses of `session_cache_on` on a concrete non-trivial history -/
example : ∀ op ∈ [OOp.open false, .open false, .close, .cacheAll true, .cache true, .open true, .close], op.turnsOff = false := by decide

/-- `append_only_reader_first` on a concrete history: a file with `ndds = 4` holding 3 elements, opened by a reader, then opened
    for writing by the session (upgrade), 5 new descriptors (a new DD block): all 8 writes lie at or beyond the old `f_end_off` -/
example : (let s0 := (run currentCfg (hopenCreate currentCfg 4) [.put 100 1 4, .put 100 2 4, .put 100 3 4, .reopen]).2.get!
    let s1 := hopenAgain s0 true
    let s := (run currentCfg s1 [.put 101 1 3, .put 101 2 3, .dup 101 3 101 1, .put 101 4 1, .put 101 5 1]).2.get!
    (guarded currentCfg s1 [.put 101 1 3, .put 101 2 3, .dup 101 3 101 1, .put 101 4 1, .put 101 5 1] &&
     addingOnly currentCfg s1 [.put 101 1 3, .put 101 2 3, .dup 101 3 101 1, .put 101 4 1, .put 101 5 1] &&
     s.cache && s.chronLog.all (fun w => decide (s0.fEnd ≤ w.off)), s.chronLog.length)) = (true, 8) := by decide +kernel

end H4.Props.C17
