import H4.Lemmas.C03Fn
/-! C03, function-level Tie A: `NCvcmaxcontig` of `mfhdf/src/putget.c` as translated statement by statement from the CURRENT C text
    (`H4.Gen.Fn.Putget`, written by gen/c2lean.py on every run: pointer cursors `shp/edp/orp/boundary` are indices, `unsigned long`
    arithmetic is `% 2^64`) computes the hand-written model: `Slab.maxContig` (its own control flow), and for an in-range request on a
    fixed-size variable exactly the index `Slab.cut` at which `Slab.runs` - the model all C03 theorems are about - stops enumerating and
    issues one contiguous request.  The translated code never indexes outside `shape/origin/edges` (`ub = false`) and its loop
    terminates (`oof = false` with fuel = rank).  A change of the C text changes the generated definitions; these theorems are
    re-checked against them. -/
namespace H4.Props.C03Fn
open H4 H4.Slab H4.C2L H4.Gen.Fn.Putget H4.Lemmas.C03Fn

/-- `boundary` of `NCvcmaxcontig`: 1 for a record variable (`IS_RECVAR`: `shape[0] = 0`), 0 for a fixed-size variable -/
def boundaryOf (shape : List Nat) : Nat := if shape.getD 0 0 = 0 then 1 else 0

/-- **General refinement.**  For every rank ≥ 1 and every `shape/origin/edges` of that rank with values below 2^63 whose start
    coordinates are inside the scanned extents (what `NCcoordck` established before the call), the translated `NCvcmaxcontig`
    returns what the model `Slab.maxContig` returns (`none` = NULL), with no undefined behaviour and a terminating loop. -/
theorem NCvcmaxcontig_refines (shape origin edges : List Nat) (recsize len fuel : Nat) (hne : shape ≠ [])
    (hl2 : origin.length = shape.length) (hl3 : edges.length = shape.length) (hS : Small shape) (hE : Small edges)
    (hO : ∀ j, boundaryOf shape ≤ j → j < shape.length → origin.getD j 0 ≤ shape.getD j 0) (hf : shape.length ≤ fuel) :
    let s := NCvcmaxcontig fuel recsize false (ints shape) shape.length len (ints origin) (ints edges)
    s.ub = false ∧ s.oof = false ∧ s.done = true ∧
    match maxContig recsize len shape origin edges with
    | none => s.retnull = true
    | some k => s.retnull = false ∧ s.ret = (k : Int) := by
  intro s
  have hpos : 0 < shape.length := List.length_pos_iff.mpr hne
  have hd : shape.getD 0 1 = shape.getD 0 0 := by
    cases shape with
    | nil => exact absurd rfl hne
    | cons x xs => simp
  simp only [maxContig, hd]
  by_cases h0 : shape.getD 0 0 = 0
  · simp only [h0, if_true]
    by_cases h1 : shape.length = 1 ∧ recsize ≤ len
    · obtain ⟨a, b, c, d, e⟩ := entry_early shape origin edges recsize len fuel h1.1 h0 (by omega)
      simp only [h1, and_self, if_true]
      exact ⟨a, b, c, d, e⟩
    · have h1' : ¬ (shape.length = 1 ∧ (recsize : Int) ≤ (len : Int)) := by omega
      obtain ⟨a, b, c, _, e⟩ := entry_spec shape origin edges recsize len fuel 1 hpos hl2 hl3 hS hE (Or.inr ⟨h0, h1', rfl⟩)
        (by have hb : boundaryOf shape = 1 := by simp only [boundaryOf, h0, if_true]
            rw [hb] at hO; exact hO) hf
      simp only [h1, if_false]
      exact ⟨a, b, c, e⟩
  · obtain ⟨a, b, c, _, e⟩ := entry_spec shape origin edges recsize len fuel 0 hpos hl2 hl3 hS hE (Or.inl ⟨h0, rfl⟩)
      (by have hb : boundaryOf shape = 0 := by simp only [boundaryOf, h0, if_false]
          rw [hb] at hO; exact hO) hf
    simp only [h0, if_false]
    exact ⟨a, b, c, e⟩

/-- the hypotheses are satisfiable and the translated code runs: 4x5x6 variable, start (1,0,0), edges (2,3,6): answer index 1 -/
example : Small [4, 5, 6] ∧ Small [2, 3, 6] ∧
    (let s := NCvcmaxcontig 3 0 false (ints [4, 5, 6]) 3 0 (ints [1, 0, 0]) (ints [2, 3, 6])
     s.ub = false ∧ s.oof = false ∧ s.retnull = false ∧ s.ret = 1 ∧ maxContig 0 0 [4, 5, 6] [1, 0, 0] [2, 3, 6] = some 1) := by decide

/-- **(a) fixed-size variable, in-range request.**  The translated `NCvcmaxcontig` returns (no NULL, no undefined behaviour, loop
    terminates) the index `Slab.cut shape start edges`: the place where the model's `runs` stops enumerating. -/
theorem NCvcmaxcontig_fixed_inrange (shape start edges : List Nat) (recsize len fuel : Nat) (hne : shape ≠ [])
    (h0 : shape.getD 0 0 ≠ 0) (hr : inRange shape start edges) (hS : Small shape) (hf : shape.length ≤ fuel) :
    let s := NCvcmaxcontig fuel recsize false (ints shape) shape.length len (ints start) (ints edges)
    s.ub = false ∧ s.oof = false ∧ s.retnull = false ∧ s.ret = (cut shape start edges : Nat) := by
  intro s
  obtain ⟨hl2, hl3⟩ := inRange_length shape start edges hr
  have hE := small_of_inRange shape start edges hr hS
  have hO : ∀ j, boundaryOf shape ≤ j → j < shape.length → start.getD j 0 ≤ shape.getD j 0 := by
    intro j _ hj
    have := inRange_getD shape start edges hr j hj
    omega
  have key := NCvcmaxcontig_refines shape start edges recsize len fuel hne hl2 hl3 hS hE hO hf
  have hd : shape.getD 0 1 = shape.getD 0 0 := by
    cases shape with
    | nil => exact absurd rfl hne
    | cons x xs => simp
  have hsc : maxContig recsize len shape start edges = some (cut shape start edges) := by
    simp only [maxContig, hd, h0, if_false]
    apply scan_eq_cut shape start edges hr shape.length (Nat.le_refl _)
    simp [full]
  simp only [hsc] at key
  exact ⟨key.1, key.2.1, key.2.2.2.1, key.2.2.2.2⟩

/-- **(a, characterisation) what `Slab.cut` is.**  For an in-range request `k = cut shape start edges` is the largest index whose edge is
    shorter than the extent, else 0: every later dimension is taken whole (`edges[j] = shape[j]`, `start[j] = 0`) - in the model's words
    `full` holds from `k+1` on - and unless `k = 0` dimension `k` itself is not (`edges[k] < shape[k]`, `full` fails from `k` on). -/
theorem cut_char (shape start edges : List Nat) (hne : shape ≠ []) (hr : inRange shape start edges) :
    let k := cut shape start edges
    k < shape.length ∧
    (∀ j, k < j → j < shape.length → edges.getD j 0 = shape.getD j 0 ∧ start.getD j 0 = 0) ∧
    (k = 0 ∨ edges.getD k 0 < shape.getD k 0) ∧
    full (shape.drop (k + 1)) (start.drop (k + 1)) (edges.drop (k + 1)) = true ∧
    (0 < k → full (shape.drop k) (start.drop k) (edges.drop k) = false) := by
  intro k
  obtain ⟨hl2, hl3⟩ := inRange_length shape start edges hr
  have hk : k < shape.length := cut_lt shape start edges hne
  obtain ⟨f1, f2⟩ := cut_full shape start edges
  refine ⟨hk, ?_, ?_, f1, f2⟩
  · intro j hj1 hj2
    have := full_drop_forall shape start edges hl2 hl3 (j - (k + 1)) (k + 1) f1 (by omega)
    rw [show k + 1 + (j - (k + 1)) = j by omega] at this
    exact ⟨this.2, this.1⟩
  · by_cases hk0 : k = 0
    · exact Or.inl hk0
    · right
      have hnf := f2 (by omega)
      rw [full_drop_step shape start edges k hk hl2 hl3] at hnf
      have f1' : full (shape.drop (k + 1)) (start.drop (k + 1)) (edges.drop (k + 1)) = true := f1
      rw [f1'] at hnf
      have hin := inRange_getD shape start edges hr k hk
      simp only [Bool.and_true, Bool.and_eq_false_iff, beq_eq_false_iff_ne, ne_eq] at hnf
      omega

/-- **(a, tie to the model's decision.)**  `NCvario` driven by the pointer the translated `NCvcmaxcontig` returns (`Slab.runsAt`:
    ripple counter over the dimensions before it, one request of `edges[k]*edges[k+1]*…` elements at `NC_varoffset` of each coordinate)
    issues exactly the requests of `Slab.runs` - the model of `vario_runs` and of every C03 theorem that follows from it. -/
theorem NCvcmaxcontig_is_runs_decision (shape start edges : List Nat) (recsize len fuel base : Nat) (hne : shape ≠ [])
    (h0 : shape.getD 0 0 ≠ 0) (hr : inRange shape start edges) (hS : Small shape) (hf : shape.length ≤ fuel) :
    let s := NCvcmaxcontig fuel recsize false (ints shape) shape.length len (ints start) (ints edges)
    s.ub = false ∧ s.oof = false ∧ s.retnull = false ∧
    runs shape start edges base = runsAt s.ret.toNat shape start edges base := by
  intro s
  obtain ⟨a, b, c, d⟩ := NCvcmaxcontig_fixed_inrange shape start edges recsize len fuel hne h0 hr hS hf
  obtain ⟨hl2, hl3⟩ := inRange_length shape start edges hr
  refine ⟨a, b, c, ?_⟩
  show runs shape start edges base = runsAt (NCvcmaxcontig fuel recsize false (ints shape) shape.length len (ints start) (ints edges)).ret.toNat shape start edges base
  rw [d, Int.toNat_natCast]
  exact runs_eq_runsAt_cut shape start edges base hl2 hl3

/-- the hypotheses are satisfiable and the translated code runs: 4x5x6, start (1,2,0), edges (2,3,6) -> index 1, two requests of 18 -/
example : inRange [4, 5, 6] [1, 2, 0] [2, 3, 6] ∧ Small [4, 5, 6] ∧
    (let s := NCvcmaxcontig 3 7 false (ints [4, 5, 6]) 3 9 (ints [1, 2, 0]) (ints [2, 3, 6])
     s.ub = false ∧ s.oof = false ∧ s.retnull = false ∧ s.ret = 1 ∧ cut [4, 5, 6] [1, 2, 0] [2, 3, 6] = 1 ∧
     runsAt s.ret.toNat [4, 5, 6] [1, 2, 0] [2, 3, 6] 0 = [(42, 18), (72, 18)] ∧
     runs [4, 5, 6] [1, 2, 0] [2, 3, 6] 0 = [(42, 18), (72, 18)]) := by decide

/-- **(b) refusal.**  An edge that does not fit between the start coordinate and the extent (`edges[j] > shape[j] - origin[j]`) at an
    index the scan reaches (`j ≥ boundary`, every later dimension in range and taken whole, so that no `break` happens before) makes the
    translated `NCvcmaxcontig` return NULL - for fixed-size and for record variables - without undefined behaviour. -/
theorem NCvcmaxcontig_refuses (shape origin edges : List Nat) (recsize len fuel j : Nat) (hne : shape ≠ [])
    (hl2 : origin.length = shape.length) (hl3 : edges.length = shape.length) (hS : Small shape) (hE : Small edges)
    (hO : ∀ i, boundaryOf shape ≤ i → i < shape.length → origin.getD i 0 ≤ shape.getD i 0)
    (hnotearly : ¬ (shape.getD 0 0 = 0 ∧ shape.length = 1 ∧ recsize ≤ len))
    (hj1 : boundaryOf shape ≤ j) (hj2 : j < shape.length)
    (hsuf : ∀ i, j < i → i < shape.length → origin.getD i 0 + edges.getD i 0 ≤ shape.getD i 0 ∧ shape.getD i 0 ≤ edges.getD i 0)
    (hbad : shape.getD j 0 - origin.getD j 0 < edges.getD j 0) (hf : shape.length ≤ fuel) :
    let s := NCvcmaxcontig fuel recsize false (ints shape) shape.length len (ints origin) (ints edges)
    s.ub = false ∧ s.oof = false ∧ s.retnull = true := by
  intro s
  have key := NCvcmaxcontig_refines shape origin edges recsize len fuel hne hl2 hl3 hS hE hO hf
  have hd : shape.getD 0 1 = shape.getD 0 0 := by
    cases shape with
    | nil => exact absurd rfl hne
    | cons x xs => simp
  have hsc : maxContig recsize len shape origin edges = none := by
    simp only [maxContig, hd]
    by_cases h0 : shape.getD 0 0 = 0
    · have h1 : ¬ (shape.length = 1 ∧ recsize ≤ len) := fun h => hnotearly ⟨h0, h⟩
      simp only [h0, h1, if_true, if_false]
      have hb : boundaryOf shape = 1 := by simp only [boundaryOf, h0, if_true]
      rw [hb] at hj1
      exact scan_none shape origin edges 1 j hj1 hsuf hbad shape.length hj2 (Nat.le_refl _)
    · simp only [h0, if_false]
      exact scan_none shape origin edges 0 j (Nat.zero_le _) hsuf hbad shape.length hj2 (Nat.le_refl _)
  simp only [hsc] at key
  exact ⟨key.1, key.2.1, key.2.2.2⟩

/-- the hypotheses are satisfiable and the translated code runs: 4x5x6, start (0,3,0), edges (4,3,6): 3 > 5 - 3 in dimension 1 -/
example : Small [4, 5, 6] ∧ Small [4, 3, 6] ∧ boundaryOf [4, 5, 6] = 0 ∧
    (let s := NCvcmaxcontig 3 0 false (ints [4, 5, 6]) 3 0 (ints [0, 3, 0]) (ints [4, 3, 6])
     s.ub = false ∧ s.oof = false ∧ s.retnull = true) := by decide

/-- **(c) record variable, general branch.**  `shape[0] = 0` (and not the one-dimensional only record variable): `boundary = shape + 1`,
    dimension 0 is never scanned, the answer is the model's scan down to index 1 (`edges + 1` when every fixed dimension is taken whole;
    one past the end for a one-dimensional variable). -/
theorem NCvcmaxcontig_record (shape origin edges : List Nat) (recsize len fuel : Nat) (hne : shape ≠ [])
    (h0 : shape.getD 0 0 = 0) (h1 : ¬ (shape.length = 1 ∧ recsize ≤ len))
    (hl2 : origin.length = shape.length) (hl3 : edges.length = shape.length) (hS : Small shape) (hE : Small edges)
    (hO : ∀ j, 1 ≤ j → j < shape.length → origin.getD j 0 ≤ shape.getD j 0) (hf : shape.length ≤ fuel) :
    let s := NCvcmaxcontig fuel recsize false (ints shape) shape.length len (ints origin) (ints edges)
    s.ub = false ∧ s.oof = false ∧ s.boundary = 1 ∧
    match maxContigScan shape origin edges 1 shape.length with
    | none => s.retnull = true
    | some k => s.retnull = false ∧ s.ret = (k : Int) ∧ 1 ≤ k := by
  intro s
  have hpos : 0 < shape.length := List.length_pos_iff.mpr hne
  have h1' : ¬ (shape.length = 1 ∧ (recsize : Int) ≤ (len : Int)) := by omega
  obtain ⟨a, b, _, d, e⟩ := entry_spec shape origin edges recsize len fuel 1 hpos hl2 hl3 hS hE (Or.inr ⟨h0, h1', rfl⟩) hO hf
  refine ⟨a, b, by simpa using d, ?_⟩
  cases hsc : maxContigScan shape origin edges 1 shape.length with
  | none => rw [hsc] at e; exact e
  | some k =>
    rw [hsc] at e
    exact ⟨e.1, e.2, scan_ge shape origin edges 1 shape.length k hsc⟩

/-- **(c) record variable, early return.**  The one-dimensional only record variable (`shape[0] = 0`, rank 1, `recsize ≤ len`) answers
    `edges` itself, whatever the request is (no hypothesis on `origin`, `edges`), without running the loop. -/
theorem NCvcmaxcontig_only_record (shape origin edges : List Nat) (recsize len fuel : Nat)
    (hn : shape.length = 1) (h0 : shape.getD 0 0 = 0) (h1 : recsize ≤ len) :
    let s := NCvcmaxcontig fuel recsize false (ints shape) shape.length len (ints origin) (ints edges)
    s.ub = false ∧ s.oof = false ∧ s.done = true ∧ s.retnull = false ∧ s.ret = 0 :=
  entry_early shape origin edges recsize len fuel hn h0 (by omega)

/-- the translated code runs on record variables: (0,5,6) with the fixed dimensions whole -> `edges + 1`; rank 1 not the only record
    variable -> one past the end; rank 1 only record variable -> `edges` -/
example :
    (let s := NCvcmaxcontig 3 40 false (ints [0, 5, 6]) 3 30 (ints [7, 0, 0]) (ints [2, 5, 6])
     s.ub = false ∧ s.oof = false ∧ s.boundary = 1 ∧ s.retnull = false ∧ s.ret = 1) ∧
    (let s := NCvcmaxcontig 1 40 false (ints [0]) 1 30 (ints [7]) (ints [2])
     s.ub = false ∧ s.oof = false ∧ s.boundary = 1 ∧ s.retnull = false ∧ s.ret = 1) ∧
    (let s := NCvcmaxcontig 0 30 false (ints [0]) 1 30 (ints [7]) (ints [2])
     s.ub = false ∧ s.oof = false ∧ s.retnull = false ∧ s.ret = 0) := by decide

/-- **(b, general) never undefined behaviour.**  For EVERY content of `shape/origin/edges` (any integers: negative edges, start
    coordinates beyond the extent, values up to 2^64), every `recsize`, `len`: with the three arrays of the variable's rank ≥ 1 the
    translated `NCvcmaxcontig` never indexes outside them, its loop ends within `rank` passes and it returns (a pointer or NULL). -/
theorem NCvcmaxcontig_safe (shape origin edges : List Int) (recsize len : Int) (fuel : Nat) (hne : shape ≠ [])
    (hl2 : origin.length = shape.length) (hl3 : edges.length = shape.length) (hf : shape.length ≤ fuel) :
    let s := NCvcmaxcontig fuel recsize false shape shape.length len origin edges
    s.ub = false ∧ s.oof = false ∧ s.done = true :=
  entry_safe shape origin edges recsize len fuel (List.length_pos_iff.mpr hne) hl2 hl3 hf

/-- the translated code runs on values outside every other theorem's hypotheses: a negative edge is refused, a start coordinate beyond
    the extent wraps around in `unsigned long` (and is NOT refused: `NCcoordck` has to come first) -/
example :
    (let s := NCvcmaxcontig 2 0 false [4, 5] 2 0 [0, 0] [4, -1]
     s.ub = false ∧ s.oof = false ∧ s.done = true ∧ s.retnull = true) ∧
    (let s := NCvcmaxcontig 2 0 false [4, 5] 2 0 [0, 7] [4, 1]
     s.ub = false ∧ s.oof = false ∧ s.done = true ∧ s.retnull = false ∧ s.ret = 1) := by decide

end H4.Props.C03Fn
