import H4.NdgAttrs
/-! # C15 — annotations and strings of an old-style data set, as the SD interface presents them

    `H4.NdgAttrs.ndgCharAttrs` is tied to the real `hdf_read_ndgs` by the `xapi` engine (`T xapi ndgattrs`, inputs read
    through AN and the H layer, outputs through SDattrinfo/SDreadattr).  Proved here about that model: every description and
    every label is presented, at a fixed position and under a fixed name, with exactly its own bytes and length, whatever
    the number, the lengths and the order of the other annotations. -/
namespace H4.Props.C15Ndg
open H4.NdgAttrs H4.Gen.NdgAttrs

/-- the names are the ones the headers define (Tie A pins them on every run) -/
theorem consts : NAME_REMARKS = "remarks".toList.map Char.toNat ∧ NAME_ANNO_LABEL = "anno_label".toList.map Char.toNat ∧
    NAME_LONG_NAME = "long_name".toList.map Char.toNat ∧ NAME_UNITS = "units".toList.map Char.toNat ∧
    NAME_FORMAT = "format".toList.map Char.toNat ∧ NAME_COORDSYS = "coordsys".toList.map Char.toNat := by decide

/-- a text without NUL is presented whole -/
theorem cstr_nul_free (t : Bytes) (h : ∀ b ∈ t, b ≠ 0) : cstr t = t := by
  unfold cstr
  induction t with
  | nil => rfl
  | cons a l ih =>
    have ha : (a != 0) = true := by simpa using h a (by simp)
    rw [List.takeWhile_cons, ha]; simp only [↓reduceIte]
    rw [ih (fun b hb => h b (by simp [hb]))]

/-- in general what is presented is the part before the first NUL: never longer than the text, never bytes of another text -/
theorem cstr_prefix (t : Bytes) : cstr t <+: t := List.takeWhile_prefix _

/-- the k-th annotation of a kind becomes the k-th attribute of that kind and depends on its own text only -/
theorem annAttrs_getElem (base : List Nat) (l : List Bytes) (i : Nat) :
    (annAttrs base l)[i]? = l[i]?.map fun t => ⟨nameOf base (i + 1), cstr t⟩ := by
  unfold annAttrs; rw [List.getElem?_mapIdx]

theorem annAttrs_length (base : List Nat) (l : List Bytes) : (annAttrs base l).length = l.length := by
  unfold annAttrs; simp

/-- **Every description is presented**: description `i` (in `ANannlist` order, free of NUL bytes) is the attribute at position
    `[coordsys] + i`, named `remarks-<i+1>`, with exactly the bytes and the length AN returns — for any number of
    descriptions and labels, of any lengths in any order. -/
theorem desc_presented (g : Ndg) (i : Nat) (h : i < g.descs.length) (hn : ∀ b ∈ g.descs[i], b ≠ 0) :
    (ndgCharAttrs g)[(strAttr NAME_COORDSYS g.sdc).length + i]? = some ⟨nameOf NAME_REMARKS (i + 1), g.descs[i]⟩ := by
  unfold ndgCharAttrs
  rw [List.getElem?_append_right (by omega), Nat.add_sub_cancel_left,
    List.getElem?_append_left (by rw [annAttrs_length]; exact h), annAttrs_getElem, List.getElem?_eq_getElem h]
  simp [cstr_nul_free _ hn]

/-- **Every label is presented**: label `j` is the attribute at position `[coordsys] + #descriptions + j`, named `anno_label-<j+1>` -/
theorem label_presented (g : Ndg) (j : Nat) (h : j < g.labels.length) (hn : ∀ b ∈ g.labels[j], b ≠ 0) :
    (ndgCharAttrs g)[(strAttr NAME_COORDSYS g.sdc).length + g.descs.length + j]? = some ⟨nameOf NAME_ANNO_LABEL (j + 1), g.labels[j]⟩ := by
  unfold ndgCharAttrs
  rw [List.getElem?_append_right (by omega), show (strAttr NAME_COORDSYS g.sdc).length + g.descs.length + j - (strAttr NAME_COORDSYS g.sdc).length
      = g.descs.length + j by omega,
    List.getElem?_append_right (by rw [annAttrs_length]; omega), annAttrs_length, Nat.add_sub_cancel_left,
    List.getElem?_append_left (by rw [annAttrs_length]; exact h), annAttrs_getElem, List.getElem?_eq_getElem h]
  simp [cstr_nul_free _ hn]

/-- what SD shows for description `i` does not depend on any other annotation (nor on anything else of the data set): two data
    sets that agree on description `i` show the same attribute for it -/
theorem desc_independent (g g' : Ndg) (i : Nat) (h : i < g.descs.length) (h' : i < g'.descs.length)
    (he : g.descs[i] = g'.descs[i]) :
    (ndgCharAttrs g)[(strAttr NAME_COORDSYS g.sdc).length + i]? = (ndgCharAttrs g')[(strAttr NAME_COORDSYS g'.sdc).length + i]? := by
  unfold ndgCharAttrs
  rw [List.getElem?_append_right (by omega), Nat.add_sub_cancel_left,
    List.getElem?_append_left (by rw [annAttrs_length]; exact h), annAttrs_getElem, List.getElem?_eq_getElem h,
    List.getElem?_append_right (by omega), Nat.add_sub_cancel_left,
    List.getElem?_append_left (by rw [annAttrs_length]; exact h'), annAttrs_getElem, List.getElem?_eq_getElem h', he]

/-- nothing but the strings and annotations becomes a character attribute: their number -/
theorem char_attr_count (g : Ndg) :
    (ndgCharAttrs g).length = (strAttr NAME_COORDSYS g.sdc).length + g.descs.length + g.labels.length +
      (strAttr NAME_LONG_NAME g.sdl).length + (strAttr NAME_UNITS g.sdu).length + (strAttr NAME_FORMAT g.sdf).length := by
  unfold ndgCharAttrs; simp only [List.length_append, annAttrs_length]; omega

/-- a data or dimension string is an attribute exactly when it is not empty -/
theorem strAttr_length (name : List Nat) (s : Bytes) : (strAttr name s).length = if cstr s = [] then 0 else 1 := by
  unfold strAttr; split <;> simp

/- the hypotheses are satisfiable, the statements are not vacuous: a longer description listed before a shorter one
   (the order in which a reused, non-cleared buffer would leak the tail of the first into the second) -/
example : ndgCharAttrs ⟨[99, 0], [[81, 67, 32, 102, 108, 97, 103, 10, 111, 107], [81, 67]], [[76]], [108, 0, 0, 0], [], []⟩ =
    [⟨NAME_COORDSYS, [99]⟩, ⟨nameOf NAME_REMARKS 1, [81, 67, 32, 102, 108, 97, 103, 10, 111, 107]⟩, ⟨nameOf NAME_REMARKS 2, [81, 67]⟩,
     ⟨nameOf NAME_ANNO_LABEL 1, [76]⟩, ⟨NAME_LONG_NAME, [108]⟩] := by decide
example : nameOf NAME_REMARKS 12 = "remarks-12".toList.map Char.toNat := by decide
example : ∀ b ∈ ([81, 67] : Bytes), b ≠ 0 := by decide

end H4.Props.C15Ndg
