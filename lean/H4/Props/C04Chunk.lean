import H4.Lemmas.Chunk
/-! # C04 — storage layout never changes the data: chunk address arithmetic of `hchunks.c` (property theorems)

All statements hold for EVERY rank ≥ 1 (rank = list length), every `dims` and `cdims` with positive entries — chunk
lengths that divide, do not divide, equal or exceed the dimension — and every `nt_size > 0`.
`dd = mkDims dims cdims` is the `DIM_REC` array `HMCcreate`/`HMCIstaccess` build.
Units: positions `p`, `pos`, lengths `len`, `k` and seeks are BYTES; `e`, `arr`, `sbi`, `spb` are ELEMENT indices.

After the repairs `chunk-unaligned-access` and `chunk-write-past-end` of hchunks.c:
 * a transfer may start at ANY byte position and have ANY length (`elem_off = relative_posn % nt_size` is honoured by the
   `HMCPread`/`HMCPwrite` loops), so no alignment hypothesis appears any more;
 * a write that would end past the (fixed-size) element is REFUSED by `HMCPwrite` before anything is modified
   (`hmcpWrite_spec`); reads are clamped by `HMCPread`. The pure piece walk `walk` itself still wraps past the end, hence
   `pos + len ≤ Π dims · nt_size` remains the hypothesis of the statements about `walk`/`writePieces` on their own. -/
namespace H4.Props.C04
open H4.Chunk

/-- rank ≥ 1, one chunk length per dimension, all entries > 0, `nt_size > 0` -/
def GeomOK (dims cdims : List Nat) (nt : Nat) : Prop :=
  dims ≠ [] ∧ dims.length = cdims.length ∧ AllPos dims ∧ AllPos cdims ∧ 0 < nt

instance (dims cdims : List Nat) (nt : Nat) : Decidable (GeomOK dims cdims nt) := by
  unfold GeomOK; infer_instance

theorem GeomOK.dd {dims cdims : List Nat} {nt : Nat} (hg : GeomOK dims cdims nt) :
    DDWF (mkDims dims cdims) ∧ mkDims dims cdims ≠ [] ∧ dimsOf (mkDims dims cdims) = dims ∧
    cdimsOf (mkDims dims cdims) = cdims ∧ 0 < nt := by
  obtain ⟨h1, h2, h3, h4, h5⟩ := hg
  obtain ⟨a, b, c⟩ := mkDims_spec h2 h3 h4
  refine ⟨a, ?_, b, c, h5⟩
  intro hnil
  rw [hnil] at b
  exact h1 b.symm

/-- `DIM_REC` set-up of `HMCcreate`: `num_chunks = ⌈dim/chunk⌉` and the chunks tile the dimension with a last chunk
    of `last_chunk_length ∈ (0, chunk_length]` real elements (the rest of that chunk is "ghost") -/
theorem dimrec_setup {d c : Nat} (hd : 0 < d) (hc : 0 < c) :
    (mkDimRec d c).dimLength = d ∧ (mkDimRec d c).chunkLength = c ∧ 0 < (mkDimRec d c).numChunks ∧
    ((mkDimRec d c).numChunks - 1) * c < d ∧ d ≤ (mkDimRec d c).numChunks * c ∧
    0 < (mkDimRec d c).lastChunkLength ∧ (mkDimRec d c).lastChunkLength ≤ c ∧
    ((mkDimRec d c).numChunks - 1) * c + (mkDimRec d c).lastChunkLength = d := by
  obtain ⟨⟨w1, w2, w3, w4, w5⟩, wd, wc⟩ := mkDimRec_wf hd hc
  rw [wc] at w3 w5
  rw [wd] at w5
  refine ⟨wd, wc, w4, by omega, ?_, w2, w3, w5⟩
  obtain ⟨n, hn⟩ : ∃ n, (mkDimRec d c).numChunks = n + 1 := ⟨(mkDimRec d c).numChunks - 1, by omega⟩
  rw [hn] at w5 ⊢
  simp only [Nat.add_sub_cancel] at w5
  have : (n + 1) * c = n * c + c := by grind
  omega

example : mkDimRec 10 4 = { dimLength := 10, chunkLength := 4, numChunks := 3, lastChunkLength := 2 } := by decide
example : mkDimRec 3 5 = { dimLength := 3, chunkLength := 5, numChunks := 1, lastChunkLength := 3 } := by decide

/-- chunk number of element `e` (`update_chunk_indices_seek` + `calculate_chunk_num`) -/
def chunkNum (dims cdims : List Nat) (nt e : Nat) : Nat := chunkNumAt (mkDims dims cdims) nt (e * nt)
/-- byte offset of element `e` inside its chunk buffer (`update_chunk_indices_seek` + `calculate_seek_in_chunk`) -/
def seekInChunk (dims cdims : List Nat) (nt e : Nat) : Nat := seekAt (mkDims dims cdims) nt (e * nt)

/-- distinct elements get distinct (chunk number, seek in chunk) pairs; the chunk number is below `Π num_chunks` and the
    whole element lies inside the `Π cdims · nt_size` bytes of a chunk buffer (a chunk always occupies a full
    buffer, also when it is a partial "ghost" chunk at the edge). -/
theorem chunk_addr_inj {dims cdims : List Nat} {nt : Nat} (hg : GeomOK dims cdims nt) :
    (∀ e1 e2, e1 < dims.prod → e2 < dims.prod → e1 ≠ e2 →
      (chunkNum dims cdims nt e1, seekInChunk dims cdims nt e1) ≠ (chunkNum dims cdims nt e2, seekInChunk dims cdims nt e2)) ∧
    (∀ e, e < dims.prod →
      chunkNum dims cdims nt e < (nchunksOf (mkDims dims cdims)).prod ∧
      seekInChunk dims cdims nt e % nt = 0 ∧ seekInChunk dims cdims nt e + nt ≤ cdims.prod * nt) := by
  obtain ⟨hw, hne, hD, hC, hnt⟩ := hg.dd
  obtain ⟨pD, pC, pN⟩ := ddwf_pos hw
  constructor
  · intro e1 e2 h1 h2 hne12 heq
    apply hne12
    obtain ⟨hc, hs⟩ := Prod.mk.inj heq
    simp only [chunkNum, seekInChunk, chunkNumAt, seekAt, updateChunkIndicesSeek, calculateSeekInChunk,
      Nat.mul_div_cancel _ hnt] at hc hs
    exact elem_addr_inj hw (by rw [hD]; exact h1) (by rw [hD]; exact h2) hc (Nat.eq_of_mul_eq_mul_right hnt hs)
  · intro e he
    simp only [chunkNum, seekInChunk, chunkNumAt, seekAt, updateChunkIndicesSeek, calculateSeekInChunk,
      calculateChunkNum, Nat.mul_div_cancel _ hnt, ucisLoop_eq]
    obtain ⟨hb, _⟩ := digits_spec pD e
    obtain ⟨sb, pb⟩ := sbi_spb_below hw hb
    have l1 := lin_lt sb
    have l2 := lin_lt pb
    have hC' : List.map (fun x => x.chunkLength) (mkDims dims cdims) = cdims := hC
    rw [hC] at l2
    refine ⟨l1, Nat.mul_mod_left _ _, ?_⟩
    rw [hC']
    calc _ = ((lin cdims (spbOf (mkDims dims cdims) (digits (dimsOf (mkDims dims cdims)) e).2)).2 + 1) * nt := by grind
      _ ≤ cdims.prod * nt := Nat.mul_le_mul_right _ l2

/-- 2-D, 5×7 in 2×3 chunks (neither divides): all 35 elements get distinct in-range addresses -/
example : GeomOK [5, 7] [2, 3] 4 := by decide
example : ((List.range 35).map fun e => (chunkNum [5, 7] [2, 3] 4 e, seekInChunk [5, 7] [2, 3] 4 e)).Nodup := by decide

/-- The piece length `calculate_chunk_for_chunk(len + elem_off, …) - elem_off` used by the loops at ANY byte position
    `p` (`elem_off = p % nt_size`) with bytes remaining (`done < len`): positive, at most what remains, does not cross the
    end of the current chunk row of the fastest dimension nor the end of that dimension (partial last chunk), is the
    LONGEST such prefix, and its bytes occupy consecutive addresses of ONE chunk buffer: byte `p + j` lives at
    `(chunk_num, seek + elem_off + j)`. -/
theorem chunk_piece_contiguous {dims cdims : List Nat} {nt : Nat} (hg : GeomOK dims cdims nt)
    (p len done : Nat) (hrem : done < len) :
    let dd := mkDims dims cdims
    let ix := updateChunkIndicesSeek dd nt p
    let dl := dd.getLastD default                 -- fastest dimension
    let a := (p / nt) % dl.dimLength              -- array index in the fastest dimension
    let off := p % nt                             -- elem_off
    ∃ k : Nat, calculateChunkForChunk dd nt (len + off) done ix.1 ix.2 - (off : Int) = (k : Int) ∧
      0 < k ∧ k ≤ len - done ∧
      (a % dl.chunkLength) * nt + off + k ≤ dl.chunkLength * nt ∧
      a * nt + off + k ≤ dl.dimLength * nt ∧
      (k = len - done ∨ (a % dl.chunkLength) * nt + off + k = dl.chunkLength * nt ∨ a * nt + off + k = dl.dimLength * nt) ∧
      ∀ j, j < k → byteAddr dd nt (p + j) = (chunkNumAt dd nt p, seekAt dd nt p + off + j) := by
  intro dd ix dl a off
  obtain ⟨hw, hne, _, _, hnt⟩ := hg.dd
  exact piece_props hw hne hnt p len done hrem

/-- 3×7 array of 2-byte elements in 2×3 chunks, at element (1,6) (last, partial chunk of the row: 1 element left):
    a 20-byte transfer gets a 2-byte piece -/
example : calculateChunkForChunk (mkDims [3, 7] [2, 3]) 2 20 0
    (updateChunkIndicesSeek (mkDims [3, 7] [2, 3]) 2 26).1 (updateChunkIndicesSeek (mkDims [3, 7] [2, 3]) 2 26).2 = 2 := by decide

/-- The `HMCPread`/`HMCPwrite` loop for a transfer of `len` bytes (ANY `len`) at ANY byte position
    `pos` (element-aligned or not): the pieces cover the byte range `[pos, pos+len)` exactly once and in order, every piece is non-empty, and the
    chunk-buffer addresses the `memcpy`s touch, in order, are exactly the addresses of bytes `pos, pos+1, …` of the
    element. (No upper bound on `pos + len` is needed for THIS statement: past the end `byteAddr` itself wraps, which
    is what the C does; the bound is needed for injectivity, see `chunked_refines_bytes`.) -/
theorem chunk_walk_tiles {dims cdims : List Nat} {nt : Nat} (hg : GeomOK dims cdims nt)
    (pos len : Nat) :
    let dd := mkDims dims cdims
    let ps := walk dd nt pos len
    ps.flatMap (fun pc => List.range' pc.pos pc.size) = List.range' pos len ∧
    ps.flatMap Piece.addrs = (List.range' pos len).map (byteAddr dd nt) ∧
    (∀ pc ∈ ps, 0 < pc.size) ∧ (ps.map (·.size)).sum = len := by
  intro dd ps
  obtain ⟨hw, hne, _, _, hnt⟩ := hg.dd
  have ht := walk_tiles hw hne hnt pos len
  exact ⟨tiles_positions ht, tiles_addrs ht, tiles_pos ht, tiles_sizes ht⟩

/-- 5×7 bytes in 2×3 chunks, 20 bytes from position 4: nine pieces, cut at every chunk-row end and at the row end -/
example : (walk (mkDims [5, 7] [2, 3]) 1 4 20).map (fun pc => (pc.pos, pc.chunk, pc.seek, pc.size)) =
    [(4, 1, 1, 2), (6, 2, 0, 1), (7, 0, 3, 3), (10, 1, 3, 3), (13, 2, 3, 1), (14, 3, 0, 3), (17, 4, 0, 3), (20, 5, 0, 1), (21, 3, 3, 3)] := by
  decide

/-! ## the chunked element refines a flat byte array -/

/-- `Hseek(pos); Hwrite(data)` -/
structure WriteOp where
  pos : Nat
  data : List UInt8

/-- ends inside the element (any start, any length; `HMCPwrite` refuses the others, see `hmcpWrite_spec`) -/
def WriteOp.OK (dims : List Nat) (nt : Nat) (w : WriteOp) : Prop :=
  w.pos + w.data.length ≤ dims.prod * nt

instance (dims : List Nat) (nt : Nat) (w : WriteOp) : Decidable (w.OK dims nt) := by
  unfold WriteOp.OK; infer_instance

/-- the chunk buffers after a sequence of writes through the `HMCPwrite` piece walk -/
def runChunked (dd : List DimRec) (nt : Nat) (st : Store) (ops : List WriteOp) : Store :=
  ops.foldl (fun st w => writePieces st (walk dd nt w.pos w.data.length) w.data) st

/-- SPEC: the same writes on a flat byte array -/
def runFlat (f : Nat → UInt8) (ops : List WriteOp) : Nat → UInt8 :=
  ops.foldl (fun f w => flatWrite f w.pos w.data) f

/-- the byte last written at position `q`, if any -/
def lastWrite : List WriteOp → Nat → Option UInt8
  | [], _ => none
  | w :: ws, q =>
    match lastWrite ws q with
    | some b => some b
    | none => if w.pos ≤ q ∧ q < w.pos + w.data.length then some (w.data.getD (q - w.pos) 0) else none

/-- the flat array holds, at every position, the byte of the LAST write covering it, else the initial (fill) byte -/
theorem runFlat_last_write (f : Nat → UInt8) (ops : List WriteOp) (q : Nat) :
    runFlat f ops q = (lastWrite ops q).getD (f q) := by
  induction ops generalizing f with
  | nil => rfl
  | cons w ws ih =>
    show runFlat (flatWrite f w.pos w.data) ws q = _
    rw [ih, lastWrite]
    cases lastWrite ws q with
    | some b => rfl
    | none =>
      simp only [Option.getD_none, flatWrite]
      split <;> rfl

/-- one `HMCPwrite` keeps the refinement, one `HMCPread` returns the flat array's bytes -/
theorem write_read_refine {dims cdims : List Nat} {nt : Nat} (hg : GeomOK dims cdims nt)
    {st : Store} {f : Nat → UInt8} (hs : Sim (mkDims dims cdims) nt (dims.prod * nt) st f) :
    (∀ w : WriteOp, w.OK dims nt →
      Sim (mkDims dims cdims) nt (dims.prod * nt)
        (writePieces st (walk (mkDims dims cdims) nt w.pos w.data.length) w.data) (flatWrite f w.pos w.data)) ∧
    (∀ pos len, pos + len ≤ dims.prod * nt →
      readPieces st (walk (mkDims dims cdims) nt pos len) = (List.range' pos len).map f) := by
  obtain ⟨hw, hne, hD, _, hnt⟩ := hg.dd
  constructor
  · intro w hr
    have ht := walk_tiles hw hne hnt w.pos w.data.length
    have := write_sim hw hnt ht (by rw [hD]; exact hr) (by rw [hD]; exact hs)
    rw [hD] at this; exact this
  · intro pos len hr
    exact read_sim hs (walk_tiles hw hne hnt pos len) hr

/-- **Chunked storage behaves as the same byte array as contiguous storage.**
    Start from a never-written element (every chunk reads as the fill pattern), perform ANY sequence of writes through
    the `HMCPwrite` piece walk into the map chunk number ↦ chunk buffer, then read ANY range back through the
    `HMCPread` piece walk: the result is what the same writes leave in a flat byte array, i.e. the last written byte
    at each position and the fill byte where nothing was written (`runFlat_last_write`). For every rank, every
    dims/cdims (dividing or not), every `nt_size`, every start position (aligned or not) and length; transfers end inside
    the element (`HMCPwrite` refuses the others: `hmcpWrite_spec`, `chunked_element_refines_flat`). -/
theorem chunked_refines_bytes {dims cdims : List Nat} {nt : Nat} (hg : GeomOK dims cdims nt)
    (fill : List UInt8) (hf : fill.length ∣ nt)
    (ops : List WriteOp) (hops : ∀ w ∈ ops, w.OK dims nt)
    (rpos rlen : Nat) (hr : rpos + rlen ≤ dims.prod * nt) :
    readPieces (runChunked (mkDims dims cdims) nt (initStore fill) ops) (walk (mkDims dims cdims) nt rpos rlen)
      = (List.range' rpos rlen).map (runFlat (fillAt fill) ops) := by
  have key : ∀ (ops : List WriteOp) (st : Store) (f : Nat → UInt8), (∀ w ∈ ops, w.OK dims nt) →
      Sim (mkDims dims cdims) nt (dims.prod * nt) st f →
      Sim (mkDims dims cdims) nt (dims.prod * nt) (runChunked (mkDims dims cdims) nt st ops) (runFlat f ops) := by
    intro ops
    induction ops with
    | nil => intro st f _ hs; exact hs
    | cons w ws ih =>
      intro st f hok hs
      exact ih _ _ (fun x hx => hok x (List.mem_cons_of_mem _ hx))
        ((write_read_refine hg hs).1 w (hok w (List.mem_cons_self)))
  exact (write_read_refine hg (key ops _ _ hops (sim_init hf))).2 rpos rlen hr

/-- non-vacuity: 3×5 array of 2-byte elements in 2×2 chunks (neither divides), two overlapping writes crossing
    chunk and row boundaries, read back across the whole element -/
example : GeomOK [3, 5] [2, 2] 2 ∧ (∀ w ∈ [WriteOp.mk 4 [1, 2, 3, 4, 5, 6, 7, 8, 9, 10, 11, 12, 13], WriteOp.mk 12 [21, 22, 23]],
    w.OK [3, 5] 2) := by decide
example : readPieces (runChunked (mkDims [3, 5] [2, 2]) 2 (initStore [0xAA, 0xBB])
      [⟨4, [1, 2, 3, 4, 5, 6, 7, 8, 9, 10, 11, 12, 13]⟩, ⟨12, [21, 22, 23]⟩]) (walk (mkDims [3, 5] [2, 2]) 2 0 30)
    = [0xAA, 0xBB, 0xAA, 0xBB, 1, 2, 3, 4, 5, 6, 7, 8, 21, 22, 23, 12, 13, 0xBB, 0xAA, 0xBB, 0xAA, 0xBB, 0xAA, 0xBB,
       0xAA, 0xBB, 0xAA, 0xBB, 0xAA, 0xBB] := by decide

/-! ## `HMCPseek` / `HMCPread` / `HMCPwrite` on the access record -/

/-- geometry carried by an access record is the one `HMCcreate` builds -/
def ElemOK (e : Elem) : Prop :=
  DDWF e.dd ∧ e.dd ≠ [] ∧ 0 < e.ntSize ∧ e.length = (dimsOf e.dd).prod

/-- the `Hseek` origins used by `HMCPseek`, as generated from hdf.h (Tie A) -/
theorem consts : H4.Gen.Hdf.DF_START = 0 ∧ H4.Gen.Hdf.DF_CURRENT = 1 ∧ H4.Gen.Hdf.DF_END = 2 := by decide

/-- `HMCPseek`: `DF_START`/`DF_CURRENT`/`DF_END` (end = `length·nt_size`); only a negative result fails;
    nothing but `posn` changes -/
theorem hmcpSeek_spec (e : Elem) (offset : Int) :
    (hmcpSeek e offset 0 = if offset < 0 then none else some { e with posn := offset.toNat }) ∧
    (hmcpSeek e offset 1 = if offset + e.posn < 0 then none else some { e with posn := (offset + e.posn).toNat }) ∧
    (hmcpSeek e offset 2 = if offset + e.totalBytes < 0 then none
                           else some { e with posn := (offset + e.totalBytes).toNat }) := by
  refine ⟨?_, ?_, ?_⟩ <;> simp [hmcpSeek, H4.Gen.Hdf.DF_CURRENT, H4.Gen.Hdf.DF_END]

/-- where a seek lands (may be negative): `DF_START` (0) / `DF_CURRENT` (1) / `DF_END` (2) -/
def seekTarget (total posn : Nat) (off : Int) (origin : Nat) : Int :=
  if origin = 1 then off + posn else if origin = 2 then off + total else off

theorem hmcpSeek_eq (e : Elem) (off : Int) (origin : Nat) :
    hmcpSeek e off origin =
      if seekTarget e.totalBytes e.posn off origin < 0 then none
      else some { e with posn := (seekTarget e.totalBytes e.posn off origin).toNat } := by
  unfold hmcpSeek seekTarget
  by_cases h1 : origin = 1
  · subst h1; simp [H4.Gen.Hdf.DF_CURRENT, H4.Gen.Hdf.DF_END]
  · by_cases h2 : origin = 2
    · subst h2; simp [H4.Gen.Hdf.DF_CURRENT, H4.Gen.Hdf.DF_END]
    · simp [H4.Gen.Hdf.DF_CURRENT, H4.Gen.Hdf.DF_END, h1, h2]

/-- `HMCPwrite`, every case: an empty write or one that would end past the element end FAILS and nothing changes
    (`none`: the state is simply not replaced); every other write — at ANY byte position — writes all of `data`,
    advances `posn` by its length and keeps the refinement of the flat array -/
theorem hmcpWrite_spec {e : Elem} (he : ElemOK e) {f : Nat → UInt8}
    (hs : Sim e.dd e.ntSize e.totalBytes e.store f) (data : List UInt8) :
    if data = [] ∨ e.posn + data.length > e.totalBytes then hmcpWrite e data = none
    else ∃ e', hmcpWrite e data = some (data.length, e') ∧ e'.posn = e.posn + data.length ∧
      e'.dd = e.dd ∧ e'.ntSize = e.ntSize ∧ e'.length = e.length ∧
      Sim e.dd e.ntSize e.totalBytes e'.store (flatWrite f e.posn data) := by
  obtain ⟨hw, hnn, hnt, hl⟩ := he
  by_cases hbad : data = [] ∨ e.posn + data.length > e.totalBytes
  · simp only [hbad, if_true]
    rcases hbad with h0 | h1
    · simp [hmcpWrite, h0]
    · have : (data.length : Int) > (e.totalBytes : Int) - e.posn := by omega
      simp only [hmcpWrite, this, if_true]
      split <;> rfl
  · simp only [hbad, if_false]
    have hne : data ≠ [] := fun h => hbad (Or.inl h)
    have hr : e.posn + data.length ≤ e.totalBytes := by omega
    have ht := walk_tiles hw hnn hnt e.posn data.length
    have hsz := tiles_sizes ht
    have hlen : (data.length == 0) = false := by
      cases data with
      | nil => exact absurd rfl hne
      | cons _ _ => rfl
    have hin : ¬ ((data.length : Int) > (e.totalBytes : Int) - e.posn) := by omega
    refine ⟨{ e with store := writePieces e.store (walk e.dd e.ntSize e.posn data.length) data,
                     posn := e.posn + data.length }, ?_, rfl, rfl, rfl, rfl, ?_⟩
    · simp only [hmcpWrite, hlen, Bool.false_eq_true, if_false, hin, hsz]
    · have hT : e.totalBytes = (dimsOf e.dd).prod * e.ntSize := by simp only [Elem.totalBytes, hl]
      rw [hT] at hs hr ⊢
      exact write_sim hw hnt ht hr hs

/-- number of bytes `HMCPread(length)` delivers from position `posn` of an element of `total` bytes:
    `length == 0` means "to the end", a request past the end is clamped, nothing at/after the end -/
def readCount (total posn : Nat) (length : Int) : Nat :=
  if length = 0 ∨ (posn : Int) + length > total then total - posn else length.toNat

/-- `HMCPread`, every case: a negative length FAILS; otherwise — at ANY byte position, also at/after the end — the
    bytes delivered are those of the flat array at `[posn, posn+n)`, `n = readCount …`, and `posn` advances by `n` -/
theorem hmcpRead_spec {e : Elem} (he : ElemOK e) {f : Nat → UInt8}
    (hs : Sim e.dd e.ntSize e.totalBytes e.store f) (length : Int) :
    hmcpRead e length =
      if length < 0 then none
      else some ((List.range' e.posn (readCount e.totalBytes e.posn length)).map f,
                 { e with posn := e.posn + readCount e.totalBytes e.posn length }) := by
  obtain ⟨hw, hnn, hnt, hl⟩ := he
  by_cases hneg : length < 0
  · simp [hmcpRead, hneg]
  · have hn : ((if ((e.posn : Int) + (if (length == 0) = true then (e.totalBytes : Int) - e.posn else length)
          > e.totalBytes) then (e.totalBytes : Int) - e.posn
        else (if (length == 0) = true then (e.totalBytes : Int) - e.posn else length)) : Int).toNat
        = readCount e.totalBytes e.posn length := by
      simp only [readCount, beq_iff_eq]
      by_cases h0 : length = 0
      · subst h0; simp <;> omega
      · simp only [h0, if_false, false_or]
        by_cases hgt : (e.posn : Int) + length > e.totalBytes
        · simp only [hgt, if_true]; omega
        · simp only [hgt, if_false]
    have hle : e.posn + readCount e.totalBytes e.posn length ≤ e.totalBytes ∨ readCount e.totalBytes e.posn length = 0 := by
      simp only [readCount]; split <;> omega
    have ht := walk_tiles hw hnn hnt e.posn (readCount e.totalBytes e.posn length)
    simp only [hmcpRead, hneg, if_false, hn, tiles_sizes ht]
    rcases hle with hle | h0
    · rw [read_sim hs ht hle]
    · rw [h0] at ht ⊢
      cases hwk : walk e.dd e.ntSize e.posn 0 with
      | nil => simp [readPieces]
      | cons pc ps =>
        rw [hwk] at ht
        obtain ⟨_, h2, h3, _, _⟩ := ht
        omega

/-! ## the chunked element as the application sees it: any operation sequence, no exclusions -/

/-- one H-level call on the chunked element -/
inductive Op where
  | seek (offset : Int) (origin : Nat)     -- `Hseek`, origin 0/1/2 = DF_START/DF_CURRENT/DF_END
  | write (data : List UInt8)              -- `Hwrite`
  | read (length : Int)                    -- `Hread`

/-- what the call returns -/
inductive Out where
  | posn (n : Nat)
  | wrote (n : Nat)
  | bytes (l : List UInt8)
  | fail
deriving DecidableEq

/-- the chunked element (model of `HMCPseek`/`HMCPwrite`/`HMCPread`) -/
def elemStep (e : Elem) : Op → Elem × Out
  | .seek off origin => match hmcpSeek e off origin with
    | some e' => (e', .posn e'.posn)
    | none => (e, .fail)
  | .write data => match hmcpWrite e data with
    | some (n, e') => (e', .wrote n)
    | none => (e, .fail)
  | .read len => match hmcpRead e len with
    | some (l, e') => (e', .bytes l)
    | none => (e, .fail)

/-- SPEC: a fixed-size flat byte array of `total` bytes with a position -/
structure Flat where
  f : Nat → UInt8
  posn : Nat

def flatStep (total : Nat) (s : Flat) : Op → Flat × Out
  | .seek off origin =>
    let o := seekTarget total s.posn off origin
    if o < 0 then (s, .fail) else ({ s with posn := o.toNat }, .posn o.toNat)
  | .write data =>
    if data = [] ∨ s.posn + data.length > total then (s, .fail)
    else ({ f := flatWrite s.f s.posn data, posn := s.posn + data.length }, .wrote data.length)
  | .read len =>
    if len < 0 then (s, .fail)
    else ({ s with posn := s.posn + readCount total s.posn len },
          .bytes ((List.range' s.posn (readCount total s.posn len)).map s.f))

def runElem (e : Elem) : List Op → List Out
  | [] => []
  | op :: ops => (elemStep e op).2 :: runElem (elemStep e op).1 ops

def runFlatOps (total : Nat) (s : Flat) : List Op → List Out
  | [] => []
  | op :: ops => (flatStep total s op).2 :: runFlatOps total (flatStep total s op).1 ops

/-- **Every** sequence of `Hseek`/`Hwrite`/`Hread` calls — any origin and offset, any position (aligned or not, inside
    or past the end), any length (zero, negative, past the end) — returns on the chunked element exactly what it returns
    on a fixed-size flat byte array: writes that do not fit fail and change nothing, reads are clamped. -/
theorem chunked_element_refines_flat (ops : List Op) : ∀ {e : Elem} {s : Flat}, ElemOK e →
    Sim e.dd e.ntSize e.totalBytes e.store s.f → e.posn = s.posn →
    runElem e ops = runFlatOps e.totalBytes s ops := by
  induction ops with
  | nil => intros; rfl
  | cons op ops ih =>
    intro e s he hs hp
    have key : (elemStep e op).2 = (flatStep e.totalBytes s op).2 ∧ ElemOK (elemStep e op).1 ∧
        (elemStep e op).1.totalBytes = e.totalBytes ∧
        Sim (elemStep e op).1.dd (elemStep e op).1.ntSize e.totalBytes (elemStep e op).1.store
          (flatStep e.totalBytes s op).1.f ∧
        (elemStep e op).1.posn = (flatStep e.totalBytes s op).1.posn := by
      cases op with
      | seek off origin =>
        simp only [elemStep, flatStep, hmcpSeek_eq, ← hp]
        by_cases hn : seekTarget e.totalBytes e.posn off origin < 0
        · simp only [hn, if_true]
          refine ⟨?_, ?_, ?_, ?_, ?_⟩ <;> first | trivial | rfl | exact he | exact hs | exact hp
        · simp only [hn, if_false]
          refine ⟨?_, ?_, ?_, ?_, ?_⟩ <;> first | trivial | rfl | exact he | exact hs | exact hp
      | write data =>
        have hw := hmcpWrite_spec he hs data
        simp only [elemStep, flatStep, ← hp]
        by_cases hbad : data = [] ∨ e.posn + data.length > e.totalBytes
        · simp only [hbad, if_true] at hw ⊢
          rw [hw]; exact ⟨rfl, he, rfl, hs, hp⟩
        · simp only [hbad, if_false] at hw ⊢
          obtain ⟨e', h1, h2, h3, h4, h5, h6⟩ := hw
          rw [h1]
          refine ⟨rfl, ?_, ?_, ?_, h2⟩
          · obtain ⟨a, b, c, d⟩ := he
            exact ⟨h3 ▸ a, h3 ▸ b, h4 ▸ c, by rw [h5, h3]; exact d⟩
          · simp only [Elem.totalBytes, h4, h5]
          · rw [h3, h4]; exact h6
      | read len =>
        have hr := hmcpRead_spec he hs len
        simp only [elemStep, flatStep, ← hp]
        by_cases hneg : len < 0
        · simp only [hneg, if_true] at hr ⊢
          rw [hr]; exact ⟨rfl, he, rfl, hs, hp⟩
        · simp only [hneg, if_false] at hr ⊢
          rw [hr]
          exact ⟨rfl, he, rfl, hs, rfl⟩
    obtain ⟨k1, k2, k3, k4, k5⟩ := key
    show (elemStep e op).2 :: runElem (elemStep e op).1 ops = (flatStep e.totalBytes s op).2 :: runFlatOps e.totalBytes _ ops
    rw [k1, ih k2 (by rw [k3]; exact k4) k5, k3]

/-! ## array indices ↔ (chunk indices, position in chunk) -/

/-- in-range array indices → byte seek → `update_chunk_indices_seek` gives a real (non-ghost) chunk cell, and
    `compute_chunk_to_array` brings the array indices back -/
theorem array_chunk_roundtrip {dims cdims : List Nat} {nt : Nat} (hg : GeomOK dims cdims nt)
    (arr : List Nat) (ha : Below arr dims) :
    CoordOK (mkDims dims cdims)
      (updateChunkIndicesSeek (mkDims dims cdims) nt (computeArrayToSeek (mkDims dims cdims) nt arr)).1
      (updateChunkIndicesSeek (mkDims dims cdims) nt (computeArrayToSeek (mkDims dims cdims) nt arr)).2 ∧
    computeChunkToArray (mkDims dims cdims)
      (updateChunkIndicesSeek (mkDims dims cdims) nt (computeArrayToSeek (mkDims dims cdims) nt arr)).1
      (updateChunkIndicesSeek (mkDims dims cdims) nt (computeArrayToSeek (mkDims dims cdims) nt arr)).2 = arr := by
  obtain ⟨hw, hne, hD, _, hnt⟩ := hg.dd
  obtain ⟨pD, _, _⟩ := ddwf_pos hw
  have ha' : Below arr (dimsOf (mkDims dims cdims)) := by rw [hD]; exact ha
  have hdg := digits_lin pD ha' 0
  simp only [Nat.zero_mul, Nat.add_zero] at hdg
  have e1 : updateChunkIndicesSeek (mkDims dims cdims) nt (computeArrayToSeek (mkDims dims cdims) nt arr)
      = (sbiOf (mkDims dims cdims) arr, spbOf (mkDims dims cdims) arr) := by
    show (ucisLoop (mkDims dims cdims) ((lin (dimsOf (mkDims dims cdims)) arr).2 * nt / nt)).2 = _
    rw [Nat.mul_div_cancel _ hnt, ucisLoop_eq, hdg]
  rw [e1]
  exact ⟨coord_of_array hw ha', c2a_of_array hw ha'⟩

/-- a real chunk cell → `compute_chunk_to_array` gives in-range array indices, and seeking there gives the cell back -/
theorem chunk_array_roundtrip {dims cdims : List Nat} {nt : Nat} (hg : GeomOK dims cdims nt)
    (sbi spb : List Nat) (hc : CoordOK (mkDims dims cdims) sbi spb) :
    Below (computeChunkToArray (mkDims dims cdims) sbi spb) dims ∧
    updateChunkIndicesSeek (mkDims dims cdims) nt
      (computeArrayToSeek (mkDims dims cdims) nt (computeChunkToArray (mkDims dims cdims) sbi spb)) = (sbi, spb) := by
  obtain ⟨hw, hne, hD, _, hnt⟩ := hg.dd
  obtain ⟨pD, _, _⟩ := ddwf_pos hw
  obtain ⟨hb, h1, h2⟩ := array_of_coord hw hc
  have hdg := digits_lin pD hb 0
  simp only [Nat.zero_mul, Nat.add_zero] at hdg
  have hb' : Below (computeChunkToArray (mkDims dims cdims) sbi spb) dims := by
    have := hb; rw [hD] at this; exact this
  refine ⟨hb', ?_⟩
  show (ucisLoop (mkDims dims cdims)
    ((lin (dimsOf (mkDims dims cdims)) (computeChunkToArray (mkDims dims cdims) sbi spb)).2 * nt / nt)).2 = _
  rw [Nat.mul_div_cancel _ hnt, ucisLoop_eq, hdg, h1, h2]

/-- element number → indices → array → seek is the identity (in bytes) -/
theorem seek_array_roundtrip {dims cdims : List Nat} {nt : Nat} (hg : GeomOK dims cdims nt) (e : Nat) (he : e < dims.prod) :
    computeArrayToSeek (mkDims dims cdims) nt
      (computeChunkToArray (mkDims dims cdims) (updateChunkIndicesSeek (mkDims dims cdims) nt (e * nt)).1
        (updateChunkIndicesSeek (mkDims dims cdims) nt (e * nt)).2) = e * nt := by
  obtain ⟨hw, hne, hD, _, hnt⟩ := hg.dd
  obtain ⟨pD, _, _⟩ := ddwf_pos hw
  obtain ⟨hb, _⟩ := digits_spec pD e
  have hv := (digits_of_lt pD (by rw [hD]; exact he)).2
  have e1 : updateChunkIndicesSeek (mkDims dims cdims) nt (e * nt)
      = (sbiOf (mkDims dims cdims) (digits (dimsOf (mkDims dims cdims)) e).2,
         spbOf (mkDims dims cdims) (digits (dimsOf (mkDims dims cdims)) e).2) := by
    show (ucisLoop (mkDims dims cdims) (e * nt / nt)).2 = _
    rw [Nat.mul_div_cancel _ hnt, ucisLoop_eq]
  rw [e1]
  simp only []
  rw [c2a_of_array hw hb]
  show (lin (dimsOf (mkDims dims cdims)) _).2 * nt = _
  rw [hv]

example : GeomOK [4, 7, 3] [3, 2, 5] 8 ∧ Below [3, 6, 2] [4, 7, 3] ∧
    CoordOK (mkDims [4, 7, 3] [3, 2, 5]) [1, 3, 0] [0, 0, 2] := by decide
/-- a GHOST cell (position 2 in the last chunk of a 4-long dimension cut in 3s, which holds 1 real element) is clamped
    by `compute_chunk_to_array` to index 4 = one past the end: ghost cells correspond to no array element -/
example : ¬ CoordOK (mkDims [4] [3]) [1] [2] ∧ computeChunkToArray (mkDims [4] [3]) [1] [2] = [4] := by decide

/-! ## position after whole-chunk I/O -/

theorem uspcLoop_mul_prod (dd : List DimRec) (hp : AllPos (cdimsOf dd)) (q : Nat) :
    uspcLoop dd (q * (cdimsOf dd).prod) = (q, List.replicate dd.length 0) := by
  induction dd generalizing q with
  | nil => simp [uspcLoop]
  | cons d ds ih =>
    simp only [List.map_cons, allPos_cons] at hp
    have e : q * (cdimsOf (d :: ds)).prod = (q * d.chunkLength) * (cdimsOf ds).prod := by
      simp only [List.map_cons, List.prod_cons]; grind
    rw [e, uspcLoop, ih hp.2]
    simp only [Nat.mul_div_cancel _ hp.1, Nat.mul_mod_left, List.length_cons, List.replicate_succ]

theorem c2a_zero (dd : List DimRec) (origin : List Nat) (hl : origin.length = dd.length) :
    computeChunkToArray dd origin (List.replicate dd.length 0) = List.zipWith (· * ·) origin (cdimsOf dd) := by
  induction dd generalizing origin with
  | nil => simp [computeChunkToArray]
  | cons d ds ih =>
    cases origin with
    | nil => simp at hl
    | cons b bs =>
      simp only [List.length_cons, List.replicate_succ, c2a_cons, List.map_cons, List.zipWith_cons_cons]
      rw [ih bs (by simpa using hl)]
      congr 1
      split <;> simp

/-- position left in `access_rec->posn` by `HMCreadChunk`/`HMCwriteChunk(origin)`: the byte position of the first
    element of that chunk (`origin[i] · chunk_length[i]` in every dimension) -/
theorem chunk_io_posn {dims cdims : List Nat} {nt : Nat} (hg : GeomOK dims cdims nt) (origin : List Nat)
    (hl : origin.length = dims.length) :
    chunkIOPosn (mkDims dims cdims) nt cdims.prod origin =
      computeArrayToSeek (mkDims dims cdims) nt (List.zipWith (· * ·) origin cdims) := by
  obtain ⟨hw, hne, hD, hC, hnt⟩ := hg.dd
  obtain ⟨_, pC, _⟩ := ddwf_pos hw
  have hlen : (mkDims dims cdims).length = dims.length := by
    have := congrArg List.length hD; simpa using this
  have h1 := uspcLoop_mul_prod (mkDims dims cdims) pC 1
  rw [Nat.one_mul, hC] at h1
  unfold chunkIOPosn updateSeekPosChunk
  rw [Nat.mul_div_cancel _ hnt, h1]
  simp only []
  rw [c2a_zero _ _ (by rw [hlen]; exact hl), hC]

example : chunkIOPosn (mkDims [5, 7] [2, 3]) 4 6 [2, 1] = (4 * 7 + 3) * 4 := by decide

/-! ## the two former counter-examples (findings `chunk-unaligned-access`, `chunk-write-past-end`) after the repair -/

/-- unaligned start: 4 elements of 4 bytes in chunks of 2 (a chunk row = 8 bytes); reading 4 bytes from byte 2 now
    touches the buffer bytes of positions 2..5 (before the repair: 0..3): ONE piece of 4 bytes at seek 0 + elem_off 2 -/
example : (walk (mkDims [4] [2]) 4 2 4).flatMap Piece.addrs = (List.range' 2 4).map (byteAddr (mkDims [4] [2]) 4) ∧
    (walk (mkDims [4] [2]) 4 2 4).map (fun pc => (pc.pos, pc.chunk, pc.seek, pc.size)) = [(2, 0, 2, 4)] := by decide

/-- unaligned start crossing a chunk-row end: 3 bytes left in the row, then aligned pieces -/
example : (walk (mkDims [4] [2]) 4 5 9).map (fun pc => (pc.pos, pc.chunk, pc.seek, pc.size)) = [(5, 0, 5, 3), (8, 1, 0, 6)] := by
  decide

/-- past the end: a 16-byte element at position 16 refuses an 8-byte write (before the repair it returned 8 and
    overwrote bytes 0..7), also one straddling the end; a write ending exactly at the end succeeds -/
example :
    let e : Elem := { dd := mkDims [4] [2], ntSize := 4, length := 4, store := initStore [0], posn := 16 }
    hmcpWrite e [1, 2, 3, 4, 5, 6, 7, 8] = none ∧ hmcpWrite { e with posn := 12 } [1, 2, 3, 4, 5, 6, 7, 8] = none ∧
    (hmcpWrite { e with posn := 9 } [1, 2, 3, 4, 5, 6, 7]).map (·.1) = some 7 := by decide

/-- `chunked_element_refines_flat` on a concrete history: unaligned write, refused write past the end, read to the end -/
example :
    let e : Elem := { dd := mkDims [3, 5] [2, 2], ntSize := 2, length := 15, store := initStore [0xAA, 0xBB] }
    runElem e [.seek 3 0, .write [1, 2, 3, 4, 5], .seek (-2) 2, .write [9, 9, 9], .seek 1 0, .read 9, .read 0, .read (-1)]
      = [.posn 3, .wrote 5, .posn 28, .fail, .posn 1, .bytes [0xBB, 0xAA, 1, 2, 3, 4, 5, 0xAA, 0xBB],
         .bytes [0xAA, 0xBB, 0xAA, 0xBB, 0xAA, 0xBB, 0xAA, 0xBB, 0xAA, 0xBB, 0xAA, 0xBB, 0xAA, 0xBB, 0xAA, 0xBB, 0xAA, 0xBB,
                 0xAA, 0xBB], .fail] := by decide

end H4.Props.C04
