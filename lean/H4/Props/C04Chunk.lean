import H4.Lemmas.Chunk
/-! # C04 — storage layout never changes the data: chunk address arithmetic of `hchunks.c` (property theorems)

All statements hold for EVERY rank ≥ 1 (rank = list length), every `dims` and `cdims` with positive entries — chunk
lengths that divide, do not divide, equal or exceed the dimension — and every `nt_size > 0`.
`dd = mkDims dims cdims` is the `DIM_REC` array `HMCcreate`/`HMCIstaccess` build.
Units: positions `p`, `pos`, lengths `len`, `k` and seeks are BYTES; `e`, `arr`, `sbi`, `spb` are ELEMENT indices.

Preconditions found necessary (the C misbehaves outside them, see the `example`s at the end and REPORT.md):
 * a transfer must START on an element boundary (`pos % nt_size = 0`); its LENGTH may be any number of bytes;
 * for the refinement of a flat byte array the transfer must end inside the element (`pos + len ≤ Π dims · nt_size`):
   `HMCPwrite` does not check this and wraps around to the start of the element. -/
namespace H4.Props.C04
open H4.Chunk

/-- rank ≥ 1, one chunk length per dimension, all entries > 0, `nt_size > 0` -/
def GeomOK (dims cdims : List Nat) (nt : Nat) : Prop :=
  dims ≠ [] ∧ dims.length = cdims.length ∧ AllPos dims ∧ AllPos cdims ∧ 0 < nt

instance (dims cdims : List Nat) (nt : Nat) : Decidable (GeomOK dims cdims nt) := by
  unfold GeomOK; infer_instance

theorem GeomOK.dd {dims cdims : List Nat} {nt : Nat} (hg : GeomOK dims cdims nt) :
    DDWF (mkDims dims cdims) ∧ mkDims dims cdims ≠ [] ∧ dimsOf (mkDims dims cdims) = dims ∧
    cdimsOf (mkDims dims cdims) = cdims ∧ 0 < nt := by
  obtain ⟨h1, h2, h3, h4, h5⟩ := hg
  obtain ⟨a, b, c⟩ := mkDims_spec h2 h3 h4
  refine ⟨a, ?_, b, c, h5⟩
  intro hnil
  rw [hnil] at b
  exact h1 b.symm

/-- `DIM_REC` set-up of `HMCcreate`: `num_chunks = ⌈dim/chunk⌉` and the chunks tile the dimension with a last chunk
    of `last_chunk_length ∈ (0, chunk_length]` real elements (the rest of that chunk is "ghost") -/
theorem dimrec_setup {d c : Nat} (hd : 0 < d) (hc : 0 < c) :
    (mkDimRec d c).dimLength = d ∧ (mkDimRec d c).chunkLength = c ∧ 0 < (mkDimRec d c).numChunks ∧
    ((mkDimRec d c).numChunks - 1) * c < d ∧ d ≤ (mkDimRec d c).numChunks * c ∧
    0 < (mkDimRec d c).lastChunkLength ∧ (mkDimRec d c).lastChunkLength ≤ c ∧
    ((mkDimRec d c).numChunks - 1) * c + (mkDimRec d c).lastChunkLength = d := by
  obtain ⟨⟨w1, w2, w3, w4, w5⟩, wd, wc⟩ := mkDimRec_wf hd hc
  rw [wc] at w3 w5
  rw [wd] at w5
  refine ⟨wd, wc, w4, by omega, ?_, w2, w3, w5⟩
  obtain ⟨n, hn⟩ : ∃ n, (mkDimRec d c).numChunks = n + 1 := ⟨(mkDimRec d c).numChunks - 1, by omega⟩
  rw [hn] at w5 ⊢
  simp only [Nat.add_sub_cancel] at w5
  have : (n + 1) * c = n * c + c := by grind
  omega

example : mkDimRec 10 4 = { dimLength := 10, chunkLength := 4, numChunks := 3, lastChunkLength := 2 } := by decide
example : mkDimRec 3 5 = { dimLength := 3, chunkLength := 5, numChunks := 1, lastChunkLength := 3 } := by decide

/-- chunk number of element `e` (`update_chunk_indices_seek` + `calculate_chunk_num`) -/
def chunkNum (dims cdims : List Nat) (nt e : Nat) : Nat := chunkNumAt (mkDims dims cdims) nt (e * nt)
/-- byte offset of element `e` inside its chunk buffer (`update_chunk_indices_seek` + `calculate_seek_in_chunk`) -/
def seekInChunk (dims cdims : List Nat) (nt e : Nat) : Nat := seekAt (mkDims dims cdims) nt (e * nt)

/-- distinct elements get distinct (chunk number, seek in chunk) pairs; the chunk number is below `Π num_chunks` and the
    whole element lies inside the `Π cdims · nt_size` bytes of a chunk buffer (a chunk always occupies a full
    buffer, also when it is a partial "ghost" chunk at the edge). -/
theorem chunk_addr_inj {dims cdims : List Nat} {nt : Nat} (hg : GeomOK dims cdims nt) :
    (∀ e1 e2, e1 < dims.prod → e2 < dims.prod → e1 ≠ e2 →
      (chunkNum dims cdims nt e1, seekInChunk dims cdims nt e1) ≠ (chunkNum dims cdims nt e2, seekInChunk dims cdims nt e2)) ∧
    (∀ e, e < dims.prod →
      chunkNum dims cdims nt e < (nchunksOf (mkDims dims cdims)).prod ∧
      seekInChunk dims cdims nt e % nt = 0 ∧ seekInChunk dims cdims nt e + nt ≤ cdims.prod * nt) := by
  obtain ⟨hw, hne, hD, hC, hnt⟩ := hg.dd
  obtain ⟨pD, pC, pN⟩ := ddwf_pos hw
  constructor
  · intro e1 e2 h1 h2 hne12 heq
    apply hne12
    obtain ⟨hc, hs⟩ := Prod.mk.inj heq
    simp only [chunkNum, seekInChunk, chunkNumAt, seekAt, updateChunkIndicesSeek, calculateSeekInChunk,
      Nat.mul_div_cancel _ hnt] at hc hs
    exact elem_addr_inj hw (by rw [hD]; exact h1) (by rw [hD]; exact h2) hc (Nat.eq_of_mul_eq_mul_right hnt hs)
  · intro e he
    simp only [chunkNum, seekInChunk, chunkNumAt, seekAt, updateChunkIndicesSeek, calculateSeekInChunk,
      calculateChunkNum, Nat.mul_div_cancel _ hnt, ucisLoop_eq]
    obtain ⟨hb, _⟩ := digits_spec pD e
    obtain ⟨sb, pb⟩ := sbi_spb_below hw hb
    have l1 := lin_lt sb
    have l2 := lin_lt pb
    have hC' : List.map (fun x => x.chunkLength) (mkDims dims cdims) = cdims := hC
    rw [hC] at l2
    refine ⟨l1, Nat.mul_mod_left _ _, ?_⟩
    rw [hC']
    calc _ = ((lin cdims (spbOf (mkDims dims cdims) (digits (dimsOf (mkDims dims cdims)) e).2)).2 + 1) * nt := by grind
      _ ≤ cdims.prod * nt := Nat.mul_le_mul_right _ l2

/-- 2-D, 5×7 in 2×3 chunks (neither divides): all 35 elements get distinct in-range addresses -/
example : GeomOK [5, 7] [2, 3] 4 := by decide
example : ((List.range 35).map fun e => (chunkNum [5, 7] [2, 3] 4 e, seekInChunk [5, 7] [2, 3] 4 e)).Nodup := by decide

/-- The piece length returned by `calculate_chunk_for_chunk` at an element-aligned byte position `p` with bytes
    remaining (`done < len`): positive, at most what remains, does not cross the end of the current chunk row of the
    fastest dimension nor the end of that dimension (partial last chunk), is the LONGEST such prefix, and its bytes
    occupy consecutive addresses of ONE chunk buffer: byte `p + j` lives at `(chunk_num, seek + j)`. -/
theorem chunk_piece_contiguous {dims cdims : List Nat} {nt : Nat} (hg : GeomOK dims cdims nt)
    (p len done : Nat) (hal : p % nt = 0) (hrem : done < len) :
    let dd := mkDims dims cdims
    let ix := updateChunkIndicesSeek dd nt p
    let dl := dd.getLastD default                 -- fastest dimension
    let a := (p / nt) % dl.dimLength              -- array index in the fastest dimension
    ∃ k : Nat, calculateChunkForChunk dd nt len done ix.1 ix.2 = (k : Int) ∧
      0 < k ∧ k ≤ len - done ∧
      (a % dl.chunkLength) * nt + k ≤ dl.chunkLength * nt ∧
      a * nt + k ≤ dl.dimLength * nt ∧
      (k = len - done ∨ (a % dl.chunkLength) * nt + k = dl.chunkLength * nt ∨ a * nt + k = dl.dimLength * nt) ∧
      ∀ j, j < k → byteAddr dd nt (p + j) = (chunkNumAt dd nt p, seekAt dd nt p + j) := by
  intro dd ix dl a
  obtain ⟨hw, hne, _, _, hnt⟩ := hg.dd
  exact piece_props hw hne hnt p len done hal hrem

/-- 3×7 array of 2-byte elements in 2×3 chunks, at element (1,6) (last, partial chunk of the row: 1 element left):
    a 20-byte transfer gets a 2-byte piece -/
example : calculateChunkForChunk (mkDims [3, 7] [2, 3]) 2 20 0
    (updateChunkIndicesSeek (mkDims [3, 7] [2, 3]) 2 26).1 (updateChunkIndicesSeek (mkDims [3, 7] [2, 3]) 2 26).2 = 2 := by decide

/-- The `HMCPread`/`HMCPwrite` loop for a transfer of `len` bytes (ANY `len`) at an element-aligned byte position
    `pos`: the pieces cover the byte range `[pos, pos+len)` exactly once and in order, every piece is non-empty, and the
    chunk-buffer addresses the `memcpy`s touch, in order, are exactly the addresses of bytes `pos, pos+1, …` of the
    element. (No upper bound on `pos + len` is needed for THIS statement: past the end `byteAddr` itself wraps, which
    is what the C does; the bound is needed for injectivity, see `chunked_refines_bytes`.) -/
theorem chunk_walk_tiles {dims cdims : List Nat} {nt : Nat} (hg : GeomOK dims cdims nt)
    (pos len : Nat) (hal : pos % nt = 0) :
    let dd := mkDims dims cdims
    let ps := walk dd nt pos len
    ps.flatMap (fun pc => List.range' pc.pos pc.size) = List.range' pos len ∧
    ps.flatMap Piece.addrs = (List.range' pos len).map (byteAddr dd nt) ∧
    (∀ pc ∈ ps, 0 < pc.size) ∧ (ps.map (·.size)).sum = len := by
  intro dd ps
  obtain ⟨hw, hne, _, _, hnt⟩ := hg.dd
  have ht := walk_tiles hw hne hnt hal len
  exact ⟨tiles_positions ht, tiles_addrs ht, tiles_pos ht, tiles_sizes ht⟩

/-- 5×7 bytes in 2×3 chunks, 20 bytes from position 4: nine pieces, cut at every chunk-row end and at the row end -/
example : (walk (mkDims [5, 7] [2, 3]) 1 4 20).map (fun pc => (pc.pos, pc.chunk, pc.seek, pc.size)) =
    [(4, 1, 1, 2), (6, 2, 0, 1), (7, 0, 3, 3), (10, 1, 3, 3), (13, 2, 3, 1), (14, 3, 0, 3), (17, 4, 0, 3), (20, 5, 0, 1), (21, 3, 3, 3)] := by
  decide

/-! ## the chunked element refines a flat byte array -/

/-- `Hseek(pos); Hwrite(data)` -/
structure WriteOp where
  pos : Nat
  data : List UInt8

/-- starts on an element boundary and ends inside the element -/
def WriteOp.OK (dims : List Nat) (nt : Nat) (w : WriteOp) : Prop :=
  w.pos % nt = 0 ∧ w.pos + w.data.length ≤ dims.prod * nt

instance (dims : List Nat) (nt : Nat) (w : WriteOp) : Decidable (w.OK dims nt) := by
  unfold WriteOp.OK; infer_instance

/-- the chunk buffers after a sequence of writes through the `HMCPwrite` piece walk -/
def runChunked (dd : List DimRec) (nt : Nat) (st : Store) (ops : List WriteOp) : Store :=
  ops.foldl (fun st w => writePieces st (walk dd nt w.pos w.data.length) w.data) st

/-- SPEC: the same writes on a flat byte array -/
def runFlat (f : Nat → UInt8) (ops : List WriteOp) : Nat → UInt8 :=
  ops.foldl (fun f w => flatWrite f w.pos w.data) f

/-- the byte last written at position `q`, if any -/
def lastWrite : List WriteOp → Nat → Option UInt8
  | [], _ => none
  | w :: ws, q =>
    match lastWrite ws q with
    | some b => some b
    | none => if w.pos ≤ q ∧ q < w.pos + w.data.length then some (w.data.getD (q - w.pos) 0) else none

/-- the flat array holds, at every position, the byte of the LAST write covering it, else the initial (fill) byte -/
theorem runFlat_last_write (f : Nat → UInt8) (ops : List WriteOp) (q : Nat) :
    runFlat f ops q = (lastWrite ops q).getD (f q) := by
  induction ops generalizing f with
  | nil => rfl
  | cons w ws ih =>
    show runFlat (flatWrite f w.pos w.data) ws q = _
    rw [ih, lastWrite]
    cases lastWrite ws q with
    | some b => rfl
    | none =>
      simp only [Option.getD_none, flatWrite]
      split <;> rfl

/-- one `HMCPwrite` keeps the refinement, one `HMCPread` returns the flat array's bytes -/
theorem write_read_refine {dims cdims : List Nat} {nt : Nat} (hg : GeomOK dims cdims nt)
    {st : Store} {f : Nat → UInt8} (hs : Sim (mkDims dims cdims) nt (dims.prod * nt) st f) :
    (∀ w : WriteOp, w.OK dims nt →
      Sim (mkDims dims cdims) nt (dims.prod * nt)
        (writePieces st (walk (mkDims dims cdims) nt w.pos w.data.length) w.data) (flatWrite f w.pos w.data)) ∧
    (∀ pos len, pos % nt = 0 → pos + len ≤ dims.prod * nt →
      readPieces st (walk (mkDims dims cdims) nt pos len) = (List.range' pos len).map f) := by
  obtain ⟨hw, hne, hD, _, hnt⟩ := hg.dd
  constructor
  · intro w ⟨hal, hr⟩
    have ht := walk_tiles hw hne hnt hal w.data.length
    have := write_sim hw hnt ht (by rw [hD]; exact hr) (by rw [hD]; exact hs)
    rw [hD] at this; exact this
  · intro pos len hal hr
    exact read_sim hs (walk_tiles hw hne hnt hal len) hr

/-- **Chunked storage behaves as the same byte array as contiguous storage.**
    Start from a never-written element (every chunk reads as the fill pattern), perform ANY sequence of writes through
    the `HMCPwrite` piece walk into the map chunk number ↦ chunk buffer, then read ANY range back through the
    `HMCPread` piece walk: the result is what the same writes leave in a flat byte array, i.e. the last written byte
    at each position and the fill byte where nothing was written (`runFlat_last_write`). For every rank, every
    dims/cdims (dividing or not), every `nt_size`; transfers start element-aligned and end inside the element. -/
theorem chunked_refines_bytes {dims cdims : List Nat} {nt : Nat} (hg : GeomOK dims cdims nt)
    (fill : List UInt8) (hf : fill.length ∣ nt)
    (ops : List WriteOp) (hops : ∀ w ∈ ops, w.OK dims nt)
    (rpos rlen : Nat) (hal : rpos % nt = 0) (hr : rpos + rlen ≤ dims.prod * nt) :
    readPieces (runChunked (mkDims dims cdims) nt (initStore fill) ops) (walk (mkDims dims cdims) nt rpos rlen)
      = (List.range' rpos rlen).map (runFlat (fillAt fill) ops) := by
  have key : ∀ (ops : List WriteOp) (st : Store) (f : Nat → UInt8), (∀ w ∈ ops, w.OK dims nt) →
      Sim (mkDims dims cdims) nt (dims.prod * nt) st f →
      Sim (mkDims dims cdims) nt (dims.prod * nt) (runChunked (mkDims dims cdims) nt st ops) (runFlat f ops) := by
    intro ops
    induction ops with
    | nil => intro st f _ hs; exact hs
    | cons w ws ih =>
      intro st f hok hs
      exact ih _ _ (fun x hx => hok x (List.mem_cons_of_mem _ hx))
        ((write_read_refine hg hs).1 w (hok w (List.mem_cons_self)))
  exact (write_read_refine hg (key ops _ _ hops (sim_init hf))).2 rpos rlen hal hr

/-- non-vacuity: 3×5 array of 2-byte elements in 2×2 chunks (neither divides), two overlapping writes crossing
    chunk and row boundaries, read back across the whole element -/
example : GeomOK [3, 5] [2, 2] 2 ∧ (∀ w ∈ [WriteOp.mk 4 [1, 2, 3, 4, 5, 6, 7, 8, 9, 10, 11, 12, 13], WriteOp.mk 12 [21, 22, 23]],
    w.OK [3, 5] 2) := by decide
example : readPieces (runChunked (mkDims [3, 5] [2, 2]) 2 (initStore [0xAA, 0xBB])
      [⟨4, [1, 2, 3, 4, 5, 6, 7, 8, 9, 10, 11, 12, 13]⟩, ⟨12, [21, 22, 23]⟩]) (walk (mkDims [3, 5] [2, 2]) 2 0 30)
    = [0xAA, 0xBB, 0xAA, 0xBB, 1, 2, 3, 4, 5, 6, 7, 8, 21, 22, 23, 12, 13, 0xBB, 0xAA, 0xBB, 0xAA, 0xBB, 0xAA, 0xBB,
       0xAA, 0xBB, 0xAA, 0xBB, 0xAA, 0xBB] := by decide

/-! ## `HMCPseek` / `HMCPread` / `HMCPwrite` on the access record -/

/-- geometry carried by an access record is the one `HMCcreate` builds -/
def ElemOK (e : Elem) : Prop :=
  DDWF e.dd ∧ e.dd ≠ [] ∧ 0 < e.ntSize ∧ e.length = (dimsOf e.dd).prod

/-- the `Hseek` origins used by `HMCPseek`, as generated from hdf.h (Tie A) -/
theorem consts : H4.Gen.Hdf.DF_START = 0 ∧ H4.Gen.Hdf.DF_CURRENT = 1 ∧ H4.Gen.Hdf.DF_END = 2 := by decide

/-- `HMCPseek`: `DF_START`/`DF_CURRENT`/`DF_END` (end = `length·nt_size`); only a negative result fails;
    nothing but `posn` changes -/
theorem hmcpSeek_spec (e : Elem) (offset : Int) :
    (hmcpSeek e offset 0 = if offset < 0 then none else some { e with posn := offset.toNat }) ∧
    (hmcpSeek e offset 1 = if offset + e.posn < 0 then none else some { e with posn := (offset + e.posn).toNat }) ∧
    (hmcpSeek e offset 2 = if offset + e.totalBytes < 0 then none
                           else some { e with posn := (offset + e.totalBytes).toNat }) := by
  refine ⟨?_, ?_, ?_⟩ <;> simp [hmcpSeek, H4.Gen.Hdf.DF_CURRENT, H4.Gen.Hdf.DF_END]

/-- `HMCPwrite` at an aligned in-range position writes all of `data`, advances `posn` by its length and keeps the
    refinement of the flat array -/
theorem hmcpWrite_refines {e : Elem} (he : ElemOK e) {f : Nat → UInt8}
    (hs : Sim e.dd e.ntSize e.totalBytes e.store f) (data : List UInt8) (hne : data ≠ [])
    (hal : e.posn % e.ntSize = 0) (hr : e.posn + data.length ≤ e.totalBytes) :
    ∃ e', hmcpWrite e data = some (data.length, e') ∧ e'.posn = e.posn + data.length ∧
      e'.dd = e.dd ∧ e'.ntSize = e.ntSize ∧ e'.length = e.length ∧
      Sim e.dd e.ntSize e.totalBytes e'.store (flatWrite f e.posn data) := by
  obtain ⟨hw, hnn, hnt, hl⟩ := he
  have ht := walk_tiles hw hnn hnt hal data.length
  have hsz := tiles_sizes ht
  have hlen : (data.length == 0) = false := by
    cases data with
    | nil => exact absurd rfl hne
    | cons _ _ => rfl
  have hT : e.totalBytes = (dimsOf e.dd).prod * e.ntSize := by simp only [Elem.totalBytes, hl]
  rw [hT] at hs hr ⊢
  refine ⟨{ e with store := writePieces e.store (walk e.dd e.ntSize e.posn data.length) data,
                   posn := e.posn + data.length }, ?_, rfl, rfl, rfl, rfl, ?_⟩
  · simp only [hmcpWrite, hlen, Bool.false_eq_true, if_false, hsz]
  · exact write_sim hw hnt ht hr hs

/-- `HMCPread(length ≥ 0)`: `length == 0` means "to the end", a request past the end is clamped, and the bytes
    delivered are those of the flat array at `[posn, posn+n)`; `posn` advances by `n` -/
theorem hmcpRead_refines {e : Elem} (he : ElemOK e) {f : Nat → UInt8}
    (hs : Sim e.dd e.ntSize e.totalBytes e.store f) (length : Nat)
    (hal : e.posn % e.ntSize = 0) (hp : e.posn ≤ e.totalBytes) :
    let n := if length = 0 ∨ e.posn + length > e.totalBytes then e.totalBytes - e.posn else length
    hmcpRead e length = some ((List.range' e.posn n).map f, { e with posn := e.posn + n }) := by
  intro n
  obtain ⟨hw, hnn, hnt, hl⟩ := he
  have hn : ((if ((e.posn : Int) + (if ((length : Int) == 0) = true then (e.totalBytes : Int) - e.posn else length)
        > e.totalBytes) then (e.totalBytes : Int) - e.posn
      else (if ((length : Int) == 0) = true then (e.totalBytes : Int) - e.posn else length)) : Int).toNat = n := by
    simp only [n, beq_iff_eq]
    by_cases h0 : length = 0
    · subst h0; simp <;> omega
    · have h0' : ¬ ((length : Int) = 0) := by omega
      simp only [h0, h0', if_false, false_or]
      by_cases hgt : e.posn + length > e.totalBytes
      · have : (e.posn : Int) + length > e.totalBytes := by omega
        simp only [hgt, this, if_true]; omega
      · have : ¬ ((e.posn : Int) + length > e.totalBytes) := by omega
        simp only [hgt, this, if_false]; omega
  have hneg : ¬ ((length : Int) < 0) := by omega
  have hle : e.posn + n ≤ e.totalBytes := by simp only [n]; split <;> omega
  have ht := walk_tiles hw hnn hnt hal n
  simp only [hmcpRead, hneg, if_false, hn, tiles_sizes ht, read_sim hs ht hle]

/-! ## array indices ↔ (chunk indices, position in chunk) -/

/-- in-range array indices → byte seek → `update_chunk_indices_seek` gives a real (non-ghost) chunk cell, and
    `compute_chunk_to_array` brings the array indices back -/
theorem array_chunk_roundtrip {dims cdims : List Nat} {nt : Nat} (hg : GeomOK dims cdims nt)
    (arr : List Nat) (ha : Below arr dims) :
    CoordOK (mkDims dims cdims)
      (updateChunkIndicesSeek (mkDims dims cdims) nt (computeArrayToSeek (mkDims dims cdims) nt arr)).1
      (updateChunkIndicesSeek (mkDims dims cdims) nt (computeArrayToSeek (mkDims dims cdims) nt arr)).2 ∧
    computeChunkToArray (mkDims dims cdims)
      (updateChunkIndicesSeek (mkDims dims cdims) nt (computeArrayToSeek (mkDims dims cdims) nt arr)).1
      (updateChunkIndicesSeek (mkDims dims cdims) nt (computeArrayToSeek (mkDims dims cdims) nt arr)).2 = arr := by
  obtain ⟨hw, hne, hD, _, hnt⟩ := hg.dd
  obtain ⟨pD, _, _⟩ := ddwf_pos hw
  have ha' : Below arr (dimsOf (mkDims dims cdims)) := by rw [hD]; exact ha
  have hdg := digits_lin pD ha' 0
  simp only [Nat.zero_mul, Nat.add_zero] at hdg
  have e1 : updateChunkIndicesSeek (mkDims dims cdims) nt (computeArrayToSeek (mkDims dims cdims) nt arr)
      = (sbiOf (mkDims dims cdims) arr, spbOf (mkDims dims cdims) arr) := by
    show (ucisLoop (mkDims dims cdims) ((lin (dimsOf (mkDims dims cdims)) arr).2 * nt / nt)).2 = _
    rw [Nat.mul_div_cancel _ hnt, ucisLoop_eq, hdg]
  rw [e1]
  exact ⟨coord_of_array hw ha', c2a_of_array hw ha'⟩

/-- a real chunk cell → `compute_chunk_to_array` gives in-range array indices, and seeking there gives the cell back -/
theorem chunk_array_roundtrip {dims cdims : List Nat} {nt : Nat} (hg : GeomOK dims cdims nt)
    (sbi spb : List Nat) (hc : CoordOK (mkDims dims cdims) sbi spb) :
    Below (computeChunkToArray (mkDims dims cdims) sbi spb) dims ∧
    updateChunkIndicesSeek (mkDims dims cdims) nt
      (computeArrayToSeek (mkDims dims cdims) nt (computeChunkToArray (mkDims dims cdims) sbi spb)) = (sbi, spb) := by
  obtain ⟨hw, hne, hD, _, hnt⟩ := hg.dd
  obtain ⟨pD, _, _⟩ := ddwf_pos hw
  obtain ⟨hb, h1, h2⟩ := array_of_coord hw hc
  have hdg := digits_lin pD hb 0
  simp only [Nat.zero_mul, Nat.add_zero] at hdg
  have hb' : Below (computeChunkToArray (mkDims dims cdims) sbi spb) dims := by
    have := hb; rw [hD] at this; exact this
  refine ⟨hb', ?_⟩
  show (ucisLoop (mkDims dims cdims)
    ((lin (dimsOf (mkDims dims cdims)) (computeChunkToArray (mkDims dims cdims) sbi spb)).2 * nt / nt)).2 = _
  rw [Nat.mul_div_cancel _ hnt, ucisLoop_eq, hdg, h1, h2]

/-- element number → indices → array → seek is the identity (in bytes) -/
theorem seek_array_roundtrip {dims cdims : List Nat} {nt : Nat} (hg : GeomOK dims cdims nt) (e : Nat) (he : e < dims.prod) :
    computeArrayToSeek (mkDims dims cdims) nt
      (computeChunkToArray (mkDims dims cdims) (updateChunkIndicesSeek (mkDims dims cdims) nt (e * nt)).1
        (updateChunkIndicesSeek (mkDims dims cdims) nt (e * nt)).2) = e * nt := by
  obtain ⟨hw, hne, hD, _, hnt⟩ := hg.dd
  obtain ⟨pD, _, _⟩ := ddwf_pos hw
  obtain ⟨hb, _⟩ := digits_spec pD e
  have hv := (digits_of_lt pD (by rw [hD]; exact he)).2
  have e1 : updateChunkIndicesSeek (mkDims dims cdims) nt (e * nt)
      = (sbiOf (mkDims dims cdims) (digits (dimsOf (mkDims dims cdims)) e).2,
         spbOf (mkDims dims cdims) (digits (dimsOf (mkDims dims cdims)) e).2) := by
    show (ucisLoop (mkDims dims cdims) (e * nt / nt)).2 = _
    rw [Nat.mul_div_cancel _ hnt, ucisLoop_eq]
  rw [e1]
  simp only []
  rw [c2a_of_array hw hb]
  show (lin (dimsOf (mkDims dims cdims)) _).2 * nt = _
  rw [hv]

example : GeomOK [4, 7, 3] [3, 2, 5] 8 ∧ Below [3, 6, 2] [4, 7, 3] ∧
    CoordOK (mkDims [4, 7, 3] [3, 2, 5]) [1, 3, 0] [0, 0, 2] := by decide
/-- a GHOST cell (position 2 in the last chunk of a 4-long dimension cut in 3s, which holds 1 real element) is clamped
    by `compute_chunk_to_array` to index 4 = one past the end: ghost cells correspond to no array element -/
example : ¬ CoordOK (mkDims [4] [3]) [1] [2] ∧ computeChunkToArray (mkDims [4] [3]) [1] [2] = [4] := by decide

/-! ## position after whole-chunk I/O -/

theorem uspcLoop_mul_prod (dd : List DimRec) (hp : AllPos (cdimsOf dd)) (q : Nat) :
    uspcLoop dd (q * (cdimsOf dd).prod) = (q, List.replicate dd.length 0) := by
  induction dd generalizing q with
  | nil => simp [uspcLoop]
  | cons d ds ih =>
    simp only [List.map_cons, allPos_cons] at hp
    have e : q * (cdimsOf (d :: ds)).prod = (q * d.chunkLength) * (cdimsOf ds).prod := by
      simp only [List.map_cons, List.prod_cons]; grind
    rw [e, uspcLoop, ih hp.2]
    simp only [Nat.mul_div_cancel _ hp.1, Nat.mul_mod_left, List.length_cons, List.replicate_succ]

theorem c2a_zero (dd : List DimRec) (origin : List Nat) (hl : origin.length = dd.length) :
    computeChunkToArray dd origin (List.replicate dd.length 0) = List.zipWith (· * ·) origin (cdimsOf dd) := by
  induction dd generalizing origin with
  | nil => simp [computeChunkToArray]
  | cons d ds ih =>
    cases origin with
    | nil => simp at hl
    | cons b bs =>
      simp only [List.length_cons, List.replicate_succ, c2a_cons, List.map_cons, List.zipWith_cons_cons]
      rw [ih bs (by simpa using hl)]
      congr 1
      split <;> simp

/-- position left in `access_rec->posn` by `HMCreadChunk`/`HMCwriteChunk(origin)`: the byte position of the first
    element of that chunk (`origin[i] · chunk_length[i]` in every dimension) -/
theorem chunk_io_posn {dims cdims : List Nat} {nt : Nat} (hg : GeomOK dims cdims nt) (origin : List Nat)
    (hl : origin.length = dims.length) :
    chunkIOPosn (mkDims dims cdims) nt cdims.prod origin =
      computeArrayToSeek (mkDims dims cdims) nt (List.zipWith (· * ·) origin cdims) := by
  obtain ⟨hw, hne, hD, hC, hnt⟩ := hg.dd
  obtain ⟨_, pC, _⟩ := ddwf_pos hw
  have hlen : (mkDims dims cdims).length = dims.length := by
    have := congrArg List.length hD; simpa using this
  have h1 := uspcLoop_mul_prod (mkDims dims cdims) pC 1
  rw [Nat.one_mul, hC] at h1
  unfold chunkIOPosn updateSeekPosChunk
  rw [Nat.mul_div_cancel _ hnt, h1]
  simp only []
  rw [c2a_zero _ _ (by rw [hlen]; exact hl), hC]

example : chunkIOPosn (mkDims [5, 7] [2, 3]) 4 6 [2, 1] = (4 * 7 + 3) * 4 := by decide

/-! ## outside the preconditions the C (and therefore the model) does NOT behave as a byte array -/

/-- unaligned start: 4 elements of 4 bytes in chunks of 2; reading 4 bytes from byte 2 touches the buffer bytes of
    positions 0..3, not 2..5 (real library: `Hseek(2); Hread(4)` returns bytes 0,1,2,3) -/
example : (walk (mkDims [4] [2]) 4 2 4).flatMap Piece.addrs = (List.range' 0 4).map (byteAddr (mkDims [4] [2]) 4) ∧
    (walk (mkDims [4] [2]) 4 2 4).flatMap Piece.addrs ≠ (List.range' 2 4).map (byteAddr (mkDims [4] [2]) 4) := by decide

/-- past the end: 4 one-byte elements; a 2-byte write at position 4 (= the element length) lands on positions 0 and 1
    (real library: `Hseek(16); Hwrite(8)` on a 16-byte element succeeds and overwrites bytes 0..7) -/
example : (walk (mkDims [4] [2]) 1 4 2).flatMap Piece.addrs = (List.range' 0 2).map (byteAddr (mkDims [4] [2]) 1) := by decide

end H4.Props.C04
