import H4.Lemmas.SdPieces
/-! # C03 — the piecewise fill of the first write (`hdf_xdr_NCvdata`), property theorems

"Cells never written hold the fill value": on the first write to a new fixed-size data set the library itself writes the fill values
in front of and behind the first hyperslab, in pieces of at most `MAX_SIZE` bytes.  The theorems say that the pieces tile the two
regions exactly, for EVERY region length and EVERY positive piece size, that the first call therefore writes every byte of the variable
exactly once and in order with the data at its own offset, and that the bytes left outside the data are the fill value repeated.
The tie to the C: `T sd fw` lines of engine sd (kind E) - the `Hwrite` calls of the first SDwritedata of large data sets - are recomputed
with `firstWriteLog MAX_SIZE`; `MAX_SIZE` is `H4.Gen.SdBuf.MAX_SIZE` (Tie A). -/
namespace H4.Props.C03Pieces
open H4.Slab H4.SdPieces

/-- The shape of the pieces: `n / P` full pieces, then the remainder if there is one. -/
theorem pieces_shape (P n : Nat) (hP : 0 < P) (hn : 0 < n) :
    pieces P n = List.replicate (n / P) P ++ (if n % P = 0 then [] else [n % P]) := pieces_closed P n hP hn

/-- No piece is longer than the piece size, none is empty. -/
theorem pieces_bounds (P n : Nat) (hP : 0 < P) (hn : 0 < n) : ∀ x ∈ pieces P n, 0 < x ∧ x ≤ P := by
  intro x hx
  cases pieces_mem P n hP hn x hx with
  | inl h => omega
  | inr h => have := Nat.mod_lt n hP; omega

/-- **pieces_tile**: the `Hwrite`s of the fill loop, issued one behind the other from `base` on, cover the bytes `[base, base + n)`
    exactly once and in order - for every `n` and every piece size `P > 0`. -/
theorem pieces_tile (P n base : Nat) (hP : 0 < P) :
    expandRuns (place base (fillPieces P n)) = List.range' base n := by
  rw [place_expand, fillPieces_sum P n hP]

/-- The first `hdf_xdr_NCvdata` on an empty element, fill values wanted: the `Hwrite`s cover every byte `[0, len)` of the variable exactly
    once, in order ... -/
theorem first_write_tiles (P len wher bytes : Nat) (hP : 0 < P) (h : wher + bytes ≤ len) :
    expandRuns (vdataWrites P true true len wher bytes) = List.range len := by
  simp only [vdataWrites, Bool.and_self, if_true]
  rw [expandRuns_append, expandRuns_append, pieces_tile P wher 0 hP, pieces_tile P _ _ hP]
  simp only [expandRuns, List.flatMap_cons, List.flatMap_nil, List.append_nil]
  have h1 : List.range' 0 wher ++ List.range' wher bytes = List.range' 0 (wher + bytes) := by
    have := List.range'_append_1 (s := 0) (m := wher) (n := bytes)
    simpa using this
  have h2 : List.range' 0 (wher + bytes) ++ List.range' (wher + bytes) (len - (wher + bytes)) = List.range' 0 len := by
    have := List.range'_append_1 (s := 0) (m := wher + bytes) (n := len - (wher + bytes))
    rw [Nat.zero_add, Nat.add_sub_cancel' h] at this
    exact this
  rw [h1, h2, List.range_eq_range']

/-- ... with the request itself at its own offset, after exactly `wher` bytes of fill values. -/
theorem first_write_data_at (P len wher bytes : Nat) (hP : 0 < P) :
    ∃ front back, vdataWrites P true true len wher bytes = front ++ [(wher, bytes)] ++ back ∧
      expandRuns front = List.range wher ∧ expandRuns back = List.range' (wher + bytes) (len - (wher + bytes)) := by
  refine ⟨place 0 (fillPieces P wher), place (wher + bytes) (fillPieces P (len - (wher + bytes))), ?_, ?_, ?_⟩
  · simp [vdataWrites]
  · rw [pieces_tile P wher 0 hP, List.range_eq_range']
  · exact pieces_tile P _ _ hP

/-- A request that finds data in the element (every later run, every later call), or one without fill values, is one `Hwrite`. -/
theorem later_write_single (P len wher bytes : Nat) (fill : Bool) :
    vdataWrites P false fill len wher bytes = [(wher, bytes)] ∧ vdataWrites P true false len wher bytes = [(wher, bytes)] := by
  simp [vdataWrites]

/-- Every piece starts and ends on an element boundary when the element size divides the piece size (so that each piece, a prefix of the
    one fill buffer, continues the pattern of its predecessor). -/
theorem pieces_aligned (P n e base : Nat) (hP : 0 < P) (heP : e ∣ P) (hen : e ∣ n) (hb : e ∣ base) :
    ∀ r ∈ place base (fillPieces P n), e ∣ r.1 ∧ e ∣ r.2 :=
  place_dvd e _ base hb (fillPieces_dvd P n e hP heP hen)

/-- **first_image**: the bytes of the variable after the first write are the fill value repeated, the data, the fill value repeated. -/
theorem first_image (P : Nat) (pat data : List UInt8) (len wher : Nat) (hP : 0 < P)
    (heP : pat.length ∣ P) (hw : pat.length ∣ wher) (hd : pat.length ∣ data.length) (hl : pat.length ∣ len) :
    firstImage P pat data len wher = patBytes pat wher ++ data ++ patBytes pat (len - (wher + data.length)) := by
  unfold firstImage
  rw [flatMap_patBytes pat _ (fillPieces_dvd P wher _ hP heP hw), fillPieces_sum P wher hP,
    flatMap_patBytes pat _ (fillPieces_dvd P _ _ hP heP (Nat.dvd_sub hl (Nat.dvd_add hw hd))), fillPieces_sum P _ hP]

theorem getD_append_lt (a b : List UInt8) (i : Nat) (h : i < a.length) : (a ++ b).getD i 0 = a.getD i 0 := by
  simp [List.getD_eq_getElem?_getD, List.getElem?_append_left h]

theorem getD_append_ge (a b : List UInt8) (i : Nat) (h : a.length ≤ i) : (a ++ b).getD i 0 = b.getD (i - a.length) 0 := by
  simp [List.getD_eq_getElem?_getD, List.getElem?_append_right h]

theorem patBytes_length (pat : List UInt8) (n : Nat) : (patBytes pat n).length = n := by simp [patBytes]

theorem patBytes_getD (pat : List UInt8) (n j : Nat) (hj : j < n) : (patBytes pat n).getD j 0 = pat.getD (j % pat.length) 0 := by
  simp [patBytes, List.getD_eq_getElem?_getD, hj]

/-- ... byte by byte: a byte outside the request is the byte `p mod element size` of the fill value ("a cell never written holds the fill
    value"), a byte inside it is the caller's. -/
theorem first_image_getD (P : Nat) (pat data : List UInt8) (len wher p : Nat) (hP : 0 < P)
    (heP : pat.length ∣ P) (hw : pat.length ∣ wher) (hd : pat.length ∣ data.length) (hl : pat.length ∣ len) (h : wher + data.length ≤ len)
    (hp : p < len) :
    (firstImage P pat data len wher).getD p 0 =
      if wher ≤ p ∧ p < wher + data.length then data.getD (p - wher) 0 else pat.getD (p % pat.length) 0 := by
  rw [first_image P pat data len wher hP heP hw hd hl]
  by_cases h1 : p < wher
  · have : ¬ (wher ≤ p ∧ p < wher + data.length) := by omega
    rw [if_neg this, List.append_assoc, getD_append_lt _ _ _ (by rw [patBytes_length]; exact h1), patBytes_getD pat wher p h1]
  · by_cases h2 : p < wher + data.length
    · have : wher ≤ p ∧ p < wher + data.length := by omega
      rw [if_pos this, List.append_assoc, getD_append_ge _ _ _ (by rw [patBytes_length]; omega), patBytes_length,
        getD_append_lt _ _ _ (by omega)]
    · have : ¬ (wher ≤ p ∧ p < wher + data.length) := by omega
      rw [if_neg this, getD_append_ge _ _ _ (by rw [List.length_append, patBytes_length]; omega), List.length_append,
        patBytes_length, patBytes_getD pat _ _ (by omega)]
      obtain ⟨k, hk⟩ := Nat.dvd_add hw hd
      have hs : p = pat.length * k + (p - (wher + data.length)) := by omega
      conv => rhs; rw [hs, Nat.mul_add_mod]

/-- the constants the theorems are used with: the piece size is positive and a multiple of every element size (1, 2, 4, 8) -/
theorem consts : 0 < H4.Gen.SdBuf.MAX_SIZE ∧ 8 ∣ H4.Gen.SdBuf.MAX_SIZE := by decide

/-! ### the hypotheses are satisfiable, the definitions compute (concrete, non-trivial inputs) -/

example : pieces 10 25 = [10, 10, 5] ∧ pieces 10 30 = [10, 10, 10] ∧ pieces 10 7 = [7] ∧ pieces 10 11 = [10, 1] := by decide
example : expandRuns (place 3 (fillPieces 4 10)) = List.range' 3 10 := pieces_tile 4 10 3 (by decide)
example : vdataWrites 10 true true 40 23 4 = [(0, 10), (10, 10), (20, 3), (23, 4), (27, 10), (37, 3)] := by decide
example : expandRuns (vdataWrites 10 true true 40 23 4) = List.range 40 := first_write_tiles 10 40 23 4 (by decide) (by decide)
/-- a 5 x 6 array of 2-byte elements, first write = rows 2..3, columns 1..3: the first run meets the empty element, the second one does not -/
example : firstWriteLog 8 2 true [5, 6] [2, 1] [1, 1] [2, 3] = [(0, 8), (8, 8), (16, 8), (24, 2), (26, 6), (32, 8), (40, 8), (48, 8), (56, 4), (38, 6)] := by decide
example : firstWriteLog 8 2 false [5, 6] [2, 1] [1, 1] [2, 3] = [(26, 6), (38, 6)] := by decide
example : firstImage 4 [1, 2] [9, 9] 12 6 = [1, 2, 1, 2, 1, 2, 9, 9, 1, 2, 1, 2] := by decide
example : (firstImage 4 [1, 2] [9, 9] 12 6).getD 9 0 = 2 :=
  (first_image_getD 4 [1, 2] [9, 9] 12 6 9 (by decide) (by decide) (by decide) (by decide) (by decide) (by decide) (by decide)).trans (by decide)

end H4.Props.C03Pieces
