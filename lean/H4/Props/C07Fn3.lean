import H4.Lemmas.C07Fn12
import H4.Props.C07Fn
import H4.Props.C02
/-! C07 / C02, function-level Tie A, DECODE side: `vunpackvs` of `hdf/src/vio.c`, as translated statement by statement from the
    CURRENT C text (`H4.Gen.Fn.Vio3`, written by gen/c2lean.py on every run), against the independent reader
    `H4.Format.vunpackvs` of the DFTAG_VH record (the reader `H4.Props.C02.vunpackvs_vpackvs` is about).

    * `vunpackvs_refines`: for EVERY buffer (a record of any length that the reader accepts, followed by anything) that satisfies
      `Pre`, the translated C never indexes outside a region, its eight loops terminate, it returns SUCCEED and leaves exactly the
      reader's header in `*vs`.
    * `vunpackvs_c_roundtrip`: translated `vunpackvs` ∘ translated `vpackvs` = identity on every header the format represents.
    * OBSERVATION: like `vunpackvg`, the C function has no length check; see the examples at the end (a truncated record makes the
      translated code read outside the buffer, a `vsname` longer than the fixed array makes it WRITE outside the array). -/
set_option linter.unusedSimpArgs false
set_option linter.unusedVariables false
namespace H4.Props.C07Fn3
open H4 H4.Format H4.Gen.Hdf H4.C2L H4.Lemmas.C07Fn3
open H4.Lemmas.C08Fn (bytesI bytesI_length)
open H4.Lemmas.C08Fn3 (w16 be16 be32 S32 be16N be16_eq be32N be32_eq be32N_lt be16N_lt vals vals_eq valsN valsN_length fill orS)
open H4.Gen.Fn.Vio3 (vunpackvs.St)

/-- what the C code needs of an accepted header beyond the reader's own checks: a version up to 4 (a higher one makes it read
    nothing), field names and `vsname` / `vsclass` shorter than 32768 bytes (their length prefix is read as `int16`), `vsname` and
    `vsclass` - up to their first NUL - fitting the fixed arrays of `*vs` (`nameCap`, `clsCap` cells) with the terminator, a
    non-negative attribute count -/
def Pre (v : VH) (nameCap clsCap : Nat) : Prop :=
  v.version ≤ 4 ∧ (∀ f ∈ v.fields, f.name.length < 32768) ∧ v.name.length < 32768 ∧ v.cls.length < 32768 ∧
  (cstr v.name).length < nameCap ∧ (cstr v.cls).length < clsCap ∧ (v.flags % 2 = 1 → v.attrs.length < 2147483648)

instance (v : VH) (a b : Nat) : Decidable (Pre v a b) := by unfold Pre; infer_instance

/-- the field table of `*vs` after the call (`M` = `map_from_old_types`, `D` = `DFKNTsize`) -/
def Table (M D : Int → Int) (v : VH) (s : St) : Prop :=
  if v.fields = [] then
    s.vs_wlist_bptr_null = true ∧ s.vs_wlist_type_null = true ∧ s.vs_wlist_off_null = true ∧ s.vs_wlist_isize_null = true ∧
      s.vs_wlist_order_null = true ∧ s.vs_wlist_esize_null = true ∧ s.vs_wlist_name_null = true
  else
    let n := v.fields.length
    let types := if v.version ≤ 2 then (v.fields.map (·.type)).map M else v.fields.map (·.type)
    s.vs_wlist_bptr_null = false ∧ s.vs_wlist_type_null = false ∧ s.vs_wlist_off_null = false ∧ s.vs_wlist_isize_null = false ∧
      s.vs_wlist_order_null = false ∧ s.vs_wlist_esize_null = false ∧ s.vs_wlist_name_null = false ∧
      s.vs_wlist_type = 0 ∧ s.vs_wlist_off = (n : Int) ∧ s.vs_wlist_isize = ((2 * n : Nat) : Int) ∧ s.vs_wlist_order = ((3 * n : Nat) : Int) ∧
      s.vs_wlist_esize = ((4 * n : Nat) : Int) ∧
      s.vs_wlist_bptr = types ++ ints (v.fields.map (·.off)) ++ ints (v.fields.map (·.isize)) ++ ints (v.fields.map (·.order)) ++
        esizes D types (ints (v.fields.map (·.order))) n ∧
      s.vs_wlist_name = v.fields.map fun f => bytesI (cstr f.name) ++ 0 :: List.replicate (f.name.length - (cstr f.name).length) 170

/-- the version-4 fields of `*vs` after the call (`a` = the state before: what is not in the record is not assigned) -/
def V4 (v : VH) (a s : St) : Prop :=
  if v.version = 4 then
    s.vs_flags = (v.flags : Int) ∧
    (if v.flags % 2 = 1 then
       s.vs_nattrs = (v.attrs.length : Int) ∧ s.vs_alist_null = false ∧ s.vs_alist_findex = v.attrs.map (·.findex) ∧
         s.vs_alist_atag = ints (v.attrs.map (·.atag)) ∧ s.vs_alist_aref = ints (v.attrs.map (·.aref))
     else s.vs_nattrs = a.vs_nattrs ∧ s.vs_alist_null = a.vs_alist_null ∧ s.vs_alist_findex = a.vs_alist_findex ∧
       s.vs_alist_atag = a.vs_alist_atag ∧ s.vs_alist_aref = a.vs_alist_aref)
  else s.vs_flags = a.vs_flags ∧ s.vs_nattrs = a.vs_nattrs ∧ s.vs_alist_null = a.vs_alist_null ∧ s.vs_alist_findex = a.vs_alist_findex ∧
    s.vs_alist_atag = a.vs_alist_atag ∧ s.vs_alist_aref = a.vs_alist_aref

local notation "rr" => (fun _ _ => rfl)

/-- **`vunpackvs` as translated from vio.c computes the header the independent reader returns** - for EVERY record `rec` (any
    length, any bytes) that `H4.Format.vunpackvs` accepts as `v` and that satisfies `Pre` (what the C code needs beyond the
    reader's checks), followed in the buffer by anything (`tail`), with `len = |rec|`; `a` = the state of `*vs` before the call
    (`vsname` / `vsclass` are its fixed arrays, everything else is overwritten or, where the record has no such field, kept);
    `M` = `map_from_old_types`, `D` = `DFKNTsize` (any functions); `fuel ≥ |rec|` bounds the eight loop counts.
    Result: no access outside a region, the loops terminate, SUCCEED, and `*vs` holds `v`: the scalar fields, the field table
    (`Table`: one block of `5 n` cells = types, offsets, isizes, orders, esizes with the five cursors into it, the names as C
    strings in fresh rows), `vsname` / `vsclass` as C strings at the start of their arrays, `extag`, `exref`, the version-4 fields
    (`V4`). -/
theorem vunpackvs_refines (M D : Int → Int) (rec : Bytes) (tail : List Int) (v : VH) (hv : Format.vunpackvs rec = some v) (a : St)
    (hbuf : a.buf = bytesI rec ++ tail) (hlen : a.len = (rec.length : Int)) (hp : Pre v a.vs_vsname.length a.vs_vsclass.length)
    (fuel : Nat) (hf : rec.length ≤ fuel) :
    let s := vunpackvsC M D fuel a
    s.ub = false ∧ s.oof = false ∧ s.ret = 0 ∧ s.vs_version = v.version ∧ s.vs_more = v.more ∧ s.vs_interlace = v.interlace ∧
      s.vs_nvertices = v.nvert ∧ s.vs_wlist_ivsize = (v.ivsize : Int) ∧ s.vs_wlist_n = (v.fields.length : Int) ∧ Table M D v s ∧
      s.vs_vsname = bytesI (cstr v.name) ++ 0 :: a.vs_vsname.drop ((cstr v.name).length + 1) ∧
      s.vs_vsclass = bytesI (cstr v.cls) ++ 0 :: a.vs_vsclass.drop ((cstr v.cls).length + 1) ∧
      s.vs_extag = (v.extag : Int) ∧ s.vs_exref = (v.exref : Int) ∧ V4 v a s := by
  intro s
  obtain ⟨p1, p2, p3, p4, p5, p6, p7⟩ := hp
  have acc := vunpackvs_inv rec tail v hv
  generalize hB : bytesI rec ++ tail = B at acc hbuf
  have hBl : rec.length ≤ B.length := by rw [← hB]; simp
  have hs : s = run M D fuel (st0 a) := vunpackvs_phases M D fuel a
  have hi : Init B rec.length (st0 a) := ⟨hbuf, hlen, rfl, rfl, rfl, rfl⟩
  have hpos : pNm B = 10 + 8 * nfN B ∧ pVn B = namePos B (pNm B) (nfN B) ∧ pVc B = pVn B + 2 + lVn B ∧ pEx B = pVc B + 2 + lVc B := ⟨rfl, rfl, rfl, rfl⟩
  have hmono := namePos_mono B (pNm B) 0 (nfN B) (by omega)
  have hp0 : namePos B (pNm B) 0 = pNm B := rfl
  have hin := acc.inside
  -- the reader's field table
  obtain ⟨z0, z1, z2, z3, z4, z5⟩ := zipFields_length (nfN B) ((vals B 10 2 (nfN B)).map w16) (valsN B (10 + 2 * nfN B) 2 (nfN B))
    (valsN B (10 + 2 * nfN B + 2 * nfN B) 2 (nfN B)) (valsN B (10 + 2 * nfN B + 2 * nfN B + 2 * nfN B) 2 (nfN B)) (namesAt rec B (pNm B) (nfN B))
    (by simp) (by simp) (by simp) (by simp) (namesAt_length _ _ _ _)
  rw [← acc.fields] at z0 z1 z2 z3 z4 z5
  have hnm : v.name.length = lVn B := by rw [acc.name]; simp only [List.length_take, List.length_drop]; omega
  have hcl : v.cls.length = lVc B := by rw [acc.cls]; simp only [List.length_take, List.length_drop]; omega
  have hnames : ∀ t, t < nfN B → nameLen B (pNm B) t < 32768 := by
    intro t ht
    obtain ⟨g1, g2⟩ := namesAt_getElem rec B (pNm B) (nfN B) t ht (by show pVn B ≤ _; omega)
    have hmem : (v.fields[t]'(by rw [z0]; exact ht)) ∈ v.fields := List.getElem_mem _
    have := p2 _ hmem
    have e : (v.fields[t]'(by rw [z0]; exact ht)).name = (namesAt rec B (pNm B) (nfN B))[t]'(by rw [namesAt_length]; exact ht) := by
      have := congrArg (fun l => l[t]?) z5
      simp only [List.getElem?_map] at this
      rw [List.getElem?_eq_getElem (by rw [z0]; exact ht), List.getElem?_eq_getElem (by rw [namesAt_length]; exact ht)] at this
      simpa using this
    rw [e, g1, g2] at this
    exact this
  have hk : HeadOK B (SPre B rec.length (st0 a)) := by
    refine ⟨acc.nf, hnames, by rw [← hnm]; exact p3, by rw [← hcl]; exact p4, by omega, ?_, ?_, ?_, ?_⟩
    · show _ + 1 ≤ a.vs_vsname.length
      rw [← hB, drop_take_bytesI rec tail _ _ (by rw [hB]; omega), takeWhile_bytesI, bytesI_length, hB, ← acc.name]; omega
    · show _ + 1 ≤ a.vs_vsclass.length
      rw [← hB, drop_take_bytesI rec tail _ _ (by rw [hB]; omega), takeWhile_bytesI, bytesI_length, hB, ← acc.cls]; omega
    · show _ = w16 (be16 B (rec.length - 5)); rw [acc.midv, acc.version]
    · show _ = w16 (be16 B (rec.length - 3)); rw [acc.midm, acc.more]
  have hver4 : w16 (be16 B (rec.length - 5)) = 4 → v.version = 4 := fun h => by rw [acc.version]; exact h
  obtain ⟨r, r1, r2, r3⟩ := run_ok M D hi fuel acc.len5 hBl (by rw [← acc.version]; exact p1) hk
    (fun h4 => by
      obtain ⟨t1, t2, t3, _⟩ := acc.v4 (hver4 h4)
      refine ⟨by omega, fun hb => ?_⟩
      have hodd : v.flags % 2 = 1 := by rw [t2]; exact hb
      obtain ⟨u1, u2, u3⟩ := t3 hodd
      have e12 : pEx B + 8 + 4 = pEx B + 12 := by omega
      rw [e12]
      have hal : v.attrs.length = be32N B (pEx B + 12) := by rw [u3, attrsAt_length]
      exact ⟨by rw [← hal]; exact p7 hodd, by omega, by omega⟩)
    (by omega)
  rw [← hs] at r
  have hn : (v.fields.length : Int) = (nfN B : Int) := by rw [z0]
  refine ⟨by rw [r]; exact r1, by rw [r]; exact r2, by rw [r, r3, SFin_ret_value], by rw [r, SFin_version, acc.version], by rw [r, SFin_more, acc.more],
    by rw [r, SFin_interlace, acc.il], by rw [r, SFin_nvertices, acc.nv], by rw [r, SFin_ivsize, acc.ivs, be16_eq], by rw [r, SFin_n, hn], ?_, ?_, ?_,
    by rw [r, SFin_extag, acc.extag, be16_eq], by rw [r, SFin_exref, acc.exref, be16_eq], ?_⟩
  · -- the field table
    rw [r]
    simp only [Table]
    by_cases hf0 : v.fields = []
    · rw [if_pos hf0]
      have h0 : nfN B = 0 := by rw [← z0, hf0]; rfl
      exact SFin_nofields M D B rec.length (st0 a) h0
    · rw [if_neg hf0]
      have h0 : nfN B ≠ 0 := by
        intro e; rw [← z0] at e; exact hf0 (List.eq_nil_of_length_eq_zero e)
      obtain ⟨f1, f2, f3, f4, f5, f6, f7, f8, f9, f10, f11, f12, f13⟩ := SFin_fields M D B rec.length (st0 a) h0
      have hb := SFin_block M D B rec.length (st0 a) h0
      have eT : typesAt B = v.fields.map (·.type) := z1.symm
      have eO : offsAt B = ints (v.fields.map (·.off)) := by rw [z3]; exact vals_eq _ _ _ _
      have eI : isizesAt B = ints (v.fields.map (·.isize)) := by rw [z2]; exact vals_eq _ _ _ _
      have eR : ordersAt B = ints (v.fields.map (·.order)) := by rw [z4]; exact vals_eq _ _ _ _
      rw [eT, eO, eI, eR, ← acc.version, ← z0] at hb
      rw [← z0] at f9 f10 f11 f12
      refine ⟨f1, f2, f3, f4, f5, f6, f7, f8, f9, f10, f11, f12, hb, ?_⟩
      rw [f13, ← hB, rowsAt_names rec tail _ _ (by rw [hB]; show pVn B ≤ _; omega), hB, ← z5, List.map_map]
      rfl
  · rw [r, SFin_vsname, ← hB, cstrInto_eq rec tail _ _ _ (by rw [hB]; omega), hB, ← acc.name]; rfl
  · rw [r, SFin_vsclass, ← hB, cstrInto_eq rec tail _ _ _ (by rw [hB]; omega), hB, ← acc.cls]; rfl
  · -- the version-4 fields
    rw [r]
    simp only [V4]
    by_cases h4 : v.version = 4
    · rw [if_pos h4]
      have h4' : w16 (be16 B (rec.length - 5)) = 4 := by rw [← acc.version]; exact h4
      obtain ⟨t1, t2, t3, t4⟩ := acc.v4 h4
      refine ⟨by rw [SFin_flags4 M D B _ _ h4', t2, be32_eq], ?_⟩
      by_cases hodd : v.flags % 2 = 1
      · rw [if_pos hodd]
        obtain ⟨u1, u2, u3⟩ := t3 hodd
        have hbit : be32N B (pEx B + 8) % 2 = 1 := by rw [← t2]; exact hodd
        obtain ⟨w1, w2, w3, w4, w5⟩ := SFin_attrs M D B rec.length (st0 a) h4' hbit
        have e12 : pEx B + 8 + 4 = pEx B + 12 := by omega
        have e16 : pEx B + 8 + 8 = pEx B + 16 := by omega
        rw [e12] at w1 w3 w4 w5
        rw [e16] at w3 w4 w5
        have hal : v.attrs.length = be32N B (pEx B + 12) := by rw [u3, attrsAt_length]
        refine ⟨by rw [w1, hal], w2, ?_, ?_, ?_⟩
        · rw [w3, vals32_attrs, ← u3, fill_zero' _ _ (by rw [← hal]; simp)]
        · rw [w4, vals_atag, ← u3, fill_zero' _ _ (by rw [← hal]; simp [ints])]
        · rw [w5, vals_aref, ← u3, fill_zero' _ _ (by rw [← hal]; simp [ints])]
      · rw [if_neg hodd]
        have hbit : ¬ be32N B (pEx B + 8) % 2 = 1 := by rw [← t2]; exact hodd
        refine ⟨?_, ?_, ?_, ?_, ?_⟩
        · exact SFin_noattr (·.vs_nattrs) rr rr rr rr rr rr rr (keep4 (·.vs_nattrs) rr rr rr rr rr rr rr rr rr rr rr rr rr rr rr rr rr rr rr rr rr rr (fun _ => rfl) B rec.length (st0 a) rfl) M D h4' hbit
        · exact SFin_noattr (·.vs_alist_null) rr rr rr rr rr rr rr (keep4 (·.vs_alist_null) rr rr rr rr rr rr rr rr rr rr rr rr rr rr rr rr rr rr rr rr rr rr (fun _ => rfl) B rec.length (st0 a) rfl) M D h4' hbit
        · exact SFin_noattr (·.vs_alist_findex) rr rr rr rr rr rr rr (keep4 (·.vs_alist_findex) rr rr rr rr rr rr rr rr rr rr rr rr rr rr rr rr rr rr rr rr rr rr (fun _ => rfl) B rec.length (st0 a) rfl) M D h4' hbit
        · exact SFin_noattr (·.vs_alist_atag) rr rr rr rr rr rr rr (keep4 (·.vs_alist_atag) rr rr rr rr rr rr rr rr rr rr rr rr rr rr rr rr rr rr rr rr rr rr (fun _ => rfl) B rec.length (st0 a) rfl) M D h4' hbit
        · exact SFin_noattr (·.vs_alist_aref) rr rr rr rr rr rr rr (keep4 (·.vs_alist_aref) rr rr rr rr rr rr rr rr rr rr rr rr rr rr rr rr rr rr rr rr rr rr (fun _ => rfl) B rec.length (st0 a) rfl) M D h4' hbit
    · rw [if_neg h4]
      have h4' : w16 (be16 B (rec.length - 5)) ≠ 4 := by rw [← acc.version]; exact h4
      refine ⟨?_, ?_, ?_, ?_, ?_, ?_⟩
      · exact SFin_v3 (·.vs_flags) rr rr rr rr rr (keep4 (·.vs_flags) rr rr rr rr rr rr rr rr rr rr rr rr rr rr rr rr rr rr rr rr rr rr (fun _ => rfl) B rec.length (st0 a) rfl) M D h4'
      · exact SFin_v3 (·.vs_nattrs) rr rr rr rr rr (keep4 (·.vs_nattrs) rr rr rr rr rr rr rr rr rr rr rr rr rr rr rr rr rr rr rr rr rr rr (fun _ => rfl) B rec.length (st0 a) rfl) M D h4'
      · exact SFin_v3 (·.vs_alist_null) rr rr rr rr rr (keep4 (·.vs_alist_null) rr rr rr rr rr rr rr rr rr rr rr rr rr rr rr rr rr rr rr rr rr rr (fun _ => rfl) B rec.length (st0 a) rfl) M D h4'
      · exact SFin_v3 (·.vs_alist_findex) rr rr rr rr rr (keep4 (·.vs_alist_findex) rr rr rr rr rr rr rr rr rr rr rr rr rr rr rr rr rr rr rr rr rr rr (fun _ => rfl) B rec.length (st0 a) rfl) M D h4'
      · exact SFin_v3 (·.vs_alist_atag) rr rr rr rr rr (keep4 (·.vs_alist_atag) rr rr rr rr rr rr rr rr rr rr rr rr rr rr rr rr rr rr rr rr rr rr (fun _ => rfl) B rec.length (st0 a) rfl) M D h4'
      · exact SFin_v3 (·.vs_alist_aref) rr rr rr rr rr (keep4 (·.vs_alist_aref) rr rr rr rr rr rr rr rr rr rr rr rr rr rr rr rr rr rr rr rr rr rr (fun _ => rfl) B rec.length (st0 a) rfl) M D h4'


/-- a zeroed `*vs` (what `VSIget_vdata_node` hands to `VSPgetinfo`): every pointer NULL, `vsname` / `vsclass` arrays of
    `VSNAMELENMAX + 1` zero bytes -/
def zeroed (buf : List Int) (len : Int) : St :=
  { vs_version := 0, vs_more := 0, vs_interlace := 0, vs_nvertices := 0, vs_wlist_ivsize := 0, vs_wlist_n := 0, vs_wlist_bptr_null := true,
    vs_wlist_type_null := true, vs_wlist_off_null := true, vs_wlist_isize_null := true, vs_wlist_order_null := true, vs_wlist_esize_null := true,
    vs_wlist_name_null := true, vs_wlist_bptr := [], vs_wlist_type := 0, vs_wlist_off := 0, vs_wlist_isize := 0, vs_wlist_order := 0,
    vs_wlist_esize := 0, vs_wlist_name := [], vs_vsname := List.replicate 65 0, vs_vsclass := List.replicate 65 0, vs_extag := 0, vs_exref := 0,
    vs_flags := 0, vs_nattrs := 0, vs_alist_null := true, vs_alist_findex := [], vs_alist_atag := [], vs_alist_aref := [], buf := buf, len := len }

example :
    let v : VH := ⟨0, 20, 12, [⟨24, 4, 0, 1, [0x61]⟩, ⟨5, 8, 4, 2, [0x62, 0x63]⟩], [0x74], [0x63], 0, 0, 4, 0, 1, [⟨-1, 1962, 9⟩, ⟨1, 1962, 10⟩]⟩
    let rc := Format.vpackvs v
    Format.vunpackvs rc = some v ∧ rc.length = 76 ∧
    let s := vunpackvsC (fun t => t) (fun _ => 4) 76 (zeroed (bytesI rc ++ [9]) 76)
    s.ub = false ∧ s.oof = false ∧ s.ret = 0 ∧ s.vs_version = 4 ∧ s.vs_wlist_n = 2 ∧ s.vs_wlist_bptr = [24, 5, 0, 4, 4, 8, 1, 2, 4, 8] ∧
      s.vs_wlist_name = [[0x61, 0], [0x62, 0x63, 0]] ∧ s.vs_vsname.take 3 = [0x74, 0, 0] ∧ s.vs_flags = 1 ∧ s.vs_nattrs = 2 ∧
      s.vs_alist_findex = [-1, 1] ∧ s.vs_alist_aref = [9, 10] := by
  decide +kernel
theorem cstr_of_nameOK (b : Bytes) (h : H4.Lemmas.C07Fn.NameOK b) : cstr b = b := by
  simp only [cstr]
  have : ∀ l : Bytes, (0 : UInt8) ∉ l → l.takeWhile (· ≠ 0) = l := by
    intro l
    induction l with
    | nil => intro _; rfl
    | cons x xs ih =>
      intro hl
      have hx : x ≠ 0 := fun e => hl (by simp [e])
      simp only [List.takeWhile_cons, ne_eq, hx, not_false_eq_true, decide_true, if_true, ih (fun e => hl (List.mem_cons_of_mem _ e))]
  exact this b h.2

/-- **translated `vunpackvs` ∘ translated `vpackvs` = identity** on every header the format represents (`VH.WF`) whose names are
    C strings (`C07Fn.Pre`, the precondition of `vpackvs_refines`), with a version up to 4 and `vsname` / `vsclass` shorter than
    the arrays of the receiving `*vs`: the record that the C text of `vpackvs` writes into `buf`, handed with the `*size` it
    stored to the C text of `vunpackvs` (on any `*vs` = `a`), is read back without undefined behaviour as the header that was
    packed. -/
theorem vunpackvs_c_roundtrip (M D : Int → Int) (v : VH) (hw : v.WF) (hp : C07Fn.Pre v) (hv : v.version ≤ 4)
    (fuel : Nat) (hf1 : v.fields.length ≤ fuel) (hf2 : v.flags % 2 = 1 → v.attrs.length ≤ fuel)
    (tpad ipad opad dpad rowpad : List Int) (rows : List (List Int)) (npad cpad fpad atpad arpad buf size : List Int)
    (hbuf : (Format.vpackvs v).length ≤ buf.length) (hsize : 0 < size.length)
    (fuel' : Nat) (hf3 : (Format.vpackvs v).length ≤ fuel') (a : St) (hn : v.name.length < a.vs_vsname.length) (hc : v.cls.length < a.vs_vsclass.length) :
    let sp := H4.Lemmas.C07Fn.vpackvsC fuel v.interlace v.nvert (v.ivsize : Int) (v.fields.length : Int) (v.fields.map (·.type) ++ tpad)
      (ints (v.fields.map (·.isize)) ++ ipad) (ints (v.fields.map (·.off)) ++ opad) (ints (v.fields.map (·.order)) ++ dpad)
      (v.fields.map (fun f => bytesI f.name ++ 0 :: rowpad) ++ rows) (bytesI v.name ++ 0 :: npad) (bytesI v.cls ++ 0 :: cpad)
      (v.extag : Int) (v.exref : Int) v.version v.more (v.flags : Int) (v.attrs.length : Int) (v.attrs.map (·.findex) ++ fpad)
      (ints (v.attrs.map (·.atag)) ++ atpad) (ints (v.attrs.map (·.aref)) ++ arpad) buf size
    let su := vunpackvsC M D fuel' { a with buf := sp.buf, len := sp.size.getD 0 0 }
    sp.ub = false ∧ sp.oof = false ∧ su.ub = false ∧ su.oof = false ∧ su.ret = 0 ∧ su.vs_version = v.version ∧ su.vs_more = v.more ∧
      su.vs_interlace = v.interlace ∧ su.vs_nvertices = v.nvert ∧ su.vs_wlist_ivsize = (v.ivsize : Int) ∧ su.vs_wlist_n = (v.fields.length : Int) ∧
      Table M D v su ∧ su.vs_vsname = bytesI v.name ++ 0 :: a.vs_vsname.drop (v.name.length + 1) ∧
      su.vs_vsclass = bytesI v.cls ++ 0 :: a.vs_vsclass.drop (v.cls.length + 1) ∧ su.vs_extag = (v.extag : Int) ∧ su.vs_exref = (v.exref : Int) ∧
      V4 v a su := by
  intro sp su
  obtain ⟨p1, p2, p3, p4, _⟩ := C07Fn.vpackvs_refines v hp fuel hf1 hf2 tpad ipad opad dpad rowpad rows npad cpad fpad atpad arpad buf size hbuf hsize
  have hlen : sp.size.getD 0 0 = ((Format.vpackvs v).length : Int) := by
    show (H4.Lemmas.C07Fn.vpackvsC _ _ _ _ _ _ _ _ _ _ _ _ _ _ _ _ _ _ _ _ _ _ _).size.getD 0 0 = _
    rw [p4]
    cases size with
    | nil => exact absurd hsize (by decide)
    | cons x t => simp
  obtain ⟨q1, q2, q3, q4, q5, q6⟩ := hp
  have cn := cstr_of_nameOK v.name q3
  have cc := cstr_of_nameOK v.cls q4
  have hrt : Format.vunpackvs (Format.vpackvs v) = some v := C02.vunpackvs_vpackvs v hw
  have hpre : Pre v a.vs_vsname.length a.vs_vsclass.length :=
    ⟨hv, fun f hf => (q2 f hf).1, q3.1, q4.1, by rw [cn]; exact hn, by rw [cc]; exact hc, q6⟩
  have h := vunpackvs_refines M D (Format.vpackvs v) (buf.drop (Format.vpackvs v).length) v hrt
    { a with buf := sp.buf, len := sp.size.getD 0 0 }
    (by show sp.buf = _; show (H4.Lemmas.C07Fn.vpackvsC _ _ _ _ _ _ _ _ _ _ _ _ _ _ _ _ _ _ _ _ _ _ _).buf = _; rw [p3])
    (by show sp.size.getD 0 0 = _; exact hlen) hpre fuel' hf3
  obtain ⟨u1, u2, u3, u4, u5, u6, u7, u8, u9, u10, u11, u12, u13, u14, u15⟩ := h
  rw [cn] at u11
  rw [cc] at u12
  exact ⟨p1, p2, u1, u2, u3, u4, u5, u6, u7, u8, u9, u10, u11, u12, u13, u14, u15⟩


/-- OBSERVATION (memory safety on crafted records, not one of the 20 properties): `vunpackvs` has no length check.
    (1) a record cut short: the reader refuses it, the translated C reads outside the buffer;
    (2) a record the reader ACCEPTS whose `vsname` has 70 bytes: `HIstrncpy(vs->vsname, …, 71)` stores behind the 65-byte array
        (`Pre` excludes it: the library itself never writes such a name, VSsetname truncates to VSNAMELENMAX) -/
example :
    let v : VH := ⟨0, 20, 12, [⟨24, 4, 0, 1, [0x61]⟩], [0x74], [0x63], 0, 0, 3, 0, 0, []⟩
    let rc := (Format.vpackvs v).take 20
    Format.vunpackvs rc = none ∧ (vunpackvsC (fun t => t) (fun _ => 4) 30 (zeroed (bytesI rc) 20)).ub = true ∧
    let w : VH := ⟨0, 0, 0, [], List.replicate 70 0x41, [], 0, 0, 3, 0, 0, []⟩
    Format.vunpackvs (Format.vpackvs w) = some w ∧ ¬ Pre w 65 65 ∧
      (vunpackvsC (fun t => t) (fun _ => 4) 100 (zeroed (bytesI (Format.vpackvs w)) (Format.vpackvs w).length)).ub = true := by
  decide +kernel

end H4.Props.C07Fn3
