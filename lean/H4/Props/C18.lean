import H4.Lemmas.Tiles
import H4.Lemmas.ToolsParse
import H4.Props.C03
/-! # C18 — hrepack preserves content while changing only layout (property theorems)

Part 1: the hyperslab (strip-mine) copy of `copy_sds` visits every cell exactly once, hence equals the whole copy.
Part 2: the layout decision (`options_get_info` + the rules around it in `copy_sds` / `copy_gr`).
Part 3: the option grammar of `hrepack_parse.c`.
Part 4: which vgroups / vdatas are copied (`is_reserved` is an exact match on the class; every other user object arrives). -/
namespace H4.Props.C18
open H4.Tools H4.Slab H4.Gen.Tools

/-! ## Part 1 — tiling -/

/-- **tiles_partition.** For every rank, every shape (extents ≥ 1) and every strip-mine shape (sizes ≥ 1), the
    `(hs_offset, hs_size)` pairs produced by the `elmtno` / carry loop of `copy_sds`, expanded to their cells, are a
    permutation of all cells of the index space: every cell is copied exactly once. -/
theorem tiles_partition (dims sm : List Nat) (hv : Valid dims sm) :
    ((tiles dims sm).flatMap fun t => cells t.1 t.2).Perm (cells (zeros dims) dims) := by
  rw [tiles_eq_grid dims sm hv]
  exact grid_cells_perm dims sm hv

/-- the same for the strip-mine sizes `copy_sds` computes itself from the buffer size and the element size -/
theorem copy_tiles_partition (bufsize eltsz : Nat) (dims : List Nat) (he : 1 ≤ eltsz) (hb : eltsz ≤ bufsize)
    (hd : ∀ d ∈ dims, 1 ≤ d) :
    ((copyTiles bufsize eltsz dims).flatMap fun t => cells t.1 t.2).Perm (cells (zeros dims) dims) :=
  tiles_partition dims _ (smSize_valid bufsize eltsz he hb dims hd).1

/-- a strip-mine tile never exceeds the buffer: `sm_nbytes ≤ H4TOOLS_BUFSIZE` -/
theorem strip_mine_fits (bufsize eltsz : Nat) (dims : List Nat) (he : 1 ≤ eltsz) (hb : eltsz ≤ bufsize)
    (hd : ∀ d ∈ dims, 1 ≤ d) : (smSize bufsize eltsz dims).2 ≤ bufsize :=
  (smSize_valid bufsize eltsz he hb dims hd).2.2

example : Valid [3, 4, 5] [2, 3, 2] := by decide
example : (tiles [3, 4] [2, 3]) = [([0, 0], [2, 3]), ([0, 3], [2, 1]), ([2, 0], [1, 3]), ([2, 3], [1, 1])] := by decide
example : copyTiles 10 2 [3, 4] = [([0, 0], [1, 4]), ([1, 0], [1, 4]), ([2, 0], [1, 4])] := by decide

/-! ### tiled copy = whole copy (on the array model of C03) -/

open H4.Props.C03

/-- the write requests of the hyperslab copy: each tile is written with the source values of its cells -/
def tileOps {α} (src : Arr α) (ts : List (List Nat × List Nat)) : List (Op α) :=
  ts.map fun t => Op.write t.1 t.2 ((cells t.1 t.2).map src)

theorem assign_src {α} (src : Arr α) : ∀ (cs : List (List Nat)) (a : Arr α) (c : List Nat),
    (a c = src c ∨ c ∈ cs) → assign a cs (cs.map src) c = src c := by
  intro cs
  induction cs with
  | nil => intro a c h; rcases h with h | h
           · simpa [assign] using h
           · simp at h
  | cons c0 cs ih =>
    intro a c h
    simp only [List.map_cons, assign]
    apply ih
    by_cases e : c = c0
    · left; subst e; simp [upd]
    · rcases h with h | h
      · left; simp [upd, e, h]
      · right; simpa [e] using h

theorem runArr_tileOps {α} (src : Arr α) : ∀ (ts : List (List Nat × List Nat)) (a : Arr α) (c : List Nat),
    (a c = src c ∨ c ∈ ts.flatMap fun t => cells t.1 t.2) → (runArr a (tileOps src ts)).1 c = src c := by
  intro ts
  induction ts with
  | nil => intro a c h; rcases h with h | h
           · simpa [tileOps, runArr] using h
           · simp at h
  | cons t ts ih =>
    intro a c h
    simp only [tileOps, List.map_cons, runArr, stepArr]
    apply ih
    simp only [List.flatMap_cons, List.mem_append] at h
    rcases h with h | h | h
    · left; exact assign_src src _ a c (Or.inl h)
    · left; exact assign_src src _ a c (Or.inr h)
    · right; exact h

theorem blk_inRange (s : Nat) : ∀ (fuel o rem : Nat), ∀ b ∈ blk s fuel o rem, b.1 + b.2 ≤ o + rem ∧ o ≤ b.1 := by
  intro fuel
  induction fuel with
  | zero => intro o rem b hb; simp [blk] at hb
  | succ fuel ih =>
    intro o rem b hb
    by_cases h0 : rem = 0
    · simp [blk, h0] at hb
    · simp only [blk, h0, if_false, List.mem_cons] at hb
      have hm : min rem s ≤ rem := Nat.min_le_left _ _
      rcases hb with rfl | hb
      · exact ⟨by simp; omega, Nat.le_refl _⟩
      · have := ih _ _ b hb
        omega

theorem grid_inRange : ∀ (dims sm : List Nat), Valid dims sm → ∀ t ∈ grid dims sm, inRange dims t.1 t.2 := by
  intro dims
  induction dims with
  | nil => intro sm hv t ht; cases sm <;> simp [grid] at ht <;> subst ht <;> simp [inRange]
  | cons d ds ih =>
    intro sm hv t ht
    cases sm with
    | nil => simp [Valid] at hv
    | cons s ss =>
      obtain ⟨_, _, hv'⟩ := hv
      simp only [grid, List.mem_flatMap, List.mem_map] at ht
      obtain ⟨b, hb, t', ht', rfl⟩ := ht
      have := blk_inRange s _ _ _ b hb
      exact ⟨by omega, ih ss hv' t' ht'⟩

theorem inRange_zeros : ∀ (dims : List Nat), inRange dims (zeros dims) dims := by
  intro dims; induction dims with
  | nil => simp [zeros, inRange]
  | cons d ds ih => exact ⟨by simp, ih⟩

theorem mem_cells_of_inB : ∀ (dims c : List Nat), inB dims c → c ∈ cells (zeros dims) dims := by
  intro dims
  induction dims with
  | nil => intro c h; cases c <;> simp [inB] at h; simp [cells, zeros]
  | cons d ds ih =>
    intro c h
    cases c with
    | nil => simp [inB] at h
    | cons x xs =>
      obtain ⟨hx, hxs⟩ := h
      simp only [zeros_cons, cells, List.mem_flatMap, List.mem_range, List.mem_map]
      exact ⟨x, hx, xs, ih xs hxs, by simp⟩

/-- **tiled copy = whole copy.** Copy a dataset `src` into a destination image through the hyperslab loop of
    `copy_sds` (one `SDwritedata` per tile, executed by `NCvario`'s run decomposition, C03) or through one whole
    `SDwritedata`: in both cases the destination image has the right length and holds, for every in-range cell,
    the source value; so the two images agree on every cell. Any rank, shape, strip-mine shape, initial destination. -/
theorem tiled_copy_eq_whole_copy {α} (d : α) (dims sm : List Nat) (hv : Valid dims sm) (src : Arr α)
    (img0 : List α) (a0 : Arr α) (hrep : Rep d dims img0 a0) :
    let tiled := (runImg d dims img0 (tileOps src (tiles dims sm))).1
    let whole := (runImg d dims img0 [Op.write (zeros dims) dims ((cells (zeros dims) dims).map src)]).1
    tiled.length = prod dims ∧ whole.length = prod dims ∧
    ∀ c, inB dims c → tiled.getD (offset dims c) d = src c ∧ whole.getD (offset dims c) d = src c := by
  intro tiled whole
  have hvalid : ∀ op ∈ tileOps src (tiles dims sm), op.Valid dims := by
    intro op hop
    simp only [tileOps, List.mem_map] at hop
    obtain ⟨t, ht, rfl⟩ := hop
    rw [tiles_eq_grid dims sm hv] at ht
    exact ⟨grid_inRange dims sm hv t ht, by simp⟩
  have hvalid2 : ∀ op ∈ [Op.write (zeros dims) dims ((cells (zeros dims) dims).map src)], op.Valid dims := by
    intro op hop
    simp only [List.mem_singleton] at hop
    subst hop
    exact ⟨inRange_zeros dims, by simp⟩
  obtain ⟨_, r1⟩ := slab_refines_array d dims _ img0 a0 hvalid hrep
  obtain ⟨_, r2⟩ := slab_refines_array d dims _ img0 a0 hvalid2 hrep
  refine ⟨r1.1, r2.1, ?_⟩
  intro c hc
  have hmem := mem_cells_of_inB dims c hc
  constructor
  · rw [r1.2 c hc]
    apply runArr_tileOps
    right
    exact (tiles_partition dims sm hv).mem_iff.mpr hmem
  · rw [r2.2 c hc]
    have := runArr_tileOps src [(zeros dims, dims)] a0 c (Or.inr (by simpa using hmem))
    simpa [tileOps] using this

/-! ## Part 2 — the layout decision -/

/-- a layout the library can represent: not chunked / chunked / chunked+compressed; a chunked layout without the
    compression flag reports no coder, one with the flag reports a coder; an unchunked layout has no chunk lengths -/
def WFLayout (l : Layout) : Prop :=
  (l.flags = HDF_NONE ∨ l.flags = HDF_CHUNK ∨ l.flags = (HDF_CHUNK ||| HDF_COMP)) ∧
  (l.flags = HDF_CHUNK → l.comp = COMP_CODE_NONE) ∧
  (l.flags = (HDF_CHUNK ||| HDF_COMP) → l.comp ≠ COMP_CODE_NONE) ∧
  (l.flags = HDF_NONE → l.lens = [])

theorem chunkedLayout_wf (s : LState) (r : Bool) : WFLayout (chunkedLayout s r) := by
  unfold chunkedLayout
  split
  · rename_i h; refine ⟨Or.inr (Or.inr rfl), ?_, fun _ => h.2, ?_⟩ <;> simp [HDF_CHUNK, HDF_COMP, HDF_NONE]
  · refine ⟨Or.inr (Or.inl rfl), fun _ => rfl, ?_, ?_⟩ <;> simp [HDF_CHUNK, HDF_COMP, HDF_NONE]

theorem plain_wf (c i : Int) (r : Bool) : WFLayout ⟨HDF_NONE, c, i, [], r⟩ := by
  refine ⟨Or.inl rfl, ?_, ?_, fun _ => rfl⟩ <;> simp [HDF_CHUNK, HDF_COMP, HDF_NONE]

/-- **decision_total.** Every object of the input file gets exactly one decision (`decide_` is a total function of the
    parsed options and the object): either the copy is refused (`fail`: hrepack exits 1) or one well-formed layout. -/
theorem decision_total (o : Options) (ob : Obj) :
    decide_ o ob = .fail ∨ ∃ l, decide_ o ob = .ok l ∧ WFLayout l := by
  unfold decide_ sdsDecide grDecide
  repeat (first
    | exact Or.inl rfl
    | exact Or.inr ⟨_, rfl, plain_wf _ _ _⟩
    | exact Or.inr ⟨_, rfl, chunkedLayout_wf _ _⟩
    | split
    | dsimp only)

/-- `setChunkComp` only touches the flags and the chunk-level coder -/
theorem setChunkComp_frame (s s' : LState) (t i : Int) (b : Bool) (h : setChunkComp s t i b = some s') :
    s'.comp = s.comp ∧ s'.info = s.info ∧ s'.lens = s.lens ∧ s'.flags = (HDF_CHUNK ||| HDF_COMP) ∧ s'.ccomp = t := by
  unfold setChunkComp at h
  simp only at h
  split at h
  · cases h; simp
  split at h
  · cases h
  split at h
  · cases h; simp
  split at h
  · cases h
  · cases h; simp

-- case analysis of a hypothesis `h : optionsGetInfo .. = GI.ok hv s'` after `unfold`: split every branch, discard the
-- failing ones, substitute, bring in the frame of `setChunkComp`, simplify
set_option hygiene false in
macro "gi_auto" : tactic => `(tactic| (
  repeat' (first | split at h | dsimp only at h)
  all_goals (first | (cases h; done) | skip)
  all_goals (injection h with h1 h2; subst h1; subst h2)
  all_goals (try subst_vars)
  all_goals (try (have fr := setChunkComp_frame _ _ _ _ _ (by assumption)))
  all_goals simp_all [HDF_NONE, HDF_CHUNK, HDF_COMP, isChunkComp]))

/-- **explicit_object_wins (compression).** Whenever no `-t "*:..."` is in force, an object that is named in a `-t`
    option gets exactly the coder of ITS entry (`have_info` = 1), whatever `-c "*:..."` says and whatever the
    input layout was. -/
theorem explicit_object_wins (o : Options) (s : LState) (rank : Nat) (path : Str) (e : PackInfo)
    (hno : o.allComp = false) (he : getObject path o.tbl = some e) (hc : e.comp.type ≥ 0)
    (hv : Nat) (s' : LState) (h : optionsGetInfo o s rank path = .ok hv s') :
    hv = 1 ∧ s'.comp = e.comp.type ∧ s'.info = e.comp.info := by
  unfold optionsGetInfo globalCompTail at h
  simp only [hno, he] at h
  gi_auto

/-- **explicit_object_wins (chunking).** Whenever no `-c "*:..."` is in force, an object named in a `-c` option with
    lengths of its own rank is chunked with exactly those lengths. -/
theorem explicit_chunk_wins (o : Options) (s : LState) (rank : Nat) (path : Str) (e : PackInfo)
    (hno : o.allChunk = false) (he : getObject path o.tbl = some e) (hr : e.chunk.rank = (rank : Int)) (hpos : 0 < rank)
    (hv : Nat) (s' : LState) (h : optionsGetInfo o s rank path = .ok hv s') :
    s'.lens = e.chunk.lens ∧ (s'.flags = HDF_CHUNK ∨ s'.flags = (HDF_CHUNK ||| HDF_COMP)) := by
  have h2 : ¬ ((rank : Int) = -2) := by omega
  have h3 : (0 : Int) < rank := by omega
  unfold optionsGetInfo globalCompTail at h
  simp only [hno, he, hr] at h
  gi_auto

/-- `have_info` is 1 exactly for a named object outside the all/all case, else 0 -/
theorem have_info_iff (o : Options) (s : LState) (rank : Nat) (path : Str) (hv : Nat) (s' : LState)
    (h : optionsGetInfo o s rank path = .ok hv s') :
    hv = if (getObject path o.tbl).isSome ∧ ¬(o.allChunk = true ∧ o.allComp = true) then 1 else 0 := by
  unfold optionsGetInfo globalCompTail at h
  gi_auto

/-- **none_means_none (chunking), at the level of `options_get_info`.** `-c "<obj>:NONE"` without a global `-c`, or the
    global `-c "*:NONE"` (since commit 48a8fb3), reset the chunk flags to HDF_NONE. -/
theorem none_means_none_chunk (o : Options) (s : LState) (rank : Nat) (path : Str)
    (hn : (o.allChunk = false ∧ ∃ e, getObject path o.tbl = some e ∧ e.chunk.rank = -2) ∨ (o.allChunk = true ∧ o.chunkG.rank = -2))
    (hv : Nat) (s' : LState) (h : optionsGetInfo o s rank path = .ok hv s') : s'.flags = HDF_NONE := by
  have h2 : ¬ ((-2 : Int) = rank) := by omega
  unfold optionsGetInfo globalCompTail at h
  rcases hn with ⟨hno, e, he, hr⟩ | ⟨hall, hr⟩
  · simp only [hno, he, hr] at h
    gi_auto
  · simp only [hall, hr] at h
    gi_auto


theorem chunkedLayout_flags (s : LState) (r : Bool) : (chunkedLayout s r).flags ≠ 0 := by
  unfold chunkedLayout; split <;> simp [HDF_CHUNK, HDF_COMP]

theorem chunkedLayout_comp_zero (s : LState) (r : Bool) (h : isChunkComp s.flags = true → s.ccomp = 0) :
    (chunkedLayout s r).comp = 0 := by
  unfold chunkedLayout
  by_cases hc : isChunkComp s.flags = true
  · simp [hc, h hc, COMP_CODE_NONE]
  · simp [hc, COMP_CODE_NONE]

/-- size in bytes as `copy_sds` / `copy_gr` compute it (`nelms * eltsz`) -/
def objSize (ob : Obj) : Int := (prodN ob.dims * ob.eltsz : Nat)

-- leaves of `sdsDecide` / `grDecide`
set_option hygiene false in
macro "dec_auto" : tactic => `(tactic| (
  repeat' (first | split at h | dsimp only at h)
  all_goals (first | (cases h; done) | skip)
  all_goals (injection h with h1; subst h1)
  all_goals (try subst_vars)
  all_goals simp_all [HDF_NONE, HDF_CHUNK, HDF_COMP, isChunkComp, chunkedLayout_flags, objSize, COMP_CODE_NONE]))

/-- **threshold_respected (datasets).** What holds exactly: a dataset smaller than the `-m` threshold that is NOT
    chunked in the output is not compressed in the output, for every option combination and every input layout
    (both threshold tests of `copy_sds`). For chunked outputs the threshold is not consulted at all when the request
    comes from `*` options (see the counterexample below). -/
theorem threshold_respected (o : Options) (ob : Obj) (l : Layout) (hsmall : objSize ob < o.threshold)
    (h : sdsDecide o ob = .ok l) (hf : l.flags = HDF_NONE) : l.comp = COMP_CODE_NONE := by
  unfold sdsDecide at h
  dec_auto

/-- for an explicitly named small dataset that was not chunked in the input nothing is changed at all:
    not chunked, not compressed (it is even DEcompressed if it was compressed) -/
theorem threshold_respected_named (o : Options) (ob : Obj) (l : Layout) (e : PackInfo) (hsmall : objSize ob < o.threshold)
    (hnamed : getObject ob.path o.tbl = some e) (hnot44 : ¬(o.allChunk = true ∧ o.allComp = true)) (hin : ob.flags = HDF_NONE)
    (h : sdsDecide o ob = .ok l) : l.flags = HDF_NONE ∧ l.comp = COMP_CODE_NONE := by
  unfold sdsDecide at h
  repeat' (first | split at h | dsimp only at h)
  all_goals (first | (cases h; done) | skip)
  all_goals (injection h with h1; subst h1)
  all_goals (try (have hh := have_info_iff _ _ _ _ _ _ (by assumption)))
  all_goals simp_all [HDF_NONE, HDF_CHUNK, HDF_COMP, isChunkComp, chunkedLayout_flags, objSize, COMP_CODE_NONE]

/-- **threshold_respected (images).** `copy_gr` consults the threshold only when `have_info` ≠ 0, i.e. for images named
    in an option: such a small image that is not chunked in the output is not compressed. -/
theorem threshold_respected_gr (o : Options) (ob : Obj) (l : Layout) (e : PackInfo) (hsmall : objSize ob < o.threshold)
    (hnamed : getObject ob.path o.tbl = some e) (hnot44 : ¬(o.allChunk = true ∧ o.allComp = true))
    (h : grDecide o ob = .ok l) (hf : l.flags = HDF_NONE) : l.comp = COMP_CODE_NONE := by
  unfold grDecide at h
  repeat' (first | split at h | dsimp only at h)
  all_goals (first | (cases h; done) | skip)
  all_goals (injection h with h1; subst h1)
  all_goals (try (have hh := have_info_iff _ _ _ _ _ _ (by assumption)))
  all_goals simp_all [HDF_NONE, HDF_CHUNK, HDF_COMP, isChunkComp, chunkedLayout_flags, objSize, COMP_CODE_NONE]


/-- `-t "<obj>:NONE"` at the level of `options_get_info`: the coder becomes NONE; a chunk-level coder survives only if
    it was the input's own (`flags` already HDF_CHUNK|HDF_COMP and no `-c` for the object) -/
theorem none_comp_getinfo (o : Options) (s : LState) (rank : Nat) (path : Str) (e : PackInfo)
    (hno : o.allComp = false) (he : getObject path o.tbl = some e) (hc : e.comp.type = COMP_CODE_NONE)
    (hv : Nat) (s' : LState) (h : optionsGetInfo o s rank path = .ok hv s') :
    s'.comp = COMP_CODE_NONE ∧ (isChunkComp s'.flags = true → s'.ccomp = COMP_CODE_NONE ∨ isChunkComp s.flags = true) := by
  unfold optionsGetInfo globalCompTail at h
  simp only [hno, he, hc] at h
  gi_auto

/-- **none_means_none (compression).** An object named in `-t "<obj>:NONE"` (no global `-t`) whose input is not stored
    as compressed chunks is written without compression, whatever the other options and the threshold are.
    (For an input that IS chunked+compressed and gets no `-c`, hrepack keeps the compressed chunks: see the example.) -/
theorem none_means_none (o : Options) (ob : Obj) (e : PackInfo) (l : Layout)
    (hno : o.allComp = false) (he : getObject ob.path o.tbl = some e) (hc : e.comp.type = COMP_CODE_NONE)
    (hin : isChunkComp ob.flags = false) (h : decide_ o ob = .ok l) : l.comp = COMP_CODE_NONE := by
  unfold decide_ at h
  split at h
  · unfold sdsDecide at h
    repeat' (first | split at h | dsimp only at h)
    all_goals (first | (cases h; done) | skip)
    all_goals (injection h with h1; subst h1)
    all_goals (try (have hh := none_comp_getinfo _ _ _ _ _ hno he hc _ _ (by assumption)))
    all_goals (try (apply chunkedLayout_comp_zero))
    all_goals simp_all [HDF_NONE, HDF_CHUNK, HDF_COMP, isChunkComp, initState, COMP_CODE_NONE]
    all_goals (intro hf3; rcases hh.2 hf3 with h0 | h3 <;> simp_all)
  · unfold grDecide at h
    repeat' (first | split at h | dsimp only at h)
    all_goals (first | (cases h; done) | skip)
    all_goals (injection h with h1; subst h1)
    all_goals (try (have hh := none_comp_getinfo _ _ _ _ _ hno he hc _ _ (by assumption)))
    all_goals (try (apply chunkedLayout_comp_zero))
    all_goals simp_all [HDF_NONE, HDF_CHUNK, HDF_COMP, isChunkComp, initState, COMP_CODE_NONE]
    all_goals (intro hf3; rcases hh.2 hf3 with h0 | h3 <;> simp_all)
  · cases h; rfl

/-- **none_means_none (chunking).** `-c "<obj>:NONE"` (no global `-c`) or `-c "*:NONE"`: a dataset / image that is not
    below the threshold is written unchunked. -/
theorem none_means_unchunked (o : Options) (ob : Obj) (l : Layout)
    (hn : (o.allChunk = false ∧ ∃ e, getObject ob.path o.tbl = some e ∧ e.chunk.rank = -2) ∨ (o.allChunk = true ∧ o.chunkG.rank = -2))
    (hbig : ¬ objSize ob < o.threshold) (h : decide_ o ob = .ok l) : l.flags = HDF_NONE := by
  unfold decide_ at h
  split at h
  · unfold sdsDecide at h
    repeat' (first | split at h | dsimp only at h)
    all_goals (first | (cases h; done) | skip)
    all_goals (injection h with h1; subst h1)
    all_goals (try (have hh := none_means_none_chunk _ _ _ _ hn _ _ (by assumption)))
    all_goals simp_all [HDF_NONE, HDF_CHUNK, HDF_COMP, isChunkComp, objSize]
    all_goals omega
  · unfold grDecide at h
    repeat' (first | split at h | dsimp only at h)
    all_goals (first | (cases h; done) | skip)
    all_goals (injection h with h1; subst h1)
    all_goals (try (have hh := none_means_none_chunk _ _ _ _ hn _ _ (by assumption)))
    all_goals simp_all [HDF_NONE, HDF_CHUNK, HDF_COMP, isChunkComp, objSize]
    all_goals omega
  · cases h; rfl


/-! ### what does NOT hold (the precise limits of the statements above, as executable counterexamples) -/

/-- options of `hrepack -t "*:GZIP 6" -c "*:2x2"` -/
def optsGlobal : Options := (mainLoop ["-t".toList, "*:GZIP 6".toList, "-c".toList, "*:2x2".toList] {}).getD {}
/-- a 4x4 one-byte dataset (16 bytes, far below the default 1024-byte threshold), stored contiguously -/
def tinySds : Obj := { kind := .sds, path := "a".toList, rank := 2, dims := [4, 4], eltsz := 1 }

/-- the threshold is NOT consulted for chunked output requested through `*` options: the tiny dataset is chunked AND compressed -/
example : objSize tinySds < optsGlobal.threshold ∧ sdsDecide optsGlobal tinySds = .ok ⟨3, 4, 6, [2, 2], false⟩ := by decide +kernel

/-- images: with `-t "*:RLE"` alone (`have_info` = 0) a tiny image IS compressed, a tiny dataset is not -/
example : grDecide ((mainLoop ["-t".toList, "*:RLE".toList] {}).getD {}) { tinySds with kind := .gr } = .ok ⟨0, 1, 0, [], false⟩
    ∧ sdsDecide ((mainLoop ["-t".toList, "*:RLE".toList] {}).getD {}) tinySds = .ok ⟨0, 0, 0, [], false⟩ := by decide +kernel

/-- `-t "a:NONE"` does NOT uncompress a dataset stored as compressed chunks (no `-c` for it): hypothesis `hin` of
    `none_means_none` is necessary -/
example : sdsDecide ((mainLoop ["-t".toList, "a:NONE".toList, "-m".toList, "0".toList] {}).getD {})
      { tinySds with flags := 3, comp := 4, info := 6, lens := [2, 2] } = .ok ⟨3, 4, 6, [2, 2], false⟩ := by decide +kernel

/-- an explicit `-t "a:NONE"` LOSES against a later `-t "*:RLE"` (hypothesis `hno` of `explicit_object_wins`) -/
example : sdsDecide ((mainLoop ["-t".toList, "a:NONE".toList, "-t".toList, "*:RLE".toList, "-m".toList, "0".toList] {}).getD {}) tinySds
      = .ok ⟨0, 1, 0, [], false⟩ := by decide +kernel

/-- an explicit request wins against the global chunking, and the two combine: chunked 2x2 + the object's own coder -/
example : sdsDecide ((mainLoop ["-c".toList, "*:2x2".toList, "-t".toList, "a:HUFF 1".toList, "-m".toList, "0".toList] {}).getD {}) tinySds
      = .ok ⟨3, 3, 1, [2, 2], false⟩ := by decide +kernel

/-- an unlimited dataset loses its unlimited dimension when a coder is requested, even if the threshold then cancels the
    compression (known finding `sds-unlimited-lost`) -/
example : sdsDecide ((mainLoop ["-t".toList, "*:RLE".toList] {}).getD {}) { tinySds with isrec := true } = .ok ⟨0, 0, 0, [], false⟩ := by decide +kernel

/-- hypotheses of the theorems above are satisfiable -/
example : getObject "a".toList ((mainLoop ["-t".toList, "a:NONE".toList] {}).getD {}).tbl = some ⟨"a".toList, ⟨0, -1⟩, ⟨-1, []⟩⟩ := by decide +kernel
example : runStatus ["-t".toList, "a:GZIP 1".toList, "-c".toList, "a:2x2".toList] [tinySds] = .ok := by decide +kernel
example : runStatus ["-c".toList, "a:2x2x2".toList] [tinySds] = .fail := by decide +kernel      -- chunk rank does not match
example : runStatus ["-t".toList, "b:RLE".toList] [tinySds] = .fail := by decide +kernel        -- <b> not found
example : runStatus ["-t".toList, "a:RLE".toList, "-t".toList, "*:RLE".toList] [tinySds] = .fail := by decide +kernel  -- print_options
example : runStatus ["-t".toList, "*:RLE".toList, "-t".toList, "a:RLE".toList] [tinySds] = .usage := by decide +kernel

/-! ## Part 3 — the option grammar of `hrepack_parse.c` -/

/-- a compression request the usage text describes: `NONE`, `RLE`, `HUFF <skip 1..9999>`, `GZIP <level 0..9>`,
    `JPEG <quality 0..100>` (`info` stays at its initial -1 when the coder takes no parameter) -/
def GoodComp (c : Comp) : Prop :=
  (c.type = COMP_CODE_NONE ∧ c.info = -1) ∨ (c.type = COMP_CODE_RLE ∧ c.info = -1) ∨
  (c.type = COMP_CODE_SKPHUFF ∧ 1 ≤ c.info ∧ c.info ≤ 9999) ∨ (c.type = COMP_CODE_DEFLATE ∧ 0 ≤ c.info ∧ c.info ≤ 9) ∨
  (c.type = COMP_CODE_JPEG ∧ 0 ≤ c.info ∧ c.info ≤ 100)

theorem not_mem_of_digits (s : Str) (h : ∀ c ∈ s, c.isDigit = true) : ':' ∉ s ∧ ',' ∉ s := by
  constructor <;> (intro hm; have := h _ hm; simp at this)

theorem compValue_param_case (nm : Str) (t : Int) (n : Nat) (hnm : ∀ c ∈ nm, c ≠ ' ') (hl : nm.length < SCOMP_SZ - 1)
    (hs : nm ≠ "SZIP".toList) (hn : n < 10 ^ 4) (hof : compOfName nm (natStr n).length false (n : Int) = some ⟨t, n⟩) :
    compValue (nm ++ ' ' :: natStr n) [] = some ⟨t, n⟩ := by
  rw [compValue_prefix nm [] _ hnm (by simp; omega) (by simp)]
  rw [List.nil_append, compValue_param nm _ hl (natStr_digits n) (by have := natStr_length n 4 (by omega) hn; simp [STYPE_SZ]; omega) hs]
  rw [atoi_natStr]; exact hof

/-- the value part: printing a well-formed request and scanning it returns the request, and the parameter check accepts it -/
theorem compValue_roundtrip (c : Comp) (h : GoodComp c) :
    compValue (compValueStr c) [] = some c ∧ compParamOk c = true ∧ ':' ∉ compValueStr c ∧ ',' ∉ compValueStr c ∧ compValueStr c ≠ [] := by
  obtain ⟨t, i⟩ := c
  rcases h with ⟨h1, h2⟩ | ⟨h1, h2⟩ | ⟨h1, h2, h3⟩ | ⟨h1, h2, h3⟩ | ⟨h1, h2, h3⟩ <;> simp only at h1 h2 <;> subst h1
  · subst h2; decide
  · subst h2; decide
  · simp only at h3
    obtain ⟨n, rfl⟩ : ∃ n : Nat, i = n := ⟨i.toNat, by omega⟩
    have hnm := not_mem_of_digits _ (natStr_digits n)
    have hstr : compValueStr ⟨COMP_CODE_SKPHUFF, n⟩ = "HUFF".toList ++ ' ' :: natStr n := by
      simp [compValueStr, compName, COMP_CODE_RLE, COMP_CODE_SKPHUFF, COMP_CODE_DEFLATE, COMP_CODE_JPEG]
    rw [hstr]
    refine ⟨?_, ?_, ?_, ?_, by simp⟩
    · exact compValue_param_case _ _ n (by decide) (by decide) (by decide) (by omega) (by simp [compOfName, COMP_CODE_SKPHUFF])
    · simp [compParamOk, COMP_CODE_SKPHUFF]; omega
    · simp [hnm.1]
    · simp [hnm.2]
  · simp only at h3
    obtain ⟨n, rfl⟩ : ∃ n : Nat, i = n := ⟨i.toNat, by omega⟩
    have hnm := not_mem_of_digits _ (natStr_digits n)
    have hstr : compValueStr ⟨COMP_CODE_DEFLATE, n⟩ = "GZIP".toList ++ ' ' :: natStr n := by
      simp [compValueStr, compName, COMP_CODE_RLE, COMP_CODE_SKPHUFF, COMP_CODE_DEFLATE, COMP_CODE_JPEG]
    rw [hstr]
    refine ⟨?_, ?_, ?_, ?_, by simp⟩
    · exact compValue_param_case _ _ n (by decide) (by decide) (by decide) (by omega) (by simp [compOfName, COMP_CODE_DEFLATE])
    · simp [compParamOk, COMP_CODE_SKPHUFF, COMP_CODE_DEFLATE]; omega
    · simp [hnm.1]
    · simp [hnm.2]
  · simp only at h3
    obtain ⟨n, rfl⟩ : ∃ n : Nat, i = n := ⟨i.toNat, by omega⟩
    have hnm := not_mem_of_digits _ (natStr_digits n)
    have hstr : compValueStr ⟨COMP_CODE_JPEG, n⟩ = "JPEG".toList ++ ' ' :: natStr n := by
      simp [compValueStr, compName, COMP_CODE_RLE, COMP_CODE_SKPHUFF, COMP_CODE_DEFLATE, COMP_CODE_JPEG]
    rw [hstr]
    refine ⟨?_, ?_, ?_, ?_, by simp⟩
    · exact compValue_param_case _ _ n (by decide) (by decide) (by decide) (by omega) (by simp [compOfName, COMP_CODE_JPEG])
    · simp [compParamOk, COMP_CODE_SKPHUFF, COMP_CODE_DEFLATE, COMP_CODE_JPEG]; omega
    · simp [hnm.1]
    · simp [hnm.2]

/-- **parse_comp round trip.** For every non-empty list of representable object names (non-empty, no `,` or `:`,
    shorter than `H4_MAX_NC_NAME`-1) and every well-formed request, `parse_comp` applied to the printed option
    `<names>:<type>[ <parameter>]` returns exactly the names and the request. -/
theorem parse_comp_roundtrip (names : List Str) (c : Comp) (hne : names ≠ [])
    (hg : ∀ n ∈ names, GoodName n ∧ ':' ∉ n) (hc : GoodComp c) :
    parseComp (showComp names c) = some (names.length, names, c) := by
  obtain ⟨h1, h2, h3, h4, h5⟩ := compValue_roundtrip c hc
  have hcol : ':' ∉ joinNames names := colon_not_mem_join names fun n hn => (hg n hn).2
  unfold parseComp showComp
  rw [lastColon_split _ _ h3]
  have hbad := badObjList_split (joinNames names) (compValueStr c) (joinNames_ne_nil names hne fun n hn => (hg n hn).1)
    (joinNames_getLast names hne fun n hn => (hg n hn).1)
  have ht : List.take (joinNames names).length (joinNames names ++ ':' :: compValueStr c) = joinNames names := by simp
  have hdr : List.drop ((joinNames names).length + 1) (joinNames names ++ ':' :: compValueStr c) = compValueStr c := by
    rw [← List.drop_drop]; simp
  have hemp : (compValueStr c).isEmpty = false := by cases hx : compValueStr c <;> simp_all
  simp only [hbad, ht, hdr, namesLoop_join names hne fun n hn => (hg n hn).1, hemp, h1, h2, if_true, Bool.false_eq_true, if_false]
  have hcnt : countCommas (joinNames names ++ ':' :: compValueStr c) = names.length - 1 := by
    unfold countCommas
    rw [List.count_append, List.count_cons, count_joinNames names hne fun n hn => (hg n hn).1.2.1,
      List.count_eq_zero.mpr h4]
    simp
  rw [hcnt]
  have : 1 ≤ names.length := by cases names <;> simp_all
  congr 2; omega

example : parseComp (showComp ["grp/a".toList, "b".toList] ⟨COMP_CODE_DEFLATE, 6⟩) = some (2, ["grp/a".toList, "b".toList], ⟨4, 6⟩) := by decide +kernel

/-- a chunk request the usage text describes: `NONE`, or 1..32 (`H4_MAX_VAR_DIMS`) lengths, each 1 .. 99 999 999 -/
def GoodChunk (ck : Chunk) : Prop :=
  (ck.rank = -2 ∧ ck.lens = []) ∨
  (ck.lens ≠ [] ∧ ck.lens.length ≤ H4_MAX_VAR_DIMS ∧ ck.rank = (ck.lens.length : Nat) ∧ ∀ n ∈ ck.lens, 1 ≤ n ∧ n < 10 ^ 8)

theorem joinDims_chars : ∀ (l : List Nat), ':' ∉ joinDims l ∧ ',' ∉ joinDims l := by
  intro l
  induction l with
  | nil => simp [joinDims]
  | cons n ms ih =>
    have hd := not_mem_of_digits _ (natStr_digits n)
    cases ms with
    | nil => simpa [joinDims] using hd
    | cons m ms' =>
      simp only [joinDims, List.mem_append, List.mem_cons, not_or]
      exact ⟨⟨hd.1, by decide, ih.1⟩, ⟨hd.2, by decide, ih.2⟩⟩

/-- **parse_chunk round trip.** -/
theorem parse_chunk_roundtrip (names : List Str) (ck : Chunk) (hne : names ≠ [])
    (hg : ∀ n ∈ names, GoodName n ∧ ':' ∉ n) (hc : GoodChunk ck) :
    parseChunk (showChunk names ck) = some (names.length, names, ck) := by
  have hval : chunkValue (chunkValueStr ck) [] [] = some ck ∧ ':' ∉ chunkValueStr ck ∧ ',' ∉ chunkValueStr ck ∧ chunkValueStr ck ≠ [] := by
    obtain ⟨r, l⟩ := ck
    rcases hc with ⟨h1, h2⟩ | ⟨h1, hroom, h2, h3⟩ <;> simp only at h1 h2
    · subst h1; subst h2; decide
    · subst h2
      have hr : ¬ ((l.length : Int) = -2) := by omega
      simp only [chunkValueStr, hr, if_false]
      have := chunkValue_joinDims l [] h1 h3 (by simpa using hroom)
      simp only [List.nil_append] at this
      exact ⟨this, (joinDims_chars l).1, (joinDims_chars l).2, joinDims_ne_nil l h1⟩
  obtain ⟨h1, h3, h4, h5⟩ := hval
  have hcol : ':' ∉ joinNames names := colon_not_mem_join names fun n hn => (hg n hn).2
  unfold parseChunk showChunk
  rw [lastColon_split _ _ h3]
  have hbad := badObjList_split (joinNames names) (chunkValueStr ck) (joinNames_ne_nil names hne fun n hn => (hg n hn).1)
    (joinNames_getLast names hne fun n hn => (hg n hn).1)
  have ht : List.take (joinNames names).length (joinNames names ++ ':' :: chunkValueStr ck) = joinNames names := by simp
  have hdr : List.drop ((joinNames names).length + 1) (joinNames names ++ ':' :: chunkValueStr ck) = chunkValueStr ck := by
    rw [← List.drop_drop]; simp
  have hemp : (chunkValueStr ck).isEmpty = false := by cases hx : chunkValueStr ck <;> simp_all
  simp only [hbad, ht, hdr, namesLoop_join names hne fun n hn => (hg n hn).1, hemp, h1, Bool.false_eq_true, if_false]
  have hcnt : countCommas (joinNames names ++ ':' :: chunkValueStr ck) = names.length - 1 := by
    unfold countCommas
    rw [List.count_append, List.count_cons, count_joinNames names hne fun n hn => (hg n hn).1.2.1,
      List.count_eq_zero.mpr h4]
    simp
  rw [hcnt]
  have : 1 ≤ names.length := by cases names <;> simp_all
  congr 2; omega

example : parseChunk (showChunk ["sds1".toList] ⟨3, [10, 200, 3]⟩) = some (1, ["sds1".toList], ⟨3, [10, 200, 3]⟩) := by decide +kernel
example : showChunk ["sds1".toList] ⟨3, [10, 200, 3]⟩ = "sds1:10x200x3".toList := by decide +kernel

/-! ### rejection branches -/

/-- missing `:` -/
theorem parse_comp_rejects_no_colon (s : Str) (h : ':' ∉ s) : parseComp s = none := by
  unfold parseComp; rw [lastColon_none s h]

theorem parse_chunk_rejects_no_colon (s : Str) (h : ':' ∉ s) : parseChunk s = none := by
  unfold parseChunk; rw [lastColon_none s h]

/-- nothing after the (last) `:` -/
theorem parse_comp_rejects_empty_value (a : Str) : parseComp (a ++ [':']) = none := by
  unfold parseComp
  rw [lastColon_split a [] (by simp)]
  simp only [List.take_left', List.drop_left']
  cases namesLoop a [] <;> simp

theorem parse_chunk_rejects_empty_value (a : Str) : parseChunk (a ++ [':']) = none := by
  unfold parseChunk
  rw [lastColon_split a [] (by simp)]
  simp only [List.take_left', List.drop_left']
  cases namesLoop a [] <;> simp

/-- a coder name of `SCOMP_SZ` (10) characters or more is rejected instead of overflowing `scomp` (commit a29fdb9) -/
theorem comp_rejects_long_name : ∀ (nm sc rest : Str), (∀ c ∈ nm, c ≠ ' ') → SCOMP_SZ - 1 ≤ (sc ++ nm).length → rest ≠ [] →
    compValue (nm ++ rest) sc = none := by
  intro nm
  induction nm with
  | nil =>
    intro sc rest _ hl hr
    obtain ⟨y, ys, rfl⟩ := List.exists_cons_of_ne_nil hr
    have : sc.length ≥ SCOMP_SZ - 1 := by simpa using hl
    simp [compValue, this]
  | cons c cs ih =>
    intro sc rest hn hl hr
    by_cases hlen : sc.length ≥ SCOMP_SZ - 1
    · simp [compValue, hlen]
    · have hc := hn c (by simp)
      have hne : cs ++ rest ≠ [] := by simp [hr]
      obtain ⟨y, ys, hy⟩ := List.exists_cons_of_ne_nil hne
      rw [List.cons_append, hy]
      conv => lhs; unfold compValue
      simp only [hlen, hc, if_false]
      rw [← hy]
      exact ih (sc ++ [c]) rest (fun x hx => hn x (by simp [hx])) (by simp at hl ⊢; omega) hr

/-- more than `STYPE_SZ`-1 (4) parameter digits, or a non-digit in the parameter, is rejected -/
theorem comp_rejects_bad_param (sc ds : Str) (h : ds.all Char.isDigit = false ∨ STYPE_SZ - 1 < ds.length) :
    compValue (' ' :: ds) sc = none := by
  conv => lhs; unfold compValue
  split
  · rfl
  · rcases h with h | h
    · simp [h]
    · have : ¬ (ds.length ≤ STYPE_SZ - 1) := by omega
      simp [this]

-- the remaining rejection branches of `parse_comp`, one instance each
example : parseComp "a:LZW".toList = none := by decide +kernel               -- invalid compression type
example : parseComp "a:RLE 1".toList = none := by decide +kernel             -- extra parameter in RLE
example : parseComp "a:HUFF".toList = none := by decide +kernel              -- missing parameter (HUFF)
example : parseComp "a:GZIP".toList = none := by decide +kernel              -- missing parameter (GZIP)
example : parseComp "a:JPEG".toList = none := by decide +kernel              -- missing parameter (JPEG)
example : parseComp "a:HUFF 0".toList = none := by decide +kernel            -- invalid parameter (skip size <= 0)
example : parseComp "a:GZIP 10".toList = none := by decide +kernel           -- invalid parameter (level > 9)
example : parseComp "a:JPEG 101".toList = none := by decide +kernel          -- invalid parameter (quality > 100)
example : parseComp "a:SZIP 8,NN".toList = none := by decide +kernel         -- SZIP not available in this build
example : parseComp "a:GZIP 1x".toList = none := by decide +kernel           -- parameter not digit
example : parseComp "a:GZIP 12345".toList = none := by decide +kernel        -- parameter does not fit in stype[5]
example : parseComp "a:ABCDEFGHIJ".toList = none := by decide +kernel        -- name does not fit in scomp[10]
example : parseComp "a:NONE 7".toList = some (1, [['a']], ⟨0, 7⟩) := by decide +kernel  -- NOT rejected: NONE swallows a parameter
example : parseComp "a:GZIP ".toList = some (1, [['a']], ⟨4, 0⟩) := by decide +kernel   -- NOT rejected: empty parameter = 0
-- rejection branches of `parse_chunk`
example : parseChunk "a:2y2".toList = none := by decide +kernel              -- invalid character
example : parseChunk "a:2x0".toList = none := by decide +kernel              -- zero length
example : parseChunk "a:0".toList = none := by decide
example : parseChunk "a:NON".toList = none := by decide +kernel              -- atoi("NON") = 0
example : parseChunk "a:2x".toList = none := by decide +kernel               -- nothing after the last 'x' (chunk_rank unset before a29fdb9)
example : parseChunk "a:1234567890".toList = none := by decide +kernel       -- does not fit in sdim[10]
example : parseChunk "a:2xNONE".toList = some (1, [['a']], ⟨-2, []⟩) := by decide +kernel  -- NOT rejected
example : parseChunk "a:2N".toList = some (1, [['a']], ⟨1, [2]⟩) := by decide +kernel      -- NOT rejected: atoi stops at 'N'

/-! ## Part 4 — which objects are copied: the class test is an exact match -/

/-- the values the statements below rely on, pinned against the generated constants -/
theorem reserved_consts : reservedClasses.length = IS_RESERVED_NCLASSES ∧ reservedPrefix.length = IS_RESERVED_PREFIX_LEN := by decide

theorem take_eq_iff_prefix (p c : Str) : c.take p.length = p ↔ p <+: c := by
  constructor
  · intro h
    have := List.take_append_drop p.length c
    rw [h] at this
    exact ⟨_, this⟩
  · rintro ⟨t, rfl⟩; simp

/-- `is_reserved` answers yes for exactly the listed names and for every string that begins with the chunk-table prefix -/
theorem isReserved_iff (c : Str) : isReserved c = true ↔ c ∈ reservedClasses ∨ reservedPrefix <+: c := by
  have hl : reservedPrefix.take IS_RESERVED_PREFIX_LEN = reservedPrefix := by decide
  have hn : IS_RESERVED_PREFIX_LEN = reservedPrefix.length := by decide
  unfold isReserved
  rw [Bool.or_eq_true, List.contains_iff_mem, hl, beq_iff_eq, hn, take_eq_iff_prefix]

theorem reserved_no_proper_prefix : ∀ n ∈ reservedClasses, ∀ m ∈ reservedClasses, n.isPrefixOf m = true → n = m := by decide

theorem reserved_head : ∀ n ∈ reservedClasses, n ≠ [] ∧ n.head? ≠ reservedPrefix.head? := by decide

theorem prefix_head {p c : Str} (h : p <+: c) (hp : p ≠ []) : c.head? = p.head? := by
  obtain ⟨t, rfl⟩ := h
  cases p with
  | nil => exact absurd rfl hp
  | cons a p' => rfl

/-- EXACT match: a reserved class name followed by anything at all is a user's class -/
theorem isReserved_suffix (n s : Str) (hn : n ∈ reservedClasses) (hs : s ≠ []) : isReserved (n ++ s) = false := by
  rw [Bool.eq_false_iff]
  intro h
  rcases (isReserved_iff _).1 h with hm | hp
  · have := reserved_no_proper_prefix n hn _ hm (List.isPrefixOf_iff_prefix.2 ⟨s, rfl⟩)
    have : n ++ s = n ++ [] := by simpa using this.symm
    exact hs (List.append_cancel_left this)
  · obtain ⟨hne, hh⟩ := reserved_head n hn
    have h1 := prefix_head hp (by decide)
    cases n with
    | nil => exact hne rfl
    | cons a n' => exact hh (by simpa using h1)

/-- a proper prefix of a reserved class name is a user's class -/
theorem isReserved_proper_prefix : ∀ n ∈ reservedClasses, ∀ k < n.length, isReserved (n.take k) = false := by decide

def lower (s : Str) : Str := s.map Char.toLower

theorem reserved_case_distinct : ∀ n ∈ reservedClasses, ∀ m ∈ reservedClasses, lower n = lower m → n = m := by decide

theorem reserved_lower_head : ∀ n ∈ reservedClasses, (lower n).head? ≠ (lower reservedPrefix).head? := by decide

/-- the comparison is case sensitive: a string that differs from a reserved name only in the case of letters is a user's class -/
theorem isReserved_other_case (n c : Str) (hn : n ∈ reservedClasses) (hc : c ≠ n) (hl : lower c = lower n) : isReserved c = false := by
  rw [Bool.eq_false_iff]
  intro h
  rcases (isReserved_iff _).1 h with hm | hp
  · exact hc (reserved_case_distinct c hm n hn hl)
  · obtain ⟨t, rfl⟩ := hp
    apply reserved_lower_head n hn
    rw [← hl]
    simp [lower, reservedPrefix, cstr, IS_RESERVED_PREFIX]

theorem isReserved_empty : isReserved [] = false := by decide

/-- an internal name in the NAME field does not make a vgroup internal (except `GR_NAME`), and never a vdata -/
theorem keepVgroup_of_user_class (name cls : Str) (hc : isReserved cls = false) (hn : name ≠ cstr GR_NAME_CHARS) : keepVgroup name cls = true := by
  simp [keepVgroup, hc, hn]

theorem keepVdata_of_user_class (lone : Bool) (cls : Str) (hc : isReserved cls = false) : keepVdata lone cls = true := by
  simp [keepVdata, hc]

theorem keepVdata_in_vgroup (cls : Str) : keepVdata false cls = true := by simp [keepVdata]

/-- a node hrepack must treat as the user's: class not reserved; a vgroup is not named like the GR vgroup -/
def UserNode (n : VNode) : Prop := isReserved n.cls = false ∧ (n.isVg = true → n.name ≠ cstr GR_NAME_CHARS)

theorem nodeKept_user (flags : List Bool) (n : VNode) (hu : UserNode n)
    (hp : ∀ p, n.parent = some p → flags.getD p false = true) : nodeKept flags n = true := by
  unfold nodeKept
  cases hpar : n.parent with
  | none =>
    cases hv : n.isVg with
    | true => simpa using keepVgroup_of_user_class _ _ hu.1 (hu.2 hv)
    | false => simpa using keepVdata_of_user_class true _ hu.1
  | some p =>
    have this : flags[p]?.getD false = true := by simpa [List.getD_eq_getElem?_getD] using hp p hpar
    cases hv : n.isVg with
    | true => simp [this, keepVgroup_of_user_class _ _ hu.1 (hu.2 hv)]
    | false => simp [this, keepVdata_in_vgroup]

theorem keptFlagsFrom_all (nodes : List VNode) : ∀ (k : Nat), (∀ n ∈ nodes, UserNode n) →
    (∀ i (h : i < nodes.length) p, nodes[i].parent = some p → p < k + i) →
    keptFlagsFrom nodes (List.replicate k true) = List.replicate (k + nodes.length) true := by
  induction nodes with
  | nil => intro k _ _; simp [keptFlagsFrom]
  | cons n ns ih =>
    intro k hu hp
    have hk : nodeKept (List.replicate k true) n = true := by
      apply nodeKept_user _ _ (hu n (by simp))
      intro p hpar
      have : p < k := by simpa using hp 0 (by simp) p (by simpa using hpar)
      simp [List.getD_eq_getElem?_getD, this]
    have hr : List.replicate k true ++ [true] = List.replicate (k + 1) true := by
      rw [List.replicate_succ', ]
    simp only [keptFlagsFrom, hk, hr]
    rw [ih (k + 1) (fun m hm => hu m (by simp [hm]))]
    · simp; omega
    · intro i h p hpar
      have := hp (i + 1) (by simpa using h) p (by simpa using hpar)
      omega

/-- every user vgroup and vdata is created in the output, whatever their names and classes look like, as long as no class
    is one `is_reserved` lists and no vgroup is named `GR_NAME` -/
theorem all_user_objects_copied (nodes : List VNode) (hu : ∀ n ∈ nodes, UserNode n)
    (hp : ∀ i (h : i < nodes.length) p, nodes[i].parent = some p → p < i) :
    keptFlags nodes = List.replicate nodes.length true := by
  have := keptFlagsFrom_all nodes 0 hu (by simpa using hp)
  simpa [keptFlags] using this

/-- and a vgroup whose class IS one of the listed names is left out, with everything reached only through it -/
theorem reserved_vgroup_dropped (flags : List Bool) (name cls : Str) (par : Option Nat) (h : isReserved cls = true) :
    nodeKept flags ⟨true, name, cls, par⟩ = false := by
  cases par <;> simp [nodeKept, keepVgroup, h]

theorem member_of_dropped_vgroup_dropped (flags : List Bool) (n : VNode) (p : Nat) (hp : n.parent = some p) (hf : flags.getD p false = false) :
    nodeKept flags n = false := by
  have hf' : flags[p]?.getD false = false := by simpa [List.getD_eq_getElem?_getD] using hf
  simp [nodeKept, hp, hf']

/-- the seeded family: classes that only BEGIN like an internal class -/
example : keptFlags [⟨true, "calibration".toList, "Var0.0.1".toList, none⟩, ⟨false, "coefficients".toList, "Coeff".toList, some 0⟩,
                     ⟨true, "lookup".toList, "CDF0.0-index".toList, some 0⟩, ⟨false, "lone_steps".toList, "DimVal0.12".toList, none⟩,
                     ⟨false, "lone_notes".toList, "Attr0.0_user".toList, none⟩, ⟨true, "Var0.0".toList, "var0.0".toList, none⟩,
                     ⟨true, "g".toList, "RIG0.".toList, some 5⟩, ⟨false, "v".toList, [], none⟩] = List.replicate 8 true := by decide
/-- and what is left out today (known finding `user-object-with-library-class-dropped`) -/
example : keptFlags [⟨true, "g".toList, "Var0.0".toList, none⟩, ⟨false, "m".toList, "x".toList, some 0⟩, ⟨true, "RIG0.0".toList, "mine".toList, none⟩,
                     ⟨false, "t".toList, "_HDF_CHK_TBL_7".toList, none⟩, ⟨false, "t2".toList, "Attr0.0".toList, some 2⟩] = [false, false, false, false, false] := by decide
example : UserNode ⟨true, "Attr0.0".toList, "RIATTR0.0N ".toList, none⟩ := ⟨by decide, fun _ => by decide⟩

example : isReserved ("Var0.0".toList ++ ".1".toList) = false := isReserved_suffix _ _ (by decide) (by decide)
example : isReserved "var0.0".toList = false := isReserved_other_case "Var0.0".toList _ (by decide) (by decide) (by decide)
example : isReserved ("DimVal0.0".toList.take 8) = false := isReserved_proper_prefix _ (by decide) 8 (by decide)
example : isReserved "_HDF_CHK_TBL_0".toList = true ∧ isReserved "_HDF_CHK_TBL".toList = false ∧ isReserved "RIATTR0.0C".toList = true := by decide

end H4.Props.C18
