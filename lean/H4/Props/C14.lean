import H4.Lemmas.ReadOnly
/-! # C14 — read-only access never alters a file

Model: `H4.ReadOnly` (the H layer's access control and every path to a physical write: `hfile.c`, `hfiledd.c`, entry checks of
`hblocks.c`, `hextelt.c`, `hcomp.c`, `hchunks.c`).  A session is ANY list of operations `ops : List Op` over the H API
(`Hopen Hclose Hcache Hsync Hstartaccess Hstartread Hstartwrite Hsetlength Happendable Hseek Hread Hwrite Htrunc Hendaccess
Hgetelement Hputelement Hlength Hexist Hdeldd Hdupdd HDreuse_tagref HLcreate HLconvert HXcreate HCcreate HMCcreate`) with any
arguments (valid, stale or never-issued ids included).

* `cfg : Cfg` are the five access-control facts Tie A reads from the source text; `cfg.guarded` = `Hdeldd`, `Hdupdd`,
  `HDreuse_tagref`, `Hsetlength` test `DFACC_WRITE`.  The theorems hold for every guarded `cfg`; `current_guarded` shows the
  current source is guarded; `unguarded_*` show each test is NECESSARY (the statement is false without it — these were real
  defects of /repo, repaired by `fix:` commits 5bad8f5, 605d701, b02f6b5).
* "read-only" is a property of the file RECORD (all file ids of one path share it, as in `Hopen`): `RO s` = the record has no
  `DFACC_WRITE` and no access record carries it.  A session keeps it as long as no `Hopen` asks for write access
  (`Op.opensForWrite`); `write_access_only_by_open` is the converse.
* the write log records write REQUESTS (`HP_write` calls), also those stdio would refuse: "log unchanged" is stronger than
  "bytes unchanged" and does not rely on the `"rb"` stream mode.

ASSUMPTION (not proved, checked by engine `ro` on the implementation): the V / VS / SD / GR / AN interfaces reach the HDF file
and its external files only through the H operations modelled here. -/
namespace H4.Props.C14
open H4.ReadOnly H4.Gen.Hdf

/-- the source as it is now has all four DD-layer access tests, and `Hopen` records the write access gained by a reopen -/
theorem current_guarded : Cfg.current.guarded = true ∧ Cfg.current.reopenSetsAccess = true ∧ Cfg.current.hlRefusesZero = true := by decide

/-- Tie A anchor for `hpRead`: the source's `HP_read` delivers zeros for space reserved in this session under DD caching
    (`FILE_END_DIRTY`, range below `f_end_off`) and reports every other short read (af826f2); `hpRead` is written for that text -/
theorem current_read_zero_fills_reserved : H4.Gen.Src.HPREAD_ZERO_FILLS_RESERVED = true := by decide

/-- `hpRead` is a function of the state: reading never changes the file, whatever it delivers; space reserved in this session
    reads as zeros, a range that is not below `f_end_off` is an error -/
theorem hpRead_reserved_is_zeros (s : State) (off n : Nat) (hn : n ≠ 0) (hd : s.f.disk.length ≤ off)
    (hc : s.f.cache = true) (hdirty : s.f.dirty &&& H4.Gen.RO.FILE_END_DIRTY ≠ 0) (he : off + n ≤ s.f.endOff) :
    hpRead s off n = some (List.replicate n 0) := by
  have h1 : ¬ (off + n ≤ s.f.disk.length) := by omega
  have h2 : s.f.disk.drop off = [] := List.drop_eq_nil_of_le hd
  simp [hpRead, hn, h1, hc, hdirty, he, h2]

theorem hpRead_beyond_end_fails (s : State) (off n : Nat) (hn : n ≠ 0) (hd : s.f.disk.length < off + n) (he : s.f.endOff < off + n) :
    hpRead s off n = none := by
  have h1 : ¬ (off + n ≤ s.f.disk.length) := by omega
  have h2 : ¬ (off + n ≤ s.f.endOff) := by omega
  simp [hpRead, hn, h1, h2]

/-- a closed file (any bytes, any external files) satisfies the read-only invariant -/
theorem closed_inv (disk : Bytes) (exts : List (Nat × Bytes)) : Inv (State.closed disk exts) :=
  ⟨⟨by simp [State.closed, canWrite], by intro a ha; simp [State.closed] at ha⟩, rfl, by intro b hb; simp [State.closed] at hb⟩

/-! ## frame and refusal, one call -/

/-- `readonly_step`: on a read-only record with nothing to flush, ANY call that is not an `Hopen` for writing leaves the bytes
    of the file, the write log and the external files as they are, keeps the record read-only, and — if it is a call that
    would have to write data or create an object — returns `FAIL`. -/
theorem readonly_step (cfg : Cfg) (hg : cfg.guarded = true) (s : State) (op : Op) (hi : Inv s) (hop : op.opensForWrite = false) :
    ((step cfg s op).1.f.disk = s.f.disk ∧ (step cfg s op).1.log = s.log ∧ (step cfg s op).1.exts = s.exts) ∧
    Inv (step cfg s op).1 ∧ (op.isMutating = true → (step cfg s op).2 = .fail) :=
  step_ro cfg hg s op hi hop

/-! ## all sessions -/

/-- no call of the session is an `Hopen` that asks for `DFACC_WRITE` -/
def NoWriteOpen (ops : List Op) : Prop := ∀ op ∈ ops, op.opensForWrite = false

theorem run_inv (cfg : Cfg) (hg : cfg.guarded = true) (s : State) (ops : List Op) (hi : Inv s) (hops : NoWriteOpen ops) :
    Same s (run cfg s ops) ∧ Inv (run cfg s ops) := by
  induction ops generalizing s with
  | nil => exact ⟨Same.refl _, hi⟩
  | cons op ops ih =>
    have h1 := step_ro cfg hg s op hi (hops op List.mem_cons_self)
    have h2 := ih (step cfg s op).1 h1.2.1 (fun o ho => hops o (List.mem_cons_of_mem _ ho))
    exact ⟨h1.1.trans h2.1, h2.2⟩

/-- `readonly_frame`: a file opened without `DFACC_WRITE`: after ANY sequence of calls (none of which reopens it for
    writing) not a single byte of the file or of an external file has changed and the write log is still empty — not even a
    write request was issued.  `disk`, `exts` are arbitrary (the file need not even be a valid HDF file). -/
theorem readonly_frame (cfg : Cfg) (hg : cfg.guarded = true) (disk : Bytes) (exts : List (Nat × Bytes)) (acc : Nat)
    (hacc : acc &&& DFACC_WRITE = 0) (ops : List Op) (hops : NoWriteOpen ops) :
    let s := run cfg (State.closed disk exts) (.hopen acc :: ops)
    s.f.disk = disk ∧ s.exts = exts ∧ s.log = [] := by
  intro s
  have h := run_inv cfg hg (State.closed disk exts) (.hopen acc :: ops) (closed_inv disk exts)
    (by intro op hop
        rcases List.mem_cons.mp hop with rfl | h
        · simp [Op.opensForWrite, hacc]
        · exact hops op h)
  exact ⟨h.1.1, h.1.2.2, h.1.2.1⟩

/-- the same from any read-only state reached earlier (several file ids, access records attached, cache on or off …) -/
theorem readonly_frame_from (cfg : Cfg) (hg : cfg.guarded = true) (s : State) (hi : Inv s) (ops : List Op) (hops : NoWriteOpen ops) :
    (run cfg s ops).f.disk = s.f.disk ∧ (run cfg s ops).exts = s.exts ∧ (run cfg s ops).log = s.log :=
  let h := run_inv cfg hg s ops hi hops
  ⟨h.1.1, h.1.2.2, h.1.2.1⟩

/-- `readonly_refuses`: in such a session EVERY call that would have to write data or create a stored object returns `FAIL`,
    wherever it occurs (`pre` = the calls before it). -/
theorem readonly_refuses (cfg : Cfg) (hg : cfg.guarded = true) (disk : Bytes) (exts : List (Nat × Bytes)) (acc : Nat)
    (hacc : acc &&& DFACC_WRITE = 0) (pre : List Op) (hpre : NoWriteOpen pre) (op : Op) (hm : op.isMutating = true) :
    (step cfg (run cfg (State.closed disk exts) (.hopen acc :: pre)) op).2 = .fail := by
  have h := run_inv cfg hg (State.closed disk exts) (.hopen acc :: pre) (closed_inv disk exts)
    (by intro o ho
        rcases List.mem_cons.mp ho with rfl | h
        · simp [Op.opensForWrite, hacc]
        · exact hpre o h)
  have hop : op.opensForWrite = false := by cases op <;> simp_all [Op.opensForWrite, Op.isMutating]
  exact (step_ro cfg hg _ op h.2 hop).2.2 hm

/-- `log_empty`: the write log of a read-only session is empty at every point of the session -/
theorem log_empty (cfg : Cfg) (hg : cfg.guarded = true) (disk : Bytes) (exts : List (Nat × Bytes)) (acc : Nat)
    (hacc : acc &&& DFACC_WRITE = 0) (pre post : List Op) (h : NoWriteOpen (pre ++ post)) :
    (run cfg (State.closed disk exts) (.hopen acc :: pre)).log = [] :=
  (readonly_frame cfg hg disk exts acc hacc pre (fun o ho => h o (List.mem_append_left _ ho))).2.2

/-- `write_access_only_by_open`: the record of a read-only session can become writable only through an `Hopen` that asks for
    `DFACC_WRITE` (contrapositive of the invariant) -/
theorem write_access_only_by_open (cfg : Cfg) (hg : cfg.guarded = true) (s : State) (op : Op) (hi : Inv s)
    (hw : canWrite (step cfg s op).1.f = true) : op.opensForWrite = true := by
  cases h : op.opensForWrite with
  | true => rfl
  | false =>
    have := (step_ro cfg hg s op hi h).2.1.1.1
    rw [this] at hw; exact absurd hw (by simp)

/-! ## the current source -/

theorem readonly_frame_current (disk : Bytes) (exts : List (Nat × Bytes)) (acc : Nat) (hacc : acc &&& DFACC_WRITE = 0)
    (ops : List Op) (hops : NoWriteOpen ops) :
    let s := run Cfg.current (State.closed disk exts) (.hopen acc :: ops)
    s.f.disk = disk ∧ s.exts = exts ∧ s.log = [] :=
  readonly_frame Cfg.current current_guarded.1 disk exts acc hacc ops hops

theorem readonly_refuses_current (disk : Bytes) (exts : List (Nat × Bytes)) (acc : Nat) (hacc : acc &&& DFACC_WRITE = 0)
    (pre : List Op) (hpre : NoWriteOpen pre) (op : Op) (hm : op.isMutating = true) :
    (step Cfg.current (run Cfg.current (State.closed disk exts) (.hopen acc :: pre)) op).2 = .fail :=
  readonly_refuses Cfg.current current_guarded.1 disk exts acc hacc pre hpre op hm

/-! ## opening for writing and closing again -/

/-- `rw_open_close_noop`: `Hopen` of a closed file in ANY mode (`DFACC_RDWR` included) followed by `Hclose` of the id it returned:
    every byte of the file is as before, no write was even requested, the external files are untouched.  Hence every content
    abstraction of the bytes (`decode disk`) is unchanged.  No hypothesis on the file's version record is needed:
    `HIcheckfileversion` runs inside `Hopen`'s own `HIread_version` and `HIread_version` then clears `version.modified`, so
    a bare open/close never reaches `HIupdate_version` (see `hopen_closed`). -/
theorem rw_open_close_noop (cfg : Cfg) (disk : Bytes) (exts : List (Nat × Bytes)) (acc fid : Nat) :
    let s1 := (hopen cfg (State.closed disk exts) acc).1
    let s2 := (hclose cfg s1 fid).1
    s2.f.disk = disk ∧ s2.log = [] ∧ s2.exts = exts := by
  intro s1 s2
  have h1 := hopen_closed cfg disk exts acc
  have h2 := hclose_same cfg s1 fid h1.2.2 h1.2.1
  have h := h1.1.trans h2
  exact ⟨h.1, h.2.1, h.2.2⟩

/-- any content abstraction agrees before and after -/
theorem rw_open_close_content {α : Type} (decode : Bytes → α) (cfg : Cfg) (disk : Bytes) (exts : List (Nat × Bytes)) (acc fid : Nat) :
    decode (hclose cfg (hopen cfg (State.closed disk exts) acc).1 fid).1.f.disk = decode disk := by
  rw [(rw_open_close_noop cfg disk exts acc fid).1]

/-- `rw_reads_noop`: open in any mode, then ANY sequence of reading / inquiring calls, then close: bytes, write log and external
    files are unchanged — PROVIDED `Hopen` found the file's version record (`verSet` = `version_set` is then TRUE when `Hopen`
    returns, because `Hopen`'s own `HIread_version` went through `Hstartaccess` -> `HIcheckfileversion`).  This is the exact
    condition: `HIcheckfileversion` never compares the FILE's version with the library's (it runs before the record is
    decoded); what matters is only whether a `DFTAG_VERSION`/1 element exists.  Without one the first later `Hstartaccess` marks
    the version modified and `Hclose` appends a version record: `rw_read_without_version_appends`. -/
theorem rw_reads_noop (cfg : Cfg) (disk : Bytes) (exts : List (Nat × Bytes)) (acc fid : Nat) (ops : List Op)
    (hops : ∀ op ∈ ops, op.isReadClass = true)
    (hv : (hopen cfg (State.closed disk exts) acc).1.f.verSet = true) :
    let s1 := (hopen cfg (State.closed disk exts) acc).1
    let s3 := (hclose cfg (run cfg s1 ops) fid).1
    s3.f.disk = disk ∧ s3.log = [] ∧ s3.exts = exts := by
  intro s1 s3
  have h1 := hopen_closed cfg disk exts acc
  have hq := run_read_quiet cfg s1 ops hops
  have hver := hq.ver hv h1.2.2
  have h2 := hclose_same cfg (run cfg s1 ops) fid hver.2 (hq.clean h1.2.1)
  have h := (h1.1.trans hq.same).trans h2
  exact ⟨h.1, h.2.1, h.2.2⟩

/-! ## concrete files -/

/-- a 38-byte HDF file WITHOUT a version record: magic, one DD block of 2 descriptors, element (1000,1) = "abcd" at offset 34 -/
def tiny : Bytes := [14, 3, 19, 1,  0, 2, 0, 0, 0, 0,  3, 232, 0, 1, 0, 0, 0, 34, 0, 0, 0, 4,  0, 1, 0, 0, 255, 255, 255, 255, 255, 255, 255, 255,
  97, 98, 99, 100]

/-- the same with the library's version record (`DFTAG_VERSION`/1, 92 bytes at offset 34) in the second descriptor -/
def tinyV : Bytes := [14, 3, 19, 1,  0, 2, 0, 0, 0, 0,  3, 232, 0, 1, 0, 0, 0, 126, 0, 0, 0, 4,  0, 30, 0, 1, 0, 0, 0, 34, 0, 0, 0, 92] ++
  H4.Gen.RO.LIBVER_BYTES.map UInt8.ofNat ++ [97, 98, 99, 100]

/-- a read-only session on `tiny`: reads succeed, `Hdeldd`, `Hputelement`, `Hstartwrite`, `Hdupdd`, `HLcreate` are refused, the
    close succeeds (hypotheses of `readonly_frame`/`readonly_refuses` instantiated on a non-trivial session) -/
example : results Cfg.current (State.closed tiny) [.hopen DFACC_READ, .startread 0 1000 1, .read 0 0, .deldd 0 1000 1,
      .putelement 0 1200 1 [1, 2], .startwrite 0 1000 1 4, .dupdd 0 1200 1 1000 1, .hlcreate 0 1200 1 16 2, .write 0 [9],
      .endaccess 0, .hclose 0]
    = [.id 0, .id 0, .num 4, .fail, .fail, .fail, .fail, .fail, .fail, .ok, .ok] := by decide

example : NoWriteOpen [.startread 0 1000 1, .read 0 0, .deldd 0 1000 1, .putelement 0 1200 1 [1, 2], .hopen DFACC_READ, .hclose 0] := by
  intro op hop; simp at hop; rcases hop with rfl | rfl | rfl | rfl | rfl | rfl <;> decide

/-- the version record is found on `tinyV`, in either mode -/
example : (hopen Cfg.current (State.closed tinyV) DFACC_RDWR).1.f.verSet = true ∧
          (hopen Cfg.current (State.closed tinyV) DFACC_RDWR).2 = .id 0 := by decide +kernel

/-- … so a writable session that only reads leaves it byte-identical (instance of `rw_reads_noop`, computed) -/
example : (run Cfg.current (State.closed tinyV) [.hopen DFACC_RDWR, .startread 0 1000 1, .read 1 0, .endaccess 1, .hclose 0]).f.disk = tinyV ∧
          (run Cfg.current (State.closed tinyV) [.hopen DFACC_RDWR, .startread 0 1000 1, .read 1 0, .endaccess 1, .hclose 0]).log = [] := by decide +kernel

/-- `rw_read_without_version_appends`: the hypothesis of `rw_reads_noop` is needed.  On `tiny` (no version record) a writable
    session that makes one `Hstartread`/`Hendaccess` issues 4 writes at close (`HIupdate_version`: a new DD block, the version
    element, the link of the DD chain) and the file grows from 38 to 131 bytes; its first 10 bytes and the old element
    are as before. -/
theorem rw_read_without_version_appends :
    let s := run Cfg.current (State.closed tiny) [.hopen DFACC_RDWR, .startread 0 1000 1, .endaccess 0, .hclose 0]
    s.log.length = 4 ∧ s.f.disk.length = 131 ∧ s.f.disk.take 6 = tiny.take 6 ∧ (s.f.disk.drop 34).take 4 = [97, 98, 99, 100] := by decide +kernel

/-- … while the bare open/close of the same file writes nothing (instance of `rw_open_close_noop`) -/
example : (run Cfg.current (State.closed tiny) [.hopen DFACC_RDWR, .hclose 0]).f.disk = tiny ∧
          (run Cfg.current (State.closed tiny) [.hopen DFACC_RDWR, .hclose 0]).log = [] := by decide

/-! ## each access test is necessary (the refusal theorem is FALSE for an unguarded configuration)

These four configurations are what /repo's source said before the `fix:` commits 5bad8f5 (`Hdeldd`, `Hdupdd`, `HDreuse_tagref`)
and 605d701 (`Hsetlength`): on a handle opened `DFACC_READ` the calls return SUCCEED, change the DD list in memory, and the
`Hclose` that follows FAILS because its flush is refused by the read-only stream (the write log shows the request). -/

def allChecks : Cfg := ⟨true, true, true, true, true, true⟩

theorem unguarded_deldd_accepts :
    results { allChecks with hdelddChecks := false } (State.closed tiny) [.hopen DFACC_READ, .deldd 0 1000 1, .hexist 0 1000 1, .hclose 0]
      = [.id 0, .ok, .fail, .fail] ∧
    (run { allChecks with hdelddChecks := false } (State.closed tiny) [.hopen DFACC_READ, .deldd 0 1000 1, .hclose 0]).log ≠ [] := by decide

theorem unguarded_dupdd_accepts :
    results { allChecks with hdupddChecks := false } (State.closed tiny) [.hopen DFACC_READ, .dupdd 0 1200 1 1000 1, .hexist 0 1200 1, .hclose 0]
      = [.id 0, .ok, .ok, .fail] := by decide

theorem unguarded_reuse_accepts :
    results { allChecks with hreuseChecks := false } (State.closed tiny) [.hopen DFACC_READ, .reuse 0 1000 1, .hlength 0 1000 1, .hclose 0]
      = [.id 0, .ok, .num (-1), .fail] := by decide

/-- a file whose element (1000,1) has no data yet (offset and length INVALID, as `Hstartaccess(write)`+`Hendaccess` leaves it) -/
def tinyNew : Bytes := [14, 3, 19, 1,  0, 2, 0, 0, 0, 0,  3, 232, 0, 1, 255, 255, 255, 255, 255, 255, 255, 255,  0, 1, 0, 0, 255, 255, 255, 255, 255, 255, 255, 255]

theorem unguarded_setlength_accepts :
    results { allChecks with hsetlengthChecks := false } (State.closed tinyNew) [.hopen DFACC_READ, .startread 0 1000 1, .setlength 0 10, .endaccess 0, .hclose 0]
      = [.id 0, .id 0, .ok, .ok, .fail] := by decide

/-- with the test, the same calls are refused and the close succeeds -/
example : results allChecks (State.closed tinyNew) [.hopen DFACC_READ, .startread 0 1000 1, .setlength 0 10, .endaccess 0, .hclose 0]
      = [.id 0, .id 0, .fail, .ok, .ok] := by decide

/-- `Hopen` for writing of a record that is open read-only: with the access update (fix b02f6b5) the new handle can write;
    without it `Hputelement` through the handle that was opened `DFACC_RDWR` is refused. -/
theorem reopen_for_write :
    results allChecks (State.closed tiny) [.hopen DFACC_READ, .hopen DFACC_RDWR, .putelement 1 1200 1 [1, 2]] = [.id 0, .id 1, .num 2] ∧
    results { allChecks with reopenSetsAccess := false } (State.closed tiny) [.hopen DFACC_READ, .hopen DFACC_RDWR, .putelement 1 1200 1 [1, 2]]
      = [.id 0, .id 1, .fail] := by decide

end H4.Props.C14
