import H4.Lemmas.BitIO
/-! # C05 (bit-granular element I/O, `hbitio.c`) — property theorems

The model `H4.BitIO` is the `bitrec_t` state machine over the bytes of the underlying element
(buffer of `BITBUF_SIZE` bytes, `bits`/`count` registers, block flushes, `Hendbitaccess`).
`pack fs fb` = `Hstartbitwrite` on a new element, `Hbitwrite(id, w, v)` for every `(w, v) ∈ fs`, `Hendbitaccess(id, fb)`;
`unpack e ws` = `Hstartbitread` on element `e`, `Hbitread(id, w, &v)` for every `w ∈ ws`.
Bit streams are `List Bool`, most significant bit first (`H4.Bits`). -/
namespace H4.Props.C05
open H4.Bits H4.BitIO

/-- widths accepted by the theorems: every field is 1..32 bits wide (values are arbitrary naturals; only the low 32 bits
    reach `Hbitwrite`, which keeps the low `w` of them) -/
def ValidFields (fs : List (Nat × Nat)) : Prop := ∀ f ∈ fs, 1 ≤ f.1 ∧ f.1 ≤ 32
def ValidWidths (ws : List Nat) : Prop := ∀ w ∈ ws, 1 ≤ w ∧ w ≤ 32
instance (fs) : Decidable (ValidFields fs) := by unfold ValidFields; infer_instance
instance (ws) : Decidable (ValidWidths ws) := by unfold ValidWidths; infer_instance

/-- `bitwrite_refines`. For ALL field lists (any number of fields, widths 1..32, any values, ANY stream length) and either
    flush bit `fb`, the bytes stored by `Hstartbitwrite` on a new element, sequential `Hbitwrite`s and `Hendbitaccess(id, fb)` are
    exactly the MSB-first concatenation of the low `w` bits of each value, completed to a byte boundary with `k < 8` copies of
    the flush bit - nothing else is stored: the element is `⌈bits/8⌉` bytes long.
    (Unconditional since the repairs of `bits-pad-flushbit1`/`bits-pad-stale` and `bits-len-tail`: before them the statement
    held only below `BITBUF_SIZE` bytes and only for zero padding.) -/
theorem bitwrite_refines (fs : List (Nat × Nat)) (hv : ValidFields fs) (fb : Bool) :
    (∃ k, k < 8 ∧ bytesBits (pack fs (some fb)) = fieldsBits fs ++ List.replicate k fb) ∧
    (pack fs (some fb)).length = ((fieldsBits fs).length + 7) / 8 := by
  obtain ⟨w0, r0, m0, s0⟩ := startWrite_ok
  obtain ⟨w1, r1, m1, s1⟩ := writeFields_ok fs _ w0 r0 m0 hv
  rw [s0, List.nil_append] at s1
  have e1 := endAccess_ok w1 r1 m1 fb
  have e2 := endAccess_length w1 r1 m1 fb
  rw [s1] at e1 e2
  exact ⟨e1, e2⟩

/-- non-vacuity / sample: fields crossing byte boundaries, zero and one padding -/
example : pack [(3, 5), (8, 255), (32, 0xDEADBEEF), (1, 1)] (some false) = [0xBF, 0xFB, 0xD5, 0xB7, 0xDD, 0xF0] := by
  decide +kernel
example : pack [(3, 5), (8, 255), (32, 0xDEADBEEF), (1, 1)] (some true) = [0xBF, 0xFB, 0xD5, 0xB7, 0xDD, 0xFF] := by
  decide +kernel

example : ValidFields [(3, 5), (8, 255), (32, 0xDEADBEEF), (1, 1)] := by decide

/-- the former counter-witness (stale padding and a stale 4095-byte tail beyond the buffer size) is gone:
    4096 bytes of ones followed by three zero bits are stored as 4097 bytes, the last one `0x00` -/
example : (pack (List.replicate 1024 (32, 0xFFFFFFFF) ++ [(3, 0)]) (some false)).length = 4097 ∧
    (pack (List.replicate 1024 (32, 0xFFFFFFFF) ++ [(3, 0)]) (some false))[4096]? = some 0x00 := by
  set_option maxRecDepth 100000 in decide +kernel

/-- `bitread_refines`. For ALL element contents and ALL width lists (each 1..32) whose total does not exceed the
    bits stored, sequential `Hbitread`s return the successive MSB-first fields of the element's bit stream
    (buffer refills every `BITBUF_SIZE` bytes included). -/
theorem bitread_refines (e : List UInt8) (ws : List Nat) (hv : ValidWidths ws) (hsum : ws.sum ≤ 8 * e.length) :
    unpack e ws = some (takeFields (bytesBits e) ws) := by
  obtain ⟨i, junk, a⟩ := startRead_ok e
  unfold unpack
  rw [readFields_ok ws _ i hv (by rw [a]; simp; omega), a, takeFields_append _ _ _ (by simpa using hsum)]

example : unpack [0xBF, 0xFB, 0xD5, 0xB7, 0xDD, 0xF0] [3, 8, 32, 1] = some [5, 255, 0xDEADBEEF, 1] := by
  decide +kernel

theorem takeFields_fieldsBits : ∀ (fs : List (Nat × Nat)),
    takeFields (fieldsBits fs) (fs.map Prod.fst) = fs.map fun f => f.2 % 2 ^ f.1 := by
  intro fs
  induction fs with
  | nil => rfl
  | cons f fs ih =>
    simp only [List.map_cons, takeFields, fieldsBits_cons]
    rw [List.take_append_of_le_length (by simp), List.take_of_length_le (by simp),
      List.drop_append_of_le_length (by simp), List.drop_of_length_le (by simp), List.nil_append, ih, ofBits_msbBits]

theorem sum_widths (fs : List (Nat × Nat)) : (fs.map Prod.fst).sum = (fieldsBits fs).length := by
  induction fs with
  | nil => rfl
  | cons f fs ih => simp [fieldsBits_cons, ih]

/-- `bit_roundtrip`. Whatever sequence of fields (widths 1..32) is written to a new element, reading the same
    width sequence back returns the low `w` bits of every value — for every width sequence, every stream length
    (including streams longer than the 4096-byte buffer) and either flush bit. -/
theorem bit_roundtrip (fs : List (Nat × Nat)) (hv : ValidFields fs) (fb : Bool) :
    unpack (pack fs (some fb)) (fs.map Prod.fst) = some (fs.map fun f => f.2 % 2 ^ f.1) := by
  obtain ⟨⟨k, _, ht⟩, _⟩ := bitwrite_refines fs hv fb
  have hv' : ValidWidths (fs.map Prod.fst) := by
    intro w hw
    obtain ⟨f, hf, rfl⟩ := List.mem_map.mp hw
    exact hv f hf
  have hlen : (fs.map Prod.fst).sum ≤ 8 * (pack fs (some fb)).length := by
    have := congrArg List.length ht
    simp at this
    rw [sum_widths]; omega
  rw [bitread_refines _ _ hv' hlen, ht, takeFields_append _ _ _ (by rw [sum_widths]; exact Nat.le_refl _),
    takeFields_fieldsBits]

/-- `seek_read_refines` (partial coverage of `Hbitseek`): on a read bit id of an element that fits one buffer block
    (≤ 4096 bytes), `Hbitseek(id, B, b)` followed by any sequence of `Hbitread`s returns the fields of the element's bit
    stream with the first `8·B + b` bits dropped — seek-then-read = read of the dropped bit list.
    Not covered by a theorem (Tie B + the shadow-bit-array oracle of engine `bits`, op `script`): seeks after other operations,
    seeks between blocks, seeks and merges in write mode (`HIbitflush` middle-of-dataset branch) and the read↔write switches
    (`HIwrite2read`, `HIread2write`; the latter repaired, finding `bits-r2w-*`: regression anchors below). -/
theorem seek_read_refines (e : List UInt8) (B b : Nat) (ws : List Nat) (hlen : e.length ≤ 4096) (hB : B < e.length) (hb : b < 8)
    (hv : ValidWidths ws) (hsum : 8 * B + b + ws.sum ≤ 8 * e.length) :
    (bitseek (startRead e) B b).2 = true ∧
    readFields (bitseek (startRead e) B b).1 ws = some (takeFields ((bytesBits e).drop (8 * B + b)) ws) := by
  obtain ⟨ok, i, junk, a⟩ := seek_fresh_ok e B b hlen hB hb
  refine ⟨ok, ?_⟩
  rw [readFields_ok ws _ i hv (by rw [a]; simp; omega), a, takeFields_append _ _ _ (by simp; omega)]

example : readFields (bitseek (startRead [0xAB, 0xCD, 0xEF]) 1 4).1 [8, 4] = some [0xDE, 0xF] := by decide +kernel

/-! Regression anchors for the repaired read→write switch (`HIread2write`, finding `bits-r2w-*`; reproductions p4.c a/b/g):
    element `ab cd ef 01` opened with `Hstartbitwrite`. -/
/-- byte-aligned: read 8 bits, write 8 bits -/
example : endAccess (bitwrite (bitread (startWrite (some [0xAB, 0xCD, 0xEF, 0x01])) 8).1 8 0x12).1 (some false)
    = [0xAB, 0x12, 0xEF, 0x01] := by decide +kernel
/-- inside a byte: read 4 bits, write 8 bits -/
example : endAccess (bitwrite (bitread (startWrite (some [0xAB, 0xCD, 0xEF, 0x01])) 4).1 8 0x12).1 (some false)
    = [0xA1, 0x2D, 0xEF, 0x01] := by decide +kernel
/-- read, seek, write -/
example : endAccess (bitwrite (bitseek (bitread (startWrite (some [0xAB, 0xCD, 0xEF, 0x01])) 8).1 1 0).1 8 0x12).1 (some false)
    = [0xAB, 0x12, 0xEF, 0x01] := by decide +kernel
/-- read up to the end, then append 12 bits: the element grows by two bytes, the last one zero-padded -/
example : endAccess (bitwrite (bitread (startWrite (some [0xAB, 0xCD])) 16).1 12 0xFFF).1 (some false)
    = [0xAB, 0xCD, 0xFF, 0xF0] := by decide +kernel

end H4.Props.C05
