import H4.Lemmas.BitIO
/-! # C05 (bit-granular element I/O, `hbitio.c`) — property theorems

The model `H4.BitIO` is the `bitrec_t` state machine over the bytes of the underlying element
(buffer of `BITBUF_SIZE` bytes, `bits`/`count` registers, block flushes, `Hendbitaccess`).
`pack fs fb` = `Hstartbitwrite` on a new element, `Hbitwrite(id, w, v)` for every `(w, v) ∈ fs`, `Hendbitaccess(id, fb)`;
`unpack e ws` = `Hstartbitread` on element `e`, `Hbitread(id, w, &v)` for every `w ∈ ws`.
Bit streams are `List Bool`, most significant bit first (`H4.Bits`). -/
namespace H4.Props.C05
open H4.Bits H4.BitIO

/-- widths accepted by the theorems: every field is 1..32 bits wide (values are arbitrary naturals; only the low 32 bits
    reach `Hbitwrite`, which keeps the low `w` of them) -/
def ValidFields (fs : List (Nat × Nat)) : Prop := ∀ f ∈ fs, 1 ≤ f.1 ∧ f.1 ≤ 32
def ValidWidths (ws : List Nat) : Prop := ∀ w ∈ ws, 1 ≤ w ∧ w ≤ 32
instance (fs) : Decidable (ValidFields fs) := by unfold ValidFields; infer_instance
instance (ws) : Decidable (ValidWidths ws) := by unfold ValidWidths; infer_instance

/-- `bitwrite_refines`. For ALL field lists (any length, widths 1..32, any values) and either flush bit, the bytes
    stored by sequential `Hbitwrite`s followed by `Hendbitaccess` start with the MSB-first concatenation of the low
    `w` bits of each value (1).  While fewer than `BITBUF_SIZE` (4096) whole bytes were produced the stream is exactly that
    concatenation zero-padded to a byte boundary (2) — whatever `flushbit` is: the C code never uses it (finding
    `bits-pad-flushbit1`).  Beyond 4096 bytes the C code pads with stale buffer bits and appends the rest of the stale
    buffer (findings `bits-pad-stale`, `bits-len-tail`), so only the prefix statement (1) holds; (3) gives the stored length
    in the short case. -/
theorem bitwrite_refines (fs : List (Nat × Nat)) (hv : ValidFields fs) (fb : Option Bool) :
    (∃ tail, bytesBits (pack fs fb) = fieldsBits fs ++ tail) ∧
    ((fieldsBits fs).length / 8 < 4096 →
      (∃ k, k < 8 ∧ bytesBits (pack fs fb) = fieldsBits fs ++ List.replicate k false) ∧
      (pack fs fb).length = ((fieldsBits fs).length + 7) / 8) := by
  obtain ⟨w0, r0, m0, s0⟩ := startWrite_ok
  obtain ⟨w1, r1, m1, s1⟩ := writeFields_ok fs _ w0 r0 m0 hv
  obtain ⟨e1, e2, e3⟩ := endAccess_ok w1 r1 m1 fb
  rw [s0, List.nil_append] at s1
  rw [s1] at e1 e2
  unfold pack
  refine ⟨e1, fun hlt => ?_⟩
  -- fewer than 4096 whole bytes: nothing was flushed yet
  generalize writeFields (startWrite none) fs = X at *
  have hlen : (fieldsBits fs).length = 8 * (X.elem.length + X.pre.length) + (8 - X.count) := by
    rw [← s1]; simp [stream, emitted]
  have hnil : X.elem = [] := by
    rcases w1.big with h | h
    · exact h
    · omega
  refine ⟨e2 hnil, ?_⟩
  rw [e3, if_pos hnil]
  rw [hnil] at hlen
  have := r1.1; have := r1.2.1
  simp only [List.length_nil, Nat.zero_add] at hlen
  split <;> omega

/-- non-vacuity / sample: three fields crossing byte boundaries -/
example : pack [(3, 5), (8, 255), (32, 0xDEADBEEF), (1, 1)] (some false) = [0xBF, 0xFB, 0xD5, 0xB7, 0xDD, 0xF0] := by
  decide +kernel

example : ValidFields [(3, 5), (8, 255), (32, 0xDEADBEEF), (1, 1)] := by decide

/-- counter-witness for "zero-padded to a byte boundary" beyond the buffer size (findings `bits-pad-stale`, `bits-len-tail`):
    4096 bytes of ones followed by three zero bits and `Hendbitaccess(id, 0)` leave an element of 8192 bytes whose byte 4096 is
    `0x1F` (three zero bits, then five STALE one-bits of the byte written 4096 bytes earlier) followed by 4095 stale bytes.
    The real library stores exactly these bytes (REPORT.md, reproduction p2.c); the prefix statement (1) still holds. -/
example : (pack (List.replicate 1024 (32, 0xFFFFFFFF) ++ [(3, 0)]) (some false)).length = 8192 ∧
    (pack (List.replicate 1024 (32, 0xFFFFFFFF) ++ [(3, 0)]) (some false))[4096]? = some 0x1F := by
  set_option maxRecDepth 100000 in decide +kernel

/-- `bitread_refines`. For ALL element contents and ALL width lists (each 1..32) whose total does not exceed the
    bits stored, sequential `Hbitread`s return the successive MSB-first fields of the element's bit stream
    (buffer refills every `BITBUF_SIZE` bytes included). -/
theorem bitread_refines (e : List UInt8) (ws : List Nat) (hv : ValidWidths ws) (hsum : ws.sum ≤ 8 * e.length) :
    unpack e ws = some (takeFields (bytesBits e) ws) := by
  obtain ⟨i, junk, a⟩ := startRead_ok e
  unfold unpack
  rw [readFields_ok ws _ i hv (by rw [a]; simp; omega), a, takeFields_append _ _ _ (by simpa using hsum)]

example : unpack [0xBF, 0xFB, 0xD5, 0xB7, 0xDD, 0xF0] [3, 8, 32, 1] = some [5, 255, 0xDEADBEEF, 1] := by
  decide +kernel

theorem takeFields_fieldsBits : ∀ (fs : List (Nat × Nat)),
    takeFields (fieldsBits fs) (fs.map Prod.fst) = fs.map fun f => f.2 % 2 ^ f.1 := by
  intro fs
  induction fs with
  | nil => rfl
  | cons f fs ih =>
    simp only [List.map_cons, takeFields, fieldsBits_cons]
    rw [List.take_append_of_le_length (by simp), List.take_of_length_le (by simp),
      List.drop_append_of_le_length (by simp), List.drop_of_length_le (by simp), List.nil_append, ih, ofBits_msbBits]

theorem sum_widths (fs : List (Nat × Nat)) : (fs.map Prod.fst).sum = (fieldsBits fs).length := by
  induction fs with
  | nil => rfl
  | cons f fs ih => simp [fieldsBits_cons, ih]

/-- `bit_roundtrip`. Whatever sequence of fields (widths 1..32) is written to a new element, reading the same
    width sequence back returns the low `w` bits of every value — for every width sequence, every stream length
    (including streams longer than the 4096-byte buffer) and either flush bit. -/
theorem bit_roundtrip (fs : List (Nat × Nat)) (hv : ValidFields fs) (fb : Option Bool) :
    unpack (pack fs fb) (fs.map Prod.fst) = some (fs.map fun f => f.2 % 2 ^ f.1) := by
  obtain ⟨⟨tail, ht⟩, _⟩ := bitwrite_refines fs hv fb
  have hv' : ValidWidths (fs.map Prod.fst) := by
    intro w hw
    obtain ⟨f, hf, rfl⟩ := List.mem_map.mp hw
    exact hv f hf
  have hlen : (fs.map Prod.fst).sum ≤ 8 * (pack fs fb).length := by
    have := congrArg List.length ht
    simp at this
    rw [sum_widths]; omega
  rw [bitread_refines _ _ hv' hlen, ht, takeFields_append _ _ _ (by rw [sum_widths]; exact Nat.le_refl _),
    takeFields_fieldsBits]

/-- `seek_read_refines` (partial coverage of `Hbitseek`): on a read bit id of an element that fits one buffer block
    (≤ 4096 bytes), `Hbitseek(id, B, b)` followed by any sequence of `Hbitread`s returns the fields of the element's bit
    stream with the first `8·B + b` bits dropped — seek-then-read = read of the dropped bit list.
    Not covered by a theorem (Tie B only, engine `bits` op `script`): seeks after other operations, seeks between blocks,
    seeks and merges in write mode (`HIbitflush` middle-of-dataset branch) and the read↔write switches
    (`HIwrite2read`, `HIread2write`) — the last one is broken in the C code (finding `bits-r2w-*`). -/
theorem seek_read_refines (e : List UInt8) (B b : Nat) (ws : List Nat) (hlen : e.length ≤ 4096) (hB : B < e.length) (hb : b < 8)
    (hv : ValidWidths ws) (hsum : 8 * B + b + ws.sum ≤ 8 * e.length) :
    (bitseek (startRead e) B b).2 = true ∧
    readFields (bitseek (startRead e) B b).1 ws = some (takeFields ((bytesBits e).drop (8 * B + b)) ws) := by
  obtain ⟨ok, i, junk, a⟩ := seek_fresh_ok e B b hlen hB hb
  refine ⟨ok, ?_⟩
  rw [readFields_ok ws _ i hv (by rw [a]; simp; omega), a, takeFields_append _ _ _ (by simp; omega)]

example : readFields (bitseek (startRead [0xAB, 0xCD, 0xEF]) 1 4).1 [8, 4] = some [0xDE, 0xF] := by decide +kernel

end H4.Props.C05
