import H4.Lemmas.NBit
import H4.Props.C05Bits
/-! # C05 (n-bit coder, `cnbit.c`) — property theorems

The coder sees every value as its `nt_size` bytes in FILE order (big-endian for the standard number types: byte 0 is the most
significant), so values are `List UInt8` and bit lists are most-significant-bit first.
`encode c 0 data` is the list of `Hbitwrite(aid, length, bits)` calls of `HCIcnbit_encode`; `decItem c words` is the inner loop of
`HCIcnbit_decode` applied to the words `Hbitread(aid, length, ·)` returned; `projectBits` is the documented projection stated on
the value's bit list alone (no masks). -/
namespace H4.Props.C05
open H4.Bits H4.NBit H4.BitIO

set_option linter.unusedVariables false
set_option linter.unusedSimpArgs false

theorem maskInfos_good (c : Cfg) (hv : c.Valid) : ∀ mi ∈ maskInfos c, GoodMI mi := by
  intro mi hmi
  rw [maskInfos_closed c hv] at hmi
  obtain ⟨i, hi, rfl⟩ := List.mem_map.mp hmi
  exact closedInfo_good _ _ _ i (List.mem_range.mp hi) hv.2.1 hv.2.2.1 hv.2.2.2

theorem encode_valid (c : Cfg) (hv : c.Valid) : ∀ (xs : List UInt8) (pos : Nat), ValidFields (encode c pos xs).1 := by
  intro xs
  induction xs with
  | nil => intro pos f hf; simp [encode] at hf
  | cons x xs ih =>
    intro pos f hf
    simp only [encode, List.mem_append] at hf
    rcases hf with hf | hf
    · have hg : GoodMI ((maskInfos c).getD pos {}) := by
        by_cases hp : pos < (maskInfos c).length
        · have : (maskInfos c).getD pos {} = (maskInfos c)[pos] := by simp [List.getD, hp]
          rw [this]; exact maskInfos_good c hv _ (List.getElem_mem hp)
        · have : (maskInfos c).getD pos {} = {} := by simp [List.getD, List.getElem?_eq_none (Nat.le_of_not_lt hp)]
          rw [this]; exact ⟨by simp [MaskInfo.shift], by simp [MaskInfo.shift]⟩
      exact encByte_valid hg x f hf
    · exact ih _ f hf

/-- `nbit_projection`.  For every number-type size `nt_size ∈ {1,2,4,8}` (all sizes `DFKNTsize` returns), every
    `start_bit`/`bit_len` with `0 ≤ bit_len-1 ≤ start_bit < 8·nt_size`, both `sign_ext` and both `fill_one` flags and EVERY value
    `v` (its `nt_size` bytes in file order):
    * the `Hbitwrite` calls the encoder makes for `v` are valid fields (1..32 bits) whose widths are exactly the widths the
      decoder reads for one item, and
    * feeding the decoder the words the bit layer returns for them (`bit_roundtrip`: the low `w` bits of each) yields exactly the
      documented projection: field kept, bits below filled with `fill_one`, bits above filled with `fill_one` or, when
      sign-extending, with the top bit of the field.  (`prev` is the stale C variable `sign_bit`: irrelevant.) -/
theorem nbit_projection (c : Cfg) (hv : c.Valid) (v : List UInt8) (hlen : v.length = c.ntSize) (prev : Bool) :
    ValidFields (encode c 0 v).1 ∧
    (encode c 0 v).1.map Prod.fst = itemWidths c ∧
    (decItem c ((encode c 0 v).1.map fun f => f.2 % 2 ^ f.1) prev).1 = project c v := by
  obtain ⟨e1, e2⟩ := encode_vals c v 0 (by omega)
  rw [List.drop_zero] at e1 e2
  refine ⟨encode_valid c hv v 0, ?_, ?_⟩
  · rw [e2, hlen, ← length_maskInfos c, List.take_length]; rfl
  · rw [e1]
    have h := decItem_projection c hv v hlen prev
    unfold project
    rw [← h]
    have hl : v.length = (decItem c (itemVals (maskInfos c) v) prev).1.length := by rw [length_decItem c v hlen prev, hlen]
    rw [hl, bitsBytes_bytesBits]

/-- the projection as a statement on bit lists (what `nbit_projection` says, without packing back to bytes) -/
theorem nbit_projection_bits (c : Cfg) (hv : c.Valid) (v : List UInt8) (hlen : v.length = c.ntSize) (prev : Bool) :
    bytesBits (decItem c ((encode c 0 v).1.map fun f => f.2 % 2 ^ f.1) prev).1 = projectBits c (bytesBits v) := by
  rw [(encode_vals c v 0 (by omega)).1, List.drop_zero]
  exact decItem_projection c hv v hlen prev

/-- the encoder is a per-byte fold: ANY partition of the data into `Hwrite` calls produces the same `Hbitwrite` calls -/
theorem nbit_encode_partition (c : Cfg) (xs ys : List UInt8) (pos : Nat) :
    (encode c pos (xs ++ ys)).1 = (encode c pos xs).1 ++ (encode c (encode c pos xs).2 ys).1 := by
  rw [encode_append]

/-- non-vacuity: a valid 16-bit configuration, and the projection of a concrete value
    (`0x03ff`, field = bits 9..4 = `111111`, sign-extended, zero fill: `0xfff0`) -/
example : ({ ntSize := 2, signExt := true, fillOne := false, maskOff := 9, maskLen := 6 } : Cfg).Valid := by decide
example : project { ntSize := 2, signExt := true, fillOne := false, maskOff := 9, maskLen := 6 } [0x03, 0xff] = [0xff, 0xf0] := by
  decide +kernel
example : (decItem { ntSize := 2, signExt := true, fillOne := false, maskOff := 9, maskLen := 6 }
    ((encode { ntSize := 2, signExt := true, fillOne := false, maskOff := 9, maskLen := 6 } 0 [0x03, 0xff]).1.map fun f => f.2 % 2 ^ f.1)).1
    = [0xff, 0xf0] := by decide +kernel

/-- the former counter-witness for "any partition into whole-value transfers" on the READ side (finding
    `nbit-read-partition`, repaired): a 4-byte read followed by an 8-byte read of an `int32` element written as 01..0c used to
    return 4 bytes of the stale expansion buffer (`0xbe` here) instead of value #2; `HCIcnbit_decode` now tracks how many
    expanded bytes the buffer holds (`buf_len`). -/
example : readBack { ntSize := 4, signExt := false, fillOne := false, maskOff := 31, maskLen := 32 }
    (compress { ntSize := 4, signExt := false, fillOne := false, maskOff := 31, maskLen := 32 } [1, 2, 3, 4, 5, 6, 7, 8, 9, 10, 11, 12])
    [4, 8] 0xbe = [[1, 2, 3, 4], [5, 6, 7, 8, 9, 10, 11, 12]] := by decide +kernel

/-- the same element read in one call is delivered correctly (whole path through the bit layer) -/
example : readBack { ntSize := 4, signExt := false, fillOne := false, maskOff := 31, maskLen := 32 }
    (compress { ntSize := 4, signExt := false, fillOne := false, maskOff := 31, maskLen := 32 } [1, 2, 3, 4, 5, 6, 7, 8, 9, 10, 11, 12])
    [12] 0xbe = [[1, 2, 3, 4, 5, 6, 7, 8, 9, 10, 11, 12]] := by decide +kernel


/-! ## whole elements through the bit layer -/

theorem encode_pos (c : Cfg) (hn : 0 < c.ntSize) : ∀ (xs : List UInt8) (pos : Nat), pos < c.ntSize →
    (encode c pos xs).2 = (pos + xs.length) % c.ntSize := by
  intro xs
  induction xs with
  | nil => intro pos hp; simp [encode, Nat.mod_eq_of_lt hp]
  | cons x xs ih =>
    intro pos hp
    simp only [encode, List.length_cons]
    by_cases h : pos + 1 ≥ c.ntSize
    · have : pos + 1 = c.ntSize := by omega
      rw [if_pos h, ih 0 hn]
      have e : pos + (xs.length + 1) = xs.length + c.ntSize := by omega
      rw [e, Nat.add_mod_right]; simp
    · rw [if_neg h, ih (pos + 1) (by omega)]
      congr 1; omega

/-- fields written for a sequence of whole values: value by value, each starting at `nt_pos = 0` -/
theorem encode_values (c : Cfg) (hn : 0 < c.ntSize) : ∀ (vs : List (List UInt8)), (∀ v ∈ vs, v.length = c.ntSize) →
    (encode c 0 vs.flatten).1 = (vs.map fun v => (encode c 0 v).1).flatten ∧ (encode c 0 vs.flatten).2 = 0 := by
  intro vs
  induction vs with
  | nil => intro _; simp [encode]
  | cons v vs ih =>
    intro h
    have hv := h v (by simp)
    obtain ⟨i1, i2⟩ := ih (fun w hw => h w (by simp [hw]))
    have hp : (encode c 0 v).2 = 0 := by rw [encode_pos c hn v 0 hn, hv]; simp
    simp only [List.flatten_cons, List.map_cons]
    rw [encode_append, hp]
    exact ⟨by rw [i1], i2⟩

theorem refillItems_ok (c : Cfg) (hv : c.Valid) : ∀ (vs : List (List UInt8)) (st : St) (sg : Bool) (tail : List Bool),
    (∀ v ∈ vs, v.length = c.ntSize) → RInv st → avail st = fieldsBits (vs.map fun v => (encode c 0 v).1).flatten ++ tail →
    ∃ st' sg', refillItems c vs.length st sg = some ((vs.map (project c)).flatten, st', sg') ∧ RInv st' ∧ avail st' = tail := by
  intro vs
  induction vs with
  | nil => intro st sg tail _ hr ha; exact ⟨st, sg, rfl, hr, by simpa [fieldsBits] using ha⟩
  | cons v vs ih =>
    intro st sg tail h hr ha
    have hlen := h v (by simp)
    obtain ⟨p1, p2, p3⟩ := nbit_projection c hv v hlen sg
    simp only [List.map_cons, List.flatten_cons, fieldsBits_append, List.append_assoc] at ha
    have hsum : (itemWidths c).sum = (fieldsBits (encode c 0 v).1).length := by rw [← p2, sum_widths]
    have hvw : ∀ w ∈ itemWidths c, 1 ≤ w ∧ w ≤ 32 := by
      rw [← p2]; intro w hw
      obtain ⟨f, hf, rfl⟩ := List.mem_map.mp hw
      exact p1 f hf
    obtain ⟨st1, e1, r1, a1⟩ := readFieldsS_ok (itemWidths c) st hr hvw (by rw [ha, hsum]; simp)
    rw [ha, hsum, List.drop_append_of_le_length (Nat.le_refl _), List.drop_of_length_le (Nat.le_refl _), List.nil_append] at a1
    have hvals : takeFields (fieldsBits (encode c 0 v).1 ++ (fieldsBits (vs.map fun v => (encode c 0 v).1).flatten ++ tail)) (itemWidths c) =
        (encode c 0 v).1.map fun f => f.2 % 2 ^ f.1 := by
      rw [takeFields_append _ _ _ (by rw [hsum]; exact Nat.le_refl _), ← p2, takeFields_fieldsBits]
    rw [ha, hvals] at e1
    obtain ⟨st', sg', e2, r2, a2⟩ := ih st1 (decItem c ((encode c 0 v).1.map fun f => f.2 % 2 ^ f.1) sg).2 tail
      (fun w hw => h w (by simp [hw])) r1 a1
    refine ⟨st', sg', ?_, r2, a2⟩
    simp only [List.length_cons, refillItems, e1, e2, List.map_cons, List.flatten_cons]
    rw [p3]

theorem length_bitsBytes (n : Nat) (l : List Bool) : (bitsBytes n l).length = n := by
  induction n generalizing l with
  | zero => rfl
  | succ n ih => simp [bitsBytes, ih]

theorem length_projects (c : Cfg) (vs : List (List UInt8)) (h : ∀ v ∈ vs, v.length = c.ntSize) :
    ((vs.map (project c)).flatten).length = vs.length * c.ntSize := by
  induction vs with
  | nil => simp
  | cons v vs ih =>
    simp only [List.map_cons, List.flatten_cons, List.length_append, List.length_cons]
    rw [ih (fun w hw => h w (by simp [hw]))]
    unfold project
    rw [length_bitsBytes, h v (by simp), Nat.add_mul]; omega

/-- fields written for the values `vs` -/
def valueFields (c : Cfg) (vs : List (List UInt8)) : List (Nat × Nat) := (vs.map fun v => (encode c 0 v).1).flatten

theorem valueFields_append (c : Cfg) (a b : List (List UInt8)) : valueFields c (a ++ b) = valueFields c a ++ valueFields c b := by
  simp [valueFields]

/-- one `HCIcnbit_decode` call for the whole values `vs` (any number of them, any total size), started with an exhausted
    expansion buffer: it delivers their projections, consumes exactly their fields and leaves the buffer exhausted again -/
theorem decodeLoop_ok (c : Cfg) (hv : c.Valid) : ∀ (fuel : Nat) (vs : List (List UInt8)) (d : Dec) (acc : List UInt8) (tail : List Bool),
    vs.length < fuel → (∀ v ∈ vs, v.length = c.ntSize) → RInv d.st → d.bufLen ≤ d.bufPos →
    avail d.st = fieldsBits (valueFields c vs) ++ tail →
    ∃ d', decodeLoop c fuel d (vs.length * c.ntSize) acc = (d', acc ++ (vs.map (project c)).flatten) ∧
      RInv d'.st ∧ d'.bufLen ≤ d'.bufPos ∧ avail d'.st = tail := by
  have hn : 0 < c.ntSize := by rcases hv.1 with h | h | h | h <;> omega
  have hn8 : c.ntSize ≤ 8 := by rcases hv.1 with h | h | h | h <;> omega
  have hC : H4.Gen.Cnbit.NBIT_BUF_SIZE = 1024 := rfl
  intro fuel
  induction fuel with
  | zero => intro vs d acc tail h; omega
  | succ fuel ih =>
    intro vs d acc tail hf hvs hr hb ha
    unfold decodeLoop
    by_cases h0 : vs.length * c.ntSize = 0
    · have : vs = [] := by
        cases vs with
        | nil => rfl
        | cons v vs => exact absurd h0 (Nat.ne_of_gt (Nat.mul_pos (by simp) hn))
      subst this
      simp only [List.length_nil, Nat.zero_mul, if_true]
      exact ⟨d, by simp, hr, hb, by simpa [valueFields, fieldsBits] using ha⟩
    · rw [if_neg h0]
      have hk : 0 < vs.length := by
        cases vs with
        | nil => simp at h0
        | cons v vs => simp
      -- number of items expanded by this refill
      generalize hk1 : max (min H4.Gen.Cnbit.NBIT_BUF_SIZE (vs.length * c.ntSize) / c.ntSize) 1 = k1
      have hge : vs.length * c.ntSize ≥ c.ntSize := Nat.le_mul_of_pos_left _ hk
      have hk1pos : 1 ≤ k1 := by omega
      have hk1le : k1 ≤ vs.length := by
        have h1 : min H4.Gen.Cnbit.NBIT_BUF_SIZE (vs.length * c.ntSize) / c.ntSize ≤ vs.length * c.ntSize / c.ntSize :=
          Nat.div_le_div_right (Nat.min_le_right _ _)
        rw [Nat.mul_div_cancel _ hn] at h1
        omega
      have hsplit : vs = vs.take k1 ++ vs.drop k1 := (List.take_append_drop k1 vs).symm
      have hl1 : (vs.take k1).length = k1 := by rw [List.length_take]; omega
      have ha1 : avail d.st = fieldsBits (valueFields c (vs.take k1)) ++ (fieldsBits (valueFields c (vs.drop k1)) ++ tail) := by
        rw [ha]; conv => lhs; rw [hsplit]
        rw [valueFields_append, fieldsBits_append, List.append_assoc]
      obtain ⟨st', sg', e, r', a'⟩ := refillItems_ok c hv (vs.take k1) d.st d.sign _
        (fun v hv' => hvs v (List.mem_of_mem_take hv')) hr ha1
      rw [hl1] at e
      have hlen1 := length_projects c (vs.take k1) (fun v hv' => hvs v (List.mem_of_mem_take hv'))
      rw [hl1] at hlen1
      have hbp : d.bufPos ≥ d.bufLen := hb
      simp only [hbp, if_true, e, Nat.sub_zero]
      generalize hI : ((vs.take k1).map (project c)).flatten = items at *
      have hle : k1 * c.ntSize ≤ vs.length * c.ntSize := Nat.mul_le_mul_right _ hk1le
      have hcopy : (if vs.length * c.ntSize > k1 * c.ntSize then k1 * c.ntSize else vs.length * c.ntSize) = k1 * c.ntSize := by
        split <;> omega
      rw [hcopy]
      have htake : List.take (k1 * c.ntSize) (List.drop 0 (items ++ List.drop items.length d.buffer)) = items := by
        rw [List.drop_zero, List.take_append_of_le_length (by omega), List.take_of_length_le (by omega)]
      rw [htake]
      have hrem : vs.length * c.ntSize - k1 * c.ntSize = (vs.drop k1).length * c.ntSize := by
        rw [List.length_drop, Nat.sub_mul]
      rw [hrem]
      obtain ⟨d', e2, r2, b2, a2⟩ := ih (vs.drop k1)
        { st := st', buffer := items ++ List.drop items.length d.buffer, bufPos := 0 + k1 * c.ntSize, bufLen := k1 * c.ntSize, sign := sg', fail := d.fail }
        (acc ++ items) tail (by rw [List.length_drop]; omega) (fun v hv' => hvs v (List.mem_of_mem_drop hv')) r' (by simp) a'
      refine ⟨d', ?_, r2, b2, a2⟩
      rw [e2, List.append_assoc]
      congr 1
      rw [← hI]
      conv => rhs; rw [hsplit]
      simp only [List.map_append, List.flatten_append, List.map_take, List.map_drop]

/-- `nbit_element_roundtrip`: the whole path, for ANY partition into whole-value transfers.  An element written with any
    sequence of whole values (through the real bit layer: `Hbitwrite`s, buffering, `Hendbitaccess`) and read back from the start
    with any sequence of `Hread`s of whole values - `chunks` groups the values by read; reads of any size, also larger than the
    1024-byte expansion buffer, growing or shrinking - returns in every read the documented projection of its values, whatever
    the expansion buffer held before (`stale`).  The write side is partition-independent as well (`nbit_encode_partition`).
    (Before the repair of `nbit-read-partition` this held for a single read of at most 1024 bytes only.) -/
theorem nbit_element_roundtrip (c : Cfg) (hv : c.Valid) (chunks : List (List (List UInt8)))
    (hvs : ∀ ch ∈ chunks, ∀ v ∈ ch, v.length = c.ntSize) (stale : UInt8) :
    readBack c (compress c chunks.flatten.flatten) (chunks.map fun ch => ch.length * c.ntSize) stale =
      chunks.map fun ch => (ch.map (project c)).flatten := by
  have hn : 0 < c.ntSize := by rcases hv.1 with h | h | h | h <;> omega
  have hall : ∀ v ∈ chunks.flatten, v.length = c.ntSize := by
    intro v hv'
    obtain ⟨ch, hch, hvc⟩ := List.mem_flatten.mp hv'
    exact hvs ch hch v hvc
  obtain ⟨f1, _⟩ := encode_values c hn chunks.flatten hall
  have hvf : ValidFields (encode c 0 chunks.flatten.flatten).1 := encode_valid c hv _ 0
  obtain ⟨⟨kpad, _, ht⟩, _⟩ := bitwrite_refines _ hvf false
  obtain ⟨ri, junk, ha⟩ := startRead_ok (compress c chunks.flatten.flatten)
  have ha' : avail (startRead (compress c chunks.flatten.flatten)) =
      fieldsBits (valueFields c chunks.flatten) ++ (List.replicate kpad false ++ junk) := by
    rw [ha]; unfold compress valueFields; rw [ht, f1, List.append_assoc]
  -- the reads, one after the other
  have key : ∀ (chs : List (List (List UInt8))) (d : Dec) (tail : List Bool),
      (∀ ch ∈ chs, ∀ v ∈ ch, v.length = c.ntSize) → RInv d.st → d.bufLen ≤ d.bufPos →
      avail d.st = fieldsBits (valueFields c chs.flatten) ++ tail →
      runOps c d ((chs.map fun ch => ch.length * c.ntSize).map .read) = chs.map fun ch => (ch.map (project c)).flatten := by
    intro chs
    induction chs with
    | nil => intro d tail _ _ _ _; rfl
    | cons ch chs ih =>
      intro d tail h hr hb hav
      simp only [List.flatten_cons, valueFields_append, fieldsBits_append, List.append_assoc] at hav
      obtain ⟨d', e, r', b', a'⟩ := decodeLoop_ok c hv (ch.length * c.ntSize + 1) ch d [] _
        (by have := Nat.le_mul_of_pos_right ch.length hn; omega) (h ch (by simp)) hr hb hav
      simp only [List.map_cons, runOps, decode, e, List.nil_append]
      rw [ih d' tail (fun ch' hc' => h ch' (by simp [hc'])) r' b' a']
  unfold readBack decodeAll
  exact key chunks _ _ hvs ri (by simp) ha'

example : readBack { ntSize := 2, signExt := true, fillOne := false, maskOff := 9, maskLen := 6 }
    (compress { ntSize := 2, signExt := true, fillOne := false, maskOff := 9, maskLen := 6 } [0x03, 0xff, 0x02, 0x00]) [4] 0xbe
    = [[0xff, 0xf0, 0xfe, 0x00]] := by decide +kernel

end H4.Props.C05
