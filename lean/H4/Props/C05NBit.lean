import H4.Lemmas.NBit
import H4.Props.C05Bits
/-! # C05 (n-bit coder, `cnbit.c`) — property theorems

The coder sees every value as its `nt_size` bytes in FILE order (big-endian for the standard number types: byte 0 is the most
significant), so values are `List UInt8` and bit lists are most-significant-bit first.
`encode c 0 data` is the list of `Hbitwrite(aid, length, bits)` calls of `HCIcnbit_encode`; `decItem c words` is the inner loop of
`HCIcnbit_decode` applied to the words `Hbitread(aid, length, ·)` returned; `projectBits` is the documented projection stated on
the value's bit list alone (no masks). -/
namespace H4.Props.C05
open H4.Bits H4.NBit H4.BitIO

set_option linter.unusedVariables false
set_option linter.unusedSimpArgs false

theorem maskInfos_good (c : Cfg) (hv : c.Valid) : ∀ mi ∈ maskInfos c, GoodMI mi := by
  intro mi hmi
  rw [maskInfos_closed c hv] at hmi
  obtain ⟨i, hi, rfl⟩ := List.mem_map.mp hmi
  exact closedInfo_good _ _ _ i (List.mem_range.mp hi) hv.2.1 hv.2.2.1 hv.2.2.2

theorem encode_valid (c : Cfg) (hv : c.Valid) : ∀ (xs : List UInt8) (pos : Nat), ValidFields (encode c pos xs).1 := by
  intro xs
  induction xs with
  | nil => intro pos f hf; simp [encode] at hf
  | cons x xs ih =>
    intro pos f hf
    simp only [encode, List.mem_append] at hf
    rcases hf with hf | hf
    · have hg : GoodMI ((maskInfos c).getD pos {}) := by
        by_cases hp : pos < (maskInfos c).length
        · have : (maskInfos c).getD pos {} = (maskInfos c)[pos] := by simp [List.getD, hp]
          rw [this]; exact maskInfos_good c hv _ (List.getElem_mem hp)
        · have : (maskInfos c).getD pos {} = {} := by simp [List.getD, List.getElem?_eq_none (Nat.le_of_not_lt hp)]
          rw [this]; exact ⟨by simp [MaskInfo.shift], by simp [MaskInfo.shift]⟩
      exact encByte_valid hg x f hf
    · exact ih _ f hf

/-- `nbit_projection`.  For every number-type size `nt_size ∈ {1,2,4,8}` (all sizes `DFKNTsize` returns), every
    `start_bit`/`bit_len` with `0 ≤ bit_len-1 ≤ start_bit < 8·nt_size`, both `sign_ext` and both `fill_one` flags and EVERY value
    `v` (its `nt_size` bytes in file order):
    * the `Hbitwrite` calls the encoder makes for `v` are valid fields (1..32 bits) whose widths are exactly the widths the
      decoder reads for one item, and
    * feeding the decoder the words the bit layer returns for them (`bit_roundtrip`: the low `w` bits of each) yields exactly the
      documented projection: field kept, bits below filled with `fill_one`, bits above filled with `fill_one` or, when
      sign-extending, with the top bit of the field.  (`prev` is the stale C variable `sign_bit`: irrelevant.) -/
theorem nbit_projection (c : Cfg) (hv : c.Valid) (v : List UInt8) (hlen : v.length = c.ntSize) (prev : Bool) :
    ValidFields (encode c 0 v).1 ∧
    (encode c 0 v).1.map Prod.fst = itemWidths c ∧
    (decItem c ((encode c 0 v).1.map fun f => f.2 % 2 ^ f.1) prev).1 = project c v := by
  obtain ⟨e1, e2⟩ := encode_vals c v 0 (by omega)
  rw [List.drop_zero] at e1 e2
  refine ⟨encode_valid c hv v 0, ?_, ?_⟩
  · rw [e2, hlen, ← length_maskInfos c, List.take_length]; rfl
  · rw [e1]
    have h := decItem_projection c hv v hlen prev
    unfold project
    rw [← h]
    have hl : v.length = (decItem c (itemVals (maskInfos c) v) prev).1.length := by rw [length_decItem c v hlen prev, hlen]
    rw [hl, bitsBytes_bytesBits]

/-- the projection as a statement on bit lists (what `nbit_projection` says, without packing back to bytes) -/
theorem nbit_projection_bits (c : Cfg) (hv : c.Valid) (v : List UInt8) (hlen : v.length = c.ntSize) (prev : Bool) :
    bytesBits (decItem c ((encode c 0 v).1.map fun f => f.2 % 2 ^ f.1) prev).1 = projectBits c (bytesBits v) := by
  rw [(encode_vals c v 0 (by omega)).1, List.drop_zero]
  exact decItem_projection c hv v hlen prev

/-- the encoder is a per-byte fold: ANY partition of the data into `Hwrite` calls produces the same `Hbitwrite` calls -/
theorem nbit_encode_partition (c : Cfg) (xs ys : List UInt8) (pos : Nat) :
    (encode c pos (xs ++ ys)).1 = (encode c pos xs).1 ++ (encode c (encode c pos xs).2 ys).1 := by
  rw [encode_append]

/-- non-vacuity: a valid 16-bit configuration, and the projection of a concrete value
    (`0x03ff`, field = bits 9..4 = `111111`, sign-extended, zero fill: `0xfff0`) -/
example : ({ ntSize := 2, signExt := true, fillOne := false, maskOff := 9, maskLen := 6 } : Cfg).Valid := by decide
example : project { ntSize := 2, signExt := true, fillOne := false, maskOff := 9, maskLen := 6 } [0x03, 0xff] = [0xff, 0xf0] := by
  decide +kernel
example : (decItem { ntSize := 2, signExt := true, fillOne := false, maskOff := 9, maskLen := 6 }
    ((encode { ntSize := 2, signExt := true, fillOne := false, maskOff := 9, maskLen := 6 } 0 [0x03, 0xff]).1.map fun f => f.2 % 2 ^ f.1)).1
    = [0xff, 0xf0] := by decide +kernel

/-- counter-witness for "any partition into whole-value transfers" on the READ side (finding `nbit-read-partition`):
    `HCIcnbit_decode` sizes its expansion buffer from the current request, so a 4-byte read followed by an 8-byte read of an
    `int32` element written as 01..0c returns 4 bytes of whatever the buffer held (`0xbe` here) instead of value #2, and value #3
    is never delivered.  The C library behaves the same (REPORT.md, reproduction p1.c). -/
example : readBack { ntSize := 4, signExt := false, fillOne := false, maskOff := 31, maskLen := 32 }
    (compress { ntSize := 4, signExt := false, fillOne := false, maskOff := 31, maskLen := 32 } [1, 2, 3, 4, 5, 6, 7, 8, 9, 10, 11, 12])
    [4, 8] 0xbe = [[1, 2, 3, 4], [0xbe, 0xbe, 0xbe, 0xbe, 5, 6, 7, 8]] := by decide +kernel

/-- the same element read in one call is delivered correctly (whole path through the bit layer) -/
example : readBack { ntSize := 4, signExt := false, fillOne := false, maskOff := 31, maskLen := 32 }
    (compress { ntSize := 4, signExt := false, fillOne := false, maskOff := 31, maskLen := 32 } [1, 2, 3, 4, 5, 6, 7, 8, 9, 10, 11, 12])
    [12] 0xbe = [[1, 2, 3, 4, 5, 6, 7, 8, 9, 10, 11, 12]] := by decide +kernel


/-! ## whole elements through the bit layer -/

theorem encode_pos (c : Cfg) (hn : 0 < c.ntSize) : ∀ (xs : List UInt8) (pos : Nat), pos < c.ntSize →
    (encode c pos xs).2 = (pos + xs.length) % c.ntSize := by
  intro xs
  induction xs with
  | nil => intro pos hp; simp [encode, Nat.mod_eq_of_lt hp]
  | cons x xs ih =>
    intro pos hp
    simp only [encode, List.length_cons]
    by_cases h : pos + 1 ≥ c.ntSize
    · have : pos + 1 = c.ntSize := by omega
      rw [if_pos h, ih 0 hn]
      have e : pos + (xs.length + 1) = xs.length + c.ntSize := by omega
      rw [e, Nat.add_mod_right]; simp
    · rw [if_neg h, ih (pos + 1) (by omega)]
      congr 1; omega

/-- fields written for a sequence of whole values: value by value, each starting at `nt_pos = 0` -/
theorem encode_values (c : Cfg) (hn : 0 < c.ntSize) : ∀ (vs : List (List UInt8)), (∀ v ∈ vs, v.length = c.ntSize) →
    (encode c 0 vs.flatten).1 = (vs.map fun v => (encode c 0 v).1).flatten ∧ (encode c 0 vs.flatten).2 = 0 := by
  intro vs
  induction vs with
  | nil => intro _; simp [encode]
  | cons v vs ih =>
    intro h
    have hv := h v (by simp)
    obtain ⟨i1, i2⟩ := ih (fun w hw => h w (by simp [hw]))
    have hp : (encode c 0 v).2 = 0 := by rw [encode_pos c hn v 0 hn, hv]; simp
    simp only [List.flatten_cons, List.map_cons]
    rw [encode_append, hp]
    exact ⟨by rw [i1], i2⟩

theorem refillItems_ok (c : Cfg) (hv : c.Valid) : ∀ (vs : List (List UInt8)) (st : St) (sg : Bool) (tail : List Bool),
    (∀ v ∈ vs, v.length = c.ntSize) → RInv st → avail st = fieldsBits (vs.map fun v => (encode c 0 v).1).flatten ++ tail →
    ∃ st' sg', refillItems c vs.length st sg = some ((vs.map (project c)).flatten, st', sg') ∧ RInv st' ∧ avail st' = tail := by
  intro vs
  induction vs with
  | nil => intro st sg tail _ hr ha; exact ⟨st, sg, rfl, hr, by simpa [fieldsBits] using ha⟩
  | cons v vs ih =>
    intro st sg tail h hr ha
    have hlen := h v (by simp)
    obtain ⟨p1, p2, p3⟩ := nbit_projection c hv v hlen sg
    simp only [List.map_cons, List.flatten_cons, fieldsBits_append, List.append_assoc] at ha
    have hsum : (itemWidths c).sum = (fieldsBits (encode c 0 v).1).length := by rw [← p2, sum_widths]
    have hvw : ∀ w ∈ itemWidths c, 1 ≤ w ∧ w ≤ 32 := by
      rw [← p2]; intro w hw
      obtain ⟨f, hf, rfl⟩ := List.mem_map.mp hw
      exact p1 f hf
    obtain ⟨st1, e1, r1, a1⟩ := readFieldsS_ok (itemWidths c) st hr hvw (by rw [ha, hsum]; simp)
    rw [ha, hsum, List.drop_append_of_le_length (Nat.le_refl _), List.drop_of_length_le (Nat.le_refl _), List.nil_append] at a1
    have hvals : takeFields (fieldsBits (encode c 0 v).1 ++ (fieldsBits (vs.map fun v => (encode c 0 v).1).flatten ++ tail)) (itemWidths c) =
        (encode c 0 v).1.map fun f => f.2 % 2 ^ f.1 := by
      rw [takeFields_append _ _ _ (by rw [hsum]; exact Nat.le_refl _), ← p2, takeFields_fieldsBits]
    rw [ha, hvals] at e1
    obtain ⟨st', sg', e2, r2, a2⟩ := ih st1 (decItem c ((encode c 0 v).1.map fun f => f.2 % 2 ^ f.1) sg).2 tail
      (fun w hw => h w (by simp [hw])) r1 a1
    refine ⟨st', sg', ?_, r2, a2⟩
    simp only [List.length_cons, refillItems, e1, e2, List.map_cons, List.flatten_cons]
    rw [p3]

theorem length_bitsBytes (n : Nat) (l : List Bool) : (bitsBytes n l).length = n := by
  induction n generalizing l with
  | zero => rfl
  | succ n ih => simp [bitsBytes, ih]

theorem length_projects (c : Cfg) (vs : List (List UInt8)) (h : ∀ v ∈ vs, v.length = c.ntSize) :
    ((vs.map (project c)).flatten).length = vs.length * c.ntSize := by
  induction vs with
  | nil => simp
  | cons v vs ih =>
    simp only [List.map_cons, List.flatten_cons, List.length_append, List.length_cons]
    rw [ih (fun w hw => h w (by simp [hw]))]
    unfold project
    rw [length_bitsBytes, h v (by simp), Nat.add_mul]; omega

/-- `nbit_element_roundtrip`: the whole path for one transfer.  An element written with any sequence of whole values
    (through the real bit layer: `Hbitwrite`s, buffering, `Hendbitaccess`), at most `NBIT_BUF_SIZE` (1024) bytes in all, and read
    back with ONE `Hread` of the whole length returns the documented projection of every value, whatever the expansion
    buffer held before (`stale`).  For other read partitions see the counter-witness below `nbit_projection`
    (finding `nbit-read-partition`); the write side is partition-independent (`nbit_encode_partition`). -/
theorem nbit_element_roundtrip (c : Cfg) (hv : c.Valid) (vs : List (List UInt8)) (hvs : ∀ v ∈ vs, v.length = c.ntSize)
    (hne : vs ≠ []) (hsize : vs.length * c.ntSize ≤ 1024) (stale : UInt8) :
    readBack c (compress c vs.flatten) [vs.length * c.ntSize] stale = [(vs.map (project c)).flatten] := by
  have hn : 0 < c.ntSize := by rcases hv.1 with h | h | h | h <;> omega
  have hk : 0 < vs.length := List.length_pos_iff.mpr hne
  have hL : 0 < vs.length * c.ntSize := Nat.mul_pos hk hn
  obtain ⟨f1, _⟩ := encode_values c hn vs hvs
  -- what the bit layer stores and delivers
  have hvf : ValidFields (encode c 0 vs.flatten).1 := encode_valid c hv _ 0
  obtain ⟨⟨tail, ht⟩, _⟩ := bitwrite_refines _ hvf (some false)
  obtain ⟨ri, junk, ha⟩ := startRead_ok (compress c vs.flatten)
  have ha' : avail (startRead (compress c vs.flatten)) = fieldsBits (vs.map fun v => (encode c 0 v).1).flatten ++ (tail ++ junk) := by
    rw [ha]; unfold compress; rw [ht, f1, List.append_assoc]
  obtain ⟨st', sg', e, _, _⟩ := refillItems_ok c hv vs _ false (tail ++ junk) hvs ri ha'
  have hlen := length_projects c vs hvs
  generalize hI : (vs.map (project c)).flatten = items at *
  unfold readBack decodeAll
  simp only [List.map_cons, List.map_nil, runOps, decode]
  have hC : H4.Gen.Cnbit.NBIT_BUF_SIZE = 1024 := rfl
  have hmin : min H4.Gen.Cnbit.NBIT_BUF_SIZE (vs.length * c.ntSize) = vs.length * c.ntSize := by omega
  have hdiv : vs.length * c.ntSize / c.ntSize = vs.length := Nat.mul_div_cancel _ hn
  rw [hmin, hdiv]
  generalize hLL : vs.length * c.ntSize = L at *
  have hne0 : ¬ L = 0 := by omega
  have hge : H4.Gen.Cnbit.NBIT_BUF_SIZE ≥ L := by omega
  unfold decodeLoop
  simp only [hne0, if_false, hge, if_true, e, Nat.sub_zero, Nat.lt_irrefl, gt_iff_lt, Nat.sub_self, List.nil_append, List.drop_zero]
  have htake : List.take L (items ++ List.drop items.length (List.replicate H4.Gen.Cnbit.NBIT_BUF_SIZE stale)) = items := by
    rw [List.take_append_of_le_length (by omega), List.take_of_length_le (by omega)]
  rw [htake]
  cases L with
  | zero => omega
  | succ L => simp [decodeLoop]


example : readBack { ntSize := 2, signExt := true, fillOne := false, maskOff := 9, maskLen := 6 }
    (compress { ntSize := 2, signExt := true, fillOne := false, maskOff := 9, maskLen := 6 } [0x03, 0xff, 0x02, 0x00]) [4] 0xbe
    = [[0xff, 0xf0, 0xfe, 0x00]] := by decide +kernel

end H4.Props.C05
