import H4.Lemmas.C15Fn
import H4.Props.C15
/-! C15, function-level Tie A: `DFCIrle` and `DFCIunrle` of `hdf/src/dfrle.c` as translated statement by statement from the CURRENT C text
    (`H4.Gen.Fn.Dfrle`, written by gen/c2lean.py on every run) compute exactly the hand-written model `H4.Codecs` that the C15 theorems
    (`dfrle_roundtrip`, `dfrle_size_bound`, `dfrle_split_roundtrip`, …) are about - for every row / packet stream of any length - and,
    under the stated preconditions on the caller's buffers, never index outside a buffer (`ub = false`) and terminate (`oof = false`).
    `bytes` converts a model byte string (`List UInt8`) into the `uint8` array the translated code sees (`List Int`).
    A change of the C text changes the generated definitions; these theorems are re-checked against them. -/
namespace H4.Props.C15Fn
open H4 H4.Codecs H4.Gen.Fn.Dfrle H4.Lemmas.C15Fn

/-- **`DFCIrle`** as translated from dfrle.c: for every row `bs` and every output buffer `out` that can hold the compressed row, the
    C code stays inside both buffers - in particular the read `*q` at `q = p + 1` one past the row is never executed, the guard
    `i && …` protects it -, terminates (fuel = row length), returns the length of the model's `DFCIrle bs`, has written exactly the
    model's bytes to the front of `bufto` and has not touched any byte behind them.
    `hlen` is the C-side range of `len` (`int32`, and `i + 120` must not overflow): the translation computes in unbounded integers,
    this hypothesis is what makes that faithful. -/
theorem DFCIrle_refines (bs : List Byte) (out : List Int) (fuel : Nat) (hf : bs.length ≤ fuel) (_hlen : bs.length + 120 < 2 ^ 31)
    (hout : (Codecs.DFCIrle bs).length ≤ out.length) :
    let s := Gen.Fn.Dfrle.DFCIrle fuel (bytes bs) out bs.length
    s.ub = false ∧ s.oof = false ∧ s.ret = ((Codecs.DFCIrle bs).length : Int) ∧
      s.bufto.take s.ret.toNat = bytes (Codecs.DFCIrle bs) ∧
      s.bufto.drop s.ret.toNat = out.drop s.ret.toNat ∧ s.bufto.length = out.length := by
  have h := rle_main bs bs.length fuel [] [] bs 0 0 0 0 0 0 out 0 (by simp) rfl rfl (Nat.le_refl _) hf (by omega)
    (by simpa [Codecs.DFCIrle, rlePkts] using hout) (by simp)
  rw [← rle_unfold] at h
  obtain ⟨h1, h2, h3, h4⟩ := h
  have hX : ser (encLoop bs.length [] bs) = Codecs.DFCIrle bs := rfl
  rw [hX] at h3 h4
  simp only [Nat.zero_add, List.take_zero, List.nil_append] at h3 h4
  refine ⟨h1, h2, h3, ?_, ?_, ?_⟩
  · rw [h3, h4, Int.toNat_natCast]; simp
  · rw [h3, h4, Int.toNat_natCast]; simp
  · rw [h4]; simp; omega

/-- the same with the buffer `DFputcomp` (dfcomp.c) really allocates per row: `xdim * 121 / 120 + 1` bytes -/
theorem DFCIrle_refines_dfputcomp (bs : List Byte) (out : List Int) (hlen : bs.length + 120 < 2 ^ 31)
    (hout : bs.length * 121 / 120 + 1 ≤ out.length) :
    let s := Gen.Fn.Dfrle.DFCIrle bs.length (bytes bs) out bs.length
    s.ub = false ∧ s.oof = false ∧ s.ret = ((Codecs.DFCIrle bs).length : Int) ∧
      s.bufto.take s.ret.toNat = bytes (Codecs.DFCIrle bs) ∧
      s.bufto.drop s.ret.toNat = out.drop s.ret.toNat ∧ s.bufto.length = out.length :=
  DFCIrle_refines bs out bs.length (Nat.le_refl _) hlen (Nat.le_trans (H4.Props.C15.dfrle_size_bound bs).2 hout)

/-- the hypotheses are satisfiable and the translated code runs: a literal block, a run, a pseudo run; exact-size buffer + 2 guard bytes -/
example :
    (let s := Gen.Fn.Dfrle.DFCIrle 10 (bytes [5, 5, 5, 5, 9, 8, 8, 7, 7, 7]) (List.replicate 10 0xA5) 10
     s.ub = false ∧ s.oof = false ∧ s.ret = 8 ∧ s.bufto = [132, 5, 3, 9, 8, 8, 131, 7, 0xA5, 0xA5]) ∧
    bytes (Codecs.DFCIrle [5, 5, 5, 5, 9, 8, 8, 7, 7, 7]) = [132, 5, 3, 9, 8, 8, 131, 7] := by decide

/-! ## `DFCIunrle` -/

/-- the static state of `DFCIunrle` between two calls (`static uint8 save[255], *savestart, *saveend`) holds the byte string `m`:
    `savestart ≤ saveend` are positions inside `save` and the cells between them are `m` -/
def SaveIs (save : List Int) (ss se : Int) (m : List Byte) : Prop :=
  save.length = 255 ∧ 0 ≤ ss ∧ ss ≤ se ∧ se ≤ 255 ∧ (save.drop ss.toNat).take (se - ss).toNat = bytes m

/-- **`DFCIunrle(buf, bufto, outlen, 1)`** (fresh image) as translated from dfrle.c: for EVERY input `buf` on which the model's
    `DFCIunrleS` is defined (i.e. the packets needed for `outlen` bytes end inside `buf` - the C function has no input bound) - in
    particular for every stream produced by `DFCIrle` -, whatever the static save area held before (`ss`, `se` may be any pointers,
    `stale` any content): no access outside `buf`, `bufto`, `save`, termination, the return value is the model's `used`, the first
    `outlen` bytes of `bufto` are the model's output, the bytes behind them are untouched and the static state holds the model's
    carry-over.  `_hlen`: `outlen` is an `int32`. -/
theorem DFCIunrle_refines_reset (buf : List Byte) (out save : List Int) (outlen : Nat) (ss se : Int) (stale : List Byte) (fuel : Nat)
    (r : Unrle) (hout : outlen ≤ out.length) (hsave : save.length = 255) (hfuel : buf.length + 255 ≤ fuel) (_hlen : outlen < 2 ^ 31)
    (hr : DFCIunrleS stale buf outlen true = some r) :
    let s := Gen.Fn.Dfrle.DFCIunrle fuel (bytes buf) out outlen 1 save ss se
    s.ub = false ∧ s.oof = false ∧ s.ret = (r.used : Int) ∧ s.bufto = bytes r.out ++ out.drop outlen ∧
      SaveIs s.save s.savestart s.saveend r.save := by
  intro s
  have h := un_rest buf outlen 1 0 0 save out fuel [] r (Nat.le_refl _) (by omega) (by simp) hout (by omega) (by omega) (by omega)
    (by simpa [DFCIunrleS] using hr)
  rw [← un_unfold_reset fuel buf out save outlen ss se] at h
  obtain ⟨h1, h2, h3, h4, SS', SE', h5, h6, h7, h8, h9, h10⟩ := h
  refine ⟨h1, h2, h3, h4, ?_⟩
  show SaveIs s.save s.savestart s.saveend r.save
  have e5 : s.savestart = (SS' : Int) := h5
  have e6 : s.saveend = (SE' : Int) := h6
  have e9 : s.save.length = save.length := h9
  refine ⟨by omega, by omega, by omega, by omega, ?_⟩
  rw [e5, e6, Int.toNat_natCast, show ((SE' : Int) - (SS' : Int)).toNat = SE' - SS' by omega]
  exact h10

/-- **the continuation call `DFCIunrle(buf, bufto, outlen, 0)`**: started with the static state a previous call left (holding the
    model's carry-over `m`), the translated code again agrees with the model `DFCIunrleS m buf outlen false` in every output -/
theorem DFCIunrle_refines_cont (buf : List Byte) (out save : List Int) (outlen : Nat) (ss se : Int) (m : List Byte) (fuel : Nat)
    (r : Unrle) (hout : outlen ≤ out.length) (hst : SaveIs save ss se m) (hfuel : buf.length + 255 ≤ fuel) (_hlen : outlen < 2 ^ 31)
    (hr : DFCIunrleS m buf outlen false = some r) :
    let s := Gen.Fn.Dfrle.DFCIunrle fuel (bytes buf) out outlen 0 save ss se
    s.ub = false ∧ s.oof = false ∧ s.ret = (r.used : Int) ∧ s.bufto = bytes r.out ++ out.drop outlen ∧
      SaveIs s.save s.savestart s.saveend r.save := by
  intro s
  obtain ⟨g1, g2, g3, g4, g5⟩ := hst
  obtain ⟨SS, rfl⟩ : ∃ n : Nat, ss = n := ⟨ss.toNat, by omega⟩
  obtain ⟨SE, rfl⟩ : ∃ n : Nat, se = n := ⟨se.toNat, by omega⟩
  rw [Int.toNat_natCast, show ((SE : Int) - (SS : Int)).toNat = SE - SS by omega] at g5
  have h := un_rest buf outlen 0 SS SE save out fuel m r (by omega) (by omega) g5 hout (by omega) (by omega) (by omega)
    (by simpa [DFCIunrleS] using hr)
  rw [← un_unfold_cont fuel buf out save outlen SS SE] at h
  obtain ⟨h1, h2, h3, h4, SS', SE', h5, h6, h7, h8, h9, h10⟩ := h
  refine ⟨h1, h2, h3, h4, ?_⟩
  show SaveIs s.save s.savestart s.saveend r.save
  have e5 : s.savestart = (SS' : Int) := h5
  have e6 : s.saveend = (SE' : Int) := h6
  have e9 : s.save.length = save.length := h9
  refine ⟨by omega, by omega, by omega, by omega, ?_⟩
  rw [e5, e6, Int.toNat_natCast, show ((SE' : Int) - (SS' : Int)).toNat = SE' - SS' by omega]
  exact h10

/-- the hypotheses are satisfiable and the continuation call runs: the static state holds `[7, 7]`; 5 bytes are asked for: the two saved
    bytes, a literal block of two and one byte of a run of three, whose other two bytes are saved -/
example :
    SaveIs ([7, 7] ++ List.replicate 253 0) 0 2 [7, 7] ∧
    (let s := Gen.Fn.Dfrle.DFCIunrle 260 (bytes [2, 1, 2, 131, 9]) (List.replicate 6 0xA5) 5 0 ([7, 7] ++ List.replicate 253 0) 0 2
     s.ub = false ∧ s.oof = false ∧ s.ret = 5 ∧ s.bufto = [7, 7, 1, 2, 9, 0xA5] ∧ s.savestart = 0 ∧ s.saveend = 2 ∧ s.save.take 2 = [9, 9]) ∧
    DFCIunrleS [7, 7] [2, 1, 2, 131, 9] 5 false = some ⟨[7, 7, 1, 2, 9], 5, [9, 9]⟩ := by
  unfold SaveIs; decide +kernel

/-- the row loop of `DFgetcomp` (dfcomp.c) run on the TRANSLATED `DFCIunrle`: `n = DFCIunrle(in, out, xdim, !i); in += n; out += xdim;`
    for pieces of the given lengths, the static state handed from call to call.  `none` = some call reported ub / out of fuel. -/
def rowsC (fuel : Nat) : List Int → Int → Int → List Byte → Bool → List Nat → Option (List (List Int))
  | _, _, _, _, _, [] => some []
  | save, ss, se, buf, first, n :: ns =>
    let s := Gen.Fn.Dfrle.DFCIunrle fuel (bytes buf) (List.replicate n 0) n (if first then 1 else 0) save ss se
    if s.ub || s.oof then none
    else (rowsC fuel s.save s.savestart s.saveend (buf.drop s.ret.toNat) false ns).map (s.bufto :: ·)

/-- the whole `DFgetcomp` row loop on the translated code computes the model's `unrleRows` -/
theorem rowsC_refines (fuel : Nat) : ∀ (ns : List Nat) (save : List Int) (ss se : Int) (m buf : List Byte) (first : Bool)
    (rows : List (List Byte)), save.length = 255 → (first = false → SaveIs save ss se m) → buf.length + 255 ≤ fuel →
    (∀ n ∈ ns, n < 2 ^ 31) → unrleRows m buf first ns = some rows → rowsC fuel save ss se buf first ns = some (rows.map bytes) := by
  intro ns
  induction ns with
  | nil => intro save ss se m buf first rows _ _ _ _ h; simp [unrleRows] at h; subst h; simp [rowsC]
  | cons n ns ih =>
    intro save ss se m buf first rows hsave hst hfuel hns h
    simp only [unrleRows] at h
    cases hr : DFCIunrleS m buf n first with
    | none => rw [hr] at h; cases h
    | some r =>
      rw [hr] at h
      obtain ⟨rows', hrows', rfl⟩ := Option.map_eq_some_iff.mp h
      have hn : n < 2 ^ 31 := hns n (by simp)
      have key : let s := Gen.Fn.Dfrle.DFCIunrle fuel (bytes buf) (List.replicate n 0) n (if first then 1 else 0) save ss se
          s.ub = false ∧ s.oof = false ∧ s.ret = (r.used : Int) ∧ s.bufto = bytes r.out ++ (List.replicate n (0 : Int)).drop n ∧
            SaveIs s.save s.savestart s.saveend r.save := by
        cases first with
        | true => exact DFCIunrle_refines_reset buf _ save n ss se m fuel r (by simp) hsave hfuel hn hr
        | false => exact DFCIunrle_refines_cont buf _ save n ss se m fuel r (by simp) (hst rfl) hfuel hn hr
      obtain ⟨k1, k2, k3, k4, k5⟩ := key
      have hd : (List.replicate n (0 : Int)).drop n = [] := by simp
      rw [hd, List.append_nil] at k4
      have hnext := ih _ _ _ r.save (buf.drop r.used) false rows' k5.1 (fun _ => k5) (by simp only [List.length_drop]; omega)
        (fun x hx => hns x (by simp [hx])) hrows'
      simp only [rowsC, k1, k2, Bool.or_self, Bool.false_eq_true, if_false, k3, Int.toNat_natCast, hnext, k4, Option.map_some, List.map_cons]

theorem mem_le_sum : ∀ (ns : List Nat) (n : Nat), n ∈ ns → n ≤ ns.sum := by
  intro ns
  induction ns with
  | nil => intro n h; cases h
  | cons a t ih =>
    intro n h
    rcases List.mem_cons.mp h with h | h
    · subst h; simp
    · have := ih n h; simp only [List.sum_cons]; omega

/-- **`dfrle_split_roundtrip` transferred to the C text**: one stream compressed by `DFCIrle`, decoded by successive calls of the
    translated `DFCIunrle` asking for arbitrary piece lengths (`resetsave` for the first call only, input advanced by each return
    value, static state carried over) yields exactly the consecutive pieces of the original bytes; no call leaves its buffers -/
theorem dfrle_split_roundtrip_c (row : List Byte) (ns : List Nat) (h : ns.sum ≤ row.length) (hlen : row.length < 2 ^ 31)
    (save : List Int) (ss se : Int) (hsave : save.length = 255) (fuel : Nat) (hfuel : (Codecs.DFCIrle row).length + 255 ≤ fuel) :
    rowsC fuel save ss se (Codecs.DFCIrle row) true ns = some ((chop row ns).map bytes) := by
  apply rowsC_refines fuel ns save ss se [] (Codecs.DFCIrle row) true _ hsave (fun h => by cases h) hfuel
  · intro n hn
    have : n ≤ ns.sum := mem_le_sum ns n hn
    omega
  · exact H4.Props.C15.dfrle_split_roundtrip row ns h

/-- **`dfrle_roundtrip` on the C text, both directions translated**: a row compressed by the translated `DFCIrle` (into any buffer of
    DFputcomp's size) and decompressed by the translated `DFCIunrle` from exactly the bytes `DFCIrle` returned comes back unchanged,
    the decoder consumes exactly what the encoder produced, and neither function leaves its buffers -/
theorem dfrle_c_roundtrip (bs : List Byte) (out1 out2 save : List Int) (ss se : Int) (hlen : bs.length + 120 < 2 ^ 31)
    (hout1 : bs.length * 121 / 120 + 1 ≤ out1.length) (hout2 : bs.length ≤ out2.length) (hsave : save.length = 255) :
    let e := Gen.Fn.Dfrle.DFCIrle bs.length (bytes bs) out1 bs.length
    let d := Gen.Fn.Dfrle.DFCIunrle (out1.length + 255) (e.bufto.take e.ret.toNat) out2 bs.length 1 save ss se
    e.ub = false ∧ e.oof = false ∧ d.ub = false ∧ d.oof = false ∧ d.ret = e.ret ∧ d.bufto.take bs.length = bytes bs ∧
      d.bufto.drop bs.length = out2.drop bs.length := by
  intro e d
  obtain ⟨e1, e2, e3, e4, _, _⟩ := DFCIrle_refines_dfputcomp bs out1 hlen hout1
  have hb := (H4.Props.C15.dfrle_size_bound bs).2
  obtain ⟨d1, d2, d3, d4, _⟩ := DFCIunrle_refines_reset (Codecs.DFCIrle bs) out2 save bs.length ss se [] (out1.length + 255)
    ⟨bs, (Codecs.DFCIrle bs).length, []⟩ hout2 hsave (by omega) (by omega) (H4.Props.C15.dfrle_roundtrip_full [] bs)
  have hd : d = Gen.Fn.Dfrle.DFCIunrle (out1.length + 255) (bytes (Codecs.DFCIrle bs)) out2 bs.length 1 save ss se := by
    show Gen.Fn.Dfrle.DFCIunrle _ (e.bufto.take e.ret.toNat) _ _ _ _ _ _ = _
    rw [e4]
  rw [hd]
  refine ⟨e1, e2, d1, d2, by rw [d3, e3], ?_, ?_⟩
  · rw [d4]; simp
  · rw [d4]; simp

/-- the hypotheses are satisfiable and the translated decoder runs: whole row, then the same stream in pieces 2,0,5,1,3 through the
    save area (stale static state 7..9 ignored by `resetsave`) -/
example :
    (let s := Gen.Fn.Dfrle.DFCIunrle 263 (bytes [132, 5, 3, 9, 8, 8, 131, 7]) (List.replicate 12 0xA5) 10 1 (List.replicate 255 0) 7 9
     s.ub = false ∧ s.oof = false ∧ s.ret = 8 ∧ s.bufto = [5, 5, 5, 5, 9, 8, 8, 7, 7, 7, 0xA5, 0xA5] ∧ s.savestart = 0 ∧ s.saveend = 0) ∧
    DFCIunrleS [] [132, 5, 3, 9, 8, 8, 131, 7] 10 true = some ⟨[5, 5, 5, 5, 9, 8, 8, 7, 7, 7], 8, []⟩ ∧
    rowsC 270 (List.replicate 255 0) 0 0 (Codecs.DFCIrle [1, 1, 1, 1, 1, 2, 3, 4, 4, 4, 4]) true [2, 0, 5, 1, 3] =
      some [[1, 1], [], [1, 1, 1, 2, 3], [4], [4, 4, 4]] := by decide +kernel

end H4.Props.C15Fn
