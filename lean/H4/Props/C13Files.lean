import H4.Lemmas.Handles
import H4.Props.C13Atom
/-! # C13 (file level) — files cannot be closed under their access elements, repeated opens share one view, teardown is complete

Model: `H4.Handles` (the `filerec_t` table and the access records of `hfile.c` over the specification of the atom layer).
Every theorem is about ALL interleavings `ops : List Op` of `Hopen / Hclose / Hstartaccess / Hendaccess /` inquiries on file and
access ids, run from the state after `HIstart`, with any ids as arguments (live, released, never issued, of the other kind).

* `cfg.kindChecked` is the fact Tie A reads from `hfile_priv.h`: the H entry points resolve an id only if it is of the right
  group (`HIfid2rec` / `HIaid2rec`, fix a10afb7).  The invariants are proved for such a configuration (`current_checked`: the
  current source).  Without the test an id of the other kind is RESOLVED and its object is read as the wrong record type:
  `unchecked_kind_confuses` (this was a real defect: SEGV in `Hendaccess(file id)`, `Hread(file id)`).
* `cfg.closeChecksAids` (generated too): `Hclose` refuses a file id through which access elements are still attached, whatever
  other ids keep the file open.  With it no attach count is ever lost: `attach_eq_live_aids` (attach = number of attached
  access records, exactly) and `endaccess_of_live_aid_succeeds`.  Without it (the source before the repair) `Hclose` of such
  an id succeeds while another id keeps the file open, the later `Hendaccess` fails on the dead file id without `attach--` and
  the file can never be closed again: `close_under_aid_leaks_attach`; `attach_eq_live_aids_plus_leaked` is the statement that
  holds for both configurations.
* `cfg.spPerFileId` (generated too, from `HPcompare_accrec_tagref`): the special information of an element — and the access
  elements that information holds ITSELF (chunk-table Vdata of a chunked element, data element of a compressed one) — is shared
  between the access records of ONE file id only.  Section "special elements": histories with such elements are histories of
  the H calls above (`spRun_is_history`), so every invariant holds for them; with the flag every order of release over two ids
  of one file is balanced (`shared_chunk_info_release_orders`); without it (`share_across_ids_blocks_close`) the information's
  own access element stays attached through the first id after the caller has ended everything it started through that id.
* atom ids are not reissued as long as fewer than 2^28 file ids were handed out (`H4.Props.C13`: `make_atom_wraps`); the attach
  theorem carries that bound, the others do not need it. -/
namespace H4.Props.C13Files
open H4.Handles H4.Gen.Atom H4.Gen.Hdf H4.Gen.Macros
open H4.Atom (group_MAKE_ATOM Info)

/-- the current source checks the kind of every id at the H entry points -/
theorem current_checked : Cfg.current.kindChecked = true ∧ Cfg.current.closeChecksAids = true ∧ Cfg.current.spPerFileId = true := by decide

/-- state after a history -/
abbrev after (cfg : Cfg) (ops : List Op) : World := run cfg World.init ops

theorem reachable_wf (cfg : Cfg) (hk : cfg.kindChecked = true) (ops : List Op) : WF (after cfg ops) :=
  run_wf cfg hk World.init ops init_wf

/-! ## link to the atom layer -/

/-- `handles_atoms_refine`: the ids of the file table ARE ids of the atom layer.  After every history the two groups of the world
    are the state of `H4.Atom`'s specification machine after the atom calls the history made (`trace`), and on that trace the
    model of `atom.c` itself (hash tables, chains, free list, 4-entry cache with its promotions) returns call by call what the
    specification returns (`H4.Props.C13.run_refines_map`), provided the trace is admissible (fewer than 2^28 registrations). -/
theorem handles_atoms_refine (cfg : Cfg) (ops : List Op) :
    (after cfg ops).atoms = H4.Atom.srunS H4.Atom.SState.init (after cfg ops).trace ∧
    (H4.Atom.adm H4.Atom.State.init (after cfg ops).trace = true →
      H4.Atom.SRun H4.Atom.SState.init (after cfg ops).trace (H4.Atom.runR H4.Atom.State.init (after cfg ops).trace)) :=
  ⟨(run_traceOk cfg World.init ops init_traceOk).eq, H4.Props.C13.run_refines_map _⟩

/-! ## counters -/

/-- `refcount_eq_live_fids`: after every history, the reference count of every file record is exactly the number of live file
    ids that designate it, and is at least 1 (a record without ids does not exist). -/
theorem refcount_eq_live_fids (cfg : Cfg) (hk : cfg.kindChecked = true) (ops : List Op) :
    ∀ e ∈ (after cfg ops).frecs, e.2.refcount = (liveFids (after cfg ops)).countP (fun i => i.obj == e.1) ∧ 1 ≤ e.2.refcount :=
  (reachable_wf cfg hk ops).refc

/-- `attach_eq_live_aids_plus_leaked` (any configuration): attach = number of access records attached to the record + number of
    counts lost by failed `Hendaccess` calls; every access record has exactly one live access id. -/
theorem attach_eq_live_aids_plus_leaked (cfg : Cfg) (hk : cfg.kindChecked = true) (ops : List Op) (hn : ops.length < 2 ^ 28) :
    (∀ e ∈ (after cfg ops).frecs,
        e.2.attach = (after cfg ops).arecs.countP (fun a => a.2.file == e.1) + (after cfg ops).leaked.countP (fun x => x == e.1)) ∧
    (∀ a ∈ (after cfg ops).arecs, (liveAids (after cfg ops)).countP (fun i => i.obj == a.1) = 1) :=
  ⟨(run_wfa cfg hk World.init ops init_wf init_wfa (by simpa [World.init] using hn)).att, (reachable_wf cfg hk ops).aone⟩

/-- `no_attach_lost`: with the per-id test of `Hclose` nothing is ever leaked, and every access record was started through a
    file id that is still live -/
theorem no_attach_lost (cfg : Cfg) (hk : cfg.kindChecked = true) (hc : cfg.closeChecksAids = true) (ops : List Op)
    (hn : ops.length < 2 ^ 28) :
    (after cfg ops).leaked = [] ∧ ∀ a ∈ (after cfg ops).arecs, ∃ i ∈ liveFids (after cfg ops), i.id = a.2.fileId :=
  let h := run_noOrphan cfg hk hc World.init ops init_wf init_wfa init_noOrphan (by simpa [World.init] using hn)
  ⟨h.noleak, h.alive⟩

/-- `attach_eq_live_aids`: the attach counter of every file record is EXACTLY the number of access records attached to it, and
    every access record has exactly one live access id. -/
theorem attach_eq_live_aids (cfg : Cfg) (hk : cfg.kindChecked = true) (hc : cfg.closeChecksAids = true) (ops : List Op)
    (hn : ops.length < 2 ^ 28) :
    (∀ e ∈ (after cfg ops).frecs, e.2.attach = (after cfg ops).arecs.countP (fun a => a.2.file == e.1)) ∧
    (∀ a ∈ (after cfg ops).arecs, (liveAids (after cfg ops)).countP (fun i => i.obj == a.1) = 1) := by
  have h := attach_eq_live_aids_plus_leaked cfg hk ops hn
  have hl := (no_attach_lost cfg hk hc ops hn).1
  refine ⟨fun e he => ?_, h.2⟩
  have := h.1 e he
  rw [hl] at this
  simpa using this

/-- `endaccess_of_live_aid_succeeds`: `Hendaccess` of an id that designates an access record never takes the failing branch:
    it returns SUCCEED (the repair makes the failure `BADFREC(file_rec)` unreachable) -/
theorem endaccess_of_live_aid_succeeds (cfg : Cfg) (hk : cfg.kindChecked = true) (hc : cfg.closeChecksAids = true) (ops : List Op)
    (hn : ops.length < 2 ^ 28) (id q : Nat) (a : ARec) (hl : lookA cfg (after cfg ops) id = .acc q a) :
    (step cfg (after cfg ops) (.endaccess id)).2 = .ok := by
  have hw := reachable_wf cfg hk ops
  have ha := run_wfa cfg hk World.init ops init_wf init_wfa (by simpa [World.init] using hn)
  have hno := run_noOrphan cfg hk hc World.init ops init_wf init_wfa init_noOrphan (by simpa [World.init] using hn)
  obtain ⟨hg, ⟨e0, hfind, hobj⟩, hget⟩ := lookA_acc hk hl
  obtain ⟨r1, r2, r3, r4, r5, r6⟩ := aRem_aid (after cfg ops) id hg
  have hmem := getA_mem hget
  have hmid := endAccess_mid_wf (after cfg ops) id q a hw hg e0 hfind hobj hget
  have hmidN : NoOrphan (delA (aRem (after cfg ops) id) q) := by
    refine ⟨?_, by simp only [delA_leaked, r6]; exact hno.noleak, ?_, by simp only [delA_nobj, r5]; exact hno.npos⟩
    · intro b hb
      have hb' := (mem_delA.mp hb).1
      rw [r4] at hb'
      simp only [delA_fidg, r2]
      exact hno.alive b hb'
    · intro e he; simp only [delA_frecs, r3] at he; exact hno.fpos e he
  obtain ⟨i, hi, hid⟩ := hno.alive (q, a) hmem
  obtain ⟨k, _, hk2⟩ := ha.issued (q, a) hmem
  have hgF : ATOM_TO_GROUP a.fileId = FIDGROUP := by
    simp only [] at hk2; rw [hk2]; exact group_MAKE_ATOM FIDGROUP k (by decide)
  have hi' : i ∈ (delA (aRem (after cfg ops) id) q).fidg.live := by simp only [delA_fidg, r2]; exact hi
  obtain ⟨p, r, hlf⟩ := lookF_of_live (cfg := cfg) hmid hmidN hgF hi' hid
  simp only [step, endAccess, hl, hlf]

/-- every live access id designates an access record, every live file id a file record -/
theorem live_ids_designate (cfg : Cfg) (hk : cfg.kindChecked = true) (ops : List Op) :
    (∀ i ∈ liveFids (after cfg ops), ∃ e ∈ (after cfg ops).frecs, e.1 = i.obj) ∧
    (∀ i ∈ liveAids (after cfg ops), ∃ a ∈ (after cfg ops).arecs, a.1 = i.obj) :=
  ⟨(reachable_wf cfg hk ops).fobj, (reachable_wf cfg hk ops).aobj⟩

/-- `nextread_keeps_counters`: `Hnextread` never changes the file table — whatever kinds of element the access record leaves and
    reaches and whether or not a further match exists, `refcount`, `attach` and all registrations are as before (so a file stays
    protected by a walking access element exactly as by a resting one). -/
theorem nextread_keeps_counters (cfg : Cfg) (w : World) (id : Nat) (found : Bool) : (step cfg w (.nextread id found)).1 = w :=
  nextRead_state cfg w id found

/-! ## closing under attached access elements -/

/-- `close_with_aids_fails_and_preserves`: in ANY state, `Hclose` of the last file id of a record that still has access
    elements attached returns FAIL and changes nothing at all — the file stays open and usable (every later call sees the
    same world). -/
theorem close_with_aids_fails_and_preserves (cfg : Cfg) (w : World) (id p : Nat) (r : FRec)
    (hl : lookF cfg w id = .file p r) (h1 : r.refcount = 1) (ha : 0 < r.attach) :
    hclose cfg w id = (w, .fail) := by
  unfold hclose hcloseRec
  simp only [hl, h1, ha]
  split <;> simp

/-- … and, with the invariant, this is exactly the case "last id of the file, some access element still open" -/
theorem close_with_aids_fails_reachable (cfg : Cfg) (hk : cfg.kindChecked = true) (ops : List Op) (hn : ops.length < 2 ^ 28)
    (id p : Nat) (r : FRec) (hl : lookF cfg (after cfg ops) id = .file p r)
    (hone : (liveFids (after cfg ops)).countP (fun i => i.obj == p) = 1)
    (hacc : 0 < (after cfg ops).arecs.countP (fun a => a.2.file == p)) :
    step cfg (after cfg ops) (.hclose id) = (after cfg ops, .fail) := by
  obtain ⟨_, _, hget, _⟩ := lookF_file hk hl
  have hmem := getF_mem hget
  have h1 := (refcount_eq_live_fids cfg hk ops (p, r) hmem).1
  have h2 := (attach_eq_live_aids_plus_leaked cfg hk ops hn).1 (p, r) hmem
  simp only [] at h1 h2
  exact close_with_aids_fails_and_preserves cfg _ id p r hl (by rw [h1]; exact hone) (by omega)

/-! ## repeated opens -/

/-- `repeated_open_shares_file`: in every reachable state no two file records have the same path, and an `Hopen` of a path that
    is open returns an id that designates the EXISTING record (one consistent view) whose reference count it increments. -/
theorem one_record_per_path (cfg : Cfg) (hk : cfg.kindChecked = true) (ops : List Op) :
    ((after cfg ops).frecs.map (·.2.path)).Nodup := (reachable_wf cfg hk ops).paths

theorem repeated_open_shares_file (w : World) (path acc p : Nat) (r : FRec) (osOk : Bool)
    (hacc : acc &&& DFACC_ALL = acc) (hcreate : acc ≠ DFACC_CREATE)
    (hfound : findRec w path = some p) (hget : getF w p = some r) :
    (hopen w path acc osOk).2 = .id (fidNew w) ∧
    aObj (hopen w path acc osOk).1 (fidNew w) = p ∧
    (hopen w path acc osOk).1.frecs.map (·.1) = w.frecs.map (·.1) := by
  have h1 : (acc &&& DFACC_ALL != acc) = false := by simp [hacc]
  have h2 : (acc == DFACC_CREATE) = false := by simpa using hcreate
  have hres : hopen w path acc osOk =
      (regF (setF w p { r with refcount := r.refcount + 1, access := reopenAccess r acc }) p, .id (fidNew w)) := by
    unfold hopen
    simp only [h1, Bool.false_eq_true, if_false, hfound, hget, h2]
  rw [hres]
  refine ⟨rfl, ?_, by simp [regF]⟩
  unfold aObj grpOf
  have hg : ATOM_TO_GROUP (MAKE_ATOM FIDGROUP w.fidg.nextid) = FIDGROUP := group_MAKE_ATOM FIDGROUP _ (by decide)
  simp only [fidNew, regF, setF_fidg, hg, if_true, List.find?_cons, beq_self_eq_true, Option.map_some, Option.getD_some]

/-! ## teardown -/

/-- `full_teardown_is_init`: once every file id is released no file record is left, and once every access id is released no
    access record is left: the table is the initial one (the atom groups keep only their counters, see
    `H4.Props.C13.destroy_then_init_clean` for those). -/
theorem full_teardown_is_init (cfg : Cfg) (hk : cfg.kindChecked = true) (ops : List Op)
    (hf : liveFids (after cfg ops) = []) (ha : liveAids (after cfg ops) = []) :
    (after cfg ops).frecs = World.init.frecs ∧ (after cfg ops).arecs = World.init.arecs := by
  have hw := reachable_wf cfg hk ops
  constructor
  · cases hfr : (after cfg ops).frecs with
    | nil => rfl
    | cons e t =>
      have := hw.refc e (by rw [hfr]; exact List.mem_cons_self)
      unfold liveFids at hf
      rw [hf] at this
      simp at this
      omega
  · cases har : (after cfg ops).arecs with
    | nil => rfl
    | cons a t =>
      have := hw.aone a (by rw [har]; exact List.mem_cons_self)
      unfold liveAids at ha
      rw [ha] at this
      simp at this

/-! ## failed entry points: every other handle of the process is untouched

The family "a call that FAILS changes nothing another handle can see".  In the model every failing branch of every call returns the
world it was given, with two exceptions that the theorems name: `Hendaccess` of a live access id whose file id is dead (unreachable
in a source with the per-id test of `Hclose`: `endaccess_of_live_aid_succeeds`), and the use count of the DD atom group after a
failed `HTPstart` inside `Hopen` (`ddAfterFailedStart`, read from the source by Tie A).  The DD group holds the DD id behind EVERY
access element of EVERY open file: it must exist as long as any file record does (`dd_group_outlives_files`). -/

theorem hopen_fail_state (w : World) (p a : Nat) (o : Bool) (hf : (hopen w p a o).2 = .fail) : (hopen w p a o).1 = w := by
  revert hf; unfold hopen; repeat' split
  all_goals first
    | (intro _; rfl)
    | (intro h; cases h)

/-- `failed_open_keeps_handles`: an `Hopen` that cannot succeed — whatever else is open, whatever stage it gives up at (operating
    system, magic number, DD blocks), whatever the access mode — returns FAIL and leaves both id maps, every file record (refcount,
    attach, access), every access record and the pointer counter exactly as they were; the use count of DDGROUP is unchanged
    unless the failure is inside `HTPstart`, where it becomes `ddAfterFailedStart`. -/
theorem failed_open_keeps_handles (w : World) (path acc : Nat) (st : OpenStage) (hf : (hopenBad w path acc st).2 = .fail) :
    (hopenBad w path acc st).1 = setDd w (hopenBad w path acc st).1.ddUse ∧
    ((hopenBad w path acc st).1.ddUse = w.ddUse ∨
      (st = .dd ∧ (hopenBad w path acc st).1.ddUse = ddAfterFailedStart w.ddUse)) := by
  revert hf; unfold hopenBad; repeat' split
  all_goals first
    | (intro _; exact ⟨rfl, Or.inl rfl⟩)
    | (intro _; exact ⟨rfl, Or.inr ⟨rfl, rfl⟩⟩)
    | (intro hf; rw [hopen_fail_state _ _ _ _ hf]; exact ⟨rfl, Or.inl rfl⟩)

/-- … and it always fails when the path is not open and the file is not made anew -/
theorem bad_open_fails (w : World) (path acc : Nat) (st : OpenStage) (hnone : findRec w path = none) (hc : acc ≠ DFACC_CREATE) :
    (hopenBad w path acc st).2 = .fail := by
  have h2 : (acc == DFACC_CREATE) = false := by simpa using hc
  unfold hopenBad
  split
  · rfl
  · simp only [hnone, h2, Bool.false_eq_true, if_false]
    cases st <;> rfl

/-- `failed_step_keeps_handles` (any state, any configuration): a call of the file table that returns FAIL leaves the world as it
    was — except for the DD use count (above) and except `Hendaccess` of an id that does designate an access record. -/
theorem failed_step_keeps_handles (cfg : Cfg) (w : World) (op : Op) (hf : (step cfg w op).2 = .fail)
    (hend : ∀ id, op = .endaccess id → ∀ q a, lookA cfg w id ≠ .acc q a) :
    (step cfg w op).1 = setDd w (step cfg w op).1.ddUse := by
  cases op with
  | nextread id f => simp only [step, nextRead_state]; rfl
  | hopen p a o => simp only [step] at hf ⊢; rw [hopen_fail_state _ _ _ _ hf]; rfl
  | hopenbad p a st => simp only [step] at hf ⊢; exact (failed_open_keeps_handles w p a st hf).1
  | hclose id =>
    revert hf; simp only [step, hclose, hcloseRec]; repeat' split
    all_goals first
      | (intro _; rfl)
      | (intro h; cases h)
  | startaccess id f wr =>
    revert hf; simp only [step, startAccess]; repeat' split
    all_goals first
      | (intro _; rfl)
      | (intro h; cases h)
  | endaccess id =>
    have hnot := hend id rfl
    revert hf; simp only [step, endAccess]; split
    · intro _; rfl
    · intro _; rfl
    · rename_i q a hl; exact absurd hl (hnot q a)
  | usefid id => rfl
  | useaid id => rfl

/-- `failed_call_keeps_handles`: after EVERY history (source with the kind test and the per-id test of `Hclose`), whatever is open
    — one file, two, several, with any number of access elements — a call that returns FAIL (an `Hopen` of a damaged file, of a
    directory, with a bad mode; `Hstartaccess` on a missing or unreadable element; a stale or foreign id given to anything) leaves
    every id, every record and every counter of the file table exactly as it was.  Only the DD use count may differ. -/
theorem failed_call_keeps_handles (cfg : Cfg) (hk : cfg.kindChecked = true) (hc : cfg.closeChecksAids = true) (ops : List Op)
    (hn : ops.length < 2 ^ 28) (op : Op) (hf : (step cfg (after cfg ops) op).2 = .fail) :
    (step cfg (after cfg ops) op).1 = setDd (after cfg ops) (step cfg (after cfg ops) op).1.ddUse := by
  apply failed_step_keeps_handles cfg _ op hf
  intro id hop q a hl
  subst hop
  rw [endaccess_of_live_aid_succeeds cfg hk hc ops hn id q a hl] at hf
  cases hf

/-- the fact about the CURRENT source the next theorems stand on (Tie A: `H4.Gen.Src`): `HTPstart` takes the DD group before it
    reads, or nothing gives a use back after a failed start.  A source that takes the group only after reading AND ends the DD list
    of a failed start makes this `decide` fail. -/
theorem current_failed_start_balanced :
    (H4.Gen.Src.HTPSTART_TAKES_DDGROUP_FIRST ||
      !(H4.Gen.Src.HOPEN_ENDS_DDLIST_OF_FAILED_START || H4.Gen.Src.HTPSTART_FAILURE_RELEASES_DDGROUP)) = true := by decide

/-- a failed `HTPstart` never takes a use of the DD group away from the files that are open -/
theorem failed_start_keeps_dd_group (n : Nat) : n ≤ ddAfterFailedStart n := by
  have h := current_failed_start_balanced
  unfold ddAfterFailedStart ddAfterFailedStartOf
  generalize H4.Gen.Src.HTPSTART_TAKES_DDGROUP_FIRST = a at *
  generalize (H4.Gen.Src.HOPEN_ENDS_DDLIST_OF_FAILED_START || H4.Gen.Src.HTPSTART_FAILURE_RELEASES_DDGROUP) = b at *
  cases a <;> cases b <;> simp at h ⊢ <;> omega

/-- `failed_start_takes_use_of_another_file` (a source that takes the DD group only AFTER the DD blocks are read and whose `Hopen`
    ends the DD list of a failed start; engine keys `ids-dd-group-use-below-open-files`, `ids-failed-call-disturbs-live-handle`):
    with one file open, one failed `Hopen` of a damaged file brings the use count to 0 — the group is destroyed under the open file. -/
theorem failed_start_takes_use_of_another_file : ddAfterFailedStartOf false true 1 = 0 ∧ ddAfterFailedStartOf false true 2 = 1 := by decide

theorem filter_key_length {α} (l : List (Nat × α)) (hk : (l.map (·.1)).Nodup) {p : Nat} {r : α} (h : (p, r) ∈ l) :
    (l.filter (fun e => e.1 != p)).length + 1 = l.length := by
  induction l with
  | nil => cases h
  | cons x t ih =>
    simp only [List.map_cons, List.nodup_cons] at hk
    by_cases hx : x.1 = p
    · have hall : ∀ e ∈ t, (e.1 != p) = true := by
        intro e he
        have : e.1 ≠ x.1 := fun heq => hk.1 (heq ▸ List.mem_map_of_mem he)
        simpa [hx] using this
      have : t.filter (fun e => e.1 != p) = t := List.filter_eq_self.mpr hall
      simp [hx, this]
    · have hmem : (p, r) ∈ t := by
        rcases List.mem_cons.mp h with rfl | h'
        · exact absurd rfl hx
        · exact h'
      have := ih hk.2 hmem
      simp [hx]; omega

/-- one step: the DD use count stays ≥ the number of file records; and it stays EQUAL when the step is not a failed `HTPstart`
    that moves the count -/
theorem step_dd (cfg : Cfg) (hk : cfg.kindChecked = true) (w : World) (op : Op) (hw : WF w) :
    (w.frecs.length ≤ w.ddUse → (step cfg w op).1.frecs.length ≤ (step cfg w op).1.ddUse) ∧
    ((∀ p a, op = .hopenbad p a .dd → ddAfterFailedStart w.ddUse = w.ddUse) → w.frecs.length = w.ddUse →
      (step cfg w op).1.frecs.length = (step cfg w op).1.ddUse) := by
  have hopenF : ∀ p a o, (hopen w p a o).1.frecs.length = w.frecs.length + ((hopen w p a o).1.ddUse - w.ddUse) ∧
      w.ddUse ≤ (hopen w p a o).1.ddUse := by
    intro p a o
    unfold hopen; repeat' split
    all_goals simp [regF, setDd, setF]
  cases op with
  | nextread id f => simp only [step, nextRead_state]; exact ⟨fun h => h, fun _ h => h⟩
  | hopen p a o =>
    have := hopenF p a o
    simp only [step]; constructor <;> intros <;> omega
  | hopenbad p a st =>
    simp only [step, hopenBad]
    repeat' split
    all_goals first
      | exact ⟨fun h => h, fun _ h => h⟩
      | (have := hopenF p a true; constructor <;> intros <;> omega)
      | (have := hopenF p a (st != .os); constructor <;> intros <;> omega)
      | (have := failed_start_keeps_dd_group w.ddUse
         refine ⟨fun h => by simp only [setDd]; omega, fun hdd h => ?_⟩
         have := hdd p a rfl
         simp only [setDd]; omega)
  | hclose id =>
    simp only [step, hclose]
    split
    · exact ⟨fun h => h, fun _ h => h⟩
    · exact ⟨fun h => h, fun _ h => h⟩
    · rename_i q r hl
      obtain ⟨hg, _, hget, _⟩ := lookF_file hk hl
      have hlen := filter_key_length w.frecs hw.fkeys (getF_mem hget)
      split
      · exact ⟨fun h => h, fun _ h => h⟩
      · unfold hcloseRec
        split
        · split
          · exact ⟨fun h => h, fun _ h => h⟩
          · have e1 : (setDd (aRem (delF w q) id) (w.ddUse - 1)).frecs.length + 1 = w.frecs.length := by
              show (aRem (delF w q) id).frecs.length + 1 = _
              rw [aRem_frecs]; exact hlen
            have e2 : (setDd (aRem (delF w q) id) (w.ddUse - 1)).ddUse = w.ddUse - 1 := rfl
            constructor
            · intro h
              show (setDd (aRem (delF w q) id) (w.ddUse - 1)).frecs.length ≤ (setDd (aRem (delF w q) id) (w.ddUse - 1)).ddUse
              omega
            · intro _ h
              show (setDd (aRem (delF w q) id) (w.ddUse - 1)).frecs.length = (setDd (aRem (delF w q) id) (w.ddUse - 1)).ddUse
              omega
        · have e1 : (aRem (setF w q { r with refcount := r.refcount - 1 }) id).frecs.length = w.frecs.length := by
            rw [aRem_frecs]; simp [setF]
          have e2 : (aRem (setF w q { r with refcount := r.refcount - 1 }) id).ddUse = w.ddUse := by
            rw [aRem_ddUse]; rfl
          constructor
          · intro h
            show (aRem (setF w q { r with refcount := r.refcount - 1 }) id).frecs.length ≤
              (aRem (setF w q { r with refcount := r.refcount - 1 }) id).ddUse
            omega
          · intro _ h
            show (aRem (setF w q { r with refcount := r.refcount - 1 }) id).frecs.length =
              (aRem (setF w q { r with refcount := r.refcount - 1 }) id).ddUse
            omega
  | startaccess id f wr =>
    simp only [step, startAccess]; repeat' split
    all_goals simp [regA, setF]
  | endaccess id =>
    simp only [step, endAccess]; repeat' split
    all_goals simp [setF, delA, aRem_frecs, aRem_ddUse]
  | usefid id => exact ⟨fun h => h, fun _ h => h⟩
  | useaid id => exact ⟨fun h => h, fun _ h => h⟩

/-- `dd_group_outlives_files`: after EVERY history — failed opens of damaged files at any point, with one, two or several other
    files open — the use count of the DD atom group is at least the number of file records: the group, and with it the DD id of
    every access element of every open file, exists as long as any file is open. -/
theorem dd_group_outlives_files (cfg : Cfg) (hk : cfg.kindChecked = true) (ops : List Op) :
    (after cfg ops).frecs.length ≤ (after cfg ops).ddUse := by
  suffices h : ∀ w, WF w → w.frecs.length ≤ w.ddUse → (run cfg w ops).frecs.length ≤ (run cfg w ops).ddUse from
    h World.init init_wf (by simp [World.init])
  induction ops with
  | nil => intro w _ h; exact h
  | cons op t ih => intro w hw h; exact ih _ (step_wf cfg hk w op hw) ((step_dd cfg hk w op hw).1 h)

/-- `dd_use_is_open_files`: a history in which no `Hopen` fails inside `HTPstart` (or any history at all, for a source whose failed
    start leaves the count alone) leaves the use count EXACTLY at the number of open files; once every file id is released it is 0,
    the initial state (with `full_teardown_is_init`).  In the current source every failed `HTPstart` adds one use that is never
    given back (`ddAfterFailedStart n = n + 1`; engine statistic `failed_open_keeps_dd_use`): nothing observable follows from it —
    the group is never destroyed, its hash table stays allocated. -/
theorem dd_use_is_open_files (cfg : Cfg) (hk : cfg.kindChecked = true) (ops : List Op)
    (hdd : (∀ n, ddAfterFailedStart n = n) ∨ ∀ op ∈ ops, ∀ p a, op ≠ .hopenbad p a .dd) :
    (after cfg ops).frecs.length = (after cfg ops).ddUse := by
  suffices h : ∀ w, WF w → w.frecs.length = w.ddUse → (run cfg w ops).frecs.length = (run cfg w ops).ddUse from
    h World.init init_wf (by simp [World.init])
  induction ops with
  | nil => intro w _ h; exact h
  | cons op t ih =>
    intro w hw h
    refine ih ?_ _ (step_wf cfg hk w op hw) ((step_dd cfg hk w op hw).2 ?_ h)
    · rcases hdd with h1 | h2
      · exact Or.inl h1
      · exact Or.inr (fun o ho => h2 o (List.mem_cons_of_mem _ ho))
    · intro p a hop
      rcases hdd with h1 | h2
      · exact h1 _
      · exact absurd hop (h2 op List.mem_cons_self p a)

/-! ## a concrete history: the hypotheses are satisfiable, and the known defect -/

def fid (k : Nat) : Nat := MAKE_ATOM FIDGROUP k
def aid (k : Nat) : Nat := MAKE_ATOM AIDGROUP k

/-- one file with an access element; a damaged file fails to open (inside `HTPstart`), a directory fails to open, a bad mode is
    refused, an unreadable element is refused: every id keeps working, everything is released, a fresh open succeeds -/
example : results ⟨true, true, true⟩ World.init [.hopen 7 DFACC_READ true, .startaccess (fid 0) true false,
      .hopenbad 9 DFACC_READ .dd, .useaid (aid 0), .usefid (fid 0), .hopenbad 10 DFACC_RDWR .os, .hopenbad 11 8 .magic,
      .startaccess (fid 0) false false, .useaid (aid 0), .endaccess (aid 0), .hclose (fid 0), .hopen 7 DFACC_READ true]
    = [.id (fid 0), .id (aid 0), .fail, .ok, .ok, .fail, .fail, .fail, .ok, .ok, .ok, .id (fid 1)] ∧
    (run ⟨true, true, true⟩ World.init [.hopen 7 DFACC_READ true, .startaccess (fid 0) true false,
      .hopenbad 9 DFACC_READ .dd, .endaccess (aid 0), .hclose (fid 0)]).ddUse = ddAfterFailedStart 1 - 1 := by decide

example : ∀ op ∈ [Op.hopen 7 DFACC_READ true, .hopenbad 9 DFACC_READ .magic, .hclose (fid 0)], ∀ p a, op ≠ .hopenbad p a .dd := by
  intro op hop p a; simp at hop; rcases hop with rfl | rfl | rfl <;> simp


/-- nested opens of one path, an access element, close refused while it is attached, then full teardown -/
example : results ⟨true, true, true⟩ World.init [.hopen 7 DFACC_READ true, .hopen 7 DFACC_RDWR true, .startaccess (fid 1) true true,
      .hclose (fid 0), .hclose (fid 1), .useaid (aid 0), .endaccess (aid 0), .endaccess (aid 0), .hclose (fid 1), .usefid (fid 1),
      .hopen 7 DFACC_READ true]
    = [.id (fid 0), .id (fid 1), .id (aid 0), .ok, .fail, .ok, .ok, .fail, .ok, .fail, .id (fid 2)] := by decide

/-- `close_under_aid_refused`: two ids of one file; an access element is started through the first; `Hclose` of the FIRST id is
    REFUSED (the element must be ended first) and everything stays usable; after `Hendaccess` both ids close. -/
theorem close_under_aid_refused :
    results ⟨true, true, true⟩ World.init [.hopen 7 DFACC_READ true, .hopen 7 DFACC_READ true, .startaccess (fid 0) true false, .hclose (fid 0),
      .useaid (aid 0), .endaccess (aid 0), .hclose (fid 0), .hclose (fid 1)]
      = [.id (fid 0), .id (fid 1), .id (aid 0), .fail, .ok, .ok, .ok, .ok] := by decide

/-- `close_under_aid_leaks_attach` (the source BEFORE the repair, `closeChecksAids = false`; engine key
    `ids-close-under-aid-leaks-attach`): `Hclose` of the first id succeeds (the second keeps the file open); the later
    `Hendaccess` FAILS (its file id is dead) and does not decrement `attach`; the last `Hclose` then fails for ever. -/
theorem close_under_aid_leaks_attach :
    results ⟨true, false, true⟩ World.init [.hopen 7 DFACC_READ true, .hopen 7 DFACC_READ true, .startaccess (fid 0) true false, .hclose (fid 0),
      .endaccess (aid 0), .hclose (fid 1), .hclose (fid 1)]
      = [.id (fid 0), .id (fid 1), .id (aid 0), .ok, .fail, .fail, .fail] ∧
    (run ⟨true, false, true⟩ World.init [.hopen 7 DFACC_READ true, .hopen 7 DFACC_READ true, .startaccess (fid 0) true false, .hclose (fid 0),
      .endaccess (aid 0)]).leaked = [1] := by decide

/-- without the kind test an access id given to `Hclose` (or a file id given to `Hendaccess`) is resolved and its object would be
    read as the wrong record type; with the test both calls FAIL -/
theorem unchecked_kind_confuses :
    results ⟨false, true, true⟩ World.init [.hopen 7 DFACC_READ true, .startaccess (fid 0) true false, .hclose (aid 0), .endaccess (fid 0)]
      = [.id (fid 0), .id (aid 0), .confused, .confused] ∧
    results ⟨true, true, true⟩ World.init [.hopen 7 DFACC_READ true, .startaccess (fid 0) true false, .hclose (aid 0), .endaccess (fid 0)]
      = [.id (fid 0), .id (aid 0), .fail, .fail] := by decide

/-! ## special elements: information records that hold access elements of their own (`H4.Handles.spStep`) -/

theorem run_append (cfg : Cfg) (w : World) (a b : List Op) : run cfg w (a ++ b) = run cfg (run cfg w a) b := by
  induction a generalizing w with
  | nil => rfl
  | cons op t ih => simp only [List.cons_append, run]; exact ih _

/-- `spRun_is_history`: whatever special elements a history touches (chunked, compressed, linked, with the access elements their
    information records start and end on their own), the file table it leaves is the one left by a history of plain
    `Hopen / Hclose / Hstartaccess / Hendaccess` calls — the calls the special code makes, in its order (`expandAll`). -/
theorem spRun_is_history (cfg : Cfg) (sw : SpWorld) (sops : List SpOp) :
    (spRun cfg sw sops).w = run cfg sw.w (expandAll cfg sw sops) := by
  induction sops generalizing sw with
  | nil => rfl
  | cons op t ih =>
    simp only [spRun, expandAll, run_append]
    rw [ih]
    rfl

/-- state of the file table after a history with special elements -/
abbrev afterSp (cfg : Cfg) (sops : List SpOp) : World := (spRun cfg SpWorld.init sops).w

/-- `sp_histories_keep_invariants`: … hence for ALL histories with special elements, any ids, any order of release: the reference
    count of every file record is the number of its live file ids, its attach counter is EXACTLY the number of access records
    attached to it — the caller's and the ones the special information holds — every one of them has exactly one live access
    id and was started through a file id that is still live, nothing is leaked, and once every id is released the table is the
    initial one (no state is retained that affects a later `Hopen`). -/
theorem sp_histories_keep_invariants (cfg : Cfg) (hk : cfg.kindChecked = true) (hc : cfg.closeChecksAids = true) (sops : List SpOp)
    (hn : (expandAll cfg SpWorld.init sops).length < 2 ^ 28) :
    (∀ e ∈ (afterSp cfg sops).frecs, e.2.refcount = (liveFids (afterSp cfg sops)).countP (fun i => i.obj == e.1) ∧
        e.2.attach = (afterSp cfg sops).arecs.countP (fun a => a.2.file == e.1)) ∧
    (∀ a ∈ (afterSp cfg sops).arecs, (liveAids (afterSp cfg sops)).countP (fun i => i.obj == a.1) = 1 ∧
        ∃ i ∈ liveFids (afterSp cfg sops), i.id = a.2.fileId) ∧
    (afterSp cfg sops).leaked = [] ∧
    (liveFids (afterSp cfg sops) = [] → liveAids (afterSp cfg sops) = [] →
        (afterSp cfg sops).frecs = [] ∧ (afterSp cfg sops).arecs = []) := by
  have e : afterSp cfg sops = after cfg (expandAll cfg SpWorld.init sops) := spRun_is_history cfg SpWorld.init sops
  rw [e]
  have h1 := refcount_eq_live_fids cfg hk (expandAll cfg SpWorld.init sops)
  have h2 := attach_eq_live_aids cfg hk hc (expandAll cfg SpWorld.init sops) hn
  have h3 := no_attach_lost cfg hk hc (expandAll cfg SpWorld.init sops) hn
  refine ⟨fun e he => ⟨(h1 e he).1, h2.1 e he⟩, fun a ha => ⟨h2.2 a ha, h3.2 a ha⟩, h3.1, fun hf ha => ?_⟩
  exact full_teardown_is_init cfg hk (expandAll cfg SpWorld.init sops) hf ha

/-- the access elements an information record starts itself go through the file id of the `Hstartaccess` call that read it -/
theorem expand_start_through_callers_id (cfg : Cfg) (sw : SpWorld) (id elem : Nat) (kind : SpKind) (found write : Bool) :
    ∀ op ∈ expand cfg sw (.startsp id elem kind found write), ∃ f w, op = .startaccess id f w := by
  intro op hop
  simp only [expand] at hop
  split at hop
  · split at hop
    · simp only [List.mem_singleton] at hop; exact ⟨_, _, hop⟩
    · simp only [List.mem_append, List.mem_replicate, List.mem_singleton] at hop
      rcases hop with ⟨_, h⟩ | h <;> exact ⟨_, _, h⟩
  · simp only [List.mem_singleton] at hop; exact ⟨_, _, hop⟩

/- FULL STATEMENT, NOT PROVED (the two theorems below are its instances on the histories the seeded regression c13d needs; the
   engine checks it on the implementation with the keys ids-close-refused-without-own-aid / ids-state-retained-after-release):

     theorem inner_held_through_a_users_file_id (cfg) (hk : cfg.kindChecked) (hp : cfg.spPerFileId) (sops : List SpOp)
         (polite : no `.endsp a` / `.prim (.endaccess a)` of the history names an id of some `g.inner` of the state it is run in) :
       ∀ g ∈ (spRun cfg SpWorld.init sops).infos, g.users ≠ [] ∧
         ∀ x ∈ g.users ++ g.inner, ∃ q a, lookA cfg (spRun cfg SpWorld.init sops).w x = .acc q a ∧ a.fileId = g.fileId

   i.e. an access element the library holds itself is always attached through a file id through which the CALLER has one
   attached (so `Hclose` of an id is refused only for elements of the caller), and when the caller has ended all of its own,
   none of the library's is left.  Missing: uniqueness of access ids across information records (freshness of `aidNew` against
   every recorded id) carried through `List.modify` / `eraseIdx` of `updInfos`. -/

/-- the chunked element 6 of a file opened twice (ids `fid 0`, `fid 1`), one access element through each id, plus a second one
    through the first id that SHARES the information (attach 2 + 1 + 2 = 5: two chunk-table Vdatas, three records of the caller).
    Every `Hclose` is refused exactly while the CALLER has an access element attached through that id, every `Hendaccess`
    succeeds in either order, the counters return to 0, both ids close, and `Hopen(DFACC_CREATE)` of the path succeeds. -/
theorem shared_chunk_info_release_orders :
    spResults ⟨true, true, true⟩ SpWorld.init
      [.prim (.hopen 7 DFACC_READ true), .prim (.hopen 7 DFACC_READ true),
       .startsp (fid 0) 6 .chunked true false, .startsp (fid 1) 6 .chunked true false, .startsp (fid 0) 6 .chunked true false,
       -- first opened, first ended
       .endsp (aid 1), .prim (.hclose (fid 0)), .endsp (aid 4), .prim (.hclose (fid 0)), .prim (.hclose (fid 1)),
       .endsp (aid 3), .prim (.hclose (fid 1)), .prim (.hopen 7 DFACC_CREATE true)]
      = [.id (fid 0), .id (fid 1), .id (aid 1), .id (aid 3), .id (aid 4),
         .ok, .fail, .ok, .ok, .fail, .ok, .ok, .id (fid 2)] ∧
    spResults ⟨true, true, true⟩ SpWorld.init
      [.prim (.hopen 7 DFACC_READ true), .prim (.hopen 7 DFACC_READ true),
       .startsp (fid 0) 6 .chunked true false, .startsp (fid 1) 6 .chunked true false,
       -- last opened, first ended
       .endsp (aid 3), .prim (.hclose (fid 1)), .prim (.hclose (fid 0)), .endsp (aid 1), .prim (.hclose (fid 0)),
       .prim (.hopen 7 DFACC_CREATE true)]
      = [.id (fid 0), .id (fid 1), .id (aid 1), .id (aid 3), .ok, .ok, .fail, .ok, .ok, .id (fid 2)] ∧
    ((spRun ⟨true, true, true⟩ SpWorld.init
      [.prim (.hopen 7 DFACC_READ true), .prim (.hopen 7 DFACC_READ true),
       .startsp (fid 0) 6 .chunked true false, .startsp (fid 1) 6 .chunked true false, .startsp (fid 0) 6 .chunked true false]).w.frecs.map
        (·.2.attach)) = [5] := by decide

/-- `share_across_ids_blocks_close` (a source whose `HPcompare_accrec_tagref` does not compare the file ids, `spPerFileId = false`;
    engine keys `ids-close-refused-without-own-aid`, `ids-state-retained-after-release`): the access element started through the
    second id shares the information read through the first (attach 3, not 4).  When the caller has ended everything it started
    through the FIRST id, `Hclose` of that id is still refused: the information's own access element is attached through it and
    lives as long as the other id's access element does. -/
theorem share_across_ids_blocks_close :
    spResults ⟨true, true, false⟩ SpWorld.init
      [.prim (.hopen 7 DFACC_READ true), .prim (.hopen 7 DFACC_READ true),
       .startsp (fid 0) 6 .chunked true false, .startsp (fid 1) 6 .chunked true false,
       .endsp (aid 1), .prim (.hclose (fid 0))]
      = [.id (fid 0), .id (fid 1), .id (aid 1), .id (aid 2), .ok, .fail] ∧
    -- … with the test the same calls end with a successful close
    spResults ⟨true, true, true⟩ SpWorld.init
      [.prim (.hopen 7 DFACC_READ true), .prim (.hopen 7 DFACC_READ true),
       .startsp (fid 0) 6 .chunked true false, .startsp (fid 1) 6 .chunked true false,
       .endsp (aid 1), .prim (.hclose (fid 0))]
      = [.id (fid 0), .id (fid 1), .id (aid 1), .id (aid 3), .ok, .ok] := by decide

/-- a compressed element: the information is private to the access record, each holds one access element of its own -/
example : (spRun ⟨true, true, true⟩ SpWorld.init
      [.prim (.hopen 7 DFACC_READ true), .startsp (fid 0) 4 .comp true false, .startsp (fid 0) 4 .comp true false]).w.frecs.map
        (·.2.attach) = [4] := by decide

/-! ## SD ids: id = slot << 20 | kind << 16 | index, on the expressions extracted from `mfsd.c` (`H4.Gen.Src`) -/

section sd
open H4.Gen.Src H4.Gen.Sdid

/-- `sdid_unpack_pack`: the id `SDselect` builds from the id `SDstart` returned for netCDF slot `c` and the data set index `i`
    unpacks (`SDIhandle_from_id`, `SDIget_var`) to exactly (slot, kind, index) = (c, SDSTYPE, i).  Slots are 12 bits, indices 16. -/
theorem sdid_unpack_pack (c i : Nat) (hc : c < 4096) (hi : i < 65536) :
    sdidUnpack (sdSdsId (sdFileId c) i) = (c, SDSTYPE, i) := by
  unfold sdSdsId sdFileId
  rw [SDSELECT_ID_eq c i hc hi, unpack_eq _ (by omega)]
  have : SDSTYPE = 4 := rfl
  rw [this]
  refine Prod.ext ?_ (Prod.ext ?_ ?_) <;> simp only [] <;> omega

/-- the file id itself: (slot, kind, low bits) = (c, CDFTYPE, c) -/
theorem sdid_unpack_file (c : Nat) (hc : c < 4096) : sdidUnpack (sdFileId c) = (c, CDFTYPE, c) := by
  unfold sdFileId
  rw [SDSTART_ID_eq c hc, unpack_eq _ (by omega)]
  have : CDFTYPE = 6 := rfl
  rw [this]
  have h1 : (c * 2 ^ 20 + 6 * 2 ^ 16 + c) / 1048576 = c := Nat.div_eq_of_lt_le (by omega) (by omega)
  have h2 : (c * 2 ^ 20 + 6 * 2 ^ 16 + c) / 65536 = c * 16 + 6 := Nat.div_eq_of_lt_le (by omega) (by omega)
  rw [h1, h2]
  refine Prod.ext ?_ (Prod.ext ?_ ?_) <;> simp only [] <;> omega

/-- the id `SDcreate` returns for the new variable number `i` is the id `SDselect` would return for it -/
theorem sdid_create_eq_select (c i : Nat) (hc : c < 4096) (hi : i < 65536) : sdCreateId (sdFileId c) i = sdSdsId (sdFileId c) i := by
  unfold sdCreateId sdSdsId sdFileId
  rw [SDSELECT_ID_eq c i hc hi, SDSTART_ID_eq c hc]
  unfold SDCREATE_ID_BASE
  simp only [Nat.shiftLeft_eq]
  omega

/-- a dimension id made from an SDS id: (slot, kind, index) = (c, DIMTYPE, d) -/
theorem sdid_unpack_dim (c i d : Nat) (hc : c < 4096) (hi : i < 65536) (hd : d < 65536) :
    sdidUnpack (sdDimId (sdSdsId (sdFileId c) i) d) = (c, DIMTYPE, d) := by
  unfold sdDimId sdSdsId sdFileId
  rw [SDSELECT_ID_eq c i hc hi]
  unfold SDGETDIMID_ID
  have hmask : (c * 2 ^ 20 + 4 * 2 ^ 16 + i) &&& 4293918720 = c * 2 ^ 20 := by
    have e : (4293918720 : Nat) = (2 ^ 12 - 1) * 2 ^ 20 := by decide
    have hx : c * 2 ^ 20 + 4 * 2 ^ 16 + i = c * 2 ^ 20 + (4 * 2 ^ 16 + i) := by omega
    have hlt : 4 * 2 ^ 16 + i < 2 ^ 20 := by omega
    apply Nat.eq_of_testBit_eq
    intro j
    rw [Nat.testBit_and, hx, e]
    by_cases hj : j < 20
    · have h1 : ((2 ^ 12 - 1) * 2 ^ 20).testBit j = false := by
        rw [Nat.testBit_mul_two_pow]; simp; intro h; omega
      have h2 : (c * 2 ^ 20).testBit j = false := by
        rw [Nat.testBit_mul_two_pow]; simp; intro h; omega
      simp [h1, h2]
    · have hj' : 20 ≤ j := by omega
      have h1 : (c * 2 ^ 20 + (4 * 2 ^ 16 + i)).testBit j = c.testBit (j - 20) := by
        rw [Nat.mul_comm, Nat.testBit_two_pow_mul_add _ hlt]; simp [hj]
      have h2 : (c * 2 ^ 20).testBit j = c.testBit (j - 20) := by
        rw [Nat.testBit_mul_two_pow]; simp [hj']
      have h3 : ((2 ^ 12 - 1) * 2 ^ 20).testBit j = decide (j - 20 < 12) := by
        rw [Nat.testBit_mul_two_pow, Nat.testBit_two_pow_sub_one]; simp [hj']
      rw [h1, h2, h3]
      by_cases hb : j - 20 < 12
      · simp [hb]
      · have : c.testBit (j - 20) = false := Nat.testBit_lt_two_pow (by
          calc c < 2 ^ 12 := hc
            _ ≤ 2 ^ (j - 20) := Nat.pow_le_pow_right (by decide) (by omega))
        simp [this]
  rw [hmask]
  simp only [Nat.shiftLeft_eq]
  have hid : (c * 2 ^ 20 + 5 % 4294967296 * 2 ^ 16 + d) % 4294967296 = c * 2 ^ 20 + 5 * 2 ^ 16 + d := by omega
  rw [hid, unpack_eq _ (by omega)]
  have : DIMTYPE = 5 := rfl
  rw [this]
  refine Prod.ext ?_ (Prod.ext ?_ ?_) <;> simp only [] <;> omega

/-- `wrong_kind_rejected`: `SDIhandle_from_id(id, typ)` returns NULL for every id whose kind field is not `typ`, whatever is
    open; in particular an SDS id or a dimension id where a file id is expected, a file id where an SDS id is expected … -/
theorem wrong_kind_rejected (isOpen : Nat → Bool) (id typ : Nat) (h : SDID_KIND id ≠ typ) : sdHandleFromId isOpen id typ = none := by
  unfold sdHandleFromId
  split
  · rfl
  · have : (SDID_KIND id != typ) = true := by simpa using h
    simp [this]

theorem sds_id_is_not_a_file_id (isOpen : Nat → Bool) (c i : Nat) (hc : c < 4096) (hi : i < 65536) :
    sdHandleFromId isOpen (sdSdsId (sdFileId c) i) CDFTYPE = none ∧ sdHandleFromId isOpen (sdFileId c) SDSTYPE = none ∧
    sdHandleFromId isOpen (sdSdsId (sdFileId c) i) DIMTYPE = none := by
  have h1 := congrArg (fun t => t.2.1) (sdid_unpack_pack c i hc hi)
  have h2 := congrArg (fun t => t.2.1) (sdid_unpack_file c hc)
  simp only [sdidUnpack] at h1 h2
  refine ⟨wrong_kind_rejected _ _ _ ?_, wrong_kind_rejected _ _ _ ?_, wrong_kind_rejected _ _ _ ?_⟩
  · rw [h1]; decide
  · rw [h2]; decide
  · rw [h1]; decide

/-- a right-kind id of an open slot is accepted and yields the slot -/
theorem right_kind_accepted (isOpen : Nat → Bool) (c i : Nat) (hc : c < 4096) (hi : i < 65536) (ho : isOpen c = true) :
    sdHandleFromId isOpen (sdSdsId (sdFileId c) i) SDSTYPE = some c := by
  have h := sdid_unpack_pack c i hc hi
  have h1 := congrArg (fun t => t.2.1) h
  have h0 := congrArg (fun t => t.1) h
  simp only [sdidUnpack] at h1 h0
  unfold sdHandleFromId
  have hne : (sdSdsId (sdFileId c) i == H4.Gen.Atom.FAIL_ATOM) = false := by
    have : sdSdsId (sdFileId c) i = c * 2 ^ 20 + 4 * 2 ^ 16 + i := by unfold sdSdsId sdFileId; exact SDSELECT_ID_eq c i hc hi
    rw [this]
    have : H4.Gen.Atom.FAIL_ATOM = 4294967295 := rfl
    rw [this]; simp; omega
  simp [hne, h1, h0, ho]

/-- KNOWN BY-DESIGN FINDING (engine key `sd-stale-id-aliases`): an SD id is a function of (slot, kind, index) only — it carries no
    generation.  Whatever happened in between (`SDendaccess`, `SDend` followed by `SDstart` of ANOTHER file that gets the same
    slot), the value an old id has is the value the library hands out for the object now at that slot and index. -/
theorem sd_id_has_no_generation (c i : Nat) : ∀ session₁ session₂ : Nat, (fun (_ : Nat) => sdSdsId (sdFileId c) i) session₁ =
    (fun (_ : Nat) => sdSdsId (sdFileId c) i) session₂ := fun _ _ => rfl

/-- the 16-bit index field is not protected: a (hypothetical) data set number 65536 would carry into the kind field and make
    the id a dimension id (`H4_MAX_NC_VARS` = 5000 keeps real indices far below) -/
theorem sdid_index_overflow : (sdidUnpack (sdSdsId (sdFileId 0) 65536)).2.1 = DIMTYPE := by decide

example : sdidUnpack (sdSdsId (sdFileId 3) 7) = (3, 4, 7) := by decide

end sd

end H4.Props.C13Files
