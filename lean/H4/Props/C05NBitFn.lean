import H4.Lemmas.C05NBitFnDec
import H4.Props.C05NBit
/-! C05, function-level Tie A for `hdf/src/cnbit.c`: `HCIcnbit_init`, `HCIcnbit_encode` and `HCIcnbit_decode` as translated statement by
    statement from the CURRENT C text (`H4.Gen.Fn.Cnbit`, written by gen/c2lean.py on every run: the `nbit_info` record as fields `nbit_*`,
    the array of structs `mask_info[]` as one region per field, the struct pointer that walks over it as an index, `Hbitwrite` appending
    the pair (count, data) to the region `io_out`, `Hbitread` consuming bits of `io_in` at `io_pos`, `HDmemfill`/`memset`/`memcpy` as
    builtins) compute exactly the hand-written model `H4.NBit` that the C05 theorems `nbit_projection` / `nbit_element_roundtrip` are about -
    for every `nt_size` the arrays can hold (1 … `NBIT_MASK_SIZE` = 16, not only the sizes 1, 2, 4, 8 of the number types), every
    `mask_off`/`mask_len` in range, both flags, every data length and every coder record carried over from earlier calls - and never
    index outside an array (`ub = false`) and terminate (`oof = false`).  `bytes` converts a model byte string (`List UInt8`) into the
    `uint8` array the translated code sees (`List Int`).  A change of the C text changes the generated definitions; these theorems are
    re-checked against them. -/
set_option linter.unusedSimpArgs false
set_option linter.unusedVariables false
namespace H4.Props.C05NBitFn
open H4 H4.NBit H4.Bits H4.BitIO H4.Gen.Cnbit H4.Gen.Fn.Cnbit H4.Lemmas.C05NBitFn
open H4.Lemmas.C05Rle (bytes)

/-! ## `HCIcnbit_init`: the mask table -/

/-- **`HCIcnbit_init`** as translated from cnbit.c, for EVERY configuration in range (`InRange`: `nt_size ≤ NBIT_MASK_SIZE` = 16 - every size
    the arrays can hold, not only 1, 2, 4, 8 -, `1 ≤ mask_len ≤ mask_off + 1 ≤ 8·nt_size`), both `fill_one` values, whatever the record held
    before (`bp bl np off`, the four arrays), provided `Hbitseek` succeeds (`seek ≠ FAIL`; the translation takes its result as a parameter):
    the C code stays inside `mask_buf`, `mask_info[]` and `mask_arr8`, shifts only by valid counts (`ub = false`), terminates
    (fuel = `nt_size`), returns SUCCEED, resets `buf_pos = NBIT_BUF_SIZE`, `buf_len = 0`, `nt_pos = 0`, `offset = 0`, and leaves in
    `mask_info[0 .. nt_size)` EXACTLY the model's table `maskInfos c` (offset / length / mask of every byte), zeros in the entries above
    (the `memset`), and in `mask_buf[0 .. nt_size)` exactly the model's `maskBuf c` (the cells above untouched) - so the tables the
    encoder and the decoder work with are related to the model by `TabRel`. -/
theorem HCIcnbit_init_refines (c : Cfg) (hr : InRange c) (fuel : Nat) (hf : c.ntSize ≤ fuel) (bp bl np off : Int) (mbuf offs lens masks : List Int)
    (hmb : mbuf.length = NBIT_MASK_SIZE) (ho : offs.length = NBIT_MASK_SIZE) (hl : lens.length = NBIT_MASK_SIZE) (hm : masks.length = NBIT_MASK_SIZE)
    (seek : Int) (hseek : seek ≠ -1) :
    let s := HCIcnbit_init fuel bp bl np off mbuf (b2i c.fillOne) c.ntSize c.maskOff c.maskLen offs lens masks seek
    s.ub = false ∧ s.oof = false ∧ s.ret = 0 ∧ s.nbit_buf_pos = NBIT_BUF_SIZE ∧ s.nbit_buf_len = 0 ∧ s.nbit_nt_pos = 0 ∧ s.nbit_offset = 0 ∧
      s.nbit_mask_info_offset = (maskInfos c).map (fun m => (m.offset : Int)) ++ List.replicate (NBIT_MASK_SIZE - c.ntSize) 0 ∧
      s.nbit_mask_info_length = (maskInfos c).map (fun m => (m.length : Int)) ++ List.replicate (NBIT_MASK_SIZE - c.ntSize) 0 ∧
      s.nbit_mask_info_mask = (maskInfos c).map (fun m => (m.mask : Int)) ++ List.replicate (NBIT_MASK_SIZE - c.ntSize) 0 ∧
      s.nbit_mask_buf = (maskBuf c).map (fun (x : Nat) => (x : Int)) ++ mbuf.drop c.ntSize ∧
      TabRel c s.nbit_mask_info_offset s.nbit_mask_info_length s.nbit_mask_info_mask := by
  intro s
  obtain ⟨h1, h2, h3, h4, h5, h6, h7, h8, h9, h10, h11⟩ := init_main c hr fuel hf bp bl np off mbuf offs lens masks hmb ho hl hm seek hseek
  refine ⟨h1, h2, h3, h4, h5, h6, h7, h8, h9, h10, h11, ?_⟩
  rw [h8, h9, h10]
  exact tabRel_of_init c hr.1

/-- when `Hbitseek` fails `HCIcnbit_init` returns FAIL and has not touched the record -/
theorem HCIcnbit_init_seekfail (fuel : Nat) (bp bl np off fill n moff mlen : Int) (mbuf offs lens masks : List Int) :
    let s := HCIcnbit_init fuel bp bl np off mbuf fill n moff mlen offs lens masks (-1)
    s.ub = false ∧ s.oof = false ∧ s.ret = -1 ∧ s.nbit_buf_pos = bp ∧ s.nbit_buf_len = bl ∧ s.nbit_nt_pos = np ∧ s.nbit_offset = off ∧
      s.nbit_mask_buf = mbuf ∧ s.nbit_mask_info_offset = offs ∧ s.nbit_mask_info_length = lens ∧ s.nbit_mask_info_mask = masks := by
  simp [HCIcnbit_init]

/-- the hypotheses are satisfiable and the translated code runs: an `int16` with bits 9..4 kept, filled with ones -/
example :
    InRange { ntSize := 2, signExt := true, fillOne := true, maskOff := 9, maskLen := 6 } ∧
    (let s := HCIcnbit_init 2 3 9 1 77 (List.replicate 16 0x5A) 1 2 9 6 (List.replicate 16 7) (List.replicate 16 7) (List.replicate 16 7) 0
     s.ub = false ∧ s.oof = false ∧ s.ret = 0 ∧ s.nbit_buf_pos = 1024 ∧ s.nbit_mask_info_offset.take 3 = [1, 7, 0] ∧
       s.nbit_mask_info_length.take 3 = [2, 4, 0] ∧ s.nbit_mask_info_mask.take 3 = [3, 240, 0] ∧ s.nbit_mask_buf.take 3 = [252, 15, 0x5A]) ∧
    (maskInfos { ntSize := 2, signExt := true, fillOne := true, maskOff := 9, maskLen := 6 }).map (fun m => (m.offset, m.length, m.mask)) =
      [(1, 2, 3), (7, 4, 240)] := by
  decide +kernel

/-! ### parameters outside the range: `HCIcnbit_init` never refuses them (it has no parameter check; `SDsetnbitdataset` only rejects
    `start_bit < 0` and `bit_len ≤ 0`, and a file read back supplies whatever its header says) - some are silently accepted with a table
    for a different bit field, the others are undefined behaviour.  Witnesses on the translated code: -/

/-- `nt_size = 17 > NBIT_MASK_SIZE`: the `memset` of `mask_buf` runs over the end of the 16-byte array (`ub`) -/
example : (HCIcnbit_init 17 0 0 0 0 (List.replicate 16 0) 0 17 7 8 (List.replicate 16 0) (List.replicate 16 0) (List.replicate 16 0) 0).ub = true := by
  decide +kernel

/-- `mask_off = 20 ≥ 8·nt_size`, `mask_len = 2`: `mask_arr8[(top_bit - mask_bot) + 1]` is read at index -11 (`ub`) -/
example : (HCIcnbit_init 1 0 0 0 0 (List.replicate 16 0) 0 1 20 2 (List.replicate 16 0) (List.replicate 16 0) (List.replicate 16 0) 0).ub = true := by
  decide +kernel

/-- `mask_off = 9 ≥ 8·nt_size`, `mask_len = 3` is ACCEPTED without any undefined behaviour: the table describes the 1-bit field `7..7` -/
example :
    (let s := HCIcnbit_init 1 0 0 0 0 (List.replicate 16 0) 0 1 9 3 (List.replicate 16 0) (List.replicate 16 0) (List.replicate 16 0) 0
     s.ub = false ∧ s.ret = 0 ∧ s.nbit_mask_info_offset.take 1 = [7] ∧ s.nbit_mask_info_length.take 1 = [1] ∧ s.nbit_mask_info_mask.take 1 = [128]) := by
  decide +kernel

/-- `mask_len = 0` is accepted too: a table with an empty field (`length = 0` everywhere: nothing is ever written or read);
    `mask_len = 8 > mask_off + 1 = 4` is accepted as the field `3..0` -/
example :
    (let s := HCIcnbit_init 1 0 0 0 0 (List.replicate 16 0) 0 1 7 0 (List.replicate 16 0) (List.replicate 16 0) (List.replicate 16 0) 0
     s.ub = false ∧ s.ret = 0 ∧ s.nbit_mask_info_length.take 1 = [0]) ∧
    (let s := HCIcnbit_init 1 0 0 0 0 (List.replicate 16 0) 0 1 3 8 (List.replicate 16 0) (List.replicate 16 0) (List.replicate 16 0) 0
     s.ub = false ∧ s.ret = 0 ∧ s.nbit_mask_info_offset.take 1 = [3] ∧ s.nbit_mask_info_length.take 1 = [4] ∧ s.nbit_mask_info_mask.take 1 = [15]) := by
  decide +kernel

/-! ## encoder -/

/-- **`HCIcnbit_encode`** as translated from cnbit.c: for EVERY configuration in range (`InRange`: `nt_size ≤ 16`,
    `1 ≤ mask_len ≤ mask_off + 1 ≤ 8·nt_size`), EVERY data `bs` of any length and EVERY position `nt_pos = pos` inside a value left by
    earlier calls, with the tables of the record holding the model's mask table (`TabRel`, what `HCIcnbit_init` builds) - whatever
    `io_out` holds - the C code reads only inside `buf` and the tables and shifts only by valid counts (`ub = false`), terminates
    (fuel = number of bytes), returns SUCCEED, has made exactly the `Hbitwrite(aid, count, data)` calls of the model's `encode c pos bs`
    (`pairs`: two cells per call), leaves `nt_pos` where the model leaves it, has advanced `offset` by the length and has not touched
    the tables.  `_hlen`, `_hoff`: C-side ranges of `length`, `offset` (`int32`; the translation computes in unbounded integers). -/
theorem HCIcnbit_encode_refines (c : Cfg) (hr : InRange c) (bs : List UInt8) (pos fuel : Nat) (hf : bs.length ≤ fuel) (hpos : pos < c.ntSize)
    (offs lens masks io_out : List Int) (offset : Int) (htab : TabRel c offs lens masks)
    (_hlen : bs.length < 2 ^ 31) (_hoff : offset + bs.length < 2 ^ 31) :
    let s := HCIcnbit_encode fuel pos lens masks offs c.ntSize offset bs.length (bytes bs) io_out
    s.ub = false ∧ s.oof = false ∧ s.ret = 0 ∧ s.io_out = io_out ++ pairs (encode c pos bs).1 ∧ s.nbit_nt_pos = ((encode c pos bs).2 : Int) ∧
      s.nbit_offset = offset + bs.length ∧ s.nbit_mask_info_offset = offs ∧ s.nbit_mask_info_length = lens ∧ s.nbit_mask_info_mask = masks := by
  intro s
  obtain ⟨r1, r2, r3, r4⟩ := hr
  have key := enc_loop c (fun j => mi_good c r3 r4 j) bs [] pos fuel
    { nbit_nt_pos := pos, nbit_mask_info_length := lens, nbit_mask_info_mask := masks, nbit_mask_info_offset := offs, nbit_nt_size := c.ntSize,
      nbit_offset := offset, length := bs.length, buf := bytes bs, io_out := io_out, mask_info := pos, orig_length := bs.length }
    hf htab rfl hpos rfl rfl rfl rfl rfl rfl rfl
  simp only at key
  obtain ⟨k1, k2, k3, k4, k5, k6, k7, k8, k9, k10, k11⟩ := key
  have hs : s = HCIcnbit_encode fuel pos lens masks offs c.ntSize offset bs.length (bytes bs) io_out := rfl
  simp only [HCIcnbit_encode, HCIcnbit_encode.St.set_mask_info, HCIcnbit_encode.St.set_orig_length, HCIcnbit_encode.St.set_nbit_offset,
    HCIcnbit_encode.St.set_ret] at hs
  rw [hs]
  exact ⟨k1, k2, rfl, k3, k4, by simp only [k5, k6], k9, k10, k11⟩

/-- the hypotheses are satisfiable and the translated code runs: the `int16` table of the `HCIcnbit_init` example, two values written in
    two calls that cut the second value -/
example :
    InRange { ntSize := 2, signExt := true, fillOne := true, maskOff := 9, maskLen := 6 } ∧
    (let s := HCIcnbit_encode 3 0 ([2, 4] ++ List.replicate 14 0) ([3, 240] ++ List.replicate 14 0) ([1, 7] ++ List.replicate 14 0) 2 0 3
       (bytes [0x03, 0xff, 0x02]) []
     s.ub = false ∧ s.oof = false ∧ s.ret = 0 ∧ s.io_out = [2, 3, 4, 15, 2, 2] ∧ s.nbit_nt_pos = 1 ∧ s.nbit_offset = 3) ∧
    (encode { ntSize := 2, signExt := true, fillOne := true, maskOff := 9, maskLen := 6 } 0 [0x03, 0xff, 0x02]) = ([(2, 3), (4, 15), (2, 2)], 1) := by
  decide +kernel

/-! ## decoder -/

/-- **`HCIcnbit_decode`** as translated from cnbit.c, ANY call of a read sequence: the decoder side of the record and the position in the
    bit stream of the underlying element are related (`DecRel`, see `H4.Lemmas.C05NBitFn`) to a model decoder `d` - whatever the expansion
    buffer holds, wherever `buf_pos`/`buf_len` stand after earlier calls (also in the middle of a value) - and the element still holds the
    bits of the items this call expands (`itemsRead`, computed from `buf_pos`, `buf_len` and the length alone; `itemWidths c` = the
    `Hbitread` widths of one item).  Asked for ANY `n` bytes the C code stays inside `buf`, the expansion buffer, `mask_buf`, the mask table
    and the bit stream, shifts only by valid counts (`ub = false`), terminates (`oof = false`; every loop gets the fuel of the entry point:
    `n + 1040` is enough), returns SUCCEED, has stored in `buf` exactly the `n` bytes of the model's `decode` (the bytes behind them
    untouched), has advanced `offset` by `n`, has not touched `mask_buf`, the mask table and the bit stream, and leaves a record related to
    the model's resulting decoder - so the next call continues where this one stopped.  The C variable `sign_bit` starts at 0 in every call: the model is run with `sign := false`.
    `sign_ext` may be any non-zero value for "true" (`if (nbit_info->sign_ext)`); `fill_one` must be 0 or 1 (the C compares it with `TRUE`
    and with the sign bit).  For every `nt_size ≤ 16`, every `mask_off`/`mask_len` in range. -/
theorem HCIcnbit_decode_refines (c : Cfg) (hr : InRange c) (hn : 0 < c.ntSize) (d : Dec) (n fuel : Nat) (hf : n + 1040 ≤ fuel)
    (buf_pos buf_len sign_ext offset io_pos : Int) (buffer mask_buf offs lens masks io_in out : List Int)
    (hse : (sign_ext ≠ 0) ↔ c.signExt = true) (_hn31 : n < 2 ^ 31) (_hoff : offset + n < 2 ^ 31) (hout : n ≤ out.length)
    (hrel : DecRel c d buf_pos buf_len buffer mask_buf offs lens masks io_in io_pos)
    (hbits : itemsRead c (n + 1) d.bufPos d.bufLen n * (itemWidths c).sum ≤ (avail d.st).length) :
    let s := HCIcnbit_decode fuel c.maskOff c.ntSize buf_pos buf_len buffer mask_buf sign_ext lens offs masks (b2i c.fillOne) offset n out io_in io_pos
    let r := decode c { d with sign := false } n
    s.ub = false ∧ s.oof = false ∧ s.ret = 0 ∧ s.buf = bytes r.2 ++ out.drop n ∧ r.2.length = n ∧ s.nbit_offset = offset + n ∧
      DecRel c r.1 s.nbit_buf_pos s.nbit_buf_len s.nbit_buffer s.nbit_mask_buf s.nbit_mask_info_offset s.nbit_mask_info_length s.nbit_mask_info_mask
        s.io_in s.io_pos ∧ r.1.fail = d.fail ∧
      s.nbit_mask_buf = mask_buf ∧ s.nbit_mask_info_offset = offs ∧ s.nbit_mask_info_length = lens ∧ s.nbit_mask_info_mask = masks ∧ s.io_in = io_in :=
  dec_main c hr hn d n fuel hf buf_pos buf_len sign_ext offset io_pos buffer mask_buf offs lens masks io_in out hse hout hrel hbits

/-- the translated code runs, on calls that cut values: the `int16` configuration of the examples above (bits 9..4, sign-extended, zero fill), the
    stream `111111 100000` (the values `03ff`, `0200`); asked for 3 bytes the C code expands one item, delivers `ff f0`, re-fills with the second
    item and delivers its first byte (`buf_pos = 1`, `buf_len = 2`); the next call for 1 byte takes `00` from the buffer without reading -/
example :
    (let s := HCIcnbit_decode 1043 9 2 1024 0 (List.replicate 1024 0xBE) ([0, 0] ++ List.replicate 14 0x5A) 1 ([2, 4] ++ List.replicate 14 0)
       ([1, 7] ++ List.replicate 14 0) ([3, 240] ++ List.replicate 14 0) 0 0 3 [0xA5, 0xA5, 0xA5, 0xA5] [1, 1, 1, 1, 1, 1, 1, 0, 0, 0, 0, 0] 0
     s.ub = false ∧ s.oof = false ∧ s.ret = 0 ∧ s.buf = [0xff, 0xf0, 0xfe, 0xA5] ∧ s.io_pos = 12 ∧ s.nbit_buf_pos = 1 ∧ s.nbit_buf_len = 2 ∧
       s.nbit_offset = 3 ∧ s.nbit_buffer.take 3 = [0xfe, 0x00, 0xBE]) ∧
    (let s := HCIcnbit_decode 1041 9 2 1 2 ([0xfe, 0x00] ++ List.replicate 1022 0xBE) ([0, 0] ++ List.replicate 14 0x5A) 1 ([2, 4] ++ List.replicate 14 0)
       ([1, 7] ++ List.replicate 14 0) ([3, 240] ++ List.replicate 14 0) 0 3 1 [0xA5] [1, 1, 1, 1, 1, 1, 1, 0, 0, 0, 0, 0] 12
     s.ub = false ∧ s.oof = false ∧ s.ret = 0 ∧ s.buf = [0x00] ∧ s.io_pos = 12 ∧ s.nbit_buf_pos = 2 ∧ s.nbit_offset = 4) := by
  decide +kernel

/-- **the first read of an element**: the record as `HCIcnbit_init` leaves it (`buf_pos = NBIT_BUF_SIZE`, `buf_len = 0`, the tables of the
    model; the expansion buffer holding anything: `stale`), the bit stream = the bits of the raw bytes `raw` of the element - is related to
    the model's decoder on `startRead raw` -/
theorem decRel_start (c : Cfg) (raw stale : List UInt8) (hst : stale.length = NBIT_BUF_SIZE) (mask_buf offs lens masks : List Int)
    (htab : TabRel c offs lens masks) (hml : mask_buf.length = NBIT_MASK_SIZE)
    (hmb : ∀ t, t < c.ntSize → mask_buf.getD t 0 = (((maskBuf c).getD t 0 : Nat) : Int)) :
    DecRel c { st := startRead raw, buffer := stale } NBIT_BUF_SIZE 0 (bytes stale) mask_buf offs lens masks (bitsI (bytesBits raw)) 0 :=
  ⟨rfl, hst, rfl, rfl, Nat.zero_le _, htab, hml, hmb, (startRead_ok raw).1, ⟨0, rfl, Nat.zero_le _, by rw [List.drop_zero, avail_startRead]⟩⟩

/-! ## a whole element through the translated functions: `HCIcnbit_init`, any number of `HCPcnbit_write` / `HCPcnbit_read` calls -/

/-- the `comp_coder_nbit_info_t` record: the state fields and the arrays (the parameters `nt_size`, `mask_off`, … come from `Cfg`) -/
structure Rec where
  bufPos : Int
  bufLen : Int
  ntPos : Int
  offset : Int
  buffer : List Int
  maskBuf : List Int
  offs : List Int
  lens : List Int
  masks : List Int

/-- `HCIcnbit_init` (translated) on a record holding anything, `Hbitseek` succeeding; `none` = ub / out of fuel / FAIL -/
def initCall (c : Cfg) (r : Rec) : Option Rec :=
  let s := HCIcnbit_init c.ntSize r.bufPos r.bufLen r.ntPos r.offset r.maskBuf (b2i c.fillOne) c.ntSize c.maskOff c.maskLen r.offs r.lens r.masks 0
  if s.ub || s.oof || s.ret != 0 then none
  else some { r with bufPos := s.nbit_buf_pos, bufLen := s.nbit_buf_len, ntPos := s.nbit_nt_pos, offset := s.nbit_offset, maskBuf := s.nbit_mask_buf,
                     offs := s.nbit_mask_info_offset, lens := s.nbit_mask_info_length, masks := s.nbit_mask_info_mask }

/-- one `HCPcnbit_write` = one call of the TRANSLATED `HCIcnbit_encode`; result: the record and the `Hbitwrite` calls made -/
def writeCall (c : Cfg) (r : Rec) (bs : List UInt8) : Option (Rec × List Int) :=
  let s := HCIcnbit_encode bs.length r.ntPos r.lens r.masks r.offs c.ntSize r.offset bs.length (bytes bs) []
  if s.ub || s.oof || s.ret != 0 then none else some ({ r with ntPos := s.nbit_nt_pos, offset := s.nbit_offset }, s.io_out)

def writeCalls (c : Cfg) : Rec → List (List UInt8) → Option (Rec × List Int)
  | r, [] => some (r, [])
  | r, p :: ps => (writeCall c r p).bind fun a => (writeCalls c a.1 ps).map fun b => (b.1, a.2 ++ b.2)

/-- one `HCPcnbit_read(length = n)` = one call of the TRANSLATED `HCIcnbit_decode` into a fresh `n`-byte buffer, on the bit stream `io_in` from
    position `io_pos`; result: the record, the new position, the bytes delivered -/
def readCall (c : Cfg) (se : Int) (io_in : List Int) (r : Rec) (io_pos : Int) (n : Nat) : Option (Rec × Int × List Int) :=
  let s := HCIcnbit_decode (n + 1040) c.maskOff c.ntSize r.bufPos r.bufLen r.buffer r.maskBuf se r.lens r.offs r.masks (b2i c.fillOne) r.offset n
    (List.replicate n 0) io_in io_pos
  if s.ub || s.oof || s.ret != 0 then none
  else some ({ r with bufPos := s.nbit_buf_pos, bufLen := s.nbit_buf_len, buffer := s.nbit_buffer, offset := s.nbit_offset }, s.io_pos, s.buf)

def readCalls (c : Cfg) (se : Int) (io_in : List Int) : Rec → Int → List Nat → Option (List (List Int))
  | _, _, [] => some []
  | r, p, n :: ns => (readCall c se io_in r p n).bind fun a => (readCalls c se io_in a.1 a.2.1 ns).map fun b => a.2.2 :: b

/-- the arrays of the record have the sizes of `comp_coder_nbit_info_t`, the expansion buffer holds bytes -/
def Rec.WF (r : Rec) : Prop :=
  (∃ stale : List UInt8, stale.length = NBIT_BUF_SIZE ∧ r.buffer = bytes stale) ∧ r.maskBuf.length = NBIT_MASK_SIZE ∧
  r.offs.length = NBIT_MASK_SIZE ∧ r.lens.length = NBIT_MASK_SIZE ∧ r.masks.length = NBIT_MASK_SIZE

theorem initCall_ok (c : Cfg) (hr : InRange c) (r : Rec) (hwf : r.WF) :
    ∃ r', initCall c r = some r' ∧ r'.bufPos = NBIT_BUF_SIZE ∧ r'.bufLen = 0 ∧ r'.ntPos = 0 ∧ r'.offset = 0 ∧ r'.buffer = r.buffer ∧
      TabRel c r'.offs r'.lens r'.masks ∧ r'.maskBuf.length = NBIT_MASK_SIZE ∧
      (∀ t, t < c.ntSize → r'.maskBuf.getD t 0 = (((maskBuf c).getD t 0 : Nat) : Int)) := by
  obtain ⟨_, w2, w3, w4, w5⟩ := hwf
  have key := HCIcnbit_init_refines c hr c.ntSize (Nat.le_refl _) r.bufPos r.bufLen r.ntPos r.offset r.maskBuf r.offs r.lens r.masks w2 w3 w4 w5 0 (by decide)
  simp only at key
  generalize hs : HCIcnbit_init c.ntSize r.bufPos r.bufLen r.ntPos r.offset r.maskBuf (b2i c.fillOne) c.ntSize c.maskOff c.maskLen r.offs r.lens r.masks 0 = s at key
  obtain ⟨k1, k2, k3, k4, k5, k6, k7, k8, k9, k10, k11, k12⟩ := key
  refine ⟨{ r with bufPos := s.nbit_buf_pos, bufLen := s.nbit_buf_len, ntPos := s.nbit_nt_pos, offset := s.nbit_offset, maskBuf := s.nbit_mask_buf,
                     offs := s.nbit_mask_info_offset, lens := s.nbit_mask_info_length, masks := s.nbit_mask_info_mask },
    by simp only [initCall, hs, k1, k2, k3]; rfl, k4, k5, k6, k7, rfl, k12, ?_, ?_⟩
  · show s.nbit_mask_buf.length = _
    rw [k11]; simp [length_maskBuf, w2]
    have := hr.1; omega
  · intro t ht
    show s.nbit_mask_buf.getD t 0 = _
    rw [k11, List.getD_eq_getElem?_getD, List.getElem?_append_left (by simp [length_maskBuf]; exact ht)]
    simp [List.getD_eq_getElem?_getD, List.getElem?_map]
    cases (maskBuf c)[t]? <;> simp

theorem writeCalls_ok (c : Cfg) (hr : InRange c) : ∀ (pieces : List (List UInt8)) (r : Rec) (pos : Nat), pos < c.ntSize → r.ntPos = (pos : Int) →
    TabRel c r.offs r.lens r.masks → 0 ≤ r.offset → r.offset + pieces.flatten.length < 2 ^ 31 →
    ∃ r', writeCalls c r pieces = some (r', pairs (encode c pos pieces.flatten).1) ∧ r'.ntPos = ((encode c pos pieces.flatten).2 : Int) ∧
      r'.offset = r.offset + pieces.flatten.length ∧ r'.offs = r.offs ∧ r'.lens = r.lens ∧ r'.masks = r.masks ∧ r'.buffer = r.buffer ∧
      r'.maskBuf = r.maskBuf ∧ r'.bufPos = r.bufPos ∧ r'.bufLen = r.bufLen := by
  intro pieces
  induction pieces with
  | nil => intro r pos _ hp _ _ _; exact ⟨r, by simp [writeCalls, encode], by simpa [encode] using hp, by simp, rfl, rfl, rfl, rfl, rfl, rfl, rfl⟩
  | cons p ps ih =>
    intro r pos hpos hp htab ho hlen
    simp only [List.flatten_cons, List.length_append] at hlen
    have key := HCIcnbit_encode_refines c hr p pos p.length (Nat.le_refl _) hpos r.offs r.lens r.masks [] r.offset htab (by omega) (by omega)
    dsimp only at key
    rw [← hp] at key
    generalize hs : HCIcnbit_encode p.length r.ntPos r.lens r.masks r.offs c.ntSize r.offset p.length (bytes p) [] = s at key
    obtain ⟨k1, k2, k3, k4, k5, k6, k7, k8, k9⟩ := key
    have hn0 : 0 < c.ntSize := by omega
    have hpos' : (encode c pos p).2 < c.ntSize := by rw [H4.Props.C05.encode_pos c hn0 p pos hpos]; exact Nat.mod_lt _ hn0
    obtain ⟨r2, w2, q1, q2, q3, q4, q5, q6, q7, q8, q9⟩ := ih { r with ntPos := s.nbit_nt_pos, offset := s.nbit_offset } (encode c pos p).2 hpos' k5 htab
      (by show 0 ≤ s.nbit_offset; rw [k6]; omega) (by show s.nbit_offset + _ < _; rw [k6]; omega)
    refine ⟨r2, ?_, ?_, ?_, q3, q4, q5, q6, q7, q8, q9⟩
    · have hw : writeCall c r p = some ({ r with ntPos := s.nbit_nt_pos, offset := s.nbit_offset }, s.io_out) := by
        simp only [writeCall, hs, k1, k2, k3]; rfl
      simp only [writeCalls, hw, Option.bind_some, w2, Option.map_some, List.flatten_cons, encode_append, pairs_append, k4, List.nil_append]
    · rw [q1]; simp only [List.flatten_cons, encode_append]
    · rw [q2]; simp only [List.flatten_cons, List.length_append, k6]; push_cast; omega

/-- **the `Hbitwrite` calls the C TEXT makes for an element**: from ANY record (arrays of the right sizes), the translated `HCIcnbit_init`
    followed by ANY sequence of write calls (`pieces`: any partition of the data, also one that cuts values, empty pieces included) through the
    translated `HCIcnbit_encode` runs without undefined behaviour and without failure and makes exactly the calls of the model's
    `encode c 0` on the concatenated data - the fields `nbit_projection` / `nbit_element_roundtrip` are about.  The result does not depend
    on how the data is split over the calls. -/
theorem cnbit_write_refines (c : Cfg) (hr : InRange c) (hn : 0 < c.ntSize) (r : Rec) (hwf : r.WF) (pieces : List (List UInt8))
    (_hlen : pieces.flatten.length < 2 ^ 31) :
    ((initCall c r).bind fun r' => (writeCalls c r' pieces).map (·.2)) = some (pairs (encode c 0 pieces.flatten).1) := by
  obtain ⟨r1, e1, i1, i2, i3, i4, i5, i6, i7, i8⟩ := initCall_ok c hr r hwf
  obtain ⟨r2, e2, _⟩ := writeCalls_ok c hr pieces r1 0 hn (by rw [i3]; rfl) i6 (by rw [i4]; decide) (by rw [i4]; omega)
  rw [e1, Option.bind_some, e2]; rfl

theorem length_valueFields (c : Cfg) (hv : c.Valid) : ∀ (vs : List (List UInt8)), (∀ v ∈ vs, v.length = c.ntSize) →
    (fieldsBits (H4.Props.C05.valueFields c vs)).length = vs.length * (itemWidths c).sum := by
  intro vs
  induction vs with
  | nil => intro _; simp [H4.Props.C05.valueFields]
  | cons v vs ih =>
    intro h
    have hl := h v (by simp)
    obtain ⟨_, p2, _⟩ := H4.Props.C05.nbit_projection c hv v hl false
    have e : H4.Props.C05.valueFields c (v :: vs) = (encode c 0 v).1 ++ H4.Props.C05.valueFields c vs := by simp [H4.Props.C05.valueFields]
    rw [e, fieldsBits_append, List.length_append, ih (fun w hw => h w (by simp [hw])), ← H4.Props.C05.sum_widths, p2, List.length_cons, Nat.add_mul]
    omega

/-- reads of whole values, one call per chunk, from a state whose expansion buffer is exhausted: every call delivers the projections of
    its values -/
theorem readCalls_values (c : Cfg) (hv : c.Valid) (se : Int) (hse : (se ≠ 0) ↔ c.signExt = true) (io_in : List Int) :
    ∀ (chunks : List (List (List UInt8))) (d : Dec) (r : Rec) (io_pos : Int) (tail : List Bool),
    (∀ ch ∈ chunks, ∀ v ∈ ch, v.length = c.ntSize) → DecRel c d r.bufPos r.bufLen r.buffer r.maskBuf r.offs r.lens r.masks io_in io_pos →
    d.bufLen ≤ d.bufPos → avail d.st = fieldsBits (H4.Props.C05.valueFields c chunks.flatten) ++ tail →
    readCalls c se io_in r io_pos (chunks.map fun ch => ch.length * c.ntSize) = some (chunks.map fun ch => bytes (ch.map (project c)).flatten) := by
  have hr := inRange_of_valid hv
  have hn : 0 < c.ntSize := by rcases hv.1 with h | h | h | h <;> omega
  have hn16 : c.ntSize ≤ 16 := by rcases hv.1 with h | h | h | h <;> omega
  intro chunks
  induction chunks with
  | nil => intro d r io_pos tail _ _ _ _; rfl
  | cons ch chs ih =>
    intro d r io_pos tail hvs hrel hex hav
    have hch := hvs ch (by simp)
    simp only [List.flatten_cons, H4.Props.C05.valueFields_append, fieldsBits_append, List.append_assoc] at hav
    -- the model: this call delivers the projections and leaves the buffer exhausted
    obtain ⟨d', m1, m2, m3, m4⟩ := H4.Props.C05.decodeLoop_ok c hv (ch.length * c.ntSize + 1) ch { d with sign := false } [] _ (by
        have := Nat.le_mul_of_pos_right ch.length hn; omega) hch hrel.rinv hex hav
    -- the C text: the model's `decode`
    have hbits : itemsRead c (ch.length * c.ntSize + 1) d.bufPos d.bufLen (ch.length * c.ntSize) * (itemWidths c).sum ≤ (avail d.st).length := by
      rw [itemsRead_whole c hn hn16 _ _ _ _ (by omega) hex, hav, List.length_append, length_valueFields c hv ch hch]; omega
    have key := dec_main c hr hn d (ch.length * c.ntSize) (ch.length * c.ntSize + 1040) (Nat.le_refl _) r.bufPos r.bufLen se r.offset io_pos r.buffer r.maskBuf
      r.offs r.lens r.masks io_in (List.replicate (ch.length * c.ntSize) 0) hse (by simp) hrel hbits
    dsimp only at key
    have hdec : decode c { d with sign := false } (ch.length * c.ntSize) = (d', (ch.map (project c)).flatten) := by
      unfold decode; rw [m1, List.nil_append]
    rw [hdec] at key
    generalize hs : HCIcnbit_decode (ch.length * c.ntSize + 1040) c.maskOff c.ntSize r.bufPos r.bufLen r.buffer r.maskBuf se r.lens r.offs r.masks (b2i c.fillOne)
      r.offset ((ch.length * c.ntSize : Nat) : Int) (List.replicate (ch.length * c.ntSize) 0) io_in io_pos = s at key
    obtain ⟨k1, k2, k3, k4, k5, k6, k7, k8, k9, k10, k11, k12, k13⟩ := key
    have hcall : readCall c se io_in r io_pos (ch.length * c.ntSize) =
        some ({ r with bufPos := s.nbit_buf_pos, bufLen := s.nbit_buf_len, buffer := s.nbit_buffer, offset := s.nbit_offset }, s.io_pos, s.buf) := by
      simp only [readCall, hs, k1, k2, k3]; rfl
    rw [k9, k10, k11, k12, k13] at k7
    have hnext := ih d' { r with bufPos := s.nbit_buf_pos, bufLen := s.nbit_buf_len, buffer := s.nbit_buffer, offset := s.nbit_offset } s.io_pos tail
      (fun ch' hc' => hvs ch' (by simp [hc'])) k7 m3 m4
    simp only [List.map_cons, readCalls, hcall, Option.bind_some, hnext, Option.map_some, k4]
    simp

/-- the model's answer to a sequence of `HCPcnbit_read` calls: `decode` per call, the C variable `sign_bit` starting at 0 in each -/
def decodeCalls (c : Cfg) : Dec → List Nat → List (List UInt8)
  | _, [] => []
  | d, n :: ns => (decode c { d with sign := false } n).2 :: decodeCalls c (decode c { d with sign := false } n).1 ns

/-- every call of the sequence finds the bits of the items it expands -/
def CallsOK (c : Cfg) : Dec → List Nat → Prop
  | _, [] => True
  | d, n :: ns => itemsRead c (n + 1) d.bufPos d.bufLen n * (itemWidths c).sum ≤ (avail d.st).length ∧ CallsOK c (decode c { d with sign := false } n).1 ns

/-- **any partition of a read into calls** (`lens`: any byte counts, also ones that cut values, zero-length reads included): as long as
    the element holds the bits of the items expanded, the translated `HCIcnbit_decode` calls deliver, call by call, exactly what the model's
    `decode` delivers - the expansion buffer, `buf_pos` and `buf_len` carried in the record from call to call -/
theorem cnbit_read_refines (c : Cfg) (hr : InRange c) (hn : 0 < c.ntSize) (se : Int) (hse : (se ≠ 0) ↔ c.signExt = true) (io_in : List Int) :
    ∀ (lens : List Nat) (d : Dec) (r : Rec) (io_pos : Int), DecRel c d r.bufPos r.bufLen r.buffer r.maskBuf r.offs r.lens r.masks io_in io_pos →
    CallsOK c d lens → readCalls c se io_in r io_pos lens = some ((decodeCalls c d lens).map bytes) := by
  intro lens
  induction lens with
  | nil => intro d r io_pos _ _; rfl
  | cons n ns ih =>
    intro d r io_pos hrel hok
    obtain ⟨hb, hok'⟩ := hok
    have key := dec_main c hr hn d n (n + 1040) (Nat.le_refl _) r.bufPos r.bufLen se r.offset io_pos r.buffer r.maskBuf r.offs r.lens r.masks io_in
      (List.replicate n 0) hse (by simp) hrel hb
    dsimp only at key
    generalize hs : HCIcnbit_decode (n + 1040) c.maskOff c.ntSize r.bufPos r.bufLen r.buffer r.maskBuf se r.lens r.offs r.masks (b2i c.fillOne)
      r.offset (n : Int) (List.replicate n 0) io_in io_pos = s at key
    obtain ⟨k1, k2, k3, k4, k5, k6, k7, k8, k9, k10, k11, k12, k13⟩ := key
    have hcall : readCall c se io_in r io_pos n =
        some ({ r with bufPos := s.nbit_buf_pos, bufLen := s.nbit_buf_len, buffer := s.nbit_buffer, offset := s.nbit_offset }, s.io_pos, s.buf) := by
      simp only [readCall, hs, k1, k2, k3]; rfl
    rw [k9, k10, k11, k12, k13] at k7
    have hnext := ih (decode c { d with sign := false } n).1
      { r with bufPos := s.nbit_buf_pos, bufLen := s.nbit_buf_len, buffer := s.nbit_buffer, offset := s.nbit_offset } s.io_pos k7 hok'
    simp only [readCalls, hcall, Option.bind_some, hnext, Option.map_some, k4, decodeCalls, List.map_cons]
    simp

/-- **the bytes the C TEXT delivers for an element of whole values**: `raw` = the bytes the bit layer stores for the `Hbitwrite` calls of the
    values `chunks.flatten` (`BitIO.pack`, proved against hbitio.c by C05 `bit_roundtrip`), the bit stream = the bits of `raw`.  From ANY
    record (arrays of the right sizes, the expansion buffer holding anything) the translated `HCIcnbit_init` followed by ANY sequence of read
    calls of whole values (`chunks` groups the values by call: any sizes, also larger than the 1024-byte expansion buffer, growing or
    shrinking) through the translated `HCIcnbit_decode` runs without undefined behaviour and without failure and delivers in every call
    exactly the documented projection (`project`, the specification on bit lists) of its values -/
theorem cnbit_read_values (c : Cfg) (hv : c.Valid) (se : Int) (hse : (se ≠ 0) ↔ c.signExt = true) (r : Rec) (hwf : r.WF)
    (chunks : List (List (List UInt8))) (hvs : ∀ ch ∈ chunks, ∀ v ∈ ch, v.length = c.ntSize) :
    ((initCall c r).bind fun r' => readCalls c se (bitsI (bytesBits (compress c chunks.flatten.flatten))) r' 0 (chunks.map fun ch => ch.length * c.ntSize)) =
      some (chunks.map fun ch => bytes (ch.map (project c)).flatten) := by
  have hr := inRange_of_valid hv
  have hn : 0 < c.ntSize := by rcases hv.1 with h | h | h | h <;> omega
  obtain ⟨r1, e1, i1, i2, i3, i4, i5, i6, i7, i8⟩ := initCall_ok c hr r hwf
  obtain ⟨⟨stale, hs1, hs2⟩, _⟩ := hwf
  have hall : ∀ v ∈ chunks.flatten, v.length = c.ntSize := by
    intro v hv'
    obtain ⟨ch, hch, hvc⟩ := List.mem_flatten.mp hv'
    exact hvs ch hch v hvc
  obtain ⟨f1, _⟩ := H4.Props.C05.encode_values c hn chunks.flatten hall
  have hvf := H4.Props.C05.encode_valid c hv chunks.flatten.flatten 0
  obtain ⟨⟨kpad, _, ht⟩, _⟩ := H4.Props.C05.bitwrite_refines _ hvf false
  have hrel := decRel_start c (compress c chunks.flatten.flatten) stale hs1 r1.maskBuf r1.offs r1.lens r1.masks i6 i7 i8
  rw [e1, Option.bind_some]
  have hav : avail (startRead (compress c chunks.flatten.flatten)) =
      fieldsBits (H4.Props.C05.valueFields c chunks.flatten) ++ List.replicate kpad false := by
    rw [avail_startRead]; unfold compress H4.Props.C05.valueFields; rw [ht, f1]
  exact readCalls_values c hv se hse _ chunks { st := startRead (compress c chunks.flatten.flatten), buffer := stale } r1 0 _ hvs
    (by rw [i1, i2, i5, hs2]; exact hrel) (by simp) hav

/-- **write, then read back - all through the translated C functions**: for every valid configuration (sizes 1, 2, 4, 8; every
    `start_bit`/`bit_len`; both flags), every sequence of whole values, EVERY partition of the data into write calls (also one that cuts
    values) and EVERY grouping of the values into read calls: the translated `HCIcnbit_init` + `HCIcnbit_encode` calls make the `Hbitwrite`
    calls `F`, and the translated `HCIcnbit_init` + `HCIcnbit_decode` calls on the bits of the bytes the bit layer stores for `F` deliver the
    documented projection of the values written - `nbit_element_roundtrip` transferred to the C text (`decode (encode x) = x` on the kept
    bits, the dropped bits filled as documented) -/
theorem cnbit_write_read_roundtrip (c : Cfg) (hv : c.Valid) (se : Int) (hse : (se ≠ 0) ↔ c.signExt = true) (rw rr : Rec) (hw : rw.WF) (hrr : rr.WF)
    (chunks : List (List (List UInt8))) (hvs : ∀ ch ∈ chunks, ∀ v ∈ ch, v.length = c.ntSize)
    (pieces : List (List UInt8)) (hp : pieces.flatten = chunks.flatten.flatten) (hlen : pieces.flatten.length < 2 ^ 31) :
    ∃ F : List (Nat × Nat), ((initCall c rw).bind fun r' => (writeCalls c r' pieces).map (·.2)) = some (pairs F) ∧
      ((initCall c rr).bind fun r' => readCalls c se (bitsI (bytesBits (H4.BitIO.pack F (some false)))) r' 0 (chunks.map fun ch => ch.length * c.ntSize)) =
        some (chunks.map fun ch => bytes (ch.map (project c)).flatten) := by
  have hn : 0 < c.ntSize := by rcases hv.1 with h | h | h | h <;> omega
  refine ⟨(encode c 0 pieces.flatten).1, cnbit_write_refines c (inRange_of_valid hv) hn rw hw pieces hlen, ?_⟩
  have := cnbit_read_values c hv se hse rr hrr chunks hvs
  rw [hp]
  exact this


/-- the translated code runs, end to end: an `int16` element with bits 9..4 kept, sign-extended, filled with zeros; two values written in three
    calls (one cutting a value, one empty), the `Hbitwrite` calls are `(2,3) (4,15) (2,2) (4,0)`, i.e. the bytes `fe 00`; read back in two
    calls; the model says the same -/
example :
    (let c : Cfg := { ntSize := 2, signExt := true, fillOne := false, maskOff := 9, maskLen := 6 }
     let r : Rec := { bufPos := 3, bufLen := 9, ntPos := 1, offset := 77, buffer := List.replicate 1024 0xBE, maskBuf := List.replicate 16 0x5A,
                      offs := List.replicate 16 7, lens := List.replicate 16 7, masks := List.replicate 16 7 }
     ((initCall c r).bind fun r' => (writeCalls c r' [[0x03], [], [0xff, 0x02, 0x00]]).map (·.2)) = some [2, 3, 4, 15, 2, 2, 4, 0] ∧
     H4.BitIO.pack [(2, 3), (4, 15), (2, 2), (4, 0)] (some false) = [0xfe, 0x00] ∧
     ((initCall c r).bind fun r' => readCalls c 1 (bitsI (bytesBits [0xfe, 0x00])) r' 0 [2, 2]) = some [[0xff, 0xf0], [0xfe, 0x00]] ∧
     project c [0x03, 0xff] = [0xff, 0xf0] ∧ project c [0x02, 0x00] = [0xfe, 0x00]) := by
  decide +kernel

end H4.Props.C05NBitFn
