import H4.Lemmas.C05SkpFn
import H4.Props.C05Skp
/-! C05, function-level Tie A for the skipping-Huffman coder: `HCIcskphuff_encode` and `HCIcskphuff_decode` of `hdf/src/cskphuff.c`, as
    translated statement by statement from the CURRENT C text (`H4.Gen.Fn.Cskphuff`, written by gen/c2lean.py on every run; both call the
    translated `HCIcskphuff_splay`), compute exactly the hand-written model (`H4.SkpHuff.encRunF`, `decRun`, `splay`) the C05 theorems
    (`H4.Props.C05Skp`: `skphuff_roundtrip`, `skphuff_code_any_length`, …) are about - for every skip size, every list of well-formed
    trees, every lane, every byte string / bit stream - and never index outside `output_bits[64]`, `bit_count[64]`, the rows
    `left/right[skip_pos][SUCCMAX]`, `up[skip_pos][TWICEMAX]`, `buf` (`ub = false`); all loops terminate within the stated fuel
    (`oof = false`).

    Conventions (see `H4.Lemmas.C05SkpFn`): `rowsL/rowsR/rowsU ts` = the arrays of rows `skphuff_info->left/right/up` holding the model's
    trees `ts` (`ints` images of the three arrays of each tree); `bytes bs` = the caller's `uint8` buffer; `flat fs` = the cells the
    `Hbitwrite(aid, count, data)` calls append to region `io_out` (`count, data` per call); `bitsI bits` = region `io_in`, one cell 0/1 per
    bit (`Hbitread(aid, 1, &bit)` takes the next cell, FAIL at the end); `runTrees skip ts pos bs` = the model's trees after the run. -/
namespace H4.Props.C05SkpFn
open H4 H4.SkpHuff H4.Gen.Cskphuff H4.Gen.Fn.Cskphuff H4.C2L H4.Lemmas.C05Fn H4.Lemmas.C05SkpFn

/-! ## (E) the encoder -/

set_option linter.unusedVariables false in
/-- `HCIcskphuff_encode` as translated from cskphuff.c computes the model's `encRunF`.

    For every skip size ≥ 1, every list `ts` of `skip` well-formed trees (`H4.SkpHuff.WF`: the invariant `WF_init` / `splay_WF` establish
    for every tree the coder ever holds), every lane `pos < skip`, every byte string `bs` (`length` is an `int32`: `< 2^31`), every previous
    content `out0` of the output and every `offset`: no undefined behaviour, all four loops terminate, `ret = SUCCEED`, the `Hbitwrite`
    calls are exactly `encRunF skip ts pos bs` (codes of any length: 1 … 16 words of the bit stack, the partly filled top word first),
    the rows are the model's trees after the run, `skip_pos` and `offset` are advanced.
    Fuel: `bs.length + 511`.  (The translator passes the REMAINING fuel of `while (length > 0)` to the inner loops and to the call of
    `HCIcskphuff_splay`; with `k` bytes left it is ≥ `k + 511`.  The climb to ROOT has ≤ 512 steps - one inline, ≤ 511 in `loop1`;
    the pops ≤ 17 - one inline; the splay needs 255.)
    Memory safety of the bit stack: after `k` steps of the climb the stack holds `k` bits = `k / 32` full words below `stack_ptr`
    (`eloop1_rel`); `k ≤ 512` because the walk `a, up[a], …` of a well-formed tree reaches ROOT within 512 steps (`bounded_rank`); hence
    `stack_ptr ≤ 16 < 64 = SKPHUFF_MAX_CHAR / 4 + 1` at every access to `output_bits` / `bit_count` (part of `ub = false`). -/
theorem HCIcskphuff_encode_refines (skip : Nat) (hs : 1 ≤ skip) (ts : List Tree) (hts : ts.length = skip) (hw : ∀ t ∈ ts, WF t)
    (pos : Nat) (hpos : pos < skip) (bs : List UInt8) (hlen : bs.length < 2 ^ 31) (out0 : List Int) (off : Int)
    (fuel : Nat) (hf : bs.length + 511 ≤ fuel) :
    let s := HCIcskphuff_encode fuel pos (rowsU ts) (rowsR ts) (rowsL ts) skip off bs.length (bytes bs) out0
    s.ub = false ∧ s.oof = false ∧ s.ret = 0 ∧
      s.io_out = out0 ++ flat (encRunF skip ts pos bs) ∧
      s.skphuff_info_left = rowsL (runTrees skip ts pos bs) ∧
      s.skphuff_info_right = rowsR (runTrees skip ts pos bs) ∧
      s.skphuff_info_up = rowsU (runTrees skip ts pos bs) ∧
      s.skphuff_info_skip_pos = ((pos + bs.length) % skip : Nat) ∧
      s.skphuff_info_offset = off + bs.length := by
  have rep64 : List.replicate 64 (0 : Int) = ints (List.replicate 64 0) := by decide
  have h0 : EInv ({ skphuff_info_skip_pos := pos, skphuff_info_up := rowsU ts, skphuff_info_right := rowsR ts, skphuff_info_left := rowsL ts, skphuff_info_skip_size := skip, skphuff_info_offset := off, length := bs.length, buf := bytes bs, io_out := out0, output_bits := List.replicate 64 0, bit_count := List.replicate 64 0, orig_length := bs.length } : HCIcskphuff_encode.St) skip ts pos bs 0 out0 off bs.length :=
    ⟨rfl, rfl, rfl, by omega, rfl, rfl, rfl, rfl, rfl, rfl, ⟨List.replicate 64 0, rep64, by decide⟩, ⟨List.replicate 64 0, rep64, by decide⟩,
      rfl, rfl, rfl, rfl, rfl⟩
  have h := eloop0_rel skip bs off bs.length bs.length fuel _ ts pos 0 out0 (by omega) h0 (by omega) hw hts hpos
  simp only [List.drop_zero] at h
  simp only [HCIcskphuff_encode, HCIcskphuff_encode.St.set_orig_length]
  generalize HCIcskphuff_encode.loop0 fuel _ = s1 at h ⊢
  simp only [h.done, Bool.false_eq_true, ↓reduceIte]
  exact ⟨h.ub, h.oof, trivial, h.out, h.left, h.right, h.up, h.pos, by rw [h.off, h.olen]⟩

/-- the code lengths behind the fuel and the stack bound: on a well-formed tree every code has at most 512 bits, i.e. at most 16
    `Hbitwrite` calls / full words of the bit stack (`stack_ptr ≤ 16`; `output_bits[]`, `bit_count[]` have 64 cells) -/
theorem skphuff_code_le_512 (t : Tree) (hw : WF t) (s : Nat) (hs : s < 256) : codeBits t s ≤ 512 ∧ codeWords t s ≤ 16 := by
  obtain ⟨m, hm1, hm2⟩ := bounded_rank hw.f
  obtain ⟨n, hn, hr⟩ := reach_of_rank (rd t.up) m hw.f.upLt hm2 512 (s + 256) (by omega) (by omega) (hm1 _)
  have h := climb_length t n (s + 256) hr TWICEMAX [] (by simp only [consts]; omega)
  have hb : codeBits t s ≤ 512 := by
    rw [codeBits_eq, encSym, show s + SUCCMAX = s + 256 from rfl, h]; simpa using hn
  exact ⟨hb, by rw [codeWords_eq]; omega⟩

/-- the hypotheses are satisfiable and the translated code runs: a fresh element with `skip_size = 2` (`HCIcskphuff_init`), 4 bytes
    (kernel evaluation of the generated definitions: two inner loops and a call of the translated splay per byte) -/
example :
    let s := HCIcskphuff_encode 515 0 (rowsU (initTrees 2)) (rowsR (initTrees 2)) (rowsL (initTrees 2)) 2 0 4 (bytes [18, 18, 3, 18]) []
    s.ub = false ∧ s.oof = false ∧ s.ret = 0 ∧ s.io_out = flat (encRunF 2 (initTrees 2) 0 [18, 18, 3, 18]) ∧
      s.skphuff_info_up = rowsU (runTrees 2 (initTrees 2) 0 [18, 18, 3, 18]) ∧ s.skphuff_info_skip_pos = 0 := by
  decide +kernel

example : flat (encRunF 2 (initTrees 2) 0 [18, 18, 3, 18]) = [9, 274, 9, 274, 8, 195, 5, 30] := by decide +kernel

/-- the theorem instantiated on the same input -/
example :
    let s := HCIcskphuff_encode 515 (0 : Nat) (rowsU (initTrees 2)) (rowsR (initTrees 2)) (rowsL (initTrees 2)) (2 : Nat) 0
      (([18, 18, 3, 18] : List UInt8).length) (bytes [18, 18, 3, 18]) []
    s.ub = false ∧ s.oof = false ∧ s.ret = 0 ∧ s.io_out = [] ++ flat (encRunF 2 (initTrees 2) 0 [18, 18, 3, 18]) :=
  have h := HCIcskphuff_encode_refines 2 (by decide) (initTrees 2) rfl
    (fun t ht => by rw [List.eq_of_mem_replicate ht]; exact WF_init) 0 (by decide) [18, 18, 3, 18] (by decide) [] 0 515 (by decide)
  ⟨h.1, h.2.1, h.2.2.1, h.2.2.2.1⟩

/-- codes of more than 32 and more than 64 bits (2 and 3 words of the bit stack) through the TRANSLATED encoder: `deepTree`
    (`H4.Props.C05`, well-formed, depth 256); symbol 70 has a 72-bit code (`Hbitwrite(8, word 2); Hbitwrite(32, word 1);
    Hbitwrite(32, word 0)`: the partly filled TOP word first, then the full words in descending stack order), symbol 40 a 42-bit code -/
example :
    let s := HCIcskphuff_encode 513 0 (rowsU [H4.Props.C05.deepTree]) (rowsR [H4.Props.C05.deepTree]) (rowsL [H4.Props.C05.deepTree]) 1 0 1
      (bytes [70]) []
    s.ub = false ∧ s.oof = false ∧ s.io_out = [8, 0xED, 32, 0xB6DB6DB6, 32, 0xDB6DB6DA] ∧
      s.io_out = flat (encRunF 1 [H4.Props.C05.deepTree] 0 [70]) := by
  decide +kernel

example :
    let s := HCIcskphuff_encode 513 0 (rowsU [H4.Props.C05.deepTree]) (rowsR [H4.Props.C05.deepTree]) (rowsL [H4.Props.C05.deepTree]) 1 0 1
      (bytes [40]) []
    s.ub = false ∧ s.oof = false ∧ s.io_out = [10, 0x3B6, 32, 0xDB6DB6DA] ∧ s.io_out = flat (encRunF 1 [H4.Props.C05.deepTree] 0 [40]) := by
  decide +kernel

/-! ## (D) the decoder -/

set_option linter.unusedVariables false in
/-- `HCIcskphuff_decode` as translated from cskphuff.c computes the model's `decRun` on every bit stream the model accepts.

    `bits` = the whole input (region `io_in = bitsI bits`), `p ≤ |bits|` the position of the bit-id (`io_pos`), `n` the number of bytes
    wanted (`int32`), `B` the caller's buffer (`n ≤ |B|`, any content).  If `decRun skip ts pos (bits.drop p) n = some out`: no undefined
    behaviour, the loops terminate, `ret = SUCCEED`, `buf` = `out` followed by the untouched rest of `B`, the rows are the model's trees
    after `out`, `skip_pos`/`offset` advanced, and `io_pos` has advanced by exactly the bits the model consumed (`decRunR` = `decRun`
    returning also the unread bits, `decRunR_fst`).
    Fuel: `n + (|bits| - p) + 254`: one unit per byte, and for the inner `do … while (a <= SKPHUFF_MAX_CHAR)` one per bit read
    (NOT ≤ 512 per byte: node 0 is its own left child in the trees of `HCIcskphuff_init`, so a run of 0 bits at ROOT is consumed without
    progress - by the model as by the C code), 255 for the splay call. -/
theorem HCIcskphuff_decode_refines (skip : Nat) (hs : 1 ≤ skip) (ts : List Tree) (hts : ts.length = skip) (hw : ∀ t ∈ ts, WF t)
    (pos : Nat) (hpos : pos < skip) (bits : List Bool) (p : Nat) (hp : p ≤ bits.length) (n : Nat) (hn : n < 2 ^ 31)
    (B : List Int) (hB : n ≤ B.length) (off : Int) (fuel : Nat) (hf : n + (bits.length - p) + 254 ≤ fuel)
    (out : List UInt8) (hm : decRun skip ts pos (bits.drop p) n = some out) :
    let s := HCIcskphuff_decode fuel pos (rowsL ts) (rowsR ts) (rowsU ts) skip off n B (bitsI bits) p
    s.ub = false ∧ s.oof = false ∧ s.ret = 0 ∧
      s.buf = bytes out ++ B.drop n ∧
      s.skphuff_info_left = rowsL (runTrees skip ts pos out) ∧
      s.skphuff_info_right = rowsR (runTrees skip ts pos out) ∧
      s.skphuff_info_up = rowsU (runTrees skip ts pos out) ∧
      s.skphuff_info_skip_pos = ((pos + n) % skip : Nat) ∧
      s.skphuff_info_offset = off + n ∧
      ∃ rest, decRunR skip ts pos (bits.drop p) n = some (out, rest) ∧ s.io_pos = ((bits.length - rest.length : Nat) : Int) := by
  have h0 : DInv ({ skphuff_info_skip_pos := pos, skphuff_info_left := rowsL ts, skphuff_info_right := rowsR ts, skphuff_info_up := rowsU ts, skphuff_info_skip_size := skip, skphuff_info_offset := off, length := n, buf := B, io_in := bitsI bits, io_pos := p, orig_length := n } : HCIcskphuff_decode.St) skip ts pos bits p n B [] off n :=
    ⟨rfl, rfl, rfl, hp, by simp [bytes], rfl, by simpa using hB, rfl, rfl, rfl, rfl, rfl, rfl, rfl, rfl, rfl, rfl⟩
  obtain ⟨h1, -⟩ := dloop0_rel skip bits B off n n fuel _ ts pos p [] h0 (by omega) hw hts hpos
  have hr := decRunR_fst skip n ts pos (bits.drop p)
  rw [hm] at hr
  cases hd : decRunR skip ts pos (bits.drop p) n with
  | none => rw [hd] at hr; simp at hr
  | some r =>
    obtain ⟨out', rest⟩ := r
    rw [hd] at hr
    simp only [Option.map_some, Option.some.injEq] at hr
    subst hr
    obtain ⟨q, hq, h⟩ := h1 out' rest hd
    have hl := decRunR_length skip n ts pos _ _ _ hd
    simp only [HCIcskphuff_decode, HCIcskphuff_decode.St.set_orig_length]
    generalize HCIcskphuff_decode.loop0 fuel _ = s1 at h ⊢
    simp only [h.done, Bool.false_eq_true, ↓reduceIte]
    refine ⟨h.ub, h.oof, trivial, ?_, h.left, h.right, h.up, h.pos, by rw [h.off, h.olen], rest, rfl, ?_⟩
    · rw [h.buf]; simp [hl]
    · have := h.hp
      rw [h.io_pos, hq]; simp; omega

set_option linter.unusedVariables false in
/-- at the end of the input: when the model runs out of bits (`decRun … = none`: the only way it fails), so does the translated function -
    `Hbitread` returns FAIL, `HRETURN_ERROR(DFE_CDECODE, FAIL)`: `ret = FAIL`, still without undefined behaviour and within the fuel -/
theorem HCIcskphuff_decode_fails (skip : Nat) (hs : 1 ≤ skip) (ts : List Tree) (hts : ts.length = skip) (hw : ∀ t ∈ ts, WF t)
    (pos : Nat) (hpos : pos < skip) (bits : List Bool) (p : Nat) (hp : p ≤ bits.length) (n : Nat) (hn : n < 2 ^ 31)
    (B : List Int) (hB : n ≤ B.length) (off : Int) (fuel : Nat) (hf : n + (bits.length - p) + 254 ≤ fuel)
    (hm : decRun skip ts pos (bits.drop p) n = none) :
    let s := HCIcskphuff_decode fuel pos (rowsL ts) (rowsR ts) (rowsU ts) skip off n B (bitsI bits) p
    s.ub = false ∧ s.oof = false ∧ s.ret = -1 := by
  have h0 : DInv ({ skphuff_info_skip_pos := pos, skphuff_info_left := rowsL ts, skphuff_info_right := rowsR ts, skphuff_info_up := rowsU ts, skphuff_info_skip_size := skip, skphuff_info_offset := off, length := n, buf := B, io_in := bitsI bits, io_pos := p, orig_length := n } : HCIcskphuff_decode.St) skip ts pos bits p n B [] off n :=
    ⟨rfl, rfl, rfl, hp, by simp [bytes], rfl, by simpa using hB, rfl, rfl, rfl, rfl, rfl, rfl, rfl, rfl, rfl, rfl⟩
  obtain ⟨-, h2⟩ := dloop0_rel skip bits B off n n fuel _ ts pos p [] h0 (by omega) hw hts hpos
  have hr := decRunR_fst skip n ts pos (bits.drop p)
  rw [hm] at hr
  have hd : decRunR skip ts pos (bits.drop p) n = none := by
    cases hd : decRunR skip ts pos (bits.drop p) n with
    | none => rfl
    | some r => rw [hd] at hr; simp at hr
  have h := h2 hd
  simp only [HCIcskphuff_decode, HCIcskphuff_decode.St.set_orig_length]
  generalize HCIcskphuff_decode.loop0 fuel _ = s1 at h ⊢
  simp only [h.done, ↓reduceIte]
  exact ⟨h.ub, h.oof, h.ret⟩

/-- the translated decoder runs: the bit stream of the encoder example above (`[9,274, 9,274, 8,195, 5,30]` expanded MSB first) plus
    three padding bits gives the four bytes back and stops after 31 bits -/
example :
    let s := HCIcskphuff_decode 300 0 (rowsL (initTrees 2)) (rowsR (initTrees 2)) (rowsU (initTrees 2)) 2 0 4 [7, 7, 7, 7, 7]
      (expandPairs [9, 274, 9, 274, 8, 195, 5, 30] ++ [0, 0, 0]) 0
    s.ub = false ∧ s.oof = false ∧ s.ret = 0 ∧ s.buf = [18, 18, 3, 18, 7] ∧ s.io_pos = 31 := by
  decide +kernel

/-- … and FAIL when a fifth byte is asked for -/
example :
    let s := HCIcskphuff_decode 300 0 (rowsL (initTrees 2)) (rowsR (initTrees 2)) (rowsU (initTrees 2)) 2 0 5 [7, 7, 7, 7, 7]
      (expandPairs [9, 274, 9, 274, 8, 195, 5, 30] ++ [0, 0, 0]) 0
    s.ub = false ∧ s.oof = false ∧ s.ret = -1 := by
  decide +kernel

/-! ## corollary: `skphuff_roundtrip` on the C text of all three functions -/

set_option linter.unusedVariables false in
/-- translated encode, then translated decode on the bit fields it produced, returns the bytes.

    The only hand model left between the two functions is the bit packing of hbitio.c: `expandPairs` turns each `Hbitwrite(count, data)`
    cell pair into `count` bit cells, most significant first - what `Hbitwrite` stores and `Hbitread(aid, 1, ·)` delivers
    (`bitwrite_refines` / `bitread_refines` of `H4.Props.C05Bits`); `pad` = whatever follows in the element (the zero bits of
    `Hendbitaccess`, or anything else).  From ANY well-formed coder state (`ts`, `pos`), for every byte string: both functions run without
    undefined behaviour, return SUCCEED, the decoder's buffer holds `bs`, and both leave the same trees and lane - so reading and
    writing can go on in step. -/
theorem skphuff_roundtrip_fn (skip : Nat) (hs : 1 ≤ skip) (ts : List Tree) (hts : ts.length = skip) (hw : ∀ t ∈ ts, WF t)
    (pos : Nat) (hpos : pos < skip) (bs : List UInt8) (hlen : bs.length < 2 ^ 31) (B : List Int) (hB : bs.length ≤ B.length)
    (pad : List Bool) (off off' : Int) (fe fd : Nat) (hfe : bs.length + 511 ≤ fe)
    (hfd : bs.length + ((encRun skip ts pos bs).length + pad.length) + 254 ≤ fd) :
    let e := HCIcskphuff_encode fe pos (rowsU ts) (rowsR ts) (rowsL ts) skip off bs.length (bytes bs) []
    let d := HCIcskphuff_decode fd pos (rowsL ts) (rowsR ts) (rowsU ts) skip off' bs.length B (expandPairs e.io_out ++ bitsI pad) 0
    e.ub = false ∧ e.oof = false ∧ e.ret = 0 ∧ d.ub = false ∧ d.oof = false ∧ d.ret = 0 ∧
      d.buf = bytes bs ++ B.drop bs.length ∧
      d.skphuff_info_left = e.skphuff_info_left ∧ d.skphuff_info_right = e.skphuff_info_right ∧
      d.skphuff_info_up = e.skphuff_info_up ∧ d.skphuff_info_skip_pos = e.skphuff_info_skip_pos := by
  obtain ⟨e1, e2, e3, e4, e5, e6, e7, e8, -⟩ := HCIcskphuff_encode_refines skip hs ts hts hw pos hpos bs hlen [] off fe hfe
  have hio : expandPairs (HCIcskphuff_encode fe pos (rowsU ts) (rowsR ts) (rowsL ts) skip off bs.length (bytes bs) []).io_out ++ bitsI pad
      = bitsI (encRun skip ts pos bs ++ pad) := by
    rw [e4, List.nil_append, expandPairs_flat, fieldsBits_encRunF, bitsI_append]
  have hm := decRun_encRun skip bs ts pos pad hw
  obtain ⟨d1, d2, d3, d4, d5, d6, d7, d8, -, -⟩ := HCIcskphuff_decode_refines skip hs ts hts hw pos hpos (encRun skip ts pos bs ++ pad) 0
    (by omega) bs.length hlen B hB off' fd (by simpa using hfd) bs (by simpa using hm)
  simp only [hio]
  exact ⟨e1, e2, e3, d1, d2, d3, d4, d5.trans e5.symm, d6.trans e6.symm, d7.trans e7.symm, d8.trans e8.symm⟩

set_option linter.unusedVariables false in
/-- the instance the library produces: a fresh element (`HCIcskphuff_init`: `initTrees skip`, lane 0) -/
theorem skphuff_roundtrip_fn_init (skip : Nat) (hs : 1 ≤ skip) (bs : List UInt8) (hlen : bs.length < 2 ^ 31) (B : List Int)
    (hB : bs.length ≤ B.length) (pad : List Bool) (fe fd : Nat) (hfe : bs.length + 511 ≤ fe)
    (hfd : bs.length + ((encodeBits skip bs).length + pad.length) + 254 ≤ fd) :
    let T := initTrees skip
    let e := HCIcskphuff_encode fe 0 (rowsU T) (rowsR T) (rowsL T) skip 0 bs.length (bytes bs) []
    let d := HCIcskphuff_decode fd 0 (rowsL T) (rowsR T) (rowsU T) skip 0 bs.length B (expandPairs e.io_out ++ bitsI pad) 0
    e.ub = false ∧ e.oof = false ∧ e.ret = 0 ∧ d.ub = false ∧ d.oof = false ∧ d.ret = 0 ∧ d.buf = bytes bs ++ B.drop bs.length := by
  have h := skphuff_roundtrip_fn skip hs (initTrees skip) (by simp [initTrees])
    (fun t ht => by rw [List.eq_of_mem_replicate ht]; exact WF_init) 0 (by omega) bs hlen B hB pad 0 0 fe fd hfe hfd
  exact ⟨h.1, h.2.1, h.2.2.1, h.2.2.2.1, h.2.2.2.2.1, h.2.2.2.2.2.1, h.2.2.2.2.2.2.1⟩

/-- instantiated (hypotheses satisfiable): 12 bytes, skip 3, three padding bits -/
example :
    let T := initTrees 3
    let e := HCIcskphuff_encode 1000 0 (rowsU T) (rowsR T) (rowsL T) (3 : Nat) 0 (([1, 2, 3, 1, 2, 3, 200, 255, 0, 1, 2, 3] : List UInt8).length)
      (bytes [1, 2, 3, 1, 2, 3, 200, 255, 0, 1, 2, 3]) []
    let d := HCIcskphuff_decode 7000 0 (rowsL T) (rowsR T) (rowsU T) (3 : Nat) 0 (([1, 2, 3, 1, 2, 3, 200, 255, 0, 1, 2, 3] : List UInt8).length)
      (List.replicate 12 0) (expandPairs e.io_out ++ bitsI [false, false, false]) 0
    e.ub = false ∧ e.oof = false ∧ e.ret = 0 ∧ d.ub = false ∧ d.oof = false ∧ d.ret = 0 ∧
      d.buf = bytes [1, 2, 3, 1, 2, 3, 200, 255, 0, 1, 2, 3] ++ (List.replicate 12 0).drop 12 :=
  skphuff_roundtrip_fn_init 3 (by decide) [1, 2, 3, 1, 2, 3, 200, 255, 0, 1, 2, 3] (by decide) (List.replicate 12 0) (by decide)
    [false, false, false] 1000 7000 (by decide) (by
      have : (encodeBits 3 [1, 2, 3, 1, 2, 3, 200, 255, 0, 1, 2, 3]).length = 81 := by decide +kernel
      rw [this]; decide)

end H4.Props.C05SkpFn
