import H4.Lemmas.C01Fn
/-! # C01, function level — the ordinary-element paths of the access-record functions of `hdf/src/hfile.c`, as TRANSLATED from the C text

`H4.Gen.Fn.Hfile2` is regenerated from `hdf/src/hfile.c` of /repo's current tree on every run (`gen/c2lean.py`, statement by statement):
`HIrefresh_new`, `Hinquire`, `Hseek`, `Hread`, `Hsetlength`, `Hwrite`, `Htrunc` (whole functions).

**How the C state is presented.**  `access_rec` (`HIaid2rec(aid)`) and `file_rec` (`HIfid2rec(access_rec->file_id)`) are OBJECTS outside the
function: their members are entry fields (`access_rec_posn`, `access_rec_appendable`, `access_rec_new_elem`, `access_rec_access`,
`access_rec_special`, `access_rec_block_size`, …, `file_rec_refcount`, `file_rec_f_end_off`, `file_rec_f_cur_off`), `access_rec_null` /
`file_rec_null` say that the resolver returned NULL; a dereference while the flag is set is recorded in `ub`.  The special-element dispatch
`(*access_rec->special_func->f)(…)` is outside the translated text: reaching it is recorded in `ub`; all theorems are about `special = 0`.

**Assumed callee behaviour (trusted base; `call_specs` of unit `Hfile2` in `gen/gen.py`, printed in the doc comment of every definition).**
Every call appends `[code, integer arguments]` to the log `calls`, returns an entry parameter, and - unless it FAILs (-1) - has these effects:
* `HTPinquire(ddid, ptag, pref, poff, plen)` (code 1) stores the descriptor fields `dd_tag`, `dd_ref`, `dd_off`, `dd_len` (state fields)
  through its non-NULL arguments;
* `HTPupdate(ddid, off, len)` (2) sets `dd_off` / `dd_len` (`-2` = keep) and raises `f_end_off` to `off + len` (last statement of `HTIupdate_dd`);
* `HPseek(file_rec, off)` (3) sets `f_cur_off := off`; `HP_read` (4) / `HP_write` (5) advance it by the byte count;
* `HPgetdiskblock(file_rec, size, moveto)` (7) returns its parameter (theorems: FAIL or the old end of file) and advances `f_end_off` by `size`;
* `HLconvert(aid, block_size, num_blocks)` (6) and the calls `Hseek` (8) / `Hwrite` (9) on the converted element return their parameter
  (their effect on the record - it becomes special - is outside the state: after a promotion only result and log are compared).
`Hwrite` calls the translated `Hsetlength`; `Hread` / `Hwrite` / `Hsetlength` call the translated `HIrefresh_new`.

**Shape of the theorems.**  For every model world `w`, handle `h` with `w.acc h = some a`, `a.special = false`, and every argument, the
translated function is run on the encoding of `a`, of the descriptor `d = (w.file a.file).dd a.slot` (`ddOff d`, `ddLen d`: `-1` = no
extent yet) and of the file (`endOff`); the conclusion compares `ub`, `oof`, the result (`resCode`), the new position / flags
(`access_rec_*`), descriptor and end of file (`ddView`) and the call log with what `H4.Elem` computes (`hseekI`, `hread`, `htruncI`,
`hsetlength`, `hwrite`: the entry points of `H4.ElemFn` for EVERY `int32` argument).  So the C01 theorems about `H4.Elem` (forward simulation to
growable byte arrays, `H4.Props.C01`) speak about the functions as they are written in `hfile.c`.

`int32` arithmetic: the translator does not wrap signed sums (signed overflow is undefined behaviour in C).  After 34ac7b8 (`Hread`),
7739a98 (`Hseek`), c61e7e0 (`Hwrite`) the functions form no sum that can leave the `int32` range on arguments in range - those commits
repaired what this work found (`Hread(aid, INT32_MAX)` overran the caller's buffer; `Htrunc(aid, -5)` stored a negative length, 20ed5b8).
`Hseek` still dereferences `file_rec` without `BADFREC` on its appendable path (kernel-checked `example` below: `ub` with `file_rec_null`). -/
namespace H4.Props.C01Fn
open H4 H4.Elem H4.Gen.Fn.Hfile2 H4.Gen.Hdf H4.Lemmas.C01Fn
set_option linter.unusedSimpArgs false
set_option linter.unusedVariables false

/-! ## `Hseek` -/

/-- the model refuses the conversion to linked blocks (`HLconvert` FAILs) -/
def convRefused (a : Acc) (f : File) : Prop := f.writable = false ∨ ((f.dd a.slot).ext = none ∧ a.canWrite = false)


local macro "sk" "[" ts:Lean.Parser.Tactic.simpLemma,* "]" : tactic =>
  `(tactic| simp [Hseek, Hseek.chk, hseek, resCode, b2i, acc_setAcc, hseekI, seekPromotes, seekOff, fits32, cINQ, cCONV, cRESEEK, convRefused, $ts,*])


-- the case tree of `Hseek` once the origin is fixed and the position `off` is in range (facts `hfit`, `cf` in the context)
set_option hygiene false in
local macro "hseek_tree" off:term : tactic => `(tactic| (
    by_cases h1 : $off = a.posn
    · sk [s, r, hw, hs, c0, c1, c2, hf, hd, hon, hfit, cf, hp', hl', h1]
    · by_cases h2 : $off < 0
      · sk [s, r, hw, hs, c0, c1, c2, hf, hd, hon, hfit, cf, hp', hl', h1, h2] <;> omega
      · cases happ : a.appendable
        · by_cases h3 : $off > ddLen d
          · sk [s, r, hw, hs, c0, c1, c2, hf, hd, hon, hfit, cf, hp', hl', h1, h2, h3, happ]
          · sk [s, r, hw, hs, c0, c1, c2, hf, hd, hon, hfit, cf, hp', hl', h1, h2, h3, happ] <;> omega
        · by_cases h3 : $off ≥ ddLen d
          · by_cases h4 : ddLen d + ddOff d = f.endOff
            · sk [s, r, hw, hs, c0, c1, c2, hf, hd, hon, hfit, cf, hp', hl', h1, h2, h3, h4, happ] <;> omega
            · rcases hcv with hc | hc
              · have hr := hconv.mp hc
                simp only [convRefused, hd] at hr
                sk [s, r, hw, hs, c0, c1, c2, hf, hd, hon, hfit, cf, hp', hl', h1, h2, h3, h4, happ, hc, hr] <;> omega
              · have hr : ¬ convRefused a f := fun x => hc (hconv.mpr x)
                simp only [convRefused, hd] at hr
                sk [s, r, hw, hs, c0, c1, c2, hf, hd, hon, hfit, cf, hp', hl', h1, h2, h3, h4, happ, hc, hr] <;> omega
          · sk [s, r, hw, hs, c0, c1, c2, hf, hd, hon, hfit, cf, hp', hl', h1, h2, h3, happ] <;> omega))

/-- **`Hseek` refines `hseek`** on an ordinary access record, for every `int32` offset and every origin `≥ 0` (`hseekI`): same result, same new
    position and `appendable` flag, refused exactly when the model refuses; a position that does not fit an `int32` is refused before anything
    else (7739a98).  `conv` is the answer of `HLconvert` on the promotion path (FAIL exactly when the model refuses the conversion), the seek
    on the converted element is assumed to succeed (`HLPseek` accepts every position `≥ 0`). -/
theorem Hseek_refines (w : World) (h : Nat) (a : Acc) (hw : w.acc h = some a) (hs : a.special = false)
    (offset : Int) (origin : Nat) (aid ddid tag ref conv : Int) (calls : List (List Int))
    (hoff : fits32 offset) (hposn : (a.posn : Int) ≤ 2147483647) (hlen : ddLen ((w.file a.file).dd a.slot) ≤ 2147483647)
    (hconv : conv = -1 ↔ convRefused a (w.file a.file)) :
    let f := w.file a.file
    let d := f.dd a.slot
    let s := Hseek 0 aid offset origin false 0 0 ddid calls tag ref (ddOff d) (ddLen d) a.posn (b2i a.appendable) f.endOff false conv
      a.blockSize a.numBlocks 0
    let r := hseekI w h offset origin
    s.ub = false ∧ s.oof = false ∧ s.ret = resCode r.2 ∧
    (r.1.acc h).map (fun a' => (a'.posn : Int)) = some s.access_rec_posn ∧
    (seekPromotes a f offset origin ∨ (r.1.acc h).map (fun a' => b2i a'.appendable) = some s.access_rec_appendable) ∧
    s.calls = calls ++ (if origin ≤ 2 then [[cINQ, ddid]] else []) ++
      (if seekPromotes a f offset origin then
         [[cCONV, aid, a.blockSize, a.numBlocks]] ++ (if conv = -1 then [] else [[cRESEEK, aid, offset, origin]]) else []) := by
  intro f d s r
  have hf : w.file a.file = f := rfl
  have hd : f.dd a.slot = d := rfl
  clear_value d f
  rw [hf] at hconv hlen
  rw [hd] at hlen
  obtain ⟨c0, c1, c2, -, -, -⟩ := consts
  have horg : origin = 0 ∨ origin = 1 ∨ origin = 2 ∨ 3 ≤ origin := by omega
  have hcv : conv = -1 ∨ conv ≠ -1 := by omega
  have hon : ¬ ((origin : Int) < 0) := by omega
  have hll := ddLen_cases d
  have hlr : -1 ≤ ddLen d := by rcases hll with ⟨_, hl, _⟩ | ⟨o, l, _, hl, _⟩ <;> omega
  unfold fits32 at hoff
  have hp' : ¬ (2147483647 < (a.posn : Int)) := by omega
  have hl' : ¬ (2147483647 < ddLen d) := by omega
  -- the position asked for, per origin
  have key : ∀ off : Int, origin ≤ 2 → off = seekOff a d offset origin →
      (s.ub = false ∧ s.oof = false ∧ s.ret = resCode r.2 ∧
      (r.1.acc h).map (fun a' => (a'.posn : Int)) = some s.access_rec_posn ∧
      (seekPromotes a f offset origin ∨ (r.1.acc h).map (fun a' => b2i a'.appendable) = some s.access_rec_appendable) ∧
      s.calls = calls ++ [[cINQ, ddid]] ++
        (if seekPromotes a f offset origin then
           [[cCONV, aid, a.blockSize, a.numBlocks]] ++ (if conv = -1 then [] else [[cRESEEK, aid, offset, origin]]) else [])) := by
    intro off ho2 hoff'
    have horg' : origin = 0 ∨ origin = 1 ∨ origin = 2 := by omega
    have fin : ∀ (P : Prop), (origin = 0 → off = offset → P) → (origin = 1 → off = offset + a.posn → P) →
        (origin = 2 → off = offset + ddLen d → P) → P := by
      intro P p0 p1 p2
      rcases horg' with ho | ho | ho
      · exact p0 ho (by simp [hoff', seekOff, ho, c1, c2, hd])
      · exact p1 ho (by simp [hoff', seekOff, ho, c1, c2, hd])
      · exact p2 ho (by simp [hoff', seekOff, ho, c1, c2, hd])
    -- one origin at a time: `cf` = the C's range test is not taken / is taken, `hfit` = the model's test
    refine fin _ ?_ ?_ ?_
    · intro ho hoe; subst ho; subst off
      have hfit : -2147483648 ≤ offset ∧ offset ≤ 2147483647 := hoff
      have cf : True := trivial
      hseek_tree offset
    · intro ho hoe; subst ho; subst off
      by_cases hfit : -2147483648 ≤ offset + ↑a.posn ∧ offset + ↑a.posn ≤ 2147483647
      · have cf : ¬ (2147483647 - (a.posn : Int) < offset) := by omega
        hseek_tree (offset + ↑a.posn)
      · have cf : 2147483647 - (a.posn : Int) < offset := by omega
        sk [s, r, hw, hs, c0, c1, c2, hf, hd, hon, hfit, cf, hp', hl']
    · intro ho hoe; subst ho; subst off
      by_cases hfit : -2147483648 ≤ offset + ddLen d ∧ offset + ddLen d ≤ 2147483647
      · have cf : ¬ (0 < ddLen d ∧ 2147483647 - ddLen d < offset ∨ ddLen d < 0 ∧ offset < -2147483648 - ddLen d) := by omega
        hseek_tree (offset + ddLen d)
      · have cf : 0 < ddLen d ∧ 2147483647 - ddLen d < offset ∨ ddLen d < 0 ∧ offset < -2147483648 - ddLen d := by omega
        sk [s, r, hw, hs, c0, c1, c2, hf, hd, hon, hfit, cf, hp', hl']
  rcases horg with ho | ho | ho | ho
  · have := key _ (by omega) rfl
    simpa [ho] using this
  · have := key _ (by omega) rfl
    simpa [ho] using this
  · have := key _ (by omega) rfl
    simpa [ho] using this
  · have e1 : ¬ origin ≤ 2 := by omega
    have e2 : ¬ seekPromotes a f offset origin := by simp [seekPromotes]; omega
    have e3 : (origin : Int) ≠ 0 ∧ (origin : Int) ≠ 1 ∧ (origin : Int) ≠ 2 := by omega
    have e4 : origin ≠ 0 ∧ origin ≠ 1 ∧ origin ≠ 2 := by omega
    sk [s, r, hw, hs, c0, c1, c2, e1, e2, e3, e4, hf, hd, hon]

/-- an origin below 0 (like every origin that is none of `DF_START`, `DF_CURRENT`, `DF_END`) is refused before anything is looked at:
    whatever the record, the descriptor and the answers of the layer below (`hseekI` answers `fail` and keeps the world) -/
theorem Hseek_negative_origin (offset origin aid spec inq ddid tag ref doff dlen posn app eoff conv bsz nb re : Int) (nullF : Bool)
    (calls : List (List Int)) (ho : origin < 0) :
    let s := Hseek 0 aid offset origin false spec inq ddid calls tag ref doff dlen posn app eoff nullF conv bsz nb re
    s.ub = false ∧ s.oof = false ∧ s.ret = -1 ∧ s.access_rec_posn = posn ∧ s.access_rec_appendable = app ∧ s.calls = calls := by
  intro s
  have h0 : origin ≠ 0 := by omega
  have h1 : origin ≠ 1 := by omega
  have h2 : origin ≠ 2 := by omega
  simp [s, Hseek, Hseek.chk, h0, h1, h2]

/-! ## `HIrefresh_new`, `Hread` -/

/-- the access record after `HIrefresh_new` -/
theorem HIrefresh_new_refines (a : Acc) (f : File) (hs : a.special = false) (ddid tag ref : Int) (calls : List (List Int)) :
    let d := f.dd a.slot
    let s := HIrefresh_new 0 (b2i a.newElem) 0 ddid 0 calls tag ref (ddOff d) (ddLen d)
    s.ub = false ∧ s.oof = false ∧ s.access_rec_new_elem = b2i (a.refresh f).newElem ∧
    s.calls = calls ++ (if a.newElem = true then [[cINQ, ddid]] else []) := by
  intro d s
  rcases ddLen_cases d with ⟨he, hl, ho⟩ | ⟨o, l, he, hl, ho⟩ <;> cases hn : a.newElem <;>
    simp [s, HIrefresh_new, HIrefresh_new.chk, Acc.refresh, hs, hn, he, hl, ho, b2i, cINQ, d] <;> omega


local macro "rd" "[" ts:Lean.Parser.Tactic.simpLemma,* "]" : tactic =>
  `(tactic| simp [Hread, Hread.chk, Hread.St.join, HIrefresh_new, HIrefresh_new.chk, hread, hreadCore, refresh_acc, refresh_file, Acc.refresh,
      resCode, b2i, acc_setAcc, readLen, cINQ, cSEEK, cREAD, $ts,*])

theorem Hread_refines (w : World) (h : Nat) (a : Acc) (hw : w.acc h = some a) (hs : a.special = false)
    (length : Int) (aid ddid tag ref refc seekr cur readr : Int) (calls : List (List Int))
    (hopen : refc ≠ 0) (hseekr : seekr ≠ -1)
    (hne : a.newElem = false → ((w.file a.file).dd a.slot).ext ≠ none)
    (hrd : readr = -1 ↔ (w.file a.file).hpRead ((ddOff ((w.file a.file).dd a.slot)).toNat + a.posn)
        (readLen a ((w.file a.file).dd a.slot) length).toNat = none) :
    let f := w.file a.file
    let d := f.dd a.slot
    let s := Hread 0 aid length false false (b2i a.newElem) 0 ddid 0 calls tag ref (ddOff d) (ddLen d) false refc seekr a.posn cur readr
    let r := hread w h length
    s.ub = false ∧ s.oof = false ∧ s.ret = resCode r.2 ∧
    (r.1.acc h).map (fun a' => (a'.posn : Int)) = some s.access_rec_posn ∧
    (r.1.acc h).map (fun a' => b2i a'.newElem) = some s.access_rec_new_elem ∧
    s.calls = calls ++ (if a.newElem = true then [[cINQ, ddid]] else []) ++
      (if d.ext = none ∨ length < 0 then [] else
        [[cINQ, ddid], [cSEEK, a.posn + ddOff d], [cREAD, readLen a d length]]) := by
  intro f d s r
  have hf : w.file a.file = f := rfl
  have hd : f.dd a.slot = d := rfl
  clear_value d f
  rw [hf, hd] at hne hrd
  rcases ddLen_cases d with ⟨he, hl, ho⟩ | ⟨o, l, he, hl, ho⟩
  · have hn : a.newElem = true := by
      cases hn : a.newElem
      · exact absurd he (hne hn)
      · rfl
    rd [s, r, hw, hs, hf, hd, he, hl, ho, hn, hopen, hseekr]
  · by_cases h1 : length < 0
    · cases hn : a.newElem <;> rd [s, r, hw, hs, hf, hd, he, hl, ho, hn, h1, hopen, hseekr]
    · -- the byte count handed to HP_read / hpRead
      have hcases : ∀ (n : Nat), readLen a d length = n →
          (length = 0 ∨ length + a.posn > l → (l : Int) - a.posn < 0 ∨ (l : Int) - a.posn = n) →
          (¬ (length = 0 ∨ length + a.posn > l) → length = n) →
          (s.ub = false ∧ s.oof = false ∧ s.ret = resCode r.2 ∧
            (r.1.acc h).map (fun a' => (a'.posn : Int)) = some s.access_rec_posn ∧
            (r.1.acc h).map (fun a' => b2i a'.newElem) = some s.access_rec_new_elem ∧
            s.calls = calls ++ (if a.newElem = true then [[cINQ, ddid]] else []) ++
              [[cINQ, ddid], [cSEEK, a.posn + o], [cREAD, n]]) := by
        intro n hn e1 e2
        rw [hn, ho] at hrd
        simp only [Int.toNat_natCast] at hrd
        have hnn : ¬ ((n : Int) < 0) := by omega
        have hp0 : f.hpRead (o + a.posn) 0 = some [] := by simp [File.hpRead, diskRead]
        by_cases hc : length = 0 ∨ length + a.posn > l
        · have hcC : length = 0 ∨ length > (l : Int) - a.posn := by omega
          rcases e1 hc with hneg | heq
          · have hn0 : n = 0 := by
              have : readLen a d length = 0 := by simp [readLen, hl, hc]; omega
              omega
            subst hn0
            have hr : readr ≠ -1 := fun x => by rw [hrd.mp x] at hp0; cases hp0
            cases hnew : a.newElem <;> rd [s, r, hw, hs, hf, hd, he, hl, ho, hnew, h1, hopen, hseekr, hc, hcC, hneg, hr] <;> omega
          · have hge : ¬ ((l : Int) - a.posn < 0) := by omega
            have hcC2 : length = 0 ∨ (n : Int) < length := by omega
            cases hp : f.hpRead (o + a.posn) n with
            | none =>
              have hr : readr = -1 := hrd.mpr hp
              cases hnew : a.newElem <;> rd [s, r, hw, hs, hf, hd, he, hl, ho, hnew, h1, hopen, hseekr, hc, hcC, hcC2, hge, heq, hr, hp, hnn] <;> omega
            | some bs =>
              have hr : readr ≠ -1 := fun x => by rw [hrd.mp x] at hp; cases hp
              cases hnew : a.newElem <;> rd [s, r, hw, hs, hf, hd, he, hl, ho, hnew, h1, hopen, hseekr, hc, hcC, hcC2, hge, heq, hr, hp, hnn] <;> omega
        · have heq := e2 hc
          subst heq
          have hc' : ¬ (n = 0 ∨ (l : Int) < ↑n + ↑a.posn) := by omega
          have hcC : ¬ (n = 0 ∨ (l : Int) - ↑a.posn < ↑n) := by omega
          cases hp : f.hpRead (o + a.posn) n with
          | none =>
            have hr : readr = -1 := hrd.mpr hp
            cases hnew : a.newElem <;> rd [s, r, hw, hs, hf, hd, he, hl, ho, hnew, h1, hopen, hseekr, hc', hcC, hr, hp, hnn] <;> omega
          | some bs =>
            have hr : readr ≠ -1 := fun x => by rw [hrd.mp x] at hp; cases hp
            cases hnew : a.newElem <;> rd [s, r, hw, hs, hf, hd, he, hl, ho, hnew, h1, hopen, hseekr, hc', hcC, hr, hp, hnn] <;> omega
      have hrl : 0 ≤ readLen a d length := by simp [readLen]; omega
      have := hcases (readLen a d length).toNat (by omega)
        (by intro hc; simp only [readLen, hl, if_pos hc]; omega)
        (by intro hc; simp only [readLen, hl, if_neg hc]; omega)
      have e3 : ((readLen a d length).toNat : Int) = readLen a d length := by omega
      simpa [he, h1, ho, e3] using this

/-! ## `Htrunc` -/

local macro "tr" "[" ts:Lean.Parser.Tactic.simpLemma,* "]" : tactic =>
  `(tactic| simp [Htrunc, Htrunc.chk, htruncI, htrunc, resCode, b2i, acc_setAcc, cINQ, cUPD, ddView, file_setAcc, $ts,*])

theorem Htrunc_refines (w : World) (h : Nat) (a : Acc) (hw : w.acc h = some a) (hs : a.special = false)
    (trunc_len : Int) (aid ddid tag ref eoff : Int) (acc : Nat) (calls : List (List Int)) (hacc : WriteBit acc a)
    (hfi : a.file < w.files.length) (hsl : a.slot < (w.file a.file).mem.length) (heoff : eoff = (w.file a.file).endOff) :
    let f := w.file a.file
    let d := f.dd a.slot
    let s := Htrunc 0 aid trunc_len false acc 0 0 ddid calls tag ref (ddOff d) (ddLen d) 0 eoff a.posn
    let r := htruncI w h trunc_len
    s.ub = false ∧ s.oof = false ∧ s.ret = resCode r.2 ∧
    (r.1.acc h).map (fun a' => (a'.posn : Int)) = some s.access_rec_posn ∧
    ddView (r.1.file a.file) a.slot = (s.dd_off, s.dd_len, s.file_rec_f_end_off) ∧
    s.calls = calls ++ (if a.canWrite = true ∧ 0 ≤ trunc_len then [[cINQ, ddid]] else []) ++
      (if a.canWrite = true ∧ 0 ≤ trunc_len ∧ trunc_len < ddLen d then [[cUPD, ddid, -2, trunc_len]] else []) := by
  intro f d s r
  have hf : w.file a.file = f := rfl
  have hd : f.dd a.slot = d := rfl
  clear_value d f
  rw [hf] at hsl heoff
  subst heoff
  cases hcw : a.canWrite
  · have hb : acc &&& 2 = 0 := by
      have := hacc; unfold WriteBit at this; rw [hcw] at this; simp at this; exact this
    by_cases h0 : trunc_len < 0
    · tr [s, r, hw, hs, hf, hd, hcw, hb, h0]
    · tr [s, r, hw, hs, hf, hd, hcw, hb, h0]
  · have hb : ¬ (acc &&& 2 = 0) := by
      have := hacc; unfold WriteBit at this; rw [hcw] at this; simp at this; exact this
    by_cases h0 : trunc_len < 0
    · tr [s, r, hw, hs, hf, hd, hcw, hb, h0]; omega
    · obtain ⟨n, rfl⟩ := Int.eq_ofNat_of_zero_le (show 0 ≤ trunc_len by omega)
      rcases ddLen_cases d with ⟨he, hl, ho⟩ | ⟨o, l, he, hl, ho⟩
      · have h1 : ¬ ((-1 : Int) > (n : Int)) := by omega
        have h1' : ¬ ((n : Int) < -1) := by omega
        tr [s, r, hw, hs, hf, hd, hcw, hb, h0, he, hl, ho, h1, h1']
      · by_cases h1 : (l : Int) > n
        · have h2 : n < l := by omega
          by_cases h3 : n < a.posn
          · tr [s, r, hw, hs, hf, hd, hcw, hb, h0, he, hl, ho, h1, h2, h3, file_setFile_same, hfi, ddSetExt_dd, ddSetExt_endOff, hsl, ddLen, ddOff]
            constructor <;> (try split) <;> omega
          · tr [s, r, hw, hs, hf, hd, hcw, hb, h0, he, hl, ho, h1, h2, h3, file_setFile_same, hfi, ddSetExt_dd, ddSetExt_endOff, hsl, ddLen, ddOff]
            constructor <;> (try split) <;> omega
        · have h2 : ¬ (n < l) := by omega
          tr [s, r, hw, hs, hf, hd, hcw, hb, h0, he, hl, ho, h1, h2]

/-! ## `Hsetlength` -/

local macro "sl" "[" ts:Lean.Parser.Tactic.simpLemma,* "]" : tactic =>
  `(tactic| simp [Hsetlength, Hsetlength.chk, Hsetlength.St.join, HIrefresh_new, HIrefresh_new.chk, hsetlength, hsetlengthCore, refresh_acc,
      refresh_file, Acc.refresh, resCode, b2i, acc_setAcc, cINQ, cUPD, cBLOCK, ddView, file_setAcc, $ts,*])

/-- **`Hsetlength` refines `hsetlength`**; `blk` is the answer of `HPgetdiskblock(file_rec, length, FALSE)`: FAIL, or the old end of file -/
theorem Hsetlength_refines (w : World) (h : Nat) (a : Acc) (hw : w.acc h = some a) (hs : a.special = false)
    (length : Int) (aid ddid tag ref refc blk : Int) (acc : Nat) (calls : List (List Int)) (hacc : WriteBit acc a)
    (hopen : refc ≠ 0) (hfi : a.file < w.files.length) (hsl : a.slot < (w.file a.file).mem.length)
    (hblk : blk = -1 ∨ (0 ≤ length ∧ blk = (w.file a.file).endOff)) :
    let f := w.file a.file
    let d := f.dd a.slot
    let s := Hsetlength 0 aid length false (b2i a.newElem) 0 ddid 0 calls tag ref (ddOff d) (ddLen d) acc false refc blk f.endOff 0
    let r := if blk = -1 then (w.refresh h, Res.fail) else hsetlength w h length.toNat
    s.ub = false ∧ s.oof = false ∧ s.ret = resCode r.2 ∧
    (r.1.acc h).map (fun a' => b2i a'.newElem) = some s.access_rec_new_elem ∧
    ddView (r.1.file a.file) a.slot = (s.dd_off, s.dd_len, s.file_rec_f_end_off) ∧
    s.calls = calls ++ (if a.newElem = true then [[cINQ, ddid]] else []) ++
      (if a.newElem = true ∧ d.ext = none ∧ a.canWrite = true then
        [[cBLOCK, length, 0]] ++ (if blk = -1 then [] else [[cUPD, ddid, blk, length]]) else []) := by
  intro f d s r
  have hf : w.file a.file = f := rfl
  have hd : f.dd a.slot = d := rfl
  clear_value d f
  rw [hf] at hsl hblk
  have hb : (a.canWrite = false ∧ acc &&& 2 = 0) ∨ (a.canWrite = true ∧ ¬ (acc &&& 2 = 0)) := by
    have := hacc; unfold WriteBit at this
    cases hcw : a.canWrite <;> rw [hcw] at this <;> simp at this <;> simp [this]
  cases hn : a.newElem
  · rcases hblk with hk | ⟨h0, hk⟩ <;> rcases ddLen_cases d with ⟨he, hl, ho⟩ | ⟨o, l, he, hl, ho⟩ <;>
      sl [s, r, hw, hs, hf, hd, hn, he, hl, ho, hk, hopen]
  · rcases ddLen_cases d with ⟨he, hl, ho⟩ | ⟨o, l, he, hl, ho⟩
    · -- still new after HIrefresh_new
      rcases hb with ⟨hcw, hbit⟩ | ⟨hcw, hbit⟩
      · rcases hblk with hk | ⟨h0, hk⟩ <;> sl [s, r, hw, hs, hf, hd, hn, he, hl, ho, hk, hopen, hcw, hbit]

      · rcases hblk with hk | ⟨h0, hk⟩
        · sl [s, r, hw, hs, hf, hd, hn, he, hl, ho, hk, hopen, hcw, hbit]
        · obtain ⟨n, rfl⟩ := Int.eq_ofNat_of_zero_le h0
          have hk1 : blk ≠ -1 := by omega
          have hfi' : a.file < (w.refresh h).files.length := by rw [refresh_files]; exact hfi
          have hv := setLength_view (w.refresh h) a.file a.slot n f hfi' hsl
          simp only [ddView] at hv
          sl [s, r, hw, hs, hf, hd, hn, he, hl, ho, hk, hk1, hopen, hcw, hbit, hv]

    · rcases hblk with hk | ⟨h0, hk⟩ <;> sl [s, r, hw, hs, hf, hd, hn, he, hl, ho, hk, hopen]


/-! ## the hypotheses are satisfiable, the translated code runs -/

/-- a file with one element (tag 100, ref 1) of 8 bytes at offset 10, the last thing in the file (end of file 18) -/
def exF : File := { present := true, isOpen := true, writable := true, disk := List.replicate 18 7, endOff := 18,
                    mem := [{ tag := 100, ref := 1, ext := some (10, 8) }], dsk := [{ tag := 100, ref := 1, ext := some (10, 8) }] }
/-- a writable access record on it, positioned at byte 2 -/
def exA : Acc := { file := 0, slot := 0, posn := 2, canWrite := true }
def exW : World := { files := [exF], accs := [(1, exA)] }

-- `Hseek(aid, 3, DF_START)`: hypotheses of `Hseek_refines` hold, the translated code and the model move to position 3
example : exW.acc 1 = some exA ∧ exA.special = false ∧ fits32 3 ∧ (exA.posn : Int) ≤ 2147483647 ∧
    ddLen ((exW.file exA.file).dd exA.slot) ≤ 2147483647 := by decide
example : let s := Hseek 0 7 3 0 false 0 0 5 [] 100 1 10 8 2 0 18 false 0 4096 16 0
    s.ub = false ∧ s.ret = 0 ∧ s.access_rec_posn = 3 ∧ s.calls = [[1, 5]] ∧ (hseekI exW 1 3 0).2 = Res.ok := by decide
-- a position that does not fit an int32 (7739a98): refused by both
example : (Hseek 0 7 2147483647 1 false 0 0 5 [] 100 1 10 8 2 0 18 false 0 4096 16 0).ret = -1 ∧
    (hseekI exW 1 2147483647 1).2 = Res.fail := by decide
-- the file record is dereferenced without a NULL test on the appendable path: with `file_rec_null = true` the translation reports undefined behaviour
example : (Hseek 0 7 9 0 false 0 0 5 [] 100 1 10 8 2 1 18 true 0 4096 16 0).ub = true := by decide

-- `Hread(aid, 100, buf)` at position 2 of the 8-byte element: clipped to 6 bytes at offset 12
example : let s := Hread 0 7 100 false false 0 0 5 0 [] 100 1 10 8 false 1 0 2 0 0
    s.ub = false ∧ s.ret = 6 ∧ s.access_rec_posn = 8 ∧ s.calls = [[1, 5], [3, 12], [4, 6]] ∧
    readLen exA (exF.dd 0) 100 = 6 := by decide
-- `Hread(aid, INT32_MAX, buf)`: clipped too (34ac7b8; the sum `length + posn` is no longer formed)
example : (Hread 0 7 2147483647 false false 0 0 5 0 [] 100 1 10 8 false 1 0 2 0 0).ret = 6 := by decide

-- `Htrunc(aid, 3)`: length 3, position 2 stays; `Htrunc(aid, -5)`: refused (20ed5b8), nothing logged but nothing changed
example : let s := Htrunc 0 7 3 false 3 0 0 5 [] 100 1 10 8 0 18 2
    s.ub = false ∧ s.ret = 3 ∧ s.dd_len = 3 ∧ s.access_rec_posn = 2 ∧ s.calls = [[1, 5], [2, 5, -2, 3]] ∧ WriteBit 3 exA := by decide
example : let s := Htrunc 0 7 (-5) false 3 0 0 5 [] 100 1 10 8 0 18 2
    s.ret = -1 ∧ s.dd_len = 8 ∧ s.access_rec_posn = 2 ∧ s.calls = [] ∧ (htruncI exW 1 (-5)).2 = Res.fail := by decide

-- `Hsetlength(aid, 4)` on a new element of a file that ends at 18: extent (18, 4), end of file 22
example : let s := Hsetlength 0 7 4 false 1 0 5 0 [] 100 1 (-1) (-1) 3 false 1 18 18 0
    s.ub = false ∧ s.ret = 0 ∧ s.access_rec_new_elem = 0 ∧ s.dd_off = 18 ∧ s.dd_len = 4 ∧ s.file_rec_f_end_off = 22 ∧
    s.calls = [[1, 5], [7, 4, 0], [2, 5, 18, 4]] := by decide

end H4.Props.C01Fn
