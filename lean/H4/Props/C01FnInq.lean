import H4.Lemmas.C01Fn
/-! # C01, function level — `Hinquire` of `hdf/src/hfile.c` as TRANSLATED from the C text (see `H4.Props.C01Fn` for the conventions) -/
namespace H4.Props.C01Fn
open H4 H4.Elem H4.Gen.Fn.Hfile2 H4.Gen.Hdf H4.Lemmas.C01Fn
set_option linter.unusedSimpArgs false
set_option linter.unusedVariables false

/-- what `Hinquire` stores through an output pointer: nothing through NULL, the value into cell 0 otherwise -/
def outCell (isNull : Bool) (reg : List Int) (v : Int) : List Int := if isNull then reg else reg.set 0 v

set_option maxHeartbeats 4000000 in
theorem Hinquire_refines (w : World) (h : Nat) (a : Acc) (hw : w.acc h = some a) (hs : a.special = false)
    (aid ddid tag ref fid acc : Int) (calls : List (List Int))
    (nfid ntag nref nlen noff nposn nacc nspec : Bool) (pfid ptag pref plen poff pposn pacc pspec : List Int)
    (h1 : nfid = false → 0 < pfid.length) (h2 : ntag = false → 0 < ptag.length) (h3 : nref = false → 0 < pref.length)
    (h4 : nlen = false → 0 < plen.length) (h5 : noff = false → 0 < poff.length) (h6 : nposn = false → 0 < pposn.length)
    (h7 : nacc = false → 0 < pacc.length) (h8 : nspec = false → 0 < pspec.length) :
    let f := w.file a.file
    let d := f.dd a.slot
    let s := Hinquire 0 aid nfid pfid ptag ntag pref nref plen nlen poff noff nposn pposn nacc pacc nspec pspec false 0 fid 0 ddid calls
      tag ref (ddOff d) (ddLen d) a.posn acc
    s.ub = false ∧ s.oof = false ∧ s.ret = 0 ∧
    (hinquire w h).2 = .info (ddLen d) (ddOff d) a.posn 0 ∧
    s.plength = outCell nlen plen (ddLen d) ∧ s.poffset = outCell noff poff (ddOff d) ∧ s.pposn = outCell nposn pposn a.posn ∧
    s.pspecial = outCell nspec pspec 0 ∧ s.ptag = outCell ntag ptag tag ∧ s.pref = outCell nref pref ref ∧
    s.pfile_id = outCell nfid pfid fid ∧ s.paccess = outCell nacc pacc ((acc + 32768) % 65536 - 32768) ∧
    s.calls = calls ++ [[cINQ, ddid]] := by
  intro f d s
  cases nfid <;> cases ntag <;> cases nref <;> cases nlen <;> cases noff <;> cases nposn <;> cases nacc <;> cases nspec <;>
    simp at h1 h2 h3 h4 h5 h6 h7 h8 <;>
    simp [s, Hinquire, Hinquire.chk, hinquire, hw, hs, outCell, cINQ, f, d, h1, h2, h3, h4, h5, h6, h7, h8]

-- what engine elem asks: length, offset, position, special code
example : let s := Hinquire 0 7 true [] [] true [] true [0] false [0] false false [0] true [] false [0] false 0 3 0 5 [] 100 1 10 8 2 3
    s.ub = false ∧ s.ret = 0 ∧ s.plength = [8] ∧ s.poffset = [10] ∧ s.pposn = [2] ∧ s.pspecial = [0] ∧ s.calls = [[1, 5]] := by decide

end H4.Props.C01Fn
