import H4.Lemmas.Annot
/-! # C11 — annotations: keys, payload codec, per-object lists, rewrite, read buffers

Model: `H4.Annot` (`mfan.c`, `dfan.c`); the key macros are the generated translations in `H4.Gen.Macros`. -/
namespace H4.Props.C11
open H4.Annot H4.Gen.Hdf H4.Gen.Mfan H4.Gen.Macros

theorem consts : AN_DATA_LABEL = 0 ∧ AN_DATA_DESC = 1 ∧ AN_FILE_LABEL = 2 ∧ AN_FILE_DESC = 3 ∧
    TAG_DATA_LABEL = DFTAG_DIL ∧ TAG_DATA_DESC = DFTAG_DIA ∧ TAG_FILE_LABEL = DFTAG_FID ∧ TAG_FILE_DESC = DFTAG_FD ∧
    DFTAG_DIL = 104 ∧ DFTAG_DIA = 105 ∧ DFTAG_FID = 100 ∧ DFTAG_FD = 101 := H4.Annot.consts

/-! ## keys -/

/-- `AN_KEY2TYPE (AN_CREATE_KEY t r) = t` for the four annotation types and every 16-bit ref
    (structural proof on `Nat` bit operations; it holds for every `t < 65536`) -/
theorem an_key2type_create (t r : Nat) (ht : t < 4) (hr : r < 65536) : AN_KEY2TYPE (AN_CREATE_KEY t r) = t :=
  key2type_create t r (by omega) hr

theorem an_key2ref_create (t r : Nat) (ht : t < 4) (hr : r < 65536) : AN_KEY2REF (AN_CREATE_KEY t r) = r :=
  key2ref_create t r (by omega) hr

/-- the key is injective on (type, ref) -/
theorem an_key_injective (t r t' r' : Nat) (ht : t < 4) (hr : r < 65536) (ht' : t' < 4) (hr' : r' < 65536)
    (h : AN_CREATE_KEY t r = AN_CREATE_KEY t' r') : t = t' ∧ r = r' :=
  key_injective t r t' r' (by omega) hr (by omega) hr' h

example : AN_CREATE_KEY 3 65535 = 262143 ∧ AN_KEY2TYPE 262143 = 3 ∧ AN_KEY2REF 262143 = 65535 := by decide

/-- `ANtag2atype (ANatype2tag t) = t`: an annotation id resolves to the same (tag, ref) it was found by -/
theorem ann_type_tag_roundtrip (t : Nat) (h : t < 4) : (tagOfType t).bind typeOfTag = some t := type_tag_roundtrip t h

/-! ## payload -/

/-- object labels/descriptions: 4-byte big-endian target prefix + text; file labels/descriptions: the text alone.
    Any bytes (embedded NULs included), any length. -/
theorem ann_payload_roundtrip (t : Nat) (self target : Nat × Nat) (text : Bytes) (h1 : target.1 < 65536) (h2 : target.2 < 65536) :
    decodeAnn t self (encodeAnn t target text) = some (if isDataType t then target else self, text) :=
  decode_encode t self target text h1 h2

example : encodeAnn AN_DATA_DESC (720, 3) [65, 0, 66] = [2, 208, 0, 3, 65, 0, 66] ∧
    decodeAnn AN_DATA_DESC (105, 1) [2, 208, 0, 3, 65, 0, 66] = some ((720, 3), [65, 0, 66]) ∧
    encodeAnn AN_FILE_LABEL (100, 1) [65, 66] = [65, 66] := by decide

/-! ## the per-type trees and ANannlist -/

/-- every operation keeps the tree walk order strictly descending by key (no key twice) -/
theorem tree_sorted_step (s : AnState) (op : Op) (h : TreeSorted s.tree) : TreeSorted (step s op).1.tree := by
  cases op with
  | start => simp [step, TreeSorted]
  | endan => simp [step, TreeSorted]
  | restart => simpa [step] using h
  | hput tag ref b => simpa [step] using h
  | hdel tag ref => simp only [step]; split <;> exact h
  | fileinfo =>
    simp only [step]
    exact loadType_sorted _ _ (loadType_sorted _ _ (loadType_sorted _ _ (loadType_sorted _ _ h)))
  | create t etag eref annref =>
    simp only [step]
    repeat' split
    all_goals first
      | exact h
      | exact loadType_sorted _ _ h
      | exact treeIns_sorted (loadType_sorted _ _ h) (by assumption)
  | writeann t annref text => simp only [step]; split; exact h; split <;> exact h
  | readann t annref maxlen => simp only [step]; split; exact h; split <;> exact h
  | annlen t annref => simp only [step]; split; exact h; split <;> exact h
  | numann t etag eref => simp only [step]; split; exact h; exact loadType_sorted _ _ h
  | annlist t etag eref => simp only [step]; split; exact h; exact loadType_sorted _ _ h
  | select t index => simp only [step]; split <;> exact loadType_sorted _ _ h
  | gettagref t index => simp only [step]; split <;> exact loadType_sorted _ _ h
  | tagref2id tag ref =>
    simp only [step]; split
    · exact h
    · split <;> exact loadType_sorted _ _ h
  | rawelem tag ref => simp only [step]; split <;> exact h
  | dfput t etag eref annref text => simp only [step]; split; exact h; split <;> exact h
  | dfget t etag eref maxlen => simp only [step]; split; exact h; split; exact h; split <;> exact h
  | dfgetlen t etag eref => simp only [step]; split; exact h; split; exact h; split <;> exact h
  | dfaddf t annref text => simp only [step]; split <;> exact h
  | dfflen t first =>
    simp only [step]; split; exact h; split; exact h; split; exact h; split; exact h; rw [setNext_tree]; exact h
  | dffget t first maxlen =>
    simp only [step]; split; exact h; split; exact h; split; exact h; split; exact h
    split <;> (rw [setNext_tree]; exact h)
  | dflablist tag listsize maxlen startpos => simp only [step]; split <;> exact h

/-- the entries `ANannlist`/`ANnumann` select from a tree -/
def annlistOf (tr : List (Nat × Entry)) (t etag eref : Nat) : List (Nat × Entry) :=
  (ofType t tr).filter (fun p => p.2.elmtag == etag && p.2.elmref == eref)

/-- **`ANannlist`**: the list is exactly the annotations of the given type in the tree whose target is (tag, ref);
    each once; in the tree's walk order, which is DESCENDING key — i.e. descending annotation ref, newest first when
    refs are handed out in increasing order (`ANIanncmp` inverts the comparison) — not creation order. -/
theorem annlist_filter (tr : List (Nat × Entry)) (h : TreeSorted tr) (t etag eref : Nat) :
    (∀ p, p ∈ annlistOf tr t etag eref ↔ p ∈ tr ∧ AN_KEY2TYPE p.1 = t ∧ p.2.elmtag = etag ∧ p.2.elmref = eref) ∧
    ((annlistOf tr t etag eref).map (·.1)).Pairwise (· > ·) := by
  constructor
  · intro p
    simp only [annlistOf, ofType, List.mem_filter, beq_iff_eq, Bool.and_eq_true]
    constructor
    · rintro ⟨⟨a, b⟩, c, d⟩; exact ⟨a, b, c, d⟩
    · rintro ⟨a, b, c, d⟩; exact ⟨⟨a, b⟩, c, d⟩
  · have s1 : (annlistOf tr t etag eref).Sublist tr :=
      List.Sublist.trans List.filter_sublist List.filter_sublist
    exact List.Pairwise.sublist (List.Sublist.map _ s1) h

/-- what the model's `annlist` operation answers is `annlistOf` of the (loaded) tree -/
theorem annlist_step (s : AnState) (t etag eref : Nat) (hd : isDataType t = true) :
    (step s (.annlist t etag eref)).2 = .nats ((annlistOf (loadType s t).tree t etag eref).map (·.2.annref)) := by
  simp [step, hd, annlistOf]

example : (step { tree := [(AN_CREATE_KEY 0 3, ⟨3, 720, 1⟩), (AN_CREATE_KEY 0 2, ⟨2, 720, 2⟩), (AN_CREATE_KEY 0 1, ⟨1, 720, 1⟩)],
                  loaded := [0] } (.annlist 0 720 1)).2 = .nats [3, 1] := by decide

/-! ## rewrite -/

/-- **rewriting an annotation keeps its identity**: `ANwriteann` on an existing annotation (any new length) leaves the
    trees (hence type, ref, id, target) unchanged, leaves every other element untouched (every real tag/ref: a DD with
    tag `DFTAG_NULL` is a free DD, which a NEW annotation's element may take), and the new text is what
    `ANreadann` (with a large enough buffer) and `ANannlen` report. -/
theorem rewrite_keeps_identity (s : AnState) (t annref tag : Nat) (e : Entry) (text : Bytes)
    (ht : tagOfType t = some tag) (hf : treeFind (AN_CREATE_KEY t annref) s.tree = some e)
    (h1 : e.elmtag < 65536) (h2 : e.elmref < 65536) (hne : text ≠ []) :
    let s' := (step s (.writeann t annref text)).1
    s'.tree = s.tree ∧ s'.loaded = s.loaded ∧
    (∀ k, k.1 ≠ DFTAG_NULL → k ≠ (tag, annref) → elemLook k s'.elems = elemLook k s.elems) ∧
    (elemLook (tag, annref) s'.elems).bind (decodeAnn t (tag, annref)) =
      some (if isDataType t then (e.elmtag, e.elmref) else (tag, annref), text) ∧
    (step s' (.annlen t annref)).2 = .int text.length ∧
    ∀ maxlen, text.length < maxlen → (step s' (.readann t annref maxlen)).2 = .read text (text.length + if isLabelType t then 1 else 0) := by
  have hs : (step s (.writeann t annref text)).1 =
      { s with elems := elemPut (tag, annref) (encodeAnn t (e.elmtag, e.elmref) text) s.elems } := by
    simp [step, ht, hf, hne]
  have hnn : (tag, annref).1 ≠ DFTAG_NULL := tagOfType_ne_null ht
  simp only
  rw [hs]
  refine ⟨rfl, rfl, ?_, ?_, ?_, ?_⟩
  · intro k hkn hk
    simp only [elemLook_elemPut _ _ _ _ hkn, hk, if_false]
  · simp only [elemLook_elemPut _ _ _ _ hnn, if_true, Option.bind_some]
    exact decode_encode t (tag, annref) (e.elmtag, e.elmref) text h1 h2
  · simp only [step, ht, elemLook_elemPut _ _ _ _ hnn, if_true, encodeAnn]
    by_cases hd : isDataType t = true
    · simp [hd, u16]; omega
    · simp [hd]
  · intro maxlen hm
    · have he := hne
      have hpos : 0 < text.length := List.length_pos_iff.mpr he
      simp only [step, ht, elemLook_elemPut _ _ _ _ hnn, if_true, encodeAnn, readSpan]
      by_cases hd : isDataType t = true
      · by_cases hl : isLabelType t = true
        · have m1 : min text.length (maxlen - 1) = text.length := by omega
          have : ¬ text.length = 0 := by omega
          simp [hd, hl, u16, m1, this]
        · have m1 : min text.length maxlen = text.length := by omega
          have : ¬ text.length = 0 := by omega
          simp [hd, hl, u16, m1, this]
      · by_cases hl : isLabelType t = true
        · have m1 : min text.length (maxlen - 1) = text.length := by omega
          have : ¬ text.length = 0 := by omega
          simp [hd, hl, m1, this]
        · have m1 : min text.length maxlen = text.length := by omega
          have : ¬ text.length = 0 := by omega
          simp [hd, hl, m1, this]

/-! ## read buffers -/

/-- **reads stay inside the caller's buffer — full strength**: for EVERY text length and EVERY `maxlen` (labels need
    room for their terminating NUL, `maxlen ≥ 1`; descriptions any `maxlen ≥ 0`) `ANreadann`/`DFANgetlabel`/`DFANgetdesc`
    write at most `maxlen` bytes, and return the first `min len (maxlen − 1)` resp. `min len maxlen` bytes of the text.
    History: before /repo d625c61 a label read with `maxlen = 1` (description: 0) passed the clipped length 0 to `Hread`
    (= "to the end") and the whole text was written into the buffer; this file then carried
    `readann_maxlen1_overruns` and the bounded `readann_within_buffer_partial`. -/
theorem readann_within_buffer (t len maxlen : Nat) (h : isLabelType t = true → 1 ≤ maxlen) :
    (readSpan t len maxlen).2 ≤ maxlen ∧
    (readSpan t len maxlen).1 = (if isLabelType t then min len (maxlen - 1) else min len maxlen) := by
  unfold readSpan
  by_cases hl : isLabelType t = true
  · have := h hl
    simp [hl]; omega
  · simp [hl]; omega

example : readSpan AN_DATA_LABEL 22 1 = (0, 1) ∧ readSpan AN_DATA_DESC 22 0 = (0, 0) ∧ readSpan AN_FILE_LABEL 5 100 = (5, 6) := by decide

/-! ## creation never hides what is already in the file -/

/-- **`ANcreate`/`ANcreatef` never hide existing annotations**: in whatever state of the session the call is made
    (in particular as the very first annotation call, with no tree loaded), the type's tree afterwards contains every
    entry that loading the type from the file yields, plus — on success — the new one; and the type counts as loaded.
    History: before /repo d4a30b4 `ANIaddentry` created the tree EMPTY when it was not loaded yet, so all existing
    annotations of the type were invisible until `ANend` (`create_first_hides_existing`, finding `an-create-hides`). -/
theorem create_keeps_existing (s : AnState) (t etag eref annref : Nat) :
    let s' := (step s (.create t etag eref annref)).1
    (∀ p ∈ (loadType s t).tree, p ∈ s'.tree) ∨ (step s (.create t etag eref annref)).2 = .fail ∧ s'.tree = s.tree := by
  simp only [step]
  repeat' split
  all_goals first
    | (right; exact ⟨rfl, rfl⟩)
    | (left; intro p hp; exact hp)
    | (left; intro p hp; exact (treeIns_subset (by assumption)).1 p hp)

/-- the former counter-example, now positive: a file with two object labels; `ANcreate` + `ANwriteann` of a third as the
    first calls of the session; `ANfileinfo` reports three, and `ANannlist` lists all of them -/
theorem create_first_sees_existing :
    let file : AnState := { elems := [((104, 1), [3, 232, 0, 5, 65]), ((104, 2), [3, 232, 0, 5, 66])] }
    let s := (step (step file (.create 0 1000 5 3)).1 (.writeann 0 3 [67])).1
    (step s .fileinfo).2 = .nats [0, 0, 3, 0] ∧ (step s (.annlist 0 1000 5)).2 = .nats [3, 2, 1] := by
  decide

/-! ## the former finding `an-write-empty`, repaired by /repo 3d2a8cf -/

/-- `ANwriteann` with an empty text fails and changes nothing: no element (not even the 4-byte target prefix) appears -/
theorem write_empty_refused (s : AnState) (t annref : Nat) : step s (.writeann t annref []) = (s, .fail) := by
  simp [step]

example :
    let s := (step (step {} .fileinfo).1 (.create 0 1000 5 1)).1
    (step s (.writeann 0 1 [])).2 = .fail ∧ (step (step s (.writeann 0 1 [])).1 (.rawelem 104 1)).2 = .fail := by
  decide

/-! ## several sessions on a file that stays open (`ANend`, then `ANstart` again on a file id of the same file record)

The four trees, the annotation atoms and the four counts live in the `filerec_t`, which outlives `ANend` as long as a file
id of the file is open.  `ANend` must therefore put EVERY type back to "not built" — otherwise the next session on the
open file answers from the previous session's tree of that type: it misses what was written in between through
`DFANaddfid`/`DFANaddfds`/`Hputelement`, and its ids still name the file id that built them. -/

/-- **`ANend` forgets all four types; `ANstart` adds nothing**: whatever the session held (any tree, any set of loaded
    types), afterwards no type counts as loaded and no tree entry is left — for every type, the file descriptions included -/
theorem endan_forgets_every_type (s : AnState) :
    step s .endan = ({ s with tree := [], loaded := [] }, .ok) ∧
    (∀ t, countType (step s .endan).1 t = 0 ∧ (step s .endan).1.loaded.contains t = false) ∧
    step (step s .endan).1 .restart = ((step s .endan).1, .ok) :=
  ⟨rfl, fun _ => ⟨rfl, rfl⟩, rfl⟩

/-- **the next session lists exactly what the file holds — every type**: after `ANend` + `ANstart` on the open file,
    whatever the previous session had in its trees, building the tree of type `t` (what `ANfileinfo`, `ANselect`,
    `ANnumann`, `ANannlist`, `ANtagref2id`, `ANcreate` do first) yields exactly the annotations of that type that exist in
    the file NOW, each once: in particular those written after the previous session loaded the type. -/
theorem next_session_lists_the_file (s : AnState) (hok : FileOk s.elems) (t : Nat) (ht : t < 4) :
    let s0 := (step (step s .endan).1 .restart).1
    (ofType t (loadType s0 t).tree).Perm (fileEntries s.elems t) ∧
    countType (loadType s0 t) t = (fileEntries s.elems t).length := by
  have h := (loadType_perm { s with tree := [], loaded := [] } t ht rfl hok (by simp)).1
  simp only [List.nil_append] at h
  have hp : (ofType t (loadType { s with tree := [], loaded := [] } t).tree).Perm (fileEntries s.elems t) := by
    have := h.filter (fun p => AN_KEY2TYPE p.1 == t)
    rwa [filter_type_fileEntries s.elems hok t t ht, if_pos rfl] at this
  exact ⟨hp, hp.length_eq⟩

/-- **`ANfileinfo` of the next session counts the file, all four types**: after `ANend` + `ANstart` on the open file the
    four numbers are the numbers of file labels, file descriptions, object labels and object descriptions that exist in
    the file, independent of the trees and counts of the session before. -/
theorem next_session_fileinfo_counts_the_file (s : AnState) (hok : FileOk s.elems) :
    (step (step (step s .endan).1 .restart).1 .fileinfo).2 =
      .nats [(fileEntries s.elems AN_FILE_LABEL).length, (fileEntries s.elems AN_FILE_DESC).length,
             (fileEntries s.elems AN_DATA_LABEL).length, (fileEntries s.elems AN_DATA_DESC).length] := by
  have ty := fileEntries_type s.elems hok
  obtain ⟨p1, l1, e1⟩ := load_next { s with tree := [], loaded := [] } AN_FILE_LABEL (by decide) [] rfl rfl hok []
    (List.Perm.refl _) (by simp)
  obtain ⟨p2, l2, e2⟩ := load_next _ AN_FILE_DESC (by decide) _ l1 (by decide) (e1 ▸ hok) _ p1 (by
    intro x hx
    simp only [List.nil_append] at hx
    rw [ty AN_FILE_LABEL (by decide) x hx]; decide)
  rw [e1] at p2 e2
  obtain ⟨p3, l3, e3⟩ := load_next _ AN_DATA_LABEL (by decide) _ l2 (by decide) (e2 ▸ hok) _ p2 (by
    intro x hx
    simp only [List.nil_append, List.mem_append] at hx
    rcases hx with hx | hx
    · rw [ty AN_FILE_LABEL (by decide) x hx]; decide
    · rw [ty AN_FILE_DESC (by decide) x hx]; decide)
  rw [e2] at p3 e3
  obtain ⟨p4, l4, e4⟩ := load_next _ AN_DATA_DESC (by decide) _ l3 (by decide) (e3 ▸ hok) _ p3 (by
    intro x hx
    simp only [List.nil_append, List.mem_append] at hx
    rcases hx with (hx | hx) | hx
    · rw [ty AN_FILE_LABEL (by decide) x hx]; decide
    · rw [ty AN_FILE_DESC (by decide) x hx]; decide
    · rw [ty AN_DATA_LABEL (by decide) x hx]; decide)
  rw [e3] at p4
  have cnt : ∀ t', countType (loadType (loadType (loadType (loadType { s with tree := [], loaded := [] }
      AN_FILE_LABEL) AN_FILE_DESC) AN_DATA_LABEL) AN_DATA_DESC) t' =
      ((if AN_FILE_LABEL = t' then fileEntries s.elems AN_FILE_LABEL else []) ++
       (if AN_FILE_DESC = t' then fileEntries s.elems AN_FILE_DESC else []) ++
       (if AN_DATA_LABEL = t' then fileEntries s.elems AN_DATA_LABEL else []) ++
       (if AN_DATA_DESC = t' then fileEntries s.elems AN_DATA_DESC else [])).length := by
    intro t'
    have := (p4.filter (fun p => AN_KEY2TYPE p.1 == t')).length_eq
    simp only [List.nil_append, List.filter_append] at this
    rw [filter_type_fileEntries _ hok _ t' (by decide), filter_type_fileEntries _ hok _ t' (by decide),
        filter_type_fileEntries _ hok _ t' (by decide), filter_type_fileEntries _ hok _ t' (by decide)] at this
    exact this
  show Out.nats _ = _
  simp only [step]
  rw [cnt, cnt, cnt, cnt]
  have c : AN_DATA_LABEL = 0 ∧ AN_DATA_DESC = 1 ∧ AN_FILE_LABEL = 2 ∧ AN_FILE_DESC = 3 := by decide
  simp [c.1, c.2.1, c.2.2.1, c.2.2.2]

/-- the hypotheses are satisfiable and the statement bites: a session that saw two file descriptions and one file label;
    `ANend`; a file description and a file label added through the open file id (`DFANaddfds`, `DFANaddfid`), an object
    label through `Hputelement`; the next session on the open file counts and lists all of them -/
example :
    let file : AnState := { elems := [((101, 1), [65]), ((100, 1), [66]), ((101, 2), [67])] }
    let s1 := (step (step file .start).1 .fileinfo).1
    let s2 := (step (step (step (step s1 .endan).1 (.dfaddf 3 3 [68])).1 (.dfaddf 2 2 [69])).1 (.hput 104 1 [2, 208, 0, 1, 70])).1
    let s3 := (step s2 .restart).1
    (step s1 .fileinfo).2 = .nats [1, 2, 0, 0] ∧ (step s3 .fileinfo).2 = .nats [2, 3, 1, 0] ∧
    (step s3 (.select 3 0)).2 = .int 3 ∧ (step s3 (.annlist 0 720 1)).2 = .nats [1] ∧
    fileEntries s2.elems 3 = [(AN_CREATE_KEY 3 1, ⟨1, 101, 1⟩), (AN_CREATE_KEY 3 2, ⟨2, 101, 2⟩), (AN_CREATE_KEY 3 3, ⟨3, 101, 3⟩)] := by
  decide

example : FileOk [((101, 1), [65]), ((100, 1), [66]), ((101, 2), [67])] := by
  refine ⟨by decide, ?_⟩
  intro p hp
  simp only [List.mem_cons, List.not_mem_nil, or_false] at hp
  rcases hp with rfl | rfl | rfl <;> decide

/-! ## enumerations whatever the reference numbers are

A file written once through `ANcreatef`/`DFANaddfid` has file labels with refs 1, 2, 3, … in DD order.  Nothing makes that
last: `Hdeldd` (the only deletion HDF4 offers) leaves gaps and free DDs, `Htagnewref` hands a deleted ref out again, the
new element takes the first free DD — in front of older ones — and any writer may choose its refs (`Hnewref`, explicit
refs).  The statements below are about EVERY DD list: no assumption on which refs are present or in which order. -/

/-- **`Hdeldd` deletes exactly one annotation**: the tag/ref is gone, every other element is what and where it was (the
    elements of every tag keep their DD order), the DD list stays well formed, no tree is touched. -/
theorem hdel_deletes_exactly (s : AnState) (tag ref : Nat) (hok : FileOk s.elems) (hn : tag ≠ DFTAG_NULL)
    (hex : (elemLook (tag, ref) s.elems).isSome) :
    let s' := (step s (.hdel tag ref)).1
    (step s (.hdel tag ref)).2 = .ok ∧ FileOk s'.elems ∧ s'.tree = s.tree ∧
    elemLook (tag, ref) s'.elems = none ∧
    (∀ k, k.1 ≠ DFTAG_NULL → k ≠ (tag, ref) → elemLook k s'.elems = elemLook k s.elems) ∧
    ∀ T, T ≠ DFTAG_NULL →
      s'.elems.filter (fun p => p.1.1 == T) = (s.elems.filter (fun p => p.1.1 == T)).filter (fun p => p.1 != (tag, ref)) := by
  have hnone : ¬ (elemLook (tag, ref) s.elems).isNone := by
    cases h : elemLook (tag, ref) s.elems with
    | none => simp [h] at hex
    | some b => simp
  have hs : step s (.hdel tag ref) = ({ s with elems := elemDel (tag, ref) s.elems }, .ok) := by
    simp only [step]; rw [if_neg (by simp only [hn, false_or]; exact hnone)]
  simp only
  rw [hs]
  refine ⟨rfl, fileOk_elemDel _ hok, rfl, ?_, ?_, ?_⟩
  · simpa using elemLook_elemDel (tag, ref) (tag, ref) s.elems hok.1 hn hn
  · intro k hk hne
    simpa [hne] using elemLook_elemDel (tag, ref) k s.elems hok.1 hn hk
  · intro T hT
    exact filter_elemDel (tag, ref) s.elems hok.1 hn T hT

/-- **the `DFANgetfidlen`/`DFANgetfid` walk (file labels) and the `DFANgetfdslen`/`DFANgetfds` walk (file descriptions)
    list exactly the file annotations that exist** — each once, in DD order, with its length and its text (clipped to
    `maxlen - 1`), and then the walk ENDS (the result has as many entries as the file has annotations of the type, however
    long the loop is allowed to run) — for EVERY well-formed DD list: any refs (65535 included), gaps, any order, any other
    elements and free DDs in between, and whatever `Next_label_ref`/`Next_desc_ref`/`Label_walk_done`/`Desc_walk_done`
    held before (`s` is arbitrary; `hpos`: 0 is not a reference number, `HTPcreate` refuses it).
    History: before /repo 358eba8 the end of the walk was encoded in `Next_???_ref` itself (ref of the last annotation in
    DD order + 1, mod 2¹⁶) and this theorem needed the hypothesis that this marker is neither 0 nor the ref of an
    annotation of the type; without it the walk went round for ever (finding `dfan-walk-endless`; the two files of
    `dfan_walk_ends_*` below were the counter-examples `dfan_walk_endless_live_ref` / `dfan_walk_endless_wildcard`). -/
theorem dfan_walk_lists_the_file (s : AnState) (t T : Nat) (ht : t = AN_FILE_LABEL ∨ t = AN_FILE_DESC)
    (hT : tagOfType t = some T) (hok : FileOk s.elems) (hpos : ∀ p ∈ s.elems, p.1.1 = T → p.1.2 ≠ 0)
    (maxlen fuel : Nat) (hf : (s.elems.filter (fun p => p.1.1 == T)).length < fuel) :
    dfWalk t maxlen fuel s 1 = (s.elems.filter (fun p => p.1.1 == T)).map (walkItem maxlen) := by
  have hd : isDataType t = false := by rcases ht with rfl | rfl <;> decide
  have h := dfWalk_from t T maxlen hT hd s.elems hok.1 hpos _ 0 s 1 fuel rfl (by simp) hf (fun _ => rfl)
    (fun h => absurd rfl h)
  simpa using h

/-- with a buffer larger than the text the walk reports the whole text -/
theorem walkItem_full (maxlen : Nat) (p : (Nat × Nat) × Bytes) (h : p.2.length < maxlen) :
    walkItem maxlen p = ((p.2.length : Int), .bytes p.2) := by
  have : min (min p.2.length maxlen) (maxlen - 1) = p.2.length := by omega
  simp [walkItem, clipF, this]

/-- the hypotheses are satisfiable and the statement bites: file labels with refs 5, 9, 7 in DD order (sparse, not
    ascending), a free DD and other elements in between, stale walk state (marked done by a walk of another file); the
    walk lists the three and ends.  After `Hdeldd` of the middle one it lists the two that are left, the next `AN`
    session counts two, and a new label (ref 6) takes the free DD in front of label 7. -/
example :
    let s : AnState := { elems := [((30, 1), [1]), ((100, 5), [65]), ((1, 0), []), ((100, 9), [66, 67]), ((101, 2), [70]), ((100, 7), [68])],
                         nextLab := 9, nextDesc := 3, labDone := true }
    let s' := (step s (.hdel 100 9)).1
    dfWalk 2 64 10 s 1 = [(1, .bytes [65]), (2, .bytes [66, 67]), (1, .bytes [68])] ∧
    dfWalk 2 64 10 s' 1 = [(1, .bytes [65]), (1, .bytes [68])] ∧
    (step (step s' .start).1 .fileinfo).2 = .nats [2, 1, 0, 0] ∧
    (step s' (.hput 100 6 [71])).1.elems.map (·.1) = [(30, 1), (100, 5), (100, 6), (1, 0), (101, 2), (100, 7)] := by
  decide

example :
    let E : List ((Nat × Nat) × Bytes) := [((30, 1), [1]), ((100, 5), [65]), ((1, 0), []), ((100, 9), [66, 67]), ((101, 2), [70]), ((100, 7), [68])]
    FileOk E ∧ (∀ p ∈ E, p.1.1 = 100 → p.1.2 ≠ 0) := ⟨⟨by decide, by decide⟩, by decide⟩

/-- **refs out of DD order**: two file labels whose DD order is ref 2, ref 1 — what `DFANaddfid` ×2, `Hdeldd` of the
    first, another object taking the free DD, `DFANaddfid` produce.  The walk reports the two and ends (before /repo
    358eba8 the marker after ref 1 was 2, a live ref, and the loop reported the two labels again and again). -/
theorem dfan_walk_ends_refs_out_of_order :
    let s : AnState := { elems := [((30, 1), [1]), ((1000, 1), [120]), ((100, 2), [66]), ((100, 1), [67])] }
    dfWalk 2 64 7 s 1 = [(1, .bytes [66]), (1, .bytes [67])] := by
  decide

/-- **last ref 65535**: the walk ends (before /repo 358eba8 the marker wrapped to 0 = `DFREF_WILDCARD` and the walk
    started again) -/
theorem dfan_walk_ends_ref_65535 :
    let s : AnState := { elems := [((101, 7), [65]), ((101, 65535), [66])] }
    dfWalk 3 64 5 s 1 = [(1, .bytes [65]), (1, .bytes [66])] := by
  decide

/-- **`DFANlablist` with room for the terminating NUL only** lists the refs and empty labels: no text byte is read
    (before /repo 380b3fd the whole label was written into the caller's buffer — finding `dfan-lablist-overrun`) -/
theorem lablist_maxlen1_reads_nothing :
    let s : AnState := { elems := [((1000, 1), [111]), ((1000, 2), [111]), ((104, 1), [3, 232, 0, 1, 65, 66, 67]), ((104, 2), [3, 232, 0, 2, 68])] }
    (step s (.dflablist 1000 2 1 1)).2 = .lablist [1, 2] [[], []] ∧
    (step s (.dflablist 1000 2 3 1)).2 = .lablist [1, 2] [[65, 66], [68]] := by
  decide

end H4.Props.C11
