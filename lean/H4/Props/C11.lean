import H4.Lemmas.Annot
/-! # C11 — annotations: keys, payload codec, per-object lists, rewrite, read buffers

Model: `H4.Annot` (`mfan.c`, `dfan.c`); the key macros are the generated translations in `H4.Gen.Macros`. -/
namespace H4.Props.C11
open H4.Annot H4.Gen.Hdf H4.Gen.Mfan H4.Gen.Macros

theorem consts : AN_DATA_LABEL = 0 ∧ AN_DATA_DESC = 1 ∧ AN_FILE_LABEL = 2 ∧ AN_FILE_DESC = 3 ∧
    TAG_DATA_LABEL = DFTAG_DIL ∧ TAG_DATA_DESC = DFTAG_DIA ∧ TAG_FILE_LABEL = DFTAG_FID ∧ TAG_FILE_DESC = DFTAG_FD ∧
    DFTAG_DIL = 104 ∧ DFTAG_DIA = 105 ∧ DFTAG_FID = 100 ∧ DFTAG_FD = 101 := H4.Annot.consts

/-! ## keys -/

/-- `AN_KEY2TYPE (AN_CREATE_KEY t r) = t` for the four annotation types and every 16-bit ref
    (structural proof on `Nat` bit operations; it holds for every `t < 65536`) -/
theorem an_key2type_create (t r : Nat) (ht : t < 4) (hr : r < 65536) : AN_KEY2TYPE (AN_CREATE_KEY t r) = t :=
  key2type_create t r (by omega) hr

theorem an_key2ref_create (t r : Nat) (ht : t < 4) (hr : r < 65536) : AN_KEY2REF (AN_CREATE_KEY t r) = r :=
  key2ref_create t r (by omega) hr

/-- the key is injective on (type, ref) -/
theorem an_key_injective (t r t' r' : Nat) (ht : t < 4) (hr : r < 65536) (ht' : t' < 4) (hr' : r' < 65536)
    (h : AN_CREATE_KEY t r = AN_CREATE_KEY t' r') : t = t' ∧ r = r' :=
  key_injective t r t' r' (by omega) hr (by omega) hr' h

example : AN_CREATE_KEY 3 65535 = 262143 ∧ AN_KEY2TYPE 262143 = 3 ∧ AN_KEY2REF 262143 = 65535 := by decide

/-- `ANtag2atype (ANatype2tag t) = t`: an annotation id resolves to the same (tag, ref) it was found by -/
theorem ann_type_tag_roundtrip (t : Nat) (h : t < 4) : (tagOfType t).bind typeOfTag = some t := type_tag_roundtrip t h

/-! ## payload -/

/-- object labels/descriptions: 4-byte big-endian target prefix + text; file labels/descriptions: the text alone.
    Any bytes (embedded NULs included), any length. -/
theorem ann_payload_roundtrip (t : Nat) (self target : Nat × Nat) (text : Bytes) (h1 : target.1 < 65536) (h2 : target.2 < 65536) :
    decodeAnn t self (encodeAnn t target text) = some (if isDataType t then target else self, text) :=
  decode_encode t self target text h1 h2

example : encodeAnn AN_DATA_DESC (720, 3) [65, 0, 66] = [2, 208, 0, 3, 65, 0, 66] ∧
    decodeAnn AN_DATA_DESC (105, 1) [2, 208, 0, 3, 65, 0, 66] = some ((720, 3), [65, 0, 66]) ∧
    encodeAnn AN_FILE_LABEL (100, 1) [65, 66] = [65, 66] := by decide

/-! ## the per-type trees and ANannlist -/

/-- every operation keeps the tree walk order strictly descending by key (no key twice) -/
theorem tree_sorted_step (s : AnState) (op : Op) (h : TreeSorted s.tree) : TreeSorted (step s op).1.tree := by
  cases op with
  | start => simp [step, TreeSorted]
  | fileinfo =>
    simp only [step]
    exact loadType_sorted _ _ (loadType_sorted _ _ (loadType_sorted _ _ (loadType_sorted _ _ h)))
  | create t etag eref annref =>
    simp only [step]
    repeat' split
    all_goals first
      | exact h
      | exact loadType_sorted _ _ h
      | exact treeIns_sorted (loadType_sorted _ _ h) (by assumption)
  | writeann t annref text => simp only [step]; split; exact h; split <;> exact h
  | readann t annref maxlen => simp only [step]; split; exact h; split <;> exact h
  | annlen t annref => simp only [step]; split; exact h; split <;> exact h
  | numann t etag eref => simp only [step]; split; exact h; exact loadType_sorted _ _ h
  | annlist t etag eref => simp only [step]; split; exact h; exact loadType_sorted _ _ h
  | select t index => simp only [step]; split <;> exact loadType_sorted _ _ h
  | gettagref t index => simp only [step]; split <;> exact loadType_sorted _ _ h
  | tagref2id tag ref =>
    simp only [step]; split
    · exact h
    · split <;> exact loadType_sorted _ _ h
  | rawelem tag ref => simp only [step]; split <;> exact h
  | dfput t etag eref annref text => simp only [step]; split; exact h; split <;> exact h
  | dfget t etag eref maxlen => simp only [step]; split; exact h; split; exact h; split <;> exact h
  | dfgetlen t etag eref => simp only [step]; split; exact h; split; exact h; split <;> exact h
  | dfaddf t annref text => simp only [step]; split <;> exact h
  | dfgetf t i maxlen => simp only [step]; split; exact h; split <;> exact h

/-- the entries `ANannlist`/`ANnumann` select from a tree -/
def annlistOf (tr : List (Nat × Entry)) (t etag eref : Nat) : List (Nat × Entry) :=
  (ofType t tr).filter (fun p => p.2.elmtag == etag && p.2.elmref == eref)

/-- **`ANannlist`**: the list is exactly the annotations of the given type in the tree whose target is (tag, ref);
    each once; in the tree's walk order, which is DESCENDING key — i.e. descending annotation ref, newest first when
    refs are handed out in increasing order (`ANIanncmp` inverts the comparison) — not creation order. -/
theorem annlist_filter (tr : List (Nat × Entry)) (h : TreeSorted tr) (t etag eref : Nat) :
    (∀ p, p ∈ annlistOf tr t etag eref ↔ p ∈ tr ∧ AN_KEY2TYPE p.1 = t ∧ p.2.elmtag = etag ∧ p.2.elmref = eref) ∧
    ((annlistOf tr t etag eref).map (·.1)).Pairwise (· > ·) := by
  constructor
  · intro p
    simp only [annlistOf, ofType, List.mem_filter, beq_iff_eq, Bool.and_eq_true]
    constructor
    · rintro ⟨⟨a, b⟩, c, d⟩; exact ⟨a, b, c, d⟩
    · rintro ⟨a, b, c, d⟩; exact ⟨⟨a, b⟩, c, d⟩
  · have s1 : (annlistOf tr t etag eref).Sublist tr :=
      List.Sublist.trans List.filter_sublist List.filter_sublist
    exact List.Pairwise.sublist (List.Sublist.map _ s1) h

/-- what the model's `annlist` operation answers is `annlistOf` of the (loaded) tree -/
theorem annlist_step (s : AnState) (t etag eref : Nat) (hd : isDataType t = true) :
    (step s (.annlist t etag eref)).2 = .nats ((annlistOf (loadType s t).tree t etag eref).map (·.2.annref)) := by
  simp [step, hd, annlistOf]

example : (step { tree := [(AN_CREATE_KEY 0 3, ⟨3, 720, 1⟩), (AN_CREATE_KEY 0 2, ⟨2, 720, 2⟩), (AN_CREATE_KEY 0 1, ⟨1, 720, 1⟩)],
                  loaded := [0] } (.annlist 0 720 1)).2 = .nats [3, 1] := by decide

/-! ## rewrite -/

/-- **rewriting an annotation keeps its identity**: `ANwriteann` on an existing annotation (any new length) leaves the
    trees (hence type, ref, id, target) unchanged, leaves every other element untouched, and the new text is what
    `ANreadann` (with a large enough buffer) and `ANannlen` report. -/
theorem rewrite_keeps_identity (s : AnState) (t annref tag : Nat) (e : Entry) (text : Bytes)
    (ht : tagOfType t = some tag) (hf : treeFind (AN_CREATE_KEY t annref) s.tree = some e)
    (h1 : e.elmtag < 65536) (h2 : e.elmref < 65536) (hne : text ≠ []) :
    let s' := (step s (.writeann t annref text)).1
    s'.tree = s.tree ∧ s'.loaded = s.loaded ∧
    (∀ k, k ≠ (tag, annref) → elemLook k s'.elems = elemLook k s.elems) ∧
    (elemLook (tag, annref) s'.elems).bind (decodeAnn t (tag, annref)) =
      some (if isDataType t then (e.elmtag, e.elmref) else (tag, annref), text) ∧
    (step s' (.annlen t annref)).2 = .int text.length ∧
    ∀ maxlen, text.length < maxlen → (step s' (.readann t annref maxlen)).2 = .read text (text.length + if isLabelType t then 1 else 0) := by
  have hs : (step s (.writeann t annref text)).1 =
      { s with elems := elemPut (tag, annref) (encodeAnn t (e.elmtag, e.elmref) text) s.elems } := by
    simp [step, ht, hf, hne]
  simp only
  rw [hs]
  refine ⟨rfl, rfl, ?_, ?_, ?_, ?_⟩
  · intro k hk
    simp only [elemLook_elemPut, hk, if_false]
  · simp only [elemLook_elemPut, if_true, Option.bind_some]
    exact decode_encode t (tag, annref) (e.elmtag, e.elmref) text h1 h2
  · simp only [step, ht, elemLook_elemPut, if_true, encodeAnn]
    by_cases hd : isDataType t = true
    · simp [hd, u16]; omega
    · simp [hd]
  · intro maxlen hm
    · have he := hne
      have hpos : 0 < text.length := List.length_pos_iff.mpr he
      simp only [step, ht, elemLook_elemPut, if_true, encodeAnn, readSpan]
      by_cases hd : isDataType t = true
      · by_cases hl : isLabelType t = true
        · have m1 : min text.length (maxlen - 1) = text.length := by omega
          have : ¬ text.length = 0 := by omega
          simp [hd, hl, u16, m1, this]
        · have m1 : min text.length maxlen = text.length := by omega
          have : ¬ text.length = 0 := by omega
          simp [hd, hl, u16, m1, this]
      · by_cases hl : isLabelType t = true
        · have m1 : min text.length (maxlen - 1) = text.length := by omega
          have : ¬ text.length = 0 := by omega
          simp [hd, hl, m1, this]
        · have m1 : min text.length maxlen = text.length := by omega
          have : ¬ text.length = 0 := by omega
          simp [hd, hl, m1, this]

/-! ## read buffers -/

/-- **reads stay inside the caller's buffer — full strength**: for EVERY text length and EVERY `maxlen` (labels need
    room for their terminating NUL, `maxlen ≥ 1`; descriptions any `maxlen ≥ 0`) `ANreadann`/`DFANgetlabel`/`DFANgetdesc`
    write at most `maxlen` bytes, and return the first `min len (maxlen − 1)` resp. `min len maxlen` bytes of the text.
    History: before /repo d625c61 a label read with `maxlen = 1` (description: 0) passed the clipped length 0 to `Hread`
    (= "to the end") and the whole text was written into the buffer; this file then carried
    `readann_maxlen1_overruns` and the bounded `readann_within_buffer_partial`. -/
theorem readann_within_buffer (t len maxlen : Nat) (h : isLabelType t = true → 1 ≤ maxlen) :
    (readSpan t len maxlen).2 ≤ maxlen ∧
    (readSpan t len maxlen).1 = (if isLabelType t then min len (maxlen - 1) else min len maxlen) := by
  unfold readSpan
  by_cases hl : isLabelType t = true
  · have := h hl
    simp [hl]; omega
  · simp [hl]; omega

example : readSpan AN_DATA_LABEL 22 1 = (0, 1) ∧ readSpan AN_DATA_DESC 22 0 = (0, 0) ∧ readSpan AN_FILE_LABEL 5 100 = (5, 6) := by decide

/-! ## creation never hides what is already in the file -/

/-- **`ANcreate`/`ANcreatef` never hide existing annotations**: in whatever state of the session the call is made
    (in particular as the very first annotation call, with no tree loaded), the type's tree afterwards contains every
    entry that loading the type from the file yields, plus — on success — the new one; and the type counts as loaded.
    History: before /repo d4a30b4 `ANIaddentry` created the tree EMPTY when it was not loaded yet, so all existing
    annotations of the type were invisible until `ANend` (`create_first_hides_existing`, finding `an-create-hides`). -/
theorem create_keeps_existing (s : AnState) (t etag eref annref : Nat) :
    let s' := (step s (.create t etag eref annref)).1
    (∀ p ∈ (loadType s t).tree, p ∈ s'.tree) ∨ (step s (.create t etag eref annref)).2 = .fail ∧ s'.tree = s.tree := by
  simp only [step]
  repeat' split
  all_goals first
    | (right; exact ⟨rfl, rfl⟩)
    | (left; intro p hp; exact hp)
    | (left; intro p hp; exact (treeIns_subset (by assumption)).1 p hp)

/-- the former counter-example, now positive: a file with two object labels; `ANcreate` + `ANwriteann` of a third as the
    first calls of the session; `ANfileinfo` reports three, and `ANannlist` lists all of them -/
theorem create_first_sees_existing :
    let file : AnState := { elems := [((104, 1), [3, 232, 0, 5, 65]), ((104, 2), [3, 232, 0, 5, 66])] }
    let s := (step (step file (.create 0 1000 5 3)).1 (.writeann 0 3 [67])).1
    (step s .fileinfo).2 = .nats [0, 0, 3, 0] ∧ (step s (.annlist 0 1000 5)).2 = .nats [3, 2, 1] := by
  decide

/-! ## the former finding `an-write-empty`, repaired by /repo 3d2a8cf -/

/-- `ANwriteann` with an empty text fails and changes nothing: no element (not even the 4-byte target prefix) appears -/
theorem write_empty_refused (s : AnState) (t annref : Nat) : step s (.writeann t annref []) = (s, .fail) := by
  simp [step]

example :
    let s := (step (step {} .fileinfo).1 (.create 0 1000 5 1)).1
    (step s (.writeann 0 1 [])).2 = .fail ∧ (step (step s (.writeann 0 1 [])).1 (.rawelem 104 1)).2 = .fail := by
  decide

end H4.Props.C11
