import H4.Lemmas.C06Fn
import H4.Props.C06
/-! # C06, function level — the conversion kernels, as TRANSLATED from the C text, compute the model `H4.Conv.convert`

`H4.Gen.Fn.Dfkswap` / `H4.Gen.Fn.Dfknat` are regenerated from `hdf/src/dfkswap.c` / `hdf/src/dfknat.c` of /repo's current tree on every run
(`gen/c2lean.py`, statement by statement).  There `s`/`d` are ADDRESSES into one flat byte memory, so `source == dest`, in-place and
overlapping calls are represented faithfully; `buf[]` is the local scratch array; `num_elm` is a `uint32` (`i++` wraps at 2^32).

For EVERY memory, element count `0 < num < 2^32`, offsets and strides such that every accessed cell lies inside the memory
(`Accessed` = the model's `InBounds` at the effective strides), each routine, run with fuel `≥ num`, has no undefined behaviour,
does not run out of fuel, returns 0 and leaves exactly the memory `convert esz swap num so ss dO ds` computes — so
`H4.Props.C06.convert_elementwise`, `convert_frame`, `inplace_eq_outofplace`, `fast_path_eq_strided`, … are statements about the C text.
All four paths of every routine are covered (fast/strided × out-of-place/in-place); `num = 0` returns -1 (`FAIL`) with the memory untouched.

Side conditions (exactly where the C needs them; in-place calls `so = dO` need none):
* out-of-place loops assign byte by byte WITHOUT the temporary `buf[]`: the source and the destination element of the SAME iteration must
  not overlap (`StepDisj`).  Without it the C text and the model really differ (`sb4b_overlap_differs` below): the model reads the whole
  element before it writes, the C loop does not.
* `DFKnb*b` fast path out of place is one `memcpy(dest, source, num_elm * esz)`: the regions must not overlap (C11 7.24.2.1) — the
  translated routine reports `ub = true` EXACTLY when they do (`…_fast_ub_iff`) — and the byte count is computed in `uint32`
  arithmetic, so `num * esz < 2^32` is needed for the count not to wrap (`DFKnb4b_count_wraps`). -/
namespace H4.Props.C06Fn
open H4 H4.Conv H4.Lemmas.C06Fn H4.Gen.Fn.Dfkswap H4.Gen.Fn.Dfknat

/-- every cell the call touches lies inside the memory: the model's `InBounds` at the strides the call really uses (`0/0` = contiguous) -/
def Accessed (esz num so ss dO ds len : Nat) : Prop := InBounds esz num so (effS esz ss ds) dO (effD esz ss ds) len
instance (esz num so ss dO ds len : Nat) : Decidable (Accessed esz num so ss dO ds len) := by unfold Accessed; infer_instance

/-- out-of-place calls: same-iteration source and destination elements are disjoint (trivially true for disjoint buffers) -/
def OutOfPlaceOK (esz num so ss dO ds : Nat) : Prop := so ≠ dO → StepDisj esz num so (effS esz ss ds) dO (effD esz ss ds)
instance (esz num so ss dO ds : Nat) : Decidable (OutOfPlaceOK esz num so ss dO ds) := by unfold OutOfPlaceOK; infer_instance

/-- `DFKnb*b` out of place: strided → as `OutOfPlaceOK`; fast path → the two `num*esz`-byte regions are disjoint and the `uint32`
    byte count does not wrap -/
def NbOutOfPlaceOK (esz num so ss dO ds : Nat) : Prop :=
  so ≠ dO → if fastNb esz ss ds then Disj so (num * esz) dO (num * esz) ∧ num * esz < 4294967296 else StepDisj esz num so ss dO ds
instance (esz num so ss dO ds : Nat) : Decidable (NbOutOfPlaceOK esz num so ss dO ds) := by unfold NbOutOfPlaceOK; infer_instance

/-- the model's `convert` at the effective strides -/
theorem convert_eff (esz : Nat) (swap : Bool) (num so ss dO ds : Nat) (m : List Byte) (hn0 : num ≠ 0) :
    convert esz swap num so ss dO ds m = some (conv esz swap num so (effS esz ss ds) dO (effD esz ss ds) m) := by
  unfold convert effS effD
  by_cases h : ss = 0 ∧ ds = 0 <;> simp [hn0, h]

theorem of_good {c : Core} {esz : Nat} {swap : Bool} {num so ss dO ds : Nat} {m : List Byte} (hn0 : num ≠ 0)
    (h : Good c (bytes (conv esz swap num so (effS esz ss ds) dO (effD esz ss ds) m))) :
    c.ub = false ∧ c.oof = false ∧ c.ret = 0 ∧ some c.mem = (convert esz swap num so ss dO ds m).map bytes := by
  obtain ⟨h1, h2, h3, h4⟩ := h
  rw [convert_eff _ _ _ _ _ _ _ _ hn0]
  exact ⟨h1, h2, h3, by rw [h4]; rfl⟩

/-! ## byte-swapping routines (`dfkswap.c`) -/

/-- **`DFKsb2b` refines `convert 2 true`** on all four paths -/
theorem DFKsb2b_refines (fuel num so ss dO ds : Nat) (m : List Byte) (hf : num ≤ fuel) (hn0 : num ≠ 0) (hn : num < 4294967296)
    (hb : Accessed 2 num so ss dO ds m.length) (hd : OutOfPlaceOK 2 num so ss dO ds) :
    let r := DFKsb2b fuel so (bytes m) dO num ss ds
    r.ub = false ∧ r.oof = false ∧ r.ret = 0 ∧ some r.mem = (convert 2 true num so ss dO ds m).map bytes :=
  of_good hn0 (DFKsb2b_run fuel num so ss dO ds m hf hn0 hn hb hd)
/-- in place, stride 3 (through `buf[]`) -/
example : Accessed 2 3 1 3 1 3 12 ∧ OutOfPlaceOK 2 3 1 3 1 3 ∧
    (DFKsb2b 3 1 (bytes [0, 1, 2, 9, 3, 4, 9, 5, 6, 9, 9, 9]) 1 3 3 3).mem = bytes [0, 2, 1, 9, 4, 3, 9, 6, 5, 9, 9, 9] := by decide

/-- **`DFKsb4b` refines `convert 4 true`** -/
theorem DFKsb4b_refines (fuel num so ss dO ds : Nat) (m : List Byte) (hf : num ≤ fuel) (hn0 : num ≠ 0) (hn : num < 4294967296)
    (hb : Accessed 4 num so ss dO ds m.length) (hd : OutOfPlaceOK 4 num so ss dO ds) :
    let r := DFKsb4b fuel so (bytes m) dO num ss ds
    r.ub = false ∧ r.oof = false ∧ r.ret = 0 ∧ some r.mem = (convert 4 true num so ss dO ds m).map bytes :=
  of_good hn0 (DFKsb4b_run fuel num so ss dO ds m hf hn0 hn hb hd)
/-- out of place, fast path (strides 0/0) -/
example : Accessed 4 2 0 0 8 0 16 ∧ OutOfPlaceOK 4 2 0 0 8 0 ∧
    (DFKsb4b 2 0 (bytes [1, 2, 3, 4, 5, 6, 7, 8, 0, 0, 0, 0, 0, 0, 0, 0]) 8 2 0 0).mem
      = bytes [1, 2, 3, 4, 5, 6, 7, 8, 4, 3, 2, 1, 8, 7, 6, 5] := by decide

/-- **`DFKsb8b` refines `convert 8 true`** -/
theorem DFKsb8b_refines (fuel num so ss dO ds : Nat) (m : List Byte) (hf : num ≤ fuel) (hn0 : num ≠ 0) (hn : num < 4294967296)
    (hb : Accessed 8 num so ss dO ds m.length) (hd : OutOfPlaceOK 8 num so ss dO ds) :
    let r := DFKsb8b fuel so (bytes m) dO num ss ds
    r.ub = false ∧ r.oof = false ∧ r.ret = 0 ∧ some r.mem = (convert 8 true num so ss dO ds m).map bytes :=
  of_good hn0 (DFKsb8b_run fuel num so ss dO ds m hf hn0 hn hb hd)
/-- in place, fast path; and out of place with different strides -/
example : Accessed 8 1 1 0 1 0 10 ∧ OutOfPlaceOK 8 1 1 0 1 0 ∧
    (DFKsb8b 1 1 (bytes [9, 1, 2, 3, 4, 5, 6, 7, 8, 9]) 1 1 0 0).mem = bytes [9, 8, 7, 6, 5, 4, 3, 2, 1, 9] := by decide
example : Accessed 8 2 0 8 16 9 33 ∧ OutOfPlaceOK 8 2 0 8 16 9 := by decide

/-! ## native-order routines (`dfknat.c`) -/

theorem nb_split {esz num so ss dO ds : Nat} (h : NbOutOfPlaceOK esz num so ss dO ds) :
    (so ≠ dO → ¬ fastNb esz ss ds → StepDisj esz num so ss dO ds) ∧
    (so ≠ dO → fastNb esz ss ds → Disj so (num * esz) dO (num * esz) ∧ num * esz < 4294967296) := by
  unfold NbOutOfPlaceOK at h
  constructor
  · intro h1 h2; have := h h1; rwa [if_neg h2] at this
  · intro h1 h2; have := h h1; rwa [if_pos h2] at this

/-- **`DFKnb1b` refines `convert 1 false`**: `memcpy` path, nothing-to-do path (`so = dO`, strides 0/0 or 1/1) and the byte loop
    (which needs no disjointness at all: single bytes).  `num_elm` is passed to `memcpy` unscaled, so no wrap condition. -/
theorem DFKnb1b_refines (fuel num so ss dO ds : Nat) (m : List Byte) (hf : num ≤ fuel) (hn0 : num ≠ 0) (hn : num < 4294967296)
    (hb : Accessed 1 num so ss dO ds m.length) (hd : so ≠ dO → fastNb 1 ss ds → Disj so num dO num) :
    let r := DFKnb1b fuel so (bytes m) dO num ss ds
    r.ub = false ∧ r.oof = false ∧ r.ret = 0 ∧ some r.mem = (convert 1 false num so ss dO ds m).map bytes :=
  of_good hn0 (DFKnb1b_run fuel num so ss dO ds m hf hn0 hn hb (fun h1 h2 => by simpa using hd h1 h2))
/-- the byte loop (source stride 2, destination stride 1), and the `memcpy` path -/
example : Accessed 1 3 0 2 5 1 8 ∧ (DFKnb1b 3 0 (bytes [1, 0, 2, 0, 3, 7, 7, 7]) 5 3 2 1).mem = bytes [1, 0, 2, 0, 3, 1, 2, 3] := by decide
example : Accessed 1 3 0 0 4 0 8 ∧ fastNb 1 0 0 ∧ Disj 0 3 4 3 ∧
    (DFKnb1b 0 0 (bytes [1, 2, 3, 0, 7, 7, 7, 7]) 4 3 0 0).mem = bytes [1, 2, 3, 0, 1, 2, 3, 7] := by decide

/-- **`DFKnb2b` refines `convert 2 false`** on all four paths -/
theorem DFKnb2b_refines (fuel num so ss dO ds : Nat) (m : List Byte) (hf : num ≤ fuel) (hn0 : num ≠ 0) (hn : num < 4294967296)
    (hb : Accessed 2 num so ss dO ds m.length) (hd : NbOutOfPlaceOK 2 num so ss dO ds) :
    let r := DFKnb2b fuel so (bytes m) dO num ss ds
    r.ub = false ∧ r.oof = false ∧ r.ret = 0 ∧ some r.mem = (convert 2 false num so ss dO ds m).map bytes :=
  of_good hn0 (DFKnb2b_run fuel num so ss dO ds m hf hn0 hn hb (nb_split hd).1 (nb_split hd).2)
/-- `memcpy` fast path selected by strides 2/2 -/
example : Accessed 2 2 0 2 4 2 8 ∧ NbOutOfPlaceOK 2 2 0 2 4 2 ∧
    (DFKnb2b 0 0 (bytes [1, 2, 3, 4, 0, 0, 0, 0]) 4 2 2 2).mem = bytes [1, 2, 3, 4, 1, 2, 3, 4] := by decide

/-- **`DFKnb4b` refines `convert 4 false`** -/
theorem DFKnb4b_refines (fuel num so ss dO ds : Nat) (m : List Byte) (hf : num ≤ fuel) (hn0 : num ≠ 0) (hn : num < 4294967296)
    (hb : Accessed 4 num so ss dO ds m.length) (hd : NbOutOfPlaceOK 4 num so ss dO ds) :
    let r := DFKnb4b fuel so (bytes m) dO num ss ds
    r.ub = false ∧ r.oof = false ∧ r.ret = 0 ∧ some r.mem = (convert 4 false num so ss dO ds m).map bytes :=
  of_good hn0 (DFKnb4b_run fuel num so ss dO ds m hf hn0 hn hb (nb_split hd).1 (nb_split hd).2)
/-- in place with source stride 4, destination stride 5 (through `buf[]`) -/
example : Accessed 4 2 0 4 0 5 9 ∧ NbOutOfPlaceOK 4 2 0 4 0 5 ∧
    (DFKnb4b 2 0 (bytes [1, 2, 3, 4, 5, 6, 7, 8, 9]) 0 2 4 5).mem = bytes [1, 2, 3, 4, 5, 5, 6, 7, 8] := by decide

/-- **`DFKnb8b` refines `convert 8 false`** (its loops are `memcpy(dest, source, 8)` / `memcpy(buf, …)`; `memcpy` non-overlap is `StepDisj`) -/
theorem DFKnb8b_refines (fuel num so ss dO ds : Nat) (m : List Byte) (hf : num ≤ fuel) (hn0 : num ≠ 0) (hn : num < 4294967296)
    (hb : Accessed 8 num so ss dO ds m.length) (hd : NbOutOfPlaceOK 8 num so ss dO ds) :
    let r := DFKnb8b fuel so (bytes m) dO num ss ds
    r.ub = false ∧ r.oof = false ∧ r.ret = 0 ∧ some r.mem = (convert 8 false num so ss dO ds m).map bytes :=
  of_good hn0 (DFKnb8b_run fuel num so ss dO ds m hf hn0 hn hb (nb_split hd).1 (nb_split hd).2)
/-- out of place, strided (`memcpy(dest, source, 8)` per element) -/
example : Accessed 8 1 0 9 9 9 17 ∧ NbOutOfPlaceOK 8 1 0 9 9 9 ∧
    (DFKnb8b 1 0 (bytes [1, 2, 3, 4, 5, 6, 7, 8, 0, 0, 0, 0, 0, 0, 0, 0, 0]) 9 1 9 9).mem
      = bytes [1, 2, 3, 4, 5, 6, 7, 8, 0, 1, 2, 3, 4, 5, 6, 7, 8] := by decide

/-! ## `num_elm = 0` is refused (`return FAIL`), memory untouched — the model's `convert … 0 … = none` (`C06.convert_zero_refused`);
    for ANY memory and ANY pointer/stride values -/

theorem DFKsb2b_zero (fuel : Nat) (so dO ss ds : Int) (M : List Int) :
    let r := DFKsb2b fuel so M dO 0 ss ds
    r.ub = false ∧ r.oof = false ∧ r.ret = -1 ∧ r.mem = M := by simp [DFKsb2b]
theorem DFKsb4b_zero (fuel : Nat) (so dO ss ds : Int) (M : List Int) :
    let r := DFKsb4b fuel so M dO 0 ss ds
    r.ub = false ∧ r.oof = false ∧ r.ret = -1 ∧ r.mem = M := by simp [DFKsb4b]
theorem DFKsb8b_zero (fuel : Nat) (so dO ss ds : Int) (M : List Int) :
    let r := DFKsb8b fuel so M dO 0 ss ds
    r.ub = false ∧ r.oof = false ∧ r.ret = -1 ∧ r.mem = M := by simp [DFKsb8b]
theorem DFKnb1b_zero (fuel : Nat) (so dO ss ds : Int) (M : List Int) :
    let r := DFKnb1b fuel so M dO 0 ss ds
    r.ub = false ∧ r.oof = false ∧ r.ret = -1 ∧ r.mem = M := by simp [DFKnb1b]
theorem DFKnb2b_zero (fuel : Nat) (so dO ss ds : Int) (M : List Int) :
    let r := DFKnb2b fuel so M dO 0 ss ds
    r.ub = false ∧ r.oof = false ∧ r.ret = -1 ∧ r.mem = M := by simp [DFKnb2b]
theorem DFKnb4b_zero (fuel : Nat) (so dO ss ds : Int) (M : List Int) :
    let r := DFKnb4b fuel so M dO 0 ss ds
    r.ub = false ∧ r.oof = false ∧ r.ret = -1 ∧ r.mem = M := by simp [DFKnb4b]
example : (DFKsb2b 5 0 (bytes [1, 2]) 0 0 0 0).ret = -1 ∧ convert 2 true 0 0 0 0 0 [1, 2] = none := by decide
theorem DFKnb8b_zero (fuel : Nat) (so dO ss ds : Int) (M : List Int) :
    let r := DFKnb8b fuel so M dO 0 ss ds
    r.ub = false ∧ r.oof = false ∧ r.ret = -1 ∧ r.mem = M := by simp [DFKnb8b]

/-! ## the `memcpy` fast path of `DFKnb*b`: undefined behaviour EXACTLY when the two regions overlap

The model's `convert` gives such a call a value (its forward element loop: a plain move when `dO < so`, a periodic smear of the first
`dO - so` bytes when `so < dO`); the C text has no defined result, so no memory claim is made — only that the translated routine
flags it, and flags nothing else. -/

theorem DFKnb1b_fast_ub_iff (fuel num so ss dO ds : Nat) (m : List Byte) (hn0 : num ≠ 0) (hne : so ≠ dO) (hfast : fastNb 1 ss ds)
    (hb1 : so + num ≤ m.length) (hb2 : dO + num ≤ m.length) :
    (DFKnb1b fuel so (bytes m) dO num ss ds).ub = true ↔ ¬ Disj so num dO num :=
  DFKnb1b_fast_ub fuel num so ss dO ds m hn0 hne hfast hb1 hb2
theorem DFKnb2b_fast_ub_iff (fuel num so ss dO ds : Nat) (m : List Byte) (hn0 : num ≠ 0) (hne : so ≠ dO) (hfast : fastNb 2 ss ds)
    (hb1 : so + num * 2 ≤ m.length) (hb2 : dO + num * 2 ≤ m.length) (hlt : num * 2 < 4294967296) :
    (DFKnb2b fuel so (bytes m) dO num ss ds).ub = true ↔ ¬ Disj so (num * 2) dO (num * 2) :=
  DFKnb2b_fast_ub fuel num so ss dO ds m hn0 hne hfast hb1 hb2 hlt
theorem DFKnb4b_fast_ub_iff (fuel num so ss dO ds : Nat) (m : List Byte) (hn0 : num ≠ 0) (hne : so ≠ dO) (hfast : fastNb 4 ss ds)
    (hb1 : so + num * 4 ≤ m.length) (hb2 : dO + num * 4 ≤ m.length) (hlt : num * 4 < 4294967296) :
    (DFKnb4b fuel so (bytes m) dO num ss ds).ub = true ↔ ¬ Disj so (num * 4) dO (num * 4) :=
  DFKnb4b_fast_ub fuel num so ss dO ds m hn0 hne hfast hb1 hb2 hlt
theorem DFKnb8b_fast_ub_iff (fuel num so ss dO ds : Nat) (m : List Byte) (hn0 : num ≠ 0) (hne : so ≠ dO) (hfast : fastNb 8 ss ds)
    (hb1 : so + num * 8 ≤ m.length) (hb2 : dO + num * 8 ≤ m.length) (hlt : num * 8 < 4294967296) :
    (DFKnb8b fuel so (bytes m) dO num ss ds).ub = true ↔ ¬ Disj so (num * 8) dO (num * 8) :=
  DFKnb8b_fast_ub fuel num so ss dO ds m hn0 hne hfast hb1 hb2 hlt

example : fastNb 2 0 0 ∧ ¬ Disj 0 6 2 6 ∧ (DFKnb2b 0 0 (bytes [1, 2, 3, 4, 5, 6, 7, 8]) 2 3 0 0).ub = true := by decide

/-! ## the side conditions are necessary -/

/-- out of place with the destination element one byte after the source element (`dO = so + 1`, not a `memcpy`, no UB in C): the C loop
    reads `source[1]` AFTER it has overwritten it through `dest[2]`, the model reads the whole element first.  The callers of
    `DFKconvert` pass either the same or disjoint buffers, for which `OutOfPlaceOK` holds. -/
theorem sb4b_overlap_differs :
    (DFKsb4b 1 0 (bytes [1, 2, 3, 4, 5]) 1 1 0 0).mem = [1, 4, 3, 4, 1] ∧ (DFKsb4b 1 0 (bytes [1, 2, 3, 4, 5]) 1 1 0 0).ub = false ∧
    (convert 4 true 1 0 0 1 0 [1, 2, 3, 4, 5]).map bytes = some [1, 4, 3, 2, 1] ∧ ¬ OutOfPlaceOK 4 1 0 0 1 0 := by decide

/-- the same for the unrolled copy loop of `DFKnb2b` (strided, `dO = so + 1`) -/
theorem nb2b_overlap_differs :
    (DFKnb2b 1 0 (bytes [1, 2, 3]) 1 1 5 5).mem = [1, 1, 1] ∧ (convert 2 false 1 0 5 1 5 [1, 2, 3]).map bytes = some [1, 1, 2] ∧
    ¬ NbOutOfPlaceOK 2 1 0 5 1 5 := by decide

/-- `memcpy(dest, source, num_elm * 4)` is computed in `uint32`: with `num_elm = 2^30` the count wraps to 0, nothing is copied and the
    routine returns success (no UB) — for any memory and any two different in-range addresses.  (Unreachable through the file interface,
    whose element lengths are `int32`; reachable through the public `DFKconvert` on a ≥ 4 GiB buffer.) -/
theorem DFKnb4b_count_wraps (fuel so dO : Nat) (M : List Int) (hne : so ≠ dO) (h1 : so ≤ M.length) (h2 : dO ≤ M.length) :
    let r := DFKnb4b fuel so M dO 1073741824 0 0
    r.ub = false ∧ r.ret = 0 ∧ r.mem = M := by
  have e2 : ¬ ((so : Int) = (dO : Int)) := by omega
  simp [DFKnb4b, DFKnb4b.chk, e2]
  omega

end H4.Props.C06Fn
