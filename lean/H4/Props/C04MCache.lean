import H4.Lemmas.MCache

/-!
# C04 (part: chunk page cache) — `mcache.c` is transparent

"Storage layout and tuning knobs never change the data an application sees … not on cache sizes".
The chunk cache (`mcache_open/get/put/sync/close/set_maxcache`, model `H4.MCache`) refines a plain map `pgno ⇀ page`
for every cache size, every backing store, every failure pattern of the page-in/page-out callbacks and every sequence
of client operations.  All statements are about the executable model `H4.MCache`, which Tie B (`harness/e_mcache.c`)
compares call by call (results, callback sequence, LRU order, hash chains, list-element flags) with the real `mcache.c`.
-/
namespace H4.Props.C04MCache
open H4.MCache H4.Gen.Mcache

/-! ## 1. refinement of a plain map -/

/-- **Refinement.** For ALL `maxcache` (0 = default), `npages`, `flags`, backing stores, callback failure patterns and
ALL operation sequences over `get / modify+put-dirty / put-clean / sync / set_maxcache / close`:
every `get` that returns a page returns the page of the plain map (`Good … (.get pg) (.page d)`: the content last put
dirty, else the backing content the cache was opened over), and after every successful `sync` the backing store holds the
whole map (`Good … .sync .ok`).  The map itself is changed only by accepted put-dirty operations (`specStep`). -/
theorem mcache_refines_map (maxcache npages flags : Nat) (backing : Nat → Nat) (garbage : Nat)
    (inFail outFail : Nat → Bool) (ops : List Op) :
    Refines (mcacheOpen maxcache npages flags backing garbage inFail outFail) (specInit npages flags backing) ops :=
  refines_of_ok ops _ _ (Or.inr (rel_open _ _ _ _ _ _ _))

/-- maxcache = 1, working set of 3 pages: every get misses, dirty pages are written back on eviction, the client still
sees its own writes; after `sync` the store holds them. -/
example :
    (run (mcacheOpen 1 3 0 (fun pg => 10 * pg))
      [.get 1, .putDirty 1 11, .get 2, .putDirty 2 22, .get 3, .putClean 3, .get 1, .putClean 1, .get 2, .putDirty 2 23, .sync]).2
      = [.page 10, .ok, .page 20, .ok, .page 30, .ok, .page 11, .ok, .page 22, .ok, .ok] := by decide

/-- … and the callbacks it made, in order: page-in 0, write-back of chunk 0 (=page 1) before page-in 1, … -/
example :
    (run (mcacheOpen 1 3 0 (fun pg => 10 * pg))
      [.get 1, .putDirty 1 11, .get 2, .putDirty 2 22, .get 3, .putClean 3, .get 1, .putClean 1, .get 2, .putDirty 2 23, .sync]).1.log
      = [.pgin 0 true, .pgout 0 11 true, .pgin 1 true, .pgout 1 22 true, .pgin 2 true, .pgin 0 true, .pgin 1 true,
         .pgout 1 23 true] := by decide

/-- With the callbacks working, a `get` of an existing page never fails and a `sync` never fails. -/
theorem get_succeeds {s : State} (hi : Inv s) (hn : NoFail s) (hc : s.closed = false) {pg : Nat} (h1 : 1 ≤ pg) (h2 : pg ≤ s.npages) :
    ∃ d, (step s (.get pg)).2 = .page d := by
  rw [step_get_eq hc]
  have := mcacheGet_isSome hi hn.1 hn.2 h1 h2
  cases hd : (mcacheGet s pg).2 with
  | none => rw [hd] at this; cases this
  | some d => exact ⟨d, rfl⟩

theorem sync_succeeds {s : State} (hn : NoFail s) (hc : s.closed = false) : (step s .sync).2 = .ok := by
  rw [step_sync_eq hc]
  have : (mcacheSync s).2 = true := syncWalk_ok s.lru s hn.2
  rw [this]; rfl

/-- `sync` then `close` (what `HMCPcloseAID`/`HMCPendaccess` do) leaves the whole map in the backing store: `mcache_close`
itself does not touch the store. -/
theorem sync_close_durable {s : State} {m : Nat → Option Nat} (h : Rel s m) (hc : s.closed = false)
    (hok : (step s .sync).2 = .ok) : ∀ pg v, m pg = some v → (run s [.sync, .close]).1.backing pg = v := by
  intro pg v hv
  have hg := (step_ok (Or.inr h) .sync).2
  rw [hok] at hg
  have hb : (step s .sync).1.backing pg = v := hg pg v hv
  have hc' : (step s .sync).1.closed = false := by
    rw [step_sync_eq hc]; exact ((syncWalk_static s.lru s).2.2.2).trans hc
  show (step (step s .sync).1 .close).1.backing pg = v
  rw [step_close_eq hc']
  exact hb

/-- … whereas `mcache_close` alone does NOT write dirty pages ("Does not sync the buffer pool"): the put is lost. -/
example : (run (mcacheOpen 2 3 0 (fun pg => 10 * pg)) [.get 1, .putDirty 1 11, .close]).1.backing 1 = 10 := by decide
example : (run (mcacheOpen 2 3 0 (fun pg => 10 * pg)) [.get 1, .putDirty 1 11, .sync, .close]).1.backing 1 = 11 := by decide

/-! ## 2. structural invariant -/

/-- **Invariant** in every reachable state (any operation sequence, any configuration, any callback failures). -/
theorem mcache_inv (maxcache npages flags : Nat) (backing : Nat → Nat) (garbage : Nat) (inFail outFail : Nat → Bool)
    (ops : List Op) : Inv (run (mcacheOpen maxcache npages flags backing garbage inFail outFail) ops).1 := by
  obtain ⟨m', h⟩ := run_ok ops _ _ (Or.inr (rel_open maxcache npages flags backing garbage inFail outFail))
  exact h.inv

/-- each cached page number appears exactly once in the LRU list … -/
theorem cached_once_lru {s : State} (h : Inv s) {pg : Nat} (hc : (s.pages pg).isSome = true) : s.lru.count pg = 1 := by
  rw [h.lru_nodup.count, if_pos ((h.lru_iff pg).2 hc)]

/-- … exactly once on the hash chain of its key and on no other chain … -/
theorem cached_once_hash {s : State} (h : Inv s) {pg : Nat} (hc : (s.pages pg).isSome = true) (k : Nat) :
    (s.hqh k).count pg = if hashKey pg = k then 1 else 0 := by
  split
  · rename_i e
    rw [(h.hqh_nodup k).count, if_pos ((h.hqh_iff k pg).2 ⟨hc, e⟩)]
  · rename_i e
    exact List.count_eq_zero.2 fun hin => e ((h.hqh_iff k pg).1 hin).2

/-- … and an uncached page number on neither. -/
theorem uncached_nowhere {s : State} (h : Inv s) {pg : Nat} (hc : s.pages pg = none) (k : Nat) :
    s.lru.count pg = 0 ∧ (s.hqh k).count pg = 0 := by
  constructor
  · exact List.count_eq_zero.2 fun hin => by have := (h.lru_iff pg).1 hin; rw [hc] at this; cases this
  · exact List.count_eq_zero.2 fun hin => by have := ((h.hqh_iff k pg).1 hin).1; rw [hc] at this; cases this

/-- the list-element chains built by `mcache_open` (closed form in the model) are those of the C loop -/
theorem open_list_chains_are_the_c_loop (npages ef : Nat) : lhInit npages ef = lhInitLoop npages ef :=
  lhInit_eq_loop npages ef

/-- pages 1, 129, 257 share hash bucket 0 -/
example : (run (mcacheOpen 2 300 0 (fun pg => pg)) [.get 1, .get 129, .putClean 1, .get 257, .putClean 129, .get 1]).1.lru
    = [257, 1] := by decide +kernel
example : ((run (mcacheOpen 2 300 0 (fun pg => pg)) [.get 1, .get 129, .putClean 1, .get 257, .putClean 129, .get 1]).1.hqh 0)
    = [1, 257] := by decide +kernel

/-! ## 3. eviction -/

/-- **Pinned pages are never evicted**: whatever page `mcache_get` is asked for, a page that is cached and pinned stays
cached and pinned, with the same content and dirtiness. -/
theorem pinned_not_evicted {s : State} (h : Inv s) {pg : Nat} {b : Bkt} (hb : s.pages pg = some b) (hp : b.pinned = true)
    (pgno : Nat) :
    ∃ b', (mcacheGet s pgno).1.pages pg = some b' ∧ b'.pinned = true ∧ b'.data = b.data ∧ b'.dirty = b.dirty := by
  rcases mcacheGet_pages h hb pgno with ⟨b', h1, h2, h3, h4⟩ | ⟨_, h2, _⟩
  · exact ⟨b', h1, h4 hp, h2, h3⟩
  · rw [hp] at h2; cases h2

/-- **Eviction never loses a dirty page**: if `mcache_get` makes a cached page disappear, that page was not pinned, and if
it was dirty its content is in the backing store afterwards (a clean page leaves the store untouched). -/
theorem evict_writes_back {s : State} (h : Inv s) {pg : Nat} {b : Bkt} (hb : s.pages pg = some b) (pgno : Nat)
    (hgone : (mcacheGet s pgno).1.pages pg = none) :
    b.pinned = false ∧ (b.dirty = true → (mcacheGet s pgno).1.backing pg = b.data) ∧
    (b.dirty = false → (mcacheGet s pgno).1.backing pg = s.backing pg) := by
  rcases mcacheGet_pages h hb pgno with ⟨b', h1, _⟩ | ⟨_, h2, h3, h4⟩
  · rw [hgone] at h1; cases h1
  · exact ⟨h2, h3, h4⟩

/-- **LRU order**: the page `mcache_bkt` evicts is the first unpinned one in LRU order (everything before it is pinned). -/
theorem victim_is_first_unpinned {s : State} {pg : Nat} {b : Bkt} (h : victim s = some (pg, b)) :
    ∃ l₁ l₂, s.lru = l₁ ++ pg :: l₂ ∧ s.pages pg = some b ∧ b.pinned = false ∧
      ∀ x ∈ l₁, ∀ bx, s.pages x = some bx → bx.pinned = true := by
  unfold victim at h
  obtain ⟨l₁, a, l₂, hl, hf, hpre⟩ := List.findSome?_eq_some_iff.1 h
  have ha : a = pg ∧ s.pages pg = some b ∧ b.pinned = false := by
    split at hf
    · rename_i b' hb'
      split at hf
      · cases hf
      · rename_i hp
        simp only [Option.some.injEq, Prod.mk.injEq] at hf
        obtain ⟨rfl, rfl⟩ := hf
        exact ⟨rfl, hb', by simpa using hp⟩
    · cases hf
  obtain ⟨rfl, hb, hp⟩ := ha
  refine ⟨l₁, l₂, hl, hb, hp, ?_⟩
  intro x hx bx hbx
  have := hpre x hx
  simp only [hbx] at this
  split at this
  · assumption
  · cases this

/-- Only `get` (eviction) and `close` ever remove a page from the cache. -/
theorem uncached_only_by_get_or_close {s : State} (hc : s.closed = false) {pg : Nat} {b : Bkt} (hb : s.pages pg = some b) (op : Op)
    (hgone : (step s op).1.pages pg = none) : (∃ pgno, op = .get pgno) ∨ op = .close := by
  cases op with
  | get pgno => exact Or.inl ⟨pgno, rfl⟩
  | close => exact Or.inr rfl
  | putDirty pg' v =>
    exfalso
    cases hp : s.pages pg' with
    | none => rw [(step_putDirty_uncached hp v).1, hb] at hgone; cases hgone
    | some b' =>
      rw [step_putDirty_cached hc hp v] at hgone
      have : (upd s.pages pg' (some { data := v, pinned := false, dirty := true }) pg) = none := hgone
      rw [upd_apply] at this
      split at this
      · cases this
      · rw [hb] at this; cases this
  | putClean pg' =>
    exfalso
    have hgone' : (call s (.put pg' 0)).1.pages pg = none := hgone
    rw [call_put hc] at hgone'
    by_cases e : pg = pg'
    · subst e
      have : (mcachePut s pg 0).1.pages pg = none := hgone'
      rw [mcachePut_clean hb] at this
      dsimp only at this
      split at this
      · have t : upd s.pages pg (some { b with pinned := false }) pg = none := this
        rw [upd_same] at t; cases t
      · have t : upd s.pages pg (some { b with pinned := false }) pg = none := this
        rw [upd_same] at t; cases t
    · have : (mcachePut s pg' 0).1.pages pg = none := hgone'
      rw [mcachePut_pages_other s pg' 0 e, hb] at this; cases this
  | sync =>
    exfalso
    rw [step_sync_eq hc] at hgone
    obtain ⟨b', h1, _⟩ := syncWalk_pages s.lru s pg b hb
    have : (syncWalk s s.lru).1.pages pg = none := hgone
    rw [h1] at this; cases this
  | setMax n =>
    exfalso
    simp only [step, call, hc, Bool.false_eq_true, if_false] at hgone
    rw [(setMax_pages s n).1, hb] at hgone; cases hgone

/-- maxcache = 1: page 1 is held (pinned) while 2 and 3 come and go; page 1 is still there with the client's content. -/
example : (run (mcacheOpen 1 3 0 (fun pg => 10 * pg)) [.get 1, .get 2, .putClean 2, .get 3, .putClean 3, .putDirty 1 11, .get 1]).2
    = [.page 10, .page 20, .ok, .page 30, .ok, .ok, .page 11] := by decide

/-- a failing write-back during eviction (fixed behaviour, /repo 42dfaa3): the get fails, the dirty page stays cached and
dirty, nothing is lost; once the store works again the page is written. -/
example :
    let s := (run (mcacheOpen 1 3 0 (fun pg => 10 * pg) 0 (fun _ => false) (fun pg => pg == 1))
      [.get 1, .putDirty 1 11, .get 2])
    s.2 = [.page 10, .ok, .fail] ∧ s.1.pages 1 = some { data := 11, pinned := false, dirty := true } ∧ s.1.backing 1 = 10 := by
  decide

/-! ## 4. how large the cache gets -/

/-- **Bound on `curcache`.** `mcache_bkt` allocates beyond `maxcache` when every cached page is pinned ("we grow the cache
anyway"), so `curcache ≤ maxcache` is NOT an invariant.  What holds (page-in callback not failing): `curcache` is exactly the
number of cached pages, and if the client never has more than `K` pages pinned at once then `curcache ≤ max maxcache K`. -/
theorem curcache_bound (maxcache npages flags : Nat) (backing : Nat → Nat) (garbage : Nat) (outFail : Nat → Bool)
    (ops : List Op) (K : Nat)
    (hk : PinBound K (mcacheOpen maxcache npages flags backing garbage (fun _ => false) outFail) ops) :
    let s := (run (mcacheOpen maxcache npages flags backing garbage (fun _ => false) outFail) ops).1
    s.curcache = s.lru.length ∧ s.curcache ≤ max s.maxcache K :=
  run_bound ops _ _ (Or.inr (rel_open maxcache npages flags backing garbage (fun _ => false) outFail)) rfl (fun _ => rfl)
    (Nat.zero_le _) hk

/-- three pins at once with maxcache = 1: the cache grows to 3 buckets … -/
example : (run (mcacheOpen 1 3 0 (fun pg => pg)) [.get 1, .get 2, .get 3]).1.curcache = 3 := by decide
/-- … an hchunks-style client (every get immediately followed by its put, `K = 1`) stays within maxcache. -/
example : PinBound 1 (mcacheOpen 2 3 0 (fun pg => pg)) [.get 1, .putDirty 1 5, .get 2, .putClean 2, .get 3, .putClean 3, .get 1] := by
  decide
example : (run (mcacheOpen 2 3 0 (fun pg => pg)) [.get 1, .putDirty 1 5, .get 2, .putClean 2, .get 3, .putClean 3, .get 1]).1.curcache = 2 := by
  decide

/-! ## 5. transparency: the cache size (and every `set_maxcache`) is invisible -/

/-- **Transparency.** For a client that respects the get/put protocol (puts only pages it holds: `absRun … = some rs`),
over an existing object (`flags = 0`) and callbacks that do not fail, the results of ALL operations are those of the
cache-less object `Abs` – a plain array of pages that knows nothing about `maxcache`, eviction or write-back. -/
theorem mcache_transparent (maxcache npages : Nat) (backing : Nat → Nat) (garbage : Nat) (ops : List Op) (rs : List Ret)
    (h : absRun npages { m := backing } ops = some rs) :
    (run (mcacheOpen maxcache npages 0 backing garbage) ops).2.map obs = rs :=
  sim_run ops _ _ rs (sim_open maxcache npages backing garbage) h

/-- **C04, "not on cache sizes".** Two caches of ANY two sizes over the same object give a protocol-respecting client the
same answers (page contents of every get, status of every put/sync/close), whatever the history. -/
theorem cache_size_irrelevant (maxcache₁ maxcache₂ npages : Nat) (backing : Nat → Nat) (garbage₁ garbage₂ : Nat) (ops : List Op)
    (h : (absRun npages { m := backing } ops).isSome = true) :
    (run (mcacheOpen maxcache₁ npages 0 backing garbage₁) ops).2.map obs =
    (run (mcacheOpen maxcache₂ npages 0 backing garbage₂) ops).2.map obs := by
  cases hr : absRun npages { m := backing } ops with
  | none => rw [hr] at h; cases h
  | some rs => rw [mcache_transparent _ _ _ _ _ _ hr, mcache_transparent _ _ _ _ _ _ hr]

/-- a protocol-respecting history with several pins, re-gets, an out-of-range get, a tuning-knob call and a close -/
example : absRun 3 { m := fun pg => 10 * pg }
    [.get 1, .get 2, .putDirty 1 11, .get 3, .putClean 3, .setMax 4, .get 1, .putClean 2, .get 4, .sync, .putDirty 1 12, .get 1, .close, .get 1]
    = some [.page 10, .page 20, .ok, .page 30, .ok, .val 0, .page 11, .ok, .fail, .ok, .ok, .page 12, .ok, .undef] := by decide
/-- the same history on real caches of size 1 and 3 -/
example : (run (mcacheOpen 1 3 0 (fun pg => 10 * pg))
    [.get 1, .get 2, .putDirty 1 11, .get 3, .putClean 3, .setMax 4, .get 1, .putClean 2, .get 4, .sync, .putDirty 1 12, .get 1, .close, .get 1]).2
    = [.page 10, .page 20, .ok, .page 30, .ok, .val 4, .page 11, .ok, .fail, .ok, .ok, .page 12, .ok, .undef] := by decide
example : (run (mcacheOpen 3 3 0 (fun pg => 10 * pg))
    [.get 1, .get 2, .putDirty 1 11, .get 3, .putClean 3, .setMax 4, .get 1, .putClean 2, .get 4, .sync, .putDirty 1 12, .get 1, .close, .get 1]).2
    = [.page 10, .page 20, .ok, .page 30, .ok, .val 4, .page 11, .ok, .fail, .ok, .ok, .page 12, .ok, .undef] := by decide

/-- a client that breaks the protocol (modifies a page, puts it back CLEAN) does see the cache size: with room for both
pages it keeps seeing its modification, with maxcache = 1 the page is dropped unwritten.  This is outside the contract. -/
example :
    (call (call (call (call (call (mcacheOpen 2 2 0 (fun pg => 10 * pg)) (.get 1)).1 (.write 1 99)).1 (.put 1 0)).1 (.get 2)).1 (.get 1)).2 = .page 99 ∧
    (call (call (call (call (call (mcacheOpen 1 2 0 (fun pg => 10 * pg)) (.get 1)).1 (.write 1 99)).1 (.put 1 0)).1 (.get 2)).1 (.get 1)).2 = .page 10 := by
  decide

end H4.Props.C04MCache
