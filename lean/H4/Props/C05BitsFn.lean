import H4.Lemmas.C05BitsFn2
import H4.Props.C05Bits
/-! C05, function-level Tie A for the bit-I/O layer `hdf/src/hbitio.c`: `Hbitwrite`, `HIbitflush` (with the flush of
    `Hendbitaccess`) and `Hbitread` as translated statement by statement from the CURRENT C text (`H4.Gen.Fn.Hbitio2`, written by
    gen/c2lean.py on every run: the `bitrec_t` found by the atom lookup as fields `rec_*`, `bytep` / `bytez` as cursors into the
    4096-byte buffer `bytea`, `Hread` / `Hwrite` / `Hseek` on one random-access element `io_elt` at `io_epos`) compute exactly the
    hand-written model `H4.BitIO` that the C05 theorems `bitwrite_refines`, `bitread_refines`, `bit_roundtrip` are about - for every
    record related (`BitRel`) to a model state, every count, every data word - and never index outside the buffer (`ub = false`) and
    terminate (`oof = false`).  `St.toC` (in `H4.BitIOFn`) is the C view of a model state: the integer members, the buffer `bytea` with
    the cursors as indices, the element with its position; `cBitwrite` / `cBitread` / `cBitflush` / `cEnd` run ONE translated call on
    such a record.  A change of the C text changes the generated definitions; these theorems are re-checked against them.
    (The proofs destructure the generated state records positionally: when the C text changes the ORDER of the fields, the
    patterns in H4/Lemmas/C05BitsFn*.lean have to be regenerated from the `structure … .St` declarations.)

    Covered: `Hbitwrite` in write mode on every path (count <= 0 / no write access: FAIL; count > 32 clipped; bits merged into the bit
    buffer; byte completed, whole bytes, rest to the bit buffer; the buffer-full path with `Hwrite` of the block and the pre-read of the
    next block of an existing element); `HIbitflush` in write mode (flush bit 0 / 1 / leave, middle-of-dataset merge, write-out or not);
    `Hbitread` in read mode on every path (bit buffer only, whole bytes with refills, last partial byte, end of data with a short
    count, `count <= 0`); `Hbitseek` in both modes (inside the block / load of another block, with the flush in write mode);
    `HIwrite2read` and `HIread2write`; and `Hbitread` / `Hbitwrite` started in the other mode (switch first) - these last ones
    (`…_w2r_refines_partial`, `…_r2w_refines_partial`) under explicit conditions on the MODEL's state (the switch succeeds, the block that
    `Hbitseek` loads fits the buffer, the cursor ends inside the buffered bytes), which a geometry invariant of the whole record
    (element position = block offset, `byte_offset = block_offset + cursor`, element length against `max_offset`) would discharge;
    `BitRel` does not carry it.  The cross-run of engine `bits` compares the whole record after every call on all of these paths. -/
namespace H4.Props.C05BitsFn
open H4 H4.Bits H4.BitIO H4.Gen.Hbitio H4.Gen.Fn.Hbitio2 H4.Lemmas.C05BitsFn H4.Props.C05

/-- the relation between the C record (`bitrec_t` members + buffer + underlying element) and a model state: the record is the C view of
    the state, and the state satisfies the representation invariant `Inv` (the zipper of the model agrees with `bytep`, the cursors are
    inside the 4096-byte buffer - in write mode strictly inside the block -, `count <= 8`, in write mode `1 <= count` and write access,
    `bits` is a byte, no undefined behaviour / H-layer failure has been recorded) -/
def BitRel (c : CRec) (m : St) : Prop := c = m.toC ∧ Inv m

theorem inv_of_rdInv {m : St} (h : RdInv m) : Inv m :=
  ⟨h.rep.noOob, h.rep.noErr, h.rep.bytep, h.rep.len, h.rep.zle, h.ple, h.rep.cnt, fun hw => (by rw [h.rMode] at hw; cases hw),
    h.rep.bits, fun hw => (by rw [h.rMode] at hw; cases hw), fun hw => (by rw [h.rMode] at hw; cases hw),
    fun hw => (by rw [h.rMode] at hw; cases hw)⟩

theorem rdInv_of_inv {m : St} (h : Inv m) (hr : m.wMode = false) : RdInv m := ⟨h.rep, hr, h.ple⟩

/-- the value `Hbitwrite` / `Hbitseek` style calls return for a model result -/
def retOf (count : Int) : Option Nat → Int
  | some _ => count
  | none => -1

/-- **`Hbitwrite`** as translated from hbitio.c, on a bit file in WRITE mode (`_partial`: a call in read mode, which first switches with
    `HIread2write`, is the subject of `Hbitwrite_r2w_refines_partial` - full statement: the same without `hw`).  For EVERY record related to a model state, EVERY
    `count` (`<= 0`: FAIL; `> 32`: clipped to 32, the return value is still `count`) and EVERY data word: no undefined behaviour, the
    loop terminates within `callFuel` passes, the return value is the model's (`count`, or FAIL without write access), and the record
    afterwards is related to the model's state after `bitwrite` - including the buffer-full path (`Hwrite` of the 4096-byte block,
    `block_offset` advanced, pre-read of the next block when the element is longer). -/
theorem Hbitwrite_refines_partial (c : CRec) (m : St) (hrel : BitRel c m) (hw : m.wMode = true) (count : Int) (data : Nat)
    (hd : data < 2 ^ 32) (fuel : Nat) (hf : callFuel ≤ fuel) :
    let o := cBitwrite fuel c count data
    let r := bitwrite m count.toNat data
    o.ub = false ∧ o.oof = false ∧ o.ret = retOf count r.2 ∧ BitRel o.crec r.1 ∧ r.1.wMode = true := by
  obtain ⟨rfl, hinv⟩ := hrel
  obtain ⟨h1, h2, h3, h4, h5, h6, _, _⟩ := Hbitwrite_w m hinv hw count data hd fuel (by unfold callFuel at hf; omega)
  refine ⟨h1, h2, ?_, ⟨h3, h5⟩, h6⟩
  rw [h4]; cases (bitwrite m count.toNat data).2 <;> rfl

/-- for a count 1..32 with write access the call returns `count` (the model's `bitwrite` does) -/
theorem Hbitwrite_ret (c : CRec) (m : St) (hrel : BitRel c m) (hw : m.wMode = true) (count data : Nat) (hc1 : 1 ≤ count)
    (hc : count ≤ 32) (hd : data < 2 ^ 32) (fuel : Nat) (hf : callFuel ≤ fuel) :
    (cBitwrite fuel c count data).ret = count ∧ bitwrite m count data = (bitwriteCore m count data, some count) := by
  obtain ⟨rfl, hinv⟩ := hrel
  obtain ⟨h1, h2, h3, h4, h5, h6, _, _⟩ := Hbitwrite_w m hinv hw count data hd fuel (by unfold callFuel at hf; omega)
  simp only [Int.toNat_natCast] at h3 h4 h5
  have herr : (bitwriteCore m count data).err = false := by
    have hk := wr_core fuel (wrInit m.toC (count : Int) (data : Int)) m count data hc1 hc (by unfold callFuel at hf; omega) rfl rfl rfl rfl
      rfl hinv hw
    exact hk.2.2.2.2.2.1.noErr
  have he := bitwrite_w_eq m hw (hinv.wacc hw) count data hc1 hc hd herr
  rw [he] at h4
  exact ⟨h4, he⟩

/-- the hypotheses are satisfiable and the translated code runs: a fresh element, 12 bits written in write mode -/
example :
    BitRel (startWrite none).toC (startWrite none) ∧
    (let o := cBitwrite callFuel (startWrite none).toC 12 0xABC
     o.ub = false ∧ o.oof = false ∧ o.ret = 12 ∧ o.crec.count = 4 ∧ o.crec.bits = 0xC0 ∧ o.crec.bytep = 1 ∧
       o.crec.bytea.getD 0 0 = 0xAB ∧ o.crec = (bitwrite (startWrite none) 12 0xABC).1.toC) := by
  refine ⟨⟨rfl, ?_⟩, by set_option maxRecDepth 100000 in decide +kernel⟩
  obtain ⟨h, hr, _, _⟩ := startWrite_ok
  exact inv_of_WInv h hr

/-- **`HIbitflush`** as translated from hbitio.c, in write mode: for EVERY related record, EVERY flush bit (`some false` = 0,
    `some true` = 1, `none` = -1: leave the pending bits to be merged) and with or without `writeout`: no undefined behaviour, SUCCEED,
    and the record afterwards is the C view of the model's `bitflush` - the last byte completed through (the translated) `Hbitwrite` when
    the cursor is at the end of the data, merged into the byte under the cursor otherwise, then `MIN(bytez - bytea, max_offset -
    block_offset)` bytes of the buffer written to the element.  `Rep` (not `Inv`): after a merge the cursor may stand at the end of the
    block, "this routine does not leave the bitfile in a position to continue I/O". -/
theorem HIbitflush_refines (c : CRec) (m : St) (hrel : BitRel c m) (hw : m.wMode = true) (fb : Option Bool) (wo : Bool)
    (fuel : Nat) (hf : callFuel ≤ fuel) :
    let o := cBitflush fuel c (flushArg fb) (if wo then 1 else 0)
    let m' := bitflush m fb wo
    o.ub = false ∧ o.oof = false ∧ o.ret = 0 ∧ o.crec = m'.toC ∧ Rep m' ∧ m'.wMode = true := by
  obtain ⟨rfl, hinv⟩ := hrel
  obtain ⟨h1, h2, h3, h4, h5, h6, _, _⟩ := HIbitflush_w m hinv hw fb wo fuel (by unfold callFuel at hf; omega)
  exact ⟨h1, h2, h3, h4, h5, h6⟩

/-- the flush part of **`Hendbitaccess`** (`if (mode == 'w') HIbitflush(rec, flushbit, TRUE)`) on the translated `HIbitflush` leaves
    exactly the element bytes of the model's `endAccess` -/
theorem Hendbitaccess_refines (c : CRec) (m : St) (hrel : BitRel c m) (fb : Option Bool) (fuel : Nat) (hf : callFuel ≤ fuel) :
    let o := cEnd fuel c fb
    o.ub = false ∧ o.oof = false ∧ o.ret = 0 ∧ o.crec.elt = ints (endAccess m fb) := by
  obtain ⟨rfl, hinv⟩ := hrel
  cases hw : m.wMode with
  | true =>
    have hm : m.toC.mode = 119 := by show modeChar m.wMode = 119; rw [hw]; rfl
    obtain ⟨h1, h2, h3, h4, _, _, _, _⟩ := HIbitflush_w m hinv hw fb true fuel (by unfold callFuel at hf; omega)
    simp only [cEnd, hm, if_true, endAccess, hw]
    refine ⟨h1, h2, h3, ?_⟩
    have := congrArg CRec.elt h4
    exact this
  | false =>
    have hm : ¬ (m.toC.mode = 119) := by show ¬ (modeChar m.wMode = 119); rw [hw]; decide
    simp only [cEnd, hm, if_false, endAccess, hw, Bool.false_eq_true]
    simp [St.toC]

/-- the translated code runs: 12 bits pending in the bit buffer, `Hendbitaccess(id, 1)` completes the byte with ones -/
example :
    (let o := cEnd callFuel (bitwrite (startWrite none) 12 0xABC).1.toC (some true)
     o.ub = false ∧ o.oof = false ∧ o.ret = 0 ∧ o.crec.elt = [0xAB, 0xCF]) := by
  set_option maxRecDepth 100000 in decide +kernel

/-- **`Hbitread`** as translated from hbitio.c, on a bit file in READ mode (`_partial`: a call in write mode, which first switches with
    `HIwrite2read`, is the subject of `Hbitread_w2r_refines_partial` - full statement: the same without `hr`).  For EVERY related record and EVERY `count`
    (`<= 0`: FAIL, `*data` untouched; `> 32`: clipped): no undefined behaviour, termination, and the return value, the data word and the
    record afterwards are the model's `bitread` - served from the bit buffer, whole bytes with a refill (`Hread` of up to 4096 bytes)
    whenever the buffer is exhausted, the last partial byte whose unused bits stay in the bit buffer, and the end of the data
    (`Hread` delivers 0 bytes, or the element is new): the bits gathered so far are returned with the short count. -/
theorem Hbitread_refines_partial (c : CRec) (m : St) (hrel : BitRel c m) (hr : m.wMode = false) (count d0 : Int)
    (fuel : Nat) (hf : callFuel ≤ fuel) :
    let o := cBitread fuel c count d0
    let r := bitread m count.toNat
    o.1.ub = false ∧ o.1.oof = false ∧ rdOut o d0 r.2 ∧ BitRel o.1.crec r.1 ∧ r.1.wMode = false := by
  obtain ⟨rfl, hinv⟩ := hrel
  obtain ⟨h1, h2, h3, h4, h5, _⟩ := Hbitread_r m (rdInv_of_inv hinv hr) count d0 fuel (by unfold callFuel at hf; omega)
  exact ⟨h1, h2, h4, ⟨h3, inv_of_rdInv h5⟩, h5.rMode⟩

/-- the hypotheses are satisfiable and the translated code runs: 12 bits read across a byte boundary, then the end of the data -/
example :
    BitRel (startRead [0xAB, 0xCD]).toC (startRead [0xAB, 0xCD]) ∧
    (let o := cBitread callFuel (startRead [0xAB, 0xCD]).toC 12 0
     o.1.ub = false ∧ o.1.oof = false ∧ o.1.ret = 12 ∧ o.2 = 0xABC ∧ o.1.crec.count = 4 ∧ o.1.crec.bits = 0xCD ∧
       (let o2 := cBitread callFuel o.1.crec 12 0
        o2.1.ub = false ∧ o2.1.ret = 4 ∧ o2.2 = 0xD00)) := by
  refine ⟨⟨rfl, inv_of_rdInv (rdInv_startRead _)⟩, by set_option maxRecDepth 100000 in decide +kernel⟩

/-! ## `Hbitseek` and the write->read switch -/

/-- **`Hbitseek`** as translated from hbitio.c (with the variant `HIbitflush_m` of `HIbitflush` it calls in write mode), in READ and in
    WRITE mode, for a position inside the buffered block or with the load of another block: for EVERY related record (in read mode the
    representation part `Rep` of the invariant is enough) and EVERY `(byte_offset, bit_offset)`: no undefined behaviour, the return value
    is the model's (FAIL for `bit_offset > 7`, `byte_offset > max_offset`, or when `Hread` of the new block fails on a new element), and
    after SUCCEED the record is the C view of the model's state, which again satisfies the invariant in write mode.
    `hfit` is what the C code needs when it loads another block: `Hread` is asked for `MIN(max_offset - seek_pos, BITBUF_SIZE)` bytes and
    a length of 0 means "to the end of the element", so the element must not be more than a buffer longer than `max_offset`
    (`seekPre m B` = the state after the flush `Hbitseek` does first in write mode).  Negative arguments (FAIL) are not representable
    in the model. -/
theorem Hbitseek_refines (c : CRec) (m : St) (hc : c = m.toC) (hrep : Rep m) (hwi : m.wMode = true → Inv m) (B b : Nat)
    (hfit : (B < m.blockOff ∨ B ≥ m.blockOff + BITBUF_SIZE) → (seekPre m B).elem.length ≤ (seekPre m B).maxOff + 4096)
    (fuel : Nat) :
    let o := cBitseek fuel c B b
    let r := bitseek m B b
    o.ub = false ∧ o.oof = false ∧ o.ret = (if r.2 then 0 else -1) ∧
    (r.2 = true → o.crec = r.1.toC ∧ Rep r.1 ∧ r.1.wMode = m.wMode ∧ (m.wMode = true → BitRel o.crec r.1)) := by
  subst hc
  obtain ⟨h1, h2, h3, h4⟩ := Hbitseek_main m hrep hwi B b hfit fuel
  refine ⟨h1, h2, h3, fun hok => ?_⟩
  obtain ⟨e1, e2, e3, _, e5, _⟩ := h4 hok
  exact ⟨e1, e2, e3, fun hw => ⟨e1, e5 hw⟩⟩

/-- the translated code runs: a seek into the middle of a byte in read mode, then a read -/
example :
    (let o := cBitseek callFuel (startRead [0xAB, 0xCD, 0xEF]).toC 1 4
     o.ub = false ∧ o.ret = 0 ∧ o.crec.count = 4 ∧ o.crec.bits = 0xCD ∧ o.crec.bytep = 2 ∧
       (cBitread callFuel o.crec 8 0).2 = 0xDE) := by
  set_option maxRecDepth 100000 in decide +kernel

/-- **`HIwrite2read`** as translated from hbitio.c: on EVERY related record in write mode the pending bits are merged into the buffer,
    the buffer is written out (the translated `HIbitflush(rec, -1, TRUE)`), `block_offset = (int32)LONG_MIN` (0 on this host), `mode = 'r'`
    and the position is taken again as a reader (the translated `Hbitseek`); the record afterwards is the C view of the model's
    `write2read`.  `hfit`: as for `Hbitseek`, on the flushed state `w2rMid m`. -/
theorem HIwrite2read_refines (c : CRec) (m : St) (hrel : BitRel c m) (hw : m.wMode = true)
    (hfit : (m.byteOff < (w2rMid m).blockOff ∨ m.byteOff ≥ (w2rMid m).blockOff + BITBUF_SIZE) →
      (w2rMid m).elem.length ≤ (w2rMid m).maxOff + 4096)
    (fuel : Nat) (hf : callFuel ≤ fuel) :
    let o := cWrite2read fuel c
    let ok := (bitseek (w2rMid m) m.byteOff (BITNUM - m.count)).2
    o.ub = false ∧ o.oof = false ∧ o.ret = (if ok then 0 else -1) ∧
    (ok = true → o.crec = (write2read m).toC ∧ Rep (write2read m) ∧ (write2read m).wMode = false) := by
  obtain ⟨rfl, hinv⟩ := hrel
  obtain ⟨h1, h2, h3, h4⟩ := HIwrite2read_main m hinv hw hfit fuel (by unfold callFuel at hf; omega)
  refine ⟨h1, h2, h3, fun hok => ?_⟩
  obtain ⟨e1, e2, e3, _, _⟩ := h4 hok
  exact ⟨e1, e2, e3⟩

/-- **`Hbitread` on a bit file in WRITE mode** (the write->read switch `HIwrite2read` first), `_partial`: three conditions on the MODEL's
    states are hypotheses - `hfit` (see `Hbitseek_refines`), `hok` (the switch succeeds: it fails only when `Hread` fails on a new
    element; then the C code, since fix b24c929, returns FAIL while the model goes on) and `hple` (after the switch the cursor is not
    behind the end of the buffered bytes).  They would follow from a geometry invariant (element position = block offset, element
    length against `max_offset`, `byte_offset = block_offset + cursor`) that `BitRel` does not carry.  Under them: no undefined
    behaviour, and the return value, the data word and the record afterwards are the model's `bitread`. -/
theorem Hbitread_w2r_refines_partial (c : CRec) (m : St) (hrel : BitRel c m) (hw : m.wMode = true)
    (hfit : (m.byteOff < (w2rMid m).blockOff ∨ m.byteOff ≥ (w2rMid m).blockOff + BITBUF_SIZE) →
      (w2rMid m).elem.length ≤ (w2rMid m).maxOff + 4096)
    (hok : (bitseek (w2rMid m) m.byteOff (BITNUM - m.count)).2 = true)
    (hple : (write2read m).bytep ≤ (write2read m).bytez)
    (count d0 : Int) (hc : 0 < count) (fuel : Nat) (hf : callFuel ≤ fuel) :
    let o := cBitread fuel c count d0
    let r := bitread m count.toNat
    o.1.ub = false ∧ o.1.oof = false ∧ rdOut o d0 r.2 ∧ BitRel o.1.crec r.1 ∧ r.1.wMode = false := by
  obtain ⟨rfl, hinv⟩ := hrel
  have hf3 : 3 ≤ fuel := by unfold callFuel at hf; omega
  obtain ⟨_, _, _, k4⟩ := HIwrite2read_main m hinv hw hfit fuel hf3
  obtain ⟨_, e2, e3, _, _⟩ := k4 hok
  rw [cBitread_switch m hinv hw hfit hok count d0 hc fuel hf3, bitread_switch m hw e3 count.toNat (by omega)]
  obtain ⟨h1, h2, h3, h4, h5, _⟩ := Hbitread_r (write2read m) ⟨e2, e3, hple⟩ count d0 fuel (by unfold callFuel at hf; omega)
  exact ⟨h1, h2, h4, ⟨h3, inv_of_rdInv h5⟩, h5.rMode⟩

/-- the hypotheses are satisfiable and the translated code runs: 32 bits written, `Hbitseek` back to the start (still in write mode),
    then 12 bits read back through the switch -/
example :
    (let m := (bitwrite (bitwrite (startWrite none) 12 0xABC).1 20 0x12345).1
     let m2 := (bitseek m 0 0).1
     BitRel m2.toC m2 ∧ m2.wMode = true ∧ (bitseek (w2rMid m2) m2.byteOff (BITNUM - m2.count)).2 = true ∧
       (write2read m2).bytep ≤ (write2read m2).bytez ∧
       (let o := cBitread callFuel m2.toC 12 0
        o.1.ub = false ∧ o.1.ret = 12 ∧ o.2 = 0xABC ∧ o.1.crec.mode = 114)) := by
  refine ⟨?_, by set_option maxRecDepth 100000 in decide +kernel⟩
  obtain ⟨h, hr, hm, _⟩ := startWrite_ok
  obtain ⟨a1, a2, _, a4⟩ := bitwriteCore_ok h hr 12 (0xABC % 2 ^ 32) (by decide) (by decide)
  obtain ⟨b1, b2, _, _⟩ := bitwriteCore_ok a1 a2 20 (0x12345 % 2 ^ 32) (by decide) (by decide)
  have hinv : Inv (bitwrite (bitwrite (startWrite none) 12 0xABC).1 20 0x12345).1 := by
    rw [bitwrite_eq h hr 12 0xABC (by decide) (by decide), bitwrite_eq a1 a2 20 0x12345 (by decide) (by decide)]
    exact inv_of_WInv b1 b2
  have hk := Hbitseek_refines _ _ rfl hinv.rep (fun _ => hinv) 0 0
    (fun h => absurd h (by set_option maxRecDepth 100000 in decide +kernel)) callFuel
  exact (hk.2.2.2 (by set_option maxRecDepth 100000 in decide +kernel)).2.2.2 (by set_option maxRecDepth 100000 in decide +kernel)

/-- **`HIread2write`** as translated from hbitio.c: on EVERY record in read mode (with write access) whose C view is faithful (`Rep`),
    the translated `Hbitseek` goes to the byte that takes the next bit (a partly read byte is the one to write into), the cursor steps back
    onto it, the bits already read are kept in the bit buffer, the whole buffer becomes the write window, `mode = 'w'`, and the element
    position returns to the block start; the record afterwards is related (`BitRel`, write-mode invariant included) to the model's
    `read2write`.  `hpos`: a partly read byte has been fetched (the C `pos--` does not go below 0); `hfit` as for `Hbitseek`. -/
theorem HIread2write_refines (c : CRec) (m : St) (hc : c = m.toC) (hrep : Rep m) (hr : m.wMode = false) (hacc : m.wAccess = true)
    (hpos : m.count > 0 → 1 ≤ m.blockOff + m.bytep)
    (hfit : ((r2wPos m).1 < m.blockOff ∨ (r2wPos m).1 ≥ m.blockOff + BITBUF_SIZE) → m.elem.length ≤ m.maxOff + 4096)
    (fuel : Nat) :
    let o := cRead2write fuel c
    let r := read2write m
    o.ub = false ∧ o.oof = false ∧ o.ret = (if r.2 then 0 else -1) ∧ (r.2 = true → BitRel o.crec r.1 ∧ r.1.wMode = true) := by
  subst hc
  obtain ⟨h1, h2, h3, h4⟩ := HIread2write_main m hrep hr hacc hpos hfit fuel
  refine ⟨h1, h2, h3, fun hok => ?_⟩
  obtain ⟨e1, e2, e3, _⟩ := h4 hok
  exact ⟨⟨e1, e2⟩, e3⟩

/-- **`Hbitwrite` on a bit file in READ mode** (the read->write switch `HIread2write` first), `_partial`: conditions on the MODEL's state
    are hypotheses - `hpos`, `hfit` (see `HIread2write_refines`) and `hok` (the switch succeeds).  Under them, for every count > 0 and
    every data word: no undefined behaviour, and the return value and the record afterwards are the model's `bitwrite`. -/
theorem Hbitwrite_r2w_refines_partial (c : CRec) (m : St) (hrel : BitRel c m) (hr : m.wMode = false) (hacc : m.wAccess = true)
    (hpos : m.count > 0 → 1 ≤ m.blockOff + m.bytep)
    (hfit : ((r2wPos m).1 < m.blockOff ∨ (r2wPos m).1 ≥ m.blockOff + BITBUF_SIZE) → m.elem.length ≤ m.maxOff + 4096)
    (hok : (read2write m).2 = true) (count : Int) (hc : 0 < count) (data : Nat) (hd : data < 2 ^ 32)
    (fuel : Nat) (hf : callFuel ≤ fuel) :
    let o := cBitwrite fuel c count data
    let r := bitwrite m count.toNat data
    o.ub = false ∧ o.oof = false ∧ o.ret = retOf count r.2 ∧ BitRel o.crec r.1 ∧ r.1.wMode = true := by
  obtain ⟨rfl, hinv⟩ := hrel
  obtain ⟨_, _, _, k4⟩ := HIread2write_main m hinv.rep hr hacc hpos hfit fuel
  obtain ⟨_, e2, e3, e4⟩ := k4 hok
  rw [cBitwrite_switch m hinv.rep hr hacc hpos hfit hok count data hc fuel,
    bitwrite_switch m hr hacc hok e3 e4 count.toNat data (by omega)]
  exact Hbitwrite_refines_partial _ _ ⟨rfl, e2⟩ e3 count data hd fuel hf

/-- the hypotheses are satisfiable and the translated code runs: an element `ab cd ef 01` opened for writing, 4 bits read, 8 bits
    written into the middle of the first two bytes (the regression anchor of C05Bits on the translated functions) -/
example :
    (let m := (bitread (startWrite (some [0xAB, 0xCD, 0xEF, 0x01])) 4).1
     m.wMode = false ∧ m.wAccess = true ∧ (read2write m).2 = true ∧
       (let o := cBitwrite callFuel m.toC 8 0x12
        o.ub = false ∧ o.ret = 8 ∧ (cEnd callFuel o.crec (some false)).crec.elt = [0xA1, 0x2D, 0xEF, 0x01])) := by
  set_option maxRecDepth 100000 in decide +kernel

/-! ## a whole element on the C text: any partition of a bit stream into `Hbitwrite` calls, `Hendbitaccess`, then `Hbitread` calls -/

/-- a sequence of translated `Hbitwrite(id, w, v)` calls, the record carried from call to call; `none` = a call had undefined
    behaviour / ran out of fuel / did not return its count -/
def cWrites : CRec → List (Nat × Nat) → Option CRec
  | r, [] => some r
  | r, (w, v) :: fs =>
    let o := cBitwrite callFuel r w ((v % 2 ^ 32 : Nat) : Int)
    if o.ub || o.oof || o.ret != w then none else cWrites o.crec fs

/-- a sequence of translated `Hbitread(id, w, &v)` calls; the values read -/
def cReads : CRec → List Nat → Option (List Int)
  | _, [] => some []
  | r, w :: ws =>
    let o := cBitread callFuel r w 0
    if o.1.ub || o.1.oof || o.1.ret != w then none else (cReads o.1.crec ws).map (o.2 :: ·)

/-- `Hstartbitwrite` on a new element (the model's state, seen from C), the translated `Hbitwrite` calls, the translated flush of
    `Hendbitaccess(id, fb)`: the bytes of the element -/
def cPack (fs : List (Nat × Nat)) (fb : Bool) : Option (List Int) :=
  (cWrites (startWrite none).toC fs).bind fun r =>
    let o := cEnd callFuel r (some fb)
    if o.ub || o.oof || o.ret != 0 then none else some o.crec.elt

/-- `Hstartbitread` on the element `e` (the model's state, seen from C) and the translated `Hbitread` calls -/
def cUnpack (e : List Byte) (ws : List Nat) : Option (List Int) := cReads (startRead e).toC ws

theorem cWrites_refines : ∀ (fs : List (Nat × Nat)) (s : St), H4.BitIO.WInv s → RegOK s → s.maxOff = s.byteOff → ValidFields fs →
    cWrites s.toC fs = some (writeFields s fs).toC := by
  intro fs
  induction fs with
  | nil => intro s _ _ _ _; rfl
  | cons f fs ih =>
    intro s h hr hm hv
    obtain ⟨w, v⟩ := f
    have hw := hv (w, v) (by simp)
    have hd : v % 2 ^ 32 < 2 ^ 32 := Nat.mod_lt _ (by decide)
    have hinv := inv_of_WInv h hr
    obtain ⟨k1, k2, k3, k4, k5, _, _, _⟩ := Hbitwrite_w s hinv h.wMode (w : Int) (v % 2 ^ 32) hd callFuel (by decide)
    simp only [Int.toNat_natCast] at k3 k4 k5
    have he : bitwrite s w (v % 2 ^ 32) = bitwrite s w v := by
      rw [bitwrite_eq h hr w v hw.1 hw.2, bitwrite_eq h hr w (v % 2 ^ 32) hw.1 hw.2, Nat.mod_mod]
    rw [he, bitwrite_eq h hr w v hw.1 hw.2] at k3 k4
    obtain ⟨a1, a2, _, a4⟩ := bitwriteCore_ok h hr w (v % 2 ^ 32) hw.1 hw.2
    simp only [cWrites, writeFields, k1, k2, k4, Bool.or_false, bne_self_eq_false, Bool.false_eq_true, if_false, k3]
    rw [bitwrite_eq h hr w v hw.1 hw.2]
    exact ih _ a1 a2 (a4 hm) (fun f hf => hv f (by simp [hf]))

/-- **the write side on the C text**: for ALL field lists (widths 1..32, any values, any stream length - the buffer is written out every
    4096 bytes) and either flush bit, the translated `Hbitwrite` calls followed by the translated flush of `Hendbitaccess` store exactly
    the bytes of the model's `pack` - which `bitwrite_refines` (C05) characterises as the MSB-first concatenation of the fields completed
    with copies of the flush bit -/
theorem cPack_refines (fs : List (Nat × Nat)) (hv : ValidFields fs) (fb : Bool) : cPack fs fb = some (ints (pack fs (some fb))) := by
  obtain ⟨w0, r0, m0, _⟩ := startWrite_ok
  obtain ⟨w1, r1, _, _⟩ := writeFields_ok fs _ w0 r0 m0 hv
  have hinv := inv_of_WInv w1 r1
  obtain ⟨e1, e2, e3, e4⟩ := Hendbitaccess_refines _ _ ⟨rfl, hinv⟩ (some fb) callFuel (Nat.le_refl _)
  simp only [cPack, cWrites_refines fs _ w0 r0 m0 hv, Option.bind_some, e1, e2, e3, Bool.or_false, bne_self_eq_false,
    Bool.false_eq_true, if_false, e4, pack]

theorem cReads_refines : ∀ (ws : List Nat) (s : St), H4.BitIO.RInv s → RdInv s → ValidWidths ws → ws.sum ≤ (avail s).length →
    cReads s.toC ws = some ((takeFields (avail s) ws).map fun (v : Nat) => (v : Int)) := by
  intro ws
  induction ws with
  | nil => intro s _ _ _ _; rfl
  | cons w ws ih =>
    intro s h hi hv hsum
    simp only [List.sum_cons] at hsum
    have hw := hv w (by simp)
    obtain ⟨s', e, i, a⟩ := bitread_ok h w hw.1 hw.2 (by omega)
    obtain ⟨k1, k2, k3, k4, k5, _⟩ := Hbitread_r s hi (w : Int) 0 callFuel (by decide)
    simp only [Int.toNat_natCast, e] at k3 k4 k5
    obtain ⟨k4a, k4b⟩ := k4
    simp only [cReads, k1, k2, k4a, Bool.or_false, bne_self_eq_false, Bool.false_eq_true, if_false, k3, takeFields, List.map_cons]
    rw [ih s' i k5 (fun x hx => hv x (by simp [hx])) (by rw [a]; simp; omega), a, k4b]
    rfl

/-- **the read side on the C text**: for ALL element contents and ALL width lists (each 1..32) whose total does not exceed the bits
    stored, the translated `Hbitread` calls return the values of the model's `unpack` (the successive MSB-first fields of the element's
    bit stream, `bitread_refines` of C05) -/
theorem cUnpack_refines (e : List Byte) (ws : List Nat) (hv : ValidWidths ws) (hsum : ws.sum ≤ 8 * e.length) :
    cUnpack e ws = some ((takeFields (bytesBits e) ws).map fun (v : Nat) => (v : Int)) := by
  obtain ⟨i, junk, a⟩ := startRead_ok e
  unfold cUnpack
  rw [cReads_refines ws _ i (rdInv_startRead e) hv (by rw [a]; simp; omega), a, takeFields_append _ _ _ (by simpa using hsum)]

/-- **round trip on the C text**: whatever sequence of fields (widths 1..32, any values, any number: streams longer than the 4096-byte
    buffer included) is written by the translated `Hbitwrite` to a new element and closed by the translated flush of `Hendbitaccess` with
    either flush bit, the translated `Hbitread` calls with the same widths return the low `w` bits of every value - the C05 theorem
    `bit_roundtrip` transferred to the translated C functions -/
theorem c_roundtrip (fs : List (Nat × Nat)) (hv : ValidFields fs) (fb : Bool) :
    ∃ e : List Byte, cPack fs fb = some (ints e) ∧
      cUnpack e (fs.map Prod.fst) = some (fs.map fun f => ((f.2 % 2 ^ f.1 : Nat) : Int)) := by
  refine ⟨pack fs (some fb), cPack_refines fs hv fb, ?_⟩
  obtain ⟨⟨k, _, ht⟩, _⟩ := bitwrite_refines fs hv fb
  have hv' : ValidWidths (fs.map Prod.fst) := by
    intro w hw
    obtain ⟨f, hf, rfl⟩ := List.mem_map.mp hw
    exact hv f hf
  have hlen : (fs.map Prod.fst).sum ≤ 8 * (pack fs (some fb)).length := by
    have := congrArg List.length ht
    simp at this
    rw [sum_widths]; omega
  rw [cUnpack_refines _ _ hv' hlen, ht, takeFields_append _ _ _ (by rw [sum_widths]; exact Nat.le_refl _), takeFields_fieldsBits]
  simp

/-- the translated code runs: fields crossing byte boundaries, padding with ones, and back -/
example : cPack [(3, 5), (8, 255), (32, 0xDEADBEEF), (1, 1)] true = some [0xBF, 0xFB, 0xD5, 0xB7, 0xDD, 0xFF] ∧
    cUnpack [0xBF, 0xFB, 0xD5, 0xB7, 0xDD, 0xFF] [3, 8, 32, 1] = some [5, 255, 0xDEADBEEF, 1] := by
  set_option maxRecDepth 100000 in decide +kernel

end H4.Props.C05BitsFn
