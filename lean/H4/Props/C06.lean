import H4.Lemmas.Conv
/-! # C06 — number-type conversion is exact, byte-order-correct and mode-independent (property theorems)

The conversion routines are data-independent position permutations inside each element, so every statement
below holds for EVERY bit pattern of every width (NaN payloads, denormals, ...) with no enumeration. -/
namespace H4.Props.C06
open H4.Conv

/-- **Mode independence.** Contiguous, strided, out-of-place and in-place conversions all deliver, in every
    destination element, the per-element transform of the ORIGINAL source element — for any element size,
    count, strides and offsets for which destination element `j` does not meet source/destination element
    `i ≠ j` (true for disjoint buffers with stride ≥ size, and for the in-place call). -/
theorem convert_elementwise (esz : Nat) (swap : Bool) (n so ss dO ds : Nat) (mem : List Byte)
    (hb : InBounds esz n so ss dO ds mem.length) (hc : NoClash esz n so ss dO ds) (i : Nat) (hi : i < n) :
    readN (conv esz swap n so ss dO ds mem) (dO + i * ds) esz = tr swap (readN mem (so + i * ss) esz) :=
  conv_elem esz swap n so ss dO ds mem hb hc i hi

/-- Nothing outside the destination elements is modified (gaps between strided elements, the source buffer
    of an out-of-place call, bytes before/after). -/
theorem convert_frame (esz : Nat) (swap : Bool) (n so ss dO ds : Nat) (mem : List Byte) (p m : Nat)
    (hb : InBounds esz n so ss dO ds mem.length) (hd : ∀ j, j < n → Disj (dO + j * ds) esz p m) :
    readN (conv esz swap n so ss dO ds mem) p m = readN mem p m :=
  conv_frame esz swap n so ss dO ds mem p m hb hd

/-- in place = out of place: the in-place call (`source == dest`, equal strides ≥ size) yields in element `i`
    exactly what an out-of-place call yields in its destination element `i`. -/
theorem inplace_eq_outofplace (esz : Nat) (swap : Bool) (n o st dO ds : Nat) (mem : List Byte)
    (hst : esz ≤ st) (hb1 : InBounds esz n o st o st mem.length)
    (hb2 : InBounds esz n o st dO ds mem.length) (hc2 : NoClash esz n o st dO ds) (i : Nat) (hi : i < n) :
    readN (conv esz swap n o st o st mem) (o + i * st) esz = readN (conv esz swap n o st dO ds mem) (dO + i * ds) esz := by
  have hc1 : NoClash esz n o st o st := by
    intro a b _ _ hab
    have key : Disj (o + b * st) esz (o + a * st) esz := by
      unfold Disj
      rcases Nat.lt_or_gt_of_ne hab with h | h
      · right
        have : (a + 1) * st ≤ b * st := Nat.mul_le_mul_right st h
        rw [Nat.succ_mul] at this; omega
      · left
        have : (b + 1) * st ≤ a * st := Nat.mul_le_mul_right st h
        rw [Nat.succ_mul] at this; omega
    exact ⟨key, key⟩
  rw [conv_elem esz swap n o st o st mem hb1 hc1 i hi, conv_elem esz swap n o st dO ds mem hb2 hc2 i hi]

/-- **Round trip**: memory → file → memory returns the original bit pattern of every element. -/
theorem tr_involutive (swap : Bool) (e : List Byte) : tr swap (tr swap e) = e := by
  unfold tr; cases swap <;> simp

/-- **Byte order**: a swapped (standard, big-endian) element in the file is the big-endian representation of
    the value whose little-endian bytes were in memory; an unswapped one keeps the memory order. -/
theorem file_order_bigendian (e : List Byte) : beValue (tr true e) = leValue e := by
  simp [tr, beValue_reverse]

theorem file_order_native (e : List Byte) : tr false e = e := by simp [tr]

/-- `DFKconvert` with `num = 0` is refused -/
theorem convert_zero_refused (esz : Nat) (swap : Bool) (so ss dO ds : Nat) (mem : List Byte) :
    convert esz swap 0 so ss dO ds mem = none := by simp [convert]

/-- stride 0/0 (fast path) equals the generic strided loop with stride = element size -/
theorem fast_path_eq_strided (esz : Nat) (swap : Bool) (n so dO : Nat) (mem : List Byte) (hn : n ≠ 0) (he : esz ≠ 0) :
    convert esz swap n so 0 dO 0 mem = convert esz swap n so esz dO esz mem := by
  simp [convert, hn, he]

/-! non-vacuity: an in-place 2-byte swap of 3 elements with stride 3, and an out-of-place one -/
example : InBounds 2 3 1 3 1 3 12 ∧ NoClash 2 3 1 3 1 3 := by
  constructor
  · intro i hi; omega
  · intro i j hi hj hij; unfold Disj; omega
example : conv 2 true 3 1 3 1 3 [0, 1, 2, 9, 3, 4, 9, 5, 6, 9, 9, 9] = [0, 2, 1, 9, 4, 3, 9, 6, 5, 9, 9, 9] := by decide
example : conv 4 true 2 0 4 8 4 [1, 2, 3, 4, 5, 6, 7, 8, 0, 0, 0, 0, 0, 0, 0, 0] = [1, 2, 3, 4, 5, 6, 7, 8, 4, 3, 2, 1, 8, 7, 6, 5] := by decide

end H4.Props.C06
