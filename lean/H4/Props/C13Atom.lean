import H4.Lemmas.Atom
/-! # C13 (atom layer) — handles are safe: valid ones never alias, stale ones are always rejected

Model: `H4.Atom` (`hdf/src/atom.c`: hash tables, free list, 4-entry cache with the `SWAP_CACHE` promotions, all
`MAXGROUP` groups, the real id encoding taken from the generated macros).
Every theorem is about ALL histories `ops : List Op` run from the static initial state `State.init`; the
hypotheses are the executable predicates of `H4.Atom`:

* `adm State.init ops`  – every `HAinit_group` has `hash_size ≤ 2^28`, and no `HAregister_atom` is made once a group's
  28-bit counter `atom_next_id[grp]` is exhausted (fewer than `2^28` registrations per group in the process).
  Nothing else: `HAshutdown`, `HAdestroy_group` + `HAinit_group` cycles are all admissible.

"The registrations that are live after `ops`" is the finite map of the specification machine `H4.Atom.SState`
(`Live` below): entered by a successful `HAregister_atom`, deleted by a successful `HAremove_atom` of that id, by the
last `HAdestroy_group` of its group or by `HAshutdown`.

History: before the repairs `fix: an atom id is not issued again after its group is destroyed and re-created` and
`fix: HAshutdown empties the atom cache ...` the id counter restarted at 0 with every re-created group and
`HAshutdown` left the cache populated; the stale-id theorems then needed the extra hypotheses "no re-initialisation" and
"no HAshutdown" and their unrestricted forms were refuted by `decide` witnesses. Those hypotheses are gone. -/
namespace H4.Props.C13
open H4.Atom H4.Gen.Macros H4.Gen.Atom

/-- state of the model after a history from the initial state -/
abbrev after (ops : List Op) : State := runS State.init ops

/-- the result of one more call after the history -/
abbrev resultAfter (ops : List Op) (op : Op) : Res := (step (after ops) op).2

/-- the specification's map after the history -/
abbrev mapAfter (ops : List Op) : SState := srunS SState.init ops

/-- `(id, obj)` is a live registration after `ops` -/
def Live (ops : List Op) (id obj : Nat) : Prop := (⟨id, obj⟩ : Info) ∈ (mapAfter ops (ATOM_TO_GROUP id)).live

/-! ## the id layout -/

/-- `ATOM_TO_GROUP (MAKE_ATOM g i) = g` for every group that fits the 4 group bits, whatever the counter -/
theorem group_of_make_atom (g i : Nat) (hg : g < 16) : ATOM_TO_GROUP (MAKE_ATOM g i) = g :=
  group_MAKE_ATOM g i hg

/-- for a power-of-two table of at most `2^28` buckets the lookup bucket `ATOM_TO_LOC` of an id equals the
    insertion bucket `nextid % hash_size` used by `HAregister_atom` -/
theorem loc_of_make_atom (g i k : Nat) (hg : g < 16) (hk : k ≤ 28) : ATOM_TO_LOC (MAKE_ATOM g i) (2 ^ k) = i % 2 ^ k :=
  loc_MAKE_ATOM g i k hg hk

/-- ids of one group are injective in the counter below `2^28` … -/
theorem make_atom_injective (g i j : Nat) (hg : g < 16) (hi : i < 2 ^ 28) (hj : j < 2 ^ 28)
    (h : MAKE_ATOM g i = MAKE_ATOM g j) : i = j := MAKE_ATOM_inj g i j hg hi hj h

/-- … and repeat with period exactly `2^28`: the `2^28`-th registration after a given one gets the SAME id. This is
    why `adm` bounds the registrations per group life time. -/
theorem make_atom_wraps (g i : Nat) : MAKE_ATOM g (i + 2 ^ 28) = MAKE_ATOM g i := MAKE_ATOM_wrap g i

/-- `HAinit_group`'s test accepts exactly the powers of two -/
theorem hash_size_pow2 (n : Nat) (h0 : n ≠ 0) : n &&& (n - 1) = 0 ↔ ∃ k, n = 2 ^ k :=
  ⟨pow2_of_and n h0, fun ⟨k, hk⟩ => by rw [hk]; exact and_pred_pow2 k⟩

/-- why `adm` asks for `hash_size ≤ 2^28` (`HAinit_group` does not check it): with `2^29` buckets the lookup bucket of an
    id of an ODD group is `2^28` away from the bucket `HAregister_atom` put it in, so a freshly issued id is not found
    (C reproduction: /root/work/atom/repro/bighash.c; no caller in the library uses more than 256 buckets). -/
theorem hash_size_bound_needed (g i : Nat) (hg : g < 16) (hodd : g % 2 = 1) (hi : i < 2 ^ 28) :
    ATOM_TO_LOC (MAKE_ATOM g i) (2 ^ 29) = i % 2 ^ 29 + 2 ^ 28 := by
  rw [ATOM_TO_LOC_pow2 _ _ (by decide), MAKE_ATOM_eq g i hg]; omega

/-! ## refinement -/

/-- `run_refines_map`: on every admissible history the whole state machine (hash tables, chains, free list, cache with its
    promotions) returns, call by call, exactly what a plain finite map `id ⇀ obj` per group returns
    (`HAsearch_atom`: some live matching object, `NULL` iff none). -/
theorem run_refines_map (ops : List Op) (h : adm State.init ops = true) :
    SRun SState.init ops (runR State.init ops) :=
  (run_refines init_R ops h).2

example : adm State.init [.init 3 4, .register 3 7, .register 3 8, .object 805306369, .search 3 2 1, .remove 805306368,
    .destroy 3, .object 805306369] = true := by decide

/-! ## valid handles designate their object -/

/-- `register_lookup`: an id returned by `HAregister_atom g obj` resolves to `obj` after any continuation `post` in
    which the id is not removed and the group's init count does not return to 0 (`keeps`). -/
theorem register_lookup (pre post : List Op) (g : Int) (obj id : Nat)
    (hadm : adm State.init (pre ++ .register g obj :: post) = true)
    (hreg : resultAfter pre (.register g obj) = .atom id) (hid : id ≠ FAIL_ATOM)
    (hkeep : keeps id (after (pre ++ [.register g obj])) post = true) :
    resultAfter (pre ++ .register g obj :: post) (.object id) = .obj obj := by
  have hadm' : adm State.init ((pre ++ [.register g obj]) ++ post) = true := by simpa using hadm
  rw [adm_append, Bool.and_eq_true] at hadm'
  obtain ⟨hadm1, hadm2⟩ := hadm'
  have hadm0 : adm State.init pre = true := by
    rw [adm_append, Bool.and_eq_true] at hadm1; exact hadm1.1
  have hop : opOk (after pre) (.register g obj) = true := by
    rw [adm_append, Bool.and_eq_true] at hadm1
    have := hadm1.2; simp only [adm, Bool.and_true] at this; exact this
  have hR0 := reach pre hadm0
  have hst := step_refines hR0 (.register g obj) hop
  -- the spec says what the id is, and that the registration is now in the map
  have hres : Res.atom id = sres (mapAfter pre) (.register g obj) := by rw [← hreg]; exact hst.2
  simp only [sres] at hres
  by_cases hc : (badGroup g || (mapAfter pre g.toNat).count == 0) = true
  · simp only [hc, if_true] at hres; injection hres with hres; exact absurd hres hid
  · simp only [hc, if_false, Bool.false_eq_true] at hres
    injection hres with hres
    simp only [Bool.or_eq_true, not_or, Bool.not_eq_true] at hc
    obtain ⟨g', rfl, hg', hgn⟩ := badGroup_false hc.1
    have hg16 : g' < 16 := by have : MAXGROUP = 9 := rfl; omega
    rw [hgn] at hres hc
    have hgrp : ATOM_TO_GROUP id = g' := by rw [hres]; exact group_MAKE_ATOM g' _ hg16
    have hmem : (⟨id, obj⟩ : Info) ∈ (sstep (mapAfter pre) (.register (g' : Int) obj) (ATOM_TO_GROUP id)).live := by
      rw [hgrp]
      simp only [sstep, hc.1, hc.2, hgn, if_false, Bool.false_eq_true, upd_same]
      rw [hres]; exact List.mem_cons_self
    have hR1 : R (after (pre ++ [.register (g' : Int) obj])) (sstep (mapAfter pre) (.register (g' : Int) obj)) := by
      have : after (pre ++ [.register (g' : Int) obj]) = (step (after pre) (.register (g' : Int) obj)).1 := by
        simp [after, runS_append, runS]
      rw [this]; exact hst.1
    have hfin := keeps_live hR1 post hadm2 ⟨id, obj⟩ hmem hkeep
    have hRf := (run_refines hR1 post hadm2).1
    have hlk := slookup_of_mem hRf ⟨id, obj⟩ hfin
    have hobj := (step_object hRf id).2
    have : after (pre ++ .register (g' : Int) obj :: post) = runS (after (pre ++ [.register (g' : Int) obj])) post := by
      simp [after, runS_append, runS]
    simp only [resultAfter, step, this]
    rw [hobj, hlk]; rfl

example : keeps 805306368 (after ([.init 3 4] ++ [.register 3 7])) [.register 3 8, .object 805306369, .init 3 8, .destroy 3,
    .remove 805306369] = true := by decide

/-! ## valid handles never alias -/

/-- all registrations that are live after `ops`, over all groups -/
def allLive (ops : List Op) : List Info := (List.range MAXGROUP).flatMap (fun g => (mapAfter ops g).live)

/-- `live_ids_distinct`: after every admissible history the ids of the live registrations (of all groups together) are
    pairwise distinct. At the counter wrap this FAILS in C: `make_atom_wraps` shows that the `2^28`-th later registration
    of a group receives the id of an earlier one whether or not that one is still live – hence the bound in `adm`. -/
theorem live_ids_distinct (ops : List Op) (h : adm State.init ops = true) :
    (allLive ops).Pairwise (fun a b => a.id ≠ b.id) := by
  have hR := reach ops h
  unfold allLive
  rw [List.pairwise_flatMap]
  refine ⟨fun g hg => (hR.sinv g (List.mem_range.mp hg)).nodup, ?_⟩
  have hM : MAXGROUP = 9 := rfl
  have key : ∀ g1 g2, g1 < MAXGROUP → g2 < MAXGROUP → g1 ≠ g2 →
      ∀ x ∈ (mapAfter ops g1).live, ∀ y ∈ (mapAfter ops g2).live, x.id ≠ y.id := by
    intro g1 g2 h1 h2 hne x hx y hy heq
    obtain ⟨i, _, hi⟩ := (hR.sinv g1 h1).ids x hx
    obtain ⟨j, _, hj⟩ := (hR.sinv g2 h2).ids y hy
    have e1 := group_MAKE_ATOM g1 i (by omega)
    have e2 := group_MAKE_ATOM g2 j (by omega)
    rw [← hi, heq, hj, e2] at e1
    exact hne e1.symm
  have hlt : (List.range MAXGROUP).Pairwise (· < ·) := List.pairwise_lt_range
  refine List.Pairwise.imp_of_mem ?_ hlt
  intro a b ha hb hab
  exact key a b (List.mem_range.mp ha) (List.mem_range.mp hb) (by omega)

/-- what the counter wrap does in the model of the C code: after `HAinit_group(g, 1)`, a first registration of `a` (never
    removed) and `2^28 - 1` further registrations, the next `HAregister_atom(g, b)` returns the id of `a` again, and
    `HAatom_object` of that id now yields `b`: the handle of `a` silently designates another object. -/
theorem counter_wrap_aliases (g : Nat) (hg : g < MAXGROUP) (a b c : Nat) :
    let pre := [Op.init (g : Int) 1, .register (g : Int) a] ++ List.replicate (2 ^ 28 - 1) (.register (g : Int) c)
    (step (runS State.init [Op.init (g : Int) 1]) (.register (g : Int) a)).2 = .atom (MAKE_ATOM g 0) ∧
    (step (runS State.init pre) (.register (g : Int) b)).2 = .atom (MAKE_ATOM g 0) ∧
    (step (runS State.init (pre ++ [.register (g : Int) b])) (.object (MAKE_ATOM g 0))).2 = .obj b := by
  intro pre
  have hM : MAXGROUP = 9 := rfl
  have hg16 : g < 16 := by omega
  have hb : badGroup (g : Int) = false := by rw [badGroup_nat]; simp; omega
  -- state after init
  have hlen0 : State.init.groups.length = MAXGROUP := by simp [State.init]
  have hnl0 : State.init.nextIds.length = MAXGROUP := by decide
  have hnx0 : nextId State.init g = 0 := by
    have : ∀ k, k < 9 → nextId State.init k = 0 := by decide
    exact this g (by omega)
  have hget0 : getG State.init g = none := by
    simp [getG, State.init, List.getD_eq_getElem?_getD, List.getElem?_replicate, hg]
  let gp1 : Group := { count := 1, hashSize := 1, atoms := 0, atomList := [[]] }
  have hs1 : runS State.init [Op.init (g : Int) 1] = setG State.init g gp1 := by
    simp only [runS, step, initGroup, hb, Int.toNat_natCast, hget0]
    rfl
  have hlen1 : (setG State.init g gp1).groups.length = MAXGROUP := by simp [setG, hlen0]
  have hnl1 : (setG State.init g gp1).nextIds.length = MAXGROUP := hnl0
  have hnx1 : nextId (setG State.init g gp1) g = 0 := hnx0
  have hget1 : getG (setG State.init g gp1) g = some gp1 := by
    rw [getG_setG _ _ _ _ (by omega)]; simp
  have hU : UNSIGNED_BITS = 32 := rfl
  obtain ⟨hr1, hc1, hlen2, hnl2, hnx2, hget2⟩ := register_one _ g hg gp1 hlen1 hnl1 hget1 (by decide) a
  rw [hnx1] at hr1 hnx2 hget2
  have hnx2' : nextId (step (setG State.init g gp1) (.register (g : Int) a)).1 g = 1 := by rw [hnx2, hU]
  refine ⟨by rw [hs1]; exact hr1, ?_⟩
  -- the 2^28 - 1 further registrations
  have hpre : runS State.init pre =
      runS (step (setG State.init g gp1) (.register (g : Int) a)).1 (List.replicate (2 ^ 28 - 1) (.register (g : Int) c)) := by
    show runS State.init ([Op.init (g : Int) 1, .register (g : Int) a] ++ _) = _
    rw [runS_append]
    congr 1
    show runS (runS State.init [Op.init (g : Int) 1]) [.register (g : Int) a] = _
    rw [hs1]; rfl
  obtain ⟨gp', h1, h2, h3, h4, h5, h6, h7, h8⟩ := register_many (2 ^ 28 - 1) c g hg _ _ hlen2 hnl2 hget2 (by simp [regGroup, gp1]) rfl
    (by simp [regGroup, gp1]) (by rw [hnx2']; decide)
  rw [← hpre] at h1 h5 h6 h7 h8
  have hnext : nextId (runS State.init pre) g = 0 + 2 ^ 28 := by rw [h5, hnx2']
  obtain ⟨hr3, hc3, hlen3, _, _, hget3⟩ := register_one _ g hg gp' h7 h8 h1 h2 b
  have hid : MAKE_ATOM g (nextId (runS State.init pre) g) = MAKE_ATOM g 0 := by rw [hnext]; exact MAKE_ATOM_wrap g 0
  refine ⟨by rw [hr3, hid], ?_⟩
  -- the lookup: the cache is still the initial (empty) one, the chain head is the newest node
  have hfin : runS State.init (pre ++ [.register (g : Int) b]) = (step (runS State.init pre) (.register (g : Int) b)).1 := by
    rw [runS_append]; rfl
  rw [hfin]
  have hcache : (step (runS State.init pre) (.register (g : Int) b)).1.cache = State.init.cache := by
    rw [hc3, h6, hc1]; rfl
  have hne : (FAIL_ATOM == MAKE_ATOM g 0) = false := by
    simp only [beq_eq_false_iff_ne, ne_eq]
    intro h
    have := group_MAKE_ATOM g 0 hg16
    rw [← h, group_FAIL_ATOM] at this; omega
  have hgrp : ATOM_TO_GROUP (MAKE_ATOM g 0) = g := group_MAKE_ATOM g 0 hg16
  have hbg : badGroup (atomGroup (MAKE_ATOM g 0)) = false := by
    rw [badGroup_atomGroup, hgrp]; simp; omega
  rw [hnext] at hget3
  generalize (step (runS State.init pre) (.register (g : Int) b)).1 = s3 at hcache hget3
  have hinit : State.init.cache = ⟨emptySlot, emptySlot, emptySlot, emptySlot⟩ := by decide
  rw [hinit] at hcache
  simp only [step, atomObject, hcache, emptySlot, hne, if_false, Bool.false_eq_true]
  simp only [atomObjectSlow, findAtom, hbg, if_false, Bool.false_eq_true, atomGroup_toNat, hgrp, hget3]
  have e2 : ((regGroup g (0 + 2 ^ 28) gp' b).count == 0) = false := by simp [regGroup, h2]
  have h3' : (regGroup g (0 + 2 ^ 28) gp' b).hashSize = 1 := h3
  simp only [e2, if_false, Bool.false_eq_true, h3', ATOM_TO_LOC_one]
  simp only [regGroup, h3, Nat.mod_one]
  have hl : gp'.atomList.length = 1 := h4
  rw [getD_set _ _ _ _ _ (by omega)]
  have hid' : MAKE_ATOM g (0 + 2 ^ 28) = MAKE_ATOM g 0 := MAKE_ATOM_wrap g 0
  simp only [if_true, List.find?_cons, hid', beq_self_eq_true]

/-- `cache_coherent`: after every admissible history each cache slot is either unused (`-1`, `NULL`) or holds a live id
    together with that id's own object (preserved by the `SWAP_CACHE` promotions, by `HAremove_atom`'s single-slot
    sweep and by `HAdestroy_group`'s group sweep – this is the invariant `R.cache`/`R.cdist` of the induction) -/
theorem cache_coherent (ops : List Op) (h : adm State.init ops = true) :
    ∀ c ∈ (after ops).cache.toList, c = emptySlot ∨ Live ops c.id c.obj := by
  intro c hc
  rcases (reach ops h).cache c hc with h1 | h1
  · exact Or.inl h1
  · exact Or.inr (mem_of_slookup h1)

/-- no live id sits in two cache slots (what `HAremove_atom`'s `break` after the first hit relies on) -/
theorem cache_slots_distinct (ops : List Op) (h : adm State.init ops = true) :
    (after ops).cache.toList.Pairwise (fun a b => a.id = b.id → a.id = FAIL_ATOM) := (reach ops h).cdist

/-- `lookup_is_registered_object`: whenever `HAatom_object id` returns a non-NULL object `o` – from a cache slot or
    from the hash table – `(id, o)` is a live registration: never another id's object, never a released one. -/
theorem lookup_is_registered_object (ops : List Op) (id o : Nat) (h : adm State.init ops = true)
    (hres : resultAfter ops (.object id) = .obj o) (ho : o ≠ NULL) : Live ops id o := by
  have hR := reach ops h
  have := (step_object hR id).2
  simp only [resultAfter, step] at hres
  injection hres with hres
  rw [this] at hres
  cases hl : slookup (mapAfter ops) id with
  | none => rw [hl] at hres; exact absurd hres.symm ho
  | some o' => rw [hl] at hres; simp at hres; subst hres; exact mem_of_slookup hl

/-- conversely every live registration is found, with its own object -/
theorem live_is_found (ops : List Op) (id o : Nat) (h : adm State.init ops = true) (hl : Live ops id o) :
    resultAfter ops (.object id) = .obj o := by
  have hR := reach ops h
  have := slookup_of_mem hR ⟨id, o⟩ hl
  simp only [resultAfter, step, (step_object hR id).2, this]; rfl

/-! ## stale, foreign and never-issued handles are rejected -/

/-- `removed_rejected` (immediate part): directly after `HAremove_atom id` – whatever it returned – `HAatom_object id`
    and a second `HAremove_atom id` return `NULL`. -/
theorem removed_rejected_now (pre : List Op) (id : Nat) (h : adm State.init pre = true) :
    resultAfter (pre ++ [.remove id]) (.object id) = .obj NULL ∧
    resultAfter (pre ++ [.remove id]) (.remove id) = .obj NULL := by
  have hR := reach pre h
  have hst := step_refines hR (.remove id) rfl
  have hstate : after (pre ++ [.remove id]) = (step (after pre) (.remove id)).1 := by simp [after, runS_append, runS]
  simp only [resultAfter, hstate]
  apply object_of_none hst.1
  -- the map no longer contains `id`
  simp only [sstep]
  cases hl : slookup (mapAfter pre) id with
  | none => exact hl
  | some o =>
    simp only []
    have hg := slookup_some_group hR hl
    unfold slookup
    rw [upd_same]
    simp only []
    have := not_mem_eraseP_nodup _ id (hR.sinv _ hg).nodup
    cases hf : List.find? (fun e => e.id == id) (List.eraseP (fun e => e.id == id) (mapAfter pre (ATOM_TO_GROUP id)).live) with
    | none => rfl
    | some e =>
      obtain ⟨hm, hid⟩ := find?_id_some _ _ _ hf
      exact absurd hid (this e hm)

/-- `stale_rejected`: an id that was issued (`issued`) and is not live (`isLive = false`: it was removed, its group was
    destroyed, or the library was shut down) is rejected by `HAatom_object` and `HAremove_atom` after ANY admissible
    continuation – including `HAdestroy_group` + `HAinit_group` of its group and `HAshutdown` + re-creation. -/
theorem stale_rejected (pre post : List Op) (id : Nat)
    (hadm : adm State.init (pre ++ post) = true)
    (hiss : issued (after pre) id = true) (hdead : isLive (after pre) id = false) :
    resultAfter (pre ++ post) (.object id) = .obj NULL ∧ resultAfter (pre ++ post) (.remove id) = .obj NULL := by
  rw [adm_append, Bool.and_eq_true] at hadm
  have hR := reach pre hadm.1
  have hst := sstale_run hR post hadm.2 id (sstale_of_model hR id hiss hdead)
  have hRf := (run_refines hR post hadm.2).1
  have : after (pre ++ post) = runS (after pre) post := by simp [after, runS_append]
  simp only [resultAfter, this]
  exact object_of_none hRf id hst.1

/-- `removed_rejected`: after a successful `HAremove_atom id` the id stays rejected for ever (any admissible continuation) -/
theorem removed_rejected (pre post : List Op) (id o : Nat)
    (hadm : adm State.init (pre ++ .remove id :: post) = true)
    (hrem : resultAfter pre (.remove id) = .obj o) (ho : o ≠ NULL) :
    resultAfter (pre ++ .remove id :: post) (.object id) = .obj NULL ∧
    resultAfter (pre ++ .remove id :: post) (.remove id) = .obj NULL := by
  have hadm' : adm State.init ((pre ++ [.remove id]) ++ post) = true := by simpa using hadm
  have e : pre ++ .remove id :: post = (pre ++ [.remove id]) ++ post := by simp
  rw [e]
  have hadm1 : adm State.init (pre ++ [.remove id]) = true := by
    rw [adm_append, Bool.and_eq_true] at hadm'; exact hadm'.1
  have hadm0 : adm State.init pre = true := by
    rw [adm_append, Bool.and_eq_true] at hadm1; exact hadm1.1
  have hR0 := reach pre hadm0
  have hR1 := reach _ hadm1
  -- it was live, hence issued; remove does not touch the counter
  have hst := step_refines hR0 (.remove id) rfl
  have hres : Res.obj o = sres (mapAfter pre) (.remove id) := by rw [← hrem]; exact hst.2
  simp only [sres] at hres
  injection hres with hres
  cases hl : slookup (mapAfter pre) id with
  | none => rw [hl] at hres; exact absurd hres ho
  | some o' =>
    have hg := slookup_some_group hR0 hl
    have hmem := mem_of_slookup hl
    obtain ⟨i, hi, hid⟩ := (hR0.sinv _ hg).ids _ hmem
    have hb := (hR0.sinv _ hg).bound
    have hg16 : ATOM_TO_GROUP id < 16 := by have : MAXGROUP = 9 := rfl; omega
    have hi' : i < (mapAfter pre (ATOM_TO_GROUP id)).nextid := hi
    have hid' : id = MAKE_ATOM (ATOM_TO_GROUP id) i := hid
    have hctr : id % 2 ^ 28 < (mapAfter pre (ATOM_TO_GROUP id)).nextid := by
      have := counter_MAKE_ATOM (ATOM_TO_GROUP id) i hg16
      have hlt : i < 2 ^ 28 := by omega
      rw [← hid', Nat.mod_eq_of_lt hlt] at this
      omega
    refine stale_rejected (pre ++ [.remove id]) post id hadm' ?_ ?_
    · -- issued
      have hstate : after (pre ++ [.remove id]) = (step (after pre) (.remove id)).1 := by simp [after, runS_append, runS]
      have h0 := hst.1.nx _ hg
      simp only [sstep, hl, upd_same] at h0
      unfold issued
      rw [hstate]
      have hA : ATOM_BITS = 28 := rfl
      simp only [hg, decide_true, Bool.true_and, decide_eq_true_eq, hA, h0]; exact hctr
    · -- not live any more
      have hnow := (removed_rejected_now pre id hadm0).1
      unfold isLive
      rw [tableFind_spec hR1 id]
      have hobj := (step_object hR1 id).2
      simp only [resultAfter, step] at hnow
      injection hnow with hnow
      rw [hobj] at hnow
      cases hf : (srunS SState.init (pre ++ [.remove id]) (ATOM_TO_GROUP id)).live.find? (fun e => e.id == id) with
      | none => rfl
      | some e =>
        exfalso
        -- a live entry would make the map answer non-empty; but then `slookup` is `some`, contradiction with staleness via nodup
        have hRm := hst.1
        have : slookup (sstep (mapAfter pre) (.remove id)) id = none := by
          simp only [sstep, hl]
          unfold slookup
          rw [upd_same]
          simp only []
          have hnd := not_mem_eraseP_nodup _ id (hR0.sinv _ hg).nodup
          cases hf' : List.find? (fun e => e.id == id) (List.eraseP (fun e => e.id == id) (mapAfter pre (ATOM_TO_GROUP id)).live) with
          | none => rfl
          | some e' =>
            obtain ⟨hm, hid'⟩ := find?_id_some _ _ _ hf'
            exact absurd hid' (hnd e' hm)
        have hsame : srunS SState.init (pre ++ [.remove id]) = sstep (mapAfter pre) (.remove id) := by
          simp [mapAfter, srunS_append, srunS]
        rw [hsame] at hf
        unfold slookup at this
        rw [hf] at this
        cases this

/-- hypotheses of `removed_rejected` on a history with collisions in a 2-bucket table, a cached id being removed and
    nested inits afterwards -/
example : adm State.init ([.init 4 2, .register 4 11, .register 4 12, .register 4 13, .object 1073741826] ++
      .remove 1073741826 :: [.init 4 8, .register 4 14, .destroy 4, .object 1073741824]) = true ∧
    resultAfter [.init 4 2, .register 4 11, .register 4 12, .register 4 13, .object 1073741826] (.remove 1073741826) = .obj 13 := by
  decide

/-- `never_issued_rejected`: an id that no `HAregister_atom` has produced (invalid group bits, a group that was never
    initialised, or a counter at or beyond the group's `nextid`) is rejected. -/
theorem never_issued_rejected (ops : List Op) (id : Nat) (h : adm State.init ops = true)
    (hni : issued (after ops) id = false) :
    resultAfter ops (.object id) = .obj NULL ∧ resultAfter ops (.remove id) = .obj NULL := by
  have hR := reach ops h
  apply object_of_none hR
  cases hl : slookup (mapAfter ops) id with
  | none => rfl
  | some o =>
    exfalso
    have hg := slookup_some_group hR hl
    have hc := slookup_some_count hR hl
    obtain ⟨i, hi, hid⟩ := (hR.sinv _ hg).ids _ (mem_of_slookup hl)
    have hb := (hR.sinv _ hg).bound
    have hg16 : ATOM_TO_GROUP id < 16 := by have : MAXGROUP = 9 := rfl; omega
    have hctr := counter_MAKE_ATOM (ATOM_TO_GROUP id) i hg16
    have hi' : i < (mapAfter ops (ATOM_TO_GROUP id)).nextid := hi
    have hid' : id = MAKE_ATOM (ATOM_TO_GROUP id) i := hid
    have hlt : i < 2 ^ 28 := by omega
    rw [← hid', Nat.mod_eq_of_lt hlt] at hctr
    unfold issued at hni
    have hA : ATOM_BITS = 28 := rfl
    simp only [hg, decide_true, Bool.true_and, decide_eq_false_iff_not, hA] at hni
    rw [hR.nx _ hg] at hni; omega

/-- never issued: counter beyond `nextid`, a valid but uninitialised group, group bits 9..15, `FAIL` itself -/
example : let ops := [Op.init 4 2, .register 4 11, .register 4 12]
    issued (after ops) 1073741826 = false ∧ issued (after ops) 805306368 = false ∧
    issued (after ops) 2415919104 = false ∧ issued (after ops) FAIL_ATOM = false ∧ issued (after ops) 1073741825 = true := by
  decide

/-- `wrong_group_rejected`: an id whose group bits name no group (`>= MAXGROUP`; this includes `FAIL` = -1) gets
    `BADGROUP` from `HAatom_group` and `NULL` from lookup and removal; an id of a group whose init count is 0 (never
    initialised, or destroyed) gets `NULL`; and `HAregister_atom`/`HAdestroy_group` in such a group fail. -/
theorem wrong_group_rejected (ops : List Op) (id : Nat) (h : adm State.init ops = true) :
    (MAXGROUP ≤ ATOM_TO_GROUP id → resultAfter ops (.group id) = .grp BADGROUP) ∧
    (MAXGROUP ≤ ATOM_TO_GROUP id ∨ groupCount (after ops) (ATOM_TO_GROUP id) = 0 →
      resultAfter ops (.object id) = .obj NULL ∧ resultAfter ops (.remove id) = .obj NULL) ∧
    (∀ (g : Int) (obj : Nat), badGroup g = true ∨ groupCount (after ops) g.toNat = 0 →
      resultAfter ops (.register g obj) = .atom FAIL_ATOM ∧ resultAfter ops (.destroy g) = .status FAIL) := by
  have hR := reach ops h
  refine ⟨?_, ?_, ?_⟩
  · intro hg
    simp only [resultAfter, step, atomGroupOf, badGroup_atomGroup, hg, decide_true, if_true]
  · intro hg
    apply object_of_none hR
    apply slookup_empty
    rcases hg with hg | hg
    · exact (hR.out _ hg).1
    · rcases Nat.lt_or_ge (ATOM_TO_GROUP id) MAXGROUP with hlt | hge
      · rw [groupCount_eq hR _ hlt] at hg; exact (hR.sinv _ hlt).dead hg
      · exact (hR.out _ hge).1
  · intro g obj hg
    have h1 := (step_refines hR (.register g obj) (by
      simp only [opOk]
      rcases hg with hg | hg
      · simp [hg]
      · by_cases hb : badGroup g = true
        · simp [hb]
        · simp only [hb, if_false, Bool.false_eq_true]
          unfold groupCount at hg
          cases hget : getG (after ops) g.toNat with
          | none => rfl
          | some gp => rw [hget] at hg; simp at hg; simp [hg])).2
    have h2 := (step_refines hR (.destroy g) rfl).2
    simp only [SOk, sres] at h1 h2
    have hcond : (badGroup g || (mapAfter ops g.toNat).count == 0) = true := by
      rcases hg with hg | hg
      · simp [hg]
      · by_cases hb : badGroup g = true
        · simp [hb]
        · have hb' : badGroup g = false := by simpa using hb
          obtain ⟨g', rfl, hg', hgn⟩ := badGroup_false hb'
          rw [hgn] at hg ⊢
          rw [groupCount_eq hR _ hg'] at hg
          simp [hg]
    simp only [hcond, if_true] at h1 h2
    exact ⟨h1, h2⟩

/-! ## re-initialisation and shutdown: stale ids stay rejected -/

/-- `HAdestroy_group` does not touch the id counters -/
theorem destroy_keeps_nextIds (s : State) (g : Int) : (destroyGroup s g).1.nextIds = s.nextIds := by
  unfold destroyGroup
  by_cases hb : badGroup g = true
  · simp only [hb, if_true]
  · simp only [hb, if_false, Bool.false_eq_true]
    cases getG s g.toNat with
    | none => rfl
    | some gp =>
      simp only []
      by_cases hc : (gp.count == 0) = true
      · simp only [hc, if_true]
      · simp only [hc, if_false, Bool.false_eq_true]
        by_cases h1 : (gp.count - 1 == 0) = true
        · simp only [h1, if_true]; rfl
        · simp only [h1, if_false, Bool.false_eq_true]; rfl

/-- no id of a group whose init count is 0 is in a table -/
theorem isLive_of_count_zero (s : State) (id : Nat) (h : groupCount s (ATOM_TO_GROUP id) = 0) : isLive s id = false := by
  unfold isLive tableFind
  rw [atomGroup_toNat]
  unfold groupCount at h
  split
  · rfl
  · cases hget : getG s (ATOM_TO_GROUP id) with
    | none => rfl
    | some gp => rw [hget] at h; simp only [] at h; simp [h]

/-- the full-strength `destroy_then_init_clean`: after the last `HAdestroy_group g` followed by `HAinit_group g`, no id
    that group `g` issued before resolves, whatever happens afterwards. -/
def DestroyThenInitClean : Prop :=
  ∀ (pre post : List Op) (g : Int) (hs id : Nat),
    adm State.init (pre ++ .destroy g :: .init g hs :: post) = true →
    issued (after pre) id = true → atomGroup id = g →
    groupCount (after (pre ++ [.destroy g])) g.toNat = 0 →
    resultAfter (pre ++ .destroy g :: .init g hs :: post) (.object id) = .obj NULL

/-- `destroy_then_init_clean` holds: the id counter `atom_next_id[g]` is not part of the group record, so a re-created
    group continues where the destroyed one stopped and an old id is never handed out for a new object.
    (Before the repair of atom.c – `nextid` restarted at 0 – the negation of this statement was proved at a concrete
    history and reproduced on the library; the engine oracle `atom-id-reissued` keeps watching for it.) -/
theorem destroy_then_init_clean : DestroyThenInitClean := by
  intro pre post g hs id hadm hiss hgrp hcnt
  subst hgrp
  rw [atomGroup_toNat] at hcnt
  have e : pre ++ .destroy (atomGroup id) :: .init (atomGroup id) hs :: post =
      (pre ++ [.destroy (atomGroup id)]) ++ (.init (atomGroup id) hs :: post) := by simp
  rw [e] at hadm ⊢
  refine (stale_rejected _ _ id hadm ?_ (isLive_of_count_zero _ id hcnt)).1
  have hstate : after (pre ++ [.destroy (atomGroup id)]) = (destroyGroup (after pre) (atomGroup id)).1 := by
    simp [after, runS_append, runS, step]
  unfold issued nextId at hiss ⊢
  rw [hstate, destroy_keeps_nextIds]; exact hiss

/-- the history that used to refute the statement (init; register → id; destroy; init; register → the SAME id; lookup
    of the stale id → the new object), on the repaired code: the second registration gets the next id, the stale id is
    rejected by lookup and removal, the new handle works -/
example : runR State.init [.init 6 8, .register 6 100, .remove 1610612736, .object 1610612736, .destroy 6, .init 6 8,
      .register 6 200, .object 1610612736, .remove 1610612736, .object 1610612737]
    = [.status 0, .atom 1610612736, .obj 100, .obj 0, .status 0, .status 0, .atom 1610612737, .obj 0, .obj 0, .obj 200] := by
  decide

/-- the hypotheses of `DestroyThenInitClean` / `stale_rejected` are satisfiable on a history that destroys the group
    completely, re-creates it with another table size and registers again -/
example : adm State.init ([.init 6 2, .register 6 100, .register 6 101, .object 1610612737] ++ .destroy 6 :: .init 6 4 ::
      [.register 6 102, .object 1610612737, .shutdown, .init 6 1, .register 6 103]) = true ∧
    issued (after [.init 6 2, .register 6 100, .register 6 101, .object 1610612737]) 1610612737 = true ∧
    groupCount (after ([.init 6 2, .register 6 100, .register 6 101, .object 1610612737] ++ [.destroy 6])) 6 = 0 := by
  decide

/-! ## `HAshutdown` -/

/-- after `HAshutdown` every group is gone … -/
theorem shutdown_clears_groups (s : State) (g : Nat) : getG (shutdown s) g = none := by
  simp only [getG, shutdown, List.getD_eq_getElem?_getD, List.getElem?_replicate]
  split <;> rfl

/-- … and every cache slot is empty (the repair `fix: HAshutdown empties the atom cache`) -/
theorem shutdown_clears_cache (s : State) : (shutdown s).cache.toList = [emptySlot, emptySlot, emptySlot, emptySlot] := rfl

/-- `shutdown_rejects_everything`: directly after `HAshutdown` no id whatsoever resolves or can be removed – in particular
    not one that sat in the cache. -/
theorem shutdown_rejects_everything (ops : List Op) (id : Nat) (h : adm State.init ops = true) :
    resultAfter (ops ++ [.shutdown]) (.object id) = .obj NULL ∧ resultAfter (ops ++ [.shutdown]) (.remove id) = .obj NULL := by
  have hadm : adm State.init (ops ++ [.shutdown]) = true := by
    rw [adm_append, h]; rfl
  refine (wrong_group_rejected _ id hadm).2.1 (Or.inr ?_)
  have hstate : after (ops ++ [.shutdown]) = shutdown (after ops) := by simp [after, runS_append, runS, step]
  unfold groupCount
  rw [hstate, shutdown_clears_groups]

/-- the history that used to show the stale cache (lookup caches the id; shutdown; lookup still answered; init; register
    re-issued the id and the lookup returned the OLD object), on the repaired code -/
example : runR State.init [.init 6 8, .register 6 100, .object 1610612736, .shutdown, .object 1610612736, .init 6 8,
      .register 6 200, .object 1610612736, .object 1610612737]
    = [.status 0, .atom 1610612736, .obj 100, .status 0, .obj 0, .status 0, .atom 1610612737, .obj 0, .obj 200] := by
  decide

end H4.Props.C13
