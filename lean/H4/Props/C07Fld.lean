import H4.Lemmas.C07FldSet12
/-! C07 / C20, function-level Tie A: the Vdata schema functions `VSfdefine` and `VSsetfields` of `hdf/src/vsfld.c` and `DFKNTsize` of
    `hdf/src/dfconv.c`, as translated statement by statement from the CURRENT C text (`H4.Gen.Fn.Vsfld`, `H4.Gen.Fn.Dfconv`, written by
    gen/c2lean.py on every run), compute the hand-written models the C07 / C20 theorems are about:

    * `DFKNTsize`            = `ntsize`, i.e. the size table `H4.VData.ntInfo` (for every `int32` argument),
    * `VSfdefine`            = `H4.VData.vsfdefineTok` (the body of `vsfdefine` behind its `scanattrs` name test),
    * `VSsetfields`          = `H4.VData.VS.setFieldsTok` (the body of `VS.setFields` behind `scanattrs`): `buildWList` incl. the
                               predefined fields `rstab[]`, `buildRList`,
    * the limit predicates of `H4.Limits` (`fdefineOk`, `setfields`: C20) agree with these on their common ground.

    OUTSIDE the translated text (trusted base, stated in the generated doc comments): `scanattrs` (vparse.c: static token tables) — its
    answer `scan_ret`, the count `ac` and the rows `av[i]` = token, NUL, anything are ENTRY PARAMETERS, quantified over here; the
    atom lookups `HAatom_group` (answer = parameter `vkey_group`) and `HAatom_object` (the vdata `w->vs` = the members `vs_…`);
    `malloc` / `realloc` / `strdup` never fail.  `usym[]` (array of structs with a `char *name`) = one region per member, the names
    an array of rows; the five `uint16` arrays of the write list live inside the one block `bptr` (`VsImg`).
    A change of the C text changes the generated definitions; these theorems are re-checked against them. -/
namespace H4.Props.C07Fld
open H4 H4.VData H4.Gen.Hdf H4.Gen.Vs H4.Gen.Fn.Dfconv H4.Gen.Fn.Vsfld H4.VsfldEnc H4.Lemmas.C07Fld

/-! ## `DFKNTsize` -/

/-- **`DFKNTsize` as translated from dfconv.c is the model's size table**, for every `int32` type code: no undefined behaviour,
    the result is `ntInfo t`'s `tsz`, `FAIL` (-1) for a code the table does not have (negative, `DFNT_CUSTOM`, ≥ 2·`DFNT_LITEND`, …). -/
theorem DFKNTsize_refines (fuel : Nat) (t : Int) (h1 : -2147483648 ≤ t) (h2 : t < 2147483648) :
    let s := DFKNTsize fuel t
    s.ub = false ∧ s.oof = false ∧ s.ret = (if t < 0 then -1 else match ntInfo t.toNat with | some nt => (nt.tsz : Int) | none => -1) := by
  intro s
  have : s = _ := DFKNTsize_spec fuel t h1 h2
  rw [this]
  exact ⟨rfl, rfl, rfl⟩

example : (DFKNTsize 0 24).ret = 4 ∧ (DFKNTsize 0 (24 + 4096 + 16384)).ret = 4 ∧ (DFKNTsize 0 6).ret = 8 ∧ (DFKNTsize 0 7).ret = -1
    ∧ (DFKNTsize 0 (-5)).ret = -1 ∧ (DFKNTsize 0 (8192 + 24)).ret = -1 ∧ (DFKNTsize 0 24).ub = false := by decide

/-! ## `VSfdefine` -/

/-- **`VSfdefine` as translated from vsfld.c computes `vsfdefineTok`.**  For EVERY symbol table `usym` (names C strings of single-byte
    characters, fewer than 32767 symbols — `nusym` is an `int16`), every token `tok` that `scanattrs` delivered (`av[0]` = the token, its
    NUL, anything behind; further rows arbitrary), every `int32` type and order:
    no undefined behaviour, the loop terminates, and
    * the model accepts ⇒ the C returns `SUCCEED` and `vs->usym[]` / `vs->nusym` are the model's new table (redefinition in place, else
      appended; `realloc` by one element);
    * the model refuses ⇒ the C returns `FAIL` and NOTHING of the vdata has changed. -/
theorem VSfdefine_refines (usym : List SymDef) (hn : ∀ sd ∈ usym, NameOK sd.name) (hlen : usym.length < 32767)
    (unull : Bool) (hnull : unull = true → usym = []) (tok : String) (htok : NameOK tok) (pad : List Int) (rest : List (List Int))
    (t order vkey scan_ret : Int) (h32 : -2147483648 ≤ t ∧ t < 2147483648) (hs : scan_ret ≠ -1) (fuel : Nat) (hf : usym.length ≤ fuel) :
    let s := VSfdefine fuel vkey t order 1 ((chars tok ++ 0 :: pad) :: rest) VSIDGROUP false false scan_ret usym.length (nameRows usym) unull
      (isizeCol usym) (typeCol usym) (orderCol usym)
    s.ub = false ∧ s.oof = false ∧
    match vsfdefineI usym tok t order with
    | some u' => s.ret = 0 ∧ s.vs_nusym = u'.length ∧ s.vs_usym_name = nameRows u' ∧ s.vs_usym_isize = isizeCol u' ∧
        s.vs_usym_type = typeCol u' ∧ s.vs_usym_order = orderCol u' ∧ s.vs_usym_null = false
    | none => s.ret = -1 ∧ s.vs_nusym = usym.length ∧ s.vs_usym_name = nameRows usym ∧ s.vs_usym_isize = isizeCol usym ∧
        s.vs_usym_type = typeCol usym ∧ s.vs_usym_order = orderCol usym ∧ s.vs_usym_null = unull := by
  intro s
  rw [vsfdefineI_eq]
  by_cases hl : FdLimits t order
  · rw [if_pos hl]
    obtain ⟨ho1, ho2, hnt, hsz⟩ := hl
    have := VSfdefine_accept usym hn tok htok pad rest t order vkey scan_ret h32 hs unull hnull hlen fuel hf ho1 ho2 hnt hsz
    simp only at this
    exact ⟨this.1, this.2.1, this.2.2⟩
  · rw [if_neg hl]
    have := VSfdefine_refuse fuel vkey t order 1 ((chars tok ++ 0 :: pad) :: rest) VSIDGROUP false false scan_ret usym.length (nameRows usym) unull
      (isizeCol usym) (typeCol usym) (orderCol usym) h32 (by intro h; exact hl ⟨h.2.2.2.2.2.1, h.2.2.2.2.2.2.1, h.2.2.2.2.2.2.2.1, h.2.2.2.2.2.2.2.2⟩)
    simp only at this
    exact ⟨this.1, this.2.1, this.2.2⟩

/-- the hand-written `vsfdefine` of the C07 theorems is `vsfdefineTok` behind the name test that stands for `scanattrs(field)`
    delivering exactly one token (`ac != 1` is refused) -/
theorem vsfdefine_is_tok (usym : List SymDef) (name : String) (t o : Nat) :
    vsfdefine usym name t o = if name.isEmpty ∨ name.contains ',' then none else vsfdefineTok usym name t o := rfl

/-- **refused at the entry tests** (not a vdata key, no instance, no vdata, `scanattrs` failed or delivered ≠ 1 token, order or size out of
    range): `FAIL`, no undefined behaviour, the symbol table untouched — for ARBITRARY regions (whatever `av` holds) -/
theorem VSfdefine_refused_unchanged (fuel : Nat) (vkey t order ac : Int) (av : List (List Int)) (group : Int) (wnull vsnull : Bool)
    (scan_ret nusym : Int) (names : List (List Int)) (unull : Bool) (isz typ ord : List Int) (h32 : -2147483648 ≤ t ∧ t < 2147483648)
    (hbad : group ≠ VSIDGROUP ∨ wnull = true ∨ vsnull = true ∨ scan_ret = -1 ∨ ac ≠ 1 ∨ ¬ FdLimits t order) :
    let s := VSfdefine fuel vkey t order ac av group wnull vsnull scan_ret nusym names unull isz typ ord
    s.ub = false ∧ s.oof = false ∧ s.ret = -1 ∧ s.vs_nusym = nusym ∧ s.vs_usym_name = names ∧ s.vs_usym_isize = isz ∧
      s.vs_usym_type = typ ∧ s.vs_usym_order = ord ∧ s.vs_usym_null = unull := by
  apply VSfdefine_refuse fuel vkey t order ac av group wnull vsnull scan_ret nusym names unull isz typ ord h32
  intro h
  obtain ⟨g1, g2, g3, g4, g5, g6, g7, g8, g9⟩ := h
  rcases hbad with b | b | b | b | b | b
  · exact b g1
  · rw [g2] at b; cases b
  · rw [g3] at b; cases b
  · exact g4 b
  · exact b g5
  · exact b ⟨g6, g7, g8, g9⟩

/-- the hypotheses are satisfiable and the translated code runs (kernel evaluation): a new field, a redefinition, a refused order -/
example :
    let u : List SymDef := [⟨"ab", 24, 4, 2⟩]
    (∀ sd ∈ u, NameOK sd.name) ∧ NameOK "Temp" ∧
    (let s := runFdefine 3 u "Temp" 22 3
     s.ub = false ∧ s.oof = false ∧ s.ret = 0 ∧ s.vs_nusym = 2 ∧ s.vs_usym_name = nameRows (u ++ [⟨"Temp", 22, 2, 3⟩]) ∧ s.vs_usym_isize = [4, 2]) ∧
    (let s := runFdefine 3 u "ab" 6 1
     s.ret = 0 ∧ s.vs_nusym = 1 ∧ s.vs_usym_type = [6] ∧ s.vs_usym_isize = [8]) ∧
    (let s := runFdefine 3 u "x" 24 16384
     s.ub = false ∧ s.ret = -1 ∧ s.vs_nusym = 1 ∧ s.vs_usym_name = nameRows u) := by decide

/-! ## `VSsetfields` -/

/-- **`VSsetfields` as translated from vsfld.c computes `VS.setFieldsTok`.**  For EVERY model vdata `v` (user symbols valid as `VSfdefine`
    leaves them, names C strings of single-byte characters, `ivsize = 0` while there is no field) whose C image the arguments are
    (`VsImg`: any access mode, any record count, any write list with its five arrays inside `bptr`, any symbol table, any read list),
    every list of names `scanattrs` delivered (`ac = |names|` — also 0, also more than `VSFIELDMAX`; `av[i]` = name, NUL, anything):
    no undefined behaviour — also for the `VSFIELDMAX`-th field and for names of `FIELDNAMELENMAX` characters, every length is covered —,
    all eight loops terminate, the return value is `SUCCEED` exactly when the model accepts, and the vdata afterwards is the C image of
    the model's: on an empty writable vdata the write list `buildWList` (user symbols before the predefined ones `rstab[]`, `esize`,
    `isize`, offsets, `ivsize` with its `MAX_FIELD_SIZE` tests); on a vdata with records the read list `buildRList`.
    `marked` / `new_h_sz` are set exactly when a write list was built. -/
theorem VSsetfields_refines (v : VS) (names : List String) (pads : List (List Int)) (fuel : Nat)
    (hpl : pads.length = names.length) (hnames : ∀ nm ∈ names, NameOK nm) (hus : ∀ sd ∈ v.usym, sd.Valid ∧ NameOK sd.name)
    (hwf : ∀ f ∈ v.w.fields, NameOK f.name) (hw0 : v.w.n = 0 → v.w.ivsize = 0)
    (vkey scan_ret acc marked newhsz t1 t2 t3 t4 t5 : Int) (hs : scan_ret ≠ -1) (hacc : acc = 119 ↔ v.writable = true)
    (hcur : v.w.fields ≠ [] → t1 = 0 ∧ t2 = v.w.n ∧ t3 = 2 * v.w.n ∧ t4 = 3 * v.w.n ∧ t5 = 4 * v.w.n)
    (item : List Int) (hitem : ∀ j, j < v.rlist.length → item.getD j 0 = ((v.rlist.getD j 0 : Nat) : Int)) (inull : Bool)
    (hf : names.length + v.usym.length + v.w.fields.length + 9 ≤ fuel) :
    let s := VSsetfields fuel vkey false names.length (avRows names pads) VSIDGROUP false false scan_ret acc v.nvertices v.w.n v.w.ivsize
      (wBptr v.w) v.w.fields.isEmpty t1 t2 t3 t4 t5 (wNames v.w) v.w.fields.isEmpty v.usym.length (nameRows v.usym) (orderCol v.usym)
      (typeCol v.usym) (isizeCol v.usym) marked newhsz v.rlist.length item inull
    s.ub = false ∧ s.oof = false ∧ s.ret = (if (v.setFieldsTok names).2 = true then 0 else -1) ∧ VsImg (v.setFieldsTok names).1 s ∧
      (if (v.writable = true ∧ v.nvertices = 0 ∧ v.w.n = 0) ∧ (v.setFieldsTok names).2 = true
       then s.vs_marked = 1 ∧ s.vs_new_h_sz = 1 else s.vs_marked = marked ∧ s.vs_new_h_sz = newhsz) := by
  intro s
  have hs' : s = _ := VSsetfields_pieces ..
  rw [hs']
  exact sf_model v names pads fuel _ hpl hnames hus hwf hw0 ⟨rfl, rfl, rfl⟩ rfl rfl
    ⟨hacc, rfl, rfl, rfl, rfl, rfl, rfl, rfl, hcur, rfl, rfl, rfl, rfl, rfl, rfl, hitem⟩ ⟨rfl, rfl, rfl, rfl, hs⟩ rfl rfl hf

/-- what a refused `VSsetfields` leaves behind, in the model: the vdata itself, except that a refused READ list (vdata with records)
    keeps the indices found so far in `rlist` — the write list is never half-built (commit bafc8f1) -/
theorem setFieldsTok_refused (v : VS) (names : List String) (h : (v.setFieldsTok names).2 = false) :
    (v.setFieldsTok names).1 = v ∨ (v.nvertices > 0 ∧ (v.setFieldsTok names).1 = { v with rlist := (buildRList v.w names).1 }) := by
  unfold VS.setFieldsTok at h ⊢
  split
  · left; rfl
  · split
    · split
      · left; rfl
      · rename_i w hw
        rw [if_neg (by assumption), if_pos (by assumption), hw] at h
        cases h
    · split
      · right; rename_i hnv; exact ⟨hnv, rfl⟩
      · left; rfl

/-- **atomicity on the C text**: a refused `VSsetfields` leaves the write list, the symbol table, the access mode and the record count
    exactly as they were (`VsImg` of the SAME `v` but for `rlist`), whatever was refused and wherever in the list -/
theorem VSsetfields_refused_unchanged (v : VS) (names : List String) (pads : List (List Int)) (fuel : Nat)
    (hpl : pads.length = names.length) (hnames : ∀ nm ∈ names, NameOK nm) (hus : ∀ sd ∈ v.usym, sd.Valid ∧ NameOK sd.name)
    (hwf : ∀ f ∈ v.w.fields, NameOK f.name) (hw0 : v.w.n = 0 → v.w.ivsize = 0)
    (vkey scan_ret acc marked newhsz t1 t2 t3 t4 t5 : Int) (hs : scan_ret ≠ -1) (hacc : acc = 119 ↔ v.writable = true)
    (hcur : v.w.fields ≠ [] → t1 = 0 ∧ t2 = v.w.n ∧ t3 = 2 * v.w.n ∧ t4 = 3 * v.w.n ∧ t5 = 4 * v.w.n)
    (item : List Int) (hitem : ∀ j, j < v.rlist.length → item.getD j 0 = ((v.rlist.getD j 0 : Nat) : Int)) (inull : Bool)
    (hf : names.length + v.usym.length + v.w.fields.length + 9 ≤ fuel) (href : (v.setFieldsTok names).2 = false) :
    let s := VSsetfields fuel vkey false names.length (avRows names pads) VSIDGROUP false false scan_ret acc v.nvertices v.w.n v.w.ivsize
      (wBptr v.w) v.w.fields.isEmpty t1 t2 t3 t4 t5 (wNames v.w) v.w.fields.isEmpty v.usym.length (nameRows v.usym) (orderCol v.usym)
      (typeCol v.usym) (isizeCol v.usym) marked newhsz v.rlist.length item inull
    s.ret = -1 ∧ s.vs_wlist_n = v.w.n ∧ s.vs_wlist_ivsize = v.w.ivsize ∧ s.vs_wlist_bptr = wBptr v.w ∧ s.vs_wlist_name = wNames v.w ∧
      s.vs_wlist_bptr_null = v.w.fields.isEmpty ∧ s.vs_wlist_name_null = v.w.fields.isEmpty ∧
      s.vs_nusym = v.usym.length ∧ s.vs_usym_name = nameRows v.usym ∧ s.vs_usym_type = typeCol v.usym ∧
      s.vs_usym_isize = isizeCol v.usym ∧ s.vs_usym_order = orderCol v.usym ∧ s.vs_nvertices = v.nvertices ∧
      s.vs_marked = marked ∧ s.vs_new_h_sz = newhsz := by
  intro s
  have hm := VSsetfields_refines v names pads fuel hpl hnames hus hwf hw0 vkey scan_ret acc marked newhsz t1 t2 t3 t4 t5 hs hacc hcur item hitem inull hf
  simp only at hm
  obtain ⟨_, _, g3, g4, g5⟩ := hm
  rw [href] at g3 g5
  simp only [Bool.false_eq_true, if_false, and_false] at g3 g5
  have hv : (v.setFieldsTok names).1.w = v.w ∧ (v.setFieldsTok names).1.usym = v.usym ∧ (v.setFieldsTok names).1.nvertices = v.nvertices := by
    rcases setFieldsTok_refused v names href with e | ⟨_, e⟩ <;> rw [e]
    exact ⟨rfl, rfl, rfl⟩
    exact ⟨rfl, rfl, rfl⟩
  obtain ⟨e1, e2, e3⟩ := hv
  exact ⟨g3, by rw [g4.wn, e1], by rw [g4.wiv, e1], by rw [g4.wb, e1], by rw [g4.wnm, e1], by rw [g4.wbn, e1], by rw [g4.wnn, e1],
    by rw [g4.un, e2], by rw [g4.u1, e2], by rw [g4.u2, e2], by rw [g4.u3, e2], by rw [g4.u4, e2], by rw [g4.nv, e3], g5.1, g5.2⟩

/-- **refused at the entry tests** (`fields == NULL`, not a vdata key, no instance, no vdata, `scanattrs` failed): `FAIL`, nothing
    touched, for ARBITRARY arguments (whatever `av`, `ac` and the vdata hold) -/
theorem VSsetfields_entry_refused (fuel : Nat) (vkey : Int) (fnull : Bool) (ac : Int) (av : List (List Int)) (group : Int) (wnull vsnull : Bool)
    (scan_ret acc nv n iv : Int) (b : List Int) (bn : Bool) (t1 t2 t3 t4 t5 : Int) (nmr : List (List Int)) (nn : Bool) (nusym : Int)
    (un : List (List Int)) (uo ut ui : List Int) (marked newhsz rn : Int) (item : List Int) (inull : Bool)
    (hbad : fnull = true ∨ group ≠ VSIDGROUP ∨ wnull = true ∨ vsnull = true ∨ scan_ret = -1 ∨ ac = 0 ∨ ac > 256) :
    let s := VSsetfields fuel vkey fnull ac av group wnull vsnull scan_ret acc nv n iv b bn t1 t2 t3 t4 t5 nmr nn nusym un uo ut ui marked newhsz rn item inull
    s.ub = false ∧ s.oof = false ∧ s.ret = -1 ∧ s.vs_wlist_n = n ∧ s.vs_wlist_ivsize = iv ∧ s.vs_wlist_bptr = b ∧ s.vs_wlist_name = nmr ∧
      s.vs_usym_name = un ∧ s.vs_nusym = nusym ∧ s.vs_rlist_n = rn ∧ s.vs_rlist_item = item ∧ s.vs_marked = marked ∧ s.vs_new_h_sz = newhsz := by
  intro s
  have hs' : s = _ := VSsetfields_pieces ..
  rw [hs', sf_untouched fuel _ ⟨rfl, rfl, rfl⟩ (Or.inl (by
    intro h
    obtain ⟨g1, g2, g3, g4, g5, g6, g7⟩ := h
    rcases hbad with c | c | c | c | c | c | c
    · exact absurd (show fnull = false from g1) (by rw [c]; simp)
    · exact c g2
    · exact absurd (show wnull = false from g3) (by rw [c]; simp)
    · exact absurd (show vsnull = false from g4) (by rw [c]; simp)
    · exact g5 c
    · exact g6 c
    · have : ac ≤ 256 := g7
      omega))]
  exact ⟨rfl, rfl, rfl, rfl, rfl, rfl, rfl, rfl, rfl, rfl, rfl, rfl, rfl⟩

/-- the translated code runs (kernel evaluation of the generated definition): a write list of a user field, a predefined field and a
    second user field; a list refused at its last name leaves nothing behind; a read list in another order on a vdata with records -/
example :
    let v : VS := { usym := [⟨"A", 21, 1, 3⟩, ⟨"Bx", 24, 4, 1⟩] }
    (∀ sd ∈ v.usym, NameOK sd.name) ∧
    (let s := runSetfields 20 v ["Bx", "PX", "A"]
     s.ub = false ∧ s.oof = false ∧ s.ret = 0 ∧ sameVdata (v.setFieldsTok ["Bx", "PX", "A"]).1 s = true ∧ s.vs_wlist_ivsize = 11 ∧
       s.vs_wlist_bptr = [24, 5, 21, 0, 4, 8, 4, 4, 3, 1, 1, 3, 4, 4, 3] ∧ s.vs_marked = 1) ∧
    (let s := runSetfields 20 v ["Bx", "A", "nosuch"]
     s.ub = false ∧ s.oof = false ∧ s.ret = -1 ∧ sameVdata v s = true ∧ s.vs_wlist_n = 0 ∧ s.vs_wlist_bptr = [] ∧ s.vs_marked = 0) ∧
    (let v2 : VS := { (v.setFieldsTok ["Bx", "PX", "A"]).1 with nvertices := 5 }
     let s := runSetfields 20 v2 ["A", "Bx"]
     s.ub = false ∧ s.oof = false ∧ s.ret = 0 ∧ s.vs_rlist_n = 2 ∧ s.vs_rlist_item = [2, 0] ∧ sameVdata (v2.setFieldsTok ["A", "Bx"]).1 s = true) := by
  decide

end H4.Props.C07Fld
