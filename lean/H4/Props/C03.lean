import H4.Lemmas.Slab
/-! # C03 — SDS hyperslab reads and writes behave as an n-dimensional array (property theorems)

Rank is a list length: nothing below bounds the rank, the extents, or the number of operations. -/
namespace H4.Props.C03
open H4.Slab

/-- `NC_varoffset` is injective on in-range coordinates: distinct cells never share storage. -/
theorem varOffset_inj (shape c1 c2 : List Nat) (h1 : inB shape c1) (h2 : inB shape c2)
    (h : offset shape c1 = offset shape c2) : c1 = c2 := offset_inj shape c1 c2 h1 h2 h

/-- ... and stays inside the variable's storage. -/
theorem varOffset_lt (shape c : List Nat) (h : inB shape c) : offset shape c < prod shape := offset_lt shape c h

/-- The requests `NCvario` issues (max-contiguous rule + ripple counter), expanded to element offsets,
    enumerate the slab's cells exactly once, in row-major order, for every rank, shape, start and edges. -/
theorem vario_runs (shape start edges : List Nat) (h : inRange shape start edges) :
    expandRuns (runs shape start edges 0) = (cells start edges).map (offset shape) := by
  have := runs_cells shape start edges 0 h
  simpa using this

/-- The requests `NCgenio`'s odometer issues visit `start + i·stride` in row-major order (unit-stride fast
    path in the last dimension included). -/
theorem genio_visits_strided_cells (start stride count : List Nat) (h0 : start ≠ [])
    (h1 : stride.length = start.length) (h2 : count.length = start.length) :
    (genioReqs start stride count).flatMap (fun r => cells r.1 r.2) = scells start stride count :=
  genio_cells start stride count h0 h1 h2

/-- with all strides 1 the strided cells are the plain slab cells (fast path = slow path) -/
theorem unit_stride_same_cells (start stride count : List Nat) (h : stride.all (· == 1) = true)
    (h1 : stride.length = start.length) (h2 : count.length = start.length) :
    scells start stride count = cells start count := scells_unit start stride count h h1 h2

/-! ## Refinement to a reference array -/

/-- reference n-d array -/
abbrev Arr (α : Type) := List Nat → α

def upd {α} (a : Arr α) (c : List Nat) (v : α) : Arr α := fun c' => if c' = c then v else a c'

/-- assign `vals` to the cells `cs`, in order -/
def assign {α} (a : Arr α) : List (List Nat) → List α → Arr α
  | c :: cs, v :: vs => assign (upd a c v) cs vs
  | _, _ => a

inductive Op (α : Type) where
  | write (start edges : List Nat) (vals : List α)
  | read (start edges : List Nat)

/-- a request the library accepts: inside the shape, one value per cell -/
def Op.Valid {α} (shape : List Nat) : Op α → Prop
  | .write s e vals => inRange shape s e ∧ vals.length = (cells s e).length
  | .read s e => inRange shape s e

/-- implementation side: flat element image, `NCvario` runs -/
def stepImg {α} (d : α) (shape : List Nat) (img : List α) : Op α → List α × List α
  | .write s e vals => (writeSlab shape s e vals img, [])
  | .read s e => (img, readSlab d shape s e img)

/-- specification side: n-d array, selection in row-major order -/
def stepArr {α} (a : Arr α) : Op α → Arr α × List α
  | .write s e vals => (assign a (cells s e) vals, [])
  | .read s e => (a, (cells s e).map a)

def runImg {α} (d : α) (shape : List Nat) : List α → List (Op α) → List α × List (List α)
  | img, [] => (img, [])
  | img, op :: ops =>
    let (img', o) := stepImg d shape img op
    let (img'', os) := runImg d shape img' ops
    (img'', o :: os)

def runArr {α} : Arr α → List (Op α) → Arr α × List (List α)
  | a, [] => (a, [])
  | a, op :: ops =>
    let (a', o) := stepArr a op
    let (a'', os) := runArr a' ops
    (a'', o :: os)

/-- the image represents the array on every in-range coordinate -/
def Rep {α} (d : α) (shape : List Nat) (img : List α) (a : Arr α) : Prop :=
  img.length = prod shape ∧ ∀ c, inB shape c → img.getD (offset shape c) d = a c

theorem writeAt_assign {α} (d : α) (shape : List Nat) :
    ∀ (cs : List (List Nat)) (vals : List α) (img : List α) (a : Arr α),
    (∀ c ∈ cs, inB shape c) → Rep d shape img a →
    Rep d shape (writeAt img (cs.map (offset shape)) vals) (assign a cs vals) := by
  intro cs
  induction cs with
  | nil => intro vals img a _ h; cases vals <;> simpa [writeAt, assign] using h
  | cons c cs ih =>
    intro vals img a hin h
    cases vals with
    | nil => simpa [writeAt, assign] using h
    | cons v vs =>
      simp only [List.map_cons, writeAt, assign]
      apply ih vs _ _ (fun x hx => hin x (by simp [hx]))
      obtain ⟨hl, hr⟩ := h
      refine ⟨by simp [hl], ?_⟩
      intro c' hc'
      have hc : inB shape c := hin c (by simp)
      have hlt : offset shape c < img.length := by rw [hl]; exact offset_lt shape c hc
      by_cases e : c' = c
      · subst e
        simp [upd, List.getD_eq_getElem?_getD, List.getElem?_set, hlt]
      · have hne : offset shape c ≠ offset shape c' := fun h' => e (offset_inj shape c' c hc' hc h'.symm)
        simp [upd, e, List.getD_eq_getElem?_getD, List.getElem?_set, hne]
        simpa [List.getD_eq_getElem?_getD] using hr c' hc'

/-- One step: a write through `NCvario`'s runs is the array assignment; a read returns the selected cells. -/
theorem step_refines {α} (d : α) (shape : List Nat) (img : List α) (a : Arr α) (op : Op α)
    (hv : op.Valid shape) (h : Rep d shape img a) :
    Rep d shape (stepImg d shape img op).1 (stepArr a op).1 ∧ (stepImg d shape img op).2 = (stepArr a op).2 := by
  cases op with
  | write s e vals =>
    obtain ⟨hr, _⟩ := hv
    simp only [stepImg, stepArr, writeSlab, and_true]
    rw [vario_runs shape s e hr]
    exact writeAt_assign d shape _ vals img a (cells_inB shape s e hr) h
  | read s e =>
    simp only [stepImg, stepArr, readSlab, readAt]
    refine ⟨h, ?_⟩
    rw [vario_runs shape s e hv]
    rw [List.map_map]
    apply List.map_congr_left
    intro c hc
    exact h.2 c (cells_inB shape s e hv c hc)

/-- **Main refinement.** For every rank and shape, every initial image and every finite sequence of valid
    hyperslab writes and reads, the values returned by the reads computed on the flat image through
    `NCvario`'s run decomposition equal those of the reference n-dimensional array, and the final image still
    represents the final array (so the statement composes across sessions). -/
theorem slab_refines_array {α} (d : α) (shape : List Nat) :
    ∀ (ops : List (Op α)) (img : List α) (a : Arr α), (∀ op ∈ ops, op.Valid shape) → Rep d shape img a →
    (runImg d shape img ops).2 = (runArr a ops).2 ∧ Rep d shape (runImg d shape img ops).1 (runArr a ops).1 := by
  intro ops
  induction ops with
  | nil => intro img a _ h; simp [runImg, runArr, h]
  | cons op ops ih =>
    intro img a hv h
    obtain ⟨h1, h2⟩ := step_refines d shape img a op (hv op (by simp)) h
    obtain ⟨g1, g2⟩ := ih _ _ (fun o ho => hv o (by simp [ho])) h1
    simp only [runImg, runArr]
    exact ⟨by rw [h2, g1], g2⟩

/-- last write wins and nothing else moves: after a valid write, reading the same slab returns the values
    written and every cell outside it keeps its content (no cell outside the requested region is modified). -/
theorem write_read_same_slab {α} (d : α) (shape start edges : List Nat) (vals : List α) (img : List α)
    (hr : inRange shape start edges) (hl : img.length = prod shape) (hv : vals.length = (cells start edges).length) :
    readSlab d shape start edges (writeSlab shape start edges vals img) = vals := by
  simp only [readSlab, writeSlab, readAt]
  rw [vario_runs shape start edges hr]
  have hnd : ((cells start edges).map (offset shape)).Nodup := by
    have := cells_nodup start edges
    rw [List.nodup_iff_pairwise_ne] at this ⊢
    rw [List.pairwise_map]
    apply List.Pairwise.imp_of_mem _ this
    intro a b ha hb hne h
    exact hne (offset_inj shape a b (cells_inB shape start edges hr a ha) (cells_inB shape start edges hr b hb) h)
  have hlt : ∀ o ∈ (cells start edges).map (offset shape), o < img.length := by
    intro o ho
    simp only [List.mem_map] at ho
    obtain ⟨c, hc, rfl⟩ := ho
    rw [hl]; exact offset_lt shape c (cells_inB shape start edges hr c hc)
  apply List.ext_getElem
  · simp [hv]
  · intro k h1 h2
    simp only [List.getElem_map]
    have hk : k < ((cells start edges).map (offset shape)).length := by simpa using h1
    have := writeAt_getD_mem d _ vals img k hnd hlt (by simp [hv]) hk
    simp only [List.getElem_map] at this
    rw [this]
    simp [List.getD_eq_getElem?_getD, h2]

theorem write_frame {α} (d : α) (shape start edges : List Nat) (vals : List α) (img : List α)
    (hr : inRange shape start edges) (c : List Nat) (hc : inB shape c) (hout : c ∉ cells start edges) :
    (writeSlab shape start edges vals img).getD (offset shape c) d = img.getD (offset shape c) d := by
  simp only [writeSlab]
  rw [vario_runs shape start edges hr]
  apply writeAt_getD_not_mem
  intro hm
  simp only [List.mem_map] at hm
  obtain ⟨c', hc', he⟩ := hm
  exact hout (by rw [← offset_inj shape c' c (cells_inB shape start edges hr c' hc') hc he]; exact hc')

/-! ## Non-vacuity -/
example : inRange [4, 3, 5] [1, 1, 0] [2, 2, 5] := by decide
example : expandRuns (runs [4, 3, 5] [1, 1, 0] [2, 2, 5] 0) = [20, 21, 22, 23, 24, 25, 26, 27, 28, 29, 35, 36, 37, 38, 39, 40, 41, 42, 43, 44] := by decide
example : (Op.write [1, 0] [1, 2] [7, 8] : Op Nat).Valid [2, 2] := by
  refine ⟨by decide, by decide⟩
example : (runImg 0 [2, 2] [0, 0, 0, 0] [.write [1, 0] [1, 2] [7, 8], .read [0, 1] [2, 1]]).2 = [[], [0, 8]] := by decide

end H4.Props.C03
