import H4.Lemmas.GRegion
import H4.Props.C03
import H4.Props.C09
/-! # C09 — raster images: region / stride / fill / palette (`GRwriteimage`, `GRreadimage`, `GRwritelut`,
`GRreadlut`, `hdf/src/mfgr.c`) — property theorems

The interlace permutation itself is `H4.Props.C09` (`GRIil_convert`). Here: for ALL image sizes, component
counts, element sizes, rectangles and strides

* `gr_addressing`   the `Hseek/Hwrite|Hread` transfers of every branch visit exactly the selected pixels
                    (rank-2 instance of `Slab.scells`/`Slab.offset`, the C03 machinery);
* `gr_valid_iff`    the C argument checks accept exactly the selections inside the image; `gr_out_of_range_refused`;
* `gr_write_read`   read-after-write of any region returns the written pixels, nothing else moves;
* `gr_first_write_fill`  the first partial write of a new image leaves the fill pixel in every never-written
                    pixel (solid AND sub-sampled; code as it is now) – with the historical counter-witnesses for the
                    code before `fix:` 80405e4 / 9076f25 / 50122da / a7ec6cc and `gr_first_write_fill_partial`
                    (solid blocks, both revisions);
* `gr_refines_array`  any sequence of valid region writes / strided reads, starting from a NEW image, refines
                    a reference `H × W` array initialised with the fill pixel (same shape as `C03.slab_refines_array`);
* `gr_ids_are_views`  several RI ids on one image (`GRselect`/`GRendaccess`/`GRsetcompress`/reopen interleaved with
                    region writes and reads through ANY open id): one reference array per image whatever id is used,
                    `FAIL` exactly through a released id; `gr_hasData_iff_element` (the `data_modified`/`Hlength`
                    bookkeeping decides `new_image` right in every reachable state), `gr_write_release_read`,
                    `gr_id_calls_eq` (byte layer);
* byte layer: `gr_read_interlace`, `gr_write_read_bytes` (buffer interpreted in the create interlace, produced
  in the requested one, through `DFKconvert`), `gr_reopen_preserves`, palette round trip `lut_write_read`. -/
namespace H4.Props.C09Region
open H4.Slab H4.GRegion H4.Interlace
open H4.Props.C03 (Arr upd assign Rep writeAt_assign)

/-- a request `GRwriteimage`/`GRreadimage` accept (both argument checks pass) -/
def Valid (W H : Nat) (r : Req) : Prop := r.sane = true ∧ r.inImage W H = true

instance (W H : Nat) (r : Req) : Decidable (Valid W H r) := by unfold Valid; infer_instance

/-- the selected pixels as coordinates `[y, x]`, in the order of the caller's (pixel-interlaced) buffer -/
def cellsOf (r : Req) : List (List Nat) := scells r.start r.stride r.count

/-! ## addressing and argument checks -/

/-- **Addressing**: every branch of the plain path – whole-image fast path, one transfer per line of a solid
    block, one transfer per pixel when sub-sampling, with their `img_offset`/`local_offset` accumulators –
    touches exactly `NC_varoffset`-style offsets `y·W + x` of the selected cells, once each, in buffer order.
    Holds for every request, valid or not. -/
theorem gr_addressing (W H : Nat) (r : Req) : ioOffsets W H r = (cellsOf r).map (offset (shape W H)) := by
  rw [ioOffsets_eq_sel, cellsOf, scells_offsets]

example : ioOffsets 10 10 ⟨1, 2, 3, 2, 3, 2⟩ = [21, 24, 27, 41, 44, 47] := by decide
example : ioRuns 10 10 ⟨1, 2, 1, 1, 3, 2⟩ = [(21, 3), (31, 3)] ∧ ioRuns 4 2 ⟨0, 0, 1, 1, 4, 2⟩ = [(0, 8)] := by decide

/-- **Argument checks** (with `fix:` 9076f25, overflow-safe division form) accept exactly the selections whose
    last column/row `start + (count-1)·stride` lies inside the image, with `stride, count ≥ 1`. -/
theorem gr_valid_iff (W H : Nat) (r : Req) : Valid W H r ↔ sInRange (shape W H) r.start r.stride r.count :=
  valid_iff_sInRange W H r

example : Valid 10 10 ⟨0, 0, 1, 3, 10, 4⟩ ∧ ¬ Valid 10 10 ⟨0, 0, 1, 3, 10, 5⟩ ∧ ¬ Valid 4 4 ⟨2, 1, 1, 1, 4, 1⟩ := by decide

/-- **Out-of-range requests fail and change nothing** (code with the range check): both calls return `FAIL`;
    the model has no other effect than its result, so the image is untouched. -/
theorem gr_out_of_range_refused {α} (v : Variant) (hv : v.rangeCheck = true) (W H : Nat) (f d : α) (r : Req)
    (vals : List α) (st : Store α) (h : ¬ Valid W H r) :
    grWrite v W H f r vals st = none ∧ grRead v W H d r st = none := refused v hv W H f d r vals st h

/-- historical (before 9076f25): a write reaching over the right edge was accepted and overwrote the first
    pixels of the NEXT line: 4×4 image, start (2,1), count (4,1) -/
example : (grWrite Variant.legacy 4 4 0 ⟨2, 1, 1, 1, 4, 1⟩ [7, 7, 7, 7] { elem := some (List.replicate 16 1) }).map (·.elem)
    = some (some [1, 1, 1, 1, 1, 1, 7, 7, 7, 7, 1, 1, 1, 1, 1, 1]) := by decide
example : grWrite Variant.current 4 4 0 ⟨2, 1, 1, 1, 4, 1⟩ [7, 7, 7, 7] { elem := some (List.replicate 16 1) } = none := by decide

/-! ## one write, one read -/

/-- **Read after write.** For every image size, every valid region and stride, every buffer of the right
    length, whatever the image held before (existing full-size element, or no data yet): the write succeeds,
    the store stays well-formed, reading the same selection returns the buffer, and every pixel outside the
    selection keeps the value it had (for a new image: the value of the all-fill image). Holds for the
    current code and, when the block is solid, also for the code before 80405e4. -/
theorem gr_write_read {α} (v : Variant) (W H : Nat) (f d : α) (r : Req) (vals : List α) (st : Store α)
    (hv : v.f15Fixed = true ∨ r.solid = true) (hval : Valid W H r) (hl : vals.length = r.cx * r.cy)
    (hwf : st.WF W H) :
    ∃ st', grWrite v W H f r vals st = some st' ∧ st'.WF W H ∧
      grRead v W H d r st' = some (.inr vals) ∧
      ∀ c, inB (shape W H) c → c ∉ cellsOf r →
        (base f W H st').getD (offset (shape W H) c) d = (base f W H st).getD (offset (shape W H) c) d := by
  obtain ⟨hs, hi⟩ := hval
  have hbl := base_length f W H st hwf
  refine ⟨_, grWrite_eq v W H f r vals st hv hs hi hl hwf, ?_, ?_, ?_⟩
  · simp [Store.WF, writeAt_length, hbl]
  · rw [grRead_eq v W H d r _ hs hi _ rfl (by simp [writeAt_length, hbl])]
    rw [readAt_writeAt_same d _ _ _ (selOffsets_nodup W H r hs hi)
      (by intro o ho; rw [hbl]; exact selOffsets_lt W H r hs hi o ho) (by rw [selOffsets_length, hl])]
  · intro c hc hout
    simp only [base, Option.getD_some]
    apply writeAt_getD_not_mem
    rw [← scells_offsets W H r]
    intro hm
    simp only [List.mem_map] at hm
    obtain ⟨c', hc', he⟩ := hm
    have hr := (valid_iff_sInRange W H r).mp ⟨hs, hi⟩
    exact hout (by rw [← offset_inj _ c' c (scells_inB _ _ _ _ hr c' hc') hc he]; exact hc')

example : Valid 5 4 ⟨1, 0, 2, 3, 2, 2⟩ ∧
    grWrite Variant.current 5 4 0 ⟨1, 0, 2, 3, 2, 2⟩ [6, 7, 8, 9] ({} : Store Nat)
      = some { elem := some [0, 6, 0, 7, 0, 0, 0, 0, 0, 0, 0, 0, 0, 0, 0, 0, 8, 0, 9, 0] } := by decide

/-! ## the first write of a new image and the fill value -/

/-- **First-write fill** (code as it is now, i.e. with 80405e4 and 50122da). After the first `GRwriteimage`
    to an image without data – whole, solid or sub-sampled, created in this session or loaded from the file –
    the element has exactly `W·H` pixels, the `k`-th selected pixel holds the `k`-th buffer pixel and EVERY
    never-written pixel of the image holds the fill pixel `f`. -/
theorem gr_first_write_fill {α} (v : Variant) (hv : v.f15Fixed = true) (W H : Nat) (f d : α) (r : Req)
    (vals : List α) (fi : Bool) (hfi : fi = true) (hval : Valid W H r) (hl : vals.length = r.cx * r.cy) :
    ∃ e, grWrite v W H f r vals { elem := none, fillImg := fi } = some { elem := some e, fillImg := fi } ∧
      e.length = W * H ∧
      (∀ k (hk : k < (cellsOf r).length), e.getD (offset (shape W H) ((cellsOf r)[k])) d = vals.getD k d) ∧
      (∀ c, inB (shape W H) c → c ∉ cellsOf r → e.getD (offset (shape W H) c) d = f) := by
  subst hfi
  obtain ⟨hs, hi⟩ := hval
  have hwf : ({ elem := none, fillImg := true } : Store α).WF W H := rfl
  have hw := grWrite_eq v W H f r vals _ (Or.inl hv) hs hi hl hwf
  have hr := (valid_iff_sInRange W H r).mp ⟨hs, hi⟩
  refine ⟨_, hw, by simp [base, writeAt_length], ?_, ?_⟩
  · intro k hk
    have hk' : k < (selOffsets W r).length := by rw [← scells_offsets W H r]; simpa [cellsOf] using hk
    have := writeAt_getD_mem d (selOffsets W r) vals (base f W H { elem := none, fillImg := true }) k
      (selOffsets_nodup W H r hs hi) (by intro o ho; simpa [base] using selOffsets_lt W H r hs hi o ho)
      (by rw [selOffsets_length, hl]) hk'
    rw [← this]
    congr 1
    simp only [← scells_offsets W H r, List.getElem_map, cellsOf]
  · intro c hc hout
    have : (writeAt (base f W H { elem := none, fillImg := true }) (selOffsets W r) vals).getD (offset (shape W H) c) d
        = (base f W H { elem := none, fillImg := true }).getD (offset (shape W H) c) d := by
      apply writeAt_getD_not_mem
      rw [← scells_offsets W H r]
      intro hm
      simp only [List.mem_map] at hm
      obtain ⟨c', hc', he⟩ := hm
      exact hout (by rw [← offset_inj _ c' c (scells_inB _ _ _ _ hr c' hc') hc he]; exact hc')
    rw [this]
    have hlt : offset (shape W H) c < W * H := by rw [← prod_shape]; exact offset_lt _ _ hc
    simp [base, List.getD_eq_getElem?_getD, hlt]

set_option maxRecDepth 8000 in
/-- the F15 witness on the current code: 10×10 image, fill 238, first write start (0,0) stride (1,3) count (10,3):
    the element has all 100 pixels and line 9 holds the fill value -/
example : ((grWrite Variant.current 10 10 238 ⟨0, 0, 1, 3, 10, 3⟩ (List.replicate 30 17) ({} : Store Nat)).bind (·.elem)).map
    (fun e => (e.length, e.drop 90)) = some (100, List.replicate 10 238) := by decide

/-- `gr_first_write_fill` for the code BEFORE 80405e4 holds for solid blocks only (`gr_first_write_fill_partial`):
    the full statement (any stride) is false there – see the counter-witnesses below. -/
theorem gr_first_write_fill_partial {α} (W H : Nat) (f d : α) (r : Req) (vals : List α)
    (hsol : r.solid = true) (hval : Valid W H r) (hl : vals.length = r.cx * r.cy) :
    ∃ e, grWrite Variant.legacy W H f r vals { elem := none, fillImg := true }
        = some { elem := some e, fillImg := true } ∧ e.length = W * H ∧
      (∀ c, inB (shape W H) c → c ∉ cellsOf r → e.getD (offset (shape W H) c) d = f) := by
  obtain ⟨hs, hi⟩ := hval
  have hwf : ({ elem := none, fillImg := true } : Store α).WF W H := rfl
  have hw := grWrite_eq Variant.legacy W H f r vals _ (Or.inr hsol) hs hi hl hwf
  have hr := (valid_iff_sInRange W H r).mp ⟨hs, hi⟩
  refine ⟨_, hw, by simp [base, writeAt_length], ?_⟩
  intro c hc hout
  have : (writeAt (base f W H { elem := none, fillImg := true }) (selOffsets W r) vals).getD (offset (shape W H) c) d
      = (base f W H { elem := none, fillImg := true }).getD (offset (shape W H) c) d := by
    apply writeAt_getD_not_mem
    rw [← scells_offsets W H r]
    intro hm
    simp only [List.mem_map] at hm
    obtain ⟨c', hc', he⟩ := hm
    exact hout (by rw [← offset_inj _ c' c (scells_inB _ _ _ _ hr c' hc') hc he]; exact hc')
  rw [this]
  have hlt : offset (shape W H) c < W * H := by rw [← prod_shape]; exact offset_lt _ _ hc
  simp [base, List.getD_eq_getElem?_getD, hlt]

set_option maxRecDepth 8000 in
/-- **F15, historical counter-witness** (code before 80405e4): the same request leaves an element of 90 pixels –
    line 9 of the image does not exist (the C then hands back uninitialised heap bytes for it) – and with
    `count_y = 4` the element is 120 pixels long, 20 more than the image. So `gr_first_write_fill` is false for
    `Variant.legacy`: pixel (x=0, y=9) is in range, never written, and not stored at all. -/
example : ((grWrite Variant.legacy 10 10 238 ⟨0, 0, 1, 3, 10, 3⟩ (List.replicate 30 17) ({} : Store Nat)).bind (·.elem)).map
    (fun e => (e.length, e[offset (shape 10 10) [9, 0]]?)) = some (90, none) := by decide
set_option maxRecDepth 8000 in
example : ((grWrite Variant.legacy 10 10 238 ⟨0, 0, 1, 3, 10, 4⟩ (List.replicate 40 17) ({} : Store Nat)).bind (·.elem)).map
    (·.length) = some 120 := by decide
set_option maxRecDepth 8000 in
example : ¬ ∃ e, grWrite Variant.legacy 10 10 238 ⟨0, 0, 1, 3, 10, 3⟩ (List.replicate 30 17) ({} : Store Nat)
    = some { elem := some e, fillImg := true } ∧ e.length = 10 * 10 := by
  intro ⟨e, h, hl⟩
  have : (grWrite Variant.legacy 10 10 238 ⟨0, 0, 1, 3, 10, 3⟩ (List.replicate 30 17) ({} : Store Nat)).bind (·.elem)
      = some e := by rw [h]; rfl
  have h2 : ((grWrite Variant.legacy 10 10 238 ⟨0, 0, 1, 3, 10, 3⟩ (List.replicate 30 17) ({} : Store Nat)).bind (·.elem)).map
      (·.length) = some 90 := by decide
  rw [this] at h2
  simp at h2; omega

/-- historical counter-witness (before 50122da): an image created without data in an earlier session
    (`fill_img` cleared by the loader) refused every partial first write -/
example : grWrite Variant.legacy 4 4 0 ⟨1, 1, 1, 1, 2, 2⟩ [1, 2, 3, 4] ({ elem := none, fillImg := false } : Store Nat) = none ∧
    (grWrite Variant.current 4 4 0 ⟨1, 1, 1, 1, 2, 2⟩ [1, 2, 3, 4] ({ elem := none, fillImg := true } : Store Nat)).isSome = true := by decide

/-! ## refinement to a reference array -/

inductive Op (α : Type) where
  | write (r : Req) (vals : List α)
  | read (r : Req)

/-- a request the library accepts: inside the image, one buffer pixel per selected pixel -/
def OpValid {α} (W H : Nat) : Op α → Prop
  | .write r vals => Valid W H r ∧ vals.length = r.cx * r.cy
  | .read r => Valid W H r

/-- writes of solid blocks (and all reads): the requests for which the code before 80405e4 is also right -/
def Op.Solid {α} : Op α → Prop
  | .write r _ => r.solid = true
  | .read _ => True

/-- implementation side: the data element (or its absence), `GRwriteimage`/`GRreadimage`; a failing write
    leaves the store as it is, a failing read delivers nothing; without data a read delivers fill pixels -/
def stepImg {α} (v : Variant) (W H : Nat) (f : α) (st : Store α) : Op α → Store α × List α
  | .write r vals => ((grWrite v W H f r vals st).getD st, [])
  | .read r =>
    (st, match grRead v W H f r st with
         | some (.inr px) => px
         | some (.inl n) => List.replicate n f
         | none => [])

/-- specification side: an `H × W` array of pixels indexed `[y, x]`, selection in row-major order -/
def stepArr {α} (a : Arr α) : Op α → Arr α × List α
  | .write r vals => (assign a (cellsOf r) vals, [])
  | .read r => (a, (cellsOf r).map a)

def runImg {α} (v : Variant) (W H : Nat) (f : α) : Store α → List (Op α) → Store α × List (List α)
  | st, [] => (st, [])
  | st, op :: ops =>
    let (st', o) := stepImg v W H f st op
    let (st'', os) := runImg v W H f st' ops
    (st'', o :: os)

def runArr {α} : Arr α → List (Op α) → Arr α × List (List α)
  | a, [] => (a, [])
  | a, op :: ops =>
    let (a', o) := stepArr a op
    let (a'', os) := runArr a' ops
    (a'', o :: os)

/-- the store represents the array: well-formed, and the element – for an image without data, the all-fill
    image its first write will create – holds `a [y, x]` at `y·W + x` -/
def RepSt {α} (f : α) (W H : Nat) (st : Store α) (a : Arr α) : Prop :=
  st.WF W H ∧ Rep f (shape W H) (base f W H st) a

/-- a new image (`GRcreate`, or loaded without data since 50122da) represents the constant-fill array -/
theorem new_image_rep {α} (f : α) (W H : Nat) : RepSt f W H ({} : Store α) (fun _ => f) := by
  refine ⟨rfl, by simp [base, prod_shape], ?_⟩
  intro c hc
  have hlt : offset (shape W H) c < W * H := by rw [← prod_shape]; exact offset_lt _ _ hc
  simp [base, List.getD_eq_getElem?_getD, hlt]

theorem cellsOf_length (r : Req) : (cellsOf r).length = r.cx * r.cy := by
  have := selOffsets_length 0 r
  rw [← scells_offsets 0 0 r] at this
  simpa [cellsOf] using this

theorem step_refines {α} (v : Variant) (W H : Nat) (f : α) (st : Store α) (a : Arr α) (op : Op α)
    (hv : v.f15Fixed = true ∨ op.Solid) (hval : OpValid W H op) (h : RepSt f W H st a) :
    RepSt f W H (stepImg v W H f st op).1 (stepArr a op).1 ∧ (stepImg v W H f st op).2 = (stepArr a op).2 := by
  obtain ⟨hwf, hrep⟩ := h
  cases op with
  | write r vals =>
    obtain ⟨⟨hs, hi⟩, hl⟩ := hval
    have hr := (valid_iff_sInRange W H r).mp ⟨hs, hi⟩
    simp only [stepImg, stepArr, and_true]
    rw [grWrite_eq v W H f r vals st hv hs hi hl hwf]
    simp only [Option.getD_some]
    refine ⟨by simp [Store.WF, writeAt_length, base_length f W H st hwf], ?_⟩
    simp only [base, Option.getD_some]
    rw [← scells_offsets W H r]
    exact writeAt_assign f (shape W H) _ vals _ a (scells_inB _ _ _ _ hr) hrep
  | read r =>
    obtain ⟨hs, hi⟩ := hval
    have hr := (valid_iff_sInRange W H r).mp ⟨hs, hi⟩
    simp only [stepImg, stepArr]
    refine ⟨⟨hwf, hrep⟩, ?_⟩
    cases he : st.elem with
    | none =>
      rw [grRead_none v W H f r st hs hi he]
      simp only
      rw [← cellsOf_length r]
      apply List.ext_getElem
      · simp
      · intro k h1 h2
        simp only [List.getElem_replicate, List.getElem_map]
        have hk : k < (cellsOf r).length := by simpa using h2
        have hc : inB (shape W H) ((cellsOf r)[k]) := scells_inB _ _ _ _ hr _ (List.getElem_mem _)
        have := hrep.2 _ hc
        have hlt : offset (shape W H) ((cellsOf r)[k]) < W * H := by rw [← prod_shape]; exact offset_lt _ _ hc
        rw [← this]
        simp [base, he, List.getD_eq_getElem?_getD, hlt]
    | some e =>
      have hlen : e.length = W * H := by simpa [Store.WF, he] using hwf
      rw [grRead_eq v W H f r st hs hi e he hlen]
      simp only [readAt]
      rw [← scells_offsets W H r, List.map_map]
      apply List.map_congr_left
      intro c hc
      have := hrep.2 c (scells_inB _ _ _ _ hr c hc)
      simpa [base, he] using this

/-- **Main refinement.** For every image size, every fill pixel, and every finite sequence of valid region
    writes and (strided) reads – starting from a store that represents some array, in particular from a NEW image,
    which represents the constant-fill array (`new_image_rep`) – the pixels delivered by `GRreadimage` through the
    C addressing (including the seek-free first write with its fill lines) are those of the reference `H × W`
    array, and the final store represents the final array (so the statement composes across sessions).
    `hv`: the code as it is now, or – for the code before 80405e4 – only solid-block writes. -/
theorem gr_refines_array {α} (v : Variant) (W H : Nat) (f : α) :
    ∀ (ops : List (Op α)) (st : Store α) (a : Arr α),
    (v.f15Fixed = true ∨ ∀ op ∈ ops, op.Solid) → (∀ op ∈ ops, OpValid W H op) → RepSt f W H st a →
    (runImg v W H f st ops).2 = (runArr a ops).2 ∧ RepSt f W H (runImg v W H f st ops).1 (runArr a ops).1 := by
  intro ops
  induction ops with
  | nil => intro st a _ _ h; simp [runImg, runArr, h]
  | cons op ops ih =>
    intro st a hv hval h
    have hv1 : v.f15Fixed = true ∨ op.Solid := hv.imp id (fun g => g op (by simp))
    have hv2 : v.f15Fixed = true ∨ ∀ o ∈ ops, o.Solid := hv.imp id (fun g o ho => g o (by simp [ho]))
    obtain ⟨h1, h2⟩ := step_refines v W H f st a op hv1 (hval op (by simp)) h
    obtain ⟨g1, g2⟩ := ih _ _ hv2 (fun o ho => hval o (by simp [ho])) h1
    simp only [runImg, runArr]
    exact ⟨by rw [h2, g1], g2⟩

/-- the same for a NEW image on the current code: the reads see the fill value wherever nothing was written -/
theorem gr_new_image_refines_array {α} (W H : Nat) (f : α) (ops : List (Op α)) (hval : ∀ op ∈ ops, OpValid W H op) :
    (runImg Variant.current W H f {} ops).2 = (runArr (fun _ => f) ops).2 :=
  (gr_refines_array Variant.current W H f ops {} _ (Or.inl rfl) hval (new_image_rep f W H)).1

example : OpValid 5 4 (Op.write ⟨1, 0, 2, 3, 2, 2⟩ [6, 7, 8, 9] : Op Nat) ∧ OpValid 5 4 (Op.read ⟨0, 3, 1, 1, 5, 1⟩ : Op Nat) := by
  refine ⟨⟨by decide, by decide⟩, ?_⟩
  show Valid 5 4 _
  decide
example : (runImg Variant.current 5 4 0 {} [.read ⟨0, 0, 4, 1, 2, 1⟩, .write ⟨1, 0, 2, 3, 2, 2⟩ [6, 7, 8, 9], .read ⟨0, 3, 1, 1, 5, 1⟩,
    .write ⟨3, 3, 1, 1, 2, 1⟩ [1, 2], .read ⟨1, 0, 2, 3, 2, 2⟩]).2 = [[0, 0], [], [0, 8, 0, 9, 0], [], [6, 7, 8, 1]] := by decide

/-! ## byte layer: interlace of the caller's buffers, `DFKconvert`, reopen -/

/-- **`GRreadimage` = `GRIil_convert`(PIXEL → requested) ∘ pixel-interlaced read.** Whatever the request and
    the state, the result is the pixel-interlaced buffer (`readPixelBuf`: region read + `DFKconvert`) pushed through
    the interlace conversion of `H4.Props.C09`; for `im_il = PIXEL` the C skips the call and `il_convert_same`
    says that makes no difference. `hlen`: the buffer has the size the caller allocated. -/
theorem gr_read_interlace (v : Variant) (ri : RI) (r : Req)
    (hlen : ∀ buf, readPixelBuf v ri r = some buf → buf.length = ri.csz * (r.cx * r.cy * ri.ncomp)) :
    GRreadimage v ri r = (readPixelBuf v ri r).map
      (fun buf => convert .pixel ri.imIl r.cx r.cy ri.ncomp ri.csz buf (List.replicate buf.length 0)) := by
  unfold GRreadimage
  cases hb : readPixelBuf v ri r with
  | none => rfl
  | some buf =>
    simp only [Option.map_some]
    by_cases hp : ri.imIl = .pixel
    · simp only [hp, ne_eq, not_true_eq_false, if_false]
      rw [H4.Props.C09.il_convert_same .pixel _ _ _ _ buf _ (hlen buf hb) (by simp [hlen buf hb])]
    · simp only [ne_eq, hp, not_false_eq_true, if_true]

/-- reading in interlace `b` is reading in interlace `a` followed by `convert a b` (any two of the three) -/
theorem gr_read_interlace_change (v : Variant) (ri : RI) (r : Req) (a b : Il)
    (hlen : ∀ buf, readPixelBuf v ri r = some buf → buf.length = ri.csz * (r.cx * r.cy * ri.ncomp)) :
    GRreadimage v (GRreqimageil ri b) r = (GRreadimage v (GRreqimageil ri a) r).map
      (fun buf => convert a b r.cx r.cy ri.ncomp ri.csz buf (List.replicate buf.length 0)) := by
  have e : ∀ il, readPixelBuf v (GRreqimageil ri il) r = readPixelBuf v ri r := fun _ => rfl
  rw [gr_read_interlace v (GRreqimageil ri b) r (by intro buf hb; rw [e] at hb; exact hlen buf hb),
    gr_read_interlace v (GRreqimageil ri a) r (by intro buf hb; rw [e] at hb; exact hlen buf hb), e, e]
  cases hb : readPixelBuf v ri r with
  | none => rfl
  | some buf =>
    have hl := hlen buf hb
    simp only [Option.map_some, GRreqimageil, length_convert, List.length_replicate]
    congr 1
    exact (H4.Props.C09.il_convert_compose .pixel a b _ _ _ _ buf _ _ _ hl (by simp [hl]) (by simp [hl]) (by simp [hl])).symm

/-- well-formed image record: positive sizes, a full-size element (or none, with `fill_img`) -/
def RIWF (ri : RI) : Prop := 0 < ri.csz ∧ 0 < ri.ncomp ∧ ri.st.WF ri.W ri.H

/-- **Write then read, bytes in – bytes out.** Image of any size/ncomp/element size with or without data;
    any valid region and stride; the caller's buffer `data` laid out in the interlace `a` given to `GRcreate`;
    then `GRwriteimage` succeeds and, for every interlace `b` requested with `GRreqimageil`, `GRreadimage` of the
    same selection returns exactly `convert a b data`, i.e. the same components re-laid out – through
    `GRIil_convert`, `DFKconvert` to disk order, the region write (incl. the first-write fill path), the region
    read and `DFKconvert` back. -/
theorem gr_write_read_bytes (v : Variant) (ri : RI) (r : Req) (data : List UInt8) (b : Il)
    (hv : v.f15Fixed = true ∨ r.solid = true) (hwf : RIWF ri) (hval : Valid ri.W ri.H r)
    (hl : data.length = ri.csz * (r.cx * r.cy * ri.ncomp)) :
    ∃ ri', GRwriteimage v ri r data = some ri' ∧ RIWF ri' ∧
      GRreadimage v (GRreqimageil ri' b) r
        = some (convert ri.il b r.cx r.cy ri.ncomp ri.csz data (List.replicate data.length 0)) := by
  obtain ⟨hc, hn, hst⟩ := hwf
  have hpsz : 0 < ri.psz := Nat.mul_pos hn hc
  -- the pixel-interlaced buffer
  let P := convert ri.il .pixel r.cx r.cy ri.ncomp ri.csz data (List.replicate data.length 0)
  have hPlen : P.length = ri.csz * (r.cx * r.cy * ri.ncomp) := by simp [P, hl]
  have hPB : (if ri.il ≠ .pixel then convert ri.il .pixel r.cx r.cy ri.ncomp ri.csz data (List.replicate data.length 0) else data) = P := by
    by_cases hp : ri.il = .pixel
    · simp only [hp, ne_eq, not_true_eq_false, if_false, P]
      rw [H4.Props.C09.il_convert_same .pixel _ _ _ _ data _ hl (by simp [hl])]
    · simp only [ne_eq, hp, not_false_eq_true, if_true, P]
  have hDlen : (dfk ri.csz ri.swap P).length = (r.cx * r.cy) * ri.psz := by
    rw [dfk_length _ hc, hPlen, RI.psz]
    rw [Nat.mul_comm ri.csz, Nat.mul_assoc]
  obtain ⟨hpl, hpu⟩ := chunks_uniform ri.psz hpsz (r.cx * r.cy) _ hDlen
  obtain ⟨st', hw, hwf', hr, _⟩ := gr_write_read v ri.W ri.H ri.fillDisk [] r (chunks ri.psz (dfk ri.csz ri.swap P)) ri.st
    hv hval hpl hst
  refine ⟨{ ri with st := st' }, ?_, ⟨hc, hn, hwf'⟩, ?_⟩
  · simp only [GRwriteimage, hPB, hw, Option.map_some]
  · have hbuf : readPixelBuf v { ri with st := st' } r = some P := by
      simp only [readPixelBuf, hr, Option.map_some]
      rw [flatten_chunks ri.psz hpsz _ _ (Nat.le_refl _)]
      rw [dfk_dfk ri.csz hc ri.swap (r.cx * r.cy * ri.ncomp) P (by rw [hPlen, Nat.mul_comm])]
    have hbuf' : readPixelBuf v (GRreqimageil { ri with st := st' } b) r = some P := hbuf
    rw [gr_read_interlace v _ r (by intro buf hb; rw [hbuf'] at hb; cases hb; exact hPlen), hbuf']
    simp only [Option.map_some, GRreqimageil]
    congr 1
    exact H4.Props.C09.il_convert_compose ri.il .pixel b _ _ _ _ data _ _ _ hl (by simp [hl]) (by simp [hPlen]) (by simp [hl])

/-! ## `GRend` / `GRstart`, chunking, number types -/

/-- the number types the harness uses: the ten base codes, plain, `|DFNT_LITEND`, `|DFNT_NATIVE` -/
def grNts : List Nat :=
  H4.Gen.Gr.NT_CODES ++ H4.Gen.Gr.NT_CODES.map (· + H4.Gen.Hdf.DFNT_LITEND) ++ H4.Gen.Gr.NT_CODES.map (· + H4.Gen.Hdf.DFNT_NATIVE)

/-- **Number type through the NT record** (code with a7ec6cc): for every base type, plain, little-endian or native,
    the type `GRIget_image_list` reconstructs selects the same `DFKconvert` behaviour (element size, swap or not)
    as the type given to `GRcreate`; plain and little-endian types come back unchanged, a native type comes back as
    its alias on this host (same machine subclass). -/
theorem nt_record_roundtrip :
    (∀ nt ∈ grNts, H4.Conv.lookup (ntLoad (ntRecord Variant.current nt).1 (ntRecord Variant.current nt).2) = H4.Conv.lookup nt) ∧
    (∀ nt ∈ grNts, isNative nt = false → ntLoad (ntRecord Variant.current nt).1 (ntRecord Variant.current nt).2 = nt) := by
  decide

/-- historical counter-witness (before a7ec6cc): a little-endian `int16` image came back as big-endian `int16`,
    i.e. `DFKconvert` byte-swapped what had been stored unswapped -/
example : H4.Conv.lookup (H4.Gen.Hdf.DFNT_INT16 + H4.Gen.Hdf.DFNT_LITEND) = some (2, false) ∧
    H4.Conv.lookup (ntLoad (ntRecord Variant.legacy (H4.Gen.Hdf.DFNT_INT16 + H4.Gen.Hdf.DFNT_LITEND)).1
      (ntRecord Variant.legacy (H4.Gen.Hdf.DFNT_INT16 + H4.Gen.Hdf.DFNT_LITEND)).2) = some (2, true) := by decide

/-- **Reopen.** `GRendaccess; GRend; Hclose; Hopen; GRstart; GRselect` keeps the data element, `FILL_ATTR` and the
    palette; when the reconstructed number type converts like the original one (`nt_record_roundtrip`: always, for
    the current code), every `GRreadimage` returns what it returned before with the interlace request reset to PIXEL. -/
theorem gr_reopen_preserves (v : Variant) (ri : RI) (r : Req)
    (hnt : H4.Conv.lookup (ntLoad (ntRecord v ri.nt).1 (ntRecord v ri.nt).2) = some (ri.csz, ri.swap)) :
    (reopen v ri).st.elem = ri.st.elem ∧ (reopen v ri).fill = ri.fill ∧ (reopen v ri).lut = ri.lut ∧
    GRreadimage v (reopen v ri) r = GRreadimage v (GRreqimageil ri .pixel) r := by
  refine ⟨rfl, rfl, rfl, ?_⟩
  unfold reopen
  simp only [hnt, Option.getD_some]
  rfl

/-- **Chunking** (`GRsetchunk` before the first write): the chunked element exists at once and represents the
    constant-fill array, so `gr_refines_array` applies from there (every write takes the plain path; unwritten
    pixels come from the chunk layer's fill value = the disk form of the fill pixel). -/
theorem gr_setchunk_rep (ri : RI) : RepSt ri.fillDisk ri.W ri.H (GRsetchunk ri).st (fun _ => ri.fillDisk) := by
  refine ⟨by simp [GRsetchunk, Store.WF], by simp [GRsetchunk, base, prod_shape], ?_⟩
  intro c hc
  have hlt : offset (shape ri.W ri.H) c < ri.W * ri.H := by rw [← prod_shape]; exact offset_lt _ _ hc
  simp [GRsetchunk, base, List.getD_eq_getElem?_getD, hlt]

/-! ## palettes -/

/-- **Palette round trip.** A 256×3 `uint8` pixel-interlaced palette is accepted; `GRreadlut` returns it re-laid
    out in the interlace requested with `GRreqlutil` (identically for PIXEL); it survives reopen; `GRgetlutinfo`
    reports 3 components, 256 entries. -/
theorem lut_write_read (v : Variant) (ri : RI) (data buf : List UInt8) (hl : data.length = 768) (b : Il) :
    ∃ ri', GRwritelut ri 3 true H4.Gen.Hdf.MFGR_INTERLACE_PIXEL 256 data = some ri' ∧
      GRreadlut { ri' with lutIl := b } buf = convert .pixel b 1 256 3 1 data (List.replicate 768 0) ∧
      GRreadlut { ri' with lutIl := .pixel } buf = data ∧
      GRreadlut (reopen v ri') buf = data ∧
      (GRgetlutinfo ri').1 = 3 ∧ (GRgetlutinfo ri').2.2 = (0, 256) := by
  have htake : data.take 768 = data := List.take_of_length_le (by omega)
  have hw : GRwritelut ri 3 true H4.Gen.Hdf.MFGR_INTERLACE_PIXEL 256 data
      = some { ri with lut := some data, lutNt := if ri.lut.isSome then ri.lutNt else H4.Gen.Hdf.DFNT_UINT8 } := by
    simp [GRwritelut, htake]
  refine ⟨_, hw, ?_, ?_, ?_, ?_⟩
  · simp only [GRreadlut, htake]
    by_cases hp : b = .pixel
    · subst hp
      simp only [ne_eq, not_true_eq_false, if_false]
      rw [H4.Props.C09.il_convert_same .pixel 1 256 3 1 data _ (by simp [hl]) (by rw [List.length_replicate])]
    · simp only [ne_eq, hp, not_false_eq_true, if_true, hl]
  · simp [GRreadlut, htake]
  · simp [GRreadlut, reopen, htake]
  · simp [GRgetlutinfo, H4.Gen.Hdf.MFGR_INTERLACE_PIXEL]

/-- every other palette shape is refused (`DFE_UNSUPPORTED`) and nothing changes -/
theorem lut_unsupported_refused (ri : RI) (ncomps : Nat) (u8 : Bool) (il n : Nat) (data : List UInt8)
    (h : ¬ (ncomps = 3 ∧ u8 = true ∧ il = H4.Gen.Hdf.MFGR_INTERLACE_PIXEL ∧ n = 256)) :
    GRwritelut ri ncomps u8 il n data = none := by
  simp [GRwritelut, h]

/-- without a palette `GRreadlut` leaves the caller's buffer alone and `GRgetlutinfo` reports none -/
theorem lut_absent (ri : RI) (buf : List UInt8) (h : ri.lut = none) :
    GRreadlut ri buf = buf ∧ GRgetlutinfo ri = (0, 0, -1, 0) := by
  simp [GRreadlut, GRgetlutinfo, h]

/-! ## several RI ids on one image: ids are views of one image state

`GRcreate`/`GRselect` hand out atoms for one `ri_info_t`. The model (`Book`, `Img` in `H4.GRegion`) takes the decision
"the image has data" (`new_image`, `image_data`) from `img_tag/ref`, `data_modified` and `Hlength` – exactly the three
things the C looks at – while the element itself is the logical content. `Coherent` is the invariant that makes the
two agree; every call preserves it (`coherent_*` in `H4/Lemmas/GRegion.lean`), hence `gr_ids_are_views`. -/

/-! ### the refinement -/

/-- calls on ONE image through handles `k` (reopen = release every id, `GRend`, `Hclose`, `Hopen`, `GRstart`) -/
inductive IdOp (α : Type) where
  | select (k : Nat)
  | endaccess (k : Nat)
  | setcompress (k : Nat)
  | write (k : Nat) (r : Req) (vals : List α)
  | read (k : Nat) (r : Req)
  | reopen

def IdOp.Valid {α} (W H : Nat) : IdOp α → Prop
  | .write _ r vals => C09Region.Valid W H r ∧ vals.length = r.cx * r.cy
  | .read _ r => C09Region.Valid W H r
  | _ => True

/-- implementation side: `Img` (element + `ri_info_t` bookkeeping); `none` = `FAIL` -/
def stepIds {α} (v : Variant) (W H : Nat) (f : α) (im : Img α) : IdOp α → Img α × Option (List α)
  | .select k =>
    match im.bk.select k with
    | some b => ({ im with bk := b }, some [])
    | none => (im, none)
  | .endaccess k =>
    match im.bk.endaccess k with
    | some b => ({ im with bk := b }, some [])
    | none => (im, none)
  | .setcompress k =>
    if im.bk.ids.contains k then
      match im.bk.setcompress with
      | some b => ({ im with bk := b }, some [])
      | none => (im, none)
    else (im, none)
  | .write k r vals => ((im.write v W H f k r vals).1, if (im.write v W H f k r vals).2 then some [] else none)
  | .read k r =>
    ((im.read v W H f k r).1, (im.read v W H f k r).2.map fun
      | .inr px => px
      | .inl n => List.replicate n f)
  | .reopen => (im.reopen v, some [])

/-- specification side: the open handles, "is compressed", and ONE `H × W` array whatever handle is used -/
structure Ref (α : Type) where
  ids : List Nat
  comp : Bool
  a : Arr α

def stepRef {α} (s : Ref α) : IdOp α → Ref α × Option (List α)
  | .select k => if s.ids.contains k then (s, none) else ({ s with ids := k :: s.ids }, some [])
  | .endaccess k => if s.ids.contains k then ({ s with ids := s.ids.erase k }, some []) else (s, none)
  | .setcompress k => if s.ids.contains k && !s.comp then ({ s with comp := true }, some []) else (s, none)
  | .write k r vals => if s.ids.contains k then ({ s with a := assign s.a (cellsOf r) vals }, some []) else (s, none)
  | .read k r => if s.ids.contains k then (s, some ((cellsOf r).map s.a)) else (s, none)
  | .reopen => ({ s with ids := [] }, some [])

def runIds {α} (v : Variant) (W H : Nat) (f : α) : Img α → List (IdOp α) → Img α × List (Option (List α))
  | im, [] => (im, [])
  | im, op :: ops =>
    let (im', o) := stepIds v W H f im op
    let (im'', os) := runIds v W H f im' ops
    (im'', o :: os)

def runRef {α} : Ref α → List (IdOp α) → Ref α × List (Option (List α))
  | s, [] => (s, [])
  | s, op :: ops =>
    let (s', o) := stepRef s op
    let (s'', os) := runRef s' ops
    (s'', o :: os)

/-- same open handles, same compression flag, bookkeeping coherent with the element, element represents the array -/
def Sim {α} (f : α) (W H : Nat) (im : Img α) (s : Ref α) : Prop :=
  im.bk.ids = s.ids ∧ im.bk.buffered = s.comp ∧ Coherent im.st im.bk ∧ RepSt f W H im.st s.a

theorem step_ids_refines {α} (v : Variant) (hv : v.f15Fixed = true) (hlf : v.lateFill = true) (W H : Nat) (f : α)
    (im : Img α) (s : Ref α) (op : IdOp α) (hval : op.Valid W H) (h : Sim f W H im s) :
    Sim f W H (stepIds v W H f im op).1 (stepRef s op).1 ∧ (stepIds v W H f im op).2 = (stepRef s op).2 := by
  obtain ⟨hids, hcomp, hco, hrep⟩ := h
  cases op with
  | select k =>
    simp only [stepIds, stepRef]
    cases hs : im.bk.select k with
    | none =>
      have : s.ids.contains k = true := by
        rw [← hids]; unfold Book.select at hs; split at hs <;> simp_all
      simp only [this, if_true]
      exact ⟨⟨hids, hcomp, hco, hrep⟩, trivial⟩
    | some b =>
      obtain ⟨c, i, bu, nk⟩ := coherent_select im.st im.bk b k hco hs
      rw [hids] at nk
      simp only [nk, Bool.false_eq_true, if_false]
      exact ⟨⟨by simp [i, hids], by simp [bu, hcomp], c, hrep⟩, trivial⟩
  | endaccess k =>
    simp only [stepIds, stepRef]
    cases hs : im.bk.endaccess k with
    | none =>
      have : s.ids.contains k = false := by
        rw [← hids]; unfold Book.endaccess at hs; split at hs <;> simp_all
      simp only [this, Bool.false_eq_true, if_false]
      exact ⟨⟨hids, hcomp, hco, hrep⟩, trivial⟩
    | some b =>
      obtain ⟨c, i, bu, nk⟩ := coherent_endaccess im.st im.bk b k hco hs
      rw [hids] at nk
      simp only [nk, if_true]
      exact ⟨⟨by simp [i, hids], by simp [bu, hcomp], c, hrep⟩, trivial⟩
  | setcompress k =>
    simp only [stepIds, stepRef]
    rw [hids]
    cases hk : s.ids.contains k with
    | false => simp only [Bool.false_and, Bool.false_eq_true, if_false]; exact ⟨⟨hids, hcomp, hco, hrep⟩, trivial⟩
    | true =>
      simp only [Bool.true_and, if_true]
      cases hs : im.bk.setcompress with
      | none =>
        have : s.comp = true := by
          rw [← hcomp]; unfold Book.setcompress at hs; split at hs <;> simp_all
        simp only [this, Bool.not_true, Bool.false_eq_true, if_false]
        exact ⟨⟨hids, hcomp, hco, hrep⟩, trivial⟩
      | some b =>
        obtain ⟨c, i, bu, nb⟩ := coherent_setcompress im.st im.bk b hco hs
        rw [hcomp] at nb
        simp only [nb, Bool.not_false, if_true]
        exact ⟨⟨by simp [i, hids], by simp [bu], c, hrep⟩, trivial⟩
  | write k r vals =>
    obtain ⟨⟨hs, hi⟩, hl⟩ := hval
    simp only [stepIds, stepRef]
    rw [← hids]
    cases hk : im.bk.ids.contains k with
    | false =>
      simp only [Img.write, hk, Bool.not_false, if_true, Bool.false_eq_true, if_false]
      exact ⟨⟨hids, hcomp, hco, hrep⟩, trivial⟩
    | true =>
      obtain ⟨hwf, hr⟩ := hrep
      have hw := grWrite_eq v W H f r vals im.st (Or.inl hv) hs hi hl hwf
      obtain ⟨cg, tg, ig, bg⟩ := coherent_getaid im.st im.bk true hco
      simp only [Img.write, hk, Bool.not_true, Bool.false_eq_true, if_false, hs, hi, Bool.and_false, Bool.or_false,
        view_eq im hco, hw, if_true]
      have hst := step_refines v W H f im.st s.a (.write r vals) (Or.inl hv) ⟨⟨hs, hi⟩, hl⟩ ⟨hwf, hr⟩
      simp only [stepImg, stepArr, hw, Option.getD_some, and_true] at hst
      refine ⟨⟨?_, ?_, coherent_wrote _ _ tg rfl, hst⟩, trivial⟩
      · simp [Book.wrote, ig]
      · simp [Book.wrote, bg, hcomp]
  | read k r =>
    obtain ⟨hs, hi⟩ := hval
    simp only [stepIds, stepRef]
    rw [← hids]
    cases hk : im.bk.ids.contains k with
    | false =>
      simp only [Img.read, hk, Bool.not_false, if_true, Bool.false_eq_true, if_false, Option.map_none]
      exact ⟨⟨hids, hcomp, hco, hrep⟩, trivial⟩
    | true =>
      have hst := step_refines v W H f im.st s.a (.read r) (Or.inl hv) ⟨hs, hi⟩ hrep
      simp only [stepImg, stepArr] at hst
      simp only [Img.read, hk, Bool.not_true, Bool.false_eq_true, if_false, hs, hi, Bool.and_false, Bool.or_false,
        view_eq im hco, if_true]
      constructor
      · split
        · obtain ⟨cg, _, ig, bg⟩ := coherent_getaid im.st im.bk false hco
          exact ⟨by simp [ig, hids], by simp [bg, hcomp], cg, hrep⟩
        · exact ⟨hids, hcomp, hco, hrep⟩
      · rw [← hst.2]
        have hsome : (grRead v W H f r im.st).isSome = true := by
          cases he : im.st.elem with
          | none => rw [grRead_none v W H f r im.st hs hi he]; rfl
          | some e =>
            have hlen : e.length = W * H := by simpa [Store.WF, he] using hrep.1
            rw [grRead_eq v W H f r im.st hs hi e he hlen]; rfl
        cases hg : grRead v W H f r im.st with
        | none => rw [hg] at hsome; cases hsome
        | some x => cases x <;> rfl
  | reopen =>
    simp only [stepIds, stepRef, Img.reopen]
    refine ⟨⟨rfl, ?_, coherent_reopened v _ _ hco, ?_⟩, trivial⟩
    · show im.bk.reopened.buffered = s.comp
      simp [Book.reopened, Book.closeAid, hcomp]
    · obtain ⟨hwf, hr⟩ := hrep
      refine ⟨?_, hr⟩
      unfold Store.WF at *
      cases he : im.st.elem <;> simp_all

/-- **Ids are views of one image.** For every image size and fill pixel, every finite sequence of `GRselect`,
    `GRendaccess`, `GRsetcompress`, valid region writes and (strided) reads THROUGH ANY HANDLE, and reopen – starting from
    any state whose bookkeeping agrees with its element (`Sim`; in particular a new image, `new_image_sim`) – every call
    returns what the reference machine returns: one `H × W` array per image whatever id is used, a set of open handles,
    `FAIL` exactly for calls through a handle that is not open (and a second `GRsetcompress`). So a read through any open
    id returns the pixels last written through any id – also for data that so far exist only in the buffer of a
    compressed element, also after the id that wrote them was released, also for the first write of a new image – and
    never-written pixels are the fill pixel. The decision "the image has data" is taken from `tagSet`/`data_modified`/
    `Hlength` as the C takes it (`Book.hasData`), not from the element. -/
theorem gr_ids_are_views {α} (v : Variant) (hv : v.f15Fixed = true) (hlf : v.lateFill = true) (W H : Nat) (f : α) :
    ∀ (ops : List (IdOp α)) (im : Img α) (s : Ref α), (∀ op ∈ ops, op.Valid W H) → Sim f W H im s →
    (runIds v W H f im ops).2 = (runRef s ops).2 ∧ Sim f W H (runIds v W H f im ops).1 (runRef s ops).1 := by
  intro ops
  induction ops with
  | nil => intro im s _ h; simp [runIds, runRef, h]
  | cons op ops ih =>
    intro im s hval h
    obtain ⟨h1, h2⟩ := step_ids_refines v hv hlf W H f im s op (hval op (by simp)) h
    obtain ⟨g1, g2⟩ := ih _ _ (fun o ho => hval o (by simp [ho])) h1
    simp only [runIds, runRef]
    exact ⟨by rw [h2, g1], g2⟩

/-- a new image (`GRcreate`: one id, no tag/ref, no access id, `data_modified = FALSE`) is the all-fill array -/
theorem new_image_sim {α} (f : α) (W H k : Nat) :
    Sim f W H ({ bk := { ids := [k] } } : Img α) { ids := [k], comp := false, a := fun _ => f } :=
  ⟨rfl, rfl, ⟨by simp, by simp, by simp, by simp⟩, new_image_rep f W H⟩

/-- the bookkeeping and the element agree in every reachable state: `new_image` is computed right -/
theorem gr_hasData_iff_element {α} (v : Variant) (hv : v.f15Fixed = true) (hlf : v.lateFill = true) (W H k : Nat) (f : α)
    (ops : List (IdOp α)) (hval : ∀ op ∈ ops, op.Valid W H) :
    (runIds v W H f ({ bk := { ids := [k] } } : Img α) ops).1.bk.hasData
      = (runIds v W H f ({ bk := { ids := [k] } } : Img α) ops).1.st.elem.isSome :=
  hasData_eq _ _ (gr_ids_are_views v hv hlf W H f ops _ _ hval (new_image_sim f W H k)).2.2.2.1

theorem assign_not_mem {α} : ∀ (cs : List (List Nat)) (vs : List α) (a : Arr α) (c : List Nat), c ∉ cs →
    assign a cs vs c = a c := by
  intro cs
  induction cs with
  | nil => intro vs a c _; cases vs <;> rfl
  | cons c' cs ih =>
    intro vs a c hc
    cases vs with
    | nil => rfl
    | cons v vs =>
      simp only [List.mem_cons, not_or] at hc
      simp only [assign]
      rw [ih vs _ c hc.2]
      simp [upd, hc.1]

theorem assign_map_self {α} : ∀ (cs : List (List Nat)) (vs : List α) (a : Arr α), cs.Nodup → vs.length = cs.length →
    cs.map (assign a cs vs) = vs := by
  intro cs
  induction cs with
  | nil => intro vs a _ hl; cases vs <;> simp_all
  | cons c cs ih =>
    intro vs a hnd hl
    cases vs with
    | nil => simp at hl
    | cons v vs =>
      obtain ⟨hc, hnd'⟩ := List.nodup_cons.mp hnd
      simp only [List.map_cons, assign]
      rw [assign_not_mem cs vs _ c hc]
      congr 1
      · simp [upd]
      · exact ih vs _ hnd' (by simpa using hl)

/-- **Write through one id, release it, read through another** (the access id stays open: a compressed image is still
    only in its buffer): the read returns the written pixels. Any coherent state, any two distinct open handles. -/
theorem gr_write_release_read {α} (v : Variant) (hv : v.f15Fixed = true) (hlf : v.lateFill = true) (W H : Nat) (f : α)
    (im : Img α) (s : Ref α) (h : Sim f W H im s) (k1 k2 : Nat) (hne : k1 ≠ k2) (h1 : s.ids.contains k1 = true)
    (h2 : s.ids.contains k2 = true) (r : Req) (vals : List α) (hval : Valid W H r) (hl : vals.length = r.cx * r.cy) :
    (runIds v W H f im [.write k1 r vals, .endaccess k1, .read k2 r]).2 = [some [], some [], some vals] := by
  have hops : ∀ op ∈ [IdOp.write k1 r vals, .endaccess k1, .read k2 r], op.Valid W H := by
    intro op ho
    simp only [List.mem_cons, List.not_mem_nil, or_false] at ho
    rcases ho with rfl | rfl | rfl
    exacts [⟨hval, hl⟩, trivial, hval]
  rw [(gr_ids_are_views v hv hlf W H f _ im s hops h).1]
  have hk2 : (s.ids.erase k1).contains k2 = true := by
    simp only [List.contains_eq_mem, decide_eq_true_eq] at *
    exact (List.mem_erase_of_ne (Ne.symm hne)).mpr h2
  simp only [runRef, stepRef, h1, hk2, if_true]
  have hr := (valid_iff_sInRange W H r).mp hval
  rw [assign_map_self (cellsOf r) vals s.a (scells_nodup _ _ _ _ hr) (by rw [cellsOf_length, hl])]

example : (∀ op ∈ [IdOp.select 1, .setcompress 1, .write 0 ⟨1, 0, 2, 3, 2, 2⟩ [6, 7, 8, 9], .endaccess 0, .read 1 ⟨0, 3, 1, 1, 5, 1⟩],
    op.Valid (α := Nat) 5 4) := by
  intro op ho
  simp only [List.mem_cons, List.not_mem_nil, or_false] at ho
  rcases ho with rfl | rfl | rfl | rfl | rfl
  · trivial
  · trivial
  · exact ⟨by decide, by decide⟩
  · trivial
  · show Valid 5 4 _
    decide

/-- new 5×4 image, compressed through a second id; first (strided) write through id 0, id 0 released while the data are
    still in the coder's buffer; id 1 reads them, writes more, the released id is refused, a third id of the next
    session reads everything -/
example : (runIds Variant.current 5 4 0 ({ bk := { ids := [0] } } : Img Nat)
    [.select 1, .setcompress 1, .write 0 ⟨1, 0, 2, 3, 2, 2⟩ [6, 7, 8, 9], .endaccess 0, .read 1 ⟨0, 3, 1, 1, 5, 1⟩,
     .write 1 ⟨3, 3, 1, 1, 2, 1⟩ [1, 2], .read 0 ⟨0, 3, 1, 1, 5, 1⟩, .reopen, .read 1 ⟨0, 0, 1, 1, 1, 1⟩, .select 2,
     .read 2 ⟨1, 0, 2, 3, 2, 2⟩]).2
    = [some [], some [], some [], some [], some [0, 8, 0, 9, 0], some [], none, some [], none, some [], some [6, 7, 8, 1]] := by
  decide

/-- WHAT-IF, not the code: a `GRendaccess` that also cleared `data_modified` ("nothing is left pending"). -/
def endaccessClearing (k : Nat) (b : Book) : Option Book := (b.endaccess k).map fun b' => { b' with dataModified := false }

/-- …then `Coherent` (hence `gr_ids_are_views`) breaks as soon as one of two ids of a compressed new image is released
    after the first write: the element exists (in the buffer), the bookkeeping says "no data", and the other id reads
    fill pixels instead of the pixels written. With the real `Book.endaccess` the same read returns the data. -/
example :
    let im0 : Img Nat := { bk := { ids := [0, 1], buffered := true, tagSet := true, aid := true, aidW := true } }
    let im1 := (im0.write Variant.current 2 2 0 0 ⟨0, 0, 1, 1, 2, 1⟩ [5, 6]).1
    let bad : Img Nat := { im1 with bk := (endaccessClearing 0 im1.bk).getD im1.bk }
    let good : Img Nat := { im1 with bk := (im1.bk.endaccess 0).getD im1.bk }
    bad.st.elem = some [5, 6, 0, 0] ∧ bad.bk.hasData = false ∧
    (bad.read Variant.current 2 2 0 1 ⟨0, 0, 1, 1, 2, 1⟩).2 = some (.inl 2) ∧
    good.bk.hasData = true ∧ (good.read Variant.current 2 2 0 1 ⟨0, 0, 1, 1, 2, 1⟩).2 = some (.inr [5, 6]) := by
  decide

/-! ### byte layer -/

/-- **The id-taking calls are the plain calls.** With coherent bookkeeping and an open handle, `GRwriteimage`/`GRreadimage`
    through that handle do to the image exactly what the single-id model functions do (so `gr_write_read_bytes`,
    `gr_read_interlace`, … hold through every id); only the bookkeeping moves, and it stays coherent. -/
theorem gr_id_calls_eq (v : Variant) (ri : RI) (k : Nat) (r : Req) (data : List UInt8) (hco : Coherent ri.st ri.bk)
    (hk : ri.bk.ids.contains k = true) (hval : Valid ri.W ri.H r) :
    (GRwriteimageId v ri k r data).2 = (GRwriteimage v ri r data).isSome ∧
    (∀ ri', GRwriteimage v ri r data = some ri' →
      (GRwriteimageId v ri k r data).1 = { ri' with bk := (ri.bk.getaid true).wrote } ∧
      (ri'.st.elem.isSome = true → Coherent ri'.st (ri.bk.getaid true).wrote)) ∧
    (GRreadimageId v ri k r).2 = GRreadimage v ri r ∧ (GRreadimageId v ri k r).1.st = ri.st ∧
    Coherent ri.st (GRreadimageId v ri k r).1.bk := by
  obtain ⟨hs, hi⟩ := hval
  have hview : ri.view = ri := by
    unfold RI.view
    rw [view_eq ⟨ri.st, ri.bk⟩ hco]
  refine ⟨?_, ?_, ?_, ?_, ?_⟩
  · simp only [GRwriteimageId, hk, hs, hi, hview, Bool.not_true, Bool.false_eq_true, if_false, Bool.and_false, Bool.or_false]
    cases GRwriteimage v ri r data <;> rfl
  · intro ri' hw
    simp only [GRwriteimageId, hk, hs, hi, hview, hw, Bool.not_true, Bool.false_eq_true, if_false, Bool.and_false, Bool.or_false,
      true_and]
    intro he
    exact coherent_wrote _ _ (coherent_getaid ri.st ri.bk true hco).2.1 he
  · simp only [GRreadimageId, hk, hs, hi, hview, Bool.not_true, Bool.false_eq_true, if_false, Bool.and_false, Bool.or_false]
  · simp only [GRreadimageId, hk, hs, hi, Bool.not_true, Bool.false_eq_true, if_false, Bool.and_false, Bool.or_false]
  · simp only [GRreadimageId, hk, hs, hi, Bool.not_true, Bool.false_eq_true, if_false, Bool.and_false, Bool.or_false]
    split
    · exact (coherent_getaid ri.st ri.bk false hco).1
    · exact hco

/-- a call through a handle that is not open fails and changes nothing -/
theorem gr_closed_id_refused (v : Variant) (ri : RI) (k : Nat) (r : Req) (data : List UInt8) (hk : ri.bk.ids.contains k = false) :
    GRwriteimageId v ri k r data = (ri, false) ∧ GRreadimageId v ri k r = (ri, none) := by
  simp only [GRwriteimageId, GRreadimageId, hk, Bool.not_false, if_true, and_self]

end H4.Props.C09Region
