import H4.Lemmas.C05RleSess
/-! C05, run-length coder, MIXED SESSIONS on one access id: sequential writes, forward and backward seeks, partial reads and `Hendaccess`
    in any order, through the functions of crle.c as TRANSLATED from the current C text (`H4.Gen.Fn.Crle`: `HCIcrle_staccess`,
    `HCIcrle_init`, `HCPcrle_write` -> `HCIcrle_encode`, `HCPcrle_read` -> `HCIcrle_decode`, `HCPcrle_endaccess` -> `HCIcrle_term`) and
    the hand model of `HCPcrle_seek` over the translated `HCIcrle_term` / `HCIcrle_init` / `HCIcrle_decode` (`H4.RleSess`, tied to the
    compiled C by the `T rle sess` lines of engine comp).

    The encoder and the decoder share ONE record and ONE position in the underlying element; the flag `encoding` says whose the record
    is.  `session_roundtrip`: started on a record with ARBITRARY content, every in-scope history succeeds, every read delivers the
    bytes written so far, and after `Hendaccess` the underlying element decodes (model decoder `H4.Rle.dec`, to which `HCIcrle_decode`
    is tied by `H4.Props.C05Rle.crle_read_refines`) to exactly the bytes written - wherever the writes ended (in a run, in a literal
    packet, exactly on a forced flush), wherever the reads stopped, whatever was sought.
    A change of where `encoding` is set, cleared or tested changes the generated definitions and these proofs are re-checked. -/
namespace H4.Props.C05RleSess
open H4 H4.Rle H4.RleSess H4.Gen.Crle H4.Gen.Fn.Crle H4.Lemmas.C05Rle H4.Lemmas.C05RleSess

/-! ## the functions around the coder, as translated -/

/-- **`HCIcrle_init`** (crle.c, translated): from ANY record - the access record's `special_info` is a fresh `malloc` block when
    `HCIcrle_staccess` calls it, and the encoder's or the decoder's leftovers when the backward branch of `HCPcrle_seek` does - it leaves
    `rle_state = RLE_INIT`, `encoding = FALSE`, `buf_pos = 0`, `last_byte = second_byte = (unsigned)RLE_NIL`, `offset = 0`, returns
    SUCCEED, no undefined behaviour -/
theorem HCIcrle_init_refines (fuel : Nat) (st enc pos last second off : Int) :
    let s := HCIcrle_init fuel st enc pos last second off
    s.ub = false ∧ s.oof = false ∧ s.ret = 0 ∧ s.rle_rle_state = 0 ∧ s.rle_encoding = 0 ∧ s.rle_buf_pos = 0 ∧ s.rle_last_byte = nil32 ∧
      s.rle_second_byte = nil32 ∧ s.rle_offset = 0 :=
  init_spec fuel st enc pos last second off

/-- the record of `H4.Props.C05Rle.initRec` (on which `crle_compress_refines` and the other whole-element theorems start) IS what the
    translated `HCIcrle_init` leaves, whatever was there before -/
theorem initRec_is_HCIcrle_init (fuel : Nat) (st enc pos last second off len : Int) (buffer : List Int) :
    let s := HCIcrle_init fuel st enc pos last second off
    H4.Props.C05Rle.initRec len buffer =
      { st := s.rle_rle_state, len := len, pos := s.rle_buf_pos, last := s.rle_last_byte, second := s.rle_second_byte,
        offset := s.rle_offset, encoding := s.rle_encoding, buffer := buffer, io := [] } := by
  obtain ⟨-, -, -, h4, h5, h6, h7, h8, h9⟩ := init_spec fuel st enc pos last second off
  simp only [H4.Props.C05Rle.initRec, h4, h5, h6, h7, h8, h9]

/-- **`HCIcrle_staccess`** (translated; `new_aid` = what `Hstartread` / `Hstartaccess` returned, not FAIL): the record of `HCIcrle_init` -/
theorem HCIcrle_staccess_refines (fuel : Nat) (aid st enc pos last second off mode new_aid : Int) (h : new_aid ≠ -1) :
    let s := HCIcrle_staccess fuel aid st enc pos last second off mode new_aid
    s.ub = false ∧ s.oof = false ∧ s.ret = 0 ∧ s.rle_rle_state = 0 ∧ s.rle_encoding = 0 ∧ s.rle_buf_pos = 0 ∧ s.rle_last_byte = nil32 ∧
      s.rle_second_byte = nil32 ∧ s.rle_offset = 0 :=
  staccess_spec fuel aid st enc pos last second off mode new_aid h

/-- **`HCPcrle_endaccess`** (translated), the flush decision: with write access the coder is flushed (`HCIcrle_term`) exactly when
    `encoding` is set and the state is RUN or MIX; otherwise nothing is written - in particular never from a record the DECODER owns
    (`encoding = 0`), however far a read got into a run or a literal packet -/
theorem HCPcrle_endaccess_refines (fuel : Nat) (access enc st len last : Int) (buffer : List Int) (second : Int) (out : List Int)
    (ha : 0 ≤ access) (hw : access.toNat &&& 2 ≠ 0) :
    let s := HCPcrle_endaccess fuel access enc st len last buffer second out
    let t := HCIcrle_term fuel st len last buffer enc second out
    (enc ≠ 0 ∧ st ≠ 0 → t.ret = 0 → s.ub = t.ub ∧ s.oof = t.oof ∧ s.ret = 0 ∧ s.io_out = t.io_out) ∧
    (¬ (enc ≠ 0 ∧ st ≠ 0) → s.ub = false ∧ s.oof = false ∧ s.ret = 0 ∧ s.io_out = out) := by
  refine ⟨fun ⟨he, hst⟩ hr => endaccess_flush fuel access enc st len last buffer second out ha hw he hst hr, fun h => ?_⟩
  exact endaccess_noflush fuel access enc st len last buffer second out ha (fun ⟨_, b, c⟩ => h ⟨b, c⟩)

/-- the flush of `H4.Props.C05Rle.endaccess` (the whole-element theorems end with it) IS the translated `HCPcrle_endaccess` on an access
    record with write access (`hterm`: in state RUN / MIX `HCIcrle_term` returns SUCCEED - `HCIcrle_term_refines` shows that for every
    record related to a model encoder state) -/
theorem endaccess_is_HCPcrle_endaccess (r : H4.Props.C05Rle.Rec) (access : Int) (ha : 0 ≤ access) (hw : access.toNat &&& 2 ≠ 0)
    (hterm : r.encoding ≠ 0 ∧ r.st ≠ 0 → (HCIcrle_term 0 r.st r.len r.last r.buffer r.encoding r.second r.io).ret = 0) :
    let s := HCPcrle_endaccess 0 access r.encoding r.st r.len r.last r.buffer r.second r.io
    H4.Props.C05Rle.endaccess r = if s.ub || s.oof || s.ret != 0 then none else some s.io_out := by
  intro s
  by_cases h : r.encoding ≠ 0 ∧ r.st ≠ 0
  · have hr := hterm h
    obtain ⟨f1, f2, f3, f4⟩ := endaccess_flush 0 access r.encoding r.st r.len r.last r.buffer r.second r.io ha hw h.1 h.2 hr
    rw [H4.Props.C05Rle.endaccess, if_pos h]
    simp only [s, f1, f2, f3, f4, hr]
  · obtain ⟨f1, f2, f3, f4⟩ := endaccess_noflush 0 access r.encoding r.st r.len r.last r.buffer r.second r.io ha (fun ⟨_, b, c⟩ => h ⟨b, c⟩)
    rw [H4.Props.C05Rle.endaccess, if_neg h]
    simp only [s, f1, f2, f3, f4]
    rfl

/-- **`HCPcrle_write`** (translated): an append (`info->length = rle_info->offset`) is handed to `HCIcrle_encode` unchanged -/
theorem HCPcrle_write_refines (fuel : Nat) (off enc st : Int) (buffer : List Int) (last len pos second length : Int) (data out : List Int)
    (hr : (HCIcrle_encode fuel enc st buffer last len pos second off length data out).ret ≠ -1) :
    let r := HCIcrle_encode fuel enc st buffer last len pos second off length data out
    let s := HCPcrle_write fuel off off enc st buffer last len pos second length data out
    s.ub = r.ub ∧ s.oof = r.oof ∧ s.ret = length ∧ s.rle_rle_state = r.rle_rle_state ∧ s.rle_buf_length = r.rle_buf_length ∧
      s.rle_buf_pos = r.rle_buf_pos ∧ s.rle_last_byte = r.rle_last_byte ∧ s.rle_second_byte = r.rle_second_byte ∧
      s.rle_offset = r.rle_offset ∧ s.rle_encoding = r.rle_encoding ∧ s.rle_buffer = r.rle_buffer ∧ s.io_out = r.io_out :=
  write_spec fuel off off enc st buffer last len pos second length data out (by simp) hr

/-- **`HCPcrle_read`** (translated): `HCIcrle_decode` on the same record -/
theorem HCPcrle_read_refines (fuel : Nat) (st len last : Int) (buffer : List Int) (pos off length : Int) (data inp : List Int) (io_pos : Int)
    (hr : (HCIcrle_decode fuel st len last buffer pos off length data inp io_pos).ret ≠ -1) :
    let r := HCIcrle_decode fuel st len last buffer pos off length data inp io_pos
    let s := HCPcrle_read fuel st len last buffer pos off length data inp io_pos
    s.ub = r.ub ∧ s.oof = r.oof ∧ s.ret = length ∧ s.rle_rle_state = r.rle_rle_state ∧ s.rle_buf_length = r.rle_buf_length ∧
      s.rle_buf_pos = r.rle_buf_pos ∧ s.rle_last_byte = r.rle_last_byte ∧ s.rle_offset = r.rle_offset ∧ s.rle_buffer = r.rle_buffer ∧
      s.data = r.buf ∧ s.io_pos = r.io_pos :=
  read_spec fuel st len last buffer pos off length data inp io_pos hr

/-! ## whole sessions -/

/-- **C05 for mixed sessions on one access id.**  `σ`: the access record before `HCIcrle_staccess` - the coder record (`st`, `len`,
    `pos`, `last`, `second`, `offset`, `encoding`, the position `fpos`) holds ANYTHING, the 128-byte buffer anything; the underlying
    element `σ.file` is any stream the model's decoder accepts (`[]` for a new element), `σ.length` its uncompressed length, the access
    word has DFACC_WRITE.  `ops`: ANY history of non-empty appends, seeks to any offset inside the data (forward, backward, onto the
    spot) and non-empty reads inside the data (`InScope`), in any order and number, of any sizes (total below 2^31, the range of
    `int32`).  Then every call succeeds without undefined behaviour, the reads deliver - concatenated - exactly the bytes written so far
    at their positions (`expected`), and `Hendaccess` leaves an underlying element that decodes to exactly `data ++ written ops`. -/
theorem session_roundtrip (σ : St) (cs data : List Byte) (mode : Int) (ops : List Op)
    (hfile : σ.file = bytes cs) (hdec : dec cs = some data) (hlen : σ.length = (data.length : Int))
    (hbuf : σ.buffer.length = RLE_BUF_SIZE) (hacc : 0 ≤ σ.access) (hw : σ.access.toNat &&& H4.Gen.Hdf.DFACC_WRITE ≠ 0)
    (hin : InScope data.length 0 ops) (hsz : data.length + (written ops).length < 2 ^ 31) :
    ∃ raw : List Byte, session σ mode ops = some (bytes raw, bytes (expected data 0 ops)) ∧ dec raw = some (data ++ written ops) := by
  obtain ⟨σ0, s1, s2, s3⟩ := start_step σ cs data mode hfile hdec hlen hbuf hacc (by rw [← dfacc_write]; exact hw) (by omega)
  obtain ⟨σ1, rd, r1, r2, r3⟩ := run_inv ops σ0 data 0 s2 (by rw [s3]; rfl) hin hsz
  obtain ⟨raw, e1, e2⟩ := end_step σ1 _ r3
  exact ⟨raw, by simp only [session, s1, Option.bind_some, r1, e1, Option.map_some, r2], e2⟩

/-- a NEW element (`HCcreate`): what is read back after the session is what the session wrote -/
theorem session_roundtrip_new (σ : St) (mode : Int) (ops : List Op) (hfile : σ.file = []) (hlen : σ.length = 0)
    (hbuf : σ.buffer.length = RLE_BUF_SIZE) (hacc : 0 ≤ σ.access) (hw : σ.access.toNat &&& H4.Gen.Hdf.DFACC_WRITE ≠ 0)
    (hin : InScope 0 0 ops) (hsz : (written ops).length < 2 ^ 31) :
    ∃ raw : List Byte, session σ mode ops = some (bytes raw, bytes (expected [] 0 ops)) ∧ dec raw = some (written ops) := by
  have h := session_roundtrip σ [] [] mode ops (by simpa using hfile) (by decide) (by simpa using hlen) hbuf hacc hw (by simpa using hin)
    (by simpa using hsz)
  simpa using h

/-- the session and a fresh reader (`H4.Props.C05Rle.readCalls`, any partition into read calls) together, all on the translated code:
    after the session the element is READ BACK as the bytes written -/
theorem session_then_read_back (σ : St) (cs data : List Byte) (mode : Int) (ops : List Op) (lens : List Nat) (len1 last pos : Int)
    (b1 : List Int) (hfile : σ.file = bytes cs) (hdec : dec cs = some data) (hlen : σ.length = (data.length : Int))
    (hbuf : σ.buffer.length = RLE_BUF_SIZE) (hacc : 0 ≤ σ.access) (hw : σ.access.toNat &&& H4.Gen.Hdf.DFACC_WRITE ≠ 0)
    (hin : InScope data.length 0 ops) (hsz : data.length + (written ops).length < 2 ^ 31) (h1 : b1.length = RLE_BUF_SIZE)
    (hsum : lens.sum = data.length + (written ops).length) :
    ∃ raw : List Byte, (session σ mode ops).map (·.1) = some (bytes raw) ∧
      H4.Props.C05Rle.readCalls raw { st := 0, len := len1, last := last, pos := pos, offset := 0, io_pos := 0, buffer := b1 } lens =
        some (bytes (data ++ written ops)) := by
  obtain ⟨raw, h, hd⟩ := session_roundtrip σ cs data mode ops hfile hdec hlen hbuf hacc hw hin hsz
  refine ⟨raw, by rw [h]; rfl, ?_⟩
  rw [H4.Props.C05Rle.crle_read_refines raw _ hd lens len1 last pos b1 h1 (by simp; omega) (by simp; omega), hsum]
  congr 2
  rw [← List.length_append, List.take_length]

/-- the hypotheses are satisfiable and the translated code runs, on the turn-round the flag `encoding` exists for: the record starts
    with garbage (`encoding = 1`, state MIX); 130 equal bytes are written - the encoder is forced to flush at the last one and is back in
    state INIT with `encoding` still set -; the access id seeks back to 0 and reads 20 bytes - the decoder is now inside the run -;
    one more byte is appended after a seek to the end, the access id seeks back again and reads 131 bytes; `Hendaccess`.
    The element holds the run packet and the one-byte literal, nothing else. -/
example :
    InScope 0 0 [Op.write (List.replicate 130 7), .seek 0, .read 20, .seek 130, .write [9], .seek 1, .read 130] ∧
    session { st := 2, len := 77, pos := 99, last := 65, second := 65, offset := 12345, encoding := 1,
              buffer := List.replicate 128 0xA5, file := [], fpos := 4, length := 0, access := 3 } 2
        [Op.write (List.replicate 130 7), .seek 0, .read 20, .seek 130, .write [9], .seek 1, .read 130] =
      some ([255, 7, 0, 9], List.replicate 20 7 ++ (List.replicate 129 7 ++ [9])) ∧
    dec [255, 7, 0, 9] = some (List.replicate 130 7 ++ [9]) := by
  refine ⟨by simp [InScope], by decide +kernel, by decide +kernel⟩

end H4.Props.C05RleSess
