import H4.Lemmas.VData
/-! # C07 — a Vdata behaves as a table of records (`VSwrite`/`VSread`/`VSseek`/`VSsetfields`/`VSfpack`) — property theorems

Conventions: `w : WList` is the write list built by `VSfdefine`+`VSsetfields` (`WList.WF`, established by
`vssetfields_wf`); `sel` is the read list (`rlist.item`: indices into `w`, any sublist/permutation, repetitions allowed for
multi-field vdatas); a caller buffer holding `n` records of the fields with sizes `szs` in buffer interlace `il`
has field `j` of record `r` at byte `layoutAddr (il = FULL_INTERLACE) szs n r j`. Bytes are compared in memory
representation: the per-element byte reversal of the big-endian file types cancels between write and read (`mirE`). -/
namespace H4.Props.C07
open H4.VData H4.Gen.Hdf H4.Gen.Vs

/-- `VSseek(k)` positions the access id at byte `k · ivsize`, and on a FULL_INTERLACE vdata field `j` of record `k`
    is stored from byte `k · ivsize + off j` on -/
theorem vsseek_addr (v v' : VS) (k : Nat) (h : v.seek k = some v') :
    v'.pos = k * v.w.ivsize ∧ v'.store = v.store ∧ v'.w = v.w ∧ v'.nvertices = v.nvertices ∧
    (v.w.WF → ∀ j < v.w.n, ∀ n, v'.pos + fileAddr true v.w n 0 j = fileAddr true v.w n k j) := by
  unfold VS.seek at h
  by_cases c1 : v.w.n = 0
  · simp [c1] at h
  · by_cases c2 : k * v.w.ivsize > v.store.size
    · simp [c1, c2] at h
    · simp only [c1, c2, if_false] at h
      cases h
      refine ⟨rfl, rfl, rfl, rfl, ?_⟩
      intro hw j hj n
      simp only [fileAddr_full hw hj]; omega

/-- example schema used by the non-vacuity checks: `a : int16[3]` (big-endian file type), `b : uint8`, `c : native int32` -/
def exFields : List Field :=
  [{ (default : Field) with name := "a", type := 22, tsz := 2, swap := true, order := 3, isize := 6, esize := 6 },
   { (default : Field) with name := "b", type := 21, tsz := 1, swap := false, order := 1, isize := 1, esize := 1, off := 6 },
   { (default : Field) with name := "c", type := 4120, tsz := 4, swap := false, order := 1, isize := 4, esize := 4, off := 7 }]
def exW : WList := { fields := exFields, ivsize := 11 }
def exVS : VS := { w := exW, store := Array.replicate 110 0 }

example : ((exVS.seek 7).map fun v => v.pos) = some 77 := by decide

/-- the example schema is well-formed (non-vacuity of every `w.WF` hypothesis below) -/
theorem exW_wf : exW.WF := by
  refine ⟨?_, ?_, by decide⟩
  · intro f hf
    simp only [exW, exFields, List.mem_cons, List.not_mem_nil, or_false] at hf
    rcases hf with rfl | rfl | rfl <;> exact ⟨by decide, by decide, by decide, by decide⟩
  · intro j hj
    have : j = 0 ∨ j = 1 ∨ j = 2 := by simp [WList.n, exW, exFields] at hj; omega
    rcases this with rfl | rfl | rfl <;> decide

/-- **Write then read, FULL_INTERLACE vdata.** For every well-formed schema, every batch of `n ≥ 1` records written at
    record `k` from a caller buffer in either buffer interlace, every read list `sel` and every record range
    `[k', k'+n') ⊆ [k, k+n)` read back in either buffer interlace (and whatever `Vtbufsize` is): both calls succeed,
    the position ends at record `k'+n'`, and every byte of every selected field of every record read is the byte that
    was written for that field of that record — i.e. the read buffer is the projection of the written records onto `sel`
    laid out in the requested interlace. -/
theorem vswrite_vsread {w : WList} (hw : w.WF) (hn : 0 < w.n) {sel : List Nat} (hsel : ∀ i ∈ sel, i < w.n)
    (hE : w.n = 1 → sel = [0]) {wil ril : Nat} (hwil : wil = FULL_INTERLACE ∨ wil = NO_INTERLACE)
    (hril : ril = FULL_INTERLACE ∨ ril = NO_INTERLACE) (store : Buf) (vtb k n k' n' : Nat) (wbuf rbuf : Buf)
    (hn1 : 1 ≤ n) (hn' : 1 ≤ n') (hk : k ≤ k') (hkn : k' + n' ≤ k + n) (hrsz : n' * (selSizes w sel).sum ≤ rbuf.size) :
    ∃ store' vtb' rbuf' vtb'',
      vswriteCore w FULL_INTERLACE store (w.ivsize * k) vtb wbuf n wil = some (store', w.ivsize * k + w.ivsize * n, vtb') ∧
      vsreadCore w FULL_INTERLACE sel store' (w.ivsize * k') vtb' rbuf n' ril = (vtb'', some (rbuf', w.ivsize * k' + w.ivsize * n')) ∧
      rbuf'.size = rbuf.size ∧
      ∀ r < n', ∀ jj, ∀ hj : jj < sel.length, ∀ e < (w.field sel[jj]).esize,
        getB rbuf' (layoutAddr (decide (ril = FULL_INTERLACE)) (selSizes w sel) n' r jj + e)
          = getB wbuf (layoutAddr (decide (wil = FULL_INTERLACE)) (esizes w) n (k' - k + r) sel[jj] + e) := by
  obtain ⟨store', vtb', w1, w2, w3, _⟩ := vswriteCore_bytes hw hn (Or.inl rfl) hwil store (w.ivsize * k) vtb wbuf hn1
  have hsz : w.ivsize * k' + w.ivsize * n' ≤ store'.size := by
    rw [w2]
    have := Nat.mul_le_mul_left w.ivsize hkn
    rw [Nat.mul_add, Nat.mul_add] at this; omega
  obtain ⟨rbuf', vtb'', r1, r2, r3, _⟩ := vsreadCore_bytes hw hsel hn hE (Or.inl rfl) hril store' (w.ivsize * k') vtb' rbuf hn' hsz hrsz
  refine ⟨store', vtb', rbuf', vtb'', w1, r1, r2, ?_⟩
  intro r hr jj hj e he
  have hi := hsel _ (List.getElem_mem hj)
  have wf := hw.field hi
  rw [r3 r hr jj hj e he]
  have := w3 (k' - k + r) (by omega) sel[jj] hi (mirE (w.field sel[jj]) e) (mirE_lt wf he)
  rw [mirE_mirE wf he] at this
  rw [← this]
  congr 1
  simp only [decide_true, fileAddr_full hw hi]
  have hk2 : k' = k + (k' - k) := by omega
  generalize k' - k = d at hk2 ⊢
  subst hk2; ring

set_option maxRecDepth 8000 in
/-- non-vacuity of `vswrite_vsread`: 3 records written at record 1 from a NO_INTERLACE buffer, records 2..3 read back as
    fields `c, a` in a FULL_INTERLACE buffer -/
example :
    let wbuf : Buf := Array.ofFn (n := 33) fun i => UInt8.ofNat (100 + i.val)
    let res := (vswriteCore exW FULL_INTERLACE (Array.replicate 11 0) 11 0 wbuf 3 NO_INTERLACE).map fun x =>
      (vsreadCore exW FULL_INTERLACE [2, 0] x.1 22 x.2.2 (Array.replicate 20 0) 2 FULL_INTERLACE).2.map (·.1)
    -- a (6 bytes x 3 records) at 0.., b at 18.., c (4 bytes x 3) at 21..; records 1,2 of the batch
    res = some (some #[125,126,127,128, 106,107,108,109,110,111,  129,130,131,132, 112,113,114,115,116,117]) := by decide

/-- **Chunked transfer = one-shot transfer.** The `VDATA_BUFFER_MAX`-bounded loop of cases C/E moves `chunk` records per
    iteration, where `chunk` depends on the process-wide static `Vtbufsize`; the data element, the position and the
    delivered buffer do not depend on it (nor would they on any other value of `VDATA_BUFFER_MAX`). -/
theorem chunked_transfer_eq {w : WList} (hw : w.WF) (hn : 0 < w.n) {vil il : Nat}
    (store : Buf) (pos vtb1 vtb2 : Nat) (buf : Buf) {nelt : Nat} (hnelt : 1 ≤ nelt) :
    (vswriteCore w vil store pos vtb1 buf nelt il).map (fun x => (x.1, x.2.1))
      = (vswriteCore w vil store pos vtb2 buf nelt il).map (fun x => (x.1, x.2.1)) := by
  unfold vswriteCore
  simp only [intSizeOf_eq]
  split
  · rfl
  · split
    · rfl
    · split
      · rfl
      · split
        · simp only [Option.map_some]
          rw [chunked_write_eq hw hn buf nelt pos store
            (Array.replicate (w.ivsize * min (chunkInit (w.ivsize * nelt) w.ivsize nelt vtb1).1 nelt) 0)
            (Array.replicate (w.ivsize * min (chunkInit (w.ivsize * nelt) w.ivsize nelt vtb2).1 nelt) 0)
            (chunkInit_pos (w.ivsize * nelt) w.ivsize _ vtb1 hnelt) (chunkInit_pos (w.ivsize * nelt) w.ivsize _ vtb2 hnelt) (by simp) (by simp) hnelt]
        · rfl

/-- the same for VSread: the delivered buffer and position do not depend on `Vtbufsize` -/
theorem chunked_read_transfer_eq {w : WList} (hw : w.WF) {sel : List Nat} (hsel : ∀ i ∈ sel, i < w.n) (hn : 0 < w.n)
    (hE : w.n = 1 → sel = [0]) {vil il : Nat} (store : Buf) (pos vtb1 vtb2 : Nat) (buf : Buf) {nelt : Nat} (hnelt : 1 ≤ nelt)
    (hst : pos + w.ivsize * nelt ≤ store.size) (hsz : nelt * (selSizes w sel).sum ≤ buf.size) :
    (vsreadCore w vil sel store pos vtb1 buf nelt il).2 = (vsreadCore w vil sel store pos vtb2 buf nelt il).2 := by
  unfold vsreadCore
  simp only [uvsizeOf_eq]
  split
  · rfl
  · split
    · rfl
    · split
      · exact chunked_read_eq hw hsel hn hE store buf nelt pos hst hsz (chunkInit_pos _ _ _ vtb1 hnelt) (chunkInit_pos _ _ _ vtb2 hnelt)
      · split <;> rfl

/-! ### NO_INTERLACE vdatas

`VSwrite` lays every *call's* batch out field-major (`off j · n + r · isize j` from the batch start) and `VSread`
decodes `n'` records from the current position with the same formula for *its* `n'`. So the stored image is not a
function of the table alone but of the write history, and only some reads are correct. -/

/-- **Write then read, NO_INTERLACE vdata: a read of exactly the written batch is correct** (any buffer interlaces, any
    field selection), also after later operations that leave the bytes of the batch alone (`store2`). -/
theorem vswrite_vsread_no {w : WList} (hw : w.WF) (hn : 0 < w.n) {sel : List Nat} (hsel : ∀ i ∈ sel, i < w.n)
    (hE : w.n = 1 → sel = [0]) {wil ril : Nat} (hwil : wil = FULL_INTERLACE ∨ wil = NO_INTERLACE)
    (hril : ril = FULL_INTERLACE ∨ ril = NO_INTERLACE) (store : Buf) (vtb vtb2 k n : Nat) (wbuf rbuf : Buf)
    (hn1 : 1 ≤ n) (hrsz : n * (selSizes w sel).sum ≤ rbuf.size) :
    ∃ store' vtb', vswriteCore w NO_INTERLACE store (w.ivsize * k) vtb wbuf n wil = some (store', w.ivsize * k + w.ivsize * n, vtb') ∧
      ∀ store2 : Buf, w.ivsize * k + w.ivsize * n ≤ store2.size →
        (∀ p, w.ivsize * k ≤ p → p < w.ivsize * k + w.ivsize * n → getB store2 p = getB store' p) →
      ∃ rbuf' vtb'', vsreadCore w NO_INTERLACE sel store2 (w.ivsize * k) vtb2 rbuf n ril = (vtb'', some (rbuf', w.ivsize * k + w.ivsize * n)) ∧
        rbuf'.size = rbuf.size ∧
        ∀ r < n, ∀ jj, ∀ hj : jj < sel.length, ∀ e < (w.field sel[jj]).esize,
          getB rbuf' (layoutAddr (decide (ril = FULL_INTERLACE)) (selSizes w sel) n r jj + e)
            = getB wbuf (layoutAddr (decide (wil = FULL_INTERLACE)) (esizes w) n r sel[jj] + e) := by
  obtain ⟨cF, cN⟩ := consts
  obtain ⟨store', vtb', w1, w2, w3, _⟩ := vswriteCore_bytes hw hn (Or.inr rfl) hwil store (w.ivsize * k) vtb wbuf hn1
  refine ⟨store', vtb', w1, ?_⟩
  intro store2 hs2 hag
  obtain ⟨rbuf', vtb'', r1, r2, r3, _⟩ := vsreadCore_bytes hw hsel hn hE (Or.inr rfl) hril store2 (w.ivsize * k) vtb2 rbuf hn1 hs2 hrsz
  refine ⟨rbuf', vtb'', r1, r2, ?_⟩
  intro r hr jj hj e he
  have hi := hsel _ (List.getElem_mem hj)
  have wf := hw.field hi
  have hlt := fileAddr_lt hw (vfull := decide (NO_INTERLACE = FULL_INTERLACE)) (n := n) (r := r) hi hr (by rw [wf.ie]; exact mirE_lt wf he)
  rw [r3 r hr jj hj e he, hag _ (by omega) (by omega)]
  have := w3 r hr sel[jj] hi (mirE (w.field sel[jj]) e) (mirE_lt wf he)
  rw [mirE_mirE wf he] at this
  exact this

/-- **Which reads of a NO_INTERLACE vdata are correct.** After a batch of `n` records written at record `k`, a read of
    `n'` records at record `k'` (`[k',k'+n') ⊆ [k,k+n)`) fetches field `i` of its `r`-th record from the stored address on
    the left, whereas that value was stored at the address on the right; the two coincide exactly when
    `(k'-k) · ivsize + off i · n' = off i · n + (k'-k) · isize i`. In particular (`vs_no_read_examples`): the batch itself
    always works; any prefix works for the field at offset 0 and any suffix for the last field; as soon as the selection
    contains the first field and another one, only the batch itself works. -/
theorem vs_no_read_correct_iff {w : WList} (hw : w.WF) {i : Nat} (hi : i < w.n) (k n k' n' r x : Nat) (hk : k ≤ k') :
    w.ivsize * k' + (fileAddr false w n' r i + x) = w.ivsize * k + (fileAddr false w n (k' - k + r) i + x) ↔
    (k' - k) * w.ivsize + (w.field i).off * n' = (w.field i).off * n + (k' - k) * (w.field i).isize := by
  rw [fileAddr_no hw hi, fileAddr_no hw hi]
  obtain ⟨d, rfl⟩ : ∃ d, k' = k + d := ⟨k' - k, by omega⟩
  simp only [Nat.add_sub_cancel_left]
  have e1 : w.ivsize * (k + d) = w.ivsize * k + d * w.ivsize := by ring
  have e2 : (d + r) * (w.field i).isize = d * (w.field i).isize + r * (w.field i).isize := by ring
  rw [e1, e2]
  omega

theorem vs_no_read_examples {w : WList} (hw : w.WF) {i : Nat} (hi : i < w.n) (k n : Nat) :
    -- the batch itself
    ((k - k) * w.ivsize + (w.field i).off * n = (w.field i).off * n + (k - k) * (w.field i).isize) ∧
    -- any prefix of the batch, for the field at offset 0
    ((w.field i).off = 0 → ∀ n', (k - k) * w.ivsize + (w.field i).off * n' = (w.field i).off * n + (k - k) * (w.field i).isize) ∧
    -- any suffix of the batch, for the last field
    ((w.field i).off + (w.field i).isize = w.ivsize → ∀ d ≤ n,
      (k + d - k) * w.ivsize + (w.field i).off * (n - d) = (w.field i).off * n + (k + d - k) * (w.field i).isize) ∧
    -- a selection containing the field at offset 0 of a multi-field record and a field at a positive offset: only the batch itself
    (∀ i0 < w.n, (w.field i0).off = 0 → (w.field i0).isize < w.ivsize → 0 < (w.field i).off → ∀ k' n', k ≤ k' →
      (k' - k) * w.ivsize + (w.field i0).off * n' = (w.field i0).off * n + (k' - k) * (w.field i0).isize →
      (k' - k) * w.ivsize + (w.field i).off * n' = (w.field i).off * n + (k' - k) * (w.field i).isize → k' = k ∧ n' = n) := by
  refine ⟨by simp, fun h n' => by simp [h], ?_, ?_⟩
  · intro h d hd
    simp only [Nat.add_sub_cancel_left]
    rw [← h]
    obtain ⟨m, rfl⟩ : ∃ m, n = d + m := ⟨n - d, by omega⟩
    simp only [Nat.add_sub_cancel_left]; ring
  · intro i0 _ h0 hlt hoff k' n' hk e0 e1
    obtain ⟨d, rfl⟩ : ∃ d, k' = k + d := ⟨k' - k, by omega⟩
    simp only [Nat.add_sub_cancel_left] at e0 e1
    rw [h0] at e0
    simp only [Nat.zero_mul, Nat.add_zero, Nat.zero_add] at e0
    have hd0 : d = 0 := by
      rcases Nat.eq_zero_or_pos d with z | z
      · exact z
      · have := Nat.mul_lt_mul_of_pos_left hlt z
        omega
    subst hd0
    simp only [Nat.zero_mul, Nat.zero_add, Nat.add_zero] at e1
    exact ⟨rfl, Nat.eq_of_mul_eq_mul_left hoff e1⟩

/-- the library misreads a misaligned range of a NO_INTERLACE vdata (confirmed on the real library by the `vs` engine):
    two 1-byte fields, batch of 2 records `(1,2),(3,4)` written, then 1 record read at record 0 gives `(1,3)` -/
example :
    let f1 : Field := { (default : Field) with name := "p", tsz := 1, order := 1, isize := 1, esize := 1 }
    let f2 : Field := { (default : Field) with name := "q", tsz := 1, order := 1, isize := 1, esize := 1, off := 1 }
    let w : WList := { fields := [f1, f2], ivsize := 2 }
    ((vswriteCore w NO_INTERLACE #[] 0 0 #[1, 2, 3, 4] 2 FULL_INTERLACE).map fun x =>
      (vsreadCore w NO_INTERLACE [0, 1] x.1 0 0 #[0, 0] 1 FULL_INTERLACE).2.map (·.1))
      = some (some #[1, 3]) := by decide

/-! ### any sequence of writes: the FULL_INTERLACE data element refines a table of records -/

/-- memory-representation byte `e` of field `j` of record `r` as stored in a FULL_INTERLACE data element -/
def memByte (w : WList) (store : Buf) (r j e : Nat) : Byte :=
  getB store (w.ivsize * r + ((w.field j).off + mirE (w.field j) e))

/-- one `VSseek(k); VSwrite(buf, n, il)` -/
structure WOp where
  k : Nat
  n : Nat
  il : Nat
  buf : Buf

def WOp.ok (o : WOp) : Prop := 1 ≤ o.n ∧ (o.il = FULL_INTERLACE ∨ o.il = NO_INTERLACE)

/-- the abstract table (record → field → byte) after one write: records `[k, k+n)` are replaced by the caller's records -/
def tblWrite (w : WList) (T : Nat → Nat → Nat → Byte) (o : WOp) : Nat → Nat → Nat → Byte :=
  fun r j e => if o.k ≤ r ∧ r < o.k + o.n then
      getB o.buf (layoutAddr (decide (o.il = FULL_INTERLACE)) (esizes w) o.n (r - o.k) j + e)
    else T r j e

/-- the implementation: `(data element, Vtbufsize)` after one write -/
def runWrite (w : WList) (st : Buf × Nat) (o : WOp) : Buf × Nat :=
  match vswriteCore w FULL_INTERLACE st.1 (w.ivsize * o.k) st.2 o.buf o.n o.il with
  | some (s, _, v) => (s, v)
  | none => st

/-- one write step refines the table update, extends the element to `max size (ivsize·(k+n))`, and never fails -/
theorem vswrite_table {w : WList} (hw : w.WF) (hn : 0 < w.n) (st : Buf × Nat) {o : WOp} (ho : o.ok) :
    (∃ vtb', vswriteCore w FULL_INTERLACE st.1 (w.ivsize * o.k) st.2 o.buf o.n o.il
        = some ((runWrite w st o).1, w.ivsize * o.k + w.ivsize * o.n, vtb')) ∧
    (runWrite w st o).1.size = max st.1.size (w.ivsize * o.k + w.ivsize * o.n) ∧
    ∀ r, ∀ j < w.n, ∀ e < (w.field j).esize,
      memByte w (runWrite w st o).1 r j e = tblWrite w (memByte w st.1) o r j e := by
  obtain ⟨store', vtb', w1, w2, w3, w4⟩ := vswriteCore_bytes hw hn (Or.inl rfl) ho.2 st.1 (w.ivsize * o.k) st.2 o.buf ho.1
  have hrun : (runWrite w st o).1 = store' := by simp only [runWrite, w1]
  rw [hrun]
  refine ⟨⟨vtb', w1⟩, w2, ?_⟩
  intro r j hj e he
  have wf := hw.field hj
  have hm := mirE_lt wf he
  have hb := off_add_le_ivsize hw hj
  rw [wf.ie] at hb
  simp only [memByte, tblWrite]
  by_cases c : o.k ≤ r ∧ r < o.k + o.n
  · rw [if_pos c]
    have := w3 (r - o.k) (by omega) j hj (mirE (w.field j) e) hm
    rw [mirE_mirE wf he] at this
    rw [← this]
    congr 1
    simp only [decide_true, fileAddr_full hw hj]
    obtain ⟨d, hd⟩ : ∃ d, r = o.k + d := ⟨r - o.k, by omega⟩
    subst hd
    simp only [Nat.add_sub_cancel_left]; ring
  · rw [if_neg c]
    apply w4
    by_cases c1 : r < o.k
    · left
      have : w.ivsize * (r + 1) ≤ w.ivsize * o.k := Nat.mul_le_mul_left _ c1
      rw [Nat.mul_add] at this; omega
    · right
      have : w.ivsize * (o.k + o.n) ≤ w.ivsize * r := Nat.mul_le_mul_left _ (by omega)
      rw [Nat.mul_add] at this; omega

/-- **Any sequence of writes.** After any list of (seek, write) operations — appends, overwrites, overlapping batches,
    either buffer interlace, any `Vtbufsize` history — every stored field byte equals the abstract table obtained by
    replaying the same operations on records, and the element length is the maximum extent written. -/
theorem vs_table_refinement {w : WList} (hw : w.WF) (hn : 0 < w.n) (ops : List WOp) (hops : ∀ o ∈ ops, o.ok) (st : Buf × Nat) :
    (∀ r, ∀ j < w.n, ∀ e < (w.field j).esize,
      memByte w (ops.foldl (runWrite w) st).1 r j e = (ops.foldl (tblWrite w) (memByte w st.1)) r j e) ∧
    (ops.foldl (runWrite w) st).1.size = ops.foldl (fun s o => max s (w.ivsize * o.k + w.ivsize * o.n)) st.1.size := by
  induction ops generalizing st with
  | nil => exact ⟨fun _ _ _ _ _ => rfl, rfl⟩
  | cons o t ih =>
    obtain ⟨_, h2, h3⟩ := vswrite_table hw hn st (hops o List.mem_cons_self)
    obtain ⟨i1, i2⟩ := ih (fun o' ho' => hops o' (List.mem_cons_of_mem _ ho')) (runWrite w st o)
    simp only [List.foldl_cons]
    refine ⟨?_, by rw [i2, h2]⟩
    intro r j hj e he
    rw [i1 r j hj e he]
    -- the two abstract folds start from tables that agree on all valid (j, e)
    have key : ∀ (l : List WOp) (T T' : Nat → Nat → Nat → Byte), (∀ r, T r j e = T' r j e) →
        ∀ r, (l.foldl (tblWrite w) T) r j e = (l.foldl (tblWrite w) T') r j e := by
      intro l
      induction l with
      | nil => intro T T' h r; exact h r
      | cons a l ihl =>
        intro T T' h r
        simp only [List.foldl_cons]
        apply ihl
        intro r'
        simp only [tblWrite]
        split
        · rfl
        · exact h r'
    exact key t _ _ (fun r' => h3 r' j hj e he) r

/-- **Reading the table.** A read of `n'` records at record `k'` of a FULL_INTERLACE data element that holds them returns,
    for any read list and buffer interlace, the stored table entries laid out in that interlace. Together with
    `vs_table_refinement`: reading after any sequence of writes yields the last written value of every field. -/
theorem vsread_table {w : WList} (hw : w.WF) (hn : 0 < w.n) {sel : List Nat} (hsel : ∀ i ∈ sel, i < w.n)
    (hE : w.n = 1 → sel = [0]) {ril : Nat} (hril : ril = FULL_INTERLACE ∨ ril = NO_INTERLACE)
    (store : Buf) (vtb k' n' : Nat) (rbuf : Buf) (hn' : 1 ≤ n') (hst : w.ivsize * k' + w.ivsize * n' ≤ store.size)
    (hrsz : n' * (selSizes w sel).sum ≤ rbuf.size) :
    ∃ rbuf' vtb', vsreadCore w FULL_INTERLACE sel store (w.ivsize * k') vtb rbuf n' ril = (vtb', some (rbuf', w.ivsize * k' + w.ivsize * n')) ∧
      rbuf'.size = rbuf.size ∧
      ∀ r < n', ∀ jj, ∀ hj : jj < sel.length, ∀ e < (w.field sel[jj]).esize,
        getB rbuf' (layoutAddr (decide (ril = FULL_INTERLACE)) (selSizes w sel) n' r jj + e) = memByte w store (k' + r) sel[jj] e := by
  obtain ⟨rbuf', vtb', r1, r2, r3, _⟩ := vsreadCore_bytes hw hsel hn hE (Or.inl rfl) hril store (w.ivsize * k') vtb rbuf hn' hst hrsz
  refine ⟨rbuf', vtb', r1, r2, ?_⟩
  intro r hr jj hj e he
  have hi := hsel _ (List.getElem_mem hj)
  rw [r3 r hr jj hj e he]
  simp only [memByte, decide_true, fileAddr_full hw hi]
  congr 1; ring

/-! ### `VSfpack` -/

/-- **Pack then unpack = identity on the field buffers.** For fields occupying pairwise disjoint intervals of the buffer
    record (`SelDisj`: always the case for distinct fields, `seldisj_prefix`), `_HDF_VSPACK` of `nrec` records followed by
    `_HDF_VSUNPACK` returns, in every field buffer, exactly the `nrec` values that were packed. -/
theorem vsfpack_roundtrip {sel : List (Nat × Nat)} {recSize : Nat} (hd : SelDisj sel recSize) (nrec : Nat) (buf : Buf)
    (fbufs fb0 : List Buf) (hbuf : nrec * recSize ≤ buf.size) (hl1 : sel.length ≤ fbufs.length) (hl0 : sel.length ≤ fb0.length)
    (hs0 : ∀ j, ∀ hj : j < sel.length, nrec * sel[j].1 ≤ (fb0[j]'(by omega)).size) :
    let packed := fpackPack sel recSize nrec buf fbufs
    let out := fpackUnpack sel recSize nrec packed fb0
    packed.size = buf.size ∧ out.length = sel.length ∧
    ∀ j, ∀ hj : j < sel.length, ∀ i < nrec, ∀ x < sel[j].1,
      getB (out.getD j #[]) (i * sel[j].1 + x) = getB (fbufs[j]'(by omega)) (i * sel[j].1 + x) := by
  intro packed out
  have hp : packed = applyVals (packVals (sel.zip fbufs) recSize nrec) buf := fpackPack_eq ..
  obtain ⟨p1, p2, _⟩ := fpackPack_spec (pdisj_zip hd fbufs) (nrec := nrec) buf hbuf
  rw [← hp] at p1 p2
  have hlen : out.length = sel.length := by
    simp only [out, fpackUnpack_eq, List.length_map, List.length_zip]; omega
  refine ⟨p1, hlen, ?_⟩
  intro j hj i hi x hx
  have hjz : j < (sel.zip fb0).length := by simp; omega
  have hout : out.getD j #[] = unpackOne packed recSize nrec (sel[j], fb0[j]'(by omega)) := by
    rw [getD_getElem (by rw [hlen]; exact hj)]
    simp only [out, fpackUnpack_eq, List.getElem_map, List.getElem_zip]
  obtain ⟨_, u2, _⟩ := unpackOne_spec packed recSize nrec (sel[j], fb0[j]'(by omega)) (hs0 j hj)
  rw [hout, u2 i hi x hx]
  have hmem : (sel[j], fbufs[j]'(by omega)) ∈ sel.zip fbufs := by
    have : j < (sel.zip fbufs).length := by simp; omega
    have e := List.getElem_mem this
    simpa [List.getElem_zip] using e
  exact p2 i hi _ hmem x hx

/-- **Unpack then pack = identity on the packed buffer**: packing the values just unpacked changes nothing. -/
theorem vsfpack_unpack_pack {sel : List (Nat × Nat)} {recSize : Nat} (hd : SelDisj sel recSize) (nrec : Nat) (buf : Buf)
    (fb0 : List Buf) (hbuf : nrec * recSize ≤ buf.size) (hl0 : sel.length ≤ fb0.length)
    (hs0 : ∀ j, ∀ hj : j < sel.length, nrec * sel[j].1 ≤ (fb0[j]'(by omega)).size) :
    fpackPack sel recSize nrec buf (fpackUnpack sel recSize nrec buf fb0) = buf := by
  rw [fpackPack_eq]
  obtain ⟨p1, p2, p3⟩ := fpackPack_spec (pdisj_zip hd (fpackUnpack sel recSize nrec buf fb0)) (nrec := nrec) buf hbuf
  apply buf_ext p1
  intro p _
  by_cases c : ∃ i, i < nrec ∧ ∃ e ∈ sel.zip (fpackUnpack sel recSize nrec buf fb0), ∃ x < e.1.1, p = i * recSize + e.1.2 + x
  · obtain ⟨i, hi, e, he, x, hx, rfl⟩ := c
    rw [p2 i hi e he x hx]
    obtain ⟨j, hj, rfl⟩ := List.getElem_of_mem he
    have hjs : j < sel.length := by simp at hj; omega
    simp only [List.getElem_zip, fpackUnpack_eq, List.getElem_map] at hx ⊢
    obtain ⟨_, u2, _⟩ := unpackOne_spec buf recSize nrec (sel[j], fb0[j]'(by omega)) (hs0 j hjs)
    exact u2 i hi x hx
  · exact p3 p (fun i hi e he x hx heq => c ⟨i, hi, e, he, x, hx, heq⟩)

/-- buffer records `(c : 4 bytes, a : 6 bytes)`; unpack `a` then `c`, pack them back into a scrambled buffer -/
example :
    let sel : List (Nat × Nat) := [(6, 4), (4, 0)]
    let buf : Buf := #[1,2,3,4, 10,11,12,13,14,15, 21,22,23,24, 30,31,32,33,34,35]
    let out := fpackUnpack sel 10 2 buf [Array.replicate 12 0, Array.replicate 8 0]
    out = [#[10,11,12,13,14,15, 30,31,32,33,34,35], #[1,2,3,4, 21,22,23,24]] ∧
    fpackPack sel 10 2 (Array.replicate 20 9) out = buf := by decide

/-! ### schema and record count -/

/-- **Schema consistency** (`VSfdefine`* ; `VSsetfields`): starting from an empty symbol table, any sequence of successful
    `VSfdefine` calls followed by a successful `VSsetfields` on the new vdata yields a well-formed write list — so every
    theorem above applies to it — whose record size is at most `MAX_FIELD_SIZE`. -/
theorem vssetfields_schema (defs : List (String × Nat × Nat)) (usym : List SymDef)
    (hdefs : defs.foldl (fun (u : Option (List SymDef)) d => u.bind fun u => vsfdefine u d.1 d.2.1 d.2.2) (some []) = some usym)
    (names : List String) (w : WList) (h : buildWList usym names = some w) :
    (w.WF ∧ w.ivsize ≤ MAX_FIELD_SIZE) ∨ w.fields = [] := by
  have hval : ∀ (ds : List (String × Nat × Nat)) (u0 u1 : List SymDef), (∀ sd ∈ u0, sd.Valid) →
      ds.foldl (fun (u : Option (List SymDef)) d => u.bind fun u => vsfdefine u d.1 d.2.1 d.2.2) (some u0) = some u1 →
      ∀ sd ∈ u1, sd.Valid := by
    intro ds
    induction ds with
    | nil => intro u0 u1 h0 h1; simp only [List.foldl_nil] at h1; cases h1; exact h0
    | cons d t ih =>
      intro u0 u1 h0 h1
      simp only [List.foldl_cons, Option.bind_some] at h1
      cases hd : vsfdefine u0 d.1 d.2.1 d.2.2 with
      | none =>
        rw [hd] at h1
        have : ∀ (l : List (String × Nat × Nat)), l.foldl (fun (u : Option (List SymDef)) d => u.bind fun u => vsfdefine u d.1 d.2.1 d.2.2) none = none := by
          intro l; induction l with
          | nil => rfl
          | cons a l ihl => simpa using ihl
        rw [this] at h1; cases h1
      | some u' =>
        rw [hd] at h1
        exact ih u' u1 (vsfdefine_valid u0 h0 _ _ _ u' hd) h1
  exact vssetfields_wf usym (hval defs [] usym (by simp) hdefs) names w h

/-- **Record count.** If the data element holds exactly `nvertices` records and the position is at record `k ≤ nvertices`,
    then after `VSwrite` of `n` records: `nvertices' = max nvertices (k+n)`, the element holds exactly `nvertices'` records,
    and the position is at record `k+n` — `VSelts`, the element length and `VSseek` stay mutually consistent. -/
theorem vswrite_nvertices {v v' : VS} {vtb vtb' : Nat} {buf : Buf} {n il k : Nat} (hw : v.w.WF) (hn : 0 < v.w.n)
    (hsize : v.store.size = v.w.ivsize * v.nvertices) (hpos : v.pos = v.w.ivsize * k) (hk : k ≤ v.nvertices)
    (hvil : v.interlace = FULL_INTERLACE ∨ v.interlace = NO_INTERLACE)
    (h : v.write vtb buf n il = some (v', vtb')) :
    v'.nvertices = max v.nvertices (k + n) ∧ v'.store.size = v.w.ivsize * v'.nvertices ∧ v'.pos = v.w.ivsize * (k + n) ∧ v'.w = v.w := by
  unfold VS.write at h
  split at h
  · cases h
  · by_cases hn0 : n = 0
    · subst hn0; simp [vswriteCore] at h
    · by_cases hil : il = FULL_INTERLACE ∨ il = NO_INTERLACE
      · obtain ⟨store', vtb2, w1, w2, _, _⟩ := vswriteCore_spec hw hn hvil hil v.store v.pos vtb buf (by omega : 1 ≤ n)
        rw [w1] at h
        simp only [Option.some.injEq, Prod.mk.injEq] at h
        obtain ⟨rfl, _⟩ := h
        have hiv := ivsize_pos hw hn
        have hdiv : v.pos / v.w.ivsize = k := by rw [hpos, Nat.mul_div_cancel_left _ hiv]
        simp only [hdiv]
        refine ⟨trivial, ?_, by rw [hpos]; ring, trivial⟩
        rw [w2, hsize, hpos, ← Nat.mul_add]
        rcases Nat.le_total v.nvertices (k + n) with c | c
        · rw [Nat.max_eq_right c, Nat.max_eq_right (Nat.mul_le_mul_left _ c)]
        · rw [Nat.max_eq_left c, Nat.max_eq_left (Nat.mul_le_mul_left _ c)]
      · have : vswriteCore v.w v.interlace v.store v.pos vtb buf n il = none := by
          unfold vswriteCore
          rw [if_neg hn0, if_neg (by omega)]
          rw [if_pos (by constructor <;> (intro e; exact hil (by simp [e])))]
        rw [this] at h; cases h

/-- the write list of `VSsetfields` may name the PREDEFINED fields `PX … NZ` (`rstab[]` of vsfld.c) next to user-defined ones:
    `vssetfields_schema` covers them (the record-size limit is applied to them too since commit fef3f30; before, the record size
    wrapped modulo 65536 and `VSwrite` overflowed its transfer buffer: known finding `limits-ivsize-wrap:reserved-field`).
    Here `A : uint8[65531]` and `PX` (4 bytes) fill a record of exactly `MAX_FIELD_SIZE` bytes, one more byte is refused. -/
theorem vssetfields_rstab_limit :
    ((vsfdefineTok [] "A" DFNT_UINT8 65531).bind fun usym => (buildWList usym ["A", "PX"]).map fun w =>
      (w.ivsize, w.fields.map (·.isize), w.fields.map (·.off))) = some (65535, [65531, 4], [0, 65531]) ∧
    ((vsfdefineTok [] "A" DFNT_UINT8 65532).bind fun usym => buildWList usym ["A", "PX"]).isNone = true := by decide

/-! ### re-definition of a field (repaired by commit b2ad584)

Before the repair the duplicate scan of `VSfdefine` compared the new type/order with `rstab[j]` (the table of RESERVED symbols
indexed by the USER symbol index, out of bounds for `j ≥ 9`) and kept the old definition in most cases; found by this
model + the `vs` engine (oracle `vs-redefine`).  On the repaired code the intended statement holds: -/
theorem vsfdefine_redefine_replaces (usym : List SymDef) (name : String) (t o : Nat) (u' : List SymDef)
    (hmem : ∃ s ∈ usym, s.name = name) (h : vsfdefine usym name t o = some u') :
    u'.length = usym.length ∧ (u'.find? (·.name == name)).map (fun s => (s.type, s.order)) = some (t, o) := by
  unfold vsfdefine at h
  split at h; · cases h
  unfold vsfdefineTok at h
  split at h; · cases h
  split at h; · cases h
  rename_i nt hnt
  split at h; · cases h
  obtain ⟨s0, hs0, hn0⟩ := hmem
  have hex : ∃ j, usym.findIdx? (fun s => s.name == name) = some j := by
    cases hf : usym.findIdx? (fun s => s.name == name) with
    | some j => exact ⟨j, rfl⟩
    | none =>
      rw [List.findIdx?_eq_none_iff] at hf
      have := hf s0 hs0
      simp [hn0] at this
  obtain ⟨j, hj⟩ := hex
  rw [hj] at h
  simp only [Option.some.injEq] at h
  subst h
  rw [List.findIdx?_eq_some_iff_getElem] at hj
  obtain ⟨hlt, hjname, hbefore⟩ := hj
  refine ⟨by simp, ?_⟩
  -- the first entry named `name` in the updated list is the new definition at index j
  have : (usym.set j ⟨name, t, nt.tsz, o⟩).find? (·.name == name) = some ⟨name, t, nt.tsz, o⟩ := by
    rw [List.find?_eq_some_iff_getElem]
    refine ⟨by simp, j, by simpa using hlt, by simp, ?_⟩
    intro k hk
    have hk' : k < usym.length := by omega
    have := hbefore k hk
    rw [List.getElem_set_ne (by omega)]
    simpa using this
  rw [this]; rfl

end H4.Props.C07
