import H4.Lemmas.ExtElem
/-! # C01, external elements — the data of an element lives at `extern_offset` of a separate file (property theorems)

Model: `H4/ExtElem.lean` (`hextelt.c`: `HXcreate`, `HXPseek`, `HXPread`, `HXPwrite`, `HXPinquire`; the special information is
shared by all access records on the element and survives close/reopen).  Tied to the C by engine `ext`
(`harness/e_ext.c`): several elements in one external file at different offsets, interleaved read and write ids.
Not modelled: the stdio stream mode (`HXPwrite`'s reopen-for-writing path has the effect of the plain path: that is what the
tie checks), file-name resolution (`HXsetdir`, `HXsetcreatedir`), `HXcreate` on elements that are already special. -/
namespace H4.Props.C01Ext
open H4.Elem H4.ExtElem H4.Gen.Hdf

/-- **ext_write_spec**: a write through a read/write id on an external element succeeds with count `|bs|`; in all external
    files exactly the bytes `[extern_offset + posn, extern_offset + posn + |bs|)` of the element's file change (to `bs`);
    the element's length becomes `max len (posn + |bs|)`, no other element's description changes; the id's position
    advances, no other id moves. -/
theorem ext_write_spec (w : XWorld) (h : Nat) (bs : Bytes) (a : XAcc) (x : XElem) (ha : w.acc h = some a)
    (hcw : a.canWrite = true) (hx : w.elem a.elem = some x) :
    (xwrite w h bs).2 = .num bs.length ∧
    (∀ g y, rd ((xwrite w h bs).1.file g) y =
      if g = x.file ∧ x.off + a.posn ≤ y ∧ y < x.off + a.posn + bs.length then bs.getD (y - (x.off + a.posn)) 0 else rd (w.file g) y) ∧
    (∀ e, (xwrite w h bs).1.elem e = if e = a.elem then some { x with len := max x.len (a.posn + bs.length) } else w.elem e) ∧
    (∀ h', (xwrite w h bs).1.acc h' = if h' = h then some { a with posn := a.posn + bs.length } else w.acc h') :=
  xwrite_effect w h bs a x ha hcw hx

/-- **ext_disjoint_noninterference**: elements at disjoint extents of one external file (or in different files) do not
    interfere: a write through any id on one element leaves the description and every byte of the other as they were.
    (This is the statement the seeded change c01b breaks in the C: its retry path writes at `posn` instead of
    `extern_offset + posn`.) -/
theorem ext_disjoint_noninterference (w : XWorld) (h : Nat) (bs : Bytes) (a : XAcc) (x : XElem) (ha : w.acc h = some a)
    (hcw : a.canWrite = true) (hx : w.elem a.elem = some x) (e2 : Nat) (x2 : XElem) (h2 : w.elem e2 = some x2)
    (hne : e2 ≠ a.elem)
    (hdisj : x2.file ≠ x.file ∨ x2.off + x2.len ≤ x.off + a.posn ∨ x.off + a.posn + bs.length ≤ x2.off) :
    (xwrite w h bs).1.elem e2 = some x2 ∧ (xwrite w h bs).1.bytes x2 = w.bytes x2 := by
  obtain ⟨_, hf, he, _⟩ := xwrite_effect w h bs a x ha hcw hx
  refine ⟨by rw [he, if_neg hne]; exact h2, ?_⟩
  unfold XWorld.bytes
  apply List.map_congr_left
  intro i hi
  have hi : i < x2.len := List.mem_range.mp hi
  rw [hf]
  have : ¬ (x2.file = x.file ∧ x.off + a.posn ≤ x2.off + i ∧ x2.off + i < x.off + a.posn + bs.length) := by
    intro c
    rcases hdisj with d | d | d
    · exact d c.1
    · omega
    · omega
  rw [if_neg this]

/-- **ext_write_bytes**: the element written is the byte array with `bs` written at `posn` (overwrite, extend); the gap
    between the old length and `posn`, if any, is whatever the external file holds there — zeros when it holds zeros -/
theorem ext_write_bytes (w : XWorld) (h : Nat) (bs : Bytes) (a : XAcc) (x : XElem) (ha : w.acc h = some a)
    (hcw : a.canWrite = true) (hx : w.elem a.elem = some x)
    (hgap : ∀ i, x.len ≤ i → i < a.posn → rd (w.file x.file) (x.off + i) = 0) :
    (xwrite w h bs).1.bytes { x with len := max x.len (a.posn + bs.length) } = specWrite (w.bytes x) a.posn bs := by
  obtain ⟨_, hf, _, _⟩ := xwrite_effect w h bs a x ha hcw hx
  unfold XWorld.bytes specWrite
  simp only [List.length_map, List.length_range]
  apply List.map_congr_left
  intro i hi
  have hi : i < max x.len (a.posn + bs.length) := List.mem_range.mp hi
  rw [hf]
  by_cases c : a.posn ≤ i ∧ i < a.posn + bs.length
  · rw [if_pos ⟨rfl, by omega, by omega⟩, if_pos c]
    congr 1; omega
  · rw [if_neg (fun d => c ⟨by omega, by omega⟩), if_neg c]
    simp only [List.getD_eq_getElem?_getD, List.getElem?_map]
    by_cases hl : i < x.len
    · rw [List.getElem?_range hl]; rfl
    · rw [List.getElem?_eq_none (by simp; omega)]
      exact hgap i (by omega) (by omega)

/-- **ext_read_spec**: a read that does not fail changes no byte and no description, returns exactly `readCount` bytes,
    namely the element's bytes at the position (found at `extern_offset + posn` of the external file), and advances the
    position by the count -/
theorem ext_read_spec (w : XWorld) (h : Nat) (n : Int) (bs : Bytes) (hr : (xread w h n).2 = .data bs) :
    ∃ a x, w.acc h = some a ∧ w.elem a.elem = some x ∧ 0 ≤ n ∧
      bs = specRead (w.bytes x) a.posn (readCount x.len a.posn n.toNat) ∧
      (∀ g, (xread w h n).1.file g = w.file g) ∧ (∀ e, (xread w h n).1.elem e = w.elem e) ∧
      (xread w h n).1.acc h = some { a with posn := a.posn + readCount x.len a.posn n.toNat } := by
  obtain ⟨a, x, ha, hx, hn, hb, hfile, hel, hacc⟩ := xread_effect w h n bs hr
  refine ⟨a, x, ha, hx, hn, ?_, hfile, hel, hacc⟩
  rw [hb]
  unfold specRead XWorld.bytes
  apply List.ext_getElem?
  intro i
  simp only [List.getElem?_map, List.getElem?_take, List.getElem?_drop]
  by_cases hi : i < readCount x.len a.posn n.toNat
  · have hp : a.posn + i < x.len := by
      unfold readCount at hi
      split at hi
      · omega
      · split at hi <;> omega
    simp only [hi, if_true, List.getElem?_range hi, List.getElem?_range hp, Option.map_some]
    congr 2; omega
  · simp only [hi, if_false]
    rw [List.getElem?_eq_none (by simp; omega)]; rfl

/-- rooms: every element `e` owns `[off, off + cap e)` of its external file, rooms in one file are disjoint, an element's
    bytes lie in its room and the rest of the room holds zeros -/
structure Rooms (w : XWorld) (cap : Nat → Nat) : Prop where
  inside : ∀ e x, w.elem e = some x → x.len ≤ cap e
  tail0 : ∀ e x, w.elem e = some x → ∀ i, x.len ≤ i → i < cap e → rd (w.file x.file) (x.off + i) = 0
  disj : ∀ e1 e2 x1 x2, e1 ≠ e2 → w.elem e1 = some x1 → w.elem e2 = some x2 → x1.file = x2.file →
    x1.off + cap e1 ≤ x2.off ∨ x2.off + cap e2 ≤ x1.off

/-- **ext_refines_bytes**: with every element in a room of its own, a write that stays inside the room of its element is
    `specWrite` on that element's byte string (zero gap fill included), leaves every other element's byte string and
    description untouched, and keeps the rooms: by induction, every history of such writes, reads, seeks, opens and
    closes of any number of ids on any number of elements sharing external files is a history of independent byte arrays -/
theorem ext_refines_bytes (w : XWorld) (cap : Nat → Nat) (hR : Rooms w cap) (h : Nat) (bs : Bytes) (a : XAcc) (x : XElem)
    (ha : w.acc h = some a) (hcw : a.canWrite = true) (hx : w.elem a.elem = some x) (hfit : a.posn + bs.length ≤ cap a.elem) :
    (xwrite w h bs).1.bytes { x with len := max x.len (a.posn + bs.length) } = specWrite (w.bytes x) a.posn bs ∧
    (∀ e2 x2, e2 ≠ a.elem → w.elem e2 = some x2 → (xwrite w h bs).1.elem e2 = some x2 ∧ (xwrite w h bs).1.bytes x2 = w.bytes x2) ∧
    Rooms (xwrite w h bs).1 cap := by
  have hother : ∀ e2 x2, e2 ≠ a.elem → w.elem e2 = some x2 →
      x2.file ≠ x.file ∨ x2.off + cap e2 ≤ x.off + a.posn ∨ x.off + a.posn + bs.length ≤ x2.off := by
    intro e2 x2 hne h2
    by_cases c : x2.file = x.file
    · rcases hR.disj e2 a.elem x2 x hne h2 hx c with d | d
      · exact Or.inr (Or.inl (by omega))
      · exact Or.inr (Or.inr (by omega))
    · exact Or.inl c
  refine ⟨ext_write_bytes w h bs a x ha hcw hx (fun i h1 h2 => hR.tail0 a.elem x hx i h1 (by omega)), ?_, ?_⟩
  · intro e2 x2 hne h2
    have hl := hR.inside e2 x2 h2
    apply ext_disjoint_noninterference w h bs a x ha hcw hx e2 x2 h2 hne
    rcases hother e2 x2 hne h2 with d | d | d
    · exact Or.inl d
    · exact Or.inr (Or.inl (by omega))
    · exact Or.inr (Or.inr d)
  · obtain ⟨_, hf, he, _⟩ := xwrite_effect w h bs a x ha hcw hx
    have hin := hR.inside a.elem x hx
    refine ⟨?_, ?_, ?_⟩
    · intro e y hy
      rw [he] at hy
      by_cases c : e = a.elem
      · rw [if_pos c] at hy; cases hy; rw [c]; show max x.len (a.posn + bs.length) ≤ _; omega
      · rw [if_neg c] at hy; exact hR.inside e y hy
    · intro e y hy i h1 h2
      rw [he] at hy
      rw [hf]
      by_cases c : e = a.elem
      · rw [if_pos c] at hy; cases hy
        rw [c] at h2
        have h1' : max x.len (a.posn + bs.length) ≤ i := h1
        show (if x.file = x.file ∧ x.off + a.posn ≤ x.off + i ∧ x.off + i < x.off + a.posn + bs.length then _
          else rd (w.file x.file) (x.off + i)) = 0
        rw [if_neg (fun d => by omega)]
        exact hR.tail0 a.elem x hx i (by omega) h2
      · rw [if_neg c] at hy
        have : ¬ (y.file = x.file ∧ x.off + a.posn ≤ y.off + i ∧ y.off + i < x.off + a.posn + bs.length) := by
          intro d
          rcases hother e y c hy with q | q | q
          · exact q d.1
          · omega
          · omega
        rw [if_neg this]
        exact hR.tail0 e y hy i h1 h2
    · intro e1 e2 y1 y2 hne h1 h2 hfile
      rw [he] at h1 h2
      have k1 : ∃ z1, w.elem e1 = some z1 ∧ z1.file = y1.file ∧ z1.off = y1.off := by
        by_cases c : e1 = a.elem
        · rw [if_pos c] at h1; cases h1; exact ⟨x, by rw [c]; exact hx, rfl, rfl⟩
        · rw [if_neg c] at h1; exact ⟨y1, h1, rfl, rfl⟩
      have k2 : ∃ z2, w.elem e2 = some z2 ∧ z2.file = y2.file ∧ z2.off = y2.off := by
        by_cases c : e2 = a.elem
        · rw [if_pos c] at h2; cases h2; exact ⟨x, by rw [c]; exact hx, rfl, rfl⟩
        · rw [if_neg c] at h2; exact ⟨y2, h2, rfl, rfl⟩
      obtain ⟨z1, a1, b1, c1⟩ := k1
      obtain ⟨z2, a2, b2, c2⟩ := k2
      have := hR.disj e1 e2 z1 z2 hne a1 a2 (by rw [b1, b2]; exact hfile)
      rw [c1, c2] at this; exact this

/-- non-vacuity: two elements in one external file (rooms `[4,20)` and `[32,64)`), a reader and a writer id on the
    second one; the write at position 6 of the second element lands at byte 38 of the file and the first element keeps
    its bytes -/
def demoX : XWorld :=
  (((xcreate {} 1 0 0 4 0 [1, 2, 3, 4]).1 |> fun w => (xcreate w 2 1 0 32 8 []).1) |> fun w => (xopen w 3 1 false).1)
    |> fun w => (xseek w 2 6 DF_START).1

example : (xwrite demoX 2 [9, 9]).1.file 0 =
    [0, 0, 0, 0, 1, 2, 3, 4, 0, 0, 0, 0, 0, 0, 0, 0, 0, 0, 0, 0, 0, 0, 0, 0, 0, 0, 0, 0, 0, 0, 0, 0, 0, 0, 0, 0, 0, 0, 9, 9] := by decide
example : (xread (xwrite demoX 2 [9, 9]).1 3 0).2 = .data [0, 0, 0, 0, 0, 0, 9, 9] := by decide

end H4.Props.C01Ext

namespace H4.Props.C01Ext
open H4.Elem H4.ExtElem H4.Gen.Hdf

/-- the rooms of `demoX`: 16 bytes at offset 4 for element 0, 32 bytes at offset 32 for element 1 -/
def demoCap (e : Nat) : Nat := if e = 0 then 16 else 32

theorem demoX_elem (e : Nat) : demoX.elem e =
    if e = 1 then some { file := 0, off := 32, len := 8 } else if e = 0 then some { file := 0, off := 4, len := 4 } else none := by
  have h : demoX.elems = [(1, { file := 0, off := 32, len := 8 }), (0, { file := 0, off := 4, len := 4 })] := by decide
  unfold XWorld.elem
  rw [h]
  by_cases c1 : e = 1
  · subst c1; rfl
  · by_cases c0 : e = 0
    · subst c0; rfl
    · have a1 : ((1 : Nat) == e) = false := by simp; exact fun x => c1 x.symm
      have a0 : ((0 : Nat) == e) = false := by simp; exact fun x => c0 x.symm
      simp [List.find?, a1, a0, c1, c0]

/-- non-vacuity of `ext_refines_bytes`: its hypotheses hold for `demoX`, the write id 2 (position 6 of element 1) and any
    two bytes -/
example : Rooms demoX demoCap := by
  have hfile : demoX.file 0 = [0, 0, 0, 0, 1, 2, 3, 4] := by decide
  have hz : ∀ y, 8 ≤ y → rd (demoX.file 0) y = 0 := by
    intro y hy; rw [hfile]; unfold rd
    rw [List.getD_eq_getElem?_getD, List.getElem?_eq_none (by simp; omega)]; rfl
  refine ⟨?_, ?_, ?_⟩
  · intro e x hx
    rw [demoX_elem] at hx
    unfold demoCap
    by_cases c1 : e = 1
    · subst c1; simp at hx; subst hx; simp
    · by_cases c0 : e = 0
      · subst c0; simp at hx; subst hx; simp
      · simp [c1, c0] at hx
  · intro e x hx i h1 _
    rw [demoX_elem] at hx
    by_cases c1 : e = 1
    · subst c1; simp at hx; subst hx; exact hz _ (by simp; omega)
    · by_cases c0 : e = 0
      · subst c0; simp at hx; subst hx; exact hz _ (by simp at h1 ⊢; omega)
      · simp [c1, c0] at hx
  · intro e1 e2 x1 x2 hne h1 h2 _
    rw [demoX_elem] at h1 h2
    unfold demoCap
    by_cases a1 : e1 = 1 <;> by_cases a0 : e1 = 0 <;> by_cases b1 : e2 = 1 <;> by_cases b0 : e2 = 0 <;>
      simp [a1, a0, b1, b0] at h1 h2 <;> (try omega) <;> (try (subst h1; subst h2; simp_all))

example : demoX.acc 2 = some { elem := 1, posn := 6, canWrite := true } := by decide

end H4.Props.C01Ext
