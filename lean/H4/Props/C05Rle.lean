import H4.Lemmas.C05Rle
import H4.Props.C05
/-! C05, function-level Tie A for `hdf/src/crle.c`: `HCIcrle_encode`, `HCIcrle_term` and `HCIcrle_decode` as translated statement by
    statement from the CURRENT C text (`H4.Gen.Fn.Crle`, written by gen/c2lean.py on every run; `switch` on the coder state, the
    `rle_info` record as fields `rle_*`, `HDputc`/`Hwrite` appending to the region `io_out`, `HDgetc`/`Hread` consuming `io_in` at
    `io_pos`) compute exactly the hand-written model `H4.Rle` that the C05 theorem `rle_roundtrip` is about - for every input of any
    length, from every coder state related to a model state - and never index outside a buffer (`ub = false`) and terminate
    (`oof = false`).  `bytes` converts a model byte string (`List UInt8`) into the `uint8` array the translated code sees (`List Int`).
    A change of the C text changes the generated definitions; these theorems are re-checked against them. -/
namespace H4.Props.C05Rle
open H4 H4.Rle H4.Gen.Crle H4.Gen.Fn.Crle H4.Lemmas.C05Rle

/-! ## encoder -/

/-- **`HCIcrle_encode`** as translated from crle.c: for EVERY input `bs` and EVERY coder record related (`EncRel`, see
    `H4.Lemmas.C05Rle`) to a model encoder state `e` - whatever was written before, whatever the output stream `io_out` holds - the C
    code reads only inside `buf`, writes only inside `rle_info->buffer` (`ub = false`), terminates (fuel = number of bytes), returns
    SUCCEED, has appended to the underlying element exactly the serialised packets the model's `encRun e bs` emits, leaves a record
    related to the model's resulting state, has advanced `offset` by the length and has set `encoding` iff it was given a byte.
    `_hlen`, `_hoff` are the C-side ranges (`length`, `offset` are `int32`; the translation computes in unbounded integers). -/
theorem HCIcrle_encode_refines (e : Enc) (bs : List Byte) (fuel : Nat) (hf : bs.length ≤ fuel)
    (encoding st len pos last second offset : Int) (buffer io_out : List Int)
    (_hlen : bs.length < 2 ^ 31) (_hoff : offset + bs.length < 2 ^ 31)
    (hrel : EncRel e st len pos last second buffer) :
    let s := HCIcrle_encode fuel encoding st buffer last len pos second offset bs.length (bytes bs) io_out
    s.ub = false ∧ s.oof = false ∧ s.ret = 0 ∧ s.io_out = io_out ++ bytes (ser (encRun e bs).2) ∧
      EncRel (encRun e bs).1 s.rle_rle_state s.rle_buf_length s.rle_buf_pos s.rle_last_byte s.rle_second_byte s.rle_buffer ∧
      s.rle_offset = offset + bs.length ∧ s.rle_encoding = (if bs = [] then encoding else 1) := by
  intro s
  have hs : s = encFinish (HCIcrle_encode.loop0 fuel (encStart encoding st buffer last len pos second offset bs.length (bytes bs) io_out)) :=
    enc_unfold ..
  obtain ⟨h1, h2, h3, h4, h5, h6, h7, h8, h9⟩ := enc_loop bs bs e fuel
    (encStart encoding st buffer last len pos second offset bs.length (bytes bs) io_out) 0 hf rfl rfl rfl rfl rfl rfl rfl hrel
  rw [hs]
  simp only [encFinish, h3, Bool.false_eq_true, if_false]
  refine ⟨h1, h2, trivial, h4, h5, ?_, ?_⟩
  · simp only [h6, h7]; rfl
  · refine Eq.trans h8 ?_
    simp only [encStart]
    cases bs <;> simp

/-- the hypotheses are satisfiable and the translated code runs: a literal, a run of four cut by the end of the call -/
example :
    EncRel {} 0 0 0 nil32 nil32 (List.replicate 128 0) ∧
    (let s := HCIcrle_encode 6 0 0 (List.replicate 128 0) nil32 0 0 nil32 0 6 (bytes [1, 2, 7, 7, 7, 7]) []
     s.ub = false ∧ s.oof = false ∧ s.ret = 0 ∧ s.io_out = [1, 1, 2] ∧ s.rle_rle_state = 1 ∧ s.rle_buf_length = 4 ∧ s.rle_last_byte = 7 ∧
       s.rle_offset = 6 ∧ s.rle_encoding = 1) ∧
    (encRun {} [1, 2, 7, 7, 7, 7]).2 = [Pkt.mix [1, 2]] := by
  unfold EncRel; decide +kernel

/-- **`HCIcrle_term`** as translated from crle.c, in state RUN or MIX (the callers `HCPcrle_endaccess` / `HCPcrle_seek` test
    `rle_state != RLE_INIT` first): writes exactly the model's final packet `encTerm e`, stays inside `rle_info->buffer`, returns SUCCEED
    and resets the record to the model's initial state `{}` (`encoding = FALSE`, `last_byte = second_byte = RLE_NIL`). -/
theorem HCIcrle_term_refines (e : Enc) (hmode : e.mode ≠ .init) (fuel : Nat) (st len pos last second encoding : Int)
    (buffer io_out : List Int) (hrel : EncRel e st len pos last second buffer) :
    let s := HCIcrle_term fuel st len last buffer encoding second io_out
    s.ub = false ∧ s.oof = false ∧ s.ret = 0 ∧ s.io_out = io_out ++ bytes (ser (encTerm e)) ∧
      EncRel {} s.rle_rle_state s.rle_buf_length pos s.rle_last_byte s.rle_second_byte s.rle_buffer ∧ s.rle_encoding = 0 :=
  term_main e hmode fuel st len pos last second encoding buffer io_out hrel

/-- in state INIT `HCIcrle_term` fails (`default:` branch) without writing or changing anything - the model's `encTerm` emits nothing there -/
theorem HCIcrle_term_init (fuel : Nat) (len last second encoding : Int) (buffer io_out : List Int) :
    let s := HCIcrle_term fuel 0 len last buffer encoding second io_out
    s.ub = false ∧ s.oof = false ∧ s.ret = -1 ∧ s.io_out = io_out ∧ s.rle_rle_state = 0 ∧ s.rle_buf_length = len ∧
      s.rle_last_byte = last ∧ s.rle_second_byte = second ∧ s.rle_buffer = buffer ∧ s.rle_encoding = encoding :=
  term_init fuel len last second encoding buffer io_out

/-- the hypotheses are satisfiable and the translated code runs: a pending run of 4 sevens is flushed as `0x81 0x07` -/
example :
    EncRel { mode := .run, len := 4, last := some 7, second := some 7 } 1 4 2 7 7 (List.replicate 128 0) ∧
    (let s := HCIcrle_term 0 1 4 7 (List.replicate 128 0) 1 7 [1, 1, 2]
     s.ub = false ∧ s.ret = 0 ∧ s.io_out = [1, 1, 2, 129, 7] ∧ s.rle_rle_state = 0 ∧ s.rle_last_byte = nil32 ∧ s.rle_encoding = 0) := by
  unfold EncRel; decide +kernel

/-! ## a whole element: `HCIcrle_init`, any number of `HCPcrle_write` calls, `HCPcrle_endaccess` -/

/-- the `comp_coder_rle_info_t` record together with the bytes written so far to the underlying DFTAG_COMPRESSED element -/
structure Rec where
  st : Int
  len : Int
  pos : Int
  last : Int
  second : Int
  offset : Int
  encoding : Int
  buffer : List Int
  io : List Int

/-- what `HCIcrle_init` (crle.c) stores: `rle_state = RLE_INIT`, `encoding = FALSE`, `buf_pos = 0`, `last_byte = second_byte =
    (unsigned)RLE_NIL`, `offset = 0`; `buf_length` and the buffer are left as they are; the element is empty -/
def initRec (len : Int) (buffer : List Int) : Rec :=
  { st := 0, len := len, pos := 0, last := nil32, second := nil32, offset := 0, encoding := 0, buffer := buffer, io := [] }

/-- one `HCPcrle_write` = one call of the TRANSLATED `HCIcrle_encode` on the record; `none` = ub / out of fuel / FAIL -/
def writeCall (r : Rec) (bs : List Byte) : Option Rec :=
  let s := HCIcrle_encode bs.length r.encoding r.st r.buffer r.last r.len r.pos r.second r.offset bs.length (bytes bs) r.io
  if s.ub || s.oof || s.ret != 0 then none
  else some { st := s.rle_rle_state, len := s.rle_buf_length, pos := s.rle_buf_pos, last := s.rle_last_byte, second := s.rle_second_byte,
              offset := s.rle_offset, encoding := s.rle_encoding, buffer := s.rle_buffer, io := s.io_out }

def writeCalls : Rec → List (List Byte) → Option Rec
  | r, [] => some r
  | r, p :: ps => (writeCall r p).bind fun r' => writeCalls r' ps

/-- `HCPcrle_endaccess`: `if (rle_info->encoding && rle_info->rle_state != RLE_INIT) HCIcrle_term(info)` on the TRANSLATED
    `HCIcrle_term`; the result is the content of the underlying element -/
def endaccess (r : Rec) : Option (List Int) :=
  if r.encoding ≠ 0 ∧ r.st ≠ 0 then
    let s := HCIcrle_term 0 r.st r.len r.last r.buffer r.encoding r.second r.io
    if s.ub || s.oof || s.ret != 0 then none else some s.io_out
  else some r.io

/-- the relation kept between two calls: the record is related to the model state reached, everything the model emitted is in the
    element, and a record that holds pending bytes has `encoding` set -/
def RecRel (e : Enc) (emitted : List Pkt) (r : Rec) : Prop :=
  EncRel e r.st r.len r.pos r.last r.second r.buffer ∧ r.io = bytes (ser emitted) ∧ (r.st ≠ 0 → r.encoding = 1)

theorem writeCall_rel (e : Enc) (em : List Pkt) (r : Rec) (bs : List Byte) (hl : bs.length < 2 ^ 31) (ho : r.offset + bs.length < 2 ^ 31)
    (h : RecRel e em r) :
    ∃ r', writeCall r bs = some r' ∧ RecRel (encRun e bs).1 (em ++ (encRun e bs).2) r' ∧ r'.offset = r.offset + bs.length := by
  obtain ⟨h1, h2, h3⟩ := h
  have key := HCIcrle_encode_refines e bs bs.length (Nat.le_refl _) r.encoding r.st r.len r.pos r.last r.second
    r.offset r.buffer r.io hl ho h1
  simp only at key
  generalize hs : HCIcrle_encode bs.length r.encoding r.st r.buffer r.last r.len r.pos r.second r.offset bs.length (bytes bs) r.io = s at key
  obtain ⟨g1, g2, g3, g4, g5, g6, g7⟩ := key
  refine ⟨{ st := s.rle_rle_state, len := s.rle_buf_length, pos := s.rle_buf_pos, last := s.rle_last_byte, second := s.rle_second_byte,
            offset := s.rle_offset, encoding := s.rle_encoding, buffer := s.rle_buffer, io := s.io_out }, ?_, ⟨g5, ?_, ?_⟩, g6⟩
  · simp only [writeCall, hs, g1, g2, g3]; rfl
  · simp only [g4, h2, ser, List.flatMap_append, bytes_append]
  · intro hst
    simp only [g7]
    cases bs with
    | nil =>
      simp only [↓reduceIte]
      apply h3
      intro h0
      apply hst
      obtain ⟨-, -, -, hm⟩ := g5
      obtain ⟨-, -, -, hm0⟩ := h1
      simp only [encRun] at hm
      revert hm hm0
      cases e.mode <;> simp <;> omega
    | cons b bs => simp

theorem writeCalls_rel : ∀ (pieces : List (List Byte)) (e : Enc) (em : List Pkt) (r : Rec), RecRel e em r → 0 ≤ r.offset →
    r.offset + pieces.flatten.length < 2 ^ 31 →
    ∃ r', writeCalls r pieces = some r' ∧ RecRel (encRun e pieces.flatten).1 (em ++ (encRun e pieces.flatten).2) r' ∧
      r'.offset = r.offset + pieces.flatten.length := by
  intro pieces
  induction pieces with
  | nil => intro e em r h _ _; exact ⟨r, rfl, by simpa [encRun] using h, by simp⟩
  | cons p ps ih =>
    intro e em r h h0 hl
    simp only [List.flatten_cons, List.length_append] at hl
    obtain ⟨r1, w1, rel1, o1⟩ := writeCall_rel e em r p (by omega) (by omega) h
    obtain ⟨r2, w2, rel2, o2⟩ := ih (encRun e p).1 (em ++ (encRun e p).2) r1 rel1 (by omega) (by omega)
    refine ⟨r2, by simp only [writeCalls, w1, Option.bind_some, w2], ?_, ?_⟩
    · simpa [encRun_append, List.append_assoc] using rel2
    · simp only [List.flatten_cons, List.length_append]; omega

theorem endaccess_rel (e : Enc) (em : List Pkt) (r : Rec) (h : RecRel e em r) : endaccess r = some (bytes (ser (em ++ encTerm e))) := by
  obtain ⟨h1, h2, h3⟩ := h
  by_cases hst : r.st = 0
  · have hm : e.mode = .init := by
      obtain ⟨-, -, -, hm⟩ := h1
      revert hm; cases e.mode <;> simp <;> omega
    simp [endaccess, hst, h2, encTerm, hm]
  · have hm : e.mode ≠ .init := by
      intro hm
      obtain ⟨-, -, -, hm'⟩ := h1
      rw [hm] at hm'
      exact hst hm'
    have key := HCIcrle_term_refines e hm 0 r.st r.len r.pos r.last r.second r.encoding r.buffer r.io h1
    simp only at key
    obtain ⟨g1, g2, g3, g4, -, -⟩ := key
    have he : r.encoding ≠ 0 := by rw [h3 hst]; decide
    simp only [endaccess, ne_eq, he, not_false_eq_true, hst, and_self, ↓reduceIte, g1, g2, g3, g4]
    simp only [h2, ser, List.flatMap_append, bytes_append]
    rfl

/-- **the bytes the C TEXT stores for an element**: starting from the record `HCIcrle_init` sets up, ANY sequence of write calls
    (`pieces`: any partition of the data, empty pieces included) through the translated `HCIcrle_encode`, followed by the flush of
    `HCPcrle_endaccess` through the translated `HCIcrle_term`, runs without undefined behaviour and without failure and leaves in the
    underlying element exactly `Rle.compress` of the concatenated data - the byte string `rle_roundtrip` is about.
    In particular the result does not depend on how the data is split over the calls. -/
theorem crle_compress_refines (pieces : List (List Byte)) (len0 : Int) (buffer : List Int) (hb : buffer.length = RLE_BUF_SIZE)
    (hlen : pieces.flatten.length < 2 ^ 31) :
    (writeCalls (initRec len0 buffer) pieces).bind endaccess = some (bytes (compress pieces.flatten)) := by
  have hrel : RecRel {} [] (initRec len0 buffer) := by
    refine ⟨⟨hb, rfl, rfl, rfl⟩, rfl, ?_⟩
    intro h; exact absurd rfl h
  obtain ⟨r', w, rel, -⟩ := writeCalls_rel pieces {} [] (initRec len0 buffer) hrel (by simp [initRec]) (by simp only [initRec]; omega)
  rw [w, Option.bind_some, endaccess_rel _ _ _ rel]
  simp [compress, encode]

/-- the same for the element written in ONE call: the C text stores `Rle.compress bs`, which `rle_roundtrip` decodes back to `bs` -/
theorem crle_single_write_roundtrip (bs : List Byte) (len0 : Int) (buffer : List Int) (hb : buffer.length = RLE_BUF_SIZE)
    (hlen : bs.length < 2 ^ 31) :
    ∃ raw, (writeCalls (initRec len0 buffer) [bs]).bind endaccess = some (bytes raw) ∧ dec raw = some bs :=
  ⟨compress bs, by simpa using crle_compress_refines [bs] len0 buffer hb (by simpa using hlen), H4.Props.C05.rle_roundtrip bs⟩

/-- split independence, stated on the translated code alone: two partitions of the same data leave the same bytes in the element -/
theorem crle_split_independent (p q : List (List Byte)) (len0 len1 : Int) (b0 b1 : List Int) (h0 : b0.length = RLE_BUF_SIZE)
    (h1 : b1.length = RLE_BUF_SIZE) (hpq : p.flatten = q.flatten) (hlen : p.flatten.length < 2 ^ 31) :
    (writeCalls (initRec len0 b0) p).bind endaccess = (writeCalls (initRec len1 b1) q).bind endaccess := by
  rw [crle_compress_refines p len0 b0 h0 hlen, crle_compress_refines q len1 b1 h1 (hpq ▸ hlen), hpq]

/-- the translated code runs: three write calls (one of them empty), a run crossing a call boundary, flush -/
example :
    (writeCalls (initRec 0 (List.replicate 128 0)) [[1, 2, 7], [], [7, 7, 7, 3]]).bind endaccess = some [1, 1, 2, 129, 7, 0, 3] ∧
    bytes (compress [1, 2, 7, 7, 7, 7, 3]) = [1, 1, 2, 129, 7, 0, 3] := by
  decide +kernel

/-! ## decoder -/

/-- **`HCIcrle_decode`** as translated from crle.c, ANY call of a read sequence: the record and the position in the underlying element are
    related (`DecRel`, see `H4.Lemmas.C05Rle`) to "the bytes still to come are `rem`" - `rem` = the rest of a partly delivered packet
    followed by what the model's `decFuel` makes of the compressed stream `cs` from `io_pos` on.  Asked for `n ≤ |rem|` bytes the C code
    stays inside `buf`, `rle_info->buffer` and the input (`ub = false`), terminates (fuel = `n`), returns SUCCEED, has stored exactly the
    first `n` bytes of `rem` in `buf` (the bytes behind them untouched), has advanced `offset` by `n` and leaves a record related to
    `rem.drop n` - so the next call continues where this one stopped.  `_hoff`, `hn`: C-side ranges of `offset`, `length` (`int32`). -/
theorem HCIcrle_decode_refines (cs rem : List Byte) (n fuel : Nat) (st len last pos offset io_pos : Int) (buffer out : List Int)
    (hf : n ≤ fuel) (hn : n < 2 ^ 31) (_hoff : offset + n < 2 ^ 31) (hout : n ≤ out.length)
    (hrel : DecRel cs rem st len last pos buffer io_pos) (hle : n ≤ rem.length) :
    let s := HCIcrle_decode fuel st len last buffer pos offset n out (bytes cs) io_pos
    s.ub = false ∧ s.oof = false ∧ s.ret = 0 ∧ s.buf = bytes (rem.take n) ++ out.drop n ∧ s.rle_offset = offset + n ∧
      DecRel cs (rem.drop n) s.rle_rle_state s.rle_buf_length s.rle_last_byte s.rle_buf_pos s.rle_buffer s.io_pos := by
  intro s
  have hs : s = decFinish (HCIcrle_decode.loop0 fuel (decStart st len last buffer pos offset n out (bytes cs) io_pos)) := dec_unfold ..
  obtain ⟨h1, h2, h3, h4, h5, h6, -⟩ := dec_loop cs fuel n (decStart st len last buffer pos offset n out (bytes cs) io_pos) rem [] out 0
    hf rfl rfl rfl rfl hn rfl rfl rfl hout rfl hrel
  obtain ⟨g1, g2, g3, g4⟩ := h6 hle
  rw [hs]
  simp only [decFinish, g1, Bool.false_eq_true, if_false]
  refine ⟨h1, h2, trivial, by simpa using g3, ?_, g4⟩
  simp only [h3, h4]; rfl

/-- **end of the input**: asked for more than is left (`|rem| < n`), the translated `HCIcrle_decode` delivers all of `rem` and then returns
    FAIL (-1) - `HDgetc` fails in state INIT at a packet boundary -, still without leaving any buffer and without running out of fuel -/
theorem HCIcrle_decode_eof (cs rem : List Byte) (n fuel : Nat) (st len last pos offset io_pos : Int) (buffer out : List Int)
    (hf : n ≤ fuel) (hn : n < 2 ^ 31) (hout : n ≤ out.length)
    (hrel : DecRel cs rem st len last pos buffer io_pos) (hlt : rem.length < n) :
    let s := HCIcrle_decode fuel st len last buffer pos offset n out (bytes cs) io_pos
    s.ub = false ∧ s.oof = false ∧ s.ret = -1 ∧ s.buf = bytes rem ++ out.drop rem.length := by
  intro s
  have hs : s = decFinish (HCIcrle_decode.loop0 fuel (decStart st len last buffer pos offset n out (bytes cs) io_pos)) := dec_unfold ..
  obtain ⟨h1, h2, h3, h4, h5, -, h7⟩ := dec_loop cs fuel n (decStart st len last buffer pos offset n out (bytes cs) io_pos) rem [] out 0
    hf rfl rfl rfl rfl hn rfl rfl rfl hout rfl hrel
  obtain ⟨g1, g2, g3⟩ := h7 hlt
  rw [hs]
  simp only [decFinish, g1, if_true]
  exact ⟨h1, h2, g2, by simpa using g3⟩

/-- **the first read of an element** (record as `HCIcrle_init` leaves it: state INIT, position 0; `buf_length`, `last_byte`, `buf_pos`, the
    buffer content arbitrary): for EVERY compressed stream `cs` the model's `dec` accepts and every request `n ≤ |dec cs|`, the translated
    `HCIcrle_decode` delivers the first `n` bytes of `dec cs` -/
theorem HCIcrle_decode_first (cs plain : List Byte) (hdec : dec cs = some plain) (n : Nat) (len last pos : Int) (buffer out : List Int)
    (hb : buffer.length = RLE_BUF_SIZE) (hn : n < 2 ^ 31) (hout : n ≤ out.length) (hle : n ≤ plain.length) :
    let s := HCIcrle_decode n 0 len last buffer pos 0 n out (bytes cs) 0
    s.ub = false ∧ s.oof = false ∧ s.ret = 0 ∧ s.buf = bytes (plain.take n) ++ out.drop n ∧ s.rle_offset = n ∧
      DecRel cs (plain.drop n) s.rle_rle_state s.rle_buf_length s.rle_last_byte s.rle_buf_pos s.rle_buffer s.io_pos := by
  have h := HCIcrle_decode_refines cs plain n n 0 len last pos 0 0 buffer out (Nat.le_refl _) hn (by omega) hout
    (decRel_init cs plain hdec len last pos buffer hb) hle
  simpa using h

/-- the hypotheses are satisfiable and the translated code runs: the stream of the encoder example, 5 of its 7 bytes are asked for - the
    call stops inside the run, the record keeps the one pending seven -; a second call for 3 bytes hits the end of the input after 2 -/
example :
    dec [1, 1, 2, 129, 7, 0, 3] = some [1, 2, 7, 7, 7, 7, 3] ∧
    (let s := HCIcrle_decode 5 0 0 0 (List.replicate 128 0) 0 0 5 (List.replicate 6 0xA5) (bytes [1, 1, 2, 129, 7, 0, 3]) 0
     s.ub = false ∧ s.oof = false ∧ s.ret = 0 ∧ s.buf = [1, 2, 7, 7, 7, 0xA5] ∧ s.rle_rle_state = 1 ∧ s.rle_buf_length = 1 ∧ s.io_pos = 5) ∧
    (let s := HCIcrle_decode 3 1 1 7 (List.replicate 128 0) 2 5 3 (List.replicate 3 0xA5) (bytes [1, 1, 2, 129, 7, 0, 3]) 5
     s.ub = false ∧ s.oof = false ∧ s.ret = -1 ∧ s.buf = [7, 3, 0xA5]) := by
  decide +kernel

/-! ## a whole element read back by any sequence of `HCPcrle_read` calls -/

/-- the decoder side of the `comp_coder_rle_info_t` record and the position in the underlying element -/
structure DRec where
  st : Int
  len : Int
  last : Int
  pos : Int
  offset : Int
  io_pos : Int
  buffer : List Int

/-- the record a call of `HCIcrle_decode` leaves -/
def drecOf (s : HCIcrle_decode.St) : DRec :=
  { st := s.rle_rle_state, len := s.rle_buf_length, last := s.rle_last_byte, pos := s.rle_buf_pos, offset := s.rle_offset,
    io_pos := s.io_pos, buffer := s.rle_buffer }

/-- one `HCPcrle_read(length = n)` = one call of the TRANSLATED `HCIcrle_decode` into a fresh `n`-byte buffer; `none` = ub / out of fuel / FAIL -/
def readCall (cs : List Byte) (r : DRec) (n : Nat) : Option (DRec × List Int) :=
  let s := HCIcrle_decode n r.st r.len r.last r.buffer r.pos r.offset n (List.replicate n 0) (bytes cs) r.io_pos
  if s.ub || s.oof || s.ret != 0 then none
  else some (drecOf s, s.buf)

/-- a sequence of reads of the given lengths; the result is the concatenation of what the calls delivered -/
def readCalls (cs : List Byte) : DRec → List Nat → Option (List Int)
  | _, [] => some []
  | r, n :: ns => (readCall cs r n).bind fun p => (readCalls cs p.1 ns).map (p.2 ++ ·)

theorem readCalls_rel (cs : List Byte) : ∀ (lens : List Nat) (rem : List Byte) (r : DRec),
    DecRel cs rem r.st r.len r.last r.pos r.buffer r.io_pos → lens.sum ≤ rem.length → 0 ≤ r.offset → r.offset + lens.sum < 2 ^ 31 →
    readCalls cs r lens = some (bytes (rem.take lens.sum)) := by
  intro lens
  induction lens with
  | nil => intro rem r _ _ _ _; simp [readCalls]
  | cons n ns ih =>
    intro rem r hrel hsum h0 hoff
    simp only [List.sum_cons] at hsum hoff
    have key := HCIcrle_decode_refines cs rem n n r.st r.len r.last r.pos r.offset r.io_pos r.buffer (List.replicate n 0) (Nat.le_refl _)
      (by omega) (by omega) (by simp) hrel (by omega)
    simp only at key
    generalize hs : HCIcrle_decode n r.st r.len r.last r.buffer r.pos r.offset n (List.replicate n 0) (bytes cs) r.io_pos = s at key
    obtain ⟨g1, g2, g3, g4, g5, g6⟩ := key
    have hcall : readCall cs r n = some (drecOf s, s.buf) := by
      simp only [readCall, hs, g1, g2, g3]; rfl
    have hnext := ih (rem.drop n) (drecOf s) g6 (by simp; omega) (by simp only [drecOf, g5]; omega) (by simp only [drecOf, g5]; omega)
    simp only [readCalls, hcall, Option.bind_some, hnext, Option.map_some, g4, List.sum_cons]
    simp [← bytes_append, ← List.take_add]

/-- **the bytes the C TEXT delivers for an element**: for every compressed stream `cs` the model's `dec` accepts (in particular every
    `compress bs`), starting from the record `HCIcrle_init` sets up, ANY sequence of read calls (`lens`: any partition of any prefix of the
    data, zero-length reads included) through the translated `HCIcrle_decode` runs without undefined behaviour and without failure and
    delivers, concatenated, exactly the corresponding prefix of `dec cs` -/
theorem crle_read_refines (cs plain : List Byte) (hdec : dec cs = some plain) (lens : List Nat) (len last pos : Int) (buffer : List Int)
    (hb : buffer.length = RLE_BUF_SIZE) (hsum : lens.sum ≤ plain.length) (hlen : plain.length < 2 ^ 31) :
    readCalls cs { st := 0, len := len, last := last, pos := pos, offset := 0, io_pos := 0, buffer := buffer } lens =
      some (bytes (plain.take lens.sum)) :=
  readCalls_rel cs lens plain _ (decRel_init cs plain hdec len last pos buffer hb) hsum (Int.le_refl _) (by simp only; omega)

/-- reading past the end: once everything has been delivered (`rem = []`) every further read of `n > 0` bytes returns FAIL - and a read
    sequence that asks for more than `|dec cs|` bytes in total fails at the call that crosses the end (`readCalls = none`) -/
theorem crle_read_eof (cs rem : List Byte) (r : DRec) (n : Nat) (hrel : DecRel cs rem r.st r.len r.last r.pos r.buffer r.io_pos)
    (hn : n < 2 ^ 31) (hlt : rem.length < n) (ns : List Nat) :
    (HCIcrle_decode n r.st r.len r.last r.buffer r.pos r.offset n (List.replicate n 0) (bytes cs) r.io_pos).ret = -1 ∧
    readCalls cs r (n :: ns) = none := by
  have key := HCIcrle_decode_eof cs rem n n r.st r.len r.last r.pos r.offset r.io_pos r.buffer (List.replicate n 0) (Nat.le_refl _) hn
    (by simp) hrel hlt
  simp only at key
  obtain ⟨g1, g2, g3, -⟩ := key
  refine ⟨g3, ?_⟩
  simp only [readCalls, readCall, g1, g2, g3]
  rfl

/-- write, flush, read back - all three through the translated C functions: the bytes read are the bytes written, for every data, every
    partition into write calls and every partition into read calls (`rle_roundtrip` transferred to the C text) -/
theorem crle_write_read_roundtrip (pieces : List (List Byte)) (lens : List Nat) (len0 len1 last pos : Int) (b0 b1 : List Int)
    (h0 : b0.length = RLE_BUF_SIZE) (h1 : b1.length = RLE_BUF_SIZE) (hlen : pieces.flatten.length < 2 ^ 31)
    (hsum : lens.sum = pieces.flatten.length) :
    ∃ raw : List Byte, (writeCalls (initRec len0 b0) pieces).bind endaccess = some (bytes raw) ∧
      readCalls raw { st := 0, len := len1, last := last, pos := pos, offset := 0, io_pos := 0, buffer := b1 } lens =
        some (bytes pieces.flatten) := by
  refine ⟨compress pieces.flatten, crle_compress_refines pieces len0 b0 h0 hlen, ?_⟩
  rw [crle_read_refines _ _ (H4.Props.C05.rle_roundtrip pieces.flatten) lens len1 last pos b1 h1 (by omega) hlen, hsum, List.take_length]

/-- the translated code runs: written in three calls, read back in four (one of them of length 0) -/
example :
    (writeCalls (initRec 0 (List.replicate 128 0)) [[1, 2, 7], [], [7, 7, 7, 3]]).bind endaccess = some (bytes [1, 1, 2, 129, 7, 0, 3]) ∧
    readCalls [1, 1, 2, 129, 7, 0, 3] { st := 0, len := 0, last := 0, pos := 0, offset := 0, io_pos := 0, buffer := List.replicate 128 0 }
      [1, 3, 0, 3] = some [1, 2, 7, 7, 7, 7, 3] := by
  decide +kernel

end H4.Props.C05Rle
