import H4.Lemmas.DDInit
import H4.Lemmas.DDCodec
import H4.DDConfig
/-! # C12 — the tag/ref directory (property theorems)

Model: `H4.DD` (hfiledd.c + the hfile.c callers) and `H4.Bitvect` (bitvect.c).  `Cfg` has one flag per confirmed defect
(false = the defective code, true = the fix). `Cfg.asIs` = the code before any fix; `Cfg.fixed` = all fixes in;
`H4.DD.currentCfg` = /repo today = `Cfg.fixed` (F3 fda7a17, F17 e50dd65, F4 5bd49ce, F5 e99f658, F6 1740592, F7 b11c62e)
is what Tie B checks. The defective variants stay in the model as the documented counter-witnesses below.

* Theorems named `…_partial` hold for EVERY `Cfg` (in particular `Cfg.asIs`); what they exclude is stated as the explicit,
  decidable hypothesis `guarded cfg s ops` (see `H4.DD.guard`: API preconditions + the configurations of F3/F4/F17),
  or as a hypothesis on the state.
* Theorems without the suffix are the FULL statements; they are proved for `Cfg.fixed` (the model of the fixed code) and,
  where the as-is code violates them, the `example : ¬ …` next to them refutes them for `Cfg.asIs` at a concrete witness.

A history starts from `hopenCreate cfg ndds`, the file `Hopen(path, DFACC_CREATE, ndds)` leaves (any `ndds`; `HTPinit`
raises it to `MIN_NDDS`), holding the library's version element `(DFTAG_VERSION, 1)`. -/
namespace H4.Props.C12
open H4.DD H4.Bitvect H4.Gen.Hdf

/-- the constants the proofs rely on, pinned to the generated values; the three `*_SHAPE_OK` flags say that Tie A checked
    the arithmetic form of `BASETAG`/`SPECIALTAG`/`MKSPECIALTAG` used by the model on all 65536 tags -/
theorem consts :
    MAGICLEN = 4 ∧ DD_SZ = 12 ∧ NDDS_SZ = 2 ∧ OFFSET_SZ = 4 ∧ MIN_NDDS = 4 ∧ DEF_NDDS = 16 ∧ MAX_REF = 65535 ∧
    DFTAG_NULL = 1 ∧ DFTAG_WILDCARD = 0 ∧ DFREF_WILDCARD = 0 ∧ INVALID_OFFSET = -1 ∧ INVALID_LENGTH = -1 ∧
    H4.DD.DFTAG_FREE = 108 ∧ H4.Gen.DDTie.UINT16_FAIL = 65535 ∧
    H4.Gen.DDTie.BASETAG_SHAPE_OK = 1 ∧ H4.Gen.DDTie.SPECIALTAG_SHAPE_OK = 1 ∧ H4.Gen.DDTie.MKSPECIALTAG_SHAPE_OK = 1 := by
  decide

/-! ## 1. every history refines the finite-map specification -/

/-- **dd_refines_map (partial, every `Cfg`)**: along any guarded history the file never fails to reopen, the result of
    every call equals the specification's (offsets and fresh-ref values erased, they are not determined by a map), and the
    live `(tag, ref, length)` entries are exactly those of the map `runMap` computes — any number of DD blocks,
    any `ndds`, caching on, off or toggled. -/
theorem dd_refines_map_partial (cfg : Cfg) (ndds : Nat) (ops : List Op)
    (hg : guarded cfg (hopenCreate cfg ndds) ops = true) :
    ∃ s', (run cfg (hopenCreate cfg ndds) ops).2 = some s' ∧
      eraseOuts ops (run cfg (hopenCreate cfg ndds) ops).1 =
        (runMap cfg [(DFTAG_VERSION, 1, (LIBVER_LEN : Int))] ops).1 ∧
      s'.abs.Perm (runMap cfg [(DFTAG_VERSION, 1, (LIBVER_LEN : Int))] ops).2 := by
  obtain ⟨hi, habs⟩ := hopenCreate_inv cfg ndds
  obtain ⟨s', h1, _, h3, h4⟩ := run_refines cfg ops _ _ hi (by rw [habs]) hg
  exact ⟨s', h1, h3, h4⟩

/-- **dd_refines_map (full)**: for the fixed code the only hypotheses left are the API preconditions `dom`
    (16-bit tags/refs, no wildcard where a single element is addressed). -/
theorem dd_refines_map (ndds : Nat) (ops : List Op) (hd : ∀ op ∈ ops, dom op = true) :
    ∃ s', (run Cfg.fixed (hopenCreate Cfg.fixed ndds) ops).2 = some s' ∧
      eraseOuts ops (run Cfg.fixed (hopenCreate Cfg.fixed ndds) ops).1 =
        (runMap Cfg.fixed [(DFTAG_VERSION, 1, (LIBVER_LEN : Int))] ops).1 ∧
      s'.abs.Perm (runMap Cfg.fixed [(DFTAG_VERSION, 1, (LIBVER_LEN : Int))] ops).2 :=
  dd_refines_map_partial Cfg.fixed ndds ops (guarded_of_dom ops _ hd)

/-- hypotheses satisfiable / theorem not vacuous: a history over two DD blocks with a delete, a duplicate onto the
    special variant of a tag, a reuse and a reopen, caching toggled -/
example : guarded Cfg.fixed (hopenCreate Cfg.fixed 4)
    [.cache false, .put 100 1 4, .put 100 2 7, .put 101 65535 3, .put 100 3 1, .del 100 2, .dup 16484 9 100 1,
     .cache true, .reuse 100 3, .put 100 3 5, .reopen, .exist 100 9, .number 100] = true := by decide +kernel
example : (run Cfg.fixed (hopenCreate Cfg.fixed 4)
    [.cache false, .put 100 1 4, .put 100 2 7, .put 101 65535 3, .put 100 3 1, .del 100 2, .dup 16484 9 100 1,
     .cache true, .reuse 100 3, .put 100 3 5, .reopen, .exist 100 9, .number 100]).1 =
    [.ok, .num 4, .num 7, .num 3, .num 1, .ok, .ok, .ok, .ok, .num 5, .ok, .ok, .cnt 3 false] := by decide +kernel

/-- F4 refutes the full statement for the code as it is: with caching off a deleted entry is back after a reopen -/
example : ¬ (∃ s', (run Cfg.asIs (hopenCreate Cfg.asIs 4) [.cache false, .put 100 1 4, .del 100 1, .reopen]).2 = some s' ∧
      s'.abs.Perm (runMap Cfg.asIs [(DFTAG_VERSION, 1, (LIBVER_LEN : Int))] [.cache false, .put 100 1 4, .del 100 1, .reopen]).2) := by
  have h : (run Cfg.asIs (hopenCreate Cfg.asIs 4) [.cache false, .put 100 1 4, .del 100 1, .reopen]).2.map File.abs =
      some [(30, 1, 92), (100, 1, 4)] := by decide +kernel
  have h2 : (runMap Cfg.asIs [(DFTAG_VERSION, 1, (LIBVER_LEN : Int))] [.cache false, .put 100 1 4, .del 100 1, .reopen]).2 =
      [(30, 1, 92)] := by decide +kernel
  rintro ⟨s', hs, hp⟩
  rw [hs] at h
  simp only [Option.map_some, Option.some.injEq] at h
  rw [h, h2] at hp
  have := hp.length_eq
  simp at this

/-- … and (with F3 and F17 already fixed, F4 not: /repo between e50dd65 and 5bd49ce) the stale descriptor of such a deletion
    could make the file unopenable: `(100,3)` is deleted, created again in the slot freed by `(100,1)`, and is then twice on disk -/
example : (run { Cfg.asIs with fixF3 := true, fixF17 := true } (hopenCreate { Cfg.asIs with fixF3 := true, fixF17 := true } 8)
    [.cache false, .put 100 1 4, .put 100 2 4, .put 100 3 4, .del 100 1, .del 100 3, .put 100 3 4, .reopen]).2 = none := by
  decide +kernel
example : (run Cfg.fixed (hopenCreate Cfg.fixed 8)
    [.cache false, .put 100 1 4, .put 100 2 4, .put 100 3 4, .del 100 1, .del 100 3, .put 100 3 4, .reopen]).2.isSome = true := by
  decide +kernel

/-- F3 (before commit fda7a17) refuted it too: with caching off the fifth element needs a second DD block and the file
    could not be reopened; today's /repo (`currentCfg`) reopens it -/
example : (run Cfg.asIs (hopenCreate Cfg.asIs 4)
    [.cache false, .put 100 1 4, .put 100 2 4, .put 100 3 4, .put 100 4 4, .reopen]).2 = none := by decide +kernel
example : (run currentCfg (hopenCreate currentCfg 4)
    [.cache false, .put 100 1 4, .put 100 2 4, .put 100 3 4, .put 100 4 4, .reopen]).2.isSome = true := by decide +kernel

/-- F17: `Hdupdd` onto a tag/ref in use leaves a second descriptor with that tag/ref in the blocks and frees the tag's
    dynarray (`ub`), instead of failing cleanly -/
example : ((run Cfg.asIs (hopenCreate Cfg.asIs 16) [.put 100 1 4, .put 100 2 4, .dup 100 2 100 1]).2.map
    (fun s => (s.ub, (s.live.filter (fun d => d.tag == 100 && d.ref == 2)).length))) = some (true, 2) := by decide +kernel
example : ((run Cfg.fixed (hopenCreate Cfg.fixed 16) [.put 100 1 4, .put 100 2 4, .dup 100 2 100 1]).2.map
    (fun s => (s.ub, (s.live.filter (fun d => d.tag == 100 && d.ref == 2)).length))) = some (false, 1) := by decide +kernel

/-! ## 2. persistence -/

/-- the states guarded histories reach satisfy the invariant -/
theorem reach_inv (cfg : Cfg) (ndds : Nat) (ops : List Op) (hg : guarded cfg (hopenCreate cfg ndds) ops = true) :
    ∃ s', (run cfg (hopenCreate cfg ndds) ops).2 = some s' ∧ Inv cfg s' := by
  obtain ⟨hi, habs⟩ := hopenCreate_inv cfg ndds
  obtain ⟨s', h1, h2, _⟩ := run_refines cfg ops _ _ hi (List.Perm.refl _) hg
  exact ⟨s', h1, h2⟩

/-- **persist (partial, every `Cfg`)**: after any guarded history, what `HTPstart` decodes from the flushed disk image
    (following the `nextoffset` chain from offset `MAGICLEN`) is exactly the in-memory block chain — in both cache modes. -/
theorem persist_partial (cfg : Cfg) (ndds : Nat) (ops : List Op) (hg : guarded cfg (hopenCreate cfg ndds) ops = true) :
    ∃ s', (run cfg (hopenCreate cfg ndds) ops).2 = some s' ∧
      decodeBlocks (syncedDisk s') = some (s'.blocks.map clean) := by
  obtain ⟨s', h1, hi⟩ := reach_inv cfg ndds ops hg
  exact ⟨s', h1, decode_synced hi.wf hi.disk⟩

/-- **persist (full)** for the fixed code -/
theorem persist (ndds : Nat) (ops : List Op) (hd : ∀ op ∈ ops, dom op = true) :
    ∃ s', (run Cfg.fixed (hopenCreate Cfg.fixed ndds) ops).2 = some s' ∧
      decodeBlocks (syncedDisk s') = some (s'.blocks.map clean) :=
  persist_partial Cfg.fixed ndds ops (guarded_of_dom ops _ hd)

/-- with caching off the disk is in step WITHOUT any flush: every block is clean and the disk block is its mirror -/
theorem persist_write_through (cfg : Cfg) {s : File} (h : Inv cfg s) (hc : s.cache = false) :
    decodeBlocks s.disk = some (s.blocks.map clean) := by
  have hcl := no_dirty_of_not_cached h.disk (Or.inl hc)
  have : s.disk = (hclose s).disk := by
    rw [hclose_disk h.disk]
    apply List.ext_getElem?
    intro i
    simp only [List.getElem?_map]
    cases hb : s.blocks[i]? with
    | none =>
      have : s.blocks.length ≤ i := by
        rcases Nat.lt_or_ge i s.blocks.length with h' | h'
        · simp [List.getElem?_eq_getElem h'] at hb
        · exact h'
      simp [List.getElem?_eq_none (by rw [h.disk.len]; exact this)]
    | some b =>
      have hi : i < s.disk.length := by
        rw [h.disk.len]
        rcases Nat.lt_or_ge i s.blocks.length with h' | h'
        · exact h'
        · simp [List.getElem?_eq_none h'] at hb
      rw [List.getElem?_eq_getElem hi]
      simp only [Option.map_some, Option.some.injEq]
      exact h.disk.clean i b _ hb (List.getElem?_eq_getElem hi) (hcl b (List.mem_of_getElem? hb))
  rw [this]
  exact decode_synced h.wf h.disk

/-- F3 (as is): a block created with caching off has all-zero descriptors on disk, memory has NIL descriptors -/
example : ((run Cfg.asIs (hopenCreate Cfg.asIs 4)
    [.cache false, .put 100 1 4, .put 100 2 4, .put 100 3 4, .put 100 4 4]).2.map
    (fun s => decide (decodeBlocks (syncedDisk s) = some (s.blocks.map clean)))) = some false := by decide +kernel

/-! ## 3. wildcard searches enumerate each live entry exactly once -/

theorem nodup_of_map {α β} (f : α → β) : ∀ {l : List α}, (l.map f).Nodup → l.Nodup := by
  intro l
  induction l with
  | nil => intro _; exact List.nodup_nil
  | cons a t ih =>
    intro h
    simp only [List.map_cons, List.nodup_cons] at h ⊢
    exact ⟨fun hm => h.1 (List.mem_map.mpr ⟨a, hm, rfl⟩), ih h.2⟩

/-- what a wildcard search `(st, sr)` should report: the live descriptors with that tag (or its special variant) / ref -/
def wanted (s : File) (st sr : Nat) : List DD := s.live.filter (findMatch st sr)

/-- **find_forward_enumerates**: iterating `Hfind(st, sr, DF_FORWARD)` from the start (at least one of `st`, `sr` a
    wildcard) returns exactly the matching live entries, in chain order — hence each once. Holds for every `Cfg`. -/
theorem find_forward_enumerates (cfg : Cfg) {s : File} (h : Inv cfg s) {st sr : Nat} (hw : st = 0 ∨ sr = 0) (h1 : st ≠ 1)
    {fuel : Nat} (hf : s.slots.length < fuel) :
    iterFind s st sr .fwd fuel 0 0 = wanted s st sr ∧ (iterFind s st sr .fwd fuel 0 0).Nodup := by
  have e : iterFind s st sr .fwd fuel 0 0 = wanted s st sr := by
    rw [iterFind_fwd h.wf hw h1 hf, filter_findMatch_live]; rfl
  refine ⟨e, ?_⟩
  rw [e]
  have hn := h.wf.wfl.nodup
  unfold KeysNodup at hn
  exact (nodup_of_map _ hn).filter _

/-- **find_backward_enumerates** -/
theorem find_backward_enumerates (cfg : Cfg) {s : File} (h : Inv cfg s) {st sr : Nat} (hw : st = 0 ∨ sr = 0) (h1 : st ≠ 1)
    {fuel : Nat} (hf : s.slots.length < fuel) :
    iterFind s st sr .bwd fuel 0 0 = (wanted s st sr).reverse ∧ (iterFind s st sr .bwd fuel 0 0).Nodup := by
  have e : iterFind s st sr .bwd fuel 0 0 = (wanted s st sr).reverse := by
    rw [iterFind_bwd h.wf hw h1 hf, filter_findMatch_live]; rfl
  refine ⟨e, ?_⟩
  rw [e, (List.reverse_perm _).nodup_iff]
  have hn := h.wf.wfl.nodup
  unfold KeysNodup at hn
  exact (nodup_of_map _ hn).filter _

example : iterFind (run Cfg.fixed (hopenCreate Cfg.fixed 4)
      [.put 100 1 4, .put 101 2 7, .put 100 3 3, .put 100 4 1, .del 100 3, .dup 16484 9 100 1]).2.get!
      100 0 .fwd 20 0 0 = [⟨100, 1, 150, 4⟩, ⟨16484, 9, 150, 4⟩, ⟨100, 4, 218, 1⟩] := by decide +kernel

/-! ## 4. `Hnumber` -/

/-- **hnumber_exact (full)**: with the F5 fix `Hnumber(tag)` is the number of live entries with that tag or its special
    variant, and `HTIcount_dd` never reads outside a block — odd or even `ndds`. -/
theorem hnumber_exact (cfg : Cfg) (hfix : cfg.fixF5 = true) (s : File) {t : Nat} (h0 : t ≠ 0) (h1 : t ≠ 1) (h108 : t ≠ 108) :
    (hnumber cfg s t).1 = (s.slots.filter (numMatch t)).length ∧ (hnumber cfg s t).2 = false := by
  refine ⟨htiCountDD_count cfg s h0 h1 h108, ?_⟩
  cases hh : (hnumber cfg s t).2 with
  | false => rfl
  | true =>
    have := (htiCountDD_oob cfg s h0 h1 h108).mp hh
    rw [hfix] at this; simp at this

/-- **hnumber_exact (partial, every `Cfg`)**: the count is right whenever no read is out of bounds, and the read past
    the end of a block happens exactly when (F5 unfixed) a block has an odd number of descriptors and its first
    descriptor does not match — the unrolled loop then tests `ddlist[ndds]`. -/
theorem hnumber_exact_partial (cfg : Cfg) (s : File) {t : Nat} (h0 : t ≠ 0) (h1 : t ≠ 1) (h108 : t ≠ 108) :
    (hnumber cfg s t).1 = (s.slots.filter (numMatch t)).length ∧
    ((hnumber cfg s t).2 = true ↔ cfg.fixF5 = false ∧ mkSpecial t ≠ DFTAG_NULL ∧
      ∃ b ∈ s.blocks, b.dds.length % 2 = 1 ∧ ∃ d0 rest, b.dds = d0 :: rest ∧ numMatch t d0 = false) :=
  ⟨htiCountDD_count cfg s h0 h1 h108, htiCountDD_oob cfg s h0 h1 h108⟩

/-- F5: `ndds = 5`, one element of tag 100 behind the version element: `Hnumber(100)` reads `ddlist[5]` -/
example : hnumber Cfg.asIs (run Cfg.asIs (hopenCreate Cfg.asIs 5) [.put 100 1 4]).2.get! 100 = (1, true) := by decide +kernel
example : hnumber Cfg.fixed (run Cfg.fixed (hopenCreate Cfg.fixed 5) [.put 100 1 4]).2.get! 100 = (1, false) := by decide +kernel

/-! ## 5. the bit-vector and the two ref allocators -/

/-- **bv_find_next_zero_spec** over the generated `bv_first_zero` / `bv_bit_mask` tables -/
theorem bv_find_next_zero_spec {b : BV} (h : b.Inv) :
    b.bit b.findNextZero.1 = false ∧ (∀ k, k < b.findNextZero.1 → b.bit k = true) ∧
    b.findNextZero.2.Inv ∧ ∀ k, b.findNextZero.2.bit k = b.bit k := findNextZero_spec h

/-- `bv_set` / `bv_get` -/
theorem bv_set_get_spec {b : BV} (h : b.Inv) (k : Nat) (v : Bool) :
    (b.set k v).Inv ∧ (∀ j, (b.set k v).get j = if j = k then (if v then 1 else 0) else b.get j) := by
  refine ⟨set_inv h k v, fun j => ?_⟩
  rw [get_eq (set_inv h k v), set_bit h, get_eq h]
  by_cases hj : j = k <;> simp [hj]

example : (BV.new.set 0 true |>.set 1 true |>.set 2 true |>.set 9 true).findNextZero.1 = 3 := by decide

/-- **hnewref_fresh (full)**: with the F6 fix, on every reachable state a non-zero `Hnewref` result is in use under NO
    tag, and 0 is returned only when all 65535 refs are in use — before and after the 16-bit counter wraps. -/
theorem hnewref_fresh {cfg : Cfg} (hfix : cfg.fixF6 = true) {s : File} (h : Inv cfg s) :
    ((hnewref s).1 ≠ 0 → ∀ d ∈ s.live, d.ref ≠ (hnewref s).1) ∧
    ((hnewref s).1 = 0 ↔ ∀ k, 1 ≤ k → k ≤ 65535 → ∃ d ∈ s.live, d.ref = k) := by
  have := hnewref_spec (s := s) (fun d hd => by have := h.wf.wfl.live_ok d hd; omega) (fun _ => h.maxref hfix)
  exact ⟨this.1, this.2.1⟩

/-- **hnewref_fresh (partial, every `Cfg`)**: the same whenever `maxref` bounds the live refs or the counter has wrapped -/
theorem hnewref_fresh_partial {cfg : Cfg} {s : File} (h : Inv cfg s)
    (hm : s.maxref = MAX_REF ∨ ∀ d ∈ s.live, d.ref ≤ s.maxref) :
    ((hnewref s).1 ≠ 0 → ∀ d ∈ s.live, d.ref ≠ (hnewref s).1) ∧
    ((hnewref s).1 = 0 ↔ ∀ k, 1 ≤ k → k ≤ 65535 → ∃ d ∈ s.live, d.ref = k) := by
  have := hnewref_spec (s := s) (fun d hd => by have := h.wf.wfl.live_ok d hd; omega)
    (fun hlt => by
      rcases hm with hm | hm
      · omega
      · exact hm)
  exact ⟨this.1, this.2.1⟩

/-- F6: `Hdupdd` creates `(200, 3)` without raising `maxref`; `Hnewref` then hands out 3 -/
example : ¬ (let s := (run Cfg.asIs (hopenCreate Cfg.asIs 16) [.put 100 2 4, .dup 200 3 100 2]).2.get!
    (hnewref s).1 ≠ 0 → ∀ d ∈ s.live, d.ref ≠ (hnewref s).1) := by decide +kernel
example : (let s := (run Cfg.fixed (hopenCreate Cfg.fixed 16) [.put 100 2 4, .dup 200 3 100 2]).2.get!
    (hnewref s).1) = 4 := by decide +kernel

/-- **htagnewref_fresh (full)**: with the F7 fix a non-zero `Htagnewref(tag)` result is in use for neither the tag nor
    its special variant / base tag, it is the LOWEST such ref, and 0 is returned only when all 65535 are in use. -/
theorem htagnewref_fresh {cfg : Cfg} (hfix : cfg.fixF7 = true) {s : File} (h : Inv cfg s) (t : Nat) :
    ((htagnewref cfg s t).1 ≠ 0 → ∀ d ∈ s.live, keyOf d ≠ (baseTag t, (htagnewref cfg s t).1)) ∧
    ((htagnewref cfg s t).1 = 0 ↔ ∀ k, 1 ≤ k → k ≤ 65535 → ∃ d ∈ s.live, keyOf d = (baseTag t, k)) ∧
    (∀ k, 1 ≤ k → k < (htagnewref cfg s t).1 → ∃ d ∈ s.live, keyOf d = (baseTag t, k)) := by
  obtain ⟨_, _, _, _, _, _, _, z, z1, z2, zfree, zbelow, hv⟩ := htagnewref_spec cfg h.wf t
  have hM : MAX_REF = 65535 := rfl
  have hval : (htagnewref cfg s t).1 = if z > 65535 then 0 else z := by
    rw [hv]; unfold tagnewrefValue; rw [hfix]; simp [hM]
  rw [hval]
  by_cases hz : z > 65535
  · simp only [hz, if_true]
    refine ⟨fun h0 => absurd rfl h0, ⟨fun _ k hk1 hk2 => zbelow k hk1 (by omega), fun _ => trivial⟩, fun k hk1 hk2 => by omega⟩
  · simp only [hz, if_false]
    refine ⟨fun _ => zfree, ⟨fun h0 => by omega, fun hall => ?_⟩, zbelow⟩
    exfalso
    obtain ⟨d, hd, hk⟩ := hall z z1 (by omega)
    exact zfree d hd hk

/-- **htagnewref_fresh (partial, every `Cfg`)**: as is, everything holds unless the lowest free ref of the tag is exactly
    65535 (`(uint16)65535 == (uint16)FAIL`) -/
theorem htagnewref_fresh_partial {cfg : Cfg} {s : File} (h : Inv cfg s) (t : Nat)
    (hx : (∀ d ∈ s.live, keyOf d ≠ (baseTag t, 65535)) → ∃ k, 1 ≤ k ∧ k < 65535 ∧ ∀ d ∈ s.live, keyOf d ≠ (baseTag t, k)) :
    ((htagnewref cfg s t).1 ≠ 0 → ∀ d ∈ s.live, keyOf d ≠ (baseTag t, (htagnewref cfg s t).1)) ∧
    ((htagnewref cfg s t).1 = 0 ↔ ∀ k, 1 ≤ k → k ≤ 65535 → ∃ d ∈ s.live, keyOf d = (baseTag t, k)) := by
  obtain ⟨_, _, _, _, _, _, _, z, z1, z2, zfree, zbelow, hv⟩ := htagnewref_spec cfg h.wf t
  have hM : MAX_REF = 65535 := rfl
  have hz : z ≠ 65535 := by
    intro e; subst e
    obtain ⟨k, k1, k2, kfree⟩ := hx zfree
    obtain ⟨d, hd, hk⟩ := zbelow k k1 k2
    exact kfree d hd hk
  have hval : (htagnewref cfg s t).1 = if z > 65535 then 0 else z := by
    rw [hv]; unfold tagnewrefValue
    cases cfg.fixF7
    · simp only [Bool.false_eq_true, if_false]
      by_cases hgt : z > 65535
      · have : z = 65536 := by omega
        subst this; simp
      · rw [if_neg hgt, if_neg (by omega)]; omega
    · simp [hM]
  rw [hval]
  by_cases hgt : z > 65535
  · simp only [hgt, if_true]
    exact ⟨fun h0 => absurd rfl h0, fun _ k hk1 hk2 => zbelow k hk1 (by omega), fun _ => trivial⟩
  · simp only [hgt, if_false]
    refine ⟨fun _ => zfree, fun h0 => by omega, fun hall => ?_⟩
    exfalso
    obtain ⟨d, hd, hk⟩ := hall z z1 (by omega)
    exact zfree d hd hk

/-- F7, in general: on ANY well-formed state in which refs 1..65534 of a tag are in use and 65535 is free, the code as
    it is returns 0 ("no ref free"); the fixed code returns 65535 -/
theorem htagnewref_asIs_zero_while_free {cfg : Cfg} {s : File} (h : Inv cfg s) (t : Nat)
    (hused : ∀ k, 1 ≤ k → k ≤ 65534 → ∃ d ∈ s.live, keyOf d = (baseTag t, k))
    (hfree : ∀ d ∈ s.live, keyOf d ≠ (baseTag t, 65535)) :
    (htagnewref cfg s t).1 = if cfg.fixF7 then 65535 else 0 := by
  obtain ⟨_, _, _, _, _, _, _, z, z1, z2, zfree, zbelow, hv⟩ := htagnewref_spec cfg h.wf t
  have hz : z = 65535 := by
    rcases Nat.lt_trichotomy z 65535 with hlt | heq | hgt
    · obtain ⟨d, hd, hk⟩ := hused z z1 (by omega)
      exact absurd hk (zfree d hd)
    · exact heq
    · obtain ⟨d, hd, hk⟩ := zbelow 65535 (by omega) hgt
      exact absurd hk (hfree d hd)
  rw [hv, hz]
  unfold tagnewrefValue
  cases cfg.fixF7 <;> simp [MAX_REF]

/-- F7 at the bit-vector level: bits 0..65534 set, 65535 clear -/
example : (let bv : BV := ⟨65535, 8192, 0, List.replicate 8191 255 ++ [127]⟩
    (tagnewrefValue Cfg.asIs bv.findNextZero.1, tagnewrefValue Cfg.fixed bv.findNextZero.1)) = (0, 65535) := by
  decide +kernel

/-! ## 6. special tags -/

/-- a special variant and its base tag share one ref space: same key, same bit-vector -/
theorem special_shares_refspace {t : Nat} (h : mkSpecial t ≠ DFTAG_NULL) (r : Nat) :
    keyOf ⟨mkSpecial t, r, 0, 0⟩ = keyOf ⟨t, r, 0, 0⟩ := by
  simp [keyOf, baseTag_mkSpecial h]

theorem basetag_idempotent (t : Nat) : baseTag (baseTag t) = baseTag t := baseTag_idem t
theorem basetag_never_special (t : Nat) : isSpecial (baseTag t) = false := baseTag_not_special t
theorem mkspecial_is_special {t : Nat} (h : t < 16384) : isSpecial (mkSpecial t) = true ∧ baseTag (mkSpecial t) = t := by
  refine ⟨isSpecial_mkSpecial h, ?_⟩
  have : mkSpecial t ≠ DFTAG_NULL := by unfold mkSpecial; simp [h, DFTAG_NULL]
  rw [baseTag_mkSpecial this]
  exact baseTag_of_not_special (by unfold isSpecial; simp; omega)

/-- on a reachable state a tag/ref and the special variant of the tag with the same ref never coexist -/
theorem special_and_base_exclusive {cfg : Cfg} {s : File} (h : Inv cfg s) {d d' : DD} (hd : d ∈ s.live) (hd' : d' ∈ s.live)
    (ht : baseTag d.tag = baseTag d'.tag) (hr : d.ref = d'.ref) : d = d' :=
  live_eq_of_key h.wf.wfl.nodup hd hd' (by simp [keyOf, ht, hr])

/-! ## 7. byte layout -/

/-- `DDDECODE (DDENCODE d) = d` for 16-bit tag/ref and 32-bit signed offset/length; 12 zero bytes are the zero descriptor -/
theorem dd_codec_roundtrip (d : DD) (h : DDRange d) : decodeDD (encodeDD d) = d ∧ (encodeDD d).length = 12 :=
  ⟨decode_encode_dd d h, encodeDD_length d⟩

theorem zero_bytes_decode : decodeDD (List.replicate 12 0) = zeroDD := by decide

example : decodeDD (encodeDD ⟨16484, 65535, -1, 2147483647⟩) = ⟨16484, 65535, -1, 2147483647⟩ := by decide

end H4.Props.C12
