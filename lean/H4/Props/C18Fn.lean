import H4.Lemmas.C18Fn
import H4.Lemmas.C18FnComp
import H4.Gen.Src
/-! # C18 — function-level Tie A for hrepack's option code (`mfhdf/hrepack/hrepack_parse.c`, `hrepack_utils.c`)

The functions as TRANSLATED from the C text of /repo (`gen/c2lean.py`: `H4.Gen.Fn.Repack.parse_comp`, `parse_chunk`,
`H4.Gen.Fn.Repack2.is_reserved`) compute the hand-written model of `H4.Tools` (`parseComp`, `parseChunk`, `isReserved`) the
theorems of `H4.Props.C18` are about - for EVERY NUL-terminated argument string: any length below 2^31, any bytes.

* a string is the region `bs ++ 0 :: rest` (`bs` = the `char` cells before the NUL, `CStr bs`: values -128..127, none 0; `rest` = whatever
  follows in the caller's buffer); the model sees `toStr bs` (cell -> the character with that `unsigned char` code);
* the functions never leave their regions: `ub = false` covers every access to `str`, to the local token buffers `obj[256]`, `scomp[10]`,
  `stype[5]`, `smask[3]`, `sdim[10]` (which start POISONED, so nothing relies on zeroed stack memory), to the malloc'ed object list, to
  `*n_objs`, `*chunk_rank` and the caller's `chunk_lengths[H4_MAX_VAR_DIMS]`; `strcmp` / `atoi` never read past a NUL, `atoi` never
  overflows, `isdigit` never sees a value outside `unsigned char`;
* a rejected string makes the C function `return NULL` (`retnull = true`; the fixed code has no `exit`);
* an accepted string gives the model's object names (row i of the list = the i-th name and its NUL), `*n_objs` = the number of names,
  the coder / parameter resp. `*chunk_rank` and the chunk lengths.  -/
set_option maxRecDepth 8000
namespace H4.Props.C18Fn
open H4.Tools H4.Gen.Tools H4.C18Fn

/-! ## `is_reserved` -/

open H4.Gen.Fn.Repack2 in
/-- **`is_reserved` refines `isReserved`**: for every class string the translated function returns 1 exactly when the model says
    "reserved", and no `strcmp` / `strncmp` reads past the NUL of the class (the literals end with their own). -/
theorem is_reserved_refines (fuel : Nat) (cls rest : List Int) (hc : CStr cls) :
    let s := is_reserved fuel false (cls ++ 0 :: rest)
    s.ub = false ∧ s.oof = false ∧ s.ret = (if isReserved (toStr cls) then 1 else 0) := by
  obtain ⟨r0, h0, e0⟩ := strcmp_lit cls rest hc IS_RESERVED_CLASS_0 (by decide)
  obtain ⟨r1, h1, e1⟩ := strcmp_lit cls rest hc IS_RESERVED_CLASS_1 (by decide)
  obtain ⟨r2, h2, e2⟩ := strcmp_lit cls rest hc IS_RESERVED_CLASS_2 (by decide)
  obtain ⟨r3, h3, e3⟩ := strcmp_lit cls rest hc IS_RESERVED_CLASS_3 (by decide)
  obtain ⟨r4, h4, e4⟩ := strcmp_lit cls rest hc IS_RESERVED_CLASS_4 (by decide)
  obtain ⟨r5, h5, e5⟩ := strcmp_lit cls rest hc IS_RESERVED_CLASS_5 (by decide)
  obtain ⟨r6, h6, e6⟩ := strcmp_lit cls rest hc IS_RESERVED_CLASS_6 (by decide)
  obtain ⟨r7, h7, e7⟩ := strcmp_lit cls rest hc IS_RESERVED_CLASS_7 (by decide)
  obtain ⟨r8, h8, e8⟩ := strcmp_lit cls rest hc IS_RESERVED_CLASS_8 (by decide)
  obtain ⟨r9, h9, e9⟩ := strcmp_lit cls rest hc IS_RESERVED_CLASS_9 (by decide)
  obtain ⟨r10, h10, e10⟩ := strcmp_lit cls rest hc IS_RESERVED_CLASS_10 (by decide)
  obtain ⟨rp, hp, ep⟩ := strncmp_lit IS_RESERVED_PREFIX_LEN cls rest hc IS_RESERVED_PREFIX (by decide)
  simp only [lit, IS_RESERVED_CLASS_0, IS_RESERVED_CLASS_1, IS_RESERVED_CLASS_2, IS_RESERVED_CLASS_3, IS_RESERVED_CLASS_4, IS_RESERVED_CLASS_5,
    IS_RESERVED_CLASS_6, IS_RESERVED_CLASS_7, IS_RESERVED_CLASS_8, IS_RESERVED_CLASS_9, IS_RESERVED_CLASS_10, IS_RESERVED_PREFIX,
    IS_RESERVED_PREFIX_LEN, List.map_cons, List.map_nil, List.cons_append, List.nil_append, Int.ofNat_eq_natCast, Int.cast_ofNat_Int]
    at h0 h1 h2 h3 h4 h5 h6 h7 h8 h9 h10 hp
  have hlen : Int.toNat (13 % 18446744073709551616) = 13 := by decide
  simp only [is_reserved, is_reserved.chk, h0, h1, h2, h3, h4, h5, h6, h7, h8, h9, h10, hp, hlen, Option.isSome_some, Option.getD_some,
    or_true, decide_true, Bool.not_true, Bool.or_false, true_and, if_true, ite_true,
    apply_ite is_reserved.St.vgroup_class, apply_ite is_reserved.St.ub, apply_ite is_reserved.St.oof, apply_ite is_reserved.St.ret,
    apply_ite is_reserved.St.ret_, apply_ite is_reserved.St.vgroup_class_null, ite_self]
  refine ⟨by decide, ?_⟩
  have hres : isReserved (toStr cls) = true ↔
      (rp = 0 ∨ (((((((((r0 = 0 ∨ r1 = 0) ∨ r2 = 0) ∨ r3 = 0) ∨ r4 = 0) ∨ r5 = 0) ∨ r6 = 0) ∨ r7 = 0) ∨ r8 = 0) ∨ r9 = 0) ∨ r10 = 0) := by
    rw [e0, e1, e2, e3, e4, e5, e6, e7, e8, e9, e10, ep]
    simp only [isReserved, reservedClasses, reservedPrefix, List.contains_cons, List.contains_nil, Bool.or_eq_true, beq_iff_eq, Bool.or_false]
    constructor
    · rintro (h | h)
      · right; rcases h with h | h | h | h | h | h | h | h | h | h | h <;> simp [h]
      · left; exact h
    · rintro (h | h)
      · right; exact h
      · left; rcases h with ((((((((((h | h) | h) | h) | h) | h) | h) | h) | h) | h) | h) <;> simp [h]
  by_cases hr : isReserved (toStr cls) = true
  · rw [if_pos hr]
    rcases hres.mp hr with h | h
    · rw [if_pos h]
    · by_cases hp0 : rp = 0
      · rw [if_pos hp0]
      · rw [if_neg hp0, if_pos h]
  · rw [if_neg hr]
    have := fun h => hr (hres.mpr h)
    rw [if_neg (fun h => this (Or.inl h)), if_neg (fun h => this (Or.inr h))]

/-- the same for the NULL class pointer: not reserved, nothing is read -/
theorem is_reserved_null (fuel : Nat) (mem : List Int) :
    let s := H4.Gen.Fn.Repack2.is_reserved fuel true mem
    s.ub = false ∧ s.ret = 0 := by
  simp [H4.Gen.Fn.Repack2.is_reserved]

example : CStr [82, 73, 71, 48, 46, 48] ∧ (H4.Gen.Fn.Repack2.is_reserved 0 false ([82, 73, 71, 48, 46, 48] ++ 0 :: [7, 7])).ret = 1 := by decide
example : (H4.Gen.Fn.Repack2.is_reserved 0 false ([95, 72, 68, 70, 95, 67, 72, 75, 95, 84, 66, 76, 95, 55, 0])).ret = 1 := by decide
example : (H4.Gen.Fn.Repack2.is_reserved 0 false ([82, 73, 71, 48, 46, 0])).ret = 0 := by decide

/-! ## `parse_chunk` -/

open H4.Gen.Fn.Repack in
/-- **`parse_chunk` refines `parseChunk`.**  Preconditions = what the C function needs from its caller: a NUL-terminated string shorter
    than 2^31 (`end_obj`, `len` are `int`s), one cell behind `n_objs` and `chunk_rank`, `H4_MAX_VAR_DIMS` (32) cells behind
    `chunk_lengths` (`hrepack_addchunk` passes `int32 chunk_lengths[H4_MAX_VAR_DIMS]`), fuel for the longest loop.
    Then for EVERY such string: no undefined behaviour, every loop ends, the function returns, and
    * `parseChunk` rejects  ->  the C function returns NULL;
    * `parseChunk` accepts with `(n, names, ck)`  ->  `ChunkOut`: the list is returned (not NULL), `*n_objs = n = names.length`, the block has
      `n` rows of 256 cells, row `i` holds `names[i]` and its NUL, `*chunk_rank = ck.rank`, and unless `NONE` was given the first `rank`
      cells of `chunk_lengths` are `ck.lens`. -/
theorem parse_chunk_refines (fuel : Nat) (bs rest n_objs cl cr : List Int) (hbs : CStr bs) (hlen : bs.length < 2 ^ 31) (hf : bs.length ≤ fuel)
    (hno : 0 < n_objs.length) (hcl : H4_MAX_VAR_DIMS ≤ cl.length) (hcr : 0 < cr.length) :
    have s := parse_chunk fuel (bs ++ 0 :: rest) n_objs cl cr
    s.ub = false ∧ s.oof = false ∧ s.done = true ∧
    (match parseChunk (toStr bs) with
     | none => s.retnull = true
     | some (n, names, ck) => ChunkOut s n_objs cr n names ck) :=
  parse_chunk_main fuel bs rest n_objs cl cr hbs hlen hf hno hcl hcr _ rfl

-- "a,b:2x3": the hypotheses are satisfiable, the translated code runs and gives the model's answer
example : CStr [97, 44, 98, 58, 50, 120, 51] ∧
    (let s := H4.Gen.Fn.Repack.parse_chunk 7 ([97, 44, 98, 58, 50, 120, 51] ++ 0 :: [9]) [-7] (List.replicate 32 (-5)) [-99]
     s.ub = false ∧ s.retnull = false ∧ s.n_objs = [2] ∧ s.chunk_rank = [2] ∧ s.chunk_lengths.take 2 = [2, 3] ∧
     cstrAt s.obj_list_blk 0 = [97] ∧ cstrAt s.obj_list_blk 256 = [98]) := by decide +kernel
example : parseChunk (toStr [97, 44, 98, 58, 50, 120, 51]) = some (2, [['a'], ['b']], ⟨2, [2, 3]⟩) := by decide +kernel
-- the strings behind the fixed defects are refused inside the buffers: 33 lengths (5787e18), ":2" and "a,:2" (b6f2d28), a byte >= 0x80 (1ed2b56)
example : (let s := H4.Gen.Fn.Repack.parse_chunk 70 ([97, 58] ++ (List.replicate 32 [49, 120]).flatten ++ [49] ++ 0 :: []) [-7] (List.replicate 32 (-5)) [-99]
     s.ub = false ∧ s.retnull = true) := by decide +kernel
example : (H4.Gen.Fn.Repack.parse_chunk 5 ([58, 50] ++ 0 :: []) [-7] (List.replicate 32 (-5)) [-99]).ub = false ∧
    (H4.Gen.Fn.Repack.parse_chunk 5 ([58, 50] ++ 0 :: []) [-7] (List.replicate 32 (-5)) [-99]).retnull = true ∧
    (H4.Gen.Fn.Repack.parse_chunk 5 ([97, 44, 58, 50] ++ 0 :: []) [-7] (List.replicate 32 (-5)) [-99]).retnull = true ∧
    (H4.Gen.Fn.Repack.parse_chunk 5 ([97, 58, -23] ++ 0 :: []) [-7] (List.replicate 32 (-5)) [-99]).ub = false := by decide +kernel

/-! ## `parse_comp` -/

open H4.Gen.Fn.Repack in
/-- **`parse_comp` refines `parseComp`.**  Preconditions = what the C function needs from its caller: a NUL-terminated string shorter
    than 2^31, one cell behind `n_objs`, `comp->info` = -1 on entry (`hrepack_addcomp`: `memset(&comp, FAIL, sizeof(comp_info_t))`; the
    function leaves it alone when the coder takes no parameter, and the model says -1 then), fuel for the longest loop; `comp->type` and
    `comp->szip_mode` may hold anything.  Then for EVERY such string - SZIP requests included, whose scanner runs inside `stype[5]` /
    `smask[3]` before the request is refused: no undefined behaviour, every loop ends, the function returns, and
    * `parseComp` rejects  ->  the C function returns NULL;
    * `parseComp` accepts with `(n, names, c)`  ->  `CompOut`: the list is returned (not NULL), `*n_objs = n = names.length`, the block has
      `n` rows of 256 cells, row `i` holds `names[i]` and its NUL, `comp->type = c.type`, `comp->info = c.info`. -/
theorem parse_comp_refines (fuel : Nat) (bs rest n_objs : List Int) (szm ty : Int) (hbs : CStr bs) (hlen : bs.length < 2 ^ 31)
    (hf : bs.length ≤ fuel) (hno : 0 < n_objs.length) :
    have s := parse_comp fuel (bs ++ 0 :: rest) n_objs szm (-1) ty
    s.ub = false ∧ s.oof = false ∧ s.done = true ∧
    (match parseComp (toStr bs) with
     | none => s.retnull = true
     | some (n, names, c) => CompOut s n_objs n names c) :=
  parse_comp_main fuel bs rest n_objs szm ty hbs hlen hf hno _ rfl

-- "a:GZIP 6"
example : CStr [97, 58, 71, 90, 73, 80, 32, 54] ∧
    (let s := H4.Gen.Fn.Repack.parse_comp 8 ([97, 58, 71, 90, 73, 80, 32, 54] ++ 0 :: []) [-7] (-1) (-1) 4294967295
     s.ub = false ∧ s.retnull = false ∧ s.n_objs = [1] ∧ s.comp_type = 4 ∧ s.comp_info = 6 ∧ cstrAt s.obj_list_blk 0 = [97]) := by decide +kernel
-- "a:SZIP ,ECAB" (the string that overflowed smask[] before 6a32560): refused, inside the buffers
example : (let s := H4.Gen.Fn.Repack.parse_comp 12 ([97, 58, 83, 90, 73, 80, 32, 44, 69, 67, 65, 66] ++ 0 :: []) [-7] (-1) (-1) 4294967295
     s.ub = false ∧ s.retnull = true) := by decide +kernel

/-- the object-name count of the model (theorems of `H4.Props.C18` speak of `names.take n`): for every accepted string `n` IS the number of
    names - the C function never announces an entry it did not write (commit b6f2d28) -/
theorem parse_comp_count (fuel : Nat) (bs rest n_objs : List Int) (szm ty : Int) (hbs : CStr bs) (hlen : bs.length < 2 ^ 31)
    (hf : bs.length ≤ fuel) (hno : 0 < n_objs.length) (n : Nat) (names : List Str) (c : Comp) (h : parseComp (toStr bs) = some (n, names, c)) :
    names.length = n := by
  have := (parse_comp_refines fuel bs rest n_objs szm ty hbs hlen hf hno).2.2.2
  rw [h] at this
  exact this.count

/-! ## `read_info` (the `-f` option file): the two stack buffers, tied to the text of `hrepack.c` -/

/-- the widest token `fscanf(fp, "%<w>s", stype)` can store, and its NUL, fit in `stype[]`; both copy loops test the index against
    `sizeof(info)` before they store (Tie A: `READ_INFO_TOKEN_WIDTH`, `READ_INFO_STYPE_SZ` are read from the source text,
    `H4.Gen.Src.READ_INFO_BOUNDS_VALUE` is the presence of the two tests; commit 6ab7877) -/
theorem read_info_buffers : READ_INFO_TOKEN_WIDTH + 1 ≤ READ_INFO_STYPE_SZ ∧ H4.Gen.Src.READ_INFO_BOUNDS_VALUE = true := by decide

example : (readInfo 5 "-t \"a:RLE\" -c \"a:2\"".toList {}).isSome = true := by decide +kernel
example : readInfo 5 "ABCDEFGHIJKLMNOP \"a:RLE\"".toList {} = none := by decide +kernel   -- a token of more than 9 characters
-- a quoted value of READ_INFO_SZ characters is refused before it is looked at (`a:RLE` padded with blanks in front parses otherwise)
example : readInfo 5 ("-t \"".toList ++ List.replicate (READ_INFO_SZ - 5) ' ' ++ "a:RLE\"".toList) {} = none := by decide +kernel

end H4.Props.C18Fn
