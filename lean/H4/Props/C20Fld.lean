import H4.Props.C07Fld
import H4.Lemmas.LimitsMisc
import H4.Props.C20
/-! C20 on the C text: the limit theorems about Vdata fields (`H4.Props.C20`: `fdefine_accept_iff`, `fdefine_fits16`,
    `setfields_accept_iff`, `setfields_accepted`, `setfields_refused_clean`) are about `H4.Limits.fdefineOk` / `H4.Limits.setfields`, a
    size-only model.  Here that model is shown to agree with the C07 model (`vsfdefineI`, `buildWList`) the translated C text of
    `VSfdefine` / `VSsetfields` is proved to compute (`H4.Props.C07Fld`), so the limit theorems hold of the C text itself. -/
namespace H4.Props.C20Fld
open H4 H4.VData H4.Gen.Hdf H4.Gen.Vs H4.Gen.Fn.Dfconv H4.Gen.Fn.Vsfld H4.VsfldEnc H4.Lemmas.C07Fld H4.Props.C07Fld

/-! ## the two models agree

`H4.Limits` (C20) has its own, size-only model of the two functions: `fdefineOk isize order` and `setfields sizes`.  Both models
agree where they overlap, so the C20 theorems (`fdefine_accept_iff`, `fdefine_fits16`, `setfields_accept_iff`, `setfields_accepted`,
`setfields_refused_clean`, `setfields_count_le`) hold of the translated C text. -/

open H4.Limits in
/-- the two models of `VSfdefine` agree: `vsfdefineI` accepts exactly when `fdefineOk (DFKNTsize type) order` -/
theorem vsfdefine_limits (usym : List SymDef) (tok : String) (t order : Int) :
    (vsfdefineI usym tok t order).isSome = fdefineOk (if ntsize t = -1 then none else some (ntsize t).toNat) order := by
  rw [vsfdefineI_eq]
  have hr := ntsize_range t
  have hc := H4.Limits.consts2
  have key : fdefineOk (if ntsize t = -1 then none else some (ntsize t).toNat) order = true ↔ FdLimits t order := by
    unfold fdefineOk FdLimits
    simp only [hc.2.1, hc.2.2.1]
    by_cases h1 : order < 1 ∨ order > 65535
    · have e : (decide (order < 1) || decide (order > ((65535 : Nat) : Int))) = true := by simp; omega
      rw [if_pos e]; constructor
      · intro h; cases h
      · intro h; omega
    · have e : ¬ ((decide (order < 1) || decide (order > ((65535 : Nat) : Int))) = true) := by simp; omega
      rw [if_neg e]
      by_cases h2 : ntsize t = -1
      · rw [if_pos h2]; simp only; constructor
        · intro h; cases h
        · intro h; exact absurd h2 h.2.2.1
      · rw [if_neg h2]
        simp only
        have e3 : (((ntsize t).toNat : Nat) : Int) = ntsize t := by omega
        rw [e3]
        simp only [Bool.not_eq_true', decide_eq_false_iff_not]
        constructor
        · intro h; exact ⟨by omega, by omega, h2, by push_cast at h; omega⟩
        · intro h; have := h.2.2.2; push_cast; omega
  by_cases hF : FdLimits t order
  · rw [if_pos hF, key.mpr hF]; rfl
  · rw [if_neg hF]
    cases hv : fdefineOk (if ntsize t = -1 then none else some (ntsize t).toNat) order with
    | true => exact absurd (key.mp hv) hF
    | false => rfl

/-- **`VSfdefine` on the C text accepts exactly the definitions C20's `fdefineOk` accepts** (`1 ≤ order ≤ MAX_ORDER`, a type
    `DFKNTsize` knows, `isize · order ≤ MAX_FIELD_SIZE`), and then order and field size fit their 16-bit members -/
theorem VSfdefine_accept_iff (usym : List SymDef) (hn : ∀ sd ∈ usym, NameOK sd.name) (hlen : usym.length < 32767)
    (unull : Bool) (hnull : unull = true → usym = []) (tok : String) (htok : NameOK tok) (pad : List Int) (rest : List (List Int))
    (t order vkey scan_ret : Int) (h32 : -2147483648 ≤ t ∧ t < 2147483648) (hs : scan_ret ≠ -1) (fuel : Nat) (hf : usym.length ≤ fuel) :
    let s := VSfdefine fuel vkey t order 1 ((chars tok ++ 0 :: pad) :: rest) VSIDGROUP false false scan_ret usym.length (nameRows usym) unull
      (isizeCol usym) (typeCol usym) (orderCol usym)
    (s.ret = 0 ↔ H4.Limits.fdefineOk (if ntsize t = -1 then none else some (ntsize t).toNat) order = true) ∧
    (s.ret = 0 → 0 ≤ order ∧ order < 65536 ∧ ntsize t * order < 65536) := by
  intro s
  have h := VSfdefine_refines usym hn hlen unull hnull tok htok pad rest t order vkey scan_ret h32 hs fuel hf
  simp only at h
  obtain ⟨_, _, h3⟩ := h
  have hl := vsfdefine_limits usym tok t order
  have hr := ntsize_range t
  constructor
  · cases hv : vsfdefineI usym tok t order with
    | some u =>
      rw [hv] at h3 hl
      have h0 : s.ret = 0 := h3.1
      simp only [Option.isSome_some] at hl
      rw [← hl]
      exact ⟨fun _ => rfl, fun _ => h0⟩
    | none =>
      rw [hv] at h3 hl
      have h0 : s.ret = -1 := h3.1
      simp only [Option.isSome_none] at hl
      rw [← hl]
      exact ⟨fun h => (by rw [h0] at h; cases h), fun h => (by cases h)⟩
  · intro h0
    cases hv : vsfdefineI usym tok t order with
    | none => rw [hv] at h3; rw [h3.1] at h0; cases h0
    | some u =>
      rw [vsfdefineI_eq] at hv
      by_cases hF : FdLimits t order
      · obtain ⟨a, b, c, d⟩ := hF; omega
      · rw [if_neg hF] at hv; cases hv

/-- the size a name contributes to the record: `order · isize` of the user symbol, else of the predefined symbol (as stored in its
    `uint16` cell) -/
def fieldSize (usym : List SymDef) (nm : String) : Nat :=
  match usym.find? (·.name == nm) with
  | some sd => sd.order * sd.isize
  | none => match rstab.find? (·.name == nm) with
    | some sd => sd.order * sd.isize % 65536
    | none => 0

/-- the name is a user-defined or a predefined field -/
def Known (usym : List SymDef) (nm : String) : Prop := (usym.find? (·.name == nm)).isSome = true ∨ (rstab.find? (·.name == nm)).isSome = true

open H4.Limits in
theorem go_setfieldsLoop (usym : List SymDef) (hus : ∀ sd ∈ usym, sd.Valid) :
    ∀ (names : List String) (acc : List Field) (iv : Nat), (∀ nm ∈ names, Known usym nm) →
    match buildWList.go usym names acc iv with
    | some (fs, iv') => setfieldsLoop (names.map (fieldSize usym)) iv acc.length = (true, fs.length, iv')
    | none => (setfieldsLoop (names.map (fieldSize usym)) iv acc.length).1 = false := by
  intro names
  induction names with
  | nil => intro acc iv _; simp [buildWList.go, setfieldsLoop]
  | cons nm rest ih =>
    intro acc iv hk
    have hk1 := hk nm List.mem_cons_self
    have hkr : ∀ x ∈ rest, Known usym x := fun x hx => hk x (List.mem_cons_of_mem _ hx)
    rw [go_cons]
    simp only [List.map_cons, setfieldsLoop, goStep, fieldSize]
    cases h1 : usym.find? (·.name == nm) with
    | some sd =>
      obtain ⟨_, nt, hnt, _⟩ := hus sd (List.mem_of_find?_eq_some h1)
      simp only [hnt]
      by_cases c1 : sd.order * sd.isize > MAX_FIELD_SIZE
      · simp only [if_pos c1]
      · simp only [if_neg c1]
        by_cases c2 : iv + sd.order * sd.isize > MAX_FIELD_SIZE
        · simp only [if_pos c2]
        · simp only [if_neg c2]
          have := ih ({ name := sd.name, type := sd.type, tsz := nt.tsz, swap := nt.swap, order := sd.order, isize := sd.order * sd.isize, esize := sd.order * nt.nsz % 65536, off := 0 } :: acc) (iv + sd.order * sd.isize) hkr
          simpa using this
    | none =>
      simp only
      cases h3 : rstab.find? (·.name == nm) with
      | none => unfold Known at hk1; rw [h1, h3] at hk1; simp at hk1
      | some sd =>
        obtain ⟨⟨_, nt, hnt, _⟩, hlt⟩ := rstab_valid sd (List.mem_of_find?_eq_some h3)
        simp only [hnt]
        have hM : MAX_FIELD_SIZE = 65535 := by decide
        have c1 : ¬ (sd.order * sd.isize % 65536 > MAX_FIELD_SIZE) := by rw [hM]; omega
        simp only [if_neg c1]
        by_cases c2 : iv + sd.order * sd.isize % 65536 > MAX_FIELD_SIZE
        · simp only [if_pos c2]
        · simp only [if_neg c2]
          have := ih ({ name := sd.name, type := sd.type, tsz := nt.tsz, swap := nt.swap, order := sd.order, isize := sd.order * sd.isize % 65536, esize := sd.order * nt.nsz % 65536, off := 0 } :: acc) (iv + sd.order * sd.isize % 65536) hkr
          simpa using this

open H4.Limits in
/-- the two models of `VSsetfields` on an empty writable vdata agree: for 1 .. `VSFIELDMAX` names, all user-defined or predefined,
    `buildWList` (C07) succeeds exactly when `setfields` (C20) does on the field sizes, with the same field count and record size -/
theorem buildWList_limits (usym : List SymDef) (hus : ∀ sd ∈ usym, sd.Valid) (names : List String) (hk : ∀ nm ∈ names, Known usym nm)
    (h1 : 1 ≤ names.length) (h2 : names.length ≤ 256) :
    (match buildWList usym names with | some w => (true, w.n, w.ivsize) | none => (false, 0, 0)) = setfields (names.map (fieldSize usym)) := by
  have hg := go_setfieldsLoop usym hus names [] 0 hk
  have hc := H4.Limits.consts2
  unfold setfields setfieldsV buildWList
  simp only [List.length_map, hc.2.2.2.1]
  have hcnd : ¬ ((decide (names.length = 0) || decide (names.length > 256)) = true) := by
    rw [Bool.or_eq_true]; simp only [decide_eq_true_eq]; omega
  rw [if_neg hcnd]
  cases hgo : buildWList.go usym names [] 0 with
  | none => rw [hgo] at hg; simp only [List.length_nil] at hg; simp [hg]
  | some p =>
    obtain ⟨fs, iv⟩ := p
    rw [hgo] at hg
    simp only [List.length_nil] at hg
    simp [hg, WList.n, assignOffs_eq, offsFrom_length]

/-- **the C20 limit theorems on the C text of `VSsetfields`**: on an empty writable vdata, for 1 .. `VSFIELDMAX` known names, the
    translated function answers what `H4.Limits.setfields` answers on the field sizes: accepted exactly when the record fits
    `MAX_FIELD_SIZE` (`setfields_accept_iff`), then every field is in the list and `ivsize` is the exact sum (`setfields_accepted`);
    refused ⇒ `wlist.n = 0`, `wlist.ivsize = 0` (`setfields_refused_clean`) — for user-defined and predefined fields alike -/
theorem VSsetfields_limits (v : VS) (names : List String) (pads : List (List Int)) (fuel : Nat)
    (hpl : pads.length = names.length) (hnames : ∀ nm ∈ names, NameOK nm) (hus : ∀ sd ∈ v.usym, sd.Valid ∧ NameOK sd.name)
    (hw : v.writable = true) (hnv : v.nvertices = 0) (hwe : v.w = {})
    (hk : ∀ nm ∈ names, Known v.usym nm) (h1 : 1 ≤ names.length) (h2 : names.length ≤ 256)
    (vkey scan_ret marked newhsz t1 t2 t3 t4 t5 : Int) (hs : scan_ret ≠ -1) (item : List Int)
    (hitem : ∀ j, j < v.rlist.length → item.getD j 0 = ((v.rlist.getD j 0 : Nat) : Int)) (inull : Bool)
    (hf : names.length + v.usym.length + 9 ≤ fuel) :
    let s := VSsetfields fuel vkey false names.length (avRows names pads) VSIDGROUP false false scan_ret 119 v.nvertices v.w.n v.w.ivsize
      (wBptr v.w) v.w.fields.isEmpty t1 t2 t3 t4 t5 (wNames v.w) v.w.fields.isEmpty v.usym.length (nameRows v.usym) (orderCol v.usym)
      (typeCol v.usym) (isizeCol v.usym) marked newhsz v.rlist.length item inull
    let m := H4.Limits.setfields (names.map (fieldSize v.usym))
    s.ub = false ∧ (s.ret = 0 ↔ m.1 = true) ∧ s.vs_wlist_n = m.2.1 ∧ s.vs_wlist_ivsize = m.2.2 ∧
    (s.ret = 0 ↔ (names.map (fieldSize v.usym)).sum ≤ 65535) ∧ s.vs_wlist_ivsize ≤ 65535 ∧
    (s.ret ≠ 0 → s.vs_wlist_n = 0 ∧ s.vs_wlist_ivsize = 0 ∧ s.vs_wlist_bptr = [] ∧ s.vs_wlist_name = []) := by
  intro s m
  have hm := VSsetfields_refines v names pads fuel hpl hnames hus (by rw [hwe]; simp) (by rw [hwe]; intro _; rfl) vkey scan_ret 119 marked newhsz
    t1 t2 t3 t4 t5 hs (by simp [hw]) (by rw [hwe]; intro h; exact absurd rfl h) item hitem inull (by rw [hwe]; simpa using hf)
  simp only at hm
  obtain ⟨g1, g2, g3, g4, _⟩ := hm
  have hlim := buildWList_limits v.usym (fun sd h => (hus sd h).1) names hk h1 h2
  have hsf : v.setFieldsTok names = match buildWList v.usym names with | none => (v, false) | some w => ({ v with w := w }, true) := by
    unfold VS.setFieldsTok
    rw [if_neg (by rw [vsfieldmax]; omega), if_pos ⟨hw, hnv, by rw [hwe]; rfl⟩]
    cases buildWList v.usym names <;> rfl
  have hacc := H4.Props.C20.setfields_accept_iff (names.map (fieldSize v.usym))
  have hcl := H4.Props.C20.setfields_refused_clean (names.map (fieldSize v.usym))
  have hac2 := H4.Props.C20.setfields_accepted (names.map (fieldSize v.usym))
  cases hbw : buildWList v.usym names with
  | none =>
    rw [hbw] at hlim hsf
    simp only at hlim hsf
    rw [hsf] at g3 g4
    simp only [Bool.false_eq_true, if_false] at g3
    have hm1 : m.1 = false := by show (H4.Limits.setfields _).1 = false; rw [← hlim]
    have hm2 := hcl hm1
    have e1 : s.vs_wlist_n = 0 := by rw [g4.wn, hwe]; rfl
    have e2 : s.vs_wlist_ivsize = 0 := by rw [g4.wiv, hwe]; rfl
    have e3 : s.vs_wlist_bptr = [] := by rw [g4.wb, hwe]; rfl
    have e4 : s.vs_wlist_name = [] := by rw [g4.wnm, hwe]; rfl
    have hsum : ¬ ((names.map (fieldSize v.usym)).sum ≤ 65535) := by
      intro h; have := hacc.mpr ⟨by simpa using h1, by simpa using h2, h⟩; rw [hm1] at this; cases this
    refine ⟨g1, by rw [g3, hm1]; simp, ?_, ?_, by rw [g3]; simp [hsum], by rw [e2]; omega, fun _ => ⟨e1, e2, e3, e4⟩⟩
    · rw [e1]; show (0 : Int) = ((H4.Limits.setfields _).2.1 : Int); rw [hm2]; rfl
    · rw [e2]; show (0 : Int) = ((H4.Limits.setfields _).2.2 : Int); rw [hm2]; rfl
  | some w =>
    rw [hbw] at hlim hsf
    simp only at hlim hsf
    rw [hsf] at g3 g4
    simp only [if_true] at g3
    have hm1 : m.1 = true := by show (H4.Limits.setfields _).1 = true; rw [← hlim]
    have hm2 : m.2.1 = w.n ∧ m.2.2 = w.ivsize := by
      constructor
      · show (H4.Limits.setfields _).2.1 = _; rw [← hlim]
      · show (H4.Limits.setfields _).2.2 = _; rw [← hlim]
    have hs2 := hac2 hm1
    have hsum := (hacc.mp hm1).2.2
    refine ⟨g1, by rw [g3, hm1]; simp, by rw [g4.wn, hm2.1], by rw [g4.wiv, hm2.2], by rw [g3]; simp [hsum], ?_, fun h => absurd g3 h⟩
    rw [g4.wiv]
    show ((w.ivsize : Nat) : Int) ≤ 65535
    have : w.ivsize = (names.map (fieldSize v.usym)).sum := by rw [← hm2.2]; exact hs2.2.1
    omega

/-- at and across the record-size limit on the translated C text, with a predefined field in the list (the case of known finding
    `limits-ivsize-wrap:reserved-field`, repaired by commit fef3f30): 65531 + 4 bytes fit, 65532 + 4 are refused and leave no field -/
example :
    (let v : VS := { usym := [⟨"A", 21, 1, 65531⟩] }
     let s := runSetfields 20 v ["A", "PX"]
     s.ub = false ∧ s.ret = 0 ∧ s.vs_wlist_n = 2 ∧ s.vs_wlist_ivsize = 65535 ∧ H4.Limits.setfields [65531, 4] = (true, 2, 65535)) ∧
    (let v : VS := { usym := [⟨"A", 21, 1, 65532⟩] }
     let s := runSetfields 20 v ["A", "PX"]
     s.ub = false ∧ s.ret = -1 ∧ s.vs_wlist_n = 0 ∧ s.vs_wlist_ivsize = 0 ∧ H4.Limits.setfields [65532, 4] = (false, 0, 0)) := by
  decide

end H4.Props.C20Fld
