import H4.Tools
import H4.Lemmas.Slab
/-! # C19 — inspection tools report what is in the file (property theorems)

`hdiff`: the element test of `array_diff` (`differs`), its counting loop, the object matching of `hdiff.c:match` and the
exit status; `hdp`: dump order; `hdfimport`: shape rule, and the loop over the input files of one run (type / shape / reader of every
file are those of the file alone).  Statements are about the code AS IT IS: several of them say
precisely where the tool is blind (see the `example`s). -/
namespace H4.Props.C19
open H4.Tools H4.Slab

/-! ## the element test -/

theorem wrapS_zero (bits : Nat) (h : 0 < bits) : wrapS bits 0 = 0 := by
  unfold wrapS
  have : (0 : Int) < (2 : Int) ^ bits / 2 := by
    have h2 : (2 : Int) ^ bits = 2 ^ (bits - 1) * 2 := by
      rw [← Int.pow_succ]; congr 1; omega
    rw [h2, Int.mul_ediv_cancel _ (by decide)]
    exact Int.pow_pos (by decide)
  simp [this]

theorem absDiff_self (t : NT) (a : Int) : absDiff t a a = 0 := by
  cases t <;> simp [absDiff]

theorem absDiff_comm (t : NT) (a b : Int) : absDiff t a b = absDiff t b a := by
  have : ((stored t a) - (stored t b)).natAbs = ((stored t b) - (stored t a)).natAbs := by omega
  unfold absDiff; rw [this]

theorem absLimit_nonneg (t : NT) (o : DiffOpts) (h : 0 ≤ o.tl8) : 0 ≤ absLimit t o := by
  cases t <;> simp [absLimit, h] <;> exact Int.tdiv_nonneg h (by decide)

/-- **differs_refl.** No value differs from itself: for every number type, every non-negative `-t` limit and every
    non-negative `-p` limit (the usage text requires positive values; with a negative limit `array_diff` reports
    equal values as different). -/
theorem differs_refl (t : NT) (o : DiffOpts) (a : Int) (ht : 0 ≤ o.tl8) (hp : 0 ≤ o.pr8) : differs t o a a = false := by
  unfold differs
  simp only
  split
  · split
    · simp; omega
    · rename_i h0
      have : ((stored t a) - (stored t a)).natAbs = 0 := by omega
      rw [this]
      have : (0 : Int) ≤ o.pr8 * ((stored t a).natAbs : Int) := Int.mul_nonneg hp (by omega)
      simp; omega
  · rw [absDiff_self]
    have := absLimit_nonneg t o ht
    simp; omega

example : differs .i8 { tl8 := -8 } 5 5 = true := by decide   -- a negative limit breaks reflexivity

/-- **differs_symm (absolute criterion).** Without `-p`, `|a-b| > limit` does not depend on the order of the files. -/
theorem differs_symm (t : NT) (o : DiffOpts) (a b : Int) (hp : o.pr8 = 0) : differs t o a b = differs t o b a := by
  unfold differs
  simp [hp, absDiff_comm t a b]

/-- **The relative criterion is asymmetric**: `|(b-a)/a| > p` divides by the value of the FIRST file.
    Exact statement: with `A`, `B` the stored values and `p = pr8/8 > 0`, the pair is reported in the order (a,b) but not
    in the order (b,a) exactly when either `A ≠ 0 ≠ B` and `p·|A| < |B-A| ≤ p·|B|`, or `A = 0 ≠ B` and `p ≥ 1`
    ("not comparable" one way, `|A-B|/|B| = 1 ≤ p` the other way). -/
theorem differs_rel_asym_iff (t : NT) (o : DiffOpts) (a b : Int) (hp : 0 < o.pr8) :
    (differs t o a b = true ∧ differs t o b a = false) ↔
      ((stored t a ≠ 0 ∧ stored t b ≠ 0 ∧ o.pr8 * (stored t a).natAbs < ((stored t b) - (stored t a)).natAbs * 8
          ∧ ((stored t b) - (stored t a)).natAbs * 8 ≤ o.pr8 * (stored t b).natAbs)
       ∨ (stored t a = 0 ∧ stored t b ≠ 0 ∧ 8 ≤ o.pr8)) := by
  have hne : o.pr8 ≠ 0 := by omega
  unfold differs
  simp only [hne, ne_eq, not_false_eq_true, if_true]
  generalize stored t a = A
  generalize stored t b = B
  have hsw : (A - B).natAbs = (B - A).natAbs := by omega
  by_cases ha : A = 0 <;> by_cases hb : B = 0
  · subst ha; subst hb; simp <;> omega
  · subst ha
    have h0 : ((0 : Int) - B).natAbs = B.natAbs := by omega
    have hpos : (0 : Int) < (B.natAbs : Int) := by omega
    have key : ((B.natAbs : Int) * 8 ≤ o.pr8 * (B.natAbs : Int)) ↔ 8 ≤ o.pr8 := by
      rw [Int.mul_comm (B.natAbs : Int) 8]
      constructor
      · intro h; exact Int.le_of_mul_le_mul_right h hpos
      · intro h; exact Int.mul_le_mul_of_nonneg_right h (by omega)
    simp [hb, h0, key]
  · subst hb
    simp [ha]
  · simp only [ha, hb, if_false, hsw]
    simp [ha, hb]

/-- a concrete instance: 10 vs 20 with `-p 0.75` is a difference, 20 vs 10 is not -/
example : differs .i32 { pr8 := 6 } 10 20 = true ∧ differs .i32 { pr8 := 6 } 20 10 = false := by decide

/-- the relative criterion IS symmetric on pairs of equal magnitude -/
theorem differs_rel_symm_of_abs_eq (t : NT) (o : DiffOpts) (a b : Int) (hp : 0 < o.pr8)
    (h : (stored t a).natAbs = (stored t b).natAbs) : differs t o a b = differs t o b a := by
  have hne : o.pr8 ≠ 0 := by omega
  have hsw : ((stored t a) - (stored t b)).natAbs = ((stored t b) - (stored t a)).natAbs := by omega
  unfold differs
  simp only [hne, ne_eq, not_false_eq_true, if_true]
  by_cases ha : stored t a = 0
  · have hb : stored t b = 0 := by omega
    simp [ha, hb]
  · have hb : stored t b ≠ 0 := by omega
    simp [ha, hb, hsw, h]

/-- `-t` is ignored as soon as `-p` is given -/
theorem rel_overrides_abs (t : NT) (o : DiffOpts) (a b : Int) (hp : o.pr8 ≠ 0) (tl : Int) :
    differs t { o with tl8 := tl } a b = differs t o a b := by
  unfold differs; simp [hp]

/-! ### exactness of the default test -/

/-- since commit 64e275a the differences are not narrowed any more: these pairs used to compare EQUAL
    (`(int8)abs(-200)` = -56, `(int16)abs(-40000)` < 0) -/
example : differs .i8 {} (-100) 100 = true ∧ differs .u8 {} 127 128 = true ∧ differs .i16 {} (-20000) 20000 = true
    ∧ differs .u16 {} 32767 32768 = true := by decide
example : differs .u8 {} 127 126 = true ∧ differs .i16 {} 5 6 = true ∧ differs .f32 { tl8 := 8 } 0 9 = true ∧ differs .f32 { tl8 := 8 } 0 8 = false := by decide
example : differs .i32 {} (-2147483648) 2147483647 = true := by decide   -- saturated, not overflowed

/-- **with the default options hdiff's element test is exact**: a pair is passed over iff the two stored values are equal
    (every number type; floating-point values in eighths) -/
theorem differs_default_exact (t : NT) (a b : Int) : differs t {} a b = false ↔ stored t a = stored t b := by
  unfold differs
  have hp0 : ({} : DiffOpts).pr8 = 0 := rfl
  have hl : absLimit t {} = 0 := by cases t <;> rfl
  simp only [hp0, ne_eq, not_true_eq_false, if_false, hl, decide_eq_false_iff_not]
  cases t <;> simp only [absDiff] <;> (try split) <;> omega

/-- ... hence any change of a stored value is flagged, in both orders of the files -/
theorem single_change_flagged (t : NT) (a b : Int) (h : stored t a ≠ stored t b) :
    differs t {} a b = true ∧ differs t {} b a = true := by
  constructor
  · cases hd : differs t {} a b
    · exact absurd ((differs_default_exact t a b).mp hd) h
    · rfl
  · cases hd : differs t {} b a
    · exact absurd ((differs_default_exact t b a).mp hd).symm h
    · rfl

/-! ## counting: `-e` only limits what is printed -/

def countDiff (t : NT) (o : DiffOpts) : List Int → List Int → Nat
  | a :: as, b :: bs => (if differs t o a b then 1 else 0) + countDiff t o as bs
  | _, _ => 0

theorem differs_maxErr (t : NT) (o : DiffOpts) (m : Nat) (a b : Int) : differs t { o with maxErr := m } a b = differs t o a b := rfl

theorem loop_count (t : NT) (o : DiffOpts) : ∀ (l1 l2 : List Int) (n pr : Nat),
    (arrayDiffLoop t o l1 l2 n pr).1 = n + countDiff t o l1 l2 := by
  intro l1
  induction l1 with
  | nil => intro l2 n pr; simp [arrayDiffLoop, countDiff]
  | cons a as ih =>
    intro l2 n pr
    cases l2 with
    | nil => simp [arrayDiffLoop, countDiff]
    | cons b bs =>
      simp only [arrayDiffLoop, countDiff]
      split
      · split <;> (rw [ih]; omega)
      · rw [ih]; omega

theorem countDiff_maxErr (t : NT) (o : DiffOpts) (m : Nat) : ∀ (l1 l2 : List Int),
    countDiff t { o with maxErr := m } l1 l2 = countDiff t o l1 l2 := by
  intro l1
  induction l1 with
  | nil => intro l2; simp [countDiff]
  | cons a as ih => intro l2; cases l2 with
    | nil => simp [countDiff]
    | cons b bs =>
      simp only [countDiff]
      rw [differs_maxErr, ih]

/-- **the `-e` cap affects only how many differences are printed, never the verdict**: `n_diff` (hence the exit status)
    is the same for every cap. -/
theorem cap_only_printing (t : NT) (o : DiffOpts) (m1 m2 : Nat) (l1 l2 : List Int) :
    (arrayDiff t { o with maxErr := m1 } l1 l2).1 = (arrayDiff t { o with maxErr := m2 } l1 l2).1 := by
  unfold arrayDiff
  simp only [loop_count, countDiff_maxErr]

/-- ... and the number of printed lines never exceeds the number of differences -/
theorem printed_le (t : NT) (o : DiffOpts) : ∀ (l1 l2 : List Int) (n pr : Nat), pr ≤ n →
    (arrayDiffLoop t o l1 l2 n pr).2 ≤ (arrayDiffLoop t o l1 l2 n pr).1 := by
  intro l1
  induction l1 with
  | nil => intro l2 n pr h; simpa [arrayDiffLoop] using h
  | cons a as ih =>
    intro l2 n pr h
    cases l2 with
    | nil => simpa [arrayDiffLoop] using h
    | cons b bs =>
      simp only [arrayDiffLoop]
      split
      · split
        · exact ih bs _ _ (by omega)
        · exact ih bs _ _ (by omega)
      · exact ih bs _ _ h

example : arrayDiff .i32 { maxErr := 1 } [1, 2, 3, 4] [1, 9, 9, 4] = (2, 1) := by decide
example : arrayDiff .i32 { maxErr := 0, pr8 := 8 } [0, 2] [5, 2] = (1, 1) := by decide   -- "not comparable" is printed whatever -e says

/-! ## the element test on the whole IEEE value domain (NaN, ±Inf, -0.0)

`differsV` / `arrayDiffV` are what the tie replays (`T tools adiff` / `hdiff` lines carry `nan`, `inf`, `-inf`, `-0`);
on finite values they are the `differs` / `arrayDiff` of the sections above. -/

/-- on finite values `differsV` IS `differs` (every number type, every option) -/
theorem differsV_fin (t : NT) (o : DiffOpts) (a b : Int) : differsV t o (.fin a) (.fin b) = differs t o a b := by
  cases t <;> try rfl
  all_goals
    simp only [differsV, differsF, differs, perF, FV.isZero, FV.sub, FV.abs, FV.gt, absQuot, perGt, stored, absDiff, absLimit, oneIsNan, FV.isNan, bne_self_eq_false, Bool.or_false]
    by_cases hp : o.pr8 = 0
    · simp [hp]
    · by_cases ha : a = 0
      · by_cases hb : b = 0 <;> simp [hp, ha, hb]
      · simp [hp, ha]

theorem notComparableV_fin (t : NT) (o : DiffOpts) (a b : Int) :
    notComparableV t o (.fin a) (.fin b) = notComparable t o a b := by
  cases t <;> try rfl
  all_goals
    simp only [notComparableV, notComparable, FV.isZero, stored]
    by_cases ha : a = 0 <;> by_cases hb : b = 0 <;> simp [ha, hb]

theorem arrayDiffLoopV_fin (t : NT) (o : DiffOpts) : ∀ (l1 l2 : List Int) (n pr : Nat),
    arrayDiffLoopV t o (l1.map .fin) (l2.map .fin) n pr = arrayDiffLoop t o l1 l2 n pr := by
  intro l1
  induction l1 with
  | nil => intro l2 n pr; simp [arrayDiffLoopV, arrayDiffLoop]
  | cons a as ih =>
    intro l2 n pr
    cases l2 with
    | nil => simp [arrayDiffLoopV, arrayDiffLoop]
    | cons b bs =>
      simp only [List.map_cons, arrayDiffLoopV, arrayDiffLoop, differsV_fin, notComparableV_fin, ih]

/-- **refinement**: on buffers without special values the loop over `FV` is the loop of the sections above, so every
    statement proved there holds for what the tie replays -/
theorem arrayDiffV_fin (t : NT) (o : DiffOpts) (l1 l2 : List Int) :
    arrayDiffV t o (l1.map .fin) (l2.map .fin) = arrayDiff t o l1 l2 := arrayDiffLoopV_fin t o l1 l2 0 0

/-- **differsV_refl.** No element differs from itself, WHATEVER it holds: a finite number, a NaN (`fabs(NaN - NaN)` is a
    NaN, and a NaN is not greater than the limit), `+Inf` / `-Inf` (`Inf - Inf` is a NaN as well).  Every number type, every
    non-negative `-t` / `-p` limit. -/
theorem differsV_refl (t : NT) (o : DiffOpts) (a : FV) (ht : 0 ≤ o.tl8) (hp : 0 ≤ o.pr8) : differsV t o a a = false := by
  cases a with
  | fin v => rw [differsV_fin]; exact differs_refl t o v ht hp
  | nan => cases t <;> simp [differsV, differsF, perF, FV.isZero, FV.sub, FV.abs, FV.gt, absQuot, perGt, oneIsNan, FV.isNan]
  | pinf => cases t <;> simp [differsV, differsF, perF, FV.isZero, FV.sub, FV.abs, FV.gt, absQuot, perGt, oneIsNan, FV.isNan]
  | ninf => cases t <;> simp [differsV, differsF, perF, FV.isZero, FV.sub, FV.abs, FV.gt, absQuot, perGt, oneIsNan, FV.isNan]

/-- **array_diff is reflexive on every buffer**: a buffer compared with itself (or with a bit-identical one: the model
    does not see more than the values) gives `n_diff = 0` and prints nothing - also when it holds NaN / ±Inf -/
theorem arrayDiffV_self (t : NT) (o : DiffOpts) (ht : 0 ≤ o.tl8) (hp : 0 ≤ o.pr8) : ∀ (l : List FV) (n pr : Nat),
    arrayDiffLoopV t o l l n pr = (n, pr) := by
  intro l
  induction l with
  | nil => intro n pr; rfl
  | cons a as ih => intro n pr; simp only [arrayDiffLoopV, differsV_refl t o a ht hp]; exact ih n pr

example : differsV .f64 { tl8 := 4 } .nan .nan = false ∧ differsV .f32 { pr8 := 4 } .pinf .pinf = false
    ∧ differsV .f32 { pr8 := 4 } .ninf .ninf = false := by decide   -- the hypotheses of differsV_refl hold for real option sets
example : arrayDiffV .f64 { maxErr := 1 } [.fin 8, .pinf, .nan, .fin 0] [.fin 8, .ninf, .fin 8, .ninf] = (3, 1) := by decide  -- NaN ↔ 1.0 counted
example : arrayDiffV .f32 {} [.nan, .pinf, .ninf, .fin 0, .fin (-3)] [.nan, .pinf, .ninf, .fin 0, .fin (-3)] = (0, 0) := by decide

theorem FV.sub_abs_comm (a b : FV) : (a.sub b).abs = (b.sub a).abs := by
  cases a <;> cases b <;> simp [FV.sub, FV.abs]
  omega

/-- **differsV_symm (absolute criterion)**: without `-p` the verdict does not depend on the order of the files, special
    values included -/
theorem differsV_symm (t : NT) (o : DiffOpts) (a b : FV) (hp : o.pr8 = 0) : differsV t o a b = differsV t o b a := by
  cases t
  case f32 | f64 => simp only [differsV, differsF, hp, ne_eq, not_true_eq_false, if_false, FV.sub_abs_comm a b, oneIsNan, bne_comm (a := a.isNan)]
  all_goals
    cases a <;> cases b <;> simp only [differsV]
    exact differs_symm _ o _ _ hp

example : differsV .f32 {} (.fin 0) .pinf = differsV .f32 {} .pinf (.fin 0) := differsV_symm _ _ _ _ rfl

/-- **what the default test (no `-t`, no `-p`) of the floating-point branches lets pass**: a pair is NOT counted exactly when
    the two elements hold the same value.  (Before fix 27db4d9 a NaN on one side was let pass too: `fabs(NaN - x) > limit` is
    false; finding `hdiff-nan-difference-not-greater-than-limit`, now fixed with `ONE_IS_NAN`.) -/
theorem differsF_default_iff (a b : FV) : differsF {} a b = false ↔ a = b := by
  cases a <;> cases b <;> simp [differsF, FV.sub, FV.abs, FV.gt, oneIsNan, FV.isNan]
  omega

/-- ... so a single changed element is flagged in both orders, whatever the two values are: number ↔ other number,
    number ↔ ±Inf, +Inf ↔ -Inf, number / ±Inf ↔ NaN -/
theorem single_change_flaggedF (a b : FV) (h : a ≠ b) :
    differsF {} a b = true ∧ differsF {} b a = true := by
  constructor
  · cases hd : differsF {} a b
    · exact absurd ((differsF_default_iff a b).mp hd) h
    · rfl
  · cases hd : differsF {} b a
    · exact absurd ((differsF_default_iff b a).mp hd).symm h
    · rfl

/-- a NaN in exactly one file is a difference for every `-t` limit and every `-p` ratio, in both orders ... -/
theorem nan_always_differs (o : DiffOpts) (b : FV) (hb : b ≠ .nan) :
    differsF o .nan b = true ∧ differsF o b .nan = true := by
  cases b <;> simp_all [differsF, oneIsNan, FV.isNan] <;> (split <;> simp)

/-- ... and two NaNs are equal content for every option -/
theorem nan_nan_equal (o : DiffOpts) : differsF o .nan .nan = false := by
  simp [differsF, oneIsNan, FV.isNan, perF, FV.isZero, FV.sub, FV.abs, FV.gt, absQuot, perGt]

example : differsF {} .nan (.fin 8) = true ∧ differsF {} (.fin 8) .nan = true := by decide      -- NaN ↔ 1.0 : reported
example : differsF {} .pinf .ninf = true ∧ differsF {} .pinf (.fin 8) = true ∧ differsF {} .pinf .pinf = false := by decide
example : differsF { pr8 := 4 } .pinf .ninf = false ∧ differsF { pr8 := 4 } (.fin 8) .pinf = true := by decide  -- -p: (B-A)/A = Inf/Inf

/-- the `-e` cap never changes the verdict, special values included -/
theorem loopV_fst_cap (t : NT) (o : DiffOpts) (m1 m2 : Nat) : ∀ (l1 l2 : List FV) (n pr1 pr2 : Nat),
    (arrayDiffLoopV t { o with maxErr := m1 } l1 l2 n pr1).1 = (arrayDiffLoopV t { o with maxErr := m2 } l1 l2 n pr2).1 := by
  intro l1
  induction l1 with
  | nil => intro l2 n pr1 pr2; simp [arrayDiffLoopV]
  | cons a as ih =>
    intro l2 n pr1 pr2
    cases l2 with
    | nil => simp [arrayDiffLoopV]
    | cons b bs =>
      have hd : differsV t { o with maxErr := m1 } a b = differsV t { o with maxErr := m2 } a b := by
        cases t <;> rfl
      simp only [arrayDiffLoopV, hd]
      split
      · split <;> split <;> exact ih bs _ _ _
      · exact ih bs _ _ _

theorem cap_only_printingV (t : NT) (o : DiffOpts) (m1 m2 : Nat) (l1 l2 : List FV) :
    (arrayDiffV t { o with maxErr := m1 } l1 l2).1 = (arrayDiffV t { o with maxErr := m2 } l1 l2).1 :=
  loopV_fst_cap t o m1 m2 l1 l2 0 0 0

/-! ## object matching and exit status -/

theorem sum_eq_zero_iff : ∀ (l : List Nat), l.sum = 0 ↔ ∀ x ∈ l, x = 0 := by
  intro l
  induction l with
  | nil => simp
  | cons a as ih => simp only [List.sum_cons, List.mem_cons, forall_eq_or_imp]; rw [← ih]; omega

/-- **exit_code_iff.** On the model of the top-level code (`hdiff()` + `match()` + `main`), the exit status is 0 exactly when
    no object present in BOTH match-table rows reports a difference, the dimension comparison reports none and the global
    attributes report none. Objects present in only one file do not enter the verdict at all. -/
theorem exit_code_iff (pd : Str → Nat) (l1 l2 : List Str) (dd gd : Nat) :
    exitCode pd l1 l2 dd gd = 0 ↔
      ((∀ e ∈ matchTable l1 l2, e.2.1 = true → e.2.2 = true → pd e.1 = 0) ∧ dd = 0 ∧ gd = 0) := by
  unfold exitCode matchFound
  constructor
  · intro h
    split at h
    · rename_i hs
      have h0 : (List.map (fun e => if (e.2.1 && e.2.2) = true then pd e.1 else 0) (matchTable l1 l2)).sum = 0 := by omega
      refine ⟨?_, by omega, by omega⟩
      intro e he h1 h2
      have := (sum_eq_zero_iff _).mp h0 _ (List.mem_map.mpr ⟨e, he, rfl⟩)
      simpa [h1, h2] using this
    · simp at h
  · rintro ⟨h, hd, hg⟩
    have h0 : (List.map (fun e => if (e.2.1 && e.2.2) = true then pd e.1 else 0) (matchTable l1 l2)).sum = 0 := by
      apply (sum_eq_zero_iff _).mpr
      intro x hx
      obtain ⟨e, he, rfl⟩ := List.mem_map.mp hx
      cases h1 : e.2.1 <;> cases h2 : e.2.2 <;> simp
      exact h e he h1 h2
    rw [h0, hd, hg]; rfl

/-- an object that exists only in the second file is NOT a difference for hdiff (exit status 0) -/
example : exitCode (fun _ => 0) [['a']] [['a'], ['b']] 0 0 = 0 := by decide
/-- the merge assumes sorted names: with the same two objects listed in different (traversal) orders, `a` is never compared,
    so even a differing `a` gives exit status 0 -/
example : matchTable [['z'], ['a']] [['a'], ['z']] = [(['a'], false, true), (['z'], true, true), (['a'], true, false)] := by decide
example : exitCode (fun n => if n = ['a'] then 7 else 0) [['z'], ['a']] [['a'], ['z']] 0 0 = 0 := by decide

/-! ### `strcmp` is a strict total order; on sorted lists the merge finds exactly the common names -/

theorem strcmp_eq : ∀ (a b : Str), strcmp a b = .eq ↔ a = b := by
  intro a
  induction a with
  | nil => intro b; cases b <;> simp [strcmp]
  | cons x xs ih =>
    intro b
    cases b with
    | nil => simp [strcmp]
    | cons y ys =>
      simp only [strcmp]
      split
      · rename_i h; simp; intro e; subst e; omega
      · split
        · rename_i h; simp; intro e; subst e; omega
        · rename_i h1 h2
          have e : x.toNat = y.toNat := by omega
          have : x = y := by rw [← Char.ofNat_toNat x, ← Char.ofNat_toNat y, e]
          subst this; simp [ih ys]

/-- **hdiff F F exits 0** on the model of the top-level code, for a dataset holding any values (NaN / ±Inf included) and
    any non-negative `-t` / `-p` -/
theorem hdiff_self_exit0 (t : NT) (o : DiffOpts) (ht : 0 ≤ o.tl8) (hp : 0 ≤ o.pr8) (l : List FV) (nm : Str) :
    exitCode (fun _ => (arrayDiffV t o l l).1) [nm] [nm] 0 0 = 0 := by
  unfold arrayDiffV
  rw [arrayDiffV_self t o ht hp]
  simp [exitCode, matchFound, matchTable, matchLoop, (strcmp_eq nm nm).mpr rfl]

theorem strcmp_swap : ∀ (a b : Str), strcmp a b = .lt ↔ strcmp b a = .gt := by
  intro a
  induction a with
  | nil => intro b; cases b <;> simp [strcmp]
  | cons x xs ih =>
    intro b
    cases b with
    | nil => simp [strcmp]
    | cons y ys =>
      simp only [strcmp]
      by_cases h1 : x.toNat < y.toNat
      · have : ¬ (y.toNat < x.toNat) := by omega
        simp [h1, this]
      · by_cases h2 : x.toNat > y.toNat
        · simp [h1, h2]
        · have h3 : ¬ (y.toNat < x.toNat) := by omega
          have h4 : ¬ (y.toNat > x.toNat) := by omega
          simp [h1, h2, h3, h4, ih ys]

theorem strcmp_trans : ∀ (a b c : Str), strcmp a b = .lt → strcmp b c = .lt → strcmp a c = .lt := by
  intro a
  induction a with
  | nil => intro b c h1 h2; cases b <;> cases c <;> simp_all [strcmp]
  | cons x xs ih =>
    intro b c h1 h2
    cases b with
    | nil => simp [strcmp] at h1
    | cons y ys =>
      cases c with
      | nil => simp [strcmp] at h2
      | cons z zs =>
        simp only [strcmp] at h1 h2 ⊢
        by_cases hxy : x.toNat < y.toNat
        · by_cases hyz : y.toNat < z.toNat
          · have : x.toNat < z.toNat := by omega
            simp [this]
          · by_cases hyz2 : y.toNat > z.toNat
            · simp [hyz, hyz2] at h2
            · have : x.toNat < z.toNat := by omega
              simp [this]
        · by_cases hxy2 : x.toNat > y.toNat
          · simp [hxy, hxy2] at h1
          · simp only [hxy, hxy2, if_false] at h1
            by_cases hyz : y.toNat < z.toNat
            · have : x.toNat < z.toNat := by omega
              simp [this]
            · by_cases hyz2 : y.toNat > z.toNat
              · simp [hyz, hyz2] at h2
              · simp only [hyz, hyz2, if_false] at h2
                have e1 : ¬ (x.toNat < z.toNat) := by omega
                have e2 : ¬ (x.toNat > z.toNat) := by omega
                simp only [e1, e2, if_false]
                exact ih ys zs h1 h2

/-- strictly increasing in `strcmp` order -/
def SortedS (l : List Str) : Prop := l.Pairwise fun a b => strcmp a b = .lt

theorem not_mem_of_lt_all (n : Str) (l : List Str) (h : ∀ x ∈ l, strcmp n x = .lt) : n ∉ l := by
  intro hm
  have := h n hm
  rw [(strcmp_eq n n).mpr rfl] at this
  cases this

/-- **match_sorted_complete.** If both object lists are strictly sorted by name, the rows of the match table flagged for
    both files are exactly the names the two files have in common (so every common object is compared). -/
theorem match_sorted_complete : ∀ (fuel : Nat) (l1 l2 : List Str), l1.length + l2.length < fuel → SortedS l1 → SortedS l2 →
    ∀ n, (n, true, true) ∈ matchLoop fuel l1 l2 ↔ (n ∈ l1 ∧ n ∈ l2) := by
  intro fuel
  induction fuel with
  | zero => intro l1 l2 h; omega
  | succ fuel ih =>
    intro l1 l2 hf s1 s2 n
    cases l1 with
    | nil => cases l2 <;> simp [matchLoop]
    | cons a as =>
      cases l2 with
      | nil => simp [matchLoop]
      | cons b bs =>
        have sa := List.pairwise_cons.mp s1
        have sb := List.pairwise_cons.mp s2
        simp only [matchLoop]
        cases hc : strcmp a b with
        | eq =>
          have hab : a = b := (strcmp_eq a b).mp hc
          subst hab
          simp only [List.mem_cons, Prod.mk.injEq, and_true]
          rw [ih as bs (by simp at hf; omega) sa.2 sb.2 n]
          constructor
          · rintro (h | ⟨h1, h2⟩)
            · exact ⟨Or.inl h, Or.inl h⟩
            · exact ⟨Or.inr h1, Or.inr h2⟩
          · rintro ⟨h1 | h1, h2 | h2⟩
            · exact Or.inl h1
            · exact Or.inl h1
            · exact Or.inl h2
            · exact Or.inr ⟨h1, h2⟩
        | lt =>
          -- a is smaller than everything in b :: bs
          have hnot : a ∉ b :: bs := by
            apply not_mem_of_lt_all
            intro x hx
            rcases List.mem_cons.mp hx with rfl | hx
            · exact hc
            · exact strcmp_trans a b x hc (sb.1 x hx)
          have hmem : (n, true, true) ∈ (a, true, false) :: matchLoop fuel as (b :: bs) ↔ (n, true, true) ∈ matchLoop fuel as (b :: bs) := by
            constructor
            · intro h; rcases List.mem_cons.mp h with h | h
              · exact absurd h (by simp)
              · exact h
            · intro h; exact List.mem_cons_of_mem _ h
          rw [hmem, ih as (b :: bs) (by simp at hf ⊢; omega) sa.2 s2 n]
          constructor
          · rintro ⟨h1, h2⟩; exact ⟨List.mem_cons_of_mem _ h1, h2⟩
          · rintro ⟨h1, h2⟩
            rcases List.mem_cons.mp h1 with rfl | h1
            · exact absurd h2 hnot
            · exact ⟨h1, h2⟩
        | gt =>
          have hc' : strcmp b a = .lt := (strcmp_swap b a).mpr hc
          have hnot : b ∉ a :: as := by
            apply not_mem_of_lt_all
            intro x hx
            rcases List.mem_cons.mp hx with rfl | hx
            · exact hc'
            · exact strcmp_trans b a x hc' (sa.1 x hx)
          have hmem : (n, true, true) ∈ (b, false, true) :: matchLoop fuel (a :: as) bs ↔ (n, true, true) ∈ matchLoop fuel (a :: as) bs := by
            constructor
            · intro h; rcases List.mem_cons.mp h with h | h
              · exact absurd h (by simp)
              · exact h
            · intro h; exact List.mem_cons_of_mem _ h
          rw [hmem, ih (a :: as) bs (by simp at hf ⊢; omega) s1 sb.2 n]
          constructor
          · rintro ⟨h1, h2⟩; exact ⟨h1, List.mem_cons_of_mem _ h2⟩
          · rintro ⟨h1, h2⟩
            rcases List.mem_cons.mp h2 with rfl | h2
            · exact absurd h1 hnot
            · exact ⟨h1, h2⟩

theorem match_table_sorted (l1 l2 : List Str) (s1 : SortedS l1) (s2 : SortedS l2) (n : Str) :
    (n, true, true) ∈ matchTable l1 l2 ↔ (n ∈ l1 ∧ n ∈ l2) :=
  match_sorted_complete _ l1 l2 (by omega) s1 s2 n

example : SortedS ["grp0".toList, "grp0/sds1".toList, "img0".toList, "sds0".toList] := by
  unfold SortedS; decide

/-! ## hdp: dump order -/

theorem full_zeros : ∀ (dims : List Nat), full dims (dims.map fun _ => 0) dims = true := by
  intro dims; induction dims with
  | nil => rfl
  | cons d ds ih => simp [full, ih]

theorem inRange_zeros : ∀ (dims : List Nat), inRange dims (dims.map fun _ => 0) dims := by
  intro dims; induction dims with
  | nil => simp [inRange]
  | cons d ds ih => exact ⟨by simp, ih⟩

/-- **dump order = row major.** The k-th value printed by `hdp dumpsds -d` / `dumpgr -d` (one whole-object read, buffer
    printed front to back) is the element whose row-major offset is k: `dumpIndices` enumerates the cells in exactly the
    order of their offsets 0, 1, 2, ... -/
theorem dump_rowmajor (dims : List Nat) : (dumpIndices dims).map (offset dims) = List.range (prod dims) :=
  full_cells dims _ dims (full_zeros dims) (inRange_zeros dims)

theorem dump_kth (dims : List Nat) (k : Nat) (hk : k < prod dims) :
    ((dumpIndices dims)[k]?).map (offset dims) = some k := by
  have h := dump_rowmajor dims
  have : ((dumpIndices dims).map (offset dims))[k]? = some k := by rw [h]; simp [hk]
  simpa using this

example : dumpIndices [2, 3] = [[0, 0], [0, 1], [0, 2], [1, 0], [1, 1], [1, 2]] := by decide

/-! ## hdfimport: shape rule -/

/-- **import_shape.** The header `nplanes nrows ncols` is rejected iff `ncols < 2`, `nrows < 2` or `nplanes < 1`; otherwise the
    SDS has rank 3 `[nplanes, nrows, ncols]` when `nplanes > 1` and rank 2 `[nrows, ncols]` when `nplanes = 1` (slowest dimension
    first, so the data "ordered by rows, then by planes" are in row-major order of that shape). -/
theorem import_shape (np nr nc : Int) :
    (importShape np nr nc = none ↔ (nc < 2 ∨ nr < 2 ∨ np < 1)) ∧
    (2 ≤ nc → 2 ≤ nr → 1 < np → importShape np nr nc = some [np, nr, nc]) ∧
    (2 ≤ nc → 2 ≤ nr → np = 1 → importShape np nr nc = some [nr, nc]) := by
  unfold importShape
  refine ⟨?_, ?_, ?_⟩
  · by_cases hc : nc < 2 ∨ nr < 2 ∨ np < 1
    · simp [hc]
    · simp only [hc, if_false, iff_false]
      split <;> simp
  · intro h1 h2 h3
    have hc : ¬ (nc < 2 ∨ nr < 2 ∨ np < 1) := by omega
    have : np > 1 := by omega
    simp [hc, this]
  · intro h1 h2 h3
    have hc : ¬ (nc < 2 ∨ nr < 2 ∨ np < 1) := by omega
    have : ¬ (np > 1) := by omega
    simp [hc, this]

/-- the number of values consumed (`dims[0]*dims[1]*dims[2]`) equals the number of elements of the SDS for every accepted header -/
theorem import_count (np nr nc : Int) (s : List Int) (h : importShape np nr nc = some s) :
    s.foldl (· * ·) 1 = nc * nr * np := by
  unfold importShape at h
  split at h
  · cases h
  · rename_i hc
    split at h
    · cases h; simp [List.foldl]; rw [Int.mul_comm np nr, Int.mul_comm (nr * np) nc, Int.mul_assoc]
    · cases h
      have : np = 1 := by omega
      subst this; simp [List.foldl]; rw [Int.mul_comm]

example : importShape 1 3 4 = some [3, 4] ∧ importShape 2 3 4 = some [2, 3, 4] ∧ importShape 2 1 4 = none ∧ importShape 0 3 4 = none := by decide

/-! ## hdfimport: one run over several input files

`process` uses one input descriptor for all the files of the command line.  The statements below are about the loop as it
is written: whatever the descriptor holds when a pass begins (`fl` is arbitrary, also for the first file: the descriptor is
an uninitialised local), every file is read with the reader its own format asks for, gets the type and shape it would get
alone, and a run is refused exactly when one of its files is. -/

/-- the one flag `gtype` raises for a format (none for the integer formats) -/
def impFlagsOf : ImpFmt → ImpFlags
  | .text => { isText := true }
  | .fp32 => { isFp32 := true }
  | .fp64 => { isFp64 := true }
  | .hdf => { isHdf := true }
  | _ => {}

/-- SDS type the manual promises -/
def impDocType : ImpFmt → Option ImpOut → Option ImpOut
  | .text, o => some (o.getD .fp32)
  | .fp64, none => some .fp32
  | .fp64, some .fp64 => some .fp64
  | .fp64, some _ => none
  | .fp32, none => some .fp32
  | .in32, none => some .int32
  | .in16, none => some .int16
  | .in08, none => some .int8
  | .hdf, o => some (o.getD .fp32)
  | _, some _ => none

theorem import_pass_initial (fl : ImpFlags) (f : ImpFile) : impPass fl f = impPass {} f := rfl

theorem import_pass_spec (fl : ImpFlags) (f : ImpFile) (fl' : ImpFlags) (r : ImpRes) (h : impPass fl f = some (fl', r)) :
    fl' = impFlagsOf f.fmt ∧ r.rd = f.fmt.layout ∧ some r.ty = impDocType f.fmt f.opt ∧
    importShape f.np f.nr f.nc = some r.shape := by
  obtain ⟨fmt, opt, np, nr, nc⟩ := f
  unfold impPass at h
  cases hs : importShape np nr nc with
  | none => cases fmt <;> rcases opt with _ | o <;> (try cases o) <;> simp [gtype, impReset, hs] at h
  | some sh =>
    cases fmt <;> rcases opt with _ | o <;> (try cases o) <;>
      simp [gtype, impReset, hs, impReader, impSdsType] at h <;>
      (obtain ⟨h1, h2⟩ := h; subst h1; subst h2; simp [impFlagsOf, ImpFmt.layout, impDocType])

theorem import_pass_refused_iff (fl : ImpFlags) (f : ImpFile) :
    impPass fl f = none ↔ (impDocType f.fmt f.opt = none ∨ importShape f.np f.nr f.nc = none) := by
  obtain ⟨fmt, opt, np, nr, nc⟩ := f
  unfold impPass
  cases hs : importShape np nr nc <;> cases fmt <;> rcases opt with _ | o <;> (try cases o) <;>
    simp [gtype, impReset, impDocType]

theorem import_run_independent (fl : ImpFlags) (fs : List ImpFile) :
    importRun fl fs = fs.mapM (fun f => (impPass {} f).map (·.2)) := by
  induction fs generalizing fl with
  | nil => rfl
  | cons f rest ih =>
    rw [importRun, import_pass_initial fl f, List.mapM_cons]
    cases h : impPass {} f with
    | none => simp
    | some p =>
      obtain ⟨fl', r⟩ := p
      simp only [ih fl', Option.map_some]
      cases hr : rest.mapM (fun f => (impPass {} f).map (·.2)) <;> simp

theorem import_run_reader (fl : ImpFlags) (fs : List ImpFile) (rs : List ImpRes) (h : importRun fl fs = some rs) :
    rs.map (·.rd) = fs.map (·.fmt.layout) := by
  induction fs generalizing fl rs with
  | nil => simp [importRun] at h; subst h; rfl
  | cons f rest ih =>
    rw [importRun] at h
    cases hp : impPass fl f with
    | none => simp [hp] at h
    | some p =>
      obtain ⟨fl', r⟩ := p
      simp only [hp] at h
      cases hr : importRun fl' rest with
      | none => simp [hr] at h
      | some rs' =>
        simp [hr] at h; subst h
        have := import_pass_spec fl f fl' r hp
        simp [ih fl' rs' hr, this.2.1]

theorem import_run_results (fl : ImpFlags) (fs : List ImpFile) (rs : List ImpRes) (h : importRun fl fs = some rs) :
    rs.map (fun r => (some r.ty, some r.shape)) = fs.map (fun f => (impDocType f.fmt f.opt, importShape f.np f.nr f.nc)) := by
  induction fs generalizing fl rs with
  | nil => simp [importRun] at h; subst h; rfl
  | cons f rest ih =>
    rw [importRun] at h
    cases hp : impPass fl f with
    | none => simp [hp] at h
    | some p =>
      obtain ⟨fl', r⟩ := p
      simp only [hp] at h
      cases hr : importRun fl' rest with
      | none => simp [hr] at h
      | some rs' =>
        simp [hr] at h; subst h
        have := import_pass_spec fl f fl' r hp
        simp [ih fl' rs' hr, this.2.2.1, this.2.2.2]

theorem import_run_refused_iff (fl : ImpFlags) (fs : List ImpFile) :
    importRun fl fs = none ↔ ∃ f ∈ fs, impDocType f.fmt f.opt = none ∨ importShape f.np f.nr f.nc = none := by
  induction fs generalizing fl with
  | nil => simp [importRun]
  | cons f rest ih =>
    rw [importRun]
    cases hp : impPass fl f with
    | none =>
      have := (import_pass_refused_iff fl f).1 hp
      simp [this]
    | some p =>
      obtain ⟨fl', r⟩ := p
      have hn : ¬ (impDocType f.fmt f.opt = none ∨ importShape f.np f.nr f.nc = none) := by
        intro hc; have := (import_pass_refused_iff fl f).2 hc; simp [hp] at this
      simp only [Option.map_eq_none_iff, ih fl', List.mem_cons, exists_eq_or_imp, hn, false_or]

/-- hypotheses are satisfiable: an FP32 file followed by an FP64 file (imported as FLOAT32) followed by a text file -/
example : importRun {} [⟨.fp32, none, 1, 3, 4⟩, ⟨.fp64, none, 1, 4, 5⟩, ⟨.text, some .int16, 2, 2, 3⟩] =
    some [⟨.fp32, [3, 4], .raw 4⟩, ⟨.fp32, [4, 5], .raw 8⟩, ⟨.int16, [2, 2, 3], .scan⟩] := by decide

/-- the per-pass reset is what the statements rest on: with the FP32 flag of an earlier file still up, `gfloat` takes an FP64
    file four bytes at a time, and with the TEXT flag still up every binary file is scanned as text -/
example : impReader { isFp32 := true, isFp64 := true } (some .fp32) = .raw 4 ∧
    impReader { isText := true, isFp32 := true } (some .fp32) = .scan ∧
    ImpFmt.fp64.layout = .raw 8 := by decide

end H4.Props.C19
