import H4.Lemmas.DDAdded
import H4.DDConfig
/-! # C17 — a crash while adding objects never damages what was already in the file (DD-directory level)

Built on the C12 model `H4.DD`, extended with the ordered log of physical writes (`File.log`, kinds `Wr`: block header,
`nextoffset` patch, whole DD list, single descriptor, element data, reservation byte), at the granularity the C issues
them: `HTIupdate_dd` = one 12-byte write, `HTInew_dd_block` = header write + DD-list write (+ reservation byte and
`nextoffset` patch when not caching), `HTPsync` = per dirty block, head to tail, one header write then one DD-list write.

A *session* starts with `Hopen` (state `s0`, DD caching on by default) and consists of adding calls (`adds`): `Hputelement`
/ `Hstartwrite` of tag/refs that do not exist, `Hdupdd` to a new tag/ref, and read-only calls; no delete, no rewrite, no
`Hsync`/`Hcache`/`Hclose` (those are the flush). -/
namespace H4.Props.C17
open H4.DD H4.Bitvect H4.Gen.Hdf

/-- everything stored lies below `f_end_off`: every DD block and every element extent -/
def ExtOK (s : File) : Prop :=
  (∀ b ∈ s.blocks, b.myoff + (NDDS_SZ + OFFSET_SZ) + b.dds.length * DD_SZ ≤ s.fEnd) ∧
  (∀ d ∈ s.slots, d.off + d.len ≤ (s.fEnd : Int))

theorem foldl_dds_bound (l : List DD) : ∀ (e : Nat),
    ∀ d ∈ l, d.off + d.len ≤ ((l.foldl (fun (e : Nat) (d : DD) => if d.off + d.len > (e : Int) then (d.off + d.len).toNat else e) e : Nat) : Int) := by
  induction l with
  | nil => intro e d hd; cases hd
  | cons a t ih =>
    intro e d hd
    simp only [List.foldl_cons]
    rcases List.mem_cons.mp hd with rfl | hd
    · have := foldl_dds_ge t (if d.off + d.len > (e : Int) then (d.off + d.len).toNat else e)
      have h0 : d.off + d.len ≤ ((if d.off + d.len > (e : Int) then (d.off + d.len).toNat else e : Nat) : Int) := by
        split <;> omega
      omega
    · exact ih _ d hd

theorem endOff_bounds (blocks : List Block) : ∀ (e : Nat),
    (∀ b ∈ blocks, b.myoff + (NDDS_SZ + OFFSET_SZ) + b.dds.length * DD_SZ ≤ blocks.foldl (fun (e : Nat) (b : Block) =>
        let e := max e (b.myoff + (NDDS_SZ + OFFSET_SZ) + b.dds.length * DD_SZ)
        b.dds.foldl (fun (e : Nat) (d : DD) => if d.off + d.len > (e : Int) then (d.off + d.len).toNat else e) e) e) ∧
    (∀ b ∈ blocks, ∀ d ∈ b.dds, d.off + d.len ≤ ((blocks.foldl (fun (e : Nat) (b : Block) =>
        let e := max e (b.myoff + (NDDS_SZ + OFFSET_SZ) + b.dds.length * DD_SZ)
        b.dds.foldl (fun (e : Nat) (d : DD) => if d.off + d.len > (e : Int) then (d.off + d.len).toNat else e) e) e : Nat) : Int)) := by
  induction blocks with
  | nil => intro e; refine ⟨?_, ?_⟩ <;> (intro b hb; cases hb)
  | cons a t ih =>
    intro e
    simp only [List.foldl_cons]
    have hstep := foldl_dds_ge a.dds (max e (a.myoff + (NDDS_SZ + OFFSET_SZ) + a.dds.length * DD_SZ))
    have hm2 : a.myoff + (NDDS_SZ + OFFSET_SZ) + a.dds.length * DD_SZ ≤
        max e (a.myoff + (NDDS_SZ + OFFSET_SZ) + a.dds.length * DD_SZ) := Nat.le_max_right _ _
    have hmono := (endOff_aux t (a.dds.foldl (fun (e : Nat) (d : DD) => if d.off + d.len > (e : Int) then (d.off + d.len).toNat else e)
      (max e (a.myoff + (NDDS_SZ + OFFSET_SZ) + a.dds.length * DD_SZ)))).1
    obtain ⟨h1, h2⟩ := ih (a.dds.foldl (fun (e : Nat) (d : DD) => if d.off + d.len > (e : Int) then (d.off + d.len).toNat else e)
      (max e (a.myoff + (NDDS_SZ + OFFSET_SZ) + a.dds.length * DD_SZ)))
    constructor
    · intro b hb
      rcases List.mem_cons.mp hb with rfl | hb
      · exact Nat.le_trans hm2 (Nat.le_trans hstep hmono)
      · exact h1 b hb
    · intro b hb d hd
      rcases List.mem_cons.mp hb with rfl | hb
      · have := foldl_dds_bound b.dds (max e (b.myoff + (NDDS_SZ + OFFSET_SZ) + b.dds.length * DD_SZ)) d hd
        exact Int.le_trans this (Int.ofNat_le.mpr hmono)
      · exact h2 b hb d hd

/-- **right after `Hopen`** the end-of-file offset the library computes bounds every DD block and every element extent -/
theorem open_end_bounds (cfg : Cfg) {s s0 : File} (h : Inv cfg s) (ho : hreopen cfg s = some s0) :
    Inv cfg s0 ∧ ExtOK s0 ∧ s0.cache = defaultCache ∧ (∀ b ∈ s0.blocks, b.dirty = false) ∧ s0.log = [] ∧ s0.abs.Perm s.abs := by
  obtain ⟨s', hs', hinv', hperm⟩ := hreopen_inv cfg h
  rw [ho] at hs'
  simp only [Option.some.injEq] at hs'
  subst hs'
  -- unfold the construction of the state
  unfold hreopen at ho
  cases hst : htpStart (hclose s).disk with
  | none => rw [hst] at ho; cases ho
  | some s1 =>
    rw [hst] at ho
    simp only [Option.some.injEq] at ho
    subst ho
    have hbd := hinquire_bd cfg s1 DFTAG_VERSION 1
    unfold htpStart at hst
    cases hrc : readChain (hclose s).disk (hclose s).disk.length MAGICLEN with
    | none => rw [hrc] at hst; cases hst
    | some blocks =>
      rw [hrc] at hst
      simp only at hst
      cases hreg : registerAll [] (slotsOf blocks) with
      | none => rw [hreg] at hst; cases hst
      | some tags =>
        rw [hreg] at hst
        simp only [Option.some.injEq] at hst
        have hb1 : s1.blocks = blocks := by rw [← hst]
        have hf1 : s1.fEnd = endOff blocks := by rw [← hst]
        have hc1 : s1.cache = defaultCache := by rw [← hst]
        have hl1 : s1.log = [] := by rw [← hst]
        have hdirty : ∀ b ∈ blocks, b.dirty = false := by
          have := decode_synced h.wf h.disk
          unfold decodeBlocks syncedDisk at this
          rw [hrc] at this
          simp only [Option.some.injEq] at this
          rw [this]
          intro b hb
          obtain ⟨b0, _, rfl⟩ := List.mem_map.mp hb
          rfl
        have hcache : s1.cache = true := by rw [hc1]; decide
        have hmono := hinquire_mono cfg hcache DFTAG_VERSION 1
        have hfe : s1.fEnd ≤ (hinquire cfg s1 DFTAG_VERSION 1).2.2.fEnd := hmono.2.1
        have hext1 := endOff_bounds blocks 0
        have e : s1.fEnd = endOff blocks := hf1
        unfold endOff at e
        refine ⟨hinv', ⟨?_, ?_⟩, by rw [hmono.1, hc1], by rw [hbd.1, hb1]; exact hdirty, by rw [hbd.2.2, hl1], hperm⟩
        · rw [hbd.1, hb1]
          intro b hb
          have := hext1.1 b hb
          omega
        · show ∀ d ∈ slotsOf (hinquire cfg s1 DFTAG_VERSION 1).2.2.blocks, _
          rw [hbd.1, hb1]
          intro d hd
          simp only [slotsOf, List.mem_flatMap] at hd
          obtain ⟨b, hb, hdb⟩ := hd
          have := hext1.2 b hb d hdb
          omega

/-! ## (i) nothing is written below the old end of the file before the flush -/

/-- **append_only_before_flush**: from any state of an open file with DD caching on, along any history of adding calls
    (every step guarded, see `H4.DD.guard`; holds for every `Cfg`, in particular for the code as it is), every physical
    write issued starts at or beyond `f_end_off` of the starting state; caching stays on. -/
theorem append_only_before_flush (cfg : Cfg) {s0 : File} (h : Inv cfg s0) (hc : s0.cache = true) (ops : List Op)
    (hg : guarded cfg s0 ops = true) (ha : addingOnly cfg s0 ops = true) :
    ∃ s', (run cfg s0 ops).2 = some s' ∧ s'.cache = true ∧
      ∃ ws, s'.chronLog = s0.chronLog ++ ws ∧ ∀ w ∈ ws, s0.fEnd ≤ w.off := by
  obtain ⟨s', hs', _, hm⟩ := append_only cfg ops s0 h hc hg ha
  obtain ⟨hc', _, ⟨ws, hl, ho⟩, _⟩ := hm
  refine ⟨s', hs', by rw [hc', hc], ws.reverse, ?_, fun w hw => ho w (List.mem_reverse.mp hw)⟩
  unfold File.chronLog
  rw [hl, List.reverse_append]

/-- … and at the start of a session (right after `Hopen`) that offset bounds every descriptor block and every element
    extent of the file, the write log is empty and nothing is pending: so every write of an adding session lies beyond
    everything previously stored. -/
theorem append_only_after_open (cfg : Cfg) {s s0 : File} (h : Inv cfg s) (ho : hreopen cfg s = some s0) (ops : List Op)
    (hg : guarded cfg s0 ops = true) (ha : addingOnly cfg s0 ops = true) :
    ExtOK s0 ∧ ∃ s', (run cfg s0 ops).2 = some s' ∧ ∀ w ∈ s'.chronLog, s0.fEnd ≤ w.off := by
  obtain ⟨hinv0, hext, hc0, _, hl0, _⟩ := open_end_bounds cfg h ho
  have hc : s0.cache = true := by rw [hc0]; decide
  obtain ⟨s', hs', _, ws, hl, hw⟩ := append_only_before_flush cfg hinv0 hc ops hg ha
  refine ⟨hext, s', hs', ?_⟩
  intro w hwm
  rw [hl] at hwm
  unfold File.chronLog at hwm
  rw [hl0] at hwm
  simp at hwm
  exact hw w hwm

/-! ## (ii) every prefix of the flush leaves a file that opens with every old object intact -/

theorem disk_eq_mirror_of_clean {cfg : Cfg} {s : File} (h : Inv cfg s) (hcl : ∀ b ∈ s.blocks, b.dirty = false) :
    s.disk = s.blocks.map mirror := by
  apply List.ext_getElem?
  intro i
  simp only [List.getElem?_map]
  cases hb : s.blocks[i]? with
  | none =>
    have : s.blocks.length ≤ i := by
      rcases Nat.lt_or_ge i s.blocks.length with h' | h'
      · simp [List.getElem?_eq_getElem h'] at hb
      · exact h'
    simp [List.getElem?_eq_none (by rw [h.disk.len]; exact this)]
  | some b =>
    have hi : i < s.disk.length := by
      rw [h.disk.len]
      rcases Nat.lt_or_ge i s.blocks.length with h' | h'
      · exact h'
      · simp [List.getElem?_eq_none h'] at hb
    rw [List.getElem?_eq_getElem hi]
    simp only [Option.map_some, Option.some.injEq]
    exact h.disk.clean i b _ hb (List.getElem?_eq_getElem hi) (hcl b (List.mem_of_getElem? hb))

theorem cutChain_mirror_append : ∀ (blocks : List Block) (off : Nat) (extra : List DBlock), blocks ≠ [] →
    chainFrom off blocks → cutChain (blocks.map mirror ++ extra) = blocks.map clean := by
  intro blocks
  induction blocks with
  | nil => intro _ _ h; exact absurd rfl h
  | cons b rest ih =>
    intro off extra _ hch
    obtain ⟨_, _, _, h4⟩ := hch
    simp only [List.map_cons, List.cons_append, cutChain, mirror, clean]
    cases rest with
    | nil =>
      have hn : b.next = 0 := by simpa [chainFrom] using h4
      simp [hn]
    | cons c cs =>
      have hn : b.next ≠ 0 := by
        obtain ⟨h1, h2, _, _⟩ := h4
        omega
      rw [if_pos hn, ih b.next extra (by simp) h4]

/-- **flush_prefix_safe**: a session starts in a state with nothing pending (as `Hopen`, `Hsync` or `Hclose` leave it),
    DD caching on, and only adds (with the fix of F3/F3′ in: `fixF3`).  Take the state `s'` it reaches and ANY prefix (the
    first `j` writes) of the physical writes of the flush `HTPsync` would issue: the DD chain read from the resulting image
    as `HTPstart` reads it decodes, contains every descriptor that was live at the start of the session, unchanged
    (tag, ref, offset, length), and contains no live descriptor that is not in the directory in memory. -/
theorem flush_prefix_safe (cfg : Cfg) (hfix : cfg.fixF3 = true) {s0 : File} (h : Inv cfg s0) (hc : s0.cache = true)
    (hclean : ∀ b ∈ s0.blocks, b.dirty = false) (ops : List Op)
    (hg : guarded cfg s0 ops = true) (ha : addingOnly cfg s0 ops = true) :
    ∃ s', (run cfg s0 ops).2 = some s' ∧ ∀ j, ∃ chain,
      decodeBlocks (applyWrs s'.disk ((syncWrites s'.blocks).take j)) = some chain ∧
      (∀ x ∈ s0.live, x ∈ liveOf (slotsOf chain)) ∧ (∀ x ∈ liveOf (slotsOf chain), x ∈ s'.live) := by
  obtain ⟨s', hs', hinv', hadd', hm⟩ := adding_history cfg hfix ops s0 h (added_of_clean h hclean) hc hg ha
  refine ⟨s', hs', fun j => ?_⟩
  obtain ⟨old, chain, hold, hchain, h1, h2⟩ := H4.DD.flush_prefix_safe cfg hinv' hadd' j
  refine ⟨chain, hchain, ?_, h2⟩
  -- the chain on disk before the flush is the directory as it was at the start of the session
  have hne' : s'.blocks ≠ [] := by intro e; have := hinv'.wf.ne; simp [e] at this
  have hne0 : s0.blocks ≠ [] := by intro e; have := h.wf.ne; simp [e] at this
  have hold' : decodeBlocks s'.disk = some (cutChain s'.disk) := by
    unfold decodeBlocks
    exact readChain_tri s'.disk [] s'.blocks s'.disk s'.disk [] MAGICLEN _ (by simp)
      (tri_of_added _ _ hadd'.1 hadd'.2) hne' hinv'.disk.chain (by simp) (by rw [hadd'.1]; exact Nat.le_refl _)
  rw [hold'] at hold
  simp only [Option.some.injEq] at hold
  obtain ⟨extra, hext⟩ := hm.2.2.2
  have hcut : cutChain s'.disk = s0.blocks.map clean := by
    rw [hext, disk_eq_mirror_of_clean h hclean]
    exact cutChain_mirror_append s0.blocks MAGICLEN extra hne0 h.disk.chain
  intro x hx
  apply h1
  rw [← hold, hcut]
  have : slotsOf (s0.blocks.map clean) = s0.slots := slotsOf_congr (dview_map_clean _)
  rw [this]
  exact hx

/-- the complete flush is what `HTPsync` does to the disk image (ties `syncWrites`/`applyWrs` to the model's `htpSync`) -/
example : (let s := (run currentCfg (hopenCreate currentCfg 4) [.put 100 1 4, .put 100 2 4, .put 100 3 4, .put 100 4 4, .put 100 5 4]).2.get!
    decide (applyWrs s.disk (syncWrites s.blocks) = (htpSync s).disk)) = true := by decide +kernel

/-- a session on a reopened file with `ndds = 4` that adds 5 elements (a new DD block is needed): all 7 prefixes of the 6 flush
    writes decode and keep the 4 old descriptors -/
example : (let s0 := (run currentCfg (hopenCreate currentCfg 4) [.put 100 1 4, .put 100 2 4, .put 100 3 4, .reopen]).2.get!
    let s := (run currentCfg s0 [.put 101 1 3, .put 101 2 3, .dup 101 3 101 1, .put 101 4 1, .put 101 5 1]).2.get!
    (List.range ((syncWrites s.blocks).length + 1)).map (fun j =>
      match decodeBlocks (applyWrs s.disk ((syncWrites s.blocks).take j)) with
      | none => 0
      | some chain => (liveOf (slotsOf chain)).length)) = [4, 4, 4, 4, 8, 8, 9] := by decide +kernel

/-- before the fix of F3′ (`Cfg.asIs`, caching on) the new block's header was not on disk when its predecessor was linked
    to it: after the first two writes of the flush the file did not open -/
example : (let s0 := (run Cfg.asIs (hopenCreate Cfg.asIs 4) [.put 100 1 4, .put 100 2 4, .put 100 3 4, .reopen]).2.get!
    let s := (run Cfg.asIs s0 [.put 101 1 3, .put 101 2 3]).2.get!
    (decodeBlocks (applyWrs s.disk ((syncWrites s.blocks).take 1))).isSome) = false := by decide +kernel

example : (let s0 := (run currentCfg (hopenCreate currentCfg 4) [.put 100 1 4, .put 100 2 4, .put 100 3 4, .reopen]).2.get!
    guarded currentCfg s0 [.put 101 1 3, .put 101 2 3, .dup 101 3 101 1, .put 101 4 1, .put 101 5 1] &&
    addingOnly currentCfg s0 [.put 101 1 3, .put 101 2 3, .dup 101 3 101 1, .put 101 4 1, .put 101 5 1]) = true := by
  decide +kernel

end H4.Props.C17
